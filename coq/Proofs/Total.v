(** C13: totality of the analysis on its domain.

    [in_domain p]: the Prop reading of [in_domain_b] ([Mon/C13.v]): every function of [p] is
    kinded (K), has its loop-flavoured if-bodies inside loops (P1), declares only names whose
    numeric suffix is below 2^32 and is smaller than 2^32 (S).

    This file adds the last missing piece, no [PSuffixOverflow] under (S): all registered
    names, all labels and the internal names of all values in scope have a suffix below
    [2^32 + j], where [j] counts the names generated so far (at most three per unit of size);
    a probe from a base below the bound ends at most one above it ([Proofs/Probe.v]).

    [run_total : forall p, in_domain p -> exists out, run p = ROk out]. *)
From Coq Require Import Lia.
From SA Require Import Model.
From SA.Proofs Require Import Probe Frames Fuel.
Local Open Scope list_scope.

(** ** The domain *)
Definition in_domain (p : program) : Prop := in_domain_b p = true.

Lemma in_domain_fn p f :
  in_domain p -> In f (functions_of p) ->
  kinded_fn f = true /\ loops_fn f = true /\ names_fn f = true.
Proof.
  unfold in_domain, in_domain_b. intros H Hin. rewrite forallb_forall in H.
  specialize (H f Hin). unfold fn_in_domain_b in H.
  apply andb_prop in H as [H H3]. apply andb_prop in H as [H1 H2]. repeat split; assumption.
Qed.

Lemma in_domain_placed p : in_domain p -> placed p.
Proof. intros H f Hin. destruct (in_domain_fn p f H Hin) as (H1 & H2 & _). split; assumption. Qed.

(** ** The bound on the suffixes *)
Definition names_lt (B : N) (b : block) : Prop :=
  Forall (fun n => sfx n < B) (b_inner b) /\
  Forall (fun n => sfx n < B) (b_labels b) /\
  Forall (fun p => sfx (v_inner (snd p)) < B) (b_values b).
Definition Inv (B : N) (fs : list block) : Prop := Forall (names_lt B) fs.

Lemma inv_stable B : stable (Inv B).
Proof.
  intros g fs Hg H. unfold Inv in *. apply Forall_forall. intros b' Hb'.
  apply in_map_iff in Hb' as (b & <- & Hb). rewrite Forall_forall in H. specialize (H b Hb).
  destruct (Hg b) as (E1 & E2 & E3). unfold names_lt in *. rewrite E1, E2, E3. exact H.
Qed.

Lemma inv_mono B B' fs : B <= B' -> Inv B fs -> Inv B' fs.
Proof.
  intros Hle H. unfold Inv in *. eapply Forall_impl; [|exact H].
  intros b (H1 & H2 & H3). repeat split; (eapply Forall_impl; [|eassumption]); cbn beta; intros; lia.
Qed.

Lemma Forall_sadd (P : string -> Prop) n l : P n -> Forall P l -> Forall P (sadd n l).
Proof.
  intros Hn Hl. unfold sadd. destruct (smem n l); [exact Hl|].
  apply Forall_app. split; [exact Hl | constructor; [exact Hn | constructor]].
Qed.

Lemma Forall_ainsert {V} (P : string * V -> Prop) x v : forall l,
  P (x, v) -> Forall P l -> Forall P (ainsert x v l).
Proof.
  induction l as [|[k w] l IH]; intros Hv Hl; cbn [ainsert].
  - constructor; [exact Hv | constructor].
  - inversion Hl; subst. destruct (String.eqb x k); constructor; auto.
Qed.

Lemma inv_add_inner B n fs : sfx n < B -> Inv B fs -> Inv B (map (add_inner n) fs).
Proof.
  intros Hn H. unfold Inv in *. apply Forall_forall. intros b' Hb'.
  apply in_map_iff in Hb' as (b & <- & Hb). rewrite Forall_forall in H.
  destruct (H b Hb) as (H1 & H2 & H3). repeat split; cbn; try assumption.
  apply Forall_sadd; assumption.
Qed.

Lemma inv_add_label B n fs : sfx n < B -> Inv B fs -> Inv B (map (add_label n) fs).
Proof.
  intros Hn H. unfold Inv in *. apply Forall_forall. intros b' Hb'.
  apply in_map_iff in Hb' as (b & <- & Hb). rewrite Forall_forall in H.
  destruct (H b Hb) as (H1 & H2 & H3). repeat split; cbn; try assumption.
  apply Forall_sadd; assumption.
Qed.

Lemma inv_set_value B x v fs :
  sfx (v_inner v) < B -> Inv B fs ->
  Inv B (match fs with b :: r => set_value x v b :: r | [] => [] end).
Proof.
  intros Hv H. destruct fs as [|b r]; [exact H|]. unfold Inv in *. inversion H as [|? ? Hb Hr]; subst.
  constructor; [|exact Hr]. destruct Hb as (H1 & H2 & H3). repeat split; cbn; try assumption.
  apply Forall_ainsert; assumption.
Qed.

Lemma inv_push B fs : Inv B fs -> Inv B (new_child fs :: fs).
Proof.
  intro H. constructor; [|exact H]. destruct fs as [|p r]; cbn [new_child].
  - repeat split; constructor.
  - inversion H as [|? ? (H1 & H2 & H3) Hr]; subst. repeat split; cbn; try assumption. constructor.
Qed.

Lemma inv_pop B c p r : Inv B (c :: p :: r) -> Inv B (add_kid c p :: r).
Proof.
  intro H. inversion H as [|? ? _ H']; subst. inversion H' as [|? ? Hp Hr]; subst.
  constructor; [|exact Hr]. exact Hp.
Qed.

Lemma inv_set_kids B (ks : block -> list block) fs :
  Inv B fs -> Inv B (match fs with p :: r => set_kids (ks p) p :: r | [] => [] end).
Proof.
  intro H. destruct fs as [|p r]; [exact H|]. inversion H; subst. constructor; assumption.
Qed.

Lemma inv_alookup {V} (P : string * V -> Prop) x : forall l v,
  (forall k w, P (k, w) -> P (x, w)) ->
  alookup x l = Some v -> Forall P l -> P (x, v).
Proof.
  induction l as [|[k w] l IH]; intros v HP E Hl; cbn [alookup] in E; [discriminate|].
  inversion Hl; subst. destruct (String.eqb x k).
  - inversion E; subst. eapply HP. eassumption.
  - eapply IH; eassumption.
Qed.

Lemma inv_lookup B x : forall fs v, lookup_frames x fs = Some v -> Inv B fs -> sfx (v_inner v) < B.
Proof.
  induction fs as [|b r IH]; intros v E H; cbn [lookup_frames] in E; [discriminate|].
  inversion H as [|? ? (H1 & H2 & H3) Hr]; subst.
  destruct (alookup x (b_values b)) as [w|] eqn:Ea.
  - inversion E; subst.
    apply (inv_alookup (fun p => sfx (v_inner (snd p)) < B) x (b_values b) v); auto.
  - apply IH; assumption.
Qed.

Lemma inv_inner_exists B x fs : inner_exists x fs = true -> Inv B fs -> sfx x < B.
Proof.
  intros E H. apply inner_exists_In in E. apply in_concat in E as (l & Hl & Hx).
  apply in_map_iff in Hl as (b & <- & Hb). unfold Inv in H. rewrite Forall_forall in H.
  destruct (H b Hb) as (H1 & _). rewrite Forall_forall in H1. apply H1, Hx.
Qed.

Lemma inv_label_exists B x fs : label_exists x fs = true -> Inv B fs -> sfx x < B.
Proof.
  intros E H. apply label_exists_In in E. apply in_concat in E as (l & Hl & Hx).
  apply in_map_iff in Hl as (b & <- & Hb). unfold Inv in H. rewrite Forall_forall in H.
  destruct (H b Hb) as (_ & H2 & _). rewrite Forall_forall in H2. apply H2, Hx.
Qed.

(** ** The pass *)
Definition al_so (k : panic_kind) : Prop := k <> PSuffixOverflow.

(** the bound after [j] generated names, and how far [j] may go *)
Definition IB (j : nat) : list block -> Prop := Inv (two32 + N.of_nat j).
Definition lim : N := 12884901888.
Definition OKL (j : nat) : Prop := N.of_nat j <= lim.

Lemma ib_stable j : stable (IB j).
Proof. apply inv_stable. Qed.
Lemma ib_mono j j' fs : (j <= j')%nat -> IB j fs -> IB j' fs.
Proof. intro H. apply inv_mono. lia. Qed.

Section SPrims.
  Variable oo : Prop.
  Variable B : N.
  Notation K := (keepI (Inv B)).
  Notation W m s := (wp al_so oo m s K).

  Lemma s_set_inner_name n s : sfx n < B -> Inv B (frames s) -> W (set_inner_name n) s.
  Proof. intros Hn H. apply wp_upd. unfold keepI. cbn [frames]. apply inv_add_inner; assumption. Qed.
  Lemma s_set_label_name n s : sfx n < B -> Inv B (frames s) -> W (set_label_name n) s.
  Proof. intros Hn H. apply wp_upd. unfold keepI. cbn [frames]. apply inv_add_label; assumption. Qed.
  Lemma s_insert_value x v s : sfx (v_inner v) < B -> Inv B (frames s) -> W (insert_value x v) s.
  Proof. intros Hv H. apply wp_upd. unfold keepI. cbn [frames]. apply inv_set_value; assumption. Qed.
  Lemma s_push s : Inv B (frames s) -> W push_child s.
  Proof. intro H. apply wp_upd. unfold keepI. cbn [frames]. apply inv_push, H. Qed.
  Lemma s_pop s : Inv B (frames s) -> W pop_child s.
  Proof.
    intro H. unfold wp, pop_child. destruct (frames s) as [|c [|p r]]; try (intro; discriminate).
    unfold keepI. cbn [frames]. apply inv_pop, H.
  Qed.
  Lemma s_emit_kid k i s : Inv B (frames s) -> W (emit_kid k i) s.
  Proof.
    intro H. unfold emit_kid. apply (wp_bind _ _ _ _ _ K).
    - apply wp_upd. unfold keepI. cbn [frames].
      apply (inv_set_kids B (fun p => update_nth k (push_ctx i) (b_kids p))), H.
    - intros ? s1 H1. apply g_emit; [apply inv_stable | exact H1].
  Qed.
End SPrims.

Ltac s_extra :=
  idtac;
  match goal with
  | |- wp _ _ push_child _ _ => apply s_push; assumption
  | |- wp _ _ pop_child _ _ => apply s_pop; assumption
  | |- wp _ _ (emit_kid _ _) _ _ => apply s_emit_kid; assumption
  end.
Ltac s_go := g_go_with s_extra.

(** a step that generates no name, at the index of the state it starts in *)
Ltac z :=
  match goal with
  | H : IB ?j (frames ?s) |- wp _ _ (bind _ _) ?s _ =>
      apply (wp_bind_J _ _ (IB j)); [solve [s_go] | intros ? ? ?]
  end.
(** the end of a computation: weaken the index *)
Ltac fin :=
  match goal with
  | H : IB ?j (frames ?s) |- wp _ _ _ ?s _ =>
      apply (wp_conseq _ _ _ _ (keepI (IB j)));
      [solve [s_go] | intros ? ? ?; apply (ib_mono j); [lia | assumption]]
  end.
Ltac stepJ j1 := apply (wp_bind_J _ _ (IB j1)); [| intros ? ? ?].

Lemma okl_lt j : OKL j -> two32 + N.of_nat j < two64.
Proof. unfold OKL, lim, two32, two64. lia. Qed.

Section SWalk.
  Variable G : globals.
  Variable fuel : nat.
  Variable RT : sem_ty.
  Notation W j m s := (wp al_so True m s (keepI (IB j))).

  Let Hfok : forall f e, fok True f e := fun _ _ => or_introl I.
  Let Hfoks : forall f l, Forall (fok True f) l.
  Proof. intros f l. apply Forall_forall. intros; apply Hfok. Qed.

  Ltac s_pose :=
    pose proof ib_stable; pose proof Hfok; pose proof Hfoks;
    pose proof (fun j => g_expression al_so True (IB j) (ib_stable j) G fuel);
    pose proof (fun j => g_binding al_so True (IB j) (ib_stable j) G fuel);
    pose proof (fun j => g_call_stmt al_so True (IB j) (ib_stable j) G fuel);
    pose proof (fun j => g_check_return_type al_so True (IB j) RT);
    pose proof (fun j => g_code_after_errors al_so True (IB j));
    pose proof (fun j => g_check_type_exists al_so True (IB j) G);
    pose proof (fun j => g_if_condition_calculation al_so True (IB j) (ib_stable j) G fuel).

  (** a declaration generates one name *)
  Lemma s_let_binding x m t e j j' s :
    name_ok x = true -> IB j (frames s) -> (S j <= j')%nat -> OKL j' ->
    W j' (let_binding G fuel x m t e) s.
  Proof.
    intros Hx HI Hle HL. s_pose. unfold let_binding. cbv beta zeta.
    apply (wp_bind_J _ _ (IB j)); [solve [s_go] | intros r s1 HI1].
    destruct r as [er|]; [|fin].
    destruct (match t with Some _ => _ | None => _ end); [fin|].
    unfold lookup_value. apply wp_bind_gets. apply wp_bind_gets.
    set (base := match lookup_frames (iname x) (frames s1) with
                 | Some val => v_inner val | None => iname x end).
    assert (Hbase : sfx base < two32 + N.of_nat j).
    { subst base. destruct (lookup_frames (iname x) (frames s1)) as [val|] eqn:El.
      - eapply inv_lookup; eassumption.
      - unfold name_ok in Hx. apply N.ltb_lt in Hx. lia. }
    assert (HB : two32 + N.of_nat j < two64).
    { pose proof (okl_lt j'). unfold OKL in *. lia. }
    pose proof (next_inner_name_no_overflow (two32 + N.of_nat j)
                  (inner_probe_fuel (frames s1)) base s1 HB Hbase
                  (fun y Hy => inv_inner_exists _ y _ Hy HI1)) as Hp.
    unfold wp at 1, bind at 1.
    pose proof (next_inner_name_terminates base s1) as HT.
    destruct (next_inner_name (inner_probe_fuel (frames s1)) base s1) as [inner s2| |];
      [|destruct Hp | congruence].
    destruct Hp as (-> & Hin & _).
    assert (HI2 : IB (S j) (frames s1)) by (apply (ib_mono j); [lia | assumption]).
    assert (Hin1 : sfx inner < two32 + N.of_nat (S j)) by lia.
    fold (wp al_so True
            (insert_value (iname x) (Value inner (r_ty er) m) ;;;
             set_inner_name inner ;;; emit (ILet (Value inner (r_ty er) m) er)) s1 (keepI (IB j'))).
    apply (wp_conseq _ _ _ _ (keepI (IB (S j))));
      [|intros ? ? ?; apply (ib_mono (S j)); [lia | assumption]].
    apply wp_bind_I; [apply s_insert_value; assumption|]. intros ? ? ?.
    apply wp_bind_I; [apply s_set_inner_name; assumption|]. intros ? ? ?.
    s_go.
  Qed.

  (** a label generates one name; the bases are literals *)
  Lemma s_gen_label base j j' s :
    sfx base < two32 -> IB j (frames s) -> (S j <= j')%nat -> OKL j' ->
    W j' (gen_label base) s.
  Proof.
    intros Hb HI Hle HL. unfold gen_label. apply wp_bind_gets.
    assert (HB : two32 + N.of_nat j < two64).
    { pose proof (okl_lt j'). unfold OKL in *. lia. }
    destruct (label_exists base (frames s)) eqn:Eb.
    - apply wp_bind_gets. unfold wp.
      pose proof (label_probe_no_overflow (two32 + N.of_nat j) (label_probe_fuel (frames s)) base s HB
                    ltac:(lia) (fun y Hy => inv_label_exists _ y _ Hy HI)) as Hp.
      pose proof (label_probe_terminates base s) as HT.
      destruct (label_probe (label_probe_fuel (frames s)) base s) as [r s2| |];
        [|destruct Hp | congruence].
      destruct Hp as (-> & Hr). unfold keepI. cbn [frames].
      apply (ib_mono (S j)); [lia|]. apply inv_add_label; [lia|].
      apply (ib_mono j); [lia | exact HI].
    - apply (wp_conseq _ _ _ _ (keepI (IB j)));
        [|intros ? ? ?; apply (ib_mono j); [lia | assumption]].
      apply wp_bind_I; [apply s_set_label_name; [lia | exact HI]|]. intros ? ? ?. s_go.
  Qed.

  Lemma s_init_func_params j : forall ps s,
    forallb (fun p => name_ok (fst p)) ps = true -> IB j (frames s) ->
    W j (init_func_params ps) s.
  Proof.
    pose proof (ib_stable j).
    induction ps as [|[x t] ps IH]; intros s Hps HI; cbn [init_func_params]; [s_go|].
    cbn [forallb fst] in Hps. apply andb_prop in Hps as [Hx Hps].
    unfold name_ok in Hx. apply N.ltb_lt in Hx.
    unfold lookup_value. apply wp_bind_gets.
    destruct (lookup_frames (iname x) (frames s)); [s_go|].
    apply wp_bind_I; [apply s_insert_value; [cbn [v_inner]; lia | exact HI]|]. intros ? ? ?.
    apply wp_bind_I; [apply s_set_inner_name; [lia | assumption]|]. intros ? ? ?.
    s_go.
  Qed.

  Notation nm := (walk_stmt chk_name any_body).

  Section Control.
    Variable IFC : ifstmt -> option string -> option (string * string) -> M unit.
    Variable LOOP : list stmt -> M unit.
    Hypothesis HIFC : forall inl i le ll j j' s,
      walk_if chk_name any_body inl i = true -> IB j (frames s) ->
      (j + 3 * size_if i <= j')%nat -> OKL j' -> W j' (IFC i le ll) s.
    Hypothesis HLOOP : forall b j j' s,
      forallb (nm true true) b = true -> IB j (frames s) ->
      (j + 3 * S (size_stmts b) <= j')%nat -> OKL j' -> W j' (LOOP b) s.

    Lemma s_nested_stmt k lend lloop fl st brk inl j j' s :
      nm brk inl st = true -> IB j (frames s) ->
      (j + 3 * size_stmt st <= j')%nat -> OKL j' ->
      W j' (nested_stmt G fuel RT IFC LOOP k lend lloop fl st) s.
    Proof.
      intros HN HI Hle HL. s_pose.
      destruct st; cbn [nested_stmt]; try solve [fin].
      - (* let *)
        stepJ j'; [|fin]. apply (s_let_binding x mut ty e j); [|assumption|cbn [size_stmt] in Hle; lia|assumption].
        cbn [walk_stmt chk_name] in HN. apply andb_prop in HN as [HN _]. exact HN.
      - (* if *)
        stepJ j'; [|fin]. cbn [size_stmt] in Hle.
        destruct k; apply (HIFC inl i _ _ j); first [assumption | lia | exact HN].
      - (* loop *)
        stepJ j'; [|fin]. rewrite size_loop in Hle.
        apply (HLOOP body j); first [assumption | lia | exact HN].
    Qed.

    Lemma s_run_body k lend lloop brk inl : forall ss fl j j' s,
      forallb (nm brk inl) ss = true -> IB j (frames s) ->
      (j + 3 * size_stmts ss <= j')%nat -> OKL j' ->
      W j' (run_body G fuel RT IFC LOOP k lend lloop fl ss) s.
    Proof.
      induction ss as [|st ss IH]; intros fl j j' s HN HI Hle HL; cbn [run_body].
      - s_pose. fin.
      - cbn [forallb] in HN. apply andb_prop in HN as [HN1 HN2]. rewrite size_stmts_cons in Hle.
        assert (HL1 : OKL (j + 3 * size_stmt st)) by (unfold OKL in *; lia).
        s_pose. z.
        stepJ (j + 3 * size_stmt st)%nat.
        + apply (s_nested_stmt k lend lloop fl st brk inl j); try assumption. lia.
        + apply (IH _ (j + 3 * size_stmt st)%nat); try assumption. lia.
    Qed.

    Lemma s_if_body b lend lloop inl j j' s :
      walk_body chk_name any_body inl b = true -> IB j (frames s) ->
      (j + 3 * size_ifbody b <= j')%nat -> OKL j' ->
      W j' (if_body G fuel RT IFC LOOP b lend lloop) s.
    Proof.
      intros HN HI Hle HL. s_pose. destruct b as [ss|ss]; cbn [if_body].
      - rewrite size_ibif in Hle. stepJ j'; [|fin].
        apply (s_run_body KIf lend lloop false inl ss flags0 j); first [assumption | lia | exact HN].
      - rewrite size_ibloop in Hle. destruct lloop as [ll|]; [|fin]. stepJ j'; [|fin].
        apply (s_run_body KIfLoop lend (Some ll) true inl ss flags0 j); first [assumption | lia | exact HN].
    Qed.

    Lemma sfx_if_begin : sfx "if_begin" < two32. Proof. reflexivity. Qed.
    Lemma sfx_if_else : sfx "if_else" < two32. Proof. reflexivity. Qed.
    Lemma sfx_if_end : sfx "if_end" < two32. Proof. reflexivity. Qed.
    Lemma sfx_loop_begin : sfx "loop_begin" < two32. Proof. reflexivity. Qed.
    Lemma sfx_loop_end : sfx "loop_end" < two32. Proof. reflexivity. Qed.

    Lemma s_if_condition_step i le ll inl j j' s :
      walk_if chk_name any_body inl i = true -> IB j (frames s) ->
      (j + 3 * size_if i <= j')%nat -> OKL j' ->
      W j' (if_condition_step G fuel RT IFC LOOP i le ll) s.
    Proof.
      intros HN HI Hle HL. s_pose.
      destruct i as [c body els elif]. rewrite walk_if_eq in HN.
      apply andb_prop in HN as [HN HN3]. apply andb_prop in HN as [HN1 HN2].
      assert (HLj : forall i, (i <= j')%nat -> OKL i) by (unfold OKL in *; intros; lia).
      pose proof sfx_if_begin. pose proof sfx_if_else. pose proof sfx_if_end.
      destruct els as [eb|]; [|destruct elif as [ei|]];
        cbn [size_if] in Hle; cbn [if_condition_step is_some orb andb];
        z; z;
        (stepJ (S j); [apply (s_gen_label "if_begin" j); auto; apply HLj; lia|]);
        (stepJ (S (S j)); [apply (s_gen_label "if_else" (S j)); auto; apply HLj; lia|]);
        (stepJ (3 + j)%nat;
         [destruct le; [fin | apply (s_gen_label "if_end" (S (S j))); auto; apply HLj; lia]|]);
        cbv beta zeta; z; z;
        (stepJ (3 + j + 3 * size_ifbody body)%nat;
         [apply (s_if_body body _ ll inl (3 + j)%nat); auto; apply HLj; lia|]);
        repeat z.
      - (* then and else *)
        stepJ (3 + j + 3 * size_ifbody body + 3 * size_ifbody eb)%nat; [|fin].
        z.
        stepJ (3 + j + 3 * size_ifbody body + 3 * size_ifbody eb)%nat;
          [apply (s_if_body eb _ ll inl (3 + j + 3 * size_ifbody body)%nat); auto; apply HLj; lia|].
        repeat z. fin.
      - (* then and else-if *)
        stepJ j'; [|fin].
        apply (HIFC inl ei _ _ (3 + j + 3 * size_ifbody body)%nat); auto. lia.
      - (* then only *)
        fin.
    Qed.

    Lemma s_loop_step body j j' s :
      forallb (nm true true) body = true -> IB j (frames s) ->
      (j + 3 * S (size_stmts body) <= j')%nat -> OKL j' ->
      W j' (loop_step G fuel RT IFC LOOP body) s.
    Proof.
      intros HN HI Hle HL. s_pose. unfold loop_step.
      assert (HLj : forall i, (i <= j')%nat -> OKL i) by (unfold OKL in *; intros; lia).
      pose proof sfx_loop_begin. pose proof sfx_loop_end.
      z.
      stepJ (S j); [apply (s_gen_label "loop_begin" j); auto; apply HLj; lia|].
      stepJ (S (S j)); [apply (s_gen_label "loop_end" (S j)); auto; apply HLj; lia|].
      z. z.
      stepJ (2 + j + 3 * size_stmts body)%nat;
        [apply (s_run_body KLoop "" _ true true body flags0 (S (S j)));
         first [assumption | lia | (apply HLj; lia)]|].
      repeat z. fin.
    Qed.
  End Control.

  Lemma s_control n :
    (forall inl i le ll j j' s,
       walk_if chk_name any_body inl i = true -> IB j (frames s) ->
       (j + 3 * size_if i <= j')%nat -> OKL j' -> W j' (if_condition G fuel RT n i le ll) s) /\
    (forall b j j' s,
       forallb (nm true true) b = true -> IB j (frames s) ->
       (j + 3 * S (size_stmts b) <= j')%nat -> OKL j' -> W j' (loop_statement G fuel RT n b) s).
  Proof.
    induction n as [|n [IH1 IH2]]; split; intros; cbn [if_condition loop_statement];
      try (apply wp_oof; exact I).
    - eapply s_if_condition_step; eassumption.
    - eapply s_loop_step; eassumption.
  Qed.

  Lemma s_fn_stmt returned st j j' s :
    walk_fn_stmt chk_name any_body (chk_name false false) st = true -> IB j (frames s) ->
    (j + 3 * size_stmt st <= j')%nat -> OKL j' ->
    W j' (fn_stmt G fuel RT returned st) s.
  Proof.
    intros HN HI Hle HL. s_pose. destruct (s_control fuel) as [HI3 HL3].
    unfold walk_fn_stmt in HN.
    destruct st; cbn [fn_stmt]; try solve [fin].
    - stepJ j'; [|fin].
      apply (s_let_binding x mut ty e j); [|assumption|cbn [size_stmt] in Hle; lia|assumption].
      cbn [chk_name] in HN. apply andb_prop in HN as [HN _]. exact HN.
    - stepJ j'; [|fin]. cbn [size_stmt] in Hle.
      apply (HI3 false i _ _ j); first [assumption | lia | exact HN].
    - stepJ j'; [|fin]. rewrite size_loop in Hle.
      apply (HL3 body j); first [assumption | lia | exact HN].
  Qed.

  Lemma s_fn_stmts : forall ss returned j j' s,
    forallb (walk_fn_stmt chk_name any_body (chk_name false false)) ss = true ->
    IB j (frames s) -> (j + 3 * size_stmts ss <= j')%nat -> OKL j' ->
    W j' (fn_stmts G fuel RT returned ss) s.
  Proof.
    induction ss as [|st ss IH]; intros returned j j' s HN HI Hle HL; cbn [fn_stmts].
    - s_pose. fin.
    - cbn [forallb] in HN. apply andb_prop in HN as [HN1 HN2]. rewrite size_stmts_cons in Hle.
      assert (HL1 : OKL (j + 3 * size_stmt st)) by (unfold OKL in *; lia).
      s_pose. z.
      stepJ (j + 3 * size_stmt st)%nat.
      + apply (s_fn_stmt returned st j); try assumption. lia.
      + apply (IH _ (j + 3 * size_stmt st)%nat); try assumption. lia.
  Qed.
End SWalk.

Lemma s_function_body_m G f errs0 :
  names_fn f = true ->
  wp al_so True (function_body_m G f) (BSt [empty_block] errs0)
     (keepI (IB (3 * size_stmts (fn_body f)))).
Proof.
  intro HN. unfold names_fn in HN.
  apply andb_prop in HN as [HN Hsz]. apply andb_prop in HN as [Hps Hss].
  apply N.ltb_lt in Hsz.
  assert (HL : OKL (3 * size_stmts (fn_body f))).
  { unfold OKL, lim, two32, size_fn in *. lia. }
  assert (HI : IB 0 (frames (BSt [empty_block] errs0))).
  { constructor; [|constructor]. repeat split; constructor. }
  pose proof ib_stable.
  unfold function_body_m. cbv beta zeta.
  stepJ 0%nat; [apply s_init_func_params; assumption|].
  stepJ (3 * size_stmts (fn_body f))%nat; [apply (s_fn_stmts G _ _ _ false 0%nat); auto|].
  fin.
Qed.

(** (S) for every function of a program *)
Definition named (p : program) : Prop := forall f, In f (functions_of p) -> names_fn f = true.

(** no suffix of a generated name reaches 2^64 *)
Theorem run_never_overflow : forall p k, named p -> run p = RPanic k -> k <> PSuffixOverflow.
Proof.
  intros p k Hp E.
  assert (H : match run p with RPanic k => k <> PSuffixOverflow | _ => True end).
  { apply (run_cases p (fun r => match r with RPanic k => k <> PSuffixOverflow | _ => True end)).
    - intros; exact I.
    - intros errs f Hin.
      pose proof (s_function_body_m (gs_globals (declarations p)) f errs (Hp f Hin)) as H.
      unfold wp, function_body in *. destruct (function_body_m _ f _); [exact I | exact H | exact I]. }
  rewrite E in H. exact H.
Qed.

Lemma in_domain_named p : in_domain p -> named p.
Proof. intros H f Hin. destruct (in_domain_fn p f H Hin) as (_ & _ & H3). exact H3. Qed.

(** ** TOP: the analysis of a program of the domain returns normally *)
Theorem run_total : forall p, in_domain p -> exists out, run p = ROk out.
Proof.
  intros p Hd. destruct (run p) as [out|k|] eqn:E.
  - exists out. reflexivity.
  - exfalso. destruct k.
    + exact (run_never_looplabel p _ (in_domain_placed p Hd) E eq_refl).
    + exact (run_never_overflow p _ (in_domain_named p Hd) E eq_refl).
    + exact (run_never_illkinded p _ (in_domain_placed p Hd) E eq_refl).
    + exact (run_never_noframe p _ E eq_refl).
  - exfalso. exact (run_never_out_of_fuel p E).
Qed.

Print Assumptions run_never_overflow.
Print Assumptions run_total.

