(** C05 with values, vocabulary of the simulation (no analyzer involved).

    - a big-step reading of the register machine [vflat_run] on a fixed program [c]: [vsteps],
      [vhalts], [VPre]; how these determine [vflat_run] for every fuel;
    - the register file and the store: [reg_find] / [reg_set], operands are stable under writes
      to higher registers ([Ext], [operand_ext]);
    - a relational big-step reading of the evaluation of source expressions ([SEval] ...), of
      which the executable [eval_expr] is, for every fuel, either the result or a cut-off prefix
      ([eval_expr_below]); bracketing commutes with the embedding the analyzer evaluates
      ([SVal_embed]);
    - the relation between the value tables of the analyzer's live blocks, the machine's store and
      the source environment ([Rel]), kept by declarations, assignments, block entry and exit. *)
From Coq Require Import Lia.
From SA Require Import Model.
From SA.Spec Require Import Stack Bracket Exec ValueExec.
From SA.Proofs Require Import Fold ExecBasic FlowBasic FlowSem.
Local Open Scope list_scope.

Lemma vfind_label_eq l : forall c, vfind_label l c = find_label l c.
Proof. induction c as [|i c IH]; cbn; [reflexivity|]. rewrite IH. reflexivity. Qed.

(** ** Lists: prefixes *)
Definition pref {A} (a b : list A) : Prop := exists r, a ++ r = b.
Definition comp {A} (a b : list A) : Prop := pref a b \/ pref b a.

Lemma pref_refl {A} (a : list A) : pref a a.
Proof. exists []. apply app_nil_r. Qed.
Lemma pref_nil {A} (a : list A) : pref [] a.
Proof. exists a. reflexivity. Qed.
Lemma pref_app {A} (e a b : list A) : pref a b -> pref (e ++ a) (e ++ b).
Proof. intros [r <-]. exists r. rewrite app_assoc. reflexivity. Qed.
Lemma pref_trans {A} (a b d : list A) : pref a b -> pref b d -> pref a d.
Proof. intros [r <-] [r' <-]. exists (r ++ r'). rewrite app_assoc. reflexivity. Qed.
Lemma pref_app_r {A} (a b r : list A) : pref a b -> pref a (b ++ r).
Proof. intros [r' <-]. exists (r' ++ r). rewrite app_assoc. reflexivity. Qed.
Lemma comp_nil_l {A} (b : list A) : comp [] b.
Proof. left. apply pref_nil. Qed.
Lemma comp_nil_r {A} (a : list A) : comp a [].
Proof. right. apply pref_nil. Qed.
Lemma comp_app {A} (e a b : list A) : comp a b -> comp (e ++ a) (e ++ b).
Proof. intros [H|H]; [left | right]; apply pref_app, H. Qed.
Lemma comp_refl {A} (a : list A) : comp a a.
Proof. left. apply pref_refl. Qed.

(** two prefixes of one list are comparable *)
Lemma pref_comp {A} : forall (a b d : list A), pref a d -> pref b d -> comp a b.
Proof.
  induction a as [|x a IH]; intros b d Ha Hb; [apply comp_nil_l|].
  destruct b as [|y b]; [apply comp_nil_r|].
  destruct Ha as [ra Ea]. destruct Hb as [rb Eb]. subst d. cbn in Eb. inversion Eb; subst y.
  change (x :: a) with ([x] ++ a). change (x :: b) with ([x] ++ b). apply comp_app.
  eapply IH; [exists ra; reflexivity | exists rb; eassumption].
Qed.
Lemma comp_pref_l {A} (a b d : list A) : comp a b -> pref d a -> comp d b.
Proof.
  intros [H|H] Hd.
  - left. eapply pref_trans; eassumption.
  - eapply pref_comp; eassumption.
Qed.

Section Mach.
  Variable V : Type.
  Variable I : interp V.
  Variable c : list instr.

  Notation mst := (mstate V).
  Notation ev := (list (vevent V)).

  (** ** Big steps of the register machine *)
  Inductive vsteps : nat -> mst -> ev -> nat -> mst -> Prop :=
  | vsteps_refl pc st : vsteps pc st [] pc st
  | vsteps_cons pc st e pc1 st1 e2 pc2 st2 :
      vflat_step V I c pc st = VNext e pc1 st1 -> vsteps pc1 st1 e2 pc2 st2 ->
      vsteps pc st (e ++ e2) pc2 st2.

  Definition vhalts (pc : nat) (st : mst) (e : ev) (s : vstatus) : Prop :=
    exists e1 pc1 st1 e2,
      vsteps pc st e1 pc1 st1 /\ vflat_step V I c pc1 st1 = VHalt e2 s /\ e = e1 ++ e2.

  Definition VPre (pc : nat) (st : mst) (e : ev) : Prop :=
    forall m, comp (fst (vflat_run V I c m pc st)) e.

  Lemma vsteps_one pc st e pc' st' : vflat_step V I c pc st = VNext e pc' st' -> vsteps pc st e pc' st'.
  Proof. intro H. rewrite <- (app_nil_r e). eapply vsteps_cons; [exact H | apply vsteps_refl]. Qed.

  Lemma vsteps_trans pc st e1 pc1 st1 e2 pc2 st2 :
    vsteps pc st e1 pc1 st1 -> vsteps pc1 st1 e2 pc2 st2 -> vsteps pc st (e1 ++ e2) pc2 st2.
  Proof.
    induction 1 as [|pc st e pc1 st1 e1' pc1' st1' Hs _ IH]; intro H2; [exact H2|].
    rewrite <- app_assoc. eapply vsteps_cons; [exact Hs | apply IH, H2].
  Qed.

  Lemma vsteps_eq pc st e pc1 st1 pc' pc1' e' :
    vsteps pc st e pc1 st1 -> pc = pc' -> pc1 = pc1' -> e = e' -> vsteps pc' st e' pc1' st1.
  Proof. intros H -> -> ->. exact H. Qed.

  Lemma vsteps_halts pc st e1 pc1 st1 e2 s :
    vsteps pc st e1 pc1 st1 -> vhalts pc1 st1 e2 s -> vhalts pc st (e1 ++ e2) s.
  Proof.
    intros H1 (a & p & st' & b & H2 & Hh & ->).
    exists (e1 ++ a), p, st', b. split; [eapply vsteps_trans; eassumption|].
    split; [exact Hh | rewrite app_assoc; reflexivity].
  Qed.

  Lemma vhalts_now pc st e s : vflat_step V I c pc st = VHalt e s -> vhalts pc st e s.
  Proof.
    intro H. exists [], pc, st, e. split; [apply vsteps_refl|]. split; [exact H | reflexivity].
  Qed.

  Lemma VPre_nil pc st : VPre pc st [].
  Proof. intro m. apply comp_nil_r. Qed.

  Lemma vsteps_VPre pc st e1 pc1 st1 e2 :
    vsteps pc st e1 pc1 st1 -> VPre pc1 st1 e2 -> VPre pc st (e1 ++ e2).
  Proof.
    induction 1 as [|pc st e pc1 st1 e1' pc1' st1' Hs _ IH]; intro HP; [exact HP|].
    intros [|m]; cbn [vflat_run]; [apply comp_nil_l|].
    rewrite Hs. cbn [vprepend_trace fst]. rewrite <- app_assoc. apply comp_app. apply IH, HP.
  Qed.

  (** what the big steps say about [vflat_run] *)
  Lemma vsteps_run pc st e pc1 st1 :
    vsteps pc st e pc1 st1 ->
    forall m, (exists m', vflat_run V I c m pc st = vprepend_trace V e (vflat_run V I c m' pc1 st1)) \/
              (exists p, pref p e /\ vflat_run V I c m pc st = (p, VOutOfFuel)).
  Proof.
    induction 1 as [|pc st e pc1 st1 e2 pc2 st2 Hs _ IH]; intro m.
    - left. exists m. unfold vprepend_trace. cbn. destruct (vflat_run V I c m pc st); reflexivity.
    - destruct m as [|m]; cbn [vflat_run].
      + right. exists []. split; [apply pref_nil | reflexivity].
      + rewrite Hs. destruct (IH m) as [[m' E]|(p & Hp & E)]; rewrite E.
        * left. exists m'. unfold vprepend_trace. cbn. rewrite app_assoc. reflexivity.
        * right. exists (e ++ p). split; [apply pref_app, Hp | reflexivity].
  Qed.

  Lemma vhalts_run pc st e s :
    vhalts pc st e s ->
    forall m, vflat_run V I c m pc st = (e, s) \/
              (exists p, pref p e /\ vflat_run V I c m pc st = (p, VOutOfFuel)).
  Proof.
    intros (e1 & p1 & st1 & e2 & Hs & Hh & ->) m.
    destruct (vsteps_run _ _ _ _ _ Hs m) as [[m' E]|(p & Hp & E)].
    - destruct m' as [|m']; cbn [vflat_run] in E.
      + right. exists e1. split; [exists e2; reflexivity|]. rewrite E. unfold vprepend_trace. cbn.
        rewrite app_nil_r. reflexivity.
      + left. rewrite Hh in E. exact E.
    - right. exists p. split; [apply pref_app_r, Hp | exact E].
  Qed.

  (** a run that went some way is comparable with every prefix of what it did *)
  Lemma vsteps_VPre_pref pc st e pc1 st1 p : vsteps pc st e pc1 st1 -> pref p e -> VPre pc st p.
  Proof.
    intros Hs Hp m. destruct (vsteps_run _ _ _ _ _ Hs m) as [[m' E]|(q & Hq & E)]; rewrite E.
    - unfold vprepend_trace. cbn [fst]. right. eapply pref_trans; [exact Hp | eexists; reflexivity].
    - cbn [fst]. eapply pref_comp; eassumption.
  Qed.

  Lemma vhalts_enough pc st e s : vhalts pc st e s -> exists m, vflat_run V I c m pc st = (e, s).
  Proof.
    intros (e1 & p1 & st1 & e2 & Hs & Hh & ->).
    induction Hs as [pc st|pc st e pc1 st1 e2' pc2 st2 Hstep _ IH].
    - exists 1%nat. cbn [vflat_run]. rewrite Hh. reflexivity.
    - destruct (IH Hh) as [m E]. exists (S m). cbn [vflat_run]. rewrite Hstep, E.
      unfold vprepend_trace. cbn [fst snd]. rewrite !app_assoc. reflexivity.
  Qed.

  (** the instruction at a position *)
  Lemma vstep_at pre i post st :
    c = pre ++ i :: post -> vflat_step V I c (length pre) st = vinstr_step V I c i (length pre) st.
  Proof. intros ->. unfold vflat_step. rewrite nth_at. reflexivity. Qed.

  (** ** The register file *)
  Lemma reg_find_set n m x (rf : regfile V) :
    reg_find V n (reg_set V m x rf) = if N.eqb n m then Some x else reg_find V n rf.
  Proof.
    induction rf as [|[k y] rf IH]; cbn.
    - destruct (N.eqb n m); reflexivity.
    - destruct (N.eqb m k) eqn:Emk; cbn.
      + apply N.eqb_eq in Emk. subst k. destruct (N.eqb n m); reflexivity.
      + destruct (N.eqb n k) eqn:Enk.
        * apply N.eqb_eq in Enk. subst k. rewrite N.eqb_sym in Emk. rewrite Emk. reflexivity.
        * exact IH.
  Qed.

  (** only registers that some instruction of [c] defines are ever written *)
  Definition DomOK (rf : regfile V) : Prop := forall n, ~ In n (defs c) -> reg_find V n rf = None.

  (** [rf'] has the registers up to [h] as [rf] has them *)
  Definition Ext (h : N) (rf rf' : regfile V) : Prop :=
    forall n, n <= h -> reg_find V n rf' = reg_find V n rf.

  Lemma Ext_refl h rf : Ext h rf rf.
  Proof. intros n _. reflexivity. Qed.
  Lemma Ext_trans h h' rf rf1 rf2 : h <= h' -> Ext h rf rf1 -> Ext h' rf1 rf2 -> Ext h rf rf2.
  Proof. intros Hle H1 H2 n Hn. rewrite H2 by lia. apply H1, Hn. Qed.
  Lemma Ext_mono h h' rf rf' : h <= h' -> Ext h' rf rf' -> Ext h rf rf'.
  Proof. intros Hle H n Hn. apply H. lia. Qed.
  Lemma Ext_set h rf r x : h < r -> Ext h rf (reg_set V r x rf).
  Proof.
    intros Hr n Hn. rewrite reg_find_set. destruct (N.eqb_spec n r); [lia | reflexivity].
  Qed.
  Lemma DomOK_set rf r x : In r (defs c) -> DomOK rf -> DomOK (reg_set V r x rf).
  Proof.
    intros Hr H n Hn. rewrite reg_find_set. destruct (N.eqb_spec n r); [subst; contradiction|].
    apply H, Hn.
  Qed.

  Definition RegLe (h : N) (e : eres) : Prop := Forall (fun n => n <= h) (eres_reg e).

  Lemma RegLe_mono h h' e : h <= h' -> RegLe h e -> RegLe h' e.
  Proof. intros Hle H. eapply Forall_impl; [|exact H]. cbn. intros; lia. Qed.
  Lemma RegLe_prim h t p : RegLe h (ERes t (RPrim p)).
  Proof. constructor. Qed.
  Lemma RegLe_reg h t n : n <= h -> RegLe h (ERes t (RReg n)).
  Proof. intro H. constructor; [exact H | constructor]. Qed.

  (** an operand below [h] reads the same in every extension above [h] *)
  Lemma operand_ext h rf rf' e : RegLe h e -> Ext h rf rf' -> operand V I rf' e = operand V I rf e.
  Proof.
    intros Hle Hext. unfold operand. destruct e as [t [n|p]]; cbn [r_val]; [|reflexivity].
    unfold RegLe in Hle. cbn in Hle. inversion Hle as [|? ? Hn _]; subst.
    rewrite (Hext n Hn). destruct (reg_find V n rf) as [[[v|b] f]|]; try reflexivity.
    destruct (N.eqb n 0); [reflexivity|]. rewrite (Hext (n - 1)) by lia. reflexivity.
  Qed.

  Lemma operands_ext h rf rf' es :
    Forall (RegLe h) es -> Ext h rf rf' -> operands V I rf' es = operands V I rf es.
  Proof.
    intros Hle Hext. induction Hle as [|e es He _ IH]; cbn [operands]; [reflexivity|].
    rewrite (operand_ext h rf rf' e He Hext), IH. reflexivity.
  Qed.

  Lemma bool_reg_ext h rf rf' n : n <= h -> Ext h rf rf' -> bool_reg V rf' n = bool_reg V rf n.
  Proof. intros Hn Hext. unfold bool_reg. rewrite (Hext n Hn). reflexivity. Qed.

  (** a register just written *)
  Lemma operand_written rf r v f t : operand V I (reg_set V r (RV v, f) rf) (ERes t (RReg r)) = Rd v.
  Proof. unfold operand. cbn [r_val]. rewrite reg_find_set, N.eqb_refl. reflexivity. Qed.

  (** the rule of finding F7: the register after one written by a call / field read, itself
      never written *)
  Lemma operand_f7 rf r v t :
    reg_find V (r + 1) rf = None ->
    operand V I (reg_set V r (RV v, true) rf) (ERes t (RReg (r + 1))) = Rd v.
  Proof.
    intro Hn. unfold operand. cbn [r_val]. rewrite reg_find_set.
    destruct (N.eqb_spec (r + 1) r) as [E|_]; [lia|]. rewrite Hn.
    destruct (N.eqb_spec (r + 1) 0) as [E|_]; [lia|].
    replace (r + 1 - 1) with r by lia. rewrite reg_find_set, N.eqb_refl. reflexivity.
  Qed.

  Lemma bool_reg_written rf r b f : bool_reg V (reg_set V r (RB b, f) rf) r = Rd b.
  Proof. unfold bool_reg. rewrite reg_find_set, N.eqb_refl. reflexivity. Qed.
End Mach.

Arguments vsteps {V} I c _ _ _ _ _.
Arguments vhalts {V} I c _ _ _ _.
Arguments VPre {V} I c _ _ _.
Arguments DomOK {V} c _.
Arguments Ext {V} _ _ _.

(** ** The source: a relational reading of the evaluation of expressions *)
Section Source.
  Variable V : Type.
  Variable I : interp V.
  Variable env : venv V.

  Notation ev := (list (vevent V)).

  Inductive SEval : expr -> ev -> V -> Prop :=
  | SE_expr v rest e x : STree (bracket v rest) e x -> SEval (Expr v rest) e x
  with STree : tree -> ev -> V -> Prop :=
  | ST_leaf v e x : SVal v e x -> STree (Leaf v) e x
  | ST_node l o r e1 a e2 b :
      STree l e1 a -> STree r e2 b -> STree (Node l o r) (e1 ++ e2) (i_op I o a b)
  with SVal : expr_val -> ev -> V -> Prop :=
  | SV_name x : SVal (EVName x) [] (read_var V I env (iname x))
  | SV_prim p : SVal (EVPrim p) [] (i_lit I p)
  | SV_call f args e vs :
      SArgs args e vs -> SVal (EVCall f args) (e ++ [VCall (iname f) vs]) (i_call I (iname f) vs)
  | SV_field x a v :
      env_find V (iname x) env = Some v -> SVal (EVField x a) [] (i_field I v (iname a))
  | SV_sub e0 e x : SEval e0 e x -> SVal (EVSub e0) e x
  | SV_ext t tag : SVal (EVExt t tag) [] (i_ext I tag)
  with SArgs : list expr -> ev -> list V -> Prop :=
  | SA_nil : SArgs [] [] []
  | SA_cons a args e1 x e2 xs :
      SEval a e1 x -> SArgs args e2 xs -> SArgs (a :: args) (e1 ++ e2) (x :: xs).

  Scheme SEval_m := Minimality for SEval Sort Prop
    with STree_m := Minimality for STree Sort Prop
    with SVal_m := Minimality for SVal Sort Prop
    with SArgs_m := Minimality for SArgs Sort Prop.
  Combined Scheme SEval_mut from SEval_m, STree_m, SVal_m, SArgs_m.

  (** the executable evaluation is below the relational one: the result, or a cut-off prefix *)
  Definition below {A} (r : evr V A) (e : ev) (x : A) : Prop :=
    r = (e, Got x) \/ exists p, pref p e /\ r = (p, Stopped VOutOfFuel).

  Lemma below_got {A} e (x : A) : below (e, Got x) e x.
  Proof. left. reflexivity. Qed.

  Lemma below_ebind {A B} (r : evr V A) (k : A -> evr V B) e1 x e2 y :
    below r e1 x -> below (k x) e2 y -> below (ebind V r k) (e1 ++ e2) y.
  Proof.
    intros [->|(p & Hp & ->)] Hk; cbn [ebind].
    - destruct Hk as [->|(p & Hp & ->)].
      + left. reflexivity.
      + right. exists (e1 ++ p). split; [apply pref_app, Hp | reflexivity].
    - right. exists p. split; [apply pref_app_r, Hp | reflexivity].
  Qed.

  Lemma below_oof {A} e (x : A) : below ([], Stopped VOutOfFuel) e x.
  Proof. right. exists []. split; [apply pref_nil | reflexivity]. Qed.

  Lemma eval_below :
    (forall e0 e x, SEval e0 e x -> forall n, below (eval_expr V I env n e0) e x) /\
    (forall t e x, STree t e x -> forall n, below (eval_tree V I env (eval_expr V I env n) t) e x) /\
    (forall v e x, SVal v e x -> forall n, below (eval_val V I env (eval_expr V I env n) v) e x) /\
    (forall args e xs, SArgs args e xs -> forall n, below (eval_args V (eval_expr V I env n) args) e xs).
  Proof.
    apply SEval_mut.
    - intros v rest e x _ IH [|n]; cbn [eval_expr]; [apply below_oof|]. apply IH.
    - intros v e x _ IH n. cbn [eval_tree]. apply IH.
    - intros l o r e1 a e2 b _ IH1 _ IH2 n. cbn [eval_tree].
      eapply below_ebind; [apply IH1|]. cbv beta.
      rewrite <- (app_nil_r e2). eapply below_ebind; [apply IH2|]. apply below_got.
    - intros x n. apply below_got.
    - intros p n. apply below_got.
    - intros f args e vs _ IH n. cbn [eval_val].
      eapply below_ebind; [apply IH|]. apply below_got.
    - intros x a v Hf n. cbn [eval_val]. rewrite Hf. apply below_got.
    - intros e0 e x _ IH n. cbn [eval_val]. apply IH.
    - intros t tag n. apply below_got.
    - intros n. apply below_got.
    - intros a args e1 x e2 xs _ IH1 _ IH2 n. cbn [eval_args].
      eapply below_ebind; [apply IH1|]. cbv beta.
      rewrite <- (app_nil_r e2). eapply below_ebind; [apply IH2|]. apply below_got.
  Qed.

  Lemma eval_expr_below e0 e x : SEval e0 e x -> forall n, below (eval_expr V I env n e0) e x.
  Proof. apply eval_below. Qed.
  Lemma eval_exprs_below args e xs :
    SArgs args e xs -> forall n, below (eval_exprs V I env n args) e xs.
  Proof. apply eval_below. Qed.

  (** the embedding the analyzer evaluates for a bracketed tree reads as the tree *)
  Lemma bracket_one v o v2 : bracket v [(o, v2)] = Node (Leaf v) o (Leaf v2).
  Proof. reflexivity. Qed.

  Lemma SVal_embed : forall t e x, SVal (embed t) e x -> STree t e x.
  Proof.
    induction t as [v|l IHl o r IHr]; intros e x H; cbn [embed] in H.
    - apply ST_leaf, H.
    - inversion H as [| | | |e0 e' x' H0|]; subst. inversion H0 as [v rest e' x' H1]; subst.
      rewrite bracket_one in H1. inversion H1 as [|l' o' r' e1 a e2 b Hl Hr]; subst.
      inversion Hl; subst. inversion Hr; subst.
      apply ST_node; [apply IHl | apply IHr]; assumption.
  Qed.

  (** conditions *)
  Inductive SLCond : lcond -> ev -> bool -> Prop :=
  | SL_last l cmp r e1 a e2 b :
      SEval l e1 a -> SEval r e2 b -> SLCond (LC l cmp r None) (e1 ++ e2) (i_cmp I cmp a b)
  | SL_link l cmp r o c' e1 a e2 b e3 rest :
      SEval l e1 a -> SEval r e2 b -> SLCond c' e3 rest ->
      SLCond (LC l cmp r (Some (o, c'))) (e1 ++ e2 ++ e3)
             (combine_logic o (i_cmp I cmp a b) rest).

  Inductive SCond : cond -> ev -> bool -> Prop :=
  | SC_single e0 e x : SEval e0 e x -> SCond (CSingle e0) e (i_truth I x)
  | SC_logic l e b : SLCond l e b -> SCond (CLogic l) e b.

  Lemma eval_lcond_below l e b : SLCond l e b -> forall n, below (eval_lcond V I env n l) e b.
  Proof.
    induction 1 as [l cmp r e1 a e2 b Hl Hr | l cmp r o c' e1 a e2 b e3 rest Hl Hr _ IH]; intro n;
      cbn [eval_lcond].
    - eapply below_ebind; [apply eval_expr_below, Hl|]. cbv beta.
      rewrite <- (app_nil_r e2). eapply below_ebind; [apply eval_expr_below, Hr|]. apply below_got.
    - eapply below_ebind; [apply eval_expr_below, Hl|]. cbv beta.
      eapply below_ebind; [apply eval_expr_below, Hr|]. cbv beta.
      rewrite <- (app_nil_r e3). eapply below_ebind; [apply IH|]. apply below_got.
  Qed.

  Lemma eval_cond_below cnd e b : SCond cnd e b -> forall n, below (eval_cond V I env n cnd) e b.
  Proof.
    intros [e0 e' x H|l e' b' H] n; cbn [eval_cond].
    - rewrite <- (app_nil_r e'). eapply below_ebind; [apply eval_expr_below, H|]. apply below_got.
    - apply eval_lcond_below, H.
  Qed.
End Source.

Arguments SEval {V} I env _ _ _.
Arguments STree {V} I env _ _ _.
Arguments SVal {V} I env _ _ _.
Arguments SArgs {V} I env _ _ _.
Arguments SLCond {V} I env _ _ _.
Arguments SCond {V} I env _ _ _.
Arguments below {V A} _ _ _.

(** ** Value tables, store, environment *)
Section Rel.
  Variable V : Type.

  Notation tab := (list (string * value)).
  Notation seg := (list (string * V)).

  Fixpoint tabs_find (x : string) (ts : list tab) : option value :=
    match ts with
    | [] => None
    | t :: ts' => match alookup x t with Some v => Some v | None => tabs_find x ts' end
    end.

  Lemma lookup_frames_tabs x fs : lookup_frames x fs = tabs_find x (map b_values fs).
  Proof.
    induction fs as [|b fs IH]; cbn; [reflexivity|]. destruct (alookup x (b_values b)); [reflexivity | exact IH].
  Qed.

  (** one block: the names of the table are the names of the frame, and the store holds under
      the internal name what the frame holds under the source name *)
  Definition SegAgree (mu : store V) (t : tab) (fr : seg) : Prop :=
    forall x, match alookup x t with
              | Some val => exists v, alookup x fr = Some v /\ alookup (v_inner val) mu = Some v
              | None => alookup x fr = None
              end.

  Definition Rel (ts : list tab) (mu : store V) (env : venv V) : Prop := Forall2 (SegAgree mu) ts env.

  (** every value record of the tables *)
  Definition InTabs (val : value) (ts : list tab) : Prop :=
    exists t x, In t ts /\ alookup x t = Some val.

  (** distinct entries of the tables carry distinct internal names *)
  Definition TabInj (ts : list tab) : Prop :=
    forall i j ti tj x y v w,
      nth_error ts i = Some ti -> nth_error ts j = Some tj ->
      alookup x ti = Some v -> alookup y tj = Some w -> v_inner v = v_inner w -> i = j /\ x = y.

  Lemma Rel_find ts mu env x :
    Rel ts mu env ->
    match tabs_find x ts with
    | Some val => exists v, env_find V x env = Some v /\ alookup (v_inner val) mu = Some v
    | None => env_find V x env = None
    end.
  Proof.
    induction 1 as [|t fr ts env Hs _ IH]; cbn [tabs_find env_find]; [reflexivity|].
    specialize (Hs x). destruct (alookup x t) as [val|].
    - destruct Hs as (v & E1 & E2). exists v. rewrite E1. split; [reflexivity | exact E2].
    - rewrite Hs. exact IH.
  Qed.

  Lemma Rel_push ts mu env : Rel ts mu env -> Rel ([] :: ts) mu ([] :: env).
  Proof. intro H. constructor; [|exact H]. intro x. reflexivity. Qed.

  Lemma Rel_pop t ts mu env : Rel (t :: ts) mu env -> Rel ts mu (tl env).
  Proof. intro H. inversion H; subst. exact H4. Qed.

  Lemma Rel_skipn k : forall ts mu env, Rel ts mu env -> Rel (skipn k ts) mu (skipn k env).
  Proof.
    induction k as [|k IH]; intros ts mu env H; [exact H|].
    destruct H as [|t fr ts env Hs H]; [constructor|]. cbn [skipn]. apply IH, H.
  Qed.

  Lemma Rel_length ts mu env : Rel ts mu env -> length ts = length env.
  Proof. induction 1 as [|t fr ts env _ _ IH]; cbn; [reflexivity | rewrite IH; reflexivity]. Qed.

  (** a write to an internal name that no table entry carries *)
  Lemma SegAgree_fresh mu t fr inner v :
    (forall x val, alookup x t = Some val -> v_inner val <> inner) ->
    SegAgree mu t fr -> SegAgree (ainsert inner v mu) t fr.
  Proof.
    intros Hf H x. specialize (H x). destruct (alookup x t) as [val|] eqn:E; [|exact H].
    destruct H as (w & E1 & E2). exists w. split; [exact E1|].
    rewrite InvNames.alookup_ainsert.
    destruct (String.eqb_spec (v_inner val) inner) as [Ei|_]; [exfalso; eapply Hf; eassumption | exact E2].
  Qed.

  Lemma Rel_fresh ts mu env inner v :
    (forall val, InTabs val ts -> v_inner val <> inner) ->
    Rel ts mu env -> Rel ts (ainsert inner v mu) env.
  Proof.
    intros Hf H. induction H as [|t fr ts env Hs H IH]; [constructor|].
    constructor.
    - apply SegAgree_fresh; [|exact Hs]. intros x val E. apply Hf. exists t, x. split; [left; reflexivity | exact E].
    - apply IH. intros val (t' & x & Hin & E). apply Hf. exists t', x. split; [right; exact Hin | exact E].
  Qed.

  (** a declaration *)
  Lemma Rel_declare t ts mu fr env x val v :
    (forall w, InTabs w (t :: ts) -> v_inner w <> v_inner val) ->
    Rel (t :: ts) mu (fr :: env) ->
    Rel (ainsert x val t :: ts) (ainsert (v_inner val) v mu) (((x, v) :: fr) :: env).
  Proof.
    intros Hf H. pose proof (Rel_fresh _ _ _ _ v Hf H) as H'. inversion H' as [|? ? ? ? Hs Hr]; subst.
    constructor; [|exact Hr]. intro y. rewrite InvNames.alookup_ainsert. cbn [alookup].
    destruct (String.eqb y x) eqn:E.
    - exists v. split; [reflexivity|]. rewrite InvNames.alookup_ainsert, String.eqb_refl. reflexivity.
    - exact (Hs y).
  Qed.

  Lemma alookup_frame_set x y v (fr : seg) :
    alookup y (frame_set V x v fr) =
    if String.eqb y x then match alookup x fr with Some _ => Some v | None => None end
    else alookup y fr.
  Proof.
    induction fr as [|[k w] fr IH]; cbn [frame_set alookup].
    - destruct (String.eqb y x); reflexivity.
    - destruct (String.eqb x k) eqn:Exk; cbn [alookup].
      + apply String.eqb_eq in Exk. subst k. destruct (String.eqb y x); reflexivity.
      + destruct (String.eqb y k) eqn:Eyk.
        * apply String.eqb_eq in Eyk. subst k. rewrite String.eqb_sym in Exk. rewrite Exk. reflexivity.
        * rewrite IH. reflexivity.
  Qed.

  (** an assignment to the visible declaration of [x] *)
  Lemma Rel_assign : forall ts mu env x val v,
    TabInj ts -> Rel ts mu env -> tabs_find x ts = Some val ->
    exists env', env_assign V x v env = Some env' /\ Rel ts (ainsert (v_inner val) v mu) env'.
  Proof.
    intros ts mu env x val v Hinj H. revert Hinj.
    induction H as [|t fr ts env Hs H IH]; intros Hinj Hf; cbn [tabs_find] in Hf; [discriminate|].
    cbn [env_assign].
    assert (Hinj' : TabInj ts).
    { intros i j ti tj a b p q Hi Hj Ha Hb E.
      destruct (Hinj (S i) (S j) ti tj a b p q Hi Hj Ha Hb E) as [Hij Hab].
      split; [lia | exact Hab]. }
    pose proof (Hs x) as Hx. destruct (alookup x t) as [val0|] eqn:Et.
    - inversion Hf; subst val0. destruct Hx as (w & E1 & E2). rewrite E1.
      eexists. split; [reflexivity|]. constructor.
      + intro y. rewrite alookup_frame_set, E1. pose proof (Hs y) as Hy.
        destruct (String.eqb_spec y x) as [->|Hne].
        * rewrite Et. exists v. split; [reflexivity|].
          rewrite InvNames.alookup_ainsert, String.eqb_refl. reflexivity.
        * destruct (alookup y t) as [valy|] eqn:Ey; [|exact Hy].
          destruct Hy as (wy & F1 & F2). exists wy. split; [exact F1|].
          rewrite InvNames.alookup_ainsert.
          destruct (String.eqb_spec (v_inner valy) (v_inner val)) as [Ei|_]; [|exact F2].
          exfalso. destruct (Hinj O O t t y x valy val eq_refl eq_refl Ey Et Ei) as [_ Hyx].
          contradiction.
      + apply Rel_fresh; [|exact H]. intros w' (t' & y & Hin & Ey) Ei.
        apply In_nth_error in Hin as [j Hj].
        destruct (Hinj (S j) O t' t y x w' val Hj eq_refl Ey Et Ei) as [Hij _]. discriminate.
    - rewrite Hx. destruct (IH Hinj' Hf) as (env' & E & HR). rewrite E.
      eexists. split; [reflexivity|]. constructor; [|exact HR].
      apply SegAgree_fresh; [|exact Hs]. intros y w' Ey Ei.
      assert (Hin : exists j tj, nth_error ts j = Some tj /\ alookup x tj = Some val).
      { clear - Hf. induction ts as [|t' ts IHt]; cbn [tabs_find] in Hf; [discriminate|].
        destruct (alookup x t') as [v0|] eqn:E0.
        - inversion Hf; subst. exists O, t'. split; [reflexivity | exact E0].
        - destruct (IHt Hf) as (j & tj & Hj & Ej). exists (S j), tj. split; assumption. }
      destruct Hin as (j & tj & Hj & Ej).
      destruct (Hinj O (S j) t tj y x w' val eq_refl Hj Ey Ej Ei) as [Hij _]. discriminate.
  Qed.
End Rel.

Arguments tabs_find _ _ : clear implicits.
Arguments SegAgree {V} _ _ _.
Arguments Rel {V} _ _ _.
