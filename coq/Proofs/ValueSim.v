(** C05 with values, the theorem: in an accepted program, running a function's emitted stack on
    the register machine computes the same observable trace - WITH DATA - as running the source
    statements (with the recorded finding F5), for every interpretation of the primitive
    operations.

    - the parameters: the [FunctionArg] instructions bind the arguments in order, and the store
      then agrees with the outermost frame of the source environment ([V_params]);
    - one function ([function_body_VSem]); from the exit table to the comparison of traces
      ([VSem_agree], [VSem_returns]);
    - the driver. *)
From Coq Require Import Lia.
From SA Require Import Model.
From SA.Spec Require Import Stack Bracket Exec Tables.
From SA.Mon Require Import Control.
From SA.Proofs Require Import Reach InvReg Trace InvNames InvLabels Resolve DefUse ExecBasic.
From SA.Proofs Require Import Fold FlowBasic FlowSem FlowExpr FlowSim DenoteLogic ResolutionBase.
From SA.Spec Require Import ValueExec.
From SA.Proofs Require Import ValueSimBase ValueSimExpr ValueSimFrag ValueSimStmt.
Local Open Scope list_scope.

Section Fn.
  Variable V : Type.
  Variable I : interp V.
  Variable c : list instr.

  Definition pnames (ps : list (ident * ast_ty)) : list string := map (fun p => iname (fst p)) ps.

  (** the table of the parameter phase: internal name = source name *)
  Definition SelfInner (t : list (string * value)) : Prop :=
    forall y v, alookup y t = Some v -> v_inner v = y.

  Lemma SelfInner_TabInj t : SelfInner t -> TabInj [t].
  Proof.
    intros H i j ti tj x y v w Hi Hj Hx Hy E.
    destruct i as [|i]; [|destruct i; discriminate]. destruct j as [|j]; [|destruct j; discriminate].
    cbn in Hi, Hj. inversion Hi; inversion Hj; subst. split; [reflexivity|].
    rewrite <- (H _ _ Hx), <- (H _ _ Hy). exact E.
  Qed.

  Lemma V_params : forall ps s a s' b,
    frames s = [b] -> SelfInner (b_values b) ->
    init_func_params ps s = Ok a s' -> errs s' = [] ->
    exists b' dps,
      frames s' = [b'] /\ b_ctx b' = b_ctx b ++ dps /\ b_reg b' = b_reg b /\ defs dps = [] /\
      SelfInner (b_values b') /\
      forall pre post, c = pre ++ dps ++ post ->
      forall mu az fr args, length args = length ps -> SegAgree mu (b_values b) fr ->
        exists mu',
          vsteps I c (length pre) (MState [] mu (args ++ az)) [] (length pre + length dps)
                 (MState [] mu' az) /\
          SegAgree mu' (b_values b') (rev (combine (pnames ps) args) ++ fr).
  Proof.
    induction ps as [|[x t] ps IH]; intros s a s' b Hf Hself H Hacc; cbn [init_func_params] in H.
    - inversion H; subst. exists b, []. rewrite app_nil_r. repeat split; try assumption.
      intros pre post Hc mu az fr args Hlen HS. destruct args; [|discriminate].
      exists mu. cbn. rewrite Nat.add_0_r. split; [apply vsteps_refl | exact HS].
    - unfold bind, lookup_value, gets in H. rewrite Hf in H. cbn [lookup_frames] in H.
      destruct (alookup (iname x) (b_values b)) as [v|] eqn:El.
      { exfalso. eapply add_error_not_nil; eassumption. }
      set (val := Value (iname x) (sem_of_ty t) false) in *.
      destruct (insert_value (iname x) val s) as [a1 s1| |] eqn:E1; try discriminate.
      apply insert_value_eq in E1 as ->.
      destruct (set_inner_name (iname x) (st_value (iname x) val s)) as [a2 s2| |] eqn:E2; try discriminate.
      apply set_inner_name_eq in E2 as ->.
      destruct (emit (IFnArg val (iname x) (sem_of_ty t)) _) as [a3 s3| |] eqn:E3; try discriminate.
      apply emit_eq in E3 as ->.
      set (i := IFnArg val (iname x) (sem_of_ty t)) in *.
      set (b1 := push_ctx i (add_inner (iname x) (set_value (iname x) val b))).
      assert (Hf1 : frames (st_emit i (st_inner (iname x) (st_value (iname x) val s))) = [b1]).
      { unfold st_emit, st_inner, st_value. cbn [frames]. rewrite Hf. reflexivity. }
      assert (Hself1 : SelfInner (b_values b1)).
      { intros y v. unfold b1. cbn [push_ctx add_inner set_value b_values].
        rewrite alookup_ainsert. destruct (String.eqb_spec y (iname x)) as [->|_].
        - intro E. inversion E; subst. reflexivity.
        - apply Hself. }
      destruct (IH _ _ _ b1 Hf1 Hself1 H Hacc) as (b' & dps & Hf' & Hc' & Hr' & Hd' & Hs' & Hrun).
      exists b', (i :: dps). split; [exact Hf'|].
      split; [rewrite Hc'; unfold b1; cbn [push_ctx b_ctx add_inner set_value]; rewrite <- app_assoc; reflexivity|].
      split; [rewrite Hr'; reflexivity|].
      split; [unfold defs in *; cbn; exact Hd'|]. split; [exact Hs'|].
      intros pre post Hc mu az fr args Hlen HS. destruct args as [|a0 args]; [discriminate|].
      cbn [length] in Hlen. injection Hlen as Hlen.
      assert (Hc1 : c = (pre ++ [i]) ++ dps ++ post) by (rewrite Hc, <- app_assoc; reflexivity).
      assert (HS1 : SegAgree (ainsert (iname x) a0 mu) (b_values b1) ((iname x, a0) :: fr)).
      { intro y. unfold b1. cbn [push_ctx add_inner set_value b_values].
        rewrite alookup_ainsert. cbn [alookup]. destruct (String.eqb_spec y (iname x)) as [->|Hne].
        - exists a0. split; [reflexivity|]. cbn [v_inner val]. rewrite alookup_ainsert, String.eqb_refl. reflexivity.
        - pose proof (HS y) as Hy. destruct (alookup y (b_values b)) as [vy|] eqn:Ey; [|exact Hy].
          destruct Hy as (w & F1 & F2). exists w. split; [exact F1|].
          rewrite alookup_ainsert. rewrite (Hself _ _ Ey).
          destruct (String.eqb_spec y (iname x)); [contradiction | ]. rewrite <- (Hself _ _ Ey). exact F2. }
      destruct (Hrun _ _ Hc1 _ az _ args Hlen HS1) as (mu' & Hs & HS').
      exists mu'. split.
      + change ((a0 :: args) ++ az) with (a0 :: args ++ az).
        rewrite <- (app_nil_l (@nil (vevent V))). eapply vsteps_cons.
        * rewrite (vstep_at V I c pre i (dps ++ post)) by (rewrite Hc; reflexivity).
          unfold i. cbn [vinstr_step m_args m_regs m_store v_inner val]. reflexivity.
        * eapply vsteps_eq; [exact Hs | | |reflexivity]; rewrite ?app_length; cbn [length]; lia.
      + cbn [pnames map fst combine rev]. rewrite <- app_assoc. exact HS'.
  Qed.
End Fn.

(** ** From the exit table to the comparison of traces *)
Section Agree.
  Variable V : Type.
  Variable I : interp V.
  Hypothesis Heqb : forall v, i_eqb I v v = true.

  Lemma vals_eqb_refl l : vals_eqb V I l l = true.
  Proof. induction l as [|x l IH]; cbn; [reflexivity|]. rewrite Heqb, IH. reflexivity. Qed.
  Lemma vevent_eqb_refl e : vevent_eqb V I e e = true.
  Proof. destruct e; cbn; rewrite ?Heqb, ?String.eqb_refl, ?vals_eqb_refl; reflexivity. Qed.
  Lemma vevents_eqb_refl l : vevents_eqb V I l l = true.
  Proof. induction l as [|e l IH]; cbn; [reflexivity|]. rewrite vevent_eqb_refl, IH. reflexivity. Qed.
  Lemma vprefixb_app a r : vprefixb V I a (a ++ r) = true.
  Proof. induction a as [|e a IH]; cbn; [reflexivity|]. rewrite vevent_eqb_refl, IH. reflexivity. Qed.
  Lemma comp_vprefixb a b : comp a b -> vprefixb V I a b || vprefixb V I b a = true.
  Proof.
    intros [[r <-]|[r <-]]; rewrite vprefixb_app; [reflexivity | apply Bool.orb_true_r].
  Qed.
  Lemma pref_vprefixb a b : pref a b -> vprefixb V I a b = true.
  Proof. intros [r <-]. apply vprefixb_app. Qed.
End Agree.

(** the comparison, as a proposition: the data are EQUAL *)
Definition vagreeP {V} (t1 t2 : vtrace V) : Prop :=
  match snd t1, snd t2 with
  | VReturned, VReturned => fst t1 = fst t2
  | _, _ => comp (fst t1) (fst t2)
  end.

Lemma vagreeP_vagree {V} (I : interp V) t1 t2 :
  (forall v, i_eqb I v v = true) -> vagreeP t1 t2 -> vagree V I t1 t2 = true.
Proof.
  intros He H. unfold vagreeP in H. unfold vagree.
  destruct (snd t1), (snd t2); try (apply comp_vprefixb; assumption).
  rewrite H. apply vevents_eqb_refl, He.
Qed.

Section One.
  Variable V : Type.
  Variable I : interp V.

  Lemma vflat_run_mono c : forall fuel pc st t s,
    vflat_run V I c fuel pc st = (t, s) -> s <> VOutOfFuel ->
    forall fuel', (fuel <= fuel')%nat -> vflat_run V I c fuel' pc st = (t, s).
  Proof.
    induction fuel as [|fuel IH]; intros pc st t s Hrun Hst fuel' Hle; cbn in Hrun.
    - inversion Hrun; subst. congruence.
    - destruct fuel' as [|fuel']; [lia|]. cbn.
      destruct (vflat_step V I c pc st) as [ev pc' st'|ev s']; [|exact Hrun].
      destruct (vflat_run V I c fuel pc' st') as [t0 s0] eqn:E.
      unfold vprepend_trace in Hrun. cbn in Hrun. inversion Hrun; subst.
      rewrite (IH pc' st' t0 s E Hst fuel') by lia. reflexivity.
  Qed.

  Lemma VSem_agree c d pend ts' st r :
    VSem V I c (TF V c None None true d pend ts') 0 st r ->
    forall n1, vagreeP (vflat_run V I c n1 0 st) (vfinish V r) /\ vok (snd (vfinish V r)) = true.
  Proof.
    destruct r as [[e cpl] env']. intros (x & Hd & HT) n1. destruct cpl; cbn [TF TC] in HT.
    - destruct HT; discriminate.
    - destruct HT as (lb & le & k & tq & pc & st' & Hx & _); discriminate.
    - destruct HT as (lb & le & k & tq & pc & st' & Hx & _); discriminate.
    - destruct HT as (le & k & te & pc & st' & Hx & _); discriminate.
    - destruct s; try contradiction; subst x; cbn [vdoes] in Hd; cbn [vfinish snd vok].
      + split; [|reflexivity]. unfold vagreeP.
        destruct (vhalts_run V I c _ _ _ _ Hd n1) as [E|(p & Hp & E)]; rewrite E; cbn [fst snd].
        * reflexivity.
        * left. exact Hp.
      + split; [|reflexivity]. specialize (Hd n1). unfold vagreeP.
        destruct (vflat_run V I c n1 0 st) as [e1 st1]. cbn [fst snd] in *. destruct st1; exact Hd.
  Qed.

  (** a structured run that returns is matched by the machine, given enough fuel *)
  Lemma VSem_returns c d pend ts' st r e :
    VSem V I c (TF V c None None true d pend ts') 0 st r -> vfinish V r = (e, VReturned) ->
    exists n1, forall n, (n1 <= n)%nat -> vflat_run V I c n 0 st = (e, VReturned).
  Proof.
    destruct r as [[e' cpl] env']. intros (x & Hd & HT) E.
    destruct cpl; cbn [vfinish] in E; try discriminate. inversion E; subst.
    cbn [TF TC] in HT. subst x. cbn [vdoes] in Hd.
    destruct (vhalts_enough V I c _ _ _ _ Hd) as [m Hm]. exists m. intros n Hn.
    eapply vflat_run_mono; [exact Hm | discriminate | exact Hn].
  Qed.
End One.

(** ** One function *)
Lemma function_body_VSem {V} (I : interp V) G f a s root :
  GWF G -> function_body G [] f = Ok a s -> errs s = [] -> frames s = [root] ->
  NoDup (set_labels (b_ctx root)) -> resolved (b_ctx root) ->
  forall args, length args = length (fn_params f) ->
  exists d pend ts', forall n2,
    VSem V I (b_ctx root) (TF V (b_ctx root) None None true d pend ts') 0 (MState [] [] args)
         (vexec_stmts V I true n2 false (fn_body f) [param_frame V (fn_params f) args]).
Proof.
  intros HW H Hacc Hf Hnd Hres args Hlen.
  unfold function_body, function_body_m in H.
  pose proof Mono_init_func_params as HM0.
  pose proof (Mono_fn_stmts G (fuel_of f) (sem_of_ty (fn_result f))) as HM1.
  set (c := b_ctx root) in *.
  dstep H Hacc as u0 E0 Hacc0.
  dstep H Hacc as returned E1 Hacc1.
  destruct (when_error_acc _ _ _ _ _ H Hacc) as [Hret <-]. clear H.
  apply Bool.negb_false_iff in Hret. subst returned.
  (* the parameter phase *)
  assert (Hf0 : frames (BSt [empty_block] []) = [empty_block]) by reflexivity.
  assert (Hs0 : SelfInner (b_values empty_block)) by (intros y v E; discriminate).
  destruct (V_params V I c _ _ _ _ empty_block Hf0 Hs0 E0 Hacc0)
    as (b1 & dps & Hf1 & Hc1 & Hr1 & Hd1 & Hself1 & Hrun).
  cbn [b_ctx empty_block app b_reg] in Hc1, Hr1.
  assert (W1 : WF s0).
  { split; [rewrite Hf1; discriminate|].
    eapply reach_Inv_reg; [eapply R_init_func_params, E0 | apply Inv_reg_init]. }
  assert (Hnix1 : NIX s0).
  { split.
    - destruct (Inv_names_init []) as [Hi Hp]. eapply init_func_params_names; eassumption.
    - unfold vals. rewrite Hf1. cbn [map]. apply SelfInner_TabInj, Hself1. }
  assert (Hh1 : hr s0 = 0%N) by (unfold hr; rewrite Hf1; cbn [head_reg]; exact Hr1).
  assert (Hv1 : vals s0 = [b_values b1]) by (unfold vals; rewrite Hf1; reflexivity).
  (* the statements *)
  destruct (V_fn_stmts V I c Hnd Hres G HW (fuel_of f) (sem_of_ty (fn_result f)) (fn_body f) false s0 Hnix1
              W1 true s E1 Hacc) as (d1 & HC1 & W2 & L2 & D2 & HQ & _).
  specialize (HQ eq_refl). unfold Q_fn in HQ.
  assert (Hroot : c = dps ++ d1).
  { unfold ctxs in HC1. rewrite Hf, Hf1 in HC1. cbn in HC1. inversion HC1 as [Hr]. unfold c.
    rewrite Hr, Hc1. reflexivity. }
  assert (Hp : Pos c dps d1 [] 0 (hr s)).
  { constructor.
    - rewrite Hroot, app_nil_r. reflexivity.
    - rewrite Hd1. constructor.
    - rewrite Hh1 in D2. exact D2.
    - constructor.
    - rewrite <- Hh1. exact L2. }
  destruct (Hrun [] (d1 ++ []) ltac:(rewrite Hroot, app_nil_r; reflexivity) [] [] [] args Hlen)
    as (mu1 & Hs1 & HS1).
  { intro x. reflexivity. }
  rewrite app_nil_r in HS1, Hs1. cbn [length Nat.add] in Hs1.
  exists d1, (length dps + length d1)%nat, (vals s). intro n2.
  assert (HM1' : MS V c (vals s0) (MState [] mu1 []) [param_frame V (fn_params f) args]).
  { split; [intros n _; reflexivity|]. rewrite Hv1. constructor; [exact HS1 | constructor]. }
  rewrite Hh1 in HQ.
  pose proof (HQ dps [] Hp n2 _ _ HM1') as HSem.
  eapply VSem_prepend_nil; [exact Hs1 | exact HSem].
Qed.

(** ** The driver *)

(** THE SIMULATION WITH VALUES.  In an accepted program, for every function, every interpretation
    of the primitive operations, all argument values (as many as the function has parameters)
    and every pair of fuels: the trace of the register machine on the emitted stack and the trace
    of the source semantics with the recorded finding F5 ([quirk = true]) agree - the event lists
    are EQUAL, with the data they carry, when both runs end with [VReturned], and one is a prefix
    of the other when a fuel ran out - and the source semantics ends well: it is never stuck and
    never falls off the end of the body. *)
Theorem value_simulation_P : forall (V : Type) (I : interp V) p out,
  run p = ROk out -> o_errors out = [] ->
  Forall2 (fun f root =>
             forall args n1 n2, length args = length (fn_params f) ->
               vagreeP (vflat_exec V I (b_ctx root) args n1) (vstruct_exec V I true f args n2) /\
               vok (snd (vstruct_exec V I true f args n2)) = true)
          (functions_of p) (o_fns out).
Proof.
  intros V I p out H Hacc.
  pose proof (run_accepted_each p out H Hacc) as HF.
  pose proof (run_labels_unique p out H) as HU.
  pose proof (run_targets_resolved p out H) as HR.
  pose proof (Forall2_Forall_r _ _ _ _ (Forall2_Forall_r _ _ _ _ HF HU) HR) as HF'.
  eapply Forall2_impl; [|exact HF']. cbv beta.
  intros f root [[(a & s & Hb & He & Hfr) Hnd] Hres] args n1 n2 Hlen.
  assert (HW : GWF (o_globals out)) by (rewrite (run_globals p out H); apply GWF_declarations).
  destruct (function_body_VSem I _ f a s root HW Hb He Hfr Hnd Hres args Hlen) as (d & pend & ts' & HS).
  unfold vstruct_exec, vflat_exec. rewrite Hlen, Nat.eqb_refl.
  eapply VSem_agree, HS.
Qed.

Theorem value_simulation : forall (V : Type) (I : interp V) p out,
  (forall v, i_eqb I v v = true) ->
  run p = ROk out -> o_errors out = [] ->
  Forall2 (fun f root =>
             forall args n1 n2, length args = length (fn_params f) ->
               vagree V I (vflat_exec V I (b_ctx root) args n1) (vstruct_exec V I true f args n2) = true /\
               vok (snd (vstruct_exec V I true f args n2)) = true)
          (functions_of p) (o_fns out).
Proof.
  intros V I p out He H Hacc. eapply Forall2_impl; [|exact (value_simulation_P V I p out H Hacc)].
  cbv beta. intros f root HS args n1 n2 Hlen. destruct (HS args n1 n2 Hlen) as [Ha Ho].
  split; [apply vagreeP_vagree; assumption | exact Ho].
Qed.

(** Termination transfers: when the source semantics returns, the register machine returns, for
    every sufficiently large fuel, with the same events and the same data - in particular it is
    never stuck on the way. *)
Theorem value_simulation_returns : forall (V : Type) (I : interp V) p out,
  run p = ROk out -> o_errors out = [] ->
  Forall2 (fun f root =>
             forall args n2 e, length args = length (fn_params f) ->
               vstruct_exec V I true f args n2 = (e, VReturned) ->
               exists n1, forall n, (n1 <= n)%nat ->
                                    vflat_exec V I (b_ctx root) args n = (e, VReturned))
          (functions_of p) (o_fns out).
Proof.
  intros V I p out H Hacc.
  pose proof (run_accepted_each p out H Hacc) as HF.
  pose proof (run_labels_unique p out H) as HU.
  pose proof (run_targets_resolved p out H) as HR.
  pose proof (Forall2_Forall_r _ _ _ _ (Forall2_Forall_r _ _ _ _ HF HU) HR) as HF'.
  eapply Forall2_impl; [|exact HF']. cbv beta.
  intros f root [[(a & s & Hb & He & Hfr) Hnd] Hres] args n2 e Hlen E.
  assert (HW : GWF (o_globals out)) by (rewrite (run_globals p out H); apply GWF_declarations).
  destruct (function_body_VSem I _ f a s root HW Hb He Hfr Hnd Hres args Hlen) as (d & pend & ts' & HS).
  unfold vstruct_exec in E. rewrite Hlen, Nat.eqb_refl in E. unfold vflat_exec.
  eapply VSem_returns; [apply HS | exact E].
Qed.

(** ** The free interpretation of the monitor is an instance *)
Lemma prim_ty_eqb_refl' t : prim_ty_eqb t t = true.
Proof. destruct t; reflexivity. Qed.

Lemma term_eqb_refl : forall t, term_eqb t t = true.
Proof.
  fix IH 1. intros [p|o l r|t a|tag|x|f args|k]; cbn [term_eqb].
  - unfold prim_val_eqb. rewrite prim_ty_eqb_refl', Z.eqb_refl. reflexivity.
  - rewrite String.eqb_refl, (IH l), (IH r). reflexivity.
  - rewrite (IH t), String.eqb_refl. reflexivity.
  - apply N.eqb_refl.
  - apply String.eqb_refl.
  - rewrite String.eqb_refl. cbn [andb].
    induction args as [|a args IHa]; [reflexivity|]. rewrite (IH a). exact IHa.
  - apply N.eqb_refl.
Qed.

(** for every salt, on the output of the model for an accepted program: two of the three
    conjuncts of the monitor [Mon/C05v.chk_C05v_salt] hold for all fuels *)
Corollary free_interpretation_agrees : forall salt p out,
  run p = ROk out -> o_errors out = [] ->
  Forall2 (fun f root =>
             forall n1 n2,
               let I := free_interp salt in
               let args := free_args (length (fn_params f)) in
               vagree term I (vflat_exec term I (b_ctx root) args n1) (vstruct_exec term I true f args n2) = true /\
               vok (snd (vstruct_exec term I true f args n2)) = true)
          (functions_of p) (o_fns out).
Proof.
  intros salt p out H Hacc.
  eapply Forall2_impl; [|exact (value_simulation term (free_interp salt) p out term_eqb_refl H Hacc)].
  cbv beta. intros f root HS n1 n2. cbv zeta. apply HS.
  unfold free_args. rewrite map_length, seq_length. reflexivity.
Qed.

Print Assumptions value_simulation_P.
Print Assumptions value_simulation.
Print Assumptions value_simulation_returns.
Print Assumptions free_interpretation_agrees.
