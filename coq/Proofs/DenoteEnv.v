(** Family T2 (C06), part 1: the monitor of [Mon/C06.v] made compositional.

    - [scan] as a fold: the environment after a prefix ([env_from]), the sites of a
      concatenation ([dscan_app]);
    - stability: instructions that define new registers change neither the tree of an operand
      that names an old register (finding F7 included) nor the tree of an old register;
    - token lists without accumulators, on both sides; the flat forms of the nested fixpoints of
      the source side; brackets made by the priority fold are invisible in them;
    - [site_ok]: the Leibniz form of the monitor's site comparison, which implies the boolean one
      for both settings of the scoping flag. *)
From Coq Require Import Lia.
From SA Require Import Model.
From SA.Spec Require Import Stack Bracket.
From SA.Mon Require Import C06.
From SA.Proofs Require Import Reach InvReg Trace InvNames DefUse Fold DenoteLogic.
Local Open Scope list_scope.

(** ** Induction on expressions (as in [Proofs/CodecRT.v]) *)
Section ExprInd.
  Variable P : expr -> Prop.
  Variable Q : expr_val -> Prop.
  Hypothesis HExpr : forall v rest, Q v -> Forall (fun p => Q (snd p)) rest -> P (Expr v rest).
  Hypothesis HName : forall x, Q (EVName x).
  Hypothesis HPrim : forall p, Q (EVPrim p).
  Hypothesis HCall : forall f args, Forall P args -> Q (EVCall f args).
  Hypothesis HField : forall x a, Q (EVField x a).
  Hypothesis HSub : forall e, P e -> Q (EVSub e).
  Hypothesis HExt : forall t tag, Q (EVExt t tag).
  Fixpoint expr_ind3 (e : expr) : P e :=
    match e with
    | Expr v rest =>
        HExpr v rest (val_ind3 v)
          ((fix go (l : list (binop * expr_val)) : Forall (fun p => Q (snd p)) l :=
              match l with
              | [] => Forall_nil _
              | p :: l' =>
                  Forall_cons (P := fun p => Q (snd p)) p
                    (match p as p0 return Q (snd p0) with (op, v') => val_ind3 v' end) (go l')
              end) rest)
    end
  with val_ind3 (v : expr_val) : Q v :=
    match v with
    | EVName x => HName x
    | EVPrim p => HPrim p
    | EVCall f args =>
        HCall f args
          ((fix go (l : list expr) : Forall P l :=
              match l with
              | [] => Forall_nil _
              | e :: l' => Forall_cons e (expr_ind3 e) (go l')
              end) args)
    | EVField x a => HField x a
    | EVSub e => HSub e (expr_ind3 e)
    | EVExt t tag => HExt t tag
    end.
  Definition expr_val_ind3 : (forall e, P e) /\ (forall v, Q v) := conj expr_ind3 val_ind3.
End ExprInd.

Section DtInd.
  Variable P : dt -> Prop.
  Hypothesis HLit : forall p, P (DLit p).
  Hypothesis HRead : forall n, P (DRead n).
  Hypothesis HConst : forall n, P (DConst n).
  Hypothesis HField : forall n i, P (DField n i).
  Hypothesis HCall : forall f args, Forall P args -> P (DCall f args).
  Hypothesis HExt : forall t, P (DExt t).
  Hypothesis HOp : forall o l r, P l -> P r -> P (DOp o l r).
  Hypothesis HCmp : forall c l r, P l -> P r -> P (DCmp c l r).
  Hypothesis HLogic : forall o l r, P l -> P r -> P (DLogic o l r).
  Hypothesis HUnknown : forall n, P (DUnknown n).
  Fixpoint dt_ind' (t : dt) : P t :=
    match t with
    | DLit p => HLit p
    | DRead n => HRead n
    | DConst n => HConst n
    | DField n i => HField n i
    | DCall f args =>
        HCall f args
          ((fix go (l : list dt) : Forall P l :=
              match l with
              | [] => Forall_nil _
              | a :: l' => Forall_cons a (dt_ind' a) (go l')
              end) args)
    | DExt t => HExt t
    | DOp o l r => HOp o l r (dt_ind' l) (dt_ind' r)
    | DCmp c l r => HCmp c l r (dt_ind' l) (dt_ind' r)
    | DLogic o l r => HLogic o l r (dt_ind' l) (dt_ind' r)
    | DUnknown n => HUnknown n
    end.
End DtInd.

Ltac app_norm := repeat (progress (cbn [app]; rewrite <- ?app_assoc)).

(** ** The scan as a fold *)
Definition env_upd (env : denv) (i : instr) : denv :=
  match i with
  | IExprValue v r => (r, DRead (v_inner v), false) :: env
  | IExprConst k r => (r, DConst (c_name k), false) :: env
  | IExprStruct v idx r => (r, DField (v_inner v) idx, true) :: env
  | IExt tag r => (r, DExt tag, false) :: env
  | IExprOp o l r reg => (reg, DOp o (operand env l) (operand env r), false) :: env
  | ICondExpr l r cmp reg => (reg, DCmp cmp (operand env l) (operand env r), false) :: env
  | ILogic o lreg rreg reg => (reg, DLogic o (reg_tree env lreg) (reg_tree env rreg), false) :: env
  | ICall f args r => (r, DCall (f_name f) (map (operand env) args), true) :: env
  | _ => env
  end.

Definition site_of (env : denv) (i : instr) : list usite :=
  match i with
  | ICall f args _ => [UCall (f_name f) (map (operand env) args)]
  | ILet v e => [ULet (v_inner v) (operand env e)]
  | IBind v e => [UAssign (v_inner v) (operand env e)]
  | IFnRet e | IFnRetLabel e | IJumpFnRet e => [URet (operand env e)]
  | IIfCondExpr e _ _ => [UCondSingle (operand env e)]
  | IIfCondLogic _ _ reg => [UCondLogic (reg_tree env reg)]
  | _ => []
  end.

Lemma scan_cons env i c : scan env (i :: c) = site_of env i ++ scan (env_upd env i) c.
Proof. destruct i; reflexivity. Qed.

Definition env_from (env : denv) (c : list instr) : denv := fold_left env_upd c env.

Lemma env_from_app env c1 c2 : env_from env (c1 ++ c2) = env_from (env_from env c1) c2.
Proof. apply fold_left_app. Qed.

Lemma dscan_app : forall c1 env c2, scan env (c1 ++ c2) = scan env c1 ++ scan (env_from env c1) c2.
Proof.
  induction c1 as [|i c1 IH]; intros env c2; [reflexivity|].
  cbn [app]. rewrite !scan_cons, IH, app_assoc. reflexivity.
Qed.

Lemma scan_one env i : scan env [i] = site_of env i.
Proof. rewrite scan_cons. cbn. apply app_nil_r. Qed.

Lemma env_upd_find n env i : def_reg i <> Some n -> env_find n (env_upd env i) = env_find n env.
Proof.
  destruct i; cbn [env_upd def_reg env_find]; intro H; try reflexivity;
    match goal with |- context [N.eqb n ?r] => destruct (N.eqb_spec n r); [subst; congruence | reflexivity] end.
Qed.

Lemma defs_cons i c : defs (i :: c) = match def_reg i with Some r => [r] | None => [] end ++ defs c.
Proof. reflexivity. Qed.

Lemma env_from_find n : forall c env,
  Forall (fun r => r <> n) (defs c) -> env_find n (env_from env c) = env_find n env.
Proof.
  induction c as [|i c IH]; intros env H; [reflexivity|].
  rewrite defs_cons in H. apply Forall_app in H as [H1 H2].
  cbn [env_from fold_left]. fold (env_from (env_upd env i) c). rewrite IH by exact H2.
  apply env_upd_find. destruct (def_reg i) as [r|]; [|discriminate].
  inversion H1; subst. congruence.
Qed.

Lemma DefsIn_ne lo hi c n : DefsIn lo hi c -> n <= lo \/ hi < n -> Forall (fun r => r <> n) (defs c).
Proof. intros H Hn. eapply Forall_impl; [|exact H]. cbn. intros r Hr. lia. Qed.

(** an operand that names a register up to [lo] (with F7: the register before it is then also up
    to [lo]) keeps its tree when registers above [lo] are defined *)
Definition RegLe (h : N) (e : eres) : Prop := Forall (fun n => n <= h) (eres_reg e).

Lemma RegLe_mono h h' e : h <= h' -> RegLe h e -> RegLe h' e.
Proof. intros Hle H. eapply Forall_impl; [|exact H]. cbn. intros; lia. Qed.

Lemma RegLe_reg h t n : n <= h -> RegLe h (ERes t (RReg n)).
Proof. intro H. constructor; [exact H | constructor]. Qed.

Lemma RegLe_prim h t p : RegLe h (ERes t (RPrim p)).
Proof. constructor. Qed.

Lemma operand_stable lo hi c env e :
  DefsIn lo hi c -> RegLe lo e -> operand (env_from env c) e = operand env e.
Proof.
  intros Hd He. unfold operand, RegLe, eres_reg in *. destruct (r_val e) as [n|p]; [|reflexivity].
  inversion He as [|? ? Hn _]; subst.
  rewrite (env_from_find n) by (eapply DefsIn_ne; [exact Hd | lia]).
  rewrite (env_from_find (n - 1)) by (eapply DefsIn_ne; [exact Hd | lia]). reflexivity.
Qed.

Lemma reg_tree_stable lo hi c env n :
  DefsIn lo hi c -> n <= lo -> reg_tree (env_from env c) n = reg_tree env n.
Proof.
  intros Hd Hn. unfold reg_tree. rewrite (env_from_find n) by (eapply DefsIn_ne; [exact Hd | lia]).
  reflexivity.
Qed.

Lemma env_find_fresh n : forall c env,
  env_find n env = None -> Forall (fun r => r <> n) (defs c) -> env_find n (env_from env c) = None.
Proof. intros c env H Hd. rewrite env_from_find by exact Hd. exact H. Qed.

(** ** The root view *)
Definition Env (s : bst) : denv := env_from [] (Ctx s).

Lemma Env_app s s' c : Ctx s' = Ctx s ++ c -> Env s' = env_from (Env s) c.
Proof. intro H. unfold Env. rewrite H. apply env_from_app. Qed.

Lemma WF_defs_le s : WF s -> Forall (fun r => r <= hr s) (defs (Ctx s)).
Proof.
  intros [Hne Hinv]. unfold Inv_reg in Hinv. rewrite Forall_forall in Hinv.
  destruct (Hinv _ (root_of_in _ Hne)) as [_ [_ Hf]]. unfold Ctx, hr.
  eapply Forall_impl; [|exact Hf]. cbn. intros r Hr. lia.
Qed.

Lemma Env_above s n : WF s -> hr s < n -> env_find n (Env s) = None.
Proof.
  intros W Hn. unfold Env. apply env_find_fresh; [reflexivity|].
  eapply Forall_impl; [|apply (WF_defs_le s W)]. cbn. intros r Hr. lia.
Qed.

Lemma Env_same s s' : Ctx s' = Ctx s -> Env s' = Env s.
Proof. intro H. unfold Env. rewrite H. reflexivity. Qed.

(** ** Declarations *)
Lemma stack_decls_app a b : stack_decls (a ++ b) = stack_decls a ++ stack_decls b.
Proof. unfold stack_decls. apply flat_map_app. Qed.

Lemma nthN_app_l {A} (l1 l2 : list A) : forall i t, nthN l1 i = Some t -> nthN (l1 ++ l2) i = Some t.
Proof.
  induction l1 as [|x l1 IH]; intros i t H; cbn in *; [discriminate|].
  destruct (N.eqb i 0); [exact H | apply IH, H].
Qed.

Lemma nthN_app_r {A} (l1 l2 : list A) : forall i, nthN (l1 ++ l2) (N.of_nat (length l1) + i) = nthN l2 i.
Proof.
  induction l1 as [|x l1 IH]; intros i.
  - cbn [length app]. f_equal; lia.
  - cbn [length app nthN]. destruct (N.eqb_spec (N.of_nat (S (length l1)) + i) 0) as [E|E]; [lia|].
    rewrite <- (IH i). f_equal; lia.
Qed.

Lemma nthN_middle {A} (l1 : list A) x l2 : nthN (l1 ++ x :: l2) (N.of_nat (length l1)) = Some x.
Proof. rewrite <- (N.add_0_r (N.of_nat (length l1))), nthN_app_r. reflexivity. Qed.

Lemma decl_index_nth : forall (D : list (string * sem_ty)) k0 inner k,
  decl_index inner D k0 = Some k -> exists j t, k = k0 + j /\ nthN D j = Some (inner, t).
Proof.
  induction D as [|[n t] D IH]; intros k0 inner k H; cbn in H; [discriminate|].
  destruct (String.eqb_spec inner n) as [E|E].
  - inversion H; subst. exists 0, t. split; [lia | reflexivity].
  - destruct (IH _ _ _ H) as (j & t' & Hk & Hn). exists (j + 1), t'. split; [lia|].
    cbn [nthN]. destruct (N.eqb_spec (j + 1) 0); [lia|]. rewrite N.add_sub. exact Hn.
Qed.

Lemma nth_decl_index : forall (D : list (string * sem_ty)) k0 inner t j,
  NoDup (map fst D) -> nthN D j = Some (inner, t) -> decl_index inner D k0 = Some (k0 + j).
Proof.
  induction D as [|[n t0] D IH]; intros k0 inner t j Hnd Hn; cbn in Hn; [discriminate|].
  inversion Hnd as [|? ? Hnotin Hnd']; subst. cbn [decl_index].
  destruct (N.eqb_spec j 0) as [E|E].
  - inversion Hn; subst. rewrite String.eqb_refl. f_equal. lia.
  - destruct (String.eqb_spec inner n) as [E'|E'].
    + exfalso. subst n. apply Hnotin.
      assert (Hin : forall (l : list (string * sem_ty)) i, nthN l i = Some (inner, t) -> In inner (map fst l)).
      { induction l as [|[a b] l IHl]; intros i Hi; cbn in Hi; [discriminate|].
        destruct (N.eqb i 0); [inversion Hi; left; reflexivity | right; eapply IHl; exact Hi]. }
      eapply Hin. exact Hn.
    + rewrite (IH (k0 + 1) inner t (j - 1) Hnd' Hn). f_equal. lia.
Qed.

(** ** Tokens of trees, without accumulator *)
Definition nobad (l : list tok) : Prop := Forall (fun t => t <> KBad) l.

Lemma nobad_app a b : nobad (a ++ b) <-> nobad a /\ nobad b.
Proof. apply Forall_app. Qed.
Lemma nobad_cons t l : nobad (t :: l) <-> t <> KBad /\ nobad l.
Proof. split; [intro H; inversion H; split; assumption | intros [H1 H2]; constructor; assumption]. Qed.
Lemma nobad_nil : nobad [].
Proof. constructor. Qed.

Definition call_toks (f : string) (tokss : list (list tok)) : list tok :=
  KCallOpen f :: flat_map (fun l => l ++ [KCallSep]) tokss ++ [KCallClose].

Lemma nobad_call f tokss : Forall nobad tokss -> nobad (call_toks f tokss).
Proof.
  intro H. unfold call_toks. apply nobad_cons. split; [discriminate|]. apply nobad_app. split.
  - induction H as [|l tokss Hl _ IH]; [constructor|]. cbn [flat_map]. apply nobad_app.
    split; [|exact IH]. apply nobad_app. split; [exact Hl|]. constructor; [discriminate | constructor].
  - constructor; [discriminate | constructor].
Qed.

Section Tokens.
  Variable D : list (string * sem_ty).
  Variable NM : list string.

  Definition tk (t : dt) : list tok := dt_toks D NM t [].

  Lemma dt_toks_acc : forall t acc, dt_toks D NM t acc = tk t ++ acc.
  Proof.
    unfold tk.
    induction t as [p|n|n|n i|f args IH|tg|o l r IHl IHr|c l r IHl IHr|o l r IHl IHr|n] using dt_ind';
      intro acc; cbn [dt_toks]; try reflexivity.
    - cbn [app]. f_equal.
      induction IH as [|a args Ha _ IHargs]; [reflexivity|].
      rewrite Ha. rewrite (Ha (KCallSep :: _)). rewrite <- app_assoc. cbn [app]. f_equal. f_equal.
      exact IHargs.
    - rewrite (IHl (KOp o :: dt_toks D NM r acc)), (IHl (KOp o :: dt_toks D NM r [])), (IHr acc).
      rewrite <- app_assoc. reflexivity.
    - rewrite (IHl (KCmp c :: dt_toks D NM r (KClose :: acc))),
        (IHl (KCmp c :: dt_toks D NM r [KClose])), (IHr (KClose :: acc)), (IHr [KClose]).
      app_norm. reflexivity.
    - rewrite (IHl (KLogic o :: dt_toks D NM r (KClose :: acc))),
        (IHl (KLogic o :: dt_toks D NM r [KClose])), (IHr (KClose :: acc)), (IHr [KClose]).
      app_norm. reflexivity.
  Qed.

  Lemma tk_op o l r : tk (DOp o l r) = tk l ++ KOp o :: tk r.
  Proof. unfold tk at 1. cbn [dt_toks]. rewrite dt_toks_acc. f_equal. Qed.

  Lemma tk_cmp c l r : tk (DCmp c l r) = KOpen :: tk l ++ KCmp c :: tk r ++ [KClose].
  Proof. unfold tk at 1. cbn [dt_toks]. rewrite dt_toks_acc, (dt_toks_acc r). reflexivity. Qed.

  Lemma tk_logic o l r : tk (DLogic o l r) = KOpen :: tk l ++ KLogic o :: tk r ++ [KClose].
  Proof. unfold tk at 1. cbn [dt_toks]. rewrite dt_toks_acc, (dt_toks_acc r). reflexivity. Qed.

  Lemma tk_call f args : tk (DCall f args) = call_toks f (map tk args).
  Proof.
    unfold tk at 1, call_toks. cbn [dt_toks]. f_equal.
    induction args as [|a args IH]; [reflexivity|].
    rewrite dt_toks_acc, IH. cbn [map flat_map]. rewrite <- !app_assoc. reflexivity.
  Qed.

  (** ** The comparison, in Leibniz form *)
  Definition site_ok (u : usite) (e : esite) : Prop :=
    match u, e with
    | ULet inner t, ELet x k toks =>
        decl_index inner D 0 = Some k /\ nthN NM k = Some x /\ tk t = toks /\ nobad toks
    | UAssign inner t, EAssign x ko toks =>
        exists k, ko = Some k /\ decl_index inner D 0 = Some k /\ nthN NM k = Some x /\
                  tk t = toks /\ nobad toks
    | URet t, ERet toks | UCondSingle t, ECondSingle toks | UCondLogic t, ECondLogic toks =>
        tk t = toks /\ nobad toks
    | UCall f args, ECall g tokss => f = g /\ map tk args = tokss /\ Forall nobad tokss
    | _, _ => False
    end.

  Lemma prim_ty_eqb_refl p : prim_ty_eqb p p = true.
  Proof. destruct p; reflexivity. Qed.

  Lemma tok_eqb_refl sm t : t <> KBad -> tok_eqb sm t t = true.
  Proof.
    destruct t; cbn; intro H; try reflexivity; try congruence;
      unfold pv_eqb, bop_eqb, cop_eqb, lop_eqb;
      rewrite ?String.eqb_refl, ?N.eqb_refl, ?Z.eqb_refl, ?prim_ty_eqb_refl, ?Bool.orb_true_r;
      reflexivity.
  Qed.

  Lemma toks_eqb_refl sm l : nobad l -> toks_eqb sm l l = true.
  Proof.
    induction 1 as [|t l Ht _ IH]; [reflexivity|]. cbn. rewrite (tok_eqb_refl sm t Ht). exact IH.
  Qed.

  Lemma tokss_eqb_refl sm l : Forall nobad l -> tokss_eqb sm l l = true.
  Proof.
    induction 1 as [|t l Ht _ IH]; [reflexivity|]. cbn. rewrite (toks_eqb_refl sm t Ht). exact IH.
  Qed.

  Lemma site_ok_eqb sm u e : site_ok u e -> site_eqb sm D NM u e = true.
  Proof.
    destruct u as [inner t|inner t|t|t|t|f args], e as [x k toks|x ko toks|toks|toks|toks|g tokss];
      cbn [site_ok site_eqb]; try contradiction; unfold tree_is, tk.
    - intros (Hd & Hn & Ht & Hb). rewrite Hd, Hn, Ht. cbn [opt_str_eqb].
      rewrite String.eqb_refl, N.eqb_refl, Bool.orb_true_r, (toks_eqb_refl sm _ Hb). reflexivity.
    - intros (k0 & -> & Hd & Hn & Ht & Hb). rewrite Hd, Hn, Ht. cbn [opt_str_eqb opt_N_eqb].
      rewrite String.eqb_refl, N.eqb_refl, Bool.orb_true_r, (toks_eqb_refl sm _ Hb). reflexivity.
    - intros (Ht & Hb). rewrite Ht. apply toks_eqb_refl, Hb.
    - intros (Ht & Hb). rewrite Ht. apply toks_eqb_refl, Hb.
    - intros (Ht & Hb). rewrite Ht. apply toks_eqb_refl, Hb.
    - intros (-> & Ht & Hb). rewrite String.eqb_refl. cbn [andb].
      rewrite Ht.
      apply tokss_eqb_refl, Hb.
  Qed.

  Lemma sites_ok_eqb sm us es : Forall2 site_ok us es -> sites_eqb sm D NM us es = true.
  Proof.
    induction 1 as [|u e us es Hu _ IH]; [reflexivity|]. cbn. rewrite (site_ok_eqb sm u e Hu). exact IH.
  Qed.
End Tokens.

(** ** The source side, without accumulators *)
Section Source.
  Variable D : list (string * sem_ty).
  Variable sc : scope.

  Definition vtk (v : expr_val) : list tok := val_toks D sc v [].
  Definition etk (e : expr) : list tok := etoks D sc e.
  Definition links_toks (rest : links) : list tok :=
    flat_map (fun ov => KOp (fst ov) :: vtk (snd ov)) rest.

  (** the nested fixpoints of the tokeniser, as functions of their own *)
  Fixpoint links_go (rest : links) (acc : list tok) : list tok :=
    match rest with
    | [] => acc
    | (o, v') :: l' => KOp o :: val_toks D sc v' (links_go l' acc)
    end.
  Fixpoint args_go (args : list expr) (acc : list tok) : list tok :=
    match args with
    | [] => KCallClose :: acc
    | a :: l' => expr_toks D sc a (KCallSep :: args_go l' acc)
    end.

  Lemma expr_toks_unfold v rest acc :
    expr_toks D sc (Expr v rest) acc = val_toks D sc v (links_go rest acc).
  Proof.
    change (expr_toks D sc (Expr v rest) acc)
      with (val_toks D sc v
              ((fix go (l : list (binop * expr_val)) : list tok :=
                  match l with
                  | [] => acc
                  | (o, v') :: l' => KOp o :: val_toks D sc v' (go l')
                  end) rest)).
    f_equal. induction rest as [|[o v'] rest IH]; [reflexivity|].
    cbn [links_go]. rewrite <- IH. reflexivity.
  Qed.

  Lemma val_toks_call_unfold f args acc :
    val_toks D sc (EVCall f args) acc = KCallOpen (iname f) :: args_go args acc.
  Proof.
    change (val_toks D sc (EVCall f args) acc)
      with (KCallOpen (iname f) ::
            (fix go (l : list expr) : list tok :=
               match l with
               | [] => KCallClose :: acc
               | a :: l' => expr_toks D sc a (KCallSep :: go l')
               end) args).
    f_equal. induction args as [|a args IH]; [reflexivity|].
    cbn [args_go]. rewrite <- IH. reflexivity.
  Qed.

  Lemma val_toks_sub_unfold e acc : val_toks D sc (EVSub e) acc = expr_toks D sc e acc.
  Proof. reflexivity. Qed.

  Lemma toks_acc :
    (forall e acc, expr_toks D sc e acc = etk e ++ acc) /\
    (forall v acc, val_toks D sc v acc = vtk v ++ acc).
  Proof.
    unfold etk, etoks, vtk.
    apply expr_val_ind3.
    - (* chain *)
      intros v rest Hv Hrest acc. rewrite !expr_toks_unfold.
      rewrite (Hv (links_go rest acc)), (Hv (links_go rest [])), <- app_assoc. f_equal.
      induction Hrest as [|[o v'] rest Hv' _ IH]; [reflexivity|]. cbn [snd] in Hv'.
      cbn [links_go app]. f_equal.
      rewrite (Hv' (links_go rest acc)), (Hv' (links_go rest [])), <- app_assoc. f_equal. exact IH.
    - reflexivity.
    - reflexivity.
    - (* call *)
      intros f args Hargs acc. rewrite !val_toks_call_unfold. cbn [app]. f_equal.
      induction Hargs as [|a args Ha _ IH]; [reflexivity|]. cbn [args_go].
      rewrite (Ha (KCallSep :: args_go args acc)), (Ha (KCallSep :: args_go args [])), <- app_assoc.
      f_equal. cbn [app]. f_equal. exact IH.
    - reflexivity.
    - (* brackets *) intros e He acc. rewrite !val_toks_sub_unfold. apply He.
    - reflexivity.
  Qed.

  Lemma etk_flat v rest : etk (Expr v rest) = vtk v ++ links_toks rest.
  Proof.
    unfold etk, etoks. rewrite expr_toks_unfold, (proj2 toks_acc). f_equal.
    induction rest as [|[o v'] rest IH]; [reflexivity|].
    cbn [links_go links_toks flat_map fst snd app]. f_equal. rewrite (proj2 toks_acc). f_equal.
    exact IH.
  Qed.

  Lemma vtk_sub e : vtk (EVSub e) = etk e.
  Proof. reflexivity. Qed.

  Lemma vtk_call f args : vtk (EVCall f args) = call_toks (iname f) (map etk args).
  Proof.
    unfold vtk, call_toks. rewrite val_toks_call_unfold. f_equal.
    induction args as [|a args IH]; [reflexivity|]. cbn [args_go].
    rewrite (proj1 toks_acc), IH. cbn [map flat_map]. rewrite <- !app_assoc. reflexivity.
  Qed.

  Lemma links_toks_app a b : links_toks (a ++ b) = links_toks a ++ links_toks b.
  Proof. unfold links_toks. apply flat_map_app. Qed.

  Lemma embed_toks t : vtk (embed t) = vtk (thead t) ++ links_toks (tlinks t).
  Proof.
    induction t as [v|l IHl o r IHr]; cbn [embed thead tlinks].
    - cbn [links_toks flat_map]. rewrite app_nil_r. reflexivity.
    - rewrite vtk_sub, etk_flat. cbn [links_toks flat_map fst snd]. rewrite app_nil_r, IHl, IHr.
      rewrite links_toks_app. cbn [links_toks flat_map fst snd]. rewrite ?app_nil_r. app_norm.
      reflexivity.
  Qed.

  Lemma etk_fold e : etk (fold_priority e) = etk e.
  Proof.
    destruct e as [v rest]. destruct (Nat.leb 2 (length rest)) eqn:El.
    - apply Nat.leb_le in El. destruct (fold_priority_correct v rest El) as (t & _ & Hi & Hf).
      rewrite Hf. rewrite !etk_flat. cbn [links_toks flat_map]. rewrite app_nil_r.
      rewrite embed_toks. unfold inorder in Hi. inversion Hi; subst. reflexivity.
    - apply Nat.leb_gt in El. rewrite fold_priority_short by exact El. reflexivity.
  Qed.

  Lemma lcond_toks_acc : forall c acc, lcond_toks D sc c acc = lcond_toks D sc c [] ++ acc.
  Proof.
    induction c as [l cmp r | l cmp r op n IH] using lcond_ind'; intro acc; cbn [lcond_toks].
    - rewrite !(proj1 toks_acc). app_norm. reflexivity.
    - rewrite (IH (KClose :: acc)), (IH [KClose]). rewrite !(proj1 toks_acc). app_norm. reflexivity.
  Qed.

  (** calls *)
  Definition links_calls (rest : links) : list (ident * list expr) :=
    flat_map (fun ov => val_calls (snd ov)) rest.
  Definition args_calls (args : list expr) : list (ident * list expr) := flat_map expr_calls args.

  Lemma expr_calls_flat v rest : expr_calls (Expr v rest) = val_calls v ++ links_calls rest.
  Proof.
    cbn [expr_calls]. f_equal.
    all: induction rest as [|[o v'] rest IH]; [reflexivity|];
      cbn [links_calls flat_map snd]; rewrite IH; reflexivity.
  Qed.

  Lemma val_calls_call f args : val_calls (EVCall f args) = args_calls args ++ [(f, args)].
  Proof.
    cbn [val_calls]. f_equal.
    all: induction args as [|a args IH]; [reflexivity|];
      cbn [args_calls flat_map]; rewrite IH; reflexivity.
  Qed.

  Lemma links_calls_app a b : links_calls (a ++ b) = links_calls a ++ links_calls b.
  Proof. unfold links_calls. apply flat_map_app. Qed.

  Lemma embed_calls t : val_calls (embed t) = val_calls (thead t) ++ links_calls (tlinks t).
  Proof.
    induction t as [v|l IHl o r IHr]; cbn [embed thead tlinks].
    - cbn [links_calls flat_map]. rewrite app_nil_r. reflexivity.
    - change (val_calls (EVSub (Expr (embed l) [(o, embed r)])))
        with (expr_calls (Expr (embed l) [(o, embed r)])).
      rewrite expr_calls_flat. cbn [links_calls flat_map snd]. rewrite app_nil_r, IHl, IHr.
      rewrite links_calls_app. cbn [links_calls flat_map snd]. rewrite <- app_assoc. reflexivity.
  Qed.

  Lemma expr_calls_fold e : expr_calls (fold_priority e) = expr_calls e.
  Proof.
    destruct e as [v rest]. destruct (Nat.leb 2 (length rest)) eqn:El.
    - apply Nat.leb_le in El. destruct (fold_priority_correct v rest El) as (t & _ & Hi & Hf).
      rewrite Hf. rewrite !expr_calls_flat. cbn [links_calls flat_map]. rewrite app_nil_r.
      rewrite embed_calls. unfold inorder in Hi. inversion Hi; subst. reflexivity.
    - apply Nat.leb_gt in El. rewrite fold_priority_short by exact El. reflexivity.
  Qed.

  Definition csites (l : list (ident * list expr)) : list esite := map (call_site D sc) l.

  Lemma call_sites_fold e : call_sites D sc (fold_priority e) = call_sites D sc e.
  Proof. unfold call_sites. rewrite expr_calls_fold. reflexivity. Qed.

  Lemma call_sites_flat v rest :
    call_sites D sc (Expr v rest) = csites (val_calls v) ++ csites (links_calls rest).
  Proof. unfold call_sites, csites. rewrite expr_calls_flat. apply map_app. Qed.
End Source.
