(** Family T2: the analyzer model against the independent specification of its rule set.

    [first_error_is_first_violation] (T2a): on every program on which the model terminates
    normally, its first reported error is the first violation of the enforced rule set
    ([Spec/FirstViolation.v], [enforced = true]): same kind, same location, same identifier
    where the specification names one; and it reports nothing iff no rule is violated.  In
    particular the specification is never [Stuck] there: it is stuck exactly where the model
    panics or runs out of (the same) fuel.

    Corollaries: C02 ([well_formed_is_accepted]), C01 up to the known class
    ([accepted_is_well_formed_or_known]), and the three verdict monitors hold of every model
    output.

    Parts: [SimExpr.v] (abstraction, primitives, expressions), [SimStmt.v] (statements, control
    flow, function bodies), [SimDecl.v] (declaration phase). *)
From SA Require Import Model.
From SA.Spec Require Import FirstViolation.
From SA.Mon Require Import Verdict.
From SA.Proofs Require Import VerdictMon RulesBasic SimExpr SimStmt SimDecl Driver.
Local Open Scope list_scope.

(** ** All function bodies, in source order, against the same tables *)
Lemma fn_decls_functions_of p : fn_decls p = functions_of p.
Proof.
  unfold functions_of. induction p as [|t p IH]; cbn [fn_decls flat_map]; [reflexivity|].
  destruct t; cbn [app]; rewrite IH; reflexivity.
Qed.

Lemma bodies_sim G : forall fs,
  Forall (body_ok G) fs ->
  match check_bodies true (tables_of G) fs with
  | Pass _ => concat (map (body_errors G) fs) = []
  | Fail v => lfails v (concat (map (body_errors G) fs))
  | Stuck => False
  end.
Proof.
  induction fs as [|f fs IH]; intro Hok; cbn [check_bodies map concat]; [reflexivity|].
  inversion Hok as [|? ? Hf Hfs]; subst. specialize (IH Hfs).
  unfold body_ok in Hf.
  assert (HB : body_errors G f = match function_body G [] f with Ok _ s => errs s | _ => [] end)
    by reflexivity.
  rewrite HB. clear HB.
  pose proof (function_body_sim G f) as HS.
  destruct (function_body G [] f) as [u s| |]; try contradiction.
  specialize (HS u s eq_refl).
  destruct (check_fn_body true (tables_of G) f) as [[]|v|]; cbn [andthen]; [| | contradiction].
  - rewrite HS. cbn [app]. exact IH.
  - apply lfails_app. exact HS.
Qed.

(** ** The whole program *)
Lemma run_sim p out :
  run p = ROk out ->
  match check_program true p with
  | Pass _ => o_errors out = []
  | Fail v => lfails v (o_errors out)
  | Stuck => False
  end.
Proof.
  intro Hrun.
  destruct (run_errors_decomposition p out Hrun) as [Herrs _].
  assert (Hok : Forall (body_ok (gs_globals (declarations p))) (functions_of p)).
  { apply run_ok_iff. exists out. exact Hrun. }
  rewrite Herrs. unfold check_program. pose proof (declarations_sim p) as HD.
  destruct (check_structs [] p) as [types|v|]; cbn [andthen]; [| | contradiction].
  2:{ apply lfails_app. exact HD. }
  destruct (check_decls true (Tables types [] []) p) as [T|v|]; cbn [andthen];
    [| | contradiction].
  2:{ apply lfails_app. exact HD. }
  destruct HD as (Her & <-). rewrite Her. cbn [app]. rewrite fn_decls_functions_of.
  apply bodies_sim. exact Hok.
Qed.

(** the specification is never stuck where the model terminates normally *)
Theorem check_program_not_stuck p out : run p = ROk out -> check_program true p <> Stuck.
Proof.
  intros Hrun Hst. pose proof (run_sim p out Hrun) as H. rewrite Hst in H. exact H.
Qed.

(** T2a *)
Theorem first_error_is_first_violation : forall p out,
  run p = ROk out ->
  first_error_matches (first_violation true p) (hd_error (o_errors out)).
Proof.
  intros p out Hrun. pose proof (run_sim p out Hrun) as H. unfold first_violation.
  destruct (check_program true p) as [[]|v|]; [| | contradiction].
  - rewrite H. exact I.
  - destruct H as (e & rest & -> & Hv). exact Hv.
Qed.

(** the same under the explicit side condition (subsumed by the theorem above) *)
Corollary first_error_is_first_violation_unless_stuck : forall p out,
  run p = ROk out -> check_program true p <> Stuck ->
  first_error_matches (first_violation true p) (hd_error (o_errors out)).
Proof. intros p out Hrun _. apply first_error_is_first_violation, Hrun. Qed.

(** "no error iff no violation of the enforced rules" *)
Corollary accepted_iff_no_violation p out :
  run p = ROk out -> (o_errors out = [] <-> first_violation true p = None).
Proof.
  intro Hrun. pose proof (first_error_is_first_violation p out Hrun) as H.
  unfold first_error_matches in H.
  destruct (first_violation true p) as [v|]; destruct (o_errors out) as [|e l]; cbn in H;
    split; intro H'; try reflexivity; try discriminate H'; contradiction.
Qed.

(** ** C02 *)
Theorem well_formed_is_accepted : forall p out,
  run p = ROk out -> wf_b p = true -> o_errors out = [].
Proof.
  intros p out Hrun Hwf. apply (accepted_iff_no_violation p out Hrun).
  apply wf_implies_accepted_spec in Hwf. unfold accepted_spec_b in Hwf.
  destruct (first_violation true p); [discriminate Hwf | reflexivity].
Qed.

(** ** C01, up to the known findings F2 and F8 *)
Theorem accepted_is_accepted_spec : forall p out,
  run p = ROk out -> o_errors out = [] -> accepted_spec_b p = true.
Proof.
  intros p out Hrun He. apply (accepted_iff_no_violation p out Hrun) in He.
  unfold accepted_spec_b. rewrite He. reflexivity.
Qed.

Theorem accepted_is_well_formed_or_known : forall p out,
  run p = ROk out -> o_errors out = [] -> wf_b p = true \/ in_K_F2_or_F8 p = true.
Proof.
  intros p out Hrun He. pose proof (accepted_is_accepted_spec p out Hrun He) as Ha.
  unfold in_K_F2_or_F8. rewrite Ha. destruct (wf_b p); [left | right]; reflexivity.
Qed.

(** ** The verdict monitors hold of every model output *)
Theorem chk_C14_on_model : forall p out, run p = ROk out -> chk_C14 p out = true.
Proof. intros p out Hrun. apply chk_C14_spec, first_error_is_first_violation, Hrun. Qed.

Theorem chk_C02_on_model : forall p out, run p = ROk out -> chk_C02 p out = true.
Proof. intros p out Hrun. apply chk_C02_spec, well_formed_is_accepted, Hrun. Qed.

Theorem chk_C01_quirk_on_model : forall p out, run p = ROk out -> chk_C01_quirk p out = true.
Proof. intros p out Hrun. apply chk_C01_quirk_spec, accepted_is_accepted_spec, Hrun. Qed.

(** where the intended C01 monitor fails on a model output, the program is in the known class *)
Corollary chk_C01_fails_only_in_K : forall p out,
  run p = ROk out -> chk_C01 p out = false -> in_K_F2_or_F8 p = true.
Proof.
  intros p out Hrun H. apply (chk_C01_gap p out); [apply chk_C01_quirk_on_model, Hrun | exact H].
Qed.

Print Assumptions first_error_is_first_violation.
Print Assumptions check_program_not_stuck.
Print Assumptions well_formed_is_accepted.
Print Assumptions accepted_is_well_formed_or_known.
Print Assumptions chk_C14_on_model.
Print Assumptions chk_C02_on_model.
Print Assumptions chk_C01_quirk_on_model.
Print Assumptions chk_C01_fails_only_in_K.
