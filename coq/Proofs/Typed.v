(** C04: the instruction stack the analyzer emits for an accepted, well-formed program is well
    typed -- it passes the monitor of [Mon/C04.v].

    Organisation:
    - [Proofs/TypedMon.v]: the monitor as a fold ([step_i], [run_from]), operands ([op_ok]),
      what checking operands does to the register table ([mods]);
    - [Proofs/TypedDefs.v], [Proofs/TypedWf.v]: exact arities from [wf_b]; the global tables
      are keyed by the names of their entries;
    - here: the view [Mst s] of a model state (the monitor's state after the root stack of
      [s]), the invariant [Good s], a Hoare logic [HT s m Q] for runs that add no error,
      the expression level (postcondition: the returned operand passes [chk_operand] and
      nothing at or below the counter the evaluation started from was touched), statements,
      conditions, control flow, parameters, [function_body_m], [bodies], [run]. *)
From Coq Require Import Lia.
From SA Require Import Model.
From SA.Spec Require Import Stack Tables FirstViolation.
From SA.Proofs Require Import Reach Trace InvReg InvNames DefUse TypedDefs TypedMon TypedWf.
From SA.Proofs Require SimExpr.
From SA.Mon Require Import C04.
Local Open Scope list_scope.

(** ** Structure: what every step preserves *)
Lemma step_ne s s' : step s s' -> frames s <> [] -> frames s' <> [].
Proof.
  intros H Hne. destruct H as
    [mk s r s' Hd H | s r s' H | i s s' Hd H | n s s' H | n s s' H | s s' H | x v s s' H
    | e s s' H | s s' H | s k s' H | k i s s' Hd H].
  - apply alloc_emit_eq in H as [-> _]. unfold st_alloc, st_emit, st_inc. cbn [frames].
    apply map_ne, map_ne, Hne.
  - apply bump_eq in H as [-> _]. apply map_ne, Hne.
  - apply emit_eq in H as ->. apply map_ne, Hne.
  - apply set_inner_name_eq in H as ->. apply map_ne, Hne.
  - apply set_label_name_eq in H as ->. apply map_ne, Hne.
  - apply set_return_eq in H as ->. apply map_ne, Hne.
  - apply insert_value_eq in H as ->. unfold st_value. cbn [frames].
    destruct (frames s); [congruence | discriminate].
  - apply add_error_eq in H as ->. exact Hne.
  - apply push_child_eq in H as ->. discriminate.
  - apply pop_child_eq in H as (c & p & r & _ & -> & _). discriminate.
  - apply emit_kid_eq in H as ->. unfold st_emit, st_kid. cbn [frames]. apply map_ne.
    destruct (frames s); [congruence | discriminate].
Qed.

Definition Struct (s : bst) : Prop := frames s <> [] /\ Inv_reg s.

Lemma reach_Struct s s' : reach s s' -> Struct s -> Struct s'.
Proof.
  induction 1 as [s | s1 s2 s3 _ IH Hs]; intro H; [exact H|].
  destruct (IH H) as [H1 H2]. split; [eapply step_ne | eapply step_Inv_reg]; eassumption.
Qed.

Lemma errs_sandwich s s1 s' :
  reach s s1 -> reach s1 s' -> errs s' = errs s -> errs s1 = errs s /\ errs s' = errs s1.
Proof.
  intros H1 H2 He. apply SimExpr.reach_errs in H1 as [e1 E1]. apply SimExpr.reach_errs in H2 as [e2 E2].
  rewrite E2, E1, <- app_assoc in He. apply app_eq_self_nil, app_eq_nil in He as [-> ->].
  rewrite app_nil_r in *. split; assumption.
Qed.

(** ** Value tables: every live value is registered in its frame and declared to the monitor *)
Definition VInv (fs : list block) (vs : valmap) : Prop :=
  forall f x v, In f fs -> alookup x (b_values f) = Some v ->
    smem (v_inner v) (b_inner f) = true /\ declared vs v = true.

Lemma VInv_map g fs vs :
  (forall b, b_values (g b) = b_values b) ->
  (forall b n, smem n (b_inner b) = true -> smem n (b_inner (g b)) = true) ->
  VInv fs vs -> VInv (map g fs) vs.
Proof.
  intros Hv Hi H f x v Hf Hl. apply in_map_iff in Hf as (f0 & <- & Hf0). rewrite Hv in Hl.
  destruct (H f0 x v Hf0 Hl) as [H1 H2]. split; [apply Hi, H1 | exact H2].
Qed.

Lemma VInv_lookup fs vs x v : VInv fs vs -> lookup_frames x fs = Some v -> declared vs v = true.
Proof.
  intros H Hl. apply lookup_frames_in in Hl as (f & Hf & Hl). exact (proj2 (H f x v Hf Hl)).
Qed.

Lemma VInv_fresh fs vs n f x v :
  VInv fs vs -> inner_exists n fs = false -> In f fs -> alookup x (b_values f) = Some v ->
  v_inner v <> n.
Proof.
  intros H Hn Hf Hl E. destruct (H f x v Hf Hl) as [H1 _]. unfold inner_exists in Hn.
  assert (Hex : existsb (fun b => smem n (b_inner b)) fs = true).
  { apply existsb_exists. exists f. split; [exact Hf | rewrite <- E; exact H1]. }
  congruence.
Qed.

Section Fn.
  Variable X : bool.                            (* exact arities? *)
  Variable G : globals.
  Hypothesis HG : GWf G.
  Variable RT : sem_ty.
  Variable ps0 : list (ident * ast_ty).         (* the source parameters of the function *)

  (** ** The view *)
  Definition Mst (s : bst) : option mstate := run_from X G RT (Ctx s) ([], [], ps0).
  Definition Rm (s : bst) : regmap := match Mst s with Some (m, _, _) => m | None => [] end.
  Definition Vs (s : bst) : valmap := match Mst s with Some (_, vs, _) => vs | None => [] end.
  Definition Hd (s : bst) : N := head_reg (frames s).

  Record Good (s : bst) : Prop := {
    g_ne : frames s <> [];
    g_reg : Inv_reg s;
    g_mst : Mst s = Some (Rm s, Vs s, []);
    g_keys : keys_le (Rm s) (Hd s);
    g_vals : VInv (frames s) (Vs s) }.

  Lemma Mst_same s s' : Ctx s' = Ctx s -> Mst s' = Mst s.
  Proof. unfold Mst. intros ->. reflexivity. Qed.
  Lemma Rm_same s s' : Ctx s' = Ctx s -> Rm s' = Rm s.
  Proof. intro H. unfold Rm. rewrite (Mst_same _ _ H). reflexivity. Qed.
  Lemma Vs_same s s' : Ctx s' = Ctx s -> Vs s' = Vs s.
  Proof. intro H. unfold Vs. rewrite (Mst_same _ _ H). reflexivity. Qed.

  Lemma Mst_push s s' i m' vs' :
    Mst s = Some (Rm s, Vs s, []) -> Ctx s' = Ctx s ++ [i] ->
    step_i X G RT i (Rm s, Vs s, []) = Some (m', vs', []) ->
    Mst s' = Some (m', vs', []) /\ Rm s' = m' /\ Vs s' = vs'.
  Proof.
    intros Hg HC Hs.
    assert (HM : Mst s' = Some (m', vs', [])).
    { unfold Mst. rewrite HC, run_from_snoc. fold (Mst s). rewrite Hg. exact Hs. }
    unfold Rm, Vs. rewrite HM. repeat split.
  Qed.

  (** ** Frames: the evaluation of an expression started at [s] touches nothing at or below
      the counter of [s] *)
  Definition Frame (s s' : bst) : Prop :=
    Hd s <= Hd s' /\ forall k, k <= Hd s -> reg_find k (Rm s') = reg_find k (Rm s).

  Lemma Frame_refl s : Frame s s.
  Proof. split; [lia | reflexivity]. Qed.
  Lemma Frame_trans s s1 s2 : Frame s s1 -> Frame s1 s2 -> Frame s s2.
  Proof.
    intros [H1 F1] [H2 F2]. split; [lia|]. intros k Hk. rewrite F2 by lia. apply F1, Hk.
  Qed.

  Definition OpOk (s : bst) (er : eres) : Prop := op_ok (Rm s) (Hd s) er.
  Definition fresh_res (h : N) (er : eres) : Prop := forall n, In n (eres_reg er) -> h < n.

  Lemma OpOk_Frame s s' er : OpOk s er -> Frame s s' -> OpOk s' er.
  Proof. intros H [H1 H2]. eapply op_ok_frame; eassumption. Qed.
  Lemma Forall_OpOk_Frame s s' l : Forall (OpOk s) l -> Frame s s' -> Forall (OpOk s') l.
  Proof. intros H F. eapply Forall_impl; [|exact H]. intros er Her. eapply OpOk_Frame; eassumption. Qed.
  Lemma fresh_res_mono h h' er : h' <= h -> fresh_res h er -> fresh_res h' er.
  Proof. intros Hle H n Hn. specialize (H n Hn). lia. Qed.
  Lemma OpOk_le s er n : OpOk s er -> In n (eres_reg er) -> n <= Hd s.
  Proof.
    unfold OpOk, op_ok, eres_reg. destruct (r_val er) as [k|p]; [|intros _ []].
    intros [H _] [<-|[]]. exact H.
  Qed.

  (** ** Neutral computations: the root stack is not touched *)
  Definition Neut (s s' : bst) : Prop :=
    frames s <> [] -> Inv_reg s ->
    frames s' <> [] /\ Inv_reg s' /\ Ctx s' = Ctx s /\ Hd s <= Hd s' /\
    forall vs, VInv (frames s) vs -> VInv (frames s') vs.

  Lemma Neut_refl s : Neut s s.
  Proof.
    intros Hne Hr. split; [exact Hne|]. split; [exact Hr|]. split; [reflexivity|].
    split; [lia | trivial].
  Qed.
  Lemma Neut_trans s s1 s2 : Neut s s1 -> Neut s1 s2 -> Neut s s2.
  Proof.
    intros H1 H2 Hne Hr. destruct (H1 Hne Hr) as (N1 & R1 & C1 & L1 & V1).
    destruct (H2 N1 R1) as (N2 & R2 & C2 & L2 & V2).
    split; [exact N2|]. split; [exact R2|]. split; [congruence|]. split; [lia | auto].
  Qed.

  Lemma Neut_Good s s' : Neut s s' -> Good s -> Good s' /\ Frame s s' /\ Rm s' = Rm s /\ Vs s' = Vs s.
  Proof.
    intros H [Hne Hr Hm Hk Hv]. destruct (H Hne Hr) as (N1 & R1 & C1 & L1 & V1).
    pose proof (Rm_same _ _ C1) as ER. pose proof (Vs_same _ _ C1) as EV.
    split; [|split; [|split; assumption]].
    - constructor; try assumption.
      + rewrite (Mst_same _ _ C1), ER, EV. exact Hm.
      + rewrite ER. eapply keys_le_mono; eassumption.
      + rewrite EV. apply V1, Hv.
    - split; [exact L1|]. intros k _. rewrite ER. reflexivity.
  Qed.

  Definition NeutM {A} (m : M A) : Prop := forall s a s', m s = Ok a s' -> Neut s s'.

  Lemma NeutM_ret {A} (a : A) : NeutM (ret a).
  Proof. intros s b s' H. inversion H; subst. apply Neut_refl. Qed.
  Lemma NeutM_gets {A} (f : list block -> A) : NeutM (gets f).
  Proof. intros s b s' H. inversion H; subst. apply Neut_refl. Qed.
  Lemma NeutM_panic {A} k : NeutM (@panic A k).
  Proof. intros s b s' H. discriminate. Qed.
  Lemma NeutM_oof {A} : NeutM (@out_of_fuel A).
  Proof. intros s b s' H. discriminate. Qed.
  Lemma NeutM_bind {A B} (m : M A) (f : A -> M B) :
    NeutM m -> (forall a, NeutM (f a)) -> NeutM (bind m f).
  Proof.
    intros Hm Hf s b s' H. apply bind_ok in H as (a & s1 & E & H).
    eapply Neut_trans; [eapply Hm, E | eapply Hf, H].
  Qed.
  Lemma NeutM_when b m : NeutM m -> NeutM (when b m).
  Proof. intro H. destruct b; [exact H | apply NeutM_ret]. Qed.

  (** frames mapped by a function that keeps stacks, value tables and inner names *)
  Lemma Neut_map g s (st : step s (BSt (map g (frames s)) (errs s))) :
    (forall b, b_ctx (g b) = b_ctx b) -> (forall b, b_values (g b) = b_values b) ->
    (forall b, b_inner (g b) = b_inner b) -> (forall b, b_reg b <= b_reg (g b)) ->
    Neut s (BSt (map g (frames s)) (errs s)).
  Proof.
    intros Hc Hv Hi Hr Hne Hreg. split; [apply map_ne, Hne|].
    split; [eapply step_Inv_reg; eassumption|]. split; [apply Ctx_map0; assumption|].
    split.
    - unfold Hd. cbn [frames]. destruct (frames s) as [|b fs]; cbn; [lia | apply Hr].
    - intros vs H. cbn [frames]. apply VInv_map; [exact Hv | | exact H].
      intros b n. rewrite Hi. trivial.
  Qed.

  Lemma NeutM_bump : NeutM bump.
  Proof.
    intros s r s' H. pose proof (s_bump _ _ _ H) as Hst. apply bump_eq in H as [-> _].
    unfold st_inc in *. intros Hne Hreg.
    split; [apply map_ne, Hne|]. split; [eapply step_Inv_reg; eassumption|].
    split; [apply Ctx_map0; [exact Hne | reflexivity]|]. split.
    - unfold Hd. cbn [frames]. rewrite head_reg_set by exact Hne. lia.
    - intros vs Hv. cbn [frames]. apply VInv_map; [reflexivity | trivial | exact Hv].
  Qed.
  Lemma NeutM_set_label n : NeutM (set_label_name n).
  Proof.
    intros s [] s' H. pose proof (s_label _ _ _ H) as Hst. apply set_label_name_eq in H as ->.
    unfold st_label in *. apply (Neut_map _ _ Hst); try reflexivity; intro; cbn; lia.
  Qed.
  Lemma NeutM_set_return : NeutM set_return.
  Proof.
    intros s [] s' H. pose proof (s_return _ _ H) as Hst. apply set_return_eq in H as ->.
    unfold st_return in *. apply (Neut_map _ _ Hst); try reflexivity; intro; cbn; lia.
  Qed.
  Lemma NeutM_add_error e : NeutM (add_error e).
  Proof.
    intros s [] s' H. apply add_error_eq in H as ->. unfold st_error. intros Hne Hreg.
    split; [exact Hne|]. split; [exact Hreg|]. split; [reflexivity|]. split; [unfold Hd; cbn; lia | trivial].
  Qed.
  Lemma NeutM_push_child : NeutM push_child.
  Proof.
    intros s [] s' H. pose proof (s_push _ _ H) as Hst. apply push_child_eq in H as ->.
    unfold st_push in *. intros Hne Hreg. split; [discriminate|].
    split; [eapply step_Inv_reg; eassumption|].
    split; [unfold Ctx; cbn [frames]; rewrite (root_of_cons _ _ Hne); reflexivity|]. split.
    - unfold Hd. cbn [frames head_reg]. destruct (frames s); [congruence | cbn; lia].
    - intros vs Hv f x v [<-|Hf] Hl; [|eapply Hv; eassumption].
      destruct (frames s); cbn in Hl; discriminate.
  Qed.
  Lemma NeutM_pop_child : NeutM pop_child.
  Proof.
    intros s k s' H. pose proof (s_pop _ _ _ H) as Hst.
    apply pop_child_eq in H as (c & p & r & Hf & -> & _). intros Hne Hreg.
    split; [discriminate|]. split; [eapply step_Inv_reg; eassumption|]. split; [|split].
    - unfold Ctx at 2. rewrite Hf. rewrite (root_of_cons c (p :: r)) by discriminate.
      apply (Ctx_head p (add_kid c p) r (errs s) (errs s)). reflexivity.
    - unfold Hd. cbn [frames head_reg].
      rewrite <- (Inv_reg_head s p Hreg) by (rewrite Hf; right; left; reflexivity).
      change (b_reg (add_kid c p)) with (b_reg p). lia.
    - intros vs Hv f x v Hin Hl. rewrite Hf in Hv. cbn [frames] in Hin. destruct Hin as [<-|Hin].
      + apply (Hv p x v); [right; left; reflexivity | exact Hl].
      + apply (Hv f x v); [right; right; exact Hin | exact Hl].
  Qed.
  Lemma NeutM_next_inner_name fuel n : NeutM (next_inner_name fuel n).
  Proof. intros s a s' H. apply next_inner_name_pure in H as ->. apply Neut_refl. Qed.
  Lemma NeutM_label_probe fuel : forall n, NeutM (label_probe fuel n).
  Proof.
    induction fuel as [|f IH]; intros n s a s' H; cbn [label_probe] in H; [discriminate|].
    destruct (set_attr_counter n) as [n'|]; [|discriminate].
    destruct (label_exists n' (frames s)); [eapply IH; exact H|].
    revert H. apply (NeutM_bind (set_label_name n') (fun _ => ret n')).
    - apply NeutM_set_label.
    - intros _. apply NeutM_ret.
  Qed.

  Ltac neut_go :=
    repeat first
      [ apply NeutM_ret | apply NeutM_gets | apply NeutM_panic | apply NeutM_oof
      | apply NeutM_bump | apply NeutM_set_label | apply NeutM_set_return | apply NeutM_add_error
      | apply NeutM_push_child | apply NeutM_pop_child | apply NeutM_next_inner_name
      | apply NeutM_label_probe
      | match goal with H : _ |- NeutM _ => solve [apply H] end
      | apply NeutM_when
      | apply NeutM_bind; [| intro]
      | match goal with |- NeutM (match ?x with _ => _ end) => destruct x end
      | match goal with |- NeutM (if ?b then _ else _) => destruct b end
      | progress cbv zeta ].

  Lemma NeutM_gen_label base : NeutM (gen_label base).
  Proof. unfold gen_label. neut_go. Qed.
  Lemma NeutM_check_type_exists t v l : NeutM (check_type_exists G t v l).
  Proof. unfold check_type_exists. neut_go. Qed.
  Lemma NeutM_code_after_errors k fl : NeutM (code_after_errors k fl).
  Proof. unfold code_after_errors. neut_go. Qed.

  (** a push through a finished child, before the push proper *)
  Lemma Neut_kid k i s : Neut s (st_kid k i s).
  Proof.
    intros Hne Hreg. destruct s as [fs e]. cbn [frames] in Hne. destruct fs as [|p r]; [congruence|].
    unfold st_kid. cbn [frames errs]. split; [discriminate|]. split; [|split; [|split]].
    - unfold Inv_reg in *. cbn [frames head_reg] in *. inversion Hreg as [|? ? Hp Hrest]; subst.
      constructor; [exact Hp | exact Hrest].
    - apply Ctx_head. reflexivity.
    - unfold Hd. cbn. lia.
    - intros vs Hv f x v [<-|Hin] Hl.
      + apply (Hv p x v); [left; reflexivity | exact Hl].
      + apply (Hv f x v); [right; exact Hin | exact Hl].
  Qed.

  (** ** The Hoare logic for runs that add no error *)
  Definition HT {A} (s : bst) (m : M A) (Q : A -> bst -> Prop) : Prop :=
    Good s -> forall a s', m s = Ok a s' -> errs s' = errs s -> Good s' /\ Q a s'.

  Lemma Good_Struct s : Good s -> Struct s.
  Proof. intros [H1 H2 _ _ _]. split; assumption. Qed.

  Lemma HT_ret {A} s (a : A) (Q : A -> bst -> Prop) : (Good s -> Q a s) -> HT s (ret a) Q.
  Proof. intros HQ Hg b s' H _. inversion H; subst. split; [exact Hg | apply HQ, Hg]. Qed.
  Lemma HT_panic {A} s k Q : HT s (@panic A k) Q.
  Proof. intros _ a s' H. discriminate. Qed.
  Lemma HT_oof {A} s Q : HT s (@out_of_fuel A) Q.
  Proof. intros _ a s' H. discriminate. Qed.

  Lemma HT_bind {A B} s (m : M A) (f : A -> M B) (Q1 : A -> bst -> Prop) Q :
    R m -> (forall a, R (f a)) -> HT s m Q1 ->
    (forall a s1, Good s1 -> Q1 a s1 -> HT s1 (f a) Q) -> HT s (bind m f) Q.
  Proof.
    intros Rm' Rf Hm Hf Hg b s' H He. apply bind_ok in H as (a & s1 & E & H).
    destruct (errs_sandwich s s1 s' (Rm' _ _ _ E) (Rf a _ _ _ H) He) as [E1 E2].
    destruct (Hm Hg a s1 E E1) as [Hg1 HQ1]. exact (Hf a s1 Hg1 HQ1 Hg1 b s' H E2).
  Qed.

  Lemma HT_conseq {A} s (m : M A) (Q Q' : A -> bst -> Prop) :
    HT s m Q -> (forall a s', Good s' -> Q a s' -> Q' a s') -> HT s m Q'.
  Proof. intros Hm HQ Hg a s' H He. destruct (Hm Hg a s' H He) as [Hg' H1]. split; auto. Qed.

  Lemma HT_gets_bind {A B} s (g : list block -> A) (f : A -> M B) Q :
    HT s (f (g (frames s))) Q -> HT s (bind (gets g) f) Q.
  Proof. intros H Hg x s' Hb. unfold bind, gets in Hb. exact (H Hg x s' Hb). Qed.
  Lemma HT_lookup_bind {B} s x (f : option value -> M B) Q :
    HT s (f (lookup_frames x (frames s))) Q -> HT s (bind (lookup_value x) f) Q.
  Proof. apply HT_gets_bind. Qed.
  Lemma HT_get_reg_bind {B} s (f : N -> M B) Q : HT s (f (Hd s)) Q -> HT s (bind get_reg f) Q.
  Proof. apply HT_gets_bind. Qed.
  Lemma HT_get_reg s (Q : N -> bst -> Prop) : (Good s -> Q (Hd s) s) -> HT s get_reg Q.
  Proof. intros HQ Hg a s' H _. inversion H; subst. split; [exact Hg | apply HQ, Hg]. Qed.

  (** error paths are not runs without errors *)
  Lemma HT_add_error s e Q : HT s (add_error e) Q.
  Proof.
    intros _ a s' H He. apply add_error_eq in H as ->. cbn [errs st_error] in He.
    apply app_eq_self_nil in He. discriminate.
  Qed.
  Lemma HT_err_bind {B} s e (k : unit -> M B) Q : (forall u, R (k u)) -> HT s (bind (add_error e) k) Q.
  Proof.
    intros Rk _ b s' H He. apply bind_ok in H as (u & s1 & E & H). apply add_error_eq in E as ->.
    apply Rk, SimExpr.reach_errs in H as [more Hm]. cbn [errs st_error] in Hm.
    rewrite Hm, <- app_assoc in He. apply app_eq_self_nil in He. discriminate.
  Qed.
  Lemma HT_when_err_bind {B} s c e (k : unit -> M B) Q :
    (forall u, R (k u)) -> (c = false -> HT s (k tt) Q) -> HT s (bind (when c (add_error e)) k) Q.
  Proof.
    intros Rk Hk. destruct c; [apply HT_err_bind, Rk|]. cbn [when].
    intros Hg b s' H He. unfold bind, ret in H. exact (Hk eq_refl Hg b s' H He).
  Qed.

  Definition NeutP (s s' : bst) : Prop := Frame s s' /\ Rm s' = Rm s /\ Vs s' = Vs s.

  Lemma HT_neut {A} s (m : M A) : NeutM m -> HT s m (fun _ s' => NeutP s s').
  Proof.
    intros Hn Hg a s' H _. pose proof (Hn _ _ _ H) as HN.
    destruct (Neut_Good _ _ HN Hg) as (Hg1 & HF). split; [exact Hg1 | exact HF].
  Qed.

  (** a neutral computation *)
  Lemma HT_neut_bind {A B} s (m : M A) (f : A -> M B) Q :
    R m -> (forall a, R (f a)) -> NeutM m ->
    (forall a s1, Good s1 -> NeutP s s1 -> HT s1 (f a) Q) -> HT s (bind m f) Q.
  Proof. intros Rm' Rf Hn Hf. eapply HT_bind; [exact Rm' | exact Rf | apply HT_neut, Hn | exact Hf]. Qed.

  Lemma HT_good {A} s (m : M A) Q : (Good s -> HT s m Q) -> HT s m Q.
  Proof. intros H Hg. exact (H Hg Hg). Qed.

  (** ** Pushes *)
  (** what a push needs of the state it starts from *)
  Definition Pre (s : bst) : Prop :=
    frames s <> [] /\ Inv_reg s /\ Mst s = Some (Rm s, Vs s, []).
  Lemma Good_Pre s : Good s -> Pre s.
  Proof. intros [H1 H2 H3 _ _]. repeat split; assumption. Qed.

  Lemma emit_Good s i m' vs' :
    Pre s -> def_reg i = None ->
    step_i X G RT i (Rm s, Vs s, []) = Some (m', vs', []) ->
    keys_le m' (Hd s) -> VInv (frames s) vs' ->
    Good (st_emit i s) /\ Rm (st_emit i s) = m' /\ Vs (st_emit i s) = vs' /\
    Hd (st_emit i s) = Hd s.
  Proof.
    intros (Hne & Hreg & Hm) Hd' Hs Hk Hv.
    destruct (st_emit_view i s Hne) as (N1 & C1 & _ & H1).
    destruct (Mst_push s (st_emit i s) i m' vs' Hm C1 Hs) as (HM & ER & EV).
    assert (Hst : step s (st_emit i s)) by (apply (s_emit i s _ Hd'); reflexivity).
    split; [|repeat split; assumption]. constructor.
    - exact N1.
    - eapply step_Inv_reg; [exact Hst | exact Hreg].
    - rewrite HM, ER, EV. reflexivity.
    - rewrite ER. unfold Hd. rewrite H1. exact Hk.
    - rewrite EV. unfold st_emit. cbn [frames]. apply VInv_map; [reflexivity | trivial | exact Hv].
  Qed.

  Lemma alloc_Good s mk m' vs' :
    Good s -> (forall n, def_reg (mk n) = Some n) ->
    step_i X G RT (mk (Hd s + 1)) (Rm s, Vs s, []) = Some (m', vs', []) ->
    keys_le m' (Hd s + 1) -> VInv (frames s) vs' ->
    head_reg (frames (st_inc s)) = Hd s + 1 /\
    Good (st_alloc mk s) /\ Rm (st_alloc mk s) = m' /\ Vs (st_alloc mk s) = vs' /\
    Hd (st_alloc mk s) = Hd s + 1.
  Proof.
    intros Hg Hd' Hs Hk Hv. pose proof (g_ne s Hg) as Hne.
    destruct (st_inc_view s Hne) as (N1 & C1 & _ & H1).
    destruct (st_emit_view (mk (head_reg (frames (st_inc s)))) (st_inc s) N1) as (N2 & C2 & _ & H2).
    fold (st_alloc mk s) in N2, C2, H2. rewrite H1 in C2, H2. rewrite C1 in C2. fold (Hd s) in *.
    split; [exact H1|].
    destruct (Mst_push s (st_alloc mk s) _ m' vs' (g_mst s Hg) C2 Hs) as (HM & ER & EV).
    assert (Hst : step s (st_alloc mk s)) by (apply (s_alloc mk s (head_reg (frames (st_inc s))) _ Hd'); reflexivity).
    split; [|repeat split; assumption]. constructor.
    - exact N2.
    - eapply step_Inv_reg; [exact Hst | apply (g_reg s Hg)].
    - rewrite HM, ER, EV. reflexivity.
    - rewrite ER. unfold Hd at 1. rewrite H2. exact Hk.
    - rewrite EV. unfold st_alloc, st_emit, st_inc. cbn [frames].
      apply VInv_map; [reflexivity | trivial|]. apply VInv_map; [reflexivity | trivial | exact Hv].
  Qed.

  Lemma HT_alloc s mk m' vs' :
    (forall n, def_reg (mk n) = Some n) ->
    (Good s ->
     step_i X G RT (mk (Hd s + 1)) (Rm s, Vs s, []) = Some (m', vs', []) /\
     keys_le m' (Hd s + 1) /\ VInv (frames s) vs') ->
    HT s (alloc_emit mk)
       (fun r s' => r = Hd s + 1 /\ Rm s' = m' /\ Vs s' = vs' /\ Hd s' = Hd s + 1).
  Proof.
    intros Hd' Hp Hg r s' H _. destruct (Hp Hg) as (Hs & Hk & Hv).
    apply alloc_emit_eq in H as [-> ->].
    destruct (alloc_Good s mk m' vs' Hg Hd' Hs Hk Hv) as (H1 & Hg' & ER & EV & EH).
    rewrite H1. split; [exact Hg' | repeat split; assumption].
  Qed.

  Lemma HT_emit s i m' vs' :
    def_reg i = None ->
    (Good s ->
     step_i X G RT i (Rm s, Vs s, []) = Some (m', vs', []) /\
     keys_le m' (Hd s) /\ VInv (frames s) vs') ->
    HT s (emit i) (fun _ s' => Rm s' = m' /\ Vs s' = vs' /\ Hd s' = Hd s).
  Proof.
    intros Hd' Hp Hg [] s' H _. destruct (Hp Hg) as (Hs & Hk & Hv). apply emit_eq in H as ->.
    destruct (emit_Good s i m' vs' (Good_Pre s Hg) Hd' Hs Hk Hv) as (Hg' & ER & EV & EH).
    split; [exact Hg' | repeat split; assumption].
  Qed.

  (** instructions that carry no type *)
  Definition typeless (i : instr) : Prop :=
    match i with ISetLabel _ | IJumpTo _ => True | _ => False end.

  Lemma typeless_step i st : typeless i -> step_i X G RT i st = Some st /\ def_reg i = None.
  Proof. destruct st as [[m vs] ps]. destruct i; cbn; intros []; split; reflexivity. Qed.

  Lemma HT_emit_typeless s i :
    typeless i -> HT s (emit i) (fun _ s' => Rm s' = Rm s /\ Vs s' = Vs s /\ Hd s' = Hd s).
  Proof.
    intros Ht. destruct (typeless_step i (Rm s, Vs s, []) Ht) as [Hs Hd'].
    apply HT_emit; [exact Hd'|]. intro Hg.
    split; [exact Hs|]. split; [apply (g_keys s Hg) | apply (g_vals s Hg)].
  Qed.

  Lemma HT_emit_kid_typeless s k i : typeless i -> HT s (emit_kid k i) (fun _ _ => True).
  Proof.
    intros Ht Hg [] s' H He. apply emit_kid_eq in H as ->.
    destruct (Neut_Good _ _ (Neut_kid k i s) Hg) as (Hg1 & _).
    assert (E : emit i (st_kid k i s) = Ok tt (st_emit i (st_kid k i s))) by reflexivity.
    destruct (HT_emit_typeless (st_kid k i s) i Ht Hg1 tt _ E) as [Hg2 _]; [exact He|].
    split; [exact Hg2 | exact I].
  Qed.

  (** ** Small facts about operand registers *)
  Lemma NoDup_eres_reg e : NoDup (eres_reg e).
  Proof.
    unfold eres_reg. destruct (r_val e); [|constructor].
    constructor; [intros [] | constructor].
  Qed.

  Lemma NoDup_app_intro {A} (l l' : list A) :
    NoDup l -> NoDup l' -> (forall a, In a l -> ~ In a l') -> NoDup (l ++ l').
  Proof.
    induction l as [|x l IH]; intros H1 H2 Hd; [exact H2|]. cbn.
    inversion H1 as [|? ? Hx H1']; subst. constructor.
    - intro Hin. apply in_app_or in Hin as [Hin|Hin]; [exact (Hx Hin)|].
      exact (Hd x (or_introl eq_refl) Hin).
    - apply IH; [exact H1' | exact H2|]. intros a Ha. apply Hd. right. exact Ha.
  Qed.

  Lemma flat_regs_snoc l e : flat_map eres_reg (l ++ [e]) = flat_map eres_reg l ++ eres_reg e.
  Proof. rewrite flat_map_app. cbn. rewrite app_nil_r. reflexivity. Qed.

  Lemma regs_le s l n : Forall (OpOk s) l -> In n (flat_map eres_reg l) -> n <= Hd s.
  Proof.
    intros H Hn. apply in_flat_map in Hn as (e & He & Hn). rewrite Forall_forall in H.
    eapply OpOk_le; [apply H, He | exact Hn].
  Qed.

  Lemma regs_fresh h l n : Forall (fresh_res h) l -> In n (flat_map eres_reg l) -> h < n.
  Proof.
    intros H Hn. apply in_flat_map in Hn as (e & He & Hn). rewrite Forall_forall in H.
    exact (H e He n Hn).
  Qed.

  (** the table after an instruction that checked the operands [L] and wrote the next register *)
  Lemma keys_alloc s m1 L x :
    Good s -> mods (Rm s) m1 L -> keys_le ((Hd s + 1, x) :: m1) (Hd s + 1).
  Proof.
    intros Hg Hm. apply keys_le_cons; [|lia]. eapply mods_keys; [exact Hm|].
    eapply keys_le_mono; [|apply (g_keys s Hg)]. lia.
  Qed.

  Lemma Frame_alloc s0 s s' m1 L x :
    Frame s0 s -> mods (Rm s) m1 L -> (forall n, In n L -> Hd s0 < n) ->
    Rm s' = (Hd s + 1, x) :: m1 -> Hd s' = Hd s + 1 -> Frame s0 s'.
  Proof.
    intros [F1 F2] Hm HL ER EH. split; [lia|]. intros k Hk. rewrite ER, reg_find_cons.
    destruct (N.eqb_spec k (Hd s + 1)) as [E|_]; [lia|].
    rewrite (mods_out _ _ _ _ Hm); [apply F2, Hk|]. intro Hin. specialize (HL k Hin). lia.
  Qed.

  Lemma two_operands s l r :
    OpOk s l -> OpOk s r -> (forall n, In n (eres_reg l) -> ~ In n (eres_reg r)) ->
    exists m1, chk_operands (Rm s) [l; r] = Some m1 /\ mods (Rm s) m1 (eres_reg l ++ eres_reg r).
  Proof.
    intros Hl Hr Hd'. destruct (chk_operands_ok (Hd s) [l; r] (Rm s)) as (m1 & E & M).
    - constructor; [exact Hl | constructor; [exact Hr | constructor]].
    - cbn [flat_map]. rewrite app_nil_r.
      apply NoDup_app_intro; [apply NoDup_eres_reg | apply NoDup_eres_reg | exact Hd'].
    - exists m1. cbn [flat_map] in M. rewrite app_nil_r in M. split; assumption.
  Qed.

  (** one operand, checked by an instruction that writes no register *)
  Lemma one_operand s e :
    Good s -> OpOk s e ->
    exists m1, chk_operand (Rm s) e = Some m1 /\ keys_le m1 (Hd s) /\ mods (Rm s) m1 (eres_reg e).
  Proof.
    intros Hg He. destruct (chk_operand_ok _ _ _ He) as (m1 & E & M). exists m1.
    split; [exact E|]. split; [|exact M]. eapply mods_keys; [exact M | apply (g_keys s Hg)].
  Qed.

  (** ** Expressions *)
  Definition ResP (s0 : bst) (r : option eres) (s' : bst) : Prop :=
    Frame s0 s' /\ forall er, r = Some er -> OpOk s' er /\ fresh_res (Hd s0) er.

  Lemma ResP_None s0 s' : Frame s0 s' -> ResP s0 None s'.
  Proof. intro F. split; [exact F|]. intros er H. discriminate. Qed.

  (** allocate the register of a leaf and return it *)
  Lemma HT_alloc_res s0 s mk t k b :
    Frame s0 s -> (forall n, def_reg (mk n) = Some n) ->
    (Good s -> step_i X G RT (mk (Hd s + 1)) (Rm s, Vs s, []) =
               Some ((Hd s + 1, (k, b)) :: Rm s, Vs s, [])) ->
    k = KTy t \/ k = KUnk ->
    HT s (r <- alloc_emit mk ;; ret (Some (ERes t (RReg r)))) (ResP s0).
  Proof.
    intros F Hd' Hs Hk. eapply HT_bind; [apply R_alloc_emit, Hd' | intro; r_go | |].
    - apply (HT_alloc s mk ((Hd s + 1, (k, b)) :: Rm s) (Vs s) Hd'). intro Hg.
      split; [apply Hs, Hg|]. split; [|apply (g_vals s Hg)].
      apply (keys_alloc s (Rm s) [] (k, b) Hg (mods_refl _ _)).
    - intros r s1 Hg1 (-> & ER & EV & EH). apply HT_ret. intros _. split.
      + eapply (Frame_alloc s0 s s1 (Rm s) []); [exact F | apply mods_refl | intros n [] | exact ER | exact EH].
      + intros er Her. inversion Her; subst er. split.
        * unfold OpOk. rewrite ER, EH.
          destruct Hk as [-> | ->]; [apply op_ok_written | apply op_ok_unk]; lia.
        * intros n [<-|[]]. destruct F as [F1 _]. lia.
  Qed.

  (** finding F7: increment once more and name that register *)
  Lemma HT_bump_f7 s0 s ty :
    Frame s0 s -> reg_find (Hd s) (Rm s) = Some (KTy ty, true) ->
    HT s (r <- bump ;; ret (Some (ERes ty (RReg r)))) (ResP s0).
  Proof.
    intros F Hf Hg r0 s' H _. apply bind_ok in H as (r & s1 & E & H). inversion H; subst; clear H.
    pose proof (NeutM_bump _ _ _ E) as HN.
    destruct (Neut_Good _ _ HN Hg) as (Hg1 & F1 & ER & EV).
    apply bump_eq in E as [-> ->].
    destruct (st_inc_view s (g_ne s Hg)) as (_ & _ & _ & H1). fold (Hd s) in H1.
    split; [exact Hg1|]. split; [eapply Frame_trans; eassumption|].
    rewrite H1. intros er Her. inversion Her; subst er. split.
    - unfold OpOk. rewrite ER. unfold Hd at 1. rewrite H1.
      apply op_ok_f7; [apply (g_keys s Hg) | exact Hf].
    - intros n [<-|[]]. destruct F as [F0 _]. lia.
  Qed.

  Section Expr.
    Variable E : expr -> M (option eres).
    Variable AE : expr -> bool.
    Hypothesis HER : forall e, R (E e).
    Hypothesis HE : forall e s, (X = true -> AE e = true) -> HT s (E e) (ResP s).

    Definition ArgsP (s0 : bst) (params : list sem_ty) (n : nat) (r : option (list eres))
               (s' : bst) : Prop :=
      Frame s0 s' /\
      forall l, r = Some l ->
        Forall (OpOk s') l /\ Forall (fresh_res (Hd s0)) l /\ NoDup (flat_map eres_reg l) /\
        tys_pref l params /\ length l = n.

    Lemma HT_call_args callee params : forall args i acc s0 s,
      Frame s0 s -> i = length acc -> Forall (OpOk s) acc -> Forall (fresh_res (Hd s0)) acc ->
      NoDup (flat_map eres_reg acc) -> tys_pref acc params ->
      (X = true -> forallb AE args = true) ->
      HT s (call_args E callee params i args acc) (ArgsP s0 params (length acc + length args)).
    Proof.
      pose proof (R_call_args E HER callee params) as HRC.
      induction args as [|a args IH]; intros i acc s0 s F Hi Hok Hfr Hnd Hty Har;
        cbn [call_args].
      - apply HT_ret. intros _. split; [exact F|]. intros l Hl. inversion Hl; subst l.
        repeat split; try assumption. cbn. lia.
      - assert (Har1 : X = true -> AE a = true).
        { intro HX. specialize (Har HX). cbn in Har. apply Bool.andb_true_iff in Har. apply Har. }
        assert (Har2 : X = true -> forallb AE args = true).
        { intro HX. specialize (Har HX). cbn in Har. apply Bool.andb_true_iff in Har. apply Har. }
        eapply HT_bind; [apply HER | intro; r_go | apply HE, Har1 |].
        intros r s1 Hg1 [F1 HQ]. destruct r as [er|].
        2:{ apply HT_ret. intros _. split; [eapply Frame_trans; eassumption | intros l Hl; discriminate]. }
        destruct (HQ er eq_refl) as [Her Hef].
        destruct (nth_error params i) as [pt|] eqn:En; [|apply HT_err_bind; intro; r_go].
        destruct (sem_ty_eqb pt (r_ty er)) eqn:Et; [|apply HT_err_bind; intro; r_go].
        eapply HT_conseq.
        + apply (IH (S i) (acc ++ [er]) s0 s1).
          * eapply Frame_trans; eassumption.
          * rewrite app_length. cbn. lia.
          * apply Forall_app. split; [eapply Forall_OpOk_Frame; eassumption|].
            constructor; [exact Her | constructor].
          * apply Forall_app. split; [exact Hfr|]. constructor; [|constructor].
            eapply fresh_res_mono; [|exact Hef]. apply F.
          * rewrite flat_regs_snoc. apply NoDup_app_intro; [exact Hnd | apply NoDup_eres_reg|].
            intros n Hn Hn'. pose proof (regs_le s acc n Hok Hn). specialize (Hef n Hn'). lia.
          * subst i. eapply tys_pref_snoc; eassumption.
          * exact Har2.
        + intros r s' _ [F' HQ']. split; [exact F'|]. intros l Hl.
          destruct (HQ' l Hl) as (A1 & A2 & A3 & A4 & A5). repeat split; try assumption.
          rewrite A5, app_length. cbn. lia.
    Qed.

    Definition CallP (s0 : bst) (t : option sem_ty) (s' : bst) : Prop :=
      Frame s0 s' /\ forall ty, t = Some ty -> reg_find (Hd s') (Rm s') = Some (KTy ty, true).

    Lemma HT_function_call f args s :
      (X = true -> ar_call (g_funcs G) AE f args = true) ->
      HT s (function_call G E f args) (CallP s).
    Proof.
      pose proof (R_call_args E HER) as HRC.
      intro Har. unfold function_call. unfold ar_call in Har.
      destruct (alookup (iname f) (g_funcs G)) as [fd|] eqn:El; [|apply HT_err_bind; intro; r_go].
      eapply HT_bind; [apply HRC | intro; r_go | |].
      - apply (HT_call_args f (f_params fd) args O [] s s); try constructor;
          try apply Frame_refl; try reflexivity.
        intro HX. specialize (Har HX). apply Bool.andb_true_iff in Har. apply Har.
      - intros ps s1 Hg1 [F1 HQ]. destruct ps as [l|].
        2:{ apply HT_ret. intros _. split; [exact F1 | intros ty H; discriminate]. }
        destruct (HQ l eq_refl) as (A1 & A2 & A3 & A4 & A5). cbn [length plus] in A5.
        destruct (chk_operands_ok (Hd s1) l (Rm s1) A1 A3) as (m1 & Ec & Hm).
        eapply HT_bind; [r_go | intro; r_go | |].
        + apply (HT_alloc s1 (ICall fd l) ((Hd s1 + 1, (KTy (f_ty fd), true)) :: m1) (Vs s1));
            [intro; reflexivity|]. intro Hg. split; [|split].
          * cbn [step_i]. rewrite Ec. unfold chk_callx.
            rewrite (gw_funcs G HG _ _ El), El, func_sem_eqb_refl. cbn [andb].
            unfold tys_pref in A4. rewrite A4.
            destruct X eqn:EX; [|reflexivity].
            specialize (Har eq_refl). apply Bool.andb_true_iff in Har as [Har _].
            rewrite A5, Har. reflexivity.
          * eapply keys_alloc; eassumption.
          * apply (g_vals s1 Hg).
        + intros r s2 Hg2 (-> & ER & EV & EH). apply HT_ret. intros _. split.
          * eapply (Frame_alloc s s1 s2 m1); [exact F1 | exact Hm | | exact ER | exact EH].
            intros n Hn. eapply regs_fresh; eassumption.
          * intros ty Hty. inversion Hty; subst ty. rewrite ER, EH, reg_find_cons, N.eqb_refl.
            reflexivity.
    Qed.

    Lemma HT_expr_value v s :
      (X = true -> ar_val (g_funcs G) AE v = true) -> HT s (expr_value G E v) (ResP s).
    Proof.
      pose proof (R_function_call G E HER) as HRF. pose proof (R_check_type_exists G) as HRT.
      intro Har. destruct v as [x | p | f args | x a | e | t tag]; cbn [expr_value].
      - (* a name *)
        apply HT_lookup_bind. destruct (lookup_frames (iname x) (frames s)) as [val|] eqn:El.
        + apply (HT_alloc_res s s (IExprValue val) (v_ty val) (KTy (v_ty val)) false);
            [apply Frame_refl | intro; reflexivity | | left; reflexivity].
          intro Hg. cbn [step_i]. rewrite (VInv_lookup _ _ _ _ (g_vals s Hg) El). reflexivity.
        + destruct (alookup (iname x) (g_consts G)) as [c|] eqn:Ec.
          * apply (HT_alloc_res s s (IExprConst c) (c_ty c) (KTy (c_ty c)) false);
              [apply Frame_refl | intro; reflexivity | | left; reflexivity].
            intro Hg. cbn [step_i]. unfold chk_const.
            rewrite (gw_consts G HG _ _ Ec), Ec, const_sem_eqb_refl. reflexivity.
          * apply HT_neut_bind; [r_go | intro; r_go | apply NeutM_bump|].
            intros. apply HT_err_bind. intro; r_go.
      - (* a literal *)
        apply HT_ret. intros _. split; [apply Frame_refl|]. intros er Her. inversion Her; subst er.
        split; [apply op_ok_prim | intros n []].
      - (* a call *)
        eapply HT_bind; [apply HRF | intro; r_go | apply HT_function_call, Har|].
        intros t s1 Hg1 [F1 HQ]. destruct t as [ty|].
        + apply (HT_bump_f7 s s1 ty F1 (HQ ty eq_refl)).
        + apply HT_ret. intros _. apply ResP_None, F1.
      - (* a field read *)
        apply HT_lookup_bind. destruct (lookup_frames (iname x) (frames s)) as [val|] eqn:El;
          [|apply HT_err_bind; intro; r_go].
        destruct (v_ty val) as [pt | name attrs | et en] eqn:Ety;
          try solve [apply HT_err_bind; intro; r_go].
        apply HT_good. intro Hg0.
        apply HT_neut_bind; [apply HRT | intro; r_go | apply NeutM_check_type_exists|].
        intros ok s1 Hg1 (F1 & ER1 & EV1).
        destruct (negb ok); [apply HT_ret; intros _; apply ResP_None, F1|].
        destruct (alookup (type_name (SStruct name attrs)) (g_types G)) as [declared|] eqn:Ed;
          [|apply HT_ret; intros _; apply ResP_None, F1].
        destruct (sem_ty_eqb (SStruct name attrs) declared) eqn:Eq; cbn [negb];
          [|apply HT_err_bind; intro; r_go].
        apply sem_ty_eqb_eq in Eq. subst declared.
        destruct (attr_lookup (iname a) attrs) as [[idx aty]|] eqn:Ea;
          [|apply HT_err_bind; intro; r_go].
        pose proof (gw_types G HG _ _ _ _ _ _ Ed Ea) as Hat.
        eapply HT_bind; [r_go | intro; r_go | |].
        + apply (HT_alloc s1 (IExprStruct val idx) ((Hd s1 + 1, (KTy aty, true)) :: Rm s1) (Vs s1));
            [intro; reflexivity|]. intro Hg. split; [|split].
          * cbn [step_i]. rewrite EV1, (VInv_lookup _ _ _ _ (g_vals s Hg0) El), Ety.
            cbn [field_ty]. rewrite Hat. reflexivity.
          * apply (keys_alloc s1 (Rm s1) [] _ Hg (mods_refl _ _)).
          * apply (g_vals s1 Hg).
        + intros r s2 Hg2 (-> & ER & EV & EH).
          apply (HT_bump_f7 s s2 aty).
          * eapply (Frame_alloc s s1 s2 (Rm s1) []);
              [exact F1 | apply mods_refl | intros n [] | exact ER | exact EH].
          * rewrite ER, EH, reg_find_cons, N.eqb_refl. reflexivity.
      - (* a bracket *)
        apply HE. exact Har.
      - (* the harness extension *)
        apply (HT_alloc_res s s (IExt tag) (sem_of_ty t) KUnk false);
          [apply Frame_refl | intro; reflexivity | intros; reflexivity | right; reflexivity].
    Qed.

    Lemma HT_expr_chain : forall rest left s0 s,
      Frame s0 s -> OpOk s left -> fresh_res (Hd s0) left ->
      (X = true -> forallb (fun l => ar_val (g_funcs G) AE (snd l)) rest = true) ->
      HT s (expr_chain G E left rest) (ResP s0).
    Proof.
      pose proof (R_expr_value G E HER) as HRV. pose proof (R_expr_chain G E HER) as HRC.
      induction rest as [|[op v] rest IH]; intros left s0 s F Hl Hfr Har; cbn [expr_chain].
      - apply HT_ret. intros _. split; [exact F|]. intros er Her. inversion Her; subst er.
        split; assumption.
      - assert (Har1 : X = true -> ar_val (g_funcs G) AE v = true).
        { intro HX. specialize (Har HX). cbn in Har. apply Bool.andb_true_iff in Har. apply Har. }
        assert (Har2 : X = true -> forallb (fun l => ar_val (g_funcs G) AE (snd l)) rest = true).
        { intro HX. specialize (Har HX). cbn in Har. apply Bool.andb_true_iff in Har. apply Har. }
        eapply HT_bind; [apply HRV | intro; r_go | apply HT_expr_value, Har1|].
        intros rv s1 Hg1 [F1 HQ]. destruct rv as [rgt|].
        2:{ apply HT_ret. intros _. apply ResP_None. eapply Frame_trans; eassumption. }
        destruct (HQ rgt eq_refl) as [Hr Hrf].
        destruct (sem_ty_eqb (r_ty left) (r_ty rgt)) eqn:Eeq; cbn [negb];
          [|apply HT_err_bind; intro; r_go].
        pose proof (OpOk_Frame _ _ _ Hl F1) as Hl1.
        destruct (two_operands s1 left rgt Hl1 Hr) as (m1 & Ec & Hm).
        { intros n Hn Hn'. pose proof (OpOk_le s left n Hl Hn). specialize (Hrf n Hn'). lia. }
        eapply HT_bind; [r_go | intro; r_go | |].
        + apply (HT_alloc s1 (IExprOp op left rgt)
                          ((Hd s1 + 1, (KTy (r_ty rgt), false)) :: m1) (Vs s1));
            [intro; reflexivity|]. intro Hg. split; [|split].
          * cbn [step_i]. rewrite Ec, Eeq. reflexivity.
          * eapply keys_alloc; eassumption.
          * apply (g_vals s1 Hg).
        + intros r s2 Hg2 (-> & ER & EV & EH).
          assert (F2 : Frame s0 s2).
          { eapply (Frame_alloc s0 s1 s2 m1);
              [eapply Frame_trans; eassumption | exact Hm | | exact ER | exact EH].
            intros n Hn. apply in_app_or in Hn as [Hn|Hn]; [apply Hfr, Hn|].
            specialize (Hrf n Hn). destruct F as [F0 _]. lia. }
          apply IH; [exact F2 | | | exact Har2].
          * unfold OpOk. rewrite ER, EH. apply op_ok_written. lia.
          * intros n [<-|[]]. destruct F as [F0 _]. destruct F1 as [F1' _]. lia.
    Qed.

    Lemma HT_expression_body e s :
      (X = true -> ar_body (g_funcs G) AE e = true) -> HT s (expression_body G E e) (ResP s).
    Proof.
      pose proof (R_expr_value G E HER) as HRV. pose proof (R_expr_chain G E HER) as HRC.
      unfold expression_body, ar_body. destruct (fold_priority e) as [v rest]. intro Har.
      eapply HT_bind; [apply HRV | intro; r_go | apply HT_expr_value|].
      - intro HX. specialize (Har HX). apply Bool.andb_true_iff in Har. apply Har.
      - intros rv s1 Hg1 [F1 HQ]. destruct rv as [first|]; [|apply HT_ret; intros _; apply ResP_None, F1].
        destruct (HQ first eq_refl) as [Hf Hff].
        apply HT_expr_chain; try assumption.
        intro HX. specialize (Har HX). apply Bool.andb_true_iff in Har. apply Har.
    Qed.
  End Expr.

  Lemma HT_expression fuel : forall e s,
    (X = true -> ar_expr (g_funcs G) fuel e = true) -> HT s (expression G fuel e) (ResP s).
  Proof.
    induction fuel as [|f IH]; intros e s Har; cbn [expression]; [apply HT_oof|].
    apply (HT_expression_body (expression G f) (ar_expr (g_funcs G) f)).
    - apply R_expression.
    - exact IH.
    - exact Har.
  Qed.

  (** ** Declarations: the value enters the head block's table, its internal name every
      registry, and the declaring instruction is pushed *)
  Lemma VInv_declare h r vs x val :
    VInv (h :: r) vs ->
    (forall f y v, In f (h :: r) -> alookup y (b_values f) = Some v -> v_inner v <> v_inner val) ->
    VInv (map (add_inner (v_inner val)) (set_value x val h :: r)) ((v_inner val, val) :: vs).
  Proof.
    intros Hv Hfr f y v Hf Hl. apply in_map_iff in Hf as (f0 & <- & Hf0).
    cbn [add_inner b_values b_inner] in *. destruct Hf0 as [<-|Hf0].
    - cbn [set_value b_values b_inner] in *. rewrite alookup_ainsert in Hl.
      destruct (String.eqb y x).
      + inversion Hl; subst v. split; [apply smem_sadd | apply declared_head].
      + destruct (Hv h y v (or_introl eq_refl) Hl) as [H1 H2].
        split; [apply smem_sadd_mono, H1|].
        apply declared_tail; [exact (Hfr h y v (or_introl eq_refl) Hl) | exact H2].
    - destruct (Hv f0 y v (or_intror Hf0) Hl) as [H1 H2].
      split; [apply smem_sadd_mono, H1|].
      apply declared_tail; [exact (Hfr f0 y v (or_intror Hf0) Hl) | exact H2].
  Qed.

  Lemma declare_Pre s x val :
    frames s <> [] -> Inv_reg s ->
    let s2 := st_inner (v_inner val) (st_value x val s) in
    frames s2 <> [] /\ Inv_reg s2 /\ Ctx s2 = Ctx s /\ Hd s2 = Hd s.
  Proof.
    intros Hne Hreg s2.
    assert (S1 : step s (st_value x val s)) by (apply (s_value x val); reflexivity).
    assert (S2 : step (st_value x val s) s2) by (apply (s_inner (v_inner val)); reflexivity).
    pose proof (step_ne _ _ S1 Hne) as N1. pose proof (step_ne _ _ S2 N1) as N2.
    split; [exact N2|]. split; [eapply step_Inv_reg; [exact S2|]; eapply step_Inv_reg; eassumption|].
    destruct s as [fs e]. cbn [frames] in Hne. destruct fs as [|h r]; [congruence|].
    subst s2. unfold st_inner, st_value. cbn [frames errs]. split.
    - etransitivity;
        [apply (Ctx_map0 (add_inner (v_inner val)) (BSt (set_value x val h :: r) e) e);
         [discriminate | reflexivity]|].
      apply Ctx_head. reflexivity.
    - reflexivity.
  Qed.

  Lemma let_Good s x inner mut er :
    Good s -> OpOk s er -> inner_exists inner (frames s) = false ->
    Good (st_emit (ILet (Value inner (r_ty er) mut) er)
                  (st_inner inner (st_value x (Value inner (r_ty er) mut) s))).
  Proof.
    intros Hg Her Hfresh. set (val := Value inner (r_ty er) mut).
    change (st_inner inner) with (st_inner (v_inner val)).
    destruct (declare_Pre s x val (g_ne s Hg) (g_reg s Hg)) as (N2 & R2 & C2 & H2).
    set (s2 := st_inner (v_inner val) (st_value x val s)) in *.
    destruct (one_operand s er Hg Her) as (m1 & Ec & Hk & _).
    pose proof (Rm_same _ _ C2) as ER. pose proof (Vs_same _ _ C2) as EV.
    refine (proj1 (emit_Good s2 (ILet val er) m1 ((v_inner val, val) :: Vs s) _ eq_refl _ _ _)).
    - split; [exact N2|]. split; [exact R2|].
      rewrite (Mst_same _ _ C2), ER, EV. apply (g_mst s Hg).
    - cbn [step_i]. rewrite ER, EV, Ec. cbn [v_ty val]. rewrite sem_ty_eqb_refl. reflexivity.
    - rewrite H2. exact Hk.
    - pose proof (g_vals s Hg) as Hv. pose proof (g_ne s Hg) as Hne.
      subst s2. unfold st_inner, st_value. cbn [frames].
      destruct (frames s) as [|h r] eqn:Ef; [congruence|].
      apply VInv_declare; [exact Hv|]. intros f y v Hf Hl.
      eapply VInv_fresh; [exact Hv | exact Hfresh | exact Hf | exact Hl].
  Qed.

  (** the three return forms *)
  Definition ret_instr (i : instr) (er : eres) : Prop :=
    i = IFnRet er \/ i = IFnRetLabel er \/ i = IJumpFnRet er.

  Lemma HT_emit_ret s i er :
    ret_instr i er -> OpOk s er -> sem_ty_eqb RT (r_ty er) = true ->
    HT s (emit i) (fun _ _ => True).
  Proof.
    intros Hi Her Ht. apply HT_good. intro Hg.
    destruct (one_operand s er Hg Her) as (m1 & Ec & Hk & _).
    apply sem_ty_eqb_eq in Ht.
    eapply HT_conseq; [apply (HT_emit s i m1 (Vs s)) | trivial].
    - destruct Hi as [->|[->| ->]]; reflexivity.
    - intros _. split; [|split; [exact Hk | apply (g_vals s Hg)]].
      destruct Hi as [->|[->| ->]]; cbn [step_i]; rewrite Ec, <- Ht, sem_ty_eqb_refl; reflexivity.
  Qed.

  Definition TT {A} : A -> bst -> Prop := fun _ _ => True.

  Ltac ht_go :=
    repeat first
      [ apply HT_ret; intros; exact I
      | apply HT_panic | apply HT_oof
      | match goal with H : _ |- HT _ _ _ => solve [apply H; auto] end
      | apply HT_add_error
      | eapply HT_conseq; [apply HT_emit_typeless; exact I | intros; exact I]
      | apply HT_emit_kid_typeless; exact I
      | eapply HT_conseq; [apply HT_neut; solve [neut_go] | intros; exact I]
      | apply HT_gets_bind
      | apply HT_bind with (Q1 := TT); [solve [r_go] | intro; solve [r_go] | | intros ? ? _ _]
      | match goal with |- HT _ (when ?c _) _ => destruct c; cbn [when] end
      | match goal with |- HT _ (match ?x with _ => _ end) _ => destruct x end
      | match goal with |- HT _ (if ?b then _ else _) _ => destruct b end
      | progress cbv zeta ].

  Section Stmts.
    Variable fuel : nat.
    Notation AX := (ar_expr (g_funcs G) fuel).

    Lemma HT_let_binding x mut ty e s :
      (X = true -> AX e = true) -> HT s (let_binding G fuel x mut ty e) TT.
    Proof.
      pose proof (R_expression G fuel) as HRX.
      intro Har. unfold let_binding. cbv zeta.
      eapply HT_bind; [apply HRX | intro; r_go | apply HT_expression, Har |].
      intros r s1 Hg1 [F1 HQ]. destruct r as [er|]; [|apply HT_ret; intros; exact I].
      destruct (HQ er eq_refl) as [Her _].
      destruct (match ty with Some t => _ | None => false end); [apply HT_add_error|].
      apply HT_lookup_bind. apply HT_gets_bind.
      intros Hg u s' H He. apply bind_ok in H as (inner & s2 & En & H).
      apply next_inner_name_spec in En as [-> Hfresh].
      apply bind_ok in H as (u1 & sa & E1 & H). apply insert_value_eq in E1 as ->.
      apply bind_ok in H as (u2 & sb & E2 & H). apply set_inner_name_eq in E2 as ->.
      apply emit_eq in H as ->. split; [|exact I]. apply let_Good; assumption.
    Qed.

    Lemma HT_binding x e s : (X = true -> AX e = true) -> HT s (binding G fuel x e) TT.
    Proof.
      pose proof (R_expression G fuel) as HRX.
      intro Har. unfold binding.
      eapply HT_bind; [apply HRX | intro; r_go | apply HT_expression, Har |].
      intros r s1 Hg1 [F1 HQ]. destruct r as [er|]; [|apply HT_ret; intros; exact I].
      destruct (HQ er eq_refl) as [Her _].
      apply HT_lookup_bind. destruct (lookup_frames (iname x) (frames s1)) as [val|] eqn:El;
        [|apply HT_add_error].
      destruct (v_mut val) eqn:Em; cbn [negb]; [|apply HT_add_error].
      destruct (sem_ty_eqb (v_ty val) (r_ty er)) eqn:Et; cbn [negb]; [|apply HT_add_error].
      apply HT_good. intro Hg. destruct (one_operand s1 er Hg Her) as (m1 & Ec & Hk & _).
      eapply HT_conseq; [apply (HT_emit s1 (IBind val er) m1 (Vs s1)); [reflexivity|] | intros; exact I].
      intros _. split; [|split; [exact Hk | apply (g_vals s1 Hg)]].
      cbn [step_i]. rewrite Ec, (VInv_lookup _ _ _ _ (g_vals s1 Hg) El), Em, Et. reflexivity.
    Qed.

    Lemma HT_call_stmt f args s :
      (X = true -> ar_call (g_funcs G) AX f args = true) -> HT s (call_stmt G fuel f args) TT.
    Proof.
      pose proof (R_expression G fuel) as HRX.
      intro Har. unfold call_stmt.
      eapply HT_bind; [apply R_function_call, HRX | intro; r_go | |].
      - apply (HT_function_call (expression G fuel) AX HRX); [|exact Har].
        intros e s0. apply HT_expression.
      - intros. apply HT_ret. intros; exact I.
    Qed.

    (** ** Conditions *)
    Definition HeadCond (s0 : bst) (s' : bst) : Prop :=
      Frame s0 s' /\ exists b, reg_find (Hd s') (Rm s') = Some (KCond, b).
    Definition CondP (s0 : bst) (reg : N) (s' : bst) : Prop := reg = Hd s' /\ HeadCond s0 s'.

    Lemma is_cond_reg_find m n b : reg_find n m = Some (KCond, b) -> is_cond_reg m n = true.
    Proof. unfold is_cond_reg. intros ->. reflexivity. Qed.

    Lemma HT_condition_expression c : forall s,
      (X = true -> ar_lcond (g_funcs G) fuel c = true) ->
      HT s (condition_expression G fuel c) (CondP s).
    Proof.
      pose proof (R_expression G fuel) as HRX. pose proof (R_condition_expression G fuel) as HRC.
      induction c as [l cmp r | l cmp r op c' IH] using lcond_ind'; intros s Har;
        cbn [condition_expression]; cbv zeta;
        (assert (Hal : X = true -> AX l = true /\ AX r = true);
         [ intro HX; specialize (Har HX); cbn [ar_lcond] in Har;
           apply Bool.andb_true_iff in Har as [Har _]; apply Bool.andb_true_iff in Har; exact Har |]);
        (eapply HT_bind; [apply HRX | intro; r_go | apply HT_expression; intro HX; apply (Hal HX) |]);
        intros lres s1 Hg1 [F1 HL];
        (eapply HT_bind; [apply HRX | intro; r_go | apply HT_expression; intro HX; apply (Hal HX) |]);
        intros rres s2 Hg2 [F2 HR];
        (destruct lres as [lr|]; [|apply HT_err_bind; intro; r_go]);
        (destruct rres as [rr|]; [|apply HT_err_bind; intro; r_go]);
        (destruct (sem_ty_eqb (r_ty lr) (r_ty rr)) eqn:Eeq; cbn [negb];
         [|apply HT_err_bind; intro; r_go]);
        (destruct (is_prim (r_ty lr)) eqn:Ep; cbn [negb]; [|apply HT_err_bind; intro; r_go]);
        destruct (HL lr eq_refl) as [Hl Hlf]; destruct (HR rr eq_refl) as [Hr Hrf];
        pose proof (OpOk_Frame _ _ _ Hl F2) as Hl2;
        (destruct (two_operands s2 lr rr Hl2 Hr) as (m1 & Ec & Hm);
         [intros n Hn Hn'; pose proof (OpOk_le s1 lr n Hl Hn); specialize (Hrf n Hn'); lia|]);
        (eapply HT_bind;
         [ r_go | intro; r_go
         | apply (HT_alloc s2 (ICondExpr lr rr cmp) ((Hd s2 + 1, (KCond, false)) :: m1) (Vs s2));
           [intro; reflexivity|]; intro Hg; split; [|split];
           [ cbn [step_i]; rewrite Ec, Eeq, Ep; reflexivity
           | eapply keys_alloc; eassumption
           | apply (g_vals s2 Hg) ]
         |]);
        intros r3 s3 Hg3 (-> & ER & EV & EH);
        (assert (F3 : Frame s s3);
         [ eapply (Frame_alloc s s2 s3 m1);
           [eapply Frame_trans; eassumption | exact Hm | | exact ER | exact EH];
           intros n Hn; apply in_app_or in Hn as [Hn|Hn];
           [apply Hlf, Hn | specialize (Hrf n Hn); destruct F1 as [F1' _]; lia] |]);
        (assert (C3 : reg_find (Hd s3) (Rm s3) = Some (KCond, false));
         [rewrite ER, EH, reg_find_cons, N.eqb_refl; reflexivity|]).
      - (* a single comparison *)
        apply HT_bind with (Q1 := fun _ s' => HeadCond s s'); [r_go | intro; r_go | |].
        + apply HT_ret. intros _. split; [exact F3 | exists false; exact C3].
        + intros _ s4 Hg4 H4. apply HT_get_reg. intros _. split; [reflexivity | exact H4].
      - (* a logic link *)
        assert (Har' : X = true -> ar_lcond (g_funcs G) fuel c' = true).
        { intro HX. specialize (Har HX). cbn [ar_lcond] in Har.
          apply Bool.andb_true_iff in Har. apply Har. }
        apply HT_bind with (Q1 := fun _ s' => HeadCond s s'); [r_go | intro; r_go | |].
        + apply HT_get_reg_bind.
          eapply HT_bind; [apply HRC | intro; r_go | apply IH, Har' |].
          intros rreg s4 Hg4 (-> & F4 & b4 & C4).
          eapply HT_bind; [r_go | intro; r_go | |].
          * apply (HT_alloc s4 (ILogic op (Hd s3) (Hd s4))
                            ((Hd s4 + 1, (KCond, false)) :: Rm s4) (Vs s4));
              [intro; reflexivity|]. intro Hg. split; [|split].
            -- cbn [step_i].
               assert (E3 : reg_find (Hd s3) (Rm s4) = Some (KCond, false)).
               { destruct F4 as [_ F4]. rewrite F4 by lia. exact C3. }
               rewrite (is_cond_reg_find _ _ _ E3), (is_cond_reg_find _ _ _ C4). reflexivity.
            -- apply (keys_alloc s4 (Rm s4) [] _ Hg (mods_refl _ _)).
            -- apply (g_vals s4 Hg).
          * intros r5 s5 Hg5 (-> & ER5 & EV5 & EH5). apply HT_ret. intros _. split.
            -- eapply (Frame_alloc s s4 s5 (Rm s4) []);
                 [eapply Frame_trans; eassumption | apply mods_refl | intros n [] | exact ER5 | exact EH5].
            -- exists false. rewrite ER5, EH5, reg_find_cons, N.eqb_refl. reflexivity.
        + intros _ s6 Hg6 H6. apply HT_get_reg. intros _. split; [reflexivity | exact H6].
    Qed.

    Lemma HT_if_condition_calculation c lb le lend ie s :
      (X = true -> ar_cond (g_funcs G) fuel c = true) ->
      HT s (if_condition_calculation G fuel c lb le lend ie) TT.
    Proof.
      pose proof (R_expression G fuel) as HRX. pose proof (R_condition_expression G fuel) as HRC.
      intro Har. unfold if_condition_calculation. cbv zeta. destruct c as [e|lc]; cbn [ar_cond] in Har.
      - eapply HT_bind; [apply HRX | intro; r_go | apply HT_expression, Har |].
        intros r s1 Hg1 [F1 HQ]. destruct r as [er|]; [|apply HT_ret; intros; exact I].
        destruct (HQ er eq_refl) as [Her _].
        destruct (one_operand s1 er Hg1 Her) as (m1 & Ec & Hk & _).
        eapply HT_conseq; [apply (HT_emit s1 _ m1 (Vs s1)); [reflexivity|] | intros; exact I].
        intro Hg. split; [|split; [exact Hk | apply (g_vals s1 Hg)]].
        cbn [step_i]. rewrite Ec. reflexivity.
      - eapply HT_bind; [apply HRC | intro; r_go | apply HT_condition_expression, Har |].
        intros reg s1 Hg1 (-> & F1 & b & C1).
        eapply HT_conseq; [apply (HT_emit s1 _ (Rm s1) (Vs s1)); [reflexivity|] | intros; exact I].
        intro Hg. split; [|split; [apply (g_keys s1 Hg) | apply (g_vals s1 Hg)]].
        cbn [step_i]. rewrite (is_cond_reg_find _ _ _ C1). reflexivity.
    Qed.

    (** a nested return *)
    Lemma HT_nested_ret e (k k' : M flags) s :
      (X = true -> AX e = true) -> (forall s1, HT s1 k TT) -> (forall s1, HT s1 k' TT) ->
      R k -> R k' ->
      HT s (r <- expression G fuel e ;;
            match r with
            | Some er => check_return_type RT er ;;; emit (IJumpFnRet er) ;;; set_return ;;; k
            | None => k'
            end) TT.
    Proof.
      pose proof (R_expression G fuel) as HRX.
      intros Har Hk Hk' Rk Rk'.
      eapply HT_bind; [apply HRX | intro; unfold check_return_type; r_go | apply HT_expression, Har |].
      intros r s1 Hg1 [F1 HQ]. destruct r as [er|]; [|apply Hk'].
      destruct (HQ er eq_refl) as [Her _]. unfold check_return_type.
      apply HT_when_err_bind; [intro; r_go|]. intro Et. apply Bool.negb_false_iff in Et.
      apply HT_bind with (Q1 := TT); [r_go | intro; r_go | |].
      - apply (HT_emit_ret s1 _ er); [right; right; reflexivity | exact Her | exact Et].
      - intros _ s2 _ _. ht_go.
    Qed.

    (** ** Control flow *)
    Section Control.
      Variable IFC : ifstmt -> option string -> option (string * string) -> M unit.
      Variable LOOP : list stmt -> M unit.
      Variable AIF : ifstmt -> bool.
      Variable ALOOP : list stmt -> bool.
      Hypothesis HRI : forall i le ll, R (IFC i le ll).
      Hypothesis HRL : forall b, R (LOOP b).
      Hypothesis HIFC : forall i le ll s, (X = true -> AIF i = true) -> HT s (IFC i le ll) TT.
      Hypothesis HLOOP : forall b s, (X = true -> ALOOP b = true) -> HT s (LOOP b) TT.

      Lemma HT_nested_stmt k lend lloop fl st s :
        (X = true -> ar_nested (g_funcs G) fuel AIF ALOOP st = true) ->
        HT s (nested_stmt G fuel RT IFC LOOP k lend lloop fl st) TT.
      Proof.
        pose proof (R_expression G fuel) as HRX. pose proof (R_let_binding G fuel) as HR1.
        pose proof (R_binding G fuel) as HR2. pose proof (R_call_stmt G fuel) as HR3.
        pose proof HT_let_binding as H1. pose proof HT_binding as H2. pose proof HT_call_stmt as H3.
        intro Har. destruct st; cbn [nested_stmt ar_nested] in *; try solve [ht_go].
        apply HT_nested_ret; [exact Har | intro; ht_go | intro; ht_go | r_go | r_go].
      Qed.

      Lemma HT_run_body k lend lloop : forall ss fl s,
        (X = true -> forallb (ar_nested (g_funcs G) fuel AIF ALOOP) ss = true) ->
        HT s (run_body G fuel RT IFC LOOP k lend lloop fl ss) TT.
      Proof.
        pose proof (R_nested_stmt G fuel RT IFC LOOP HRI HRL) as HRN.
        pose proof (R_run_body G fuel RT IFC LOOP HRI HRL k lend lloop) as HRB.
        pose proof (R_code_after_errors k) as HRA. pose proof NeutM_code_after_errors as HNA.
        induction ss as [|st ss IH]; intros fl s Har; cbn [run_body]; [ht_go|].
        assert (Ha1 : X = true -> ar_nested (g_funcs G) fuel AIF ALOOP st = true).
        { intro HX. specialize (Har HX). cbn in Har. apply Bool.andb_true_iff in Har. apply Har. }
        assert (Ha2 : X = true -> forallb (ar_nested (g_funcs G) fuel AIF ALOOP) ss = true).
        { intro HX. specialize (Har HX). cbn in Har. apply Bool.andb_true_iff in Har. apply Har. }
        pose proof HT_nested_stmt as HN. ht_go.
      Qed.

      Lemma HT_if_body bd lend lloop s :
        (X = true -> ar_ifbody (g_funcs G) fuel AIF ALOOP bd = true) ->
        HT s (if_body G fuel RT IFC LOOP bd lend lloop) TT.
      Proof.
        pose proof (R_run_body G fuel RT IFC LOOP HRI HRL) as HRB. pose proof HT_run_body as HB.
        intro Har. unfold if_body. destruct bd; cbn [ar_ifbody] in Har; ht_go.
      Qed.

      Lemma HT_if_condition_step i le ll s :
        (X = true -> ar_if_step (g_funcs G) fuel AIF ALOOP i = true) ->
        HT s (if_condition_step G fuel RT IFC LOOP i le ll) TT.
      Proof.
        pose proof (R_if_body G fuel RT IFC LOOP HRI HRL) as HRB.
        pose proof (R_if_condition_calculation G fuel) as HRC. pose proof R_gen_label as HRG.
        pose proof NeutM_gen_label as HNG.
        pose proof HT_if_body as HB. pose proof HT_if_condition_calculation as HC.
        destruct i as [c body els elif]. intro Har. cbn [if_condition_step ar_if_step] in *.
        assert (Ha1 : X = true -> ar_cond (g_funcs G) fuel c = true).
        { intro HX. specialize (Har HX). apply Bool.andb_true_iff in Har as [Har _].
          apply Bool.andb_true_iff in Har. apply Har. }
        assert (Ha2 : X = true -> ar_ifbody (g_funcs G) fuel AIF ALOOP body = true).
        { intro HX. specialize (Har HX). apply Bool.andb_true_iff in Har as [Har _].
          apply Bool.andb_true_iff in Har. apply Har. }
        assert (Ha3 : X = true ->
                      match els with
                      | Some eb => ar_ifbody (g_funcs G) fuel AIF ALOOP eb
                      | None => match elif with Some ei => AIF ei | None => true end
                      end = true).
        { intro HX. specialize (Har HX). apply Bool.andb_true_iff in Har. apply Har. }
        destruct els as [eb|]; [|destruct elif as [ei|]]; ht_go.
      Qed.

      Lemma HT_loop_step body s :
        (X = true -> ar_loop_step (g_funcs G) fuel AIF ALOOP body = true) ->
        HT s (loop_step G fuel RT IFC LOOP body) TT.
      Proof.
        pose proof (R_run_body G fuel RT IFC LOOP HRI HRL) as HRB. pose proof R_gen_label as HRG.
        pose proof NeutM_gen_label as HNG. pose proof HT_run_body as HB.
        intro Har. unfold loop_step, ar_loop_step in *. ht_go.
      Qed.
    End Control.

    Lemma HT_control n :
      (forall i le ll s, (X = true -> ar_if (g_funcs G) fuel n i = true) ->
                         HT s (if_condition G fuel RT n i le ll) TT) /\
      (forall b s, (X = true -> ar_loop (g_funcs G) fuel n b = true) ->
                   HT s (loop_statement G fuel RT n b) TT).
    Proof.
      induction n as [|n [IH1 IH2]]; split; intros; cbn [if_condition loop_statement];
        try apply HT_oof; destruct (R_control G fuel RT n) as [HR1 HR2].
      - apply (HT_if_condition_step _ _ (ar_if (g_funcs G) fuel n) (ar_loop (g_funcs G) fuel n));
          assumption.
      - apply (HT_loop_step _ _ (ar_if (g_funcs G) fuel n) (ar_loop (g_funcs G) fuel n));
          assumption.
    Qed.

    Lemma HT_fn_stmt returned st s :
      (X = true -> ar_fn_stmt (g_funcs G) fuel st = true) ->
      HT s (fn_stmt G fuel RT returned st) TT.
    Proof.
      pose proof (R_expression G fuel) as HRX. pose proof (R_let_binding G fuel) as HR1.
      pose proof (R_binding G fuel) as HR2. pose proof (R_call_stmt G fuel) as HR3.
      pose proof (R_check_type_exists G) as HR4.
      destruct (R_control G fuel RT fuel) as [HR5 HR6]. destruct (HT_control fuel) as [HI HL].
      pose proof HT_let_binding as H1. pose proof HT_binding as H2. pose proof HT_call_stmt as H3.
      intro Har. destruct st; cbn [fn_stmt ar_fn_stmt] in *; try solve [ht_go].
      (* the function-level return and the expression statement: the same code *)
      all: eapply HT_bind; [apply HRX | intro; r_go | apply HT_expression, Har |];
        intros r s1 Hg1 [F1 HQ];
        (apply HT_when_err_bind; [intro; r_go|]); intros _;
        (destruct r as [er|]; [|apply HT_ret; intros; exact I]);
        destruct (HQ er eq_refl) as [Her _];
        (apply HT_neut_bind; [apply HR4 | intro; r_go | apply NeutM_check_type_exists|]);
        intros ok s2 Hg2 (F2 & _ & _);
        (apply HT_when_err_bind; [intro; r_go|]); intro Et; apply Bool.negb_false_iff in Et;
        apply HT_gets_bind;
        (apply HT_bind with (Q1 := TT); [r_go | intro; r_go | | intros; apply HT_ret; intros; exact I]);
        destruct (head_mret (frames s2));
        [ apply (HT_emit_ret s2 _ er); [right; left; reflexivity | eapply OpOk_Frame; eassumption | exact Et]
        | apply (HT_emit_ret s2 _ er); [left; reflexivity | eapply OpOk_Frame; eassumption | exact Et] ].
    Qed.

    Lemma HT_fn_stmts : forall ss returned s,
      (X = true -> forallb (ar_fn_stmt (g_funcs G) fuel) ss = true) ->
      HT s (fn_stmts G fuel RT returned ss) TT.
    Proof.
      pose proof (R_fn_stmt G fuel RT) as HRS. pose proof (R_fn_stmts G fuel RT) as HRSS.
      induction ss as [|st ss IH]; intros returned s Har; cbn [fn_stmts]; [ht_go|].
      assert (Ha1 : X = true -> ar_fn_stmt (g_funcs G) fuel st = true).
      { intro HX. specialize (Har HX). cbn in Har. apply Bool.andb_true_iff in Har. apply Har. }
      assert (Ha2 : X = true -> forallb (ar_fn_stmt (g_funcs G) fuel) ss = true).
      { intro HX. specialize (Har HX). cbn in Har. apply Bool.andb_true_iff in Har. apply Har. }
      pose proof HT_fn_stmt as HS. ht_go.
    Qed.
  End Stmts.

  (** ** Parameters *)
  Definition PGood (s : bst) (ps : list (ident * ast_ty)) : Prop :=
    exists b, frames s = [b] /\ Inv_reg s /\ Mst s = Some ([], Vs s, ps) /\
              VInv [b] (Vs s) /\
              (forall x v, alookup x (b_values b) = Some v -> v_inner v = x).

  Lemma PGood_Good s : PGood s [] -> Good s.
  Proof.
    intros (b & Hf & Hreg & Hm & Hv & _).
    assert (ER : Rm s = []) by (unfold Rm; rewrite Hm; reflexivity).
    constructor.
    - rewrite Hf. discriminate.
    - exact Hreg.
    - rewrite ER. exact Hm.
    - rewrite ER. apply keys_le_nil.
    - rewrite Hf. exact Hv.
  Qed.

  Lemma init_Good : forall ps s a s',
    PGood s ps -> init_func_params ps s = Ok a s' -> errs s' = errs s -> Good s'.
  Proof.
    induction ps as [|[x t] ps IH]; intros s a s' HP H He; cbn [init_func_params] in H.
    - inversion H; subst. apply PGood_Good, HP.
    - destruct HP as (b & Hf & Hreg & Hm & Hv & Hkey).
      unfold bind at 1, lookup_value, gets in H. rewrite Hf in H. cbn [lookup_frames] in H.
      destruct (alookup (iname x) (b_values b)) as [v0|] eqn:El.
      { exfalso. apply add_error_eq in H as ->. cbn [errs st_error] in He.
        apply app_eq_self_nil in He. discriminate. }
      cbv zeta in H. set (val := Value (iname x) (sem_of_ty t) false) in *.
      apply bind_ok in H as (u1 & sa & E1 & H). apply insert_value_eq in E1 as ->.
      apply bind_ok in H as (u2 & sb & E2 & H). apply set_inner_name_eq in E2 as ->.
      apply bind_ok in H as (u3 & sc & E3 & H). apply emit_eq in E3 as ->.
      change (iname x) with (v_inner val) in H at 2.
      assert (Hne : frames s <> []) by (rewrite Hf; discriminate).
      destruct (declare_Pre s (iname x) val Hne Hreg) as (N2 & R2 & C2 & H2).
      set (s2 := st_inner (v_inner val) (st_value (iname x) val s)) in *.
      set (i := IFnArg val (iname x) (sem_of_ty t)) in *.
      destruct (st_emit_view i s2 N2) as (N3 & C3 & E3 & H3).
      refine (IH (st_emit i s2) a s' _ H He).
      assert (HM : Mst (st_emit i s2) = Some ([], (v_inner val, val) :: Vs s, ps)).
      { unfold Mst. rewrite C3, C2, run_from_snoc. fold (Mst s). rewrite Hm.
        cbn [step_i i val v_ty v_mut]. rewrite String.eqb_refl, !sem_ty_eqb_refl. reflexivity. }
      assert (EV : Vs (st_emit i s2) = (v_inner val, val) :: Vs s) by (unfold Vs; rewrite HM; reflexivity).
      exists (push_ctx i (add_inner (v_inner val) (set_value (iname x) val b))).
      split; [subst s2; unfold st_emit, st_inner, st_value; rewrite Hf; reflexivity|].
      split; [eapply step_Inv_reg; [apply (s_emit i s2); reflexivity | exact R2]|].
      split; [rewrite EV; exact HM|]. split.
      + rewrite EV.
        change [push_ctx i (add_inner (v_inner val) (set_value (iname x) val b))]
          with (map (push_ctx i) (map (add_inner (v_inner val)) [set_value (iname x) val b])).
        apply VInv_map; [reflexivity | trivial|]. apply VInv_declare; [exact Hv|].
        intros f y v [<-|[]] Hl Ev. rewrite (Hkey y v Hl) in Ev. cbn [val v_inner] in Ev. subst y.
        congruence.
      + intros y v Hl. cbn [push_ctx add_inner set_value b_values] in Hl.
        rewrite alookup_ainsert in Hl. destruct (String.eqb_spec y (iname x)) as [->|_].
        * inversion Hl; subst v. reflexivity.
        * apply Hkey, Hl.
  Qed.
End Fn.

(** ** One function body *)
Lemma PGood_init X G RT ps e : PGood X G RT ps (BSt [empty_block] e) ps.
Proof.
  exists empty_block. split; [reflexivity|]. split; [apply Inv_reg_init|].
  split; [reflexivity|]. split.
  - intros f x v [<-|[]] Hl. discriminate.
  - intros x v Hl. discriminate.
Qed.

Lemma function_body_typed X G f errs0 a s :
  GWf G -> (X = true -> ar_fn (g_funcs G) f = true) ->
  function_body G errs0 f = Ok a s -> errs s = errs0 ->
  Good X G (sem_of_ty (fn_result f)) (fn_params f) s.
Proof.
  intros HG Har H He. unfold function_body, function_body_m in H. cbv zeta in H.
  set (RT := sem_of_ty (fn_result f)) in *. set (ps := fn_params f) in *.
  apply bind_ok in H as (u & s1 & E1 & H).
  assert (R1 : reach (BSt [empty_block] errs0) s1) by (eapply R_init_func_params, E1).
  assert (R2 : reach s1 s).
  { revert H. match goal with |- ?m s1 = _ -> _ => assert (HR : R m) end.
    { pose proof (R_fn_stmts G (fuel_of f) RT). r_go. }
    apply HR. }
  destruct (errs_sandwich _ _ _ R1 R2 He) as [He1 He2]. cbn [errs] in He1.
  pose proof (init_Good X G RT ps ps _ _ _ (PGood_init X G RT ps errs0) E1 He1) as Hg1.
  revert H He2.
  assert (HT X G RT ps s1
             (returned <- fn_stmts G (fuel_of f) RT false (fn_body f) ;;
              when (negb returned) (add_error (Err EReturnNotFound (Some "") (iloc (fn_name f)))))
             (fun _ _ => True)) as HH.
  { eapply HT_bind; [apply R_fn_stmts | intro; r_go | apply (HT_fn_stmts X G HG RT ps); exact Har |].
    intros returned s2 _ _. destruct (negb returned); cbn [when].
    - apply HT_add_error.
    - apply HT_ret. trivial. }
  intros H He2. exact (proj1 (HH Hg1 a s H He2)).
Qed.

Lemma function_body_chk X G f errs0 a s root :
  GWf G -> (X = true -> ar_fn (g_funcs G) f = true) ->
  function_body G errs0 f = Ok a s -> errs s = errs0 -> frames s = [root] ->
  chk_fn_x X G f root = true.
Proof.
  intros HG Har H He Hf.
  pose proof (function_body_typed X G f errs0 a s HG Har H He) as Hg.
  pose proof (g_mst _ _ _ _ _ Hg) as Hm. unfold Mst, Ctx in Hm. rewrite Hf in Hm.
  unfold chk_fn_x. change (b_ctx (root_of [root])) with (b_ctx root) in Hm. rewrite Hm. reflexivity.
Qed.

(** ** All bodies *)
Lemma function_body_errs' G errs0 f a s :
  function_body G errs0 f = Ok a s -> exists e, errs s = errs0 ++ e.
Proof. intro H. apply (SimExpr.reach_errs _ _ (function_body_reach G errs0 f a s H)). Qed.

Lemma bodies_typed X G : GWf G -> forall fs errs0 roots errs1 roots1,
  (X = true -> forallb (ar_fn (g_funcs G)) fs = true) ->
  bodies G errs0 roots fs = inr (errs1, roots1) ->
  (exists e, errs1 = errs0 ++ e) /\
  (errs1 = errs0 -> exists new, roots1 = roots ++ new /\ chk_fns_x X G fs new = true).
Proof.
  intro HG. induction fs as [|f fs IH]; intros errs0 roots errs1 roots1 Har H; cbn [bodies] in H.
  - inversion H; subst. split; [exists []; rewrite app_nil_r; reflexivity|].
    intros _. exists []. rewrite app_nil_r. split; reflexivity.
  - destruct (function_body G errs0 f) as [a s| |] eqn:E; try discriminate.
    destruct (frames s) as [|root [|]] eqn:Ef; try discriminate.
    assert (Ha1 : X = true -> ar_fn (g_funcs G) f = true).
    { intro HX. specialize (Har HX). cbn in Har. apply Bool.andb_true_iff in Har. apply Har. }
    assert (Ha2 : X = true -> forallb (ar_fn (g_funcs G)) fs = true).
    { intro HX. specialize (Har HX). cbn in Har. apply Bool.andb_true_iff in Har. apply Har. }
    destruct (IH _ _ _ _ Ha2 H) as [[e2 E2] HF].
    destruct (function_body_errs' _ _ _ _ _ E) as [e1 E1].
    split; [exists (e1 ++ e2); rewrite E2, E1, app_assoc; reflexivity|].
    intro Hq.
    assert (He : e1 = [] /\ e2 = []).
    { rewrite E2, E1, <- app_assoc in Hq. apply app_eq_self_nil, app_eq_nil in Hq. exact Hq. }
    destruct He as [-> ->]. rewrite app_nil_r in E1, E2.
    destruct (HF E2) as (new & Hr & Hc). exists (root :: new).
    split; [rewrite Hr, <- app_assoc; reflexivity|].
    cbn [chk_fns_x]. rewrite Hc, (function_body_chk X G f errs0 a s root HG Ha1 E E1 Ef). reflexivity.
Qed.

Lemma run_typed_x X p out :
  (X = true -> wf_b p = true) ->
  run p = ROk out -> o_errors out = [] ->
  chk_fns_x X (o_globals out) (functions_of p) (o_fns out) = true.
Proof.
  intros Hwf H Hacc. unfold run in H.
  destruct (bodies (gs_globals (declarations p)) (gs_errs (declarations p)) [] (functions_of p))
    as [r|[errors roots]] eqn:E; [exfalso; eapply DefUse.bodies_inl_not_ok; eauto|].
  inversion H; subst; clear H. cbn [o_errors o_globals o_fns] in *. subst errors.
  destruct (bodies_typed X _ (declarations_GWf p) _ _ _ _ _
              (fun HX => wf_arity p (Hwf HX)) E) as [[e He] HF].
  symmetry in He. apply app_eq_nil in He as [He0 _].
  destruct (HF (eq_sym He0)) as (new & Hr & Hc). cbn [app] in Hr. subst new. exact Hc.
Qed.

(** C04 without [wf_b]: everything but exact arities (finding F2) *)
Theorem run_stack_well_typed_weak : forall p out,
  run p = ROk out -> o_errors out = [] -> chk_C04_weak p out = true.
Proof.
  intros p out H Hacc. unfold chk_C04_weak. rewrite Hacc.
  apply (run_typed_x false); [discriminate | exact H | exact Hacc].
Qed.

(** C04 *)
Theorem run_stack_well_typed : forall p out,
  run p = ROk out -> o_errors out = [] -> wf_b p = true -> chk_C04 p out = true.
Proof.
  intros p out H Hacc Hwf. unfold chk_C04. rewrite Hacc, <- chk_fns_x_true.
  apply (run_typed_x true); [intros _; exact Hwf | exact H | exact Hacc].
Qed.

Print Assumptions run_stack_well_typed_weak.
Print Assumptions run_stack_well_typed.
