(** C07, the last sentence: "the emitted operations, read as a tree through their register
    operands, are exactly that tree".

    On accepted programs the output of the model passes the monitor of [Mon/C07.v]:

      [run_emitted_tree_is_bracket] : run p = ROk out -> o_errors out = [] -> chk_C07 p out = true

    Skeleton of [Proofs/Denote.v] (the end-anchored logic [HT] of [DenoteLogic.v]) with the tree
    type of the monitor and WITHOUT flattening:
    - [let_trees] as a fold ([tupd], [tsite], [tfrom]); stability of the tree of an old register;
    - the reference tree without fuel ([RefT]); brackets made by the priority fold are the nodes
      of [bracket] ([RefT_embed], [RefT_fold]);
    - the expression level ([B_expression]): the operand of an accepted expression denotes
      exactly the reference tree of the source chain;
    - statements, control, function body, driver. *)
From Coq Require Import Lia.
From SA Require Import Model.
From SA.Spec Require Import Stack Bracket.
From SA.Mon Require Import C07.
From SA.Proofs Require Import Reach InvReg Trace InvNames DefUse Fold InvTree DenoteLogic.
Local Open Scope list_scope.

Ltac unwrap := repeat match goal with |- Grow _ _ -> _ => intros _ end.

(** ** The monitor's scan as a fold *)
Definition tenv := list (N * ttree).

Definition tupd (env : tenv) (i : instr) : tenv :=
  match i with
  | IExt tag r => (r, TLeaf tag) :: env
  | IExprOp o l r reg =>
      match operand_tree l env, operand_tree r env with
      | Some a, Some b => (reg, TNode a o b) :: env
      | _, _ => env
      end
  | _ => env
  end.

Definition tsite (env : tenv) (i : instr) : list (option ttree) :=
  match i with ILet _ e => [operand_tree e env] | _ => [] end.

Lemma let_trees_cons env i c : let_trees (i :: c) env = tsite env i ++ let_trees c (tupd env i).
Proof.
  destruct i; try reflexivity. cbn [let_trees tupd tsite app].
  destruct (operand_tree l env); [|reflexivity]. destruct (operand_tree r env); reflexivity.
Qed.

Definition tfrom (env : tenv) (c : list instr) : tenv := fold_left tupd c env.

Lemma tfrom_app env c1 c2 : tfrom env (c1 ++ c2) = tfrom (tfrom env c1) c2.
Proof. apply fold_left_app. Qed.

Lemma let_trees_app : forall c1 env c2,
  let_trees (c1 ++ c2) env = let_trees c1 env ++ let_trees c2 (tfrom env c1).
Proof.
  induction c1 as [|i c1 IH]; intros env c2; [reflexivity|].
  cbn [app]. rewrite !let_trees_cons, IH, app_assoc. reflexivity.
Qed.

Lemma let_trees_one env i : let_trees [i] env = tsite env i.
Proof. rewrite let_trees_cons. cbn. apply app_nil_r. Qed.

(** code without [ILet] *)
Definition nolet (c : list instr) : Prop := Forall (fun i => forall env, tsite env i = []) c.

Lemma nolet_trees : forall c env, nolet c -> let_trees c env = [].
Proof.
  induction c as [|i c IH]; intros env H; [reflexivity|]. inversion H as [|? ? Hi Hc]; subst.
  rewrite let_trees_cons, Hi, IH by exact Hc. reflexivity.
Qed.

Lemma nolet_app a b : nolet (a ++ b) <-> nolet a /\ nolet b.
Proof. apply Forall_app. Qed.
Lemma nolet_nil : nolet [].
Proof. constructor. Qed.
Lemma nolet_one i : (forall env, tsite env i = []) -> nolet [i].
Proof. intro H. constructor; [exact H | constructor]. Qed.

(** ** Stability *)
Lemma tupd_lookup n env i : def_reg i <> Some n -> env_lookup n (tupd env i) = env_lookup n env.
Proof.
  destruct i; cbn [tupd def_reg]; intro H; try reflexivity.
  - destruct (operand_tree l env); [|reflexivity]. destruct (operand_tree r env); [|reflexivity].
    cbn [env_lookup]. destruct (N.eqb_spec n reg); [subst; congruence | reflexivity].
  - cbn [env_lookup]. destruct (N.eqb_spec n reg); [subst; congruence | reflexivity].
Qed.

Lemma defs_cons i c : defs (i :: c) = match def_reg i with Some r => [r] | None => [] end ++ defs c.
Proof. reflexivity. Qed.

Lemma tfrom_lookup n : forall c env,
  Forall (fun r => r <> n) (defs c) -> env_lookup n (tfrom env c) = env_lookup n env.
Proof.
  induction c as [|i c IH]; intros env H; [reflexivity|].
  rewrite defs_cons in H. apply Forall_app in H as [H1 H2].
  cbn [tfrom fold_left]. fold (tfrom (tupd env i) c). rewrite IH by exact H2.
  apply tupd_lookup. destruct (def_reg i) as [r|]; [|discriminate].
  inversion H1; subst. congruence.
Qed.

Definition RegLe (h : N) (e : eres) : Prop := Forall (fun n => n <= h) (eres_reg e).

Lemma RegLe_mono h h' e : h <= h' -> RegLe h e -> RegLe h' e.
Proof. intros Hle H. eapply Forall_impl; [|exact H]. cbn. intros; lia. Qed.
Lemma RegLe_reg h t n : n <= h -> RegLe h (ERes t (RReg n)).
Proof. intro H. constructor; [exact H | constructor]. Qed.
Lemma RegLe_prim h t p : RegLe h (ERes t (RPrim p)).
Proof. constructor. Qed.

Lemma operand_tree_stable lo hi c env e :
  DefsIn lo hi c -> RegLe lo e -> operand_tree e (tfrom env c) = operand_tree e env.
Proof.
  intros Hd He. unfold operand_tree, RegLe, eres_reg in *. destruct (r_val e) as [n|p]; [|reflexivity].
  inversion He as [|? ? Hn _]; subst. apply tfrom_lookup.
  eapply Forall_impl; [|exact Hd]. cbn. intros r Hr. lia.
Qed.

(** ** The root view *)
Definition TEnv (s : bst) : tenv := tfrom [] (Ctx s).

Lemma TEnv_app s s' c : Ctx s' = Ctx s ++ c -> TEnv s' = tfrom (TEnv s) c.
Proof. intro H. unfold TEnv. rewrite H. apply tfrom_app. Qed.

Lemma TEnv_same s s' : Ctx s' = Ctx s -> TEnv s' = TEnv s.
Proof. intro H. unfold TEnv. rewrite H. reflexivity. Qed.

(** ** The reference tree, without fuel *)
Inductive RefT : tree -> ttree -> Prop :=
| RefExt ty tag : RefT (Leaf (EVExt ty tag)) (TLeaf tag)
| RefSub v rest t : RefT (bracket v rest) t -> RefT (Leaf (EVSub (Expr v rest))) t
| RefNode l o r a b : RefT l a -> RefT r b -> RefT (Node l o r) (TNode a o b).

Lemma ref_tree_of_RefT : forall fuel t tt, ref_tree_of fuel t = Some tt -> RefT t tt.
Proof.
  induction fuel as [|f IH]; intros t tt H; cbn [ref_tree_of] in H; [discriminate|].
  destruct t as [v|l o r].
  - destruct v as [x|p|g args|x a|e|ty tag]; try discriminate.
    + destruct e as [v rest]. constructor. apply IH, H.
    + inversion H; subst. constructor.
  - destruct (ref_tree_of f l) as [a|] eqn:El; [|discriminate].
    destruct (ref_tree_of f r) as [b|] eqn:Er; [|discriminate].
    inversion H; subst. constructor; apply IH; assumption.
Qed.

Definition bracket_of (e : expr) : tree := match e with Expr v rest => bracket v rest end.

Lemma ref_of_expr_RefT e t : ref_of_expr e = Some t -> RefT (bracket_of e) t.
Proof. destruct e as [v rest]. unfold ref_of_expr. apply ref_tree_of_RefT. Qed.

Lemma bracket_nil v : bracket v [] = Leaf v.
Proof. reflexivity. Qed.
Lemma bracket_one v o v2 : bracket v [(o, v2)] = Node (Leaf v) o (Leaf v2).
Proof. reflexivity. Qed.

(** a bracket made by the fold, read as a unit, is the node it was made from *)
Lemma RefT_embed T t : RefT T t -> RefT (Leaf (embed T)) t.
Proof.
  induction 1 as [ty tag|v rest t H IH|l o r a b Hl IHl Hr IHr]; cbn [embed].
  - constructor.
  - constructor. exact H.
  - constructor. rewrite bracket_one. constructor; assumption.
Qed.

Lemma RefT_fold e t :
  RefT (bracket_of e) t ->
  RefT (bracket_of (fold_priority e)) t /\
  (match fold_priority e with Expr _ rest' => length rest' <= 1 end)%nat.
Proof.
  destruct e as [v rest]. intro H. destruct (Nat.leb 2 (length rest)) eqn:El.
  - apply Nat.leb_le in El. rewrite fold_priority_is_bracket by exact El.
    cbn [bracket_of length]. rewrite bracket_nil. split; [apply RefT_embed, H | lia].
  - apply Nat.leb_gt in El. rewrite fold_priority_short by exact El. split; [exact H | lia].
Qed.

(** the tree of a left-to-right walk over links whose operands are units *)
Fixpoint chainT (a : ttree) (rest : links) (t : ttree) : Prop :=
  match rest with
  | [] => t = a
  | (o, v) :: rest' => exists b, RefT (Leaf v) b /\ chainT (TNode a o b) rest' t
  end.

Lemma RefT_short v rest t :
  (length rest <= 1)%nat -> RefT (bracket v rest) t -> exists a, RefT (Leaf v) a /\ chainT a rest t.
Proof.
  intros Hl H. destruct rest as [|[o v2] [|x rest]]; cbn [length] in Hl; [| |lia].
  - rewrite bracket_nil in H. exists t. split; [exact H | reflexivity].
  - rewrite bracket_one in H. inversion H as [| |l o' r a b Ha Hb]; subst.
    exists a. split; [exact Ha|]. exists b. split; [exact Hb | reflexivity].
Qed.

(** ** The expression level *)
Section Walk.
  Variable Cf : list instr.
  Variable G : globals.

  (** what an expression-like computation owes: on an accepted run it yields an operand that
      names an old register, pushes no [ILet], and for every reference tree of [T] the operand
      denotes exactly that tree in the environment of the monitor *)
  Definition BP (s : bst) (T : tree) (r : option eres) (s' : bst) : Prop :=
    exists er c, r = Some er /\ Ctx s' = Ctx s ++ c /\ nolet c /\ RegLe (hr s') er /\
      forall t, RefT T t -> operand_tree er (TEnv s') = Some t.

  Lemma B_leaf s mk ty T :
    (forall n, def_reg (mk n) = Some n) -> (forall env n, tsite env (mk n) = []) ->
    (forall t n env, RefT T t -> tupd env (mk n) = (n, t) :: env) ->
    HT Cf s (r <- alloc_emit mk ;; ret (Some (ERes ty (RReg r)))) (BP s T).
  Proof.
    intros Hd Hs Hu. eapply HT_bind; [apply HT_alloc, Hd|]. intros r s1 W1 G1 H1.
    apply HT_ret. intros F. unwrap. fin_all. destruct H1 as (Er & Hh & C1 & V1).
    exists (ERes ty (RReg r)), [mk r].
    split; [reflexivity|]. split; [exact C1|]. split; [apply nolet_one; intro; apply Hs|].
    split; [apply RegLe_reg; lia|].
    intros t Ht. rewrite (TEnv_app s s1 _ C1). cbn [tfrom fold_left]. rewrite (Hu t r _ Ht).
    unfold operand_tree. cbn [r_val env_lookup]. rewrite N.eqb_refl. reflexivity.
  Qed.

  Section Expr.
    Variable E : expr -> M (option eres).
    Hypothesis HE : forall e s, HT Cf s (E e) (BP s (bracket_of e)).

    Lemma B_call_args callee params : forall args i acc s,
      HT Cf s (call_args E callee params i args acc)
         (fun r s' => exists ps c, r = Some ps /\ Ctx s' = Ctx s ++ c /\ nolet c).
    Proof.
      induction args as [|a args IH]; intros i acc s; cbn [call_args].
      - apply HT_ret. intros _. exists acc, []. rewrite app_nil_r.
        split; [reflexivity|]. split; [reflexivity | apply nolet_nil].
      - eapply HT_bind; [apply HE|]. intros r s1 W1 G1 H1.
        destruct r as [er|].
        2: { apply HT_ret. intros F. unwrap. fin_all.
             destruct H1 as (er & c & Hr & _). discriminate. }
        assert (Hgo : forall acc', HT Cf s1 (call_args E callee params (S i) args acc')
                  (fun r s' => Grow s1 s' -> exists ps c, r = Some ps /\ Ctx s' = Ctx s ++ c /\ nolet c)).
        { intro acc'. eapply HT_conseq; [apply IH|]. intros ps s' W' G' F' HQ. unwrap. fin_all.
          destruct H1 as (er0 & c1 & _ & C1 & N1 & _).
          destruct HQ as (ps' & c2 & Hps & C2 & N2).
          exists ps', (c1 ++ c2). split; [exact Hps|].
          split; [rewrite C2, C1, app_assoc; reflexivity|]. apply nolet_app. split; assumption. }
        assert (Herr : forall e0 Q,
                   HT Cf s1 (add_error e0 ;;; call_args E callee params (S i) args acc) Q).
        { intros. apply HT_error_then. intro s2. eapply HT_weaken, IH. }
        destruct (nth_error params i) as [pt|]; [|apply Herr].
        destruct (sem_ty_eqb pt (r_ty er)); [|apply Herr].
        apply Hgo.
    Qed.

    Lemma B_function_call f args s :
      HT Cf s (function_call G E f args)
         (fun r s' => exists ty c, r = Some ty /\ Ctx s' = Ctx s ++ c /\ nolet c).
    Proof.
      unfold function_call. destruct (alookup (iname f) (g_funcs G)) as [fd|] eqn:Efd;
        [|apply HT_error_ret].
      eapply HT_bind; [apply B_call_args|]. intros ps s1 W1 G1 H1.
      destruct ps as [params|].
      2: { apply HT_ret. intros F. unwrap. fin_all.
           destruct H1 as (ps & c & Hr & _). discriminate. }
      eapply HT_bind; [apply HT_alloc; intro; reflexivity|]. intros r s2 W2 G2 H2.
      apply HT_ret. intros F. unwrap. fin_all.
      destruct H1 as (ps & c & _ & C1 & N1). destruct H2 as (Er & Hh & C2 & V2).
      exists (f_ty fd), (c ++ [ICall fd params r]). split; [reflexivity|].
      split; [rewrite C2, C1, app_assoc; reflexivity|].
      apply nolet_app. split; [exact N1 | apply nolet_one; reflexivity].
    Qed.

    Lemma B_expr_value v s : HT Cf s (expr_value G E v) (BP s (Leaf v)).
    Proof.
      destruct v as [x|p|f args|x a|e|t tag]; cbn [expr_value].
      - apply HT_lookup_bind. destruct (lookup_frames _ _) as [val|] eqn:El.
        + apply B_leaf; try reflexivity. intros t n env Ht. inversion Ht.
        + destruct (alookup _ _) as [c|] eqn:Ec.
          * apply B_leaf; try reflexivity. intros t n env Ht. inversion Ht.
          * eapply HT_bind; [apply HT_bump|]. intros. apply HT_error_ret.
      - apply HT_ret. intros _. exists (ERes (SPrim (pv_ty p)) (RPrim p)), [].
        rewrite app_nil_r. split; [reflexivity|]. split; [reflexivity|]. split; [apply nolet_nil|].
        split; [apply RegLe_prim|]. intros t Ht. inversion Ht.
      - eapply HT_bind; [apply B_function_call|]. intros t s1 W1 G1 H1.
        destruct t as [ty|].
        2: { apply HT_ret. intros F. unwrap. fin_all.
             destruct H1 as (ty & c & Hr & _). discriminate. }
        eapply HT_bind; [apply HT_bump|]. intros r s2 W2 G2 H2.
        apply HT_ret. intros F. unwrap. fin_all.
        destruct H1 as (ty0 & c & _ & C1 & N1). destruct H2 as (Er & Hh & C2 & V2).
        exists (ERes ty (RReg r)), c. split; [reflexivity|].
        split; [rewrite C2; exact C1|]. split; [exact N1|].
        split; [apply RegLe_reg; lia|]. intros t Ht. inversion Ht.
      - apply HT_lookup_bind. destruct (lookup_frames _ _) as [val|] eqn:El; [|apply HT_error_ret].
        destruct (v_ty val) as [pt|sn attrs|at_ an] eqn:Ety; try apply HT_error_ret.
        eapply HT_bind; [apply HT_check_type_exists|]. intros ok s1 W1 G1 H1.
        destruct ok; cbn [negb].
        2: { apply HT_ret. intros F. unwrap. fin_all. destruct H1 as [H1 _]. discriminate. }
        destruct (alookup _ _) as [declared|] eqn:Eal.
        2: { apply HT_ret. intros F. unwrap. fin_all. destruct H1 as (_ & _ & [H1|H1]);
             [discriminate|]. unfold amem in H1. rewrite Eal in H1. discriminate. }
        destruct (negb _); [apply HT_error_ret|].
        destruct (attr_lookup _ _) as [[idx aty]|] eqn:Eat; [|apply HT_error_ret].
        eapply HT_bind; [apply HT_alloc; intro; reflexivity|]. intros r s2 W2 G2 H2.
        eapply HT_bind; [apply HT_bump|]. intros r' s3 W3 G3 H3.
        apply HT_ret. intros F. unwrap. fin_all.
        destruct H1 as (_ & -> & _). destruct H2 as (Er & Hh2 & C2 & V2).
        destruct H3 as (Er' & Hh3 & C3 & V3).
        exists (ERes aty (RReg r')), [IExprStruct val idx r]. split; [reflexivity|].
        split; [rewrite C3; exact C2|]. split; [apply nolet_one; reflexivity|].
        split; [apply RegLe_reg; lia|]. intros t Ht. inversion Ht.
      - eapply HT_conseq; [apply HE|]. intros r s' _ _ _ (er & c & Hr & C & Nl & R & T).
        exists er, c. split; [exact Hr|]. split; [exact C|]. split; [exact Nl|]. split; [exact R|].
        intros t0 Ht. apply T. destruct e as [v rest]. inversion Ht; subst. assumption.
      - apply B_leaf; try reflexivity. intros t0 n env Ht. inversion Ht; subst. reflexivity.
    Qed.

    Lemma B_expr_chain : forall rest left s,
      HT Cf s (expr_chain G E left rest)
         (fun r s' => RegLe (hr s) left ->
            exists er c, r = Some er /\ Ctx s' = Ctx s ++ c /\ nolet c /\ RegLe (hr s') er /\
              forall a t, operand_tree left (TEnv s) = Some a -> chainT a rest t ->
                          operand_tree er (TEnv s') = Some t).
    Proof.
      induction rest as [|[op v] rest IH]; intros left s; cbn [expr_chain].
      - apply HT_ret. intros _ Hl. exists left, []. rewrite app_nil_r.
        split; [reflexivity|]. split; [reflexivity|]. split; [apply nolet_nil|]. split; [exact Hl|].
        intros a t Ha Ht. cbn [chainT] in Ht. subst t. exact Ha.
      - eapply HT_bind; [apply B_expr_value|]. intros rv s1 W1 G1 H1.
        destruct rv as [rgt|].
        2: { apply HT_ret. intros F. unwrap. fin_all. intros _.
             destruct H1 as (er & c & Hr & _). discriminate. }
        destruct (negb _); [apply HT_error_ret|].
        eapply HT_bind; [apply HT_alloc; intro; reflexivity|]. intros r s2 W2 G2 H2.
        eapply HT_conseq; [apply IH|]. intros er s' W' G' F' HQ. unwrap. fin_all.
        intros Hl.
        destruct H1 as (er0 & c1 & Hr & C1 & N1 & R1 & T1).
        inversion Hr; subst er0. destruct H2 as (Er & Hh & C2 & V2).
        pose proof (Grow_defs _ _ _ G1 C1) as Hd1.
        destruct HQ as (er' & c3 & Her & C3 & N3 & R3 & T3); [apply RegLe_reg; lia|].
        exists er', (c1 ++ [IExprOp op left rgt r] ++ c3). split; [exact Her|].
        split; [rewrite C3, C2, C1, <- !app_assoc; reflexivity|].
        split; [apply nolet_app; split; [exact N1|]; apply nolet_app; split;
                [apply nolet_one; reflexivity | exact N3]|].
        split; [exact R3|].
        intros a t Ha Ht. cbn [chainT] in Ht. destruct Ht as (b & Hb & Ht).
        apply (T3 (TNode a op b) t); [|exact Ht].
        assert (Ha1 : operand_tree left (TEnv s1) = Some a).
        { rewrite (TEnv_app s s1 c1 C1).
          rewrite (operand_tree_stable (hr s) (hr s1) c1 (TEnv s) left Hd1 Hl). exact Ha. }
        rewrite (TEnv_app s1 s2 _ C2). cbn [tfrom fold_left tupd].
        rewrite Ha1, (T1 b Hb). unfold operand_tree. cbn [r_val env_lookup].
        rewrite N.eqb_refl. reflexivity.
    Qed.

    Lemma B_expression_body e s : HT Cf s (expression_body G E e) (BP s (bracket_of e)).
    Proof.
      unfold expression_body.
      pose proof (fun t => RefT_fold e t) as Hfold.
      destruct (fold_priority e) as [v rest].
      eapply HT_bind; [apply B_expr_value|]. intros rv s1 W1 G1 H1.
      destruct rv as [first|].
      2: { apply HT_ret. intros F. unwrap. fin_all.
           destruct H1 as (er & c & Hr & _). discriminate. }
      eapply HT_conseq; [apply B_expr_chain|]. intros er s' W' G' F' HQ. unwrap. fin_all.
      destruct H1 as (er0 & c1 & Hr & C1 & N1 & R1 & T1). inversion Hr; subst er0.
      destruct (HQ R1) as (er' & c2 & Her & C2 & N2 & R2 & T2).
      exists er', (c1 ++ c2). split; [exact Her|].
      split; [rewrite C2, C1, app_assoc; reflexivity|].
      split; [apply nolet_app; split; assumption|]. split; [exact R2|].
      intros t Ht. destruct (Hfold t Ht) as [Ht' Hlen]. cbn [bracket_of] in Ht'.
      destruct (RefT_short v rest t Hlen Ht') as (a & Ha & Hc).
      apply (T2 a t); [apply T1, Ha | exact Hc].
    Qed.
  End Expr.

  Lemma B_expression fuel : forall e s, HT Cf s (expression G fuel e) (BP s (bracket_of e)).
  Proof.
    induction fuel as [|f IH]; intros e s; cbn [expression]; [apply HT_oof|].
    apply B_expression_body. exact IH.
  Qed.
End Walk.

(** ** Statements: the lets of a pushed suffix *)
Definition LetOk (e : expr) (g : option ttree) : Prop :=
  forall t, ref_of_expr e = Some t -> g = Some t.

Definition ST (es : list expr) (s s' : bst) : Prop :=
  exists c, Ctx s' = Ctx s ++ c /\ Forall2 LetOk es (let_trees c (TEnv s)).

Lemma ST_trans es1 es2 s s1 s2 : ST es1 s s1 -> ST es2 s1 s2 -> ST (es1 ++ es2) s s2.
Proof.
  intros (c1 & C1 & H1) (c2 & C2 & H2). exists (c1 ++ c2).
  split; [rewrite C2, C1, app_assoc; reflexivity|].
  rewrite let_trees_app. apply Forall2_app; [exact H1|]. rewrite <- (TEnv_app s s1 c1 C1). exact H2.
Qed.

Lemma ST_nolet s s' c : Ctx s' = Ctx s ++ c -> nolet c -> ST [] s s'.
Proof. intros C Hn. exists c. split; [exact C|]. rewrite nolet_trees by exact Hn. constructor. Qed.

Lemma ST_neutral s s' : Ctx s' = Ctx s -> ST [] s s'.
Proof. intro C. apply (ST_nolet s s' []); [rewrite app_nil_r; exact C | apply nolet_nil]. Qed.

Lemma ST_nil_inv s s' : ST [] s s' -> exists c, Ctx s' = Ctx s ++ c /\ let_trees c (TEnv s) = [].
Proof. intros (c & C & H). exists c. split; [exact C|]. inversion H. reflexivity. Qed.

(** ** The source side: the nested fixpoints of [lets_of_stmt], named *)
Definition lets_body (ss : list stmt) : list expr := flat_map lets_of_stmt ss.
Definition body_of (b : ifbody) : list stmt := match b with IBIf ss | IBLoop ss => ss end.

Lemma lets_go_eq ss :
  (fix go (l : list stmt) : list expr :=
     match l with [] => [] | x :: l' => lets_of_stmt x ++ go l' end) ss = lets_body ss.
Proof. induction ss as [|x ss IH]; [reflexivity|]. cbn [lets_body flat_map]. rewrite IH. reflexivity. Qed.

Lemma lets_loop body : lets_of_stmt (SLoop body) = lets_body body.
Proof. apply lets_go_eq. Qed.

Lemma lets_ifbody b : lets_of_ifbody b = lets_body (body_of b).
Proof. destruct b as [ss|ss]; apply lets_go_eq. Qed.

Lemma lets_if c body els elif :
  lets_of_if (IfS c body els elif) =
  lets_body (body_of body) ++
  match els with Some b => lets_body (body_of b) | None => [] end ++
  match elif with Some i' => lets_of_if i' | None => [] end.
Proof.
  change (lets_of_if (IfS c body els elif)) with
    (lets_of_ifbody body ++ match els with Some b => lets_of_ifbody b | None => [] end ++
     match elif with Some i' => lets_of_if i' | None => [] end).
  rewrite lets_ifbody. destruct els as [b|]; [rewrite lets_ifbody|]; reflexivity.
Qed.

Section Stmt.
  Variable Cf : list instr.
  Variable G : globals.

  Notation STT es s m := (HT Cf s m (fun _ s' => ST es s s')).
  Notation NL s m := (HT Cf s m (fun _ s' => ST [] s s')).

  Lemma STT_bind es1 es2 {A B} s (m : M A) (f : A -> M B) :
    STT es1 s m -> (forall a s1, STT es2 s1 (f a)) -> STT (es1 ++ es2) s (bind m f).
  Proof.
    intros Hm Hf. eapply HT_bind; [exact Hm|]. intros a s1 W1 G1 H1.
    eapply HT_conseq; [apply Hf|]. intros b s' W' G' F' HQ _. fin_all.
    eapply ST_trans; eassumption.
  Qed.

  Lemma STT_conv es' es {A} s (m : M A) : STT es' s m -> es' = es -> STT es s m.
  Proof. intros H <-. exact H. Qed.

  Lemma NL_bind {A B} s (m : M A) (f : A -> M B) :
    NL s m -> (forall a s1, NL s1 (f a)) -> NL s (bind m f).
  Proof. intros Hm Hf. apply (STT_bind [] [] s m f Hm Hf). Qed.

  Lemma NL_ret {A} s (a : A) : NL s (ret a).
  Proof. apply HT_ret. intros _. apply ST_neutral. reflexivity. Qed.

  Lemma NL_same {A} s (m : M A) : HT Cf s m (fun _ s' => Same s s') -> NL s m.
  Proof.
    intro H. eapply HT_conseq; [exact H|]. intros a s' _ _ _ (_ & C & _). apply ST_neutral, C.
  Qed.

  Lemma NL_emit s i : def_reg i = None -> (forall env, tsite env i = []) -> NL s (emit i).
  Proof.
    intros Hd Hs. eapply HT_conseq; [apply HT_emit, Hd|]. intros a s' _ _ _ (_ & C & _).
    apply (ST_nolet s s' [i] C). apply nolet_one, Hs.
  Qed.
  Lemma NL_emit_kid s n i : def_reg i = None -> (forall env, tsite env i = []) -> NL s (emit_kid n i).
  Proof.
    intros Hd Hs. eapply HT_conseq; [apply HT_emit_kid, Hd|]. intros a s' _ _ _ (_ & C & _).
    apply (ST_nolet s s' [i] C). apply nolet_one, Hs.
  Qed.
  Lemma NL_alloc s mk :
    (forall n, def_reg (mk n) = Some n) -> (forall env n, tsite env (mk n) = []) -> NL s (alloc_emit mk).
  Proof.
    intros Hd Hs. eapply HT_conseq; [apply HT_alloc, Hd|]. intros r s' _ _ _ (_ & _ & C & _).
    apply (ST_nolet s s' [mk r] C). apply nolet_one. intro. apply Hs.
  Qed.
  Lemma NL_push s : NL s push_child.
  Proof. eapply HT_conseq; [apply HT_push_child|]. intros a s' _ _ _ (_ & C & _). apply ST_neutral, C. Qed.
  Lemma NL_pop s : NL s pop_child.
  Proof. eapply HT_conseq; [apply HT_pop_child|]. intros a s' _ _ _ (_ & C & _). apply ST_neutral, C. Qed.
  Lemma NL_gen_label s base : NL s (gen_label base).
  Proof. apply NL_same, HT_gen_label. Qed.
  Lemma NL_set_return s : NL s set_return.
  Proof. apply NL_same, HT_set_return. Qed.
  Lemma NL_set_inner_name s n : NL s (set_inner_name n).
  Proof. apply NL_same, HT_set_inner_name. Qed.
  Lemma NL_insert_value s x v : NL s (insert_value x v).
  Proof. eapply HT_conseq; [apply HT_insert_value|]. intros a s' _ _ _ (_ & C & _). apply ST_neutral, C. Qed.
  Lemma NL_when s c m : NL s m -> NL s (when c m).
  Proof. intro H. destruct c; [exact H | apply NL_ret]. Qed.
  Lemma NL_gets_bind {A B} s (g : list block -> A) (f : A -> M B) :
    NL s (f (g (frames s))) -> NL s (bind (gets g) f).
  Proof. apply HT_gets_bind. Qed.
  Lemma STT_gets_bind es {A B} s (g : list block -> A) (f : A -> M B) :
    STT es s (f (g (frames s))) -> STT es s (bind (gets g) f).
  Proof. apply HT_gets_bind. Qed.
  Lemma NL_gets {A} s (g : list block -> A) : NL s (gets g).
  Proof. apply HT_gets. intros _. apply ST_neutral. reflexivity. Qed.
  Lemma NL_error s e : NL s (add_error e).
  Proof. apply HT_error. Qed.
  Lemma NL_bump s : NL s bump.
  Proof. eapply HT_conseq; [apply HT_bump|]. intros a s' _ _ _ (_ & _ & C & _). apply ST_neutral, C. Qed.
  Lemma NL_check_type_exists s t v l : NL s (check_type_exists G t v l).
  Proof.
    eapply HT_conseq; [apply HT_check_type_exists|]. intros a s' _ _ _ (_ & -> & _).
    apply ST_neutral. reflexivity.
  Qed.
  Lemma NL_next_inner_name s fuel n : NL s (next_inner_name fuel n).
  Proof.
    eapply HT_conseq; [apply HT_next_inner_name|]. intros a s' _ _ _ (-> & _).
    apply ST_neutral. reflexivity.
  Qed.

  Ltac nl_go :=
    repeat first
      [ apply NL_ret
      | apply HT_panic | apply HT_oof | apply NL_error
      | match goal with H : _ |- HT _ _ _ _ => solve [apply H] end
      | apply NL_emit; [reflexivity | reflexivity]
      | apply NL_emit_kid; [reflexivity | reflexivity]
      | apply NL_alloc; [intro; reflexivity | intros; reflexivity]
      | apply NL_gen_label | apply NL_push | apply NL_pop | apply NL_set_return | apply NL_bump
      | apply NL_check_type_exists
      | apply NL_when
      | apply NL_gets_bind | apply NL_gets
      | apply NL_bind; [| intros ? ?]
      | match goal with |- HT _ _ (match ?x with _ => _ end) _ => destruct x end
      | progress cbv zeta ].

  Section Stmts.
    Variable fuel : nat.
    Variable RT : sem_ty.

    Lemma NL_expression e s : NL s (expression G fuel e).
    Proof.
      eapply HT_conseq; [apply B_expression|]. intros r s' _ _ _ (er & c & _ & C & Hn & _).
      apply (ST_nolet s s' c C Hn).
    Qed.

    Lemma NL_function_call f args s : NL s (function_call G (expression G fuel) f args).
    Proof.
      eapply HT_conseq; [apply B_function_call, B_expression|].
      intros r s' _ _ _ (ty & c & _ & C & Hn). apply (ST_nolet s s' c C Hn).
    Qed.

    Lemma T_let_binding x m t e s : STT [e] s (let_binding G fuel x m t e).
    Proof.
      unfold let_binding. cbv zeta.
      eapply HT_bind; [apply B_expression|]. intros r s1 W1 G1 H1.
      destruct r as [er|].
      2: { apply HT_ret. intros F. unwrap. fin_all. destruct H1 as (er & c & Hr & _). discriminate. }
      destruct (match t with Some _ => _ | None => _ end); [apply HT_error|].
      apply HT_lookup_bind. apply HT_gets_bind.
      eapply HT_bind; [apply HT_next_inner_name|]. intros inner s2 W2 G2 H2.
      eapply HT_bind; [apply HT_insert_value|]. intros u3 s3 W3 G3 H3.
      eapply HT_bind; [apply HT_set_inner_name|]. intros u4 s4 W4 G4 H4.
      eapply HT_conseq; [apply HT_emit; reflexivity|]. intros u5 s5 W5 G5 F5 H5. unwrap. fin_all.
      destruct H2 as [-> _]. destruct H3 as (_ & C3 & V3). destruct H4 as (_ & C4 & V4).
      destruct H5 as (_ & C5 & V5).
      destruct H1 as (er0 & c1 & Hr & C1 & N1 & R1 & T1). inversion Hr; subst er0.
      set (val := Value inner (r_ty er) m) in *.
      exists (c1 ++ [ILet val er]).
      split; [rewrite C5, C4, C3, C1, app_assoc; reflexivity|].
      rewrite let_trees_app, (nolet_trees c1 _ N1), <- (TEnv_app s s1 c1 C1), let_trees_one.
      cbn [app tsite]. constructor; [|constructor].
      intros t0 Ht. apply T1, ref_of_expr_RefT, Ht.
    Qed.

    Lemma T_binding x e s : NL s (binding G fuel x e).
    Proof. pose proof NL_expression. unfold binding. nl_go. Qed.

    Lemma T_call_stmt f args s : NL s (call_stmt G fuel f args).
    Proof. pose proof NL_function_call. unfold call_stmt. nl_go. Qed.

    Lemma T_condition_expression c : forall s, NL s (condition_expression G fuel c).
    Proof.
      pose proof NL_expression.
      induction c as [l cmp r | l cmp r op c' IH] using lcond_ind'; intro s;
        cbn [condition_expression]; nl_go.
    Qed.

    Lemma T_if_condition_calculation c lb le lend ie s :
      NL s (if_condition_calculation G fuel c lb le lend ie).
    Proof.
      pose proof NL_expression. pose proof T_condition_expression.
      unfold if_condition_calculation. nl_go.
    Qed.

    Lemma T_code_after_errors kd fl s : NL s (code_after_errors kd fl).
    Proof. unfold code_after_errors. nl_go. Qed.

    (** ** The control level *)
    Ltac st_go :=
      repeat first
        [ apply NL_ret
        | apply HT_panic | apply HT_oof | apply NL_error
        | match goal with H : _ |- HT _ _ _ _ => solve [apply H] end
        | apply NL_emit; [reflexivity | reflexivity]
        | apply NL_emit_kid; [reflexivity | reflexivity]
        | apply NL_gen_label | apply NL_push | apply NL_pop | apply NL_set_return
        | apply NL_when
        | apply STT_gets_bind
        | eapply STT_bind; [| intros ? ?]
        | progress cbv zeta ].

    Ltac es_norm := cbn [app]; repeat rewrite app_nil_r; repeat rewrite <- app_assoc; reflexivity.

    Section Control.
      Variable IFC : ifstmt -> option string -> option (string * string) -> M unit.
      Variable LOOP : list stmt -> M unit.
      Hypothesis HIFC : forall i le ll s, STT (lets_of_if i) s (IFC i le ll).
      Hypothesis HLOOP : forall body s, STT (lets_body body) s (LOOP body).

      Lemma T_nested_ret kd lend lloop e fl s :
        NL s (nested_stmt G fuel RT IFC LOOP kd lend lloop fl (SRet e)).
      Proof.
        pose proof NL_expression. cbn [nested_stmt]. unfold check_return_type. nl_go.
      Qed.

      Lemma T_nested_stmt kd lend lloop fl st s :
        STT (lets_of_stmt st) s (nested_stmt G fuel RT IFC LOOP kd lend lloop fl st).
      Proof.
        pose proof T_let_binding. pose proof T_binding. pose proof T_call_stmt.
        destruct st as [x m t e|x e|f args|i|body|e|e| |].
        - eapply STT_conv; [cbn [nested_stmt]; st_go | es_norm].
        - eapply STT_conv; [cbn [nested_stmt]; st_go | es_norm].
        - eapply STT_conv; [cbn [nested_stmt]; st_go | es_norm].
        - change (lets_of_stmt (SIf i)) with (lets_of_if i).
          destruct kd; (eapply STT_conv; [cbn [nested_stmt]; st_go | es_norm]).
        - rewrite lets_loop. eapply STT_conv; [cbn [nested_stmt]; st_go | es_norm].
        - apply T_nested_ret.
        - apply HT_panic.
        - destruct kd, lloop as [[lb le]|]; cbn [nested_stmt]; try apply HT_panic;
            (eapply STT_conv; [st_go | reflexivity]).
        - destruct kd, lloop as [[lb le]|]; cbn [nested_stmt]; try apply HT_panic;
            (eapply STT_conv; [st_go | reflexivity]).
      Qed.

      Lemma T_run_body kd lend lloop : forall ss fl s,
        STT (lets_body ss) s (run_body G fuel RT IFC LOOP kd lend lloop fl ss).
      Proof.
        pose proof T_nested_stmt. pose proof T_code_after_errors.
        induction ss as [|st ss IH]; intros fl s; cbn [run_body].
        - apply NL_ret.
        - cbn [lets_body flat_map]. fold (lets_body ss).
          eapply STT_conv; [st_go | es_norm].
      Qed.

      Lemma T_if_body b lend lloop s :
        STT (lets_body (body_of b)) s (if_body G fuel RT IFC LOOP b lend lloop).
      Proof.
        pose proof T_run_body.
        destruct b as [ss|ss]; cbn [if_body body_of]; [|destruct lloop as [ll|]; [|apply HT_panic]];
          (eapply STT_conv; [st_go | es_norm]).
      Qed.

      Lemma T_if_condition_step i le ll s :
        STT (lets_of_if i) s (if_condition_step G fuel RT IFC LOOP i le ll).
      Proof.
        pose proof T_if_body. pose proof T_if_condition_calculation.
        destruct i as [c body els elif]. rewrite lets_if. cbn [if_condition_step].
        destruct els as [eb|]; [|destruct elif as [ei|]].
        - destruct elif as [ei|].
          + (* an else and an else-if: rejected *)
            cbn [is_some andb when]. apply HT_error_then. intro s1. eapply HT_weaken.
            destruct le as [le|]; cbn [is_some orb andb negb]; cbv iota; st_go.
          + destruct le as [le|]; cbn [is_some orb andb negb]; cbv iota;
              (eapply STT_conv; [st_go | es_norm]).
        - destruct le as [le|]; cbn [is_some orb andb negb]; cbv iota;
            (eapply STT_conv; [st_go | es_norm]).
        - destruct le as [le|]; cbn [is_some orb andb negb]; cbv iota;
            (eapply STT_conv; [st_go | es_norm]).
      Qed.

      Lemma T_loop_tail (c : bool) lb le s :
        NL s (if c then ctx <- gets head_ctx ;;
                        when (existsb (is_jump_to le) ctx) (emit (ISetLabel le))
              else emit (IJumpTo lb) ;;; emit (ISetLabel le)).
      Proof. destruct c; nl_go. Qed.

      Lemma T_loop_step body s : STT (lets_body body) s (loop_step G fuel RT IFC LOOP body).
      Proof.
        pose proof T_run_body. pose proof T_loop_tail. unfold loop_step.
        eapply STT_conv; [st_go | es_norm].
      Qed.
    End Control.

    Lemma T_control n :
      (forall i le ll s, STT (lets_of_if i) s (if_condition G fuel RT n i le ll)) /\
      (forall body s, STT (lets_body body) s (loop_statement G fuel RT n body)).
    Proof.
      induction n as [|n [IH1 IH2]]; split; intros; cbn [if_condition loop_statement];
        try apply HT_oof.
      - apply T_if_condition_step; assumption.
      - apply T_loop_step; assumption.
    Qed.

    Lemma T_fn_ret returned e s : NL s (fn_stmt G fuel RT returned (SRet e)).
    Proof. pose proof NL_expression. cbn [fn_stmt]. nl_go. Qed.

    Lemma T_fn_stmt returned st s :
      STT (lets_of_stmt st) s (fn_stmt G fuel RT returned st).
    Proof.
      pose proof T_let_binding. pose proof T_binding. pose proof T_call_stmt.
      destruct (T_control fuel) as [HI HL].
      destruct st as [x m t e|x e|f args|i|body|e|e| |].
      - eapply STT_conv; [cbn [fn_stmt]; st_go | es_norm].
      - eapply STT_conv; [cbn [fn_stmt]; st_go | es_norm].
      - eapply STT_conv; [cbn [fn_stmt]; st_go | es_norm].
      - change (lets_of_stmt (SIf i)) with (lets_of_if i).
        eapply STT_conv; [cbn [fn_stmt]; st_go | es_norm].
      - rewrite lets_loop. eapply STT_conv; [cbn [fn_stmt]; st_go | es_norm].
      - apply T_fn_ret.
      - exact (T_fn_ret returned e s).
      - apply HT_panic.
      - apply HT_panic.
    Qed.

    Lemma T_fn_stmts : forall ss returned s,
      STT (lets_body ss) s (fn_stmts G fuel RT returned ss).
    Proof.
      pose proof T_fn_stmt.
      induction ss as [|st ss IH]; intros returned s; cbn [fn_stmts].
      - apply NL_ret.
      - cbn [lets_body flat_map]. fold (lets_body ss).
        eapply STT_conv; [st_go | es_norm].
    Qed.
  End Stmts.

  Lemma T_init_func_params : forall ps s, NL s (init_func_params ps).
  Proof.
    induction ps as [|[x t] ps IH]; intro s; cbn [init_func_params]; [apply NL_ret|].
    pose proof NL_insert_value. pose proof NL_set_inner_name. nl_go.
  Qed.

  (** ** One function body *)
  Lemma T_function_body_m f s : STT (lets_of_fn f) s (function_body_m G f).
  Proof.
    unfold function_body_m. cbv zeta.
    change (lets_of_fn f) with (lets_body (fn_body f)).
    eapply STT_conv.
    - eapply STT_bind; [apply T_init_func_params | intros ? ?].
      eapply STT_bind; [apply T_fn_stmts | intros ? ?].
      apply NL_when, NL_error.
    - cbn [app]. rewrite app_nil_r. reflexivity.
  Qed.
End Stmt.

(** ** One function *)
Lemma ttree_eqb_refl t : ttree_eqb t t = true.
Proof.
  induction t as [n|l IHl o r IHr]; cbn [ttree_eqb]; [apply N.eqb_refl|].
  rewrite IHl, IHr. unfold binop_eqb. rewrite String.eqb_refl. reflexivity.
Qed.

Lemma match_lets_ok : forall src got, Forall2 LetOk src got -> match_lets src got = true.
Proof.
  induction 1 as [|e g src got He _ IH]; [reflexivity|]. cbn [match_lets]. rewrite IH.
  destruct (ref_of_expr e) as [t|] eqn:Er; [|reflexivity].
  rewrite (He t Er), ttree_eqb_refl. reflexivity.
Qed.

Lemma WF_init0 e : WF (BSt [empty_block] e).
Proof. split; [discriminate | apply Inv_reg_init]. Qed.

Lemma function_body_C07 G f a s root :
  function_body G [] f = Ok a s -> errs s = [] -> frames s = [root] -> chk_C07_fn f root = true.
Proof.
  intros H He Hf.
  assert (HC : Ctx s = b_ctx root) by (unfold Ctx; rewrite Hf; reflexivity).
  unfold chk_C07_fn. rewrite <- HC. unfold function_body in H.
  destruct (T_function_body_m (Ctx s) G f (BSt [empty_block] []) (WF_init0 []) a s H)
    as (_ & _ & HQ).
  destruct HQ as (c & C & HQ).
  { split; [exact He|]. exists []. rewrite app_nil_r. reflexivity. }
  change (Ctx (BSt [empty_block] [])) with (@nil instr) in C. cbn [app] in C.
  change (TEnv (BSt [empty_block] [])) with (@nil (N * ttree)) in HQ. rewrite <- C in HQ.
  apply match_lets_ok, HQ.
Qed.

(** ** The driver *)
Lemma chk_fns_snoc : forall fs roots f r,
  chk_C07_fns fs roots = true -> chk_C07_fn f r = true ->
  chk_C07_fns (fs ++ [f]) (roots ++ [r]) = true.
Proof.
  induction fs as [|f0 fs IH]; intros [|r0 roots] f r H Hc; cbn in *; try discriminate.
  - rewrite Hc. reflexivity.
  - apply Bool.andb_true_iff in H as [H1 H2]. rewrite H1. cbn. apply IH; assumption.
Qed.

Lemma bodies_errs_grow G : forall fs errs0 roots errs1 roots1,
  bodies G errs0 roots fs = inr (errs1, roots1) -> exists e, errs1 = errs0 ++ e.
Proof.
  induction fs as [|f fs IH]; intros errs0 roots errs1 roots1 H; cbn [bodies] in H.
  - inversion H; subst. exists []. rewrite app_nil_r. reflexivity.
  - destruct (function_body G errs0 f) as [a s| |] eqn:E; try discriminate.
    destruct (frames s) as [|root [|]]; try discriminate.
    destruct (IH _ _ _ _ H) as [e2 E2]. destruct (function_body_errs _ _ _ _ _ E) as [e1 E1].
    exists (e1 ++ e2). rewrite E2, E1, app_assoc. reflexivity.
Qed.

Lemma bodies_C07 G : forall fs fs0 errs0 roots errs1 roots1,
  bodies G errs0 roots fs = inr (errs1, roots1) -> errs1 = [] ->
  chk_C07_fns fs0 roots = true -> chk_C07_fns (fs0 ++ fs) roots1 = true.
Proof.
  induction fs as [|f fs IH]; intros fs0 errs0 roots errs1 roots1 H He Ho; cbn [bodies] in H.
  - inversion H; subst. rewrite app_nil_r. exact Ho.
  - destruct (function_body G errs0 f) as [a s| |] eqn:E; try discriminate.
    destruct (frames s) as [|root [|]] eqn:Ef; try discriminate.
    destruct (bodies_errs_grow _ _ _ _ _ _ H) as [e2 E2].
    destruct (function_body_errs _ _ _ _ _ E) as [e1 E1].
    subst errs1. symmetry in E2. apply app_eq_nil in E2 as [Hs _].
    rewrite Hs in E1. symmetry in E1. apply app_eq_nil in E1 as [H0 _]. subst errs0.
    pose proof (function_body_C07 G f a s root E Hs Ef) as Hc.
    specialize (IH (fs0 ++ [f]) (errs s) (roots ++ [root]) [] roots1 H eq_refl
                   (chk_fns_snoc _ _ _ _ Ho Hc)).
    rewrite <- app_assoc in IH. exact IH.
Qed.

(** C07, last sentence: on accepted programs, the operations emitted for every let initialiser
    over extension leaves, read back as a tree through their register operands, are exactly the
    unique well-bracketed tree [bracket] of the source chain (explicit brackets as units). *)
Theorem run_emitted_tree_is_bracket : forall p out,
  run p = ROk out -> o_errors out = [] -> chk_C07 p out = true.
Proof.
  intros p out H Hacc. unfold run in H.
  destruct (bodies (gs_globals (declarations p)) (gs_errs (declarations p)) [] (functions_of p))
    as [r|[errors roots]] eqn:E; [exfalso; eapply bodies_not_ok; subst r; exact E|].
  inversion H; subst; clear H. cbn [o_errors] in Hacc. subst errors.
  unfold chk_C07. cbn [o_errors o_fns].
  apply (bodies_C07 _ _ [] _ _ _ _ E eq_refl eq_refl).
Qed.

Print Assumptions run_emitted_tree_is_bracket.

(** ** The expression level, stated on its own: on a run that is accepted in the end, the operand
    that the analysis of [e] yields denotes, in the environment of the monitor after the run,
    exactly the reference tree of [e]; the environment after extends the one before by the code
    pushed, which contains no [ILet] and defines only registers above the old counter. *)
Theorem expression_emits_bracket : forall Cf G fuel e s r s' t,
  WF s -> expression G fuel e s = Ok r s' -> Fin Cf s' -> ref_of_expr e = Some t ->
  exists er c, r = Some er /\ Ctx s' = Ctx s ++ c /\ TEnv s' = tfrom (TEnv s) c /\
    DefsIn (hr s) (hr s') c /\ let_trees c (TEnv s) = [] /\
    operand_tree er (TEnv s') = Some t.
Proof.
  intros Cf G fuel e s r s' t W H F Ht.
  destruct (B_expression Cf G fuel e s W r s' H) as (_ & Gr & HQ).
  destruct (HQ F) as (er & c & Hr & C & Hn & _ & T).
  exists er, c. split; [exact Hr|]. split; [exact C|]. split; [apply TEnv_app, C|].
  split; [apply (Grow_defs _ _ _ Gr C)|]. split; [apply nolet_trees, Hn|].
  apply T, ref_of_expr_RefT, Ht.
Qed.

(** old registers keep their tree when the environment is extended by such code *)
Theorem extension_keeps_old_registers : forall lo hi c env n,
  DefsIn lo hi c -> n <= lo -> env_lookup n (tfrom env c) = env_lookup n env.
Proof.
  intros lo hi c env n Hd Hn. apply tfrom_lookup.
  eapply Forall_impl; [|exact Hd]. cbn. intros r Hr. lia.
Qed.

Print Assumptions expression_emits_bracket.
Print Assumptions extension_keeps_old_registers.
