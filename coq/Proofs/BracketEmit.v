(** C07, the last sentence: "the emitted operations, read as a tree through their register
    operands, are exactly that tree".

    On accepted programs the output of the model passes the monitor of [Mon/C07.v]:

      [run_emitted_tree_is_bracket] : run p = ROk out -> o_errors out = [] -> chk_C07 p out = true

    Skeleton of [Proofs/Denote.v] (the end-anchored logic [HT] of [DenoteLogic.v]) with the tree
    type of the monitor and WITHOUT flattening:
    - [let_trees] as a fold ([tupd], [tsite], [tfrom]); stability of the tree of an old register;
    - the reference tree without fuel ([RefT]); brackets made by the priority fold are the nodes
      of [bracket] ([RefT_embed], [RefT_fold]);
    - the expression level ([B_expression]): the operand of an accepted expression denotes
      exactly the reference tree of the source chain;
    - statements, control, function body, driver. *)
From Coq Require Import Lia.
From SA Require Import Model.
From SA.Spec Require Import Stack Bracket.
From SA.Mon Require Import C07.
From SA.Proofs Require Import Reach InvReg Trace InvNames DefUse Fold InvTree DenoteLogic.
Local Open Scope list_scope.

Ltac unwrap := repeat match goal with |- Grow _ _ -> _ => intros _ end.

(** ** The monitor's scan as a fold *)
Definition tenv := list (N * ttree).

Definition tupd (env : tenv) (i : instr) : tenv :=
  match i with
  | IExt tag r => (r, TLeaf tag) :: env
  | IExprOp o l r reg =>
      match operand_tree l env, operand_tree r env with
      | Some a, Some b => (reg, TNode a o b) :: env
      | _, _ => env
      end
  | _ => env
  end.

Definition tsite (env : tenv) (i : instr) : list (option ttree) :=
  match i with ILet _ e => [operand_tree e env] | _ => [] end.

Lemma let_trees_cons env i c : let_trees (i :: c) env = tsite env i ++ let_trees c (tupd env i).
Proof.
  destruct i; try reflexivity. cbn [let_trees tupd tsite app].
  destruct (operand_tree l env); [|reflexivity]. destruct (operand_tree r env); reflexivity.
Qed.

Definition tfrom (env : tenv) (c : list instr) : tenv := fold_left tupd c env.

Lemma tfrom_app env c1 c2 : tfrom env (c1 ++ c2) = tfrom (tfrom env c1) c2.
Proof. apply fold_left_app. Qed.

Lemma let_trees_app : forall c1 env c2,
  let_trees (c1 ++ c2) env = let_trees c1 env ++ let_trees c2 (tfrom env c1).
Proof.
  induction c1 as [|i c1 IH]; intros env c2; [reflexivity|].
  cbn [app]. rewrite !let_trees_cons, IH, app_assoc. reflexivity.
Qed.

Lemma let_trees_one env i : let_trees [i] env = tsite env i.
Proof. rewrite let_trees_cons. cbn. apply app_nil_r. Qed.

(** code without [ILet] *)
Definition nolet (c : list instr) : Prop := Forall (fun i => forall env, tsite env i = []) c.

Lemma nolet_trees : forall c env, nolet c -> let_trees c env = [].
Proof.
  induction c as [|i c IH]; intros env H; [reflexivity|]. inversion H as [|? ? Hi Hc]; subst.
  rewrite let_trees_cons, Hi, IH by exact Hc. reflexivity.
Qed.

Lemma nolet_app a b : nolet (a ++ b) <-> nolet a /\ nolet b.
Proof. apply Forall_app. Qed.
Lemma nolet_nil : nolet [].
Proof. constructor. Qed.
Lemma nolet_one i : (forall env, tsite env i = []) -> nolet [i].
Proof. intro H. constructor; [exact H | constructor]. Qed.

(** ** Stability *)
Lemma tupd_lookup n env i : def_reg i <> Some n -> env_lookup n (tupd env i) = env_lookup n env.
Proof.
  destruct i; cbn [tupd def_reg]; intro H; try reflexivity.
  - destruct (operand_tree l env); [|reflexivity]. destruct (operand_tree r env); [|reflexivity].
    cbn [env_lookup]. destruct (N.eqb_spec n reg); [subst; congruence | reflexivity].
  - cbn [env_lookup]. destruct (N.eqb_spec n reg); [subst; congruence | reflexivity].
Qed.

Lemma defs_cons i c : defs (i :: c) = match def_reg i with Some r => [r] | None => [] end ++ defs c.
Proof. reflexivity. Qed.

Lemma tfrom_lookup n : forall c env,
  Forall (fun r => r <> n) (defs c) -> env_lookup n (tfrom env c) = env_lookup n env.
Proof.
  induction c as [|i c IH]; intros env H; [reflexivity|].
  rewrite defs_cons in H. apply Forall_app in H as [H1 H2].
  cbn [tfrom fold_left]. fold (tfrom (tupd env i) c). rewrite IH by exact H2.
  apply tupd_lookup. destruct (def_reg i) as [r|]; [|discriminate].
  inversion H1; subst. congruence.
Qed.

Definition RegLe (h : N) (e : eres) : Prop := Forall (fun n => n <= h) (eres_reg e).

Lemma RegLe_mono h h' e : h <= h' -> RegLe h e -> RegLe h' e.
Proof. intros Hle H. eapply Forall_impl; [|exact H]. cbn. intros; lia. Qed.
Lemma RegLe_reg h t n : n <= h -> RegLe h (ERes t (RReg n)).
Proof. intro H. constructor; [exact H | constructor]. Qed.
Lemma RegLe_prim h t p : RegLe h (ERes t (RPrim p)).
Proof. constructor. Qed.

Lemma operand_tree_stable lo hi c env e :
  DefsIn lo hi c -> RegLe lo e -> operand_tree e (tfrom env c) = operand_tree e env.
Proof.
  intros Hd He. unfold operand_tree, RegLe, eres_reg in *. destruct (r_val e) as [n|p]; [|reflexivity].
  inversion He as [|? ? Hn _]; subst. apply tfrom_lookup.
  eapply Forall_impl; [|exact Hd]. cbn. intros r Hr. lia.
Qed.

(** ** The root view *)
Definition TEnv (s : bst) : tenv := tfrom [] (Ctx s).

Lemma TEnv_app s s' c : Ctx s' = Ctx s ++ c -> TEnv s' = tfrom (TEnv s) c.
Proof. intro H. unfold TEnv. rewrite H. apply tfrom_app. Qed.

Lemma TEnv_same s s' : Ctx s' = Ctx s -> TEnv s' = TEnv s.
Proof. intro H. unfold TEnv. rewrite H. reflexivity. Qed.

(** ** The reference tree, without fuel *)
Inductive RefT : tree -> ttree -> Prop :=
| RefExt ty tag : RefT (Leaf (EVExt ty tag)) (TLeaf tag)
| RefSub v rest t : RefT (bracket v rest) t -> RefT (Leaf (EVSub (Expr v rest))) t
| RefNode l o r a b : RefT l a -> RefT r b -> RefT (Node l o r) (TNode a o b).

Lemma ref_tree_of_RefT : forall fuel t tt, ref_tree_of fuel t = Some tt -> RefT t tt.
Proof.
  induction fuel as [|f IH]; intros t tt H; cbn [ref_tree_of] in H; [discriminate|].
  destruct t as [v|l o r].
  - destruct v as [x|p|g args|x a|e|ty tag]; try discriminate.
    + destruct e as [v rest]. constructor. apply IH, H.
    + inversion H; subst. constructor.
  - destruct (ref_tree_of f l) as [a|] eqn:El; [|discriminate].
    destruct (ref_tree_of f r) as [b|] eqn:Er; [|discriminate].
    inversion H; subst. constructor; apply IH; assumption.
Qed.

Definition bracket_of (e : expr) : tree := match e with Expr v rest => bracket v rest end.

Lemma ref_of_expr_RefT e t : ref_of_expr e = Some t -> RefT (bracket_of e) t.
Proof. destruct e as [v rest]. unfold ref_of_expr. apply ref_tree_of_RefT. Qed.

Lemma bracket_nil v : bracket v [] = Leaf v.
Proof. reflexivity. Qed.
Lemma bracket_one v o v2 : bracket v [(o, v2)] = Node (Leaf v) o (Leaf v2).
Proof. reflexivity. Qed.

(** a bracket made by the fold, read as a unit, is the node it was made from *)
Lemma RefT_embed T t : RefT T t -> RefT (Leaf (embed T)) t.
Proof.
  induction 1 as [ty tag|v rest t H IH|l o r a b Hl IHl Hr IHr]; cbn [embed].
  - constructor.
  - constructor. exact H.
  - constructor. rewrite bracket_one. constructor; assumption.
Qed.

Lemma RefT_fold e t :
  RefT (bracket_of e) t ->
  RefT (bracket_of (fold_priority e)) t /\
  (match fold_priority e with Expr _ rest' => length rest' <= 1 end)%nat.
Proof.
  destruct e as [v rest]. intro H. destruct (Nat.leb 2 (length rest)) eqn:El.
  - apply Nat.leb_le in El. rewrite fold_priority_is_bracket by exact El.
    cbn [bracket_of length]. rewrite bracket_nil. split; [apply RefT_embed, H | lia].
  - apply Nat.leb_gt in El. rewrite fold_priority_short by exact El. split; [exact H | lia].
Qed.
