(** Family T2 (simulation), part 3: the declaration phase.  [Model.declarations] is simulated by
    [check_structs] followed by [check_decls true]: when the specification passes, the model
    reports nothing and its tables are the specification's; when it fails with [v], the model's
    first declaration error matches [v] (the model goes on registering later declarations,
    which only appends to the error list). *)
From Coq Require Import Lia.
From SA Require Import Model.
From SA.Spec Require Import FirstViolation.
From SA.Proofs Require Import VerdictMon SimExpr Driver.
Local Open Scope list_scope.

(** the first error of a list matches the violation *)
Definition lfails (v : viol) (es : list err) : Prop :=
  exists e rest, es = e :: rest /\ viol_matches v e.

Lemma fails_lfails v s : fails v s <-> lfails v (errs s).
Proof. reflexivity. Qed.

Lemma lfails_app v es more : lfails v es -> lfails v (es ++ more).
Proof. intros (e & rest & -> & Hv). exists e, (rest ++ more). split; [reflexivity | exact Hv]. Qed.

Lemma lfails_one k val l : lfails (Viol k val l) ([] ++ [Err k val l]).
Proof. exists (Err k val l), []. split; [reflexivity | apply vm_same]. Qed.

(** ** The error list of the declaration phase is only appended to *)
Lemma apply_outcome_errs st o : exists more, gs_errs (apply_outcome st o) = gs_errs st ++ more.
Proof.
  destruct o; cbn.
  - exists []. rewrite app_nil_r. reflexivity.
  - eexists. reflexivity.
Qed.

Lemma pass_types_errs st t : exists more, gs_errs (pass_types st t) = gs_errs st ++ more.
Proof.
  destruct t; cbn [pass_types]; try (exists []; rewrite app_nil_r; reflexivity).
  unfold decl_type. destruct (amem (iname name) (g_types (gs_globals st))); cbn.
  - eexists. reflexivity.
  - exists []. rewrite app_nil_r. reflexivity.
Qed.

Lemma pass_decls_errs st t : exists more, gs_errs (pass_decls st t) = gs_errs st ++ more.
Proof.
  destruct t; cbn [pass_decls]; try (exists []; rewrite app_nil_r; reflexivity).
  - rewrite (decl_const_spec st (map fst (g_consts (gs_globals st)))) by apply smem_map_fst.
    apply apply_outcome_errs.
  - rewrite (decl_fn_spec st (map fst (g_funcs (gs_globals st)))) by apply smem_map_fst.
    apply apply_outcome_errs.
Qed.

Lemma fold_errs (step : gstate -> top -> gstate) :
  (forall st t, exists more, gs_errs (step st t) = gs_errs st ++ more) ->
  forall p st, exists more, gs_errs (fold_left step p st) = gs_errs st ++ more.
Proof.
  intro Hs. induction p as [|t p IH]; intro st; cbn [fold_left].
  - exists []. rewrite app_nil_r. reflexivity.
  - destruct (IH (step st t)) as [m1 H1]. destruct (Hs st t) as [m2 H2].
    exists (m2 ++ m1). rewrite H1, H2, app_assoc. reflexivity.
Qed.

Lemma fold_lfails (step : gstate -> top -> gstate) v :
  (forall st t, exists more, gs_errs (step st t) = gs_errs st ++ more) ->
  forall p st, lfails v (gs_errs st) -> lfails v (gs_errs (fold_left step p st)).
Proof.
  intros Hs p st H. destruct (fold_errs step Hs p st) as [more ->]. apply lfails_app, H.
Qed.

(** ** Pass 1: struct types (R1) *)
Lemma pass_types_sim : forall p st,
  gs_errs st = [] ->
  match check_structs (g_types (gs_globals st)) p with
  | Pass types' =>
      let st' := fold_left pass_types p st in
      gs_errs st' = [] /\ g_types (gs_globals st') = types' /\
      g_consts (gs_globals st') = g_consts (gs_globals st) /\
      g_funcs (gs_globals st') = g_funcs (gs_globals st)
  | Fail v => lfails v (gs_errs (fold_left pass_types p st))
  | Stuck => False
  end.
Proof.
  induction p as [|t p IH]; intros st Her; cbn [check_structs fold_left].
  - cbv zeta. split; [exact Her | split; [reflexivity | split; reflexivity]].
  - destruct t as [path | n a | n ty v | f]; cbn [pass_types]; try (apply IH; exact Her).
    unfold decl_type, require.
    destruct (amem (iname n) (g_types (gs_globals st))); cbn [negb andthen].
    + apply (fold_lfails pass_types _ pass_types_errs). cbn. rewrite Her. apply lfails_one.
    + apply (IH (GState (Globals (g_types (gs_globals st) ++
                                  [(type_name (struct_of_decl n a), struct_of_decl n a)])
                                 (g_consts (gs_globals st)) (g_funcs (gs_globals st)))
                        (gs_stack st ++ [GTypes (struct_of_decl n a)]) (gs_errs st))).
      exact Her.
Qed.

(** ** Pass 2: constants (R2, R5 as enforced, R6) *)
Lemma check_const_links_sim G l :
  all_declared (tb_consts (tables_of G)) (consts_before_literal (map snd l)) =
  match check_const_links G l with
  | None => Pass tt
  | Some c => Fail (Viol EConstantNotFound (Some (iname c)) (iloc c))
  end.
Proof.
  induction l as [|[op [c|pv]] l IH]; cbn [map snd consts_before_literal all_declared
                                            check_const_links]; try reflexivity.
  unfold tables_of at 1. cbn [tb_consts]. rewrite amem_map. unfold require.
  destruct (amem (iname c) (g_consts G)); cbn [andthen]; [exact IH | reflexivity].
Qed.

Lemma type_known_of G t :
  type_known (tables_of G) t = is_prim t || amem (type_name t) (g_types G).
Proof. reflexivity. Qed.

Lemma tables_of_add_error e st :
  tables_of (gs_globals (g_add_error e st)) = tables_of (gs_globals st).
Proof. reflexivity. Qed.

Lemma decl_const_sim st n ty v : gs_errs st = [] ->
  match check_const_decl true (tables_of (gs_globals st)) n ty v with
  | Pass T' => gs_errs (decl_const st n ty v) = [] /\
               tables_of (gs_globals (decl_const st n ty v)) = T'
  | Fail v0 => lfails v0 (gs_errs (decl_const st n ty v))
  | Stuck => False
  end.
Proof.
  intro Her. unfold decl_const, check_const_decl. cbv zeta.
  unfold tables_of at 1. cbn [tb_consts]. rewrite amem_map. unfold require at 1.
  destruct (amem (iname n) (g_consts (gs_globals st))); cbn [negb andthen].
  { cbn. rewrite Her. apply lfails_one. }
  unfold r5_checked. rewrite check_const_links_sim.
  destruct (check_const_links (gs_globals st) (ce_rest v)) as [c|]; cbn [andthen].
  { cbn. rewrite Her. apply lfails_one. }
  rewrite type_known_of. unfold g_check_type_exists, require. cbn [c_ty const_of c_name].
  destruct (is_prim (sem_of_ty ty)); cbn [orb andthen].
  - split; [exact Her|]. unfold tables_of. cbn [gs_globals g_types g_consts g_funcs tb_consts].
    rewrite map_app. reflexivity.
  - destruct (amem (type_name (sem_of_ty ty)) (g_types (gs_globals st))); cbn [andthen].
    + split; [exact Her|]. unfold tables_of. cbn [gs_globals g_types g_consts g_funcs tb_consts].
      rewrite map_app. reflexivity.
    + cbn. rewrite Her. apply lfails_one.
Qed.

(** ** Pass 2: function signatures (R3, R6) *)
Lemma decl_fn_params_sim floc : forall ps st, gs_errs st = [] ->
  match check_param_types (tables_of (gs_globals st)) floc ps with
  | Pass _ => decl_fn_params st false floc ps = (st, false)
  | Fail v => exists st', decl_fn_params st false floc ps = (st', true) /\ lfails v (gs_errs st')
  | Stuck => False
  end.
Proof.
  induction ps as [|[x t] ps IH]; intros st Her; cbn [check_param_types decl_fn_params].
  - reflexivity.
  - rewrite type_known_of. unfold g_check_type_exists, require.
    destruct (is_prim (sem_of_ty t)); cbn [orb negb andthen]; [apply IH, Her|].
    destruct (amem (type_name (sem_of_ty t)) (g_types (gs_globals st))); cbn [negb andthen];
      [apply IH, Her|].
    rewrite decl_fn_params_quit. eexists. split; [reflexivity|]. cbn. rewrite Her.
    apply lfails_one.
Qed.

Lemma decl_fn_sim st f : gs_errs st = [] ->
  match check_fn_decl (tables_of (gs_globals st)) f with
  | Pass T' => gs_errs (decl_fn st f) = [] /\ tables_of (gs_globals (decl_fn st f)) = T'
  | Fail v0 => lfails v0 (gs_errs (decl_fn st f))
  | Stuck => False
  end.
Proof.
  intro Her. unfold decl_fn, check_fn_decl. cbv zeta.
  unfold tables_of at 1. cbn [tb_funcs]. rewrite amem_map. unfold require at 1.
  destruct (amem (iname (fn_name f)) (g_funcs (gs_globals st))); cbn [negb andthen].
  { cbn. rewrite Her. apply lfails_one. }
  rewrite type_known_of. unfold g_check_type_exists, require.
  assert (HQ : forall e,
    (let '(st2, quit) := decl_fn_params (g_add_error e st) true (iloc (fn_name f)) (fn_params f) in
     if quit then st2 else
       GState (Globals (g_types (gs_globals st2)) (g_consts (gs_globals st2))
                 (g_funcs (gs_globals st2) ++
                  [(iname (fn_name f),
                    Func (iname (fn_name f)) (sem_of_ty (fn_result f))
                      (map (fun p => sem_of_ty (snd p)) (fn_params f)))]))
         (gs_stack st2 ++
          [GFnDecl (iname (fn_name f))
             (map (fun p => (iname (fst p), sem_of_ty (snd p))) (fn_params f))
             (sem_of_ty (fn_result f))]) (gs_errs st2)) = g_add_error e st).
  { intro e. rewrite decl_fn_params_quit. reflexivity. }
  assert (HOK :
    match andthen (check_param_types (tables_of (gs_globals st)) (iloc (fn_name f)) (fn_params f))
            (fun _ => Pass (Tables (tb_types (tables_of (gs_globals st)))
                              (tb_consts (tables_of (gs_globals st)))
                              (tb_funcs (tables_of (gs_globals st)) ++
                               [(iname (fn_name f),
                                 (map (fun p => sem_of_ty (snd p)) (fn_params f),
                                  sem_of_ty (fn_result f)))])))
    with
    | Pass T' =>
        gs_errs
          (let '(st2, quit) := decl_fn_params st false (iloc (fn_name f)) (fn_params f) in
           if quit then st2 else
             GState (Globals (g_types (gs_globals st2)) (g_consts (gs_globals st2))
                       (g_funcs (gs_globals st2) ++
                        [(iname (fn_name f),
                          Func (iname (fn_name f)) (sem_of_ty (fn_result f))
                            (map (fun p => sem_of_ty (snd p)) (fn_params f)))]))
               (gs_stack st2 ++
                [GFnDecl (iname (fn_name f))
                   (map (fun p => (iname (fst p), sem_of_ty (snd p))) (fn_params f))
                   (sem_of_ty (fn_result f))]) (gs_errs st2)) = [] /\
        tables_of (gs_globals
          (let '(st2, quit) := decl_fn_params st false (iloc (fn_name f)) (fn_params f) in
           if quit then st2 else
             GState (Globals (g_types (gs_globals st2)) (g_consts (gs_globals st2))
                       (g_funcs (gs_globals st2) ++
                        [(iname (fn_name f),
                          Func (iname (fn_name f)) (sem_of_ty (fn_result f))
                            (map (fun p => sem_of_ty (snd p)) (fn_params f)))]))
               (gs_stack st2 ++
                [GFnDecl (iname (fn_name f))
                   (map (fun p => (iname (fst p), sem_of_ty (snd p))) (fn_params f))
                   (sem_of_ty (fn_result f))]) (gs_errs st2))) = T'
    | Fail v0 =>
        lfails v0 (gs_errs
          (let '(st2, quit) := decl_fn_params st false (iloc (fn_name f)) (fn_params f) in
           if quit then st2 else
             GState (Globals (g_types (gs_globals st2)) (g_consts (gs_globals st2))
                       (g_funcs (gs_globals st2) ++
                        [(iname (fn_name f),
                          Func (iname (fn_name f)) (sem_of_ty (fn_result f))
                            (map (fun p => sem_of_ty (snd p)) (fn_params f)))]))
               (gs_stack st2 ++
                [GFnDecl (iname (fn_name f))
                   (map (fun p => (iname (fst p), sem_of_ty (snd p))) (fn_params f))
                   (sem_of_ty (fn_result f))]) (gs_errs st2)))
    | Stuck => False
    end).
  { pose proof (decl_fn_params_sim (iloc (fn_name f)) (fn_params f) st Her) as HP.
    destruct (check_param_types (tables_of (gs_globals st)) (iloc (fn_name f)) (fn_params f))
      as [[]|v0|]; cbn [andthen]; [| | contradiction].
    - rewrite HP. split; [exact Her|]. unfold tables_of.
      cbn [gs_globals g_types g_consts g_funcs tb_types tb_consts tb_funcs].
      rewrite map_app. reflexivity.
    - destruct HP as (st' & -> & HF). exact HF. }
  destruct (is_prim (sem_of_ty (fn_result f))); cbn [orb negb andthen]; [exact HOK|].
  destruct (amem (type_name (sem_of_ty (fn_result f))) (g_types (gs_globals st)));
    cbn [negb andthen]; [exact HOK|].
  rewrite HQ. cbn. rewrite Her. apply lfails_one.
Qed.

Lemma pass_decls_sim : forall p st,
  gs_errs st = [] ->
  match check_decls true (tables_of (gs_globals st)) p with
  | Pass T' =>
      gs_errs (fold_left pass_decls p st) = [] /\
      tables_of (gs_globals (fold_left pass_decls p st)) = T'
  | Fail v => lfails v (gs_errs (fold_left pass_decls p st))
  | Stuck => False
  end.
Proof.
  induction p as [|t p IH]; intros st Her; cbn [check_decls fold_left].
  - split; [exact Her | reflexivity].
  - destruct t as [path | n a | n ty v | f]; cbn [pass_decls]; try (apply IH; exact Her).
    + pose proof (decl_const_sim st n ty v Her) as HX.
      destruct (check_const_decl true (tables_of (gs_globals st)) n ty v) as [T'|v0|];
        cbn [andthen]; [| | contradiction].
      * destruct HX as (Her1 & <-). apply IH, Her1.
      * apply (fold_lfails pass_decls _ pass_decls_errs), HX.
    + pose proof (decl_fn_sim st f Her) as HX.
      destruct (check_fn_decl (tables_of (gs_globals st)) f) as [T'|v0|];
        cbn [andthen]; [| | contradiction].
      * destruct HX as (Her1 & <-). apply IH, Her1.
      * apply (fold_lfails pass_decls _ pass_decls_errs), HX.
Qed.

(** ** The declaration phase *)
Theorem declarations_sim p :
  match check_structs [] p with
  | Pass types =>
      match check_decls true (Tables types [] []) p with
      | Pass T => gs_errs (declarations p) = [] /\ tables_of (gs_globals (declarations p)) = T
      | Fail v => lfails v (gs_errs (declarations p))
      | Stuck => False
      end
  | Fail v => lfails v (gs_errs (declarations p))
  | Stuck => False
  end.
Proof.
  unfold declarations. pose proof (pass_types_sim p gstate0 eq_refl) as H1.
  cbn [gstate0 gs_globals g_types g_consts g_funcs] in H1.
  destruct (check_structs [] p) as [types|v|]; [| | contradiction].
  - cbv zeta in H1. destruct H1 as (Her & Hty & Hc & Hf).
    pose proof (pass_decls_sim p (fold_left pass_types p gstate0) Her)
      as H2.
    unfold tables_of at 1 in H2. rewrite Hty, Hc, Hf in H2. cbn [map] in H2. exact H2.
  - apply (fold_lfails pass_decls _ pass_decls_errs), H1.
Qed.

Print Assumptions declarations_sim.
