(** Basic facts about [Spec/Exec.v] and [Mon/Control.v]:
    - the monitors for C10 and C11 decide exactly their Prop statements;
    - both interpreters are monotone in the fuel: a run that does not end with [OutOfFuel]
      is not changed by more fuel. *)
From Coq Require Import Lia.
From SA Require Import Model.
From SA.Spec Require Import Stack Exec.
From SA.Mon Require Import Control.
Local Open Scope list_scope.

(** ** Generic reflection lemmas *)
Lemma smem_In k l : smem k l = true <-> In k l.
Proof.
  induction l as [|x l IH]; cbn.
  - split; [discriminate | contradiction].
  - destruct (String.eqb k x) eqn:E.
    + apply String.eqb_eq in E. subst. split; auto.
    + apply String.eqb_neq in E. rewrite IH. split; [auto|]. intros [H|H]; [congruence | assumption].
Qed.

Lemma nodupb_NoDup l : nodupb l = true <-> NoDup l.
Proof.
  induction l as [|x l IH]; cbn.
  - split; [constructor | reflexivity].
  - rewrite Bool.andb_true_iff, Bool.negb_true_iff, IH. split.
    + intros [Hx Hl]. constructor; [|assumption].
      intro Hin. apply smem_In in Hin. congruence.
    + intro H. inversion H as [|? ? Hx Hl]; subst. split; [|assumption].
      destruct (smem x l) eqn:E; [|reflexivity]. apply smem_In in E. contradiction.
Qed.

Lemma forallb_Forall {A} (f : A -> bool) (P : A -> Prop) (l : list A) :
  (forall x, f x = true <-> P x) -> forallb f l = true <-> Forall P l.
Proof.
  intro H. rewrite forallb_forall, Forall_forall.
  split; intros G x Hx; apply H, G, Hx.
Qed.

Lemma forallb2_Forall2 {A B} (f : A -> B -> bool) (P : A -> B -> Prop) la lb :
  (forall a b, f a b = true <-> P a b) -> forallb2 f la lb = true <-> Forall2 P la lb.
Proof.
  intro H. revert lb. induction la as [|a la IH]; intros [|b lb]; cbn.
  - split; [constructor | reflexivity].
  - split; [discriminate | intro G; inversion G].
  - split; [discriminate | intro G; inversion G].
  - rewrite Bool.andb_true_iff, H, IH. split.
    + intros [? ?]. constructor; assumption.
    + intro G. inversion G; subst. split; assumption.
Qed.

(** ** (a) C10, uniqueness *)
Definition C10_unique_root (root : block) : Prop := NoDup (set_labels (b_ctx root)).

Theorem chk_C10_unique_spec o :
  chk_C10_unique o = true <-> Forall (fun root => NoDup (set_labels (b_ctx root))) (o_fns o).
Proof.
  unfold chk_C10_unique. apply forallb_Forall. intro root. apply nodupb_NoDup.
Qed.

(** ** (b) C10, resolution *)
Definition C10_resolve_root (root : block) : Prop :=
  forall i l, In i (b_ctx root) -> In l (target_labels i) -> In l (set_labels (b_ctx root)).

Lemma chk_C10_resolve_root_spec root : chk_C10_resolve_root root = true <-> C10_resolve_root root.
Proof.
  unfold chk_C10_resolve_root, C10_resolve_root. rewrite forallb_forall. split.
  - intros H i l Hi Hl. specialize (H i Hi). rewrite forallb_forall in H.
    apply smem_In, H, Hl.
  - intros H i Hi. rewrite forallb_forall. intros l Hl. apply smem_In. eapply H; eassumption.
Qed.

Theorem chk_C10_resolve_spec o :
  chk_C10_resolve o = true <-> Forall C10_resolve_root (o_fns o).
Proof.
  unfold chk_C10_resolve. apply forallb_Forall. exact chk_C10_resolve_root_spec.
Qed.

(** Both parts together: every label that is named is set exactly once. *)
Corollary C10_exactly_once root :
  C10_unique_root root -> C10_resolve_root root ->
  forall i l, In i (b_ctx root) -> In l (target_labels i) ->
              count_occ string_dec (set_labels (b_ctx root)) l = 1%nat.
Proof.
  intros Hu Hr i l Hi Hl.
  apply (proj1 (NoDup_count_occ' string_dec _) Hu). eapply Hr; eassumption.
Qed.

(** ** (c) C11 *)
Definition FnRet (i : instr) : Prop := exists e, i = IFnRet e \/ i = IFnRetLabel e.
Definition FnRetLabel (i : instr) : Prop := exists e, i = IFnRetLabel e.
Definition JumpFnRet (i : instr) : Prop := exists e, i = IJumpFnRet e.

Lemma is_fn_ret_spec i : is_fn_ret i = true <-> FnRet i.
Proof.
  unfold FnRet. split.
  - destruct i; cbn; try discriminate; intros _; eexists; [left | right]; reflexivity.
  - intros [e [-> | ->]]; reflexivity.
Qed.
Lemma is_fn_ret_label_spec i : is_fn_ret_label i = true <-> FnRetLabel i.
Proof.
  unfold FnRetLabel. split.
  - destruct i; cbn; try discriminate; intros _; eexists; reflexivity.
  - intros [e ->]; reflexivity.
Qed.
Lemma is_jump_fn_ret_spec i : is_jump_fn_ret i = true <-> JumpFnRet i.
Proof.
  unfold JumpFnRet. split.
  - destruct i; cbn; try discriminate; intros _; eexists; reflexivity.
  - intros [e ->]; reflexivity.
Qed.

(** The stack is [pre ++ [last]]: [last] is the only function-return instruction; it is the
    with-label form exactly when a jump-to-return occurs before it; the jump-to-return
    instructions are as many as the [return] statements nested in if / loop bodies. *)
Definition C11_fn (f : fn_decl) (root : block) : Prop :=
  exists pre last,
    b_ctx root = pre ++ [last] /\
    FnRet last /\
    (forall i, In i pre -> ~ FnRet i) /\
    (FnRetLabel last <-> exists i, In i pre /\ JumpFnRet i) /\
    count_instr is_jump_fn_ret (b_ctx root) = nested_rets (fn_body f).

Lemma existsb_false {A} (f : A -> bool) l :
  existsb f l = false <-> forall x, In x l -> f x = false.
Proof.
  split.
  - intros H x Hx. destruct (f x) eqn:E; [|reflexivity].
    assert (existsb f l = true) by (apply existsb_exists; eauto). congruence.
  - intro H. destruct (existsb f l) eqn:E; [|reflexivity].
    apply existsb_exists in E. destruct E as [x [Hx Hf]]. rewrite (H x Hx) in Hf. discriminate.
Qed.

Lemma chk_C11_fn_spec f root : chk_C11_fn f root = true <-> C11_fn f root.
Proof.
  unfold chk_C11_fn, C11_fn. split.
  - destruct (rev (b_ctx root)) as [|last before] eqn:E; [discriminate|].
    rewrite !Bool.andb_true_iff, Bool.negb_true_iff, Nat.eqb_eq, Bool.eqb_true_iff.
    intros [[[Hlast Hnone] Hlabel] Hcount].
    exists (rev before), last.
    split; [|split; [|split; [|split]]].
    + rewrite <- (rev_involutive (b_ctx root)), E. reflexivity.
    + apply is_fn_ret_spec, Hlast.
    + intros i Hi Hret. apply in_rev in Hi. apply is_fn_ret_spec in Hret.
      rewrite (proj1 (existsb_false _ _) Hnone i Hi) in Hret. discriminate.
    + rewrite <- is_fn_ret_label_spec, Hlabel, existsb_exists. split.
      * intros [i [Hi Hj]]. exists i. split; [apply in_rev; rewrite rev_involutive; exact Hi|].
        apply is_jump_fn_ret_spec, Hj.
      * intros [i [Hi Hj]]. exists i. split; [apply in_rev, Hi | apply is_jump_fn_ret_spec, Hj].
    + exact Hcount.
  - intros [pre [last [Hctx [Hlast [Hnone [Hlabel Hcount]]]]]].
    rewrite Hctx, rev_unit. rewrite <- Hctx.
    rewrite !Bool.andb_true_iff, Bool.negb_true_iff, Nat.eqb_eq, Bool.eqb_true_iff.
    split; [split; [split|]|].
    + apply is_fn_ret_spec, Hlast.
    + apply existsb_false. intros i Hi. apply in_rev in Hi.
      destruct (is_fn_ret i) eqn:Ei; [|reflexivity].
      exfalso. apply (Hnone i Hi). apply is_fn_ret_spec, Ei.
    + destruct (is_fn_ret_label last) eqn:El.
      * symmetry. apply existsb_exists. apply is_fn_ret_label_spec, Hlabel in El.
        destruct El as [i [Hi Hj]]. exists i.
        split; [apply in_rev in Hi; exact Hi | apply is_jump_fn_ret_spec, Hj].
      * symmetry. apply existsb_false. intros i Hi. apply in_rev in Hi.
        destruct (is_jump_fn_ret i) eqn:Ej; [|reflexivity].
        assert (FnRetLabel last) as Hl
          by (apply Hlabel; exists i; split; [exact Hi | apply is_jump_fn_ret_spec, Ej]).
        apply is_fn_ret_label_spec in Hl. congruence.
    + exact Hcount.
Qed.

Theorem chk_C11_spec p o :
  chk_C11 p o = true <-> Forall2 C11_fn (functions_of p) (o_fns o).
Proof. unfold chk_C11. apply forallb2_Forall2. exact chk_C11_fn_spec. Qed.

(** ** (d) Fuel monotonicity of the flat interpreter *)
Lemma flat_run_fuel_mono code : forall fuel pc w t st,
  flat_run code fuel pc w = (t, st) -> st <> OutOfFuel ->
  forall fuel', (fuel <= fuel')%nat -> flat_run code fuel' pc w = (t, st).
Proof.
  induction fuel as [|fuel IH]; intros pc w t st Hrun Hst fuel' Hle; cbn in Hrun.
  - inversion Hrun; subst. congruence.
  - destruct fuel' as [|fuel']; [lia|]. cbn.
    destruct (flat_step code pc w) as [ev pc' w'|ev st']; [|exact Hrun].
    destruct (flat_run code fuel pc' w') as [t0 st0] eqn:E.
    unfold prepend_trace in Hrun. cbn in Hrun. inversion Hrun; subst.
    rewrite (IH pc' w' t0 st E Hst fuel') by lia. reflexivity.
Qed.

Theorem flat_exec_fuel_mono code w fuel t st :
  flat_exec code w fuel = (t, st) -> st <> OutOfFuel ->
  forall fuel', (fuel <= fuel')%nat -> flat_exec code w fuel' = (t, st).
Proof. unfold flat_exec. apply flat_run_fuel_mono. Qed.

(** ** (d) Fuel monotonicity of the structured interpreter *)

(** the run did not hit the fuel bound *)
Definition fin (r : sres) : Prop := snd (fst r) <> Stop OutOfFuel.

Lemma fin_prepend ev r : fin (prepend ev r) -> fin r.
Proof. destruct r as [[ev' c] w]. exact (fun H => H). Qed.

Lemma fin_if_exit q b r : fin (if_exit q b r) -> fin r.
Proof.
  destruct r as [[ev c] w]. unfold fin. cbn.
  destruct c; try congruence; destruct (q && b); destruct b; congruence.
Qed.

Lemma fin_seq_l r k : fin (seq r k) -> fin r.
Proof.
  destruct r as [[ev c] w]. unfold fin. cbn. destruct c; cbn; try congruence.
Qed.

Lemma fin_loop_exit_l r k : fin (loop_exit r k) -> fin r.
Proof.
  destruct r as [[ev c] w]. unfold fin. cbn. destruct c; cbn; try congruence.
Qed.

(** Unfolding equations (the mutual fixpoint does not refold under [cbn]). *)
Lemma exec_stmt_S q n in_if s w :
  exec_stmt q (S n) in_if s w =
  match s with
  | SLet _ _ _ e => (expr_events e ++ [EvLet], Normal, w)
  | SBind _ e => (expr_events e ++ [EvAssign], Normal, w)
  | SCall f args => (exprs_events args ++ [EvCall (iname f)], Normal, w)
  | SIf i => if_exit q in_if (exec_if q n i w)
  | SLoop body => exec_loop q n body w
  | SRet e | SExprStmt e => (expr_events e ++ [EvRet], Stop Returned, w)
  | SBreak => ([], Brk, w)
  | SContinue => ([], Cont, w)
  end.
Proof. reflexivity. Qed.

Lemma exec_stmts_nil q n in_if w : exec_stmts q n in_if [] w = ([], Normal, w).
Proof. destruct n; reflexivity. Qed.

Lemma exec_stmts_S q n in_if s ss w :
  exec_stmts q (S n) in_if (s :: ss) w =
  seq (exec_stmt q n in_if s w) (exec_stmts q n in_if ss).
Proof. reflexivity. Qed.

Lemma exec_if_S q n c body els elif w :
  exec_if q (S n) (IfS c body els elif) w =
  match w with
  | [] => (cond_events c, Stop OutOfOutcomes, [])
  | b :: w' =>
      prepend (cond_events c)
        (if b then exec_stmts q n true (ifbody_stmts body) w'
         else match els with
              | Some eb => exec_stmts q n true (ifbody_stmts eb) w'
              | None =>
                  match elif with
                  | Some ei => exec_if q n ei w'
                  | None => ([], Normal, w')
                  end
              end)
  end.
Proof. reflexivity. Qed.

Lemma exec_loop_S q n body w :
  exec_loop q (S n) body w = loop_exit (exec_stmts q n false body w) (exec_loop q n body).
Proof. reflexivity. Qed.

Lemma exec_fuel_mono q : forall n,
  (forall b s w m, fin (exec_stmt q n b s w) -> (n <= m)%nat ->
                   exec_stmt q m b s w = exec_stmt q n b s w) /\
  (forall b ss w m, fin (exec_stmts q n b ss w) -> (n <= m)%nat ->
                    exec_stmts q m b ss w = exec_stmts q n b ss w) /\
  (forall i w m, fin (exec_if q n i w) -> (n <= m)%nat ->
                 exec_if q m i w = exec_if q n i w) /\
  (forall body w m, fin (exec_loop q n body w) -> (n <= m)%nat ->
                    exec_loop q m body w = exec_loop q n body w).
Proof.
  induction n as [|n [IHs [IHss [IHi IHl]]]].
  - split; [|split; [|split]].
    + intros b s w m H. exfalso. apply H. reflexivity.
    + intros b [|s ss] w m H Hle.
      * destruct m; reflexivity.
      * exfalso. apply H. reflexivity.
    + intros i w m H. exfalso. apply H. reflexivity.
    + intros body w m H. exfalso. apply H. reflexivity.
  - split; [|split; [|split]].
    + intros b s w [|m] H Hle; [lia|]. rewrite !exec_stmt_S. rewrite exec_stmt_S in H.
      destruct s; try reflexivity.
      * apply fin_if_exit in H. rewrite (IHi _ _ m H) by lia. reflexivity.
      * rewrite (IHl _ _ m H) by lia. reflexivity.
    + intros b [|s ss] w [|m] H Hle; rewrite ?exec_stmts_nil; try reflexivity; [lia|].
      rewrite !exec_stmts_S. rewrite exec_stmts_S in H.
      pose proof (fin_seq_l _ _ H) as Hs.
      rewrite (IHs _ _ _ m Hs) by lia.
      destruct (exec_stmt q n b s w) as [[ev c] w']. destruct c; try reflexivity.
      cbn [seq] in *. apply fin_prepend in H. rewrite (IHss _ _ _ m H) by lia. reflexivity.
    + intros [c body els elif] w [|m] H Hle; [lia|]. rewrite !exec_if_S. rewrite exec_if_S in H.
      destruct w as [|o w']; [reflexivity|].
      apply fin_prepend in H.
      destruct o.
      * rewrite (IHss _ _ _ m H) by lia. reflexivity.
      * destruct els as [eb|].
        -- rewrite (IHss _ _ _ m H) by lia. reflexivity.
        -- destruct elif as [ei|]; [|reflexivity].
           rewrite (IHi _ _ m H) by lia. reflexivity.
    + intros body w [|m] H Hle; [lia|]. rewrite !exec_loop_S. rewrite exec_loop_S in H.
      pose proof (fin_loop_exit_l _ _ H) as Hb.
      rewrite (IHss _ _ _ m Hb) by lia.
      destruct (exec_stmts q n false body w) as [[ev c] w']. destruct c; try reflexivity.
      * cbn [loop_exit] in *. apply fin_prepend in H. rewrite (IHl _ _ m H) by lia. reflexivity.
      * cbn [loop_exit] in *. apply fin_prepend in H. rewrite (IHl _ _ m H) by lia. reflexivity.
Qed.

Theorem struct_exec_fuel_mono q body w fuel t st :
  struct_exec q body w fuel = (t, st) -> st <> OutOfFuel ->
  forall fuel', (fuel <= fuel')%nat -> struct_exec q body w fuel' = (t, st).
Proof.
  unfold struct_exec. intros Hrun Hst fuel' Hle.
  assert (fin (exec_stmts q fuel false body w)) as Hfin.
  { unfold fin. destruct (exec_stmts q fuel false body w) as [[ev c] w']. cbn in *.
    intro Hc. subst c. inversion Hrun; subst. congruence. }
  rewrite (proj1 (proj2 (exec_fuel_mono q fuel)) _ _ _ fuel' Hfin Hle). exact Hrun.
Qed.

Print Assumptions chk_C10_unique_spec.
Print Assumptions chk_C10_resolve_spec.
Print Assumptions C10_exactly_once.
Print Assumptions chk_C11_spec.
Print Assumptions flat_exec_fuel_mono.
Print Assumptions struct_exec_fuel_mono.
