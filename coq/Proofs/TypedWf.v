(** C04 (the emitted stack is well typed), part 1: the two facts of [Proofs/TypedDefs.v].

    - [wf_arity]: a program that obeys the INTENDED rule set ([wf_b]) passes, in every call,
      exactly as many arguments as the callee declares ([ar_fn] for every function, against the
      function table of the run).  A pass over the specification checker with
      [enforced = false] (rule R10 with the arity clause that finding F2 shows the analyzer
      does not enforce); the model enters only through [declarations_sim], which identifies
      the specification's tables with those of [Model.declarations].
    - [declarations_GWf]: the global tables of every run are keyed by the names of their
      entries, and the attribute indices of a declared struct type are pairwise distinct. *)
From Coq Require Import Lia.
From SA Require Import Model.
From SA.Spec Require Import FirstViolation.
From SA.Mon Require Import C04.
From SA.Proofs Require Import RulesBasic SimExpr SimDecl Simulation Driver TypedDefs.
Local Open Scope list_scope.

(** * Part 1: arity, from the intended rule set *)

Lemma andthen_pass {A B} (m : outcome A) (k : A -> outcome B) b :
  andthen m k = Pass b -> exists a, m = Pass a /\ k a = Pass b.
Proof.
  destruct m as [a|v|]; cbn; intro H; try discriminate H.
  exists a. split; [reflexivity | exact H].
Qed.

Tactic Notation "split_pass" hyp(H) ident(a) ident(Ha) :=
  apply andthen_pass in H; destruct H as (a & Ha & H).

Section ArSpec.
  Variable T : tables.
  Variable F : list (string * func_sem).
  Hypothesis HTF : forall k, alookup k (tb_funcs T) = option_map sig_of_func (alookup k F).

  (** ** Expressions *)
  Section OneLevel.
    Variable G : scopes.
    Variable E : expr -> outcome sem_ty.
    Variable AE : expr -> bool.
    Hypothesis HE : forall e t, E e = Pass t -> AE e = true.

    Lemma check_args_ar callee : forall args params u,
      check_args false E callee params args = Pass u ->
      length args = length params /\ forallb AE args = true.
    Proof.
      induction args as [|a args IH]; intros [|pt params] u; cbn; intro H.
      - split; reflexivity.
      - discriminate H.
      - split_pass H t Ha. discriminate H.
      - split_pass H t Ha. split_pass H u' Hr.
        apply IH in H. destruct H as [Hl Hf].
        rewrite (HE _ _ Ha), Hf, Hl. split; reflexivity.
    Qed.

    Lemma check_call_ar f args r :
      check_call false T E f args = Pass r -> ar_call F AE f args = true.
    Proof.
      unfold check_call, ar_call. rewrite HTF.
      destruct (alookup (iname f) F) as [fd|]; cbn [option_map sig_of_func]; [|discriminate].
      intro H. split_pass H u Ha. apply check_args_ar in Ha. destruct Ha as [Hl Hf].
      rewrite Hl, Nat.eqb_refl, Hf. reflexivity.
    Qed.

    Lemma check_operand_ar v t :
      check_operand false T G E v = Pass t -> ar_val F AE v = true.
    Proof.
      destruct v; cbn [check_operand ar_val]; try reflexivity.
      - apply check_call_ar.
      - apply HE.
    Qed.

    Lemma check_links_ar : forall rest left t,
      check_links false T G E left rest = Pass t ->
      forallb (fun l => ar_val F AE (snd l)) rest = true.
    Proof.
      induction rest as [|[op v] rest IH]; intros left t; cbn [check_links forallb snd]; intro H.
      - reflexivity.
      - split_pass H t1 Hv. split_pass H u Hr.
        rewrite (check_operand_ar _ _ Hv), (IH _ _ H). reflexivity.
    Qed.

    Lemma check_expr_step_ar e t :
      check_expr_step false T G E e = Pass t -> ar_body F AE e = true.
    Proof.
      unfold check_expr_step, ar_body. destruct (fold_priority e) as [v rest].
      intro H. split_pass H t1 Hv.
      rewrite (check_operand_ar _ _ Hv), (check_links_ar _ _ _ H). reflexivity.
    Qed.
  End OneLevel.

  Lemma check_expr_ar G : forall fuel e t,
    check_expr false T G fuel e = Pass t -> ar_expr F fuel e = true.
  Proof.
    induction fuel as [|fuel IH]; intros e t; cbn [check_expr ar_expr]; intro H.
    - discriminate H.
    - eapply check_expr_step_ar; [|exact H]. exact IH.
  Qed.

  (** ** Statements *)
  Section StmtAr.
    Variable fuel : nat.
    Variable RT : sem_ty.

    Lemma ex_ar G e t : ex false T fuel G e = Pass t -> ar_expr F fuel e = true.
    Proof. apply check_expr_ar. Qed.

    Lemma check_lcond_ar G : forall c u,
      check_lcond false T fuel G c = Pass u -> ar_lcond F fuel c = true.
    Proof.
      fix IH 1. intros [l cmp r next] u. cbn [check_lcond ar_lcond]. intro H.
      split_pass H tl Hl. split_pass H tr Hr. split_pass H u1 H1. split_pass H u2 H2.
      rewrite (ex_ar _ _ _ Hl), (ex_ar _ _ _ Hr). cbn [andb].
      destruct next as [[op c']|]; [exact (IH c' u H) | reflexivity].
    Qed.

    Lemma check_cond_ar G c u :
      check_cond false T fuel G c = Pass u -> ar_cond F fuel c = true.
    Proof.
      destruct c; cbn [check_cond ar_cond]; intro H.
      - split_pass H t Ht. exact (ex_ar _ _ _ Ht).
      - exact (check_lcond_ar _ _ _ H).
    Qed.

    Lemma check_let_ar G x m ty e G' :
      check_let false T fuel G x m ty e = Pass G' -> ar_expr F fuel e = true.
    Proof.
      unfold check_let. intro H. split_pass H t Ht. exact (ex_ar _ _ _ Ht).
    Qed.

    Lemma check_assign_ar G x e u :
      check_assign false T fuel G x e = Pass u -> ar_expr F fuel e = true.
    Proof.
      unfold check_assign. intro H. split_pass H t Ht. exact (ex_ar _ _ _ Ht).
    Qed.

    Lemma check_call_stmt_ar G f args u :
      check_call_stmt false T fuel G f args = Pass u ->
      ar_call F (ar_expr F fuel) f args = true.
    Proof.
      unfold check_call_stmt. intro H. split_pass H t Ht.
      eapply check_call_ar; [|exact Ht]. intros e t'. apply ex_ar.
    Qed.

    Section ControlAr.
      Variable IFC : scopes -> bool -> ifstmt -> outcome unit.
      Variable LOOP : scopes -> list stmt -> outcome unit.
      Variable AIF : ifstmt -> bool.
      Variable ALOOP : list stmt -> bool.
      Hypothesis HIFC : forall G il i u, IFC G il i = Pass u -> AIF i = true.
      Hypothesis HLOOP : forall G b u, LOOP G b = Pass u -> ALOOP b = true.

      Lemma check_nested_stmt_ar loopy il G st r :
        check_nested_stmt false T fuel RT IFC LOOP loopy il G st = Pass r ->
        ar_nested F fuel AIF ALOOP st = true.
      Proof.
        destruct st; cbn [check_nested_stmt ar_nested]; intro H; try reflexivity.
        - split_pass H G' HG. exact (check_let_ar _ _ _ _ _ _ HG).
        - split_pass H u Hu. exact (check_assign_ar _ _ _ _ Hu).
        - split_pass H u Hu. exact (check_call_stmt_ar _ _ _ _ Hu).
        - split_pass H u Hu. exact (HIFC _ _ _ _ Hu).
        - split_pass H u Hu. exact (HLOOP _ _ _ Hu).
        - split_pass H t Ht. exact (ex_ar _ _ _ Ht).
      Qed.

      Lemma check_block_ar loopy il : forall ss G ended u,
        check_block false T fuel RT IFC LOOP loopy il G ended ss = Pass u ->
        forallb (ar_nested F fuel AIF ALOOP) ss = true.
      Proof.
        induction ss as [|st ss IH]; intros G ended u; cbn [check_block forallb]; intro H.
        - reflexivity.
        - split_pass H u0 H0. split_pass H r Hr.
          rewrite (check_nested_stmt_ar _ _ _ _ _ Hr), (IH _ _ _ H). reflexivity.
      Qed.

      Lemma check_ifbody_ar G il b u :
        check_ifbody false T fuel RT IFC LOOP G il b = Pass u ->
        ar_ifbody F fuel AIF ALOOP b = true.
      Proof.
        destruct b; cbn [check_ifbody ar_ifbody]; intro H.
        - exact (check_block_ar _ _ _ _ _ _ H).
        - destruct il; [exact (check_block_ar _ _ _ _ _ _ H) | discriminate H].
      Qed.

      Lemma check_if_step_ar G il i u :
        check_if_step false T fuel RT IFC LOOP G il i = Pass u ->
        ar_if_step F fuel AIF ALOOP i = true.
      Proof.
        destruct i as [c body els elif]. cbn [check_if_step ar_if_step]. intro H.
        split_pass H u0 H0. split_pass H u1 Hc. split_pass H u2 Hb.
        rewrite (check_cond_ar _ _ _ Hc), (check_ifbody_ar _ _ _ _ Hb). cbn [andb].
        destruct els as [eb|]; [exact (check_ifbody_ar _ _ _ _ H)|].
        destruct elif as [ei|]; [exact (HIFC _ _ _ _ H) | reflexivity].
      Qed.

      Lemma check_loop_step_ar G body u :
        check_loop_step false T fuel RT IFC LOOP G body = Pass u ->
        ar_loop_step F fuel AIF ALOOP body = true.
      Proof. unfold check_loop_step, ar_loop_step. apply check_block_ar. Qed.
    End ControlAr.

    Lemma check_if_loop_ar : forall n,
      (forall G il i u, check_if false T fuel RT n G il i = Pass u -> ar_if F fuel n i = true) /\
      (forall G b u, check_loop false T fuel RT n G b = Pass u -> ar_loop F fuel n b = true).
    Proof.
      induction n as [|n [IHi IHl]]; split; intros until u; cbn [check_if check_loop ar_if ar_loop];
        intro H.
      - discriminate H.
      - discriminate H.
      - eapply check_if_step_ar; [exact IHi | exact IHl | exact H].
      - eapply check_loop_step_ar; [exact IHi | exact IHl | exact H].
    Qed.

    Lemma check_fn_stmt_ar G returned st r :
      check_fn_stmt false T fuel RT G returned st = Pass r -> ar_fn_stmt F fuel st = true.
    Proof.
      destruct st; cbn [check_fn_stmt ar_fn_stmt]; intro H; try reflexivity.
      - split_pass H G' HG. exact (check_let_ar _ _ _ _ _ _ HG).
      - split_pass H u Hu. exact (check_assign_ar _ _ _ _ Hu).
      - split_pass H u Hu. exact (check_call_stmt_ar _ _ _ _ Hu).
      - split_pass H u Hu. exact (proj1 (check_if_loop_ar fuel) _ _ _ _ Hu).
      - split_pass H u Hu. exact (proj2 (check_if_loop_ar fuel) _ _ _ Hu).
      - split_pass H t Ht. exact (ex_ar _ _ _ Ht).
      - split_pass H t Ht. exact (ex_ar _ _ _ Ht).
    Qed.

    Lemma check_fn_stmts_ar : forall ss G returned b,
      check_fn_stmts false T fuel RT G returned ss = Pass b ->
      forallb (ar_fn_stmt F fuel) ss = true.
    Proof.
      induction ss as [|st ss IH]; intros G returned b; cbn [check_fn_stmts forallb]; intro H.
      - reflexivity.
      - split_pass H u0 H0. split_pass H r Hr.
        rewrite (check_fn_stmt_ar _ _ _ _ Hr), (IH _ _ _ H). reflexivity.
    Qed.
  End StmtAr.

  Lemma check_fn_body_ar f u : check_fn_body false T f = Pass u -> ar_fn F f = true.
  Proof.
    unfold check_fn_body, ar_fn. intro H. split_pass H params Hp. split_pass H returned Hr.
    change (fuel_of_fn f) with (fuel_of f) in Hr.
    exact (check_fn_stmts_ar _ _ _ _ _ _ Hr).
  Qed.

  Lemma check_bodies_ar : forall fs u,
    check_bodies false T fs = Pass u -> forallb (ar_fn F) fs = true.
  Proof.
    induction fs as [|f fs IH]; intro u; cbn [check_bodies forallb]; intro H.
    - reflexivity.
    - split_pass H u0 H0. rewrite (check_fn_body_ar _ _ H0), (IH _ H). reflexivity.
  Qed.
End ArSpec.

Lemma tables_of_funcs G k :
  alookup k (tb_funcs (tables_of G)) = option_map sig_of_func (alookup k (g_funcs G)).
Proof. unfold tables_of. cbn [tb_funcs]. apply alookup_map. Qed.

Theorem wf_arity : forall p,
  wf_b p = true ->
  forallb (ar_fn (g_funcs (gs_globals (declarations p)))) (functions_of p) = true.
Proof.
  intro p. unfold wf_b, first_violation. intro H.
  destruct (check_program false p) as [u|v|] eqn:Hp; try discriminate H. clear H.
  unfold check_program in Hp.
  split_pass Hp types Hs. split_pass Hp T Hd.
  pose proof (check_decls_mono p _ T Hd) as Hd'.
  pose proof (declarations_sim p) as HD. rewrite Hs, Hd' in HD. destruct HD as (_ & HT).
  rewrite <- fn_decls_functions_of. subst T.
  eapply check_bodies_ar; [|exact Hp].
  intro k. apply tables_of_funcs.
Qed.

(** * Part 2: the global tables of a run *)

(** ** Attribute indices of a normalised attribute list *)
Definition attr_idx {A} (e : string * N * A) : N := snd (fst e).

Lemma norm_attrs_ge {A} : forall (l : list (string * A)) i,
  Forall (fun e => i <= attr_idx e) (norm_attrs i l).
Proof.
  induction l as [|[x a] l IH]; intro i; cbn [norm_attrs]; [constructor|].
  assert (HF : Forall (fun e : string * N * A => i <= attr_idx e) (norm_attrs (i + 1) l)).
  { eapply Forall_impl; [|apply IH]. cbn beta. intros e He. lia. }
  destruct (existsb (fun p => String.eqb x (fst p)) l); [exact HF|].
  constructor; [unfold attr_idx; cbn; lia | exact HF].
Qed.

Lemma norm_attrs_nodup {A} : forall (l : list (string * A)) i,
  NoDup (map attr_idx (norm_attrs i l)).
Proof.
  induction l as [|[x a] l IH]; intro i; cbn [norm_attrs]; [constructor|].
  destruct (existsb (fun p => String.eqb x (fst p)) l); [apply IH|].
  cbn [map]. constructor; [|apply IH].
  intro Hin. apply in_map_iff in Hin. destruct Hin as (e & He & Hin).
  pose proof (norm_attrs_ge l (i + 1)) as HF. rewrite Forall_forall in HF.
  specialize (HF e Hin). unfold attr_idx in He, HF. cbn in He. lia.
Qed.

Lemma attr_lookup_idx_in : forall attrs a idx aty,
  attr_lookup a attrs = Some (idx, aty) -> In idx (map attr_idx attrs).
Proof.
  induction attrs as [|[[x i] t] attrs IH]; intros a idx aty; cbn [attr_lookup map]; intro H.
  - discriminate H.
  - destruct (String.eqb a x).
    + injection H as Hi _. left. unfold attr_idx. cbn. exact Hi.
    + right. exact (IH _ _ _ H).
Qed.

Lemma attr_lookup_at : forall attrs,
  NoDup (map attr_idx attrs) ->
  forall a idx aty, attr_lookup a attrs = Some (idx, aty) -> attr_ty_at idx attrs = Some aty.
Proof.
  induction attrs as [|[[x i] t] attrs IH]; intros Hnd a idx aty;
    cbn [attr_lookup attr_ty_at]; intro H.
  - discriminate H.
  - cbn [map] in Hnd. inversion Hnd as [|? ? Hni Hnd']; subst.
    destruct (String.eqb a x).
    + injection H as Hi Ht. subst. rewrite N.eqb_refl. reflexivity.
    + destruct (N.eqb_spec idx i) as [->|Hne].
      * exfalso. apply Hni. exact (attr_lookup_idx_in _ _ _ _ H).
      * exact (IH Hnd' _ _ _ H).
Qed.

Lemma struct_of_decl_at name dattrs n attrs a idx aty :
  SStruct n attrs = struct_of_decl name dattrs ->
  attr_lookup a attrs = Some (idx, aty) -> attr_ty_at idx attrs = Some aty.
Proof.
  unfold struct_of_decl. cbn [sem_of_ty]. intro He. injection He as _ Ha. subst attrs.
  apply attr_lookup_at. apply norm_attrs_nodup.
Qed.

(** ** The invariant of the declaration phase *)
Definition ginv (G : globals) : Prop :=
  (forall k fd, In (k, fd) (g_funcs G) -> f_name fd = k) /\
  (forall k c, In (k, c) (g_consts G) -> c_name c = k) /\
  (forall k t, In (k, t) (g_types G) -> exists name attrs, t = struct_of_decl name attrs).

Lemma ginv0 : ginv (gs_globals gstate0).
Proof. repeat split; intros ? ? []. Qed.

Lemma g_check_type_exists_globals st t v l :
  gs_globals (fst (g_check_type_exists st t v l)) = gs_globals st.
Proof.
  unfold g_check_type_exists. destruct (is_prim t); [reflexivity|].
  destruct (amem (type_name t) (g_types (gs_globals st))); reflexivity.
Qed.

Lemma decl_fn_params_globals floc : forall ps st q,
  gs_globals (fst (decl_fn_params st q floc ps)) = gs_globals st.
Proof.
  induction ps as [|[x t] ps IH]; intros st q; cbn [decl_fn_params]; [reflexivity|].
  destruct q; [apply IH|].
  pose proof (g_check_type_exists_globals st (sem_of_ty t) (iname x) floc) as HG.
  destruct (g_check_type_exists st (sem_of_ty t) (iname x) floc) as [st' ok]. cbn [fst] in HG.
  rewrite IH. exact HG.
Qed.

Lemma decl_type_inv st name attrs :
  ginv (gs_globals st) -> ginv (gs_globals (decl_type st name attrs)).
Proof.
  intros (Hf & Hc & Ht). unfold decl_type. cbv zeta.
  destruct (amem (iname name) (g_types (gs_globals st))); cbn [g_add_error gs_globals].
  - split; [exact Hf | split; [exact Hc | exact Ht]].
  - split; [exact Hf | split; [exact Hc |]]. cbn [g_types]. intros k t Hin.
    apply in_app_or in Hin. destruct Hin as [Hin|[Hin|[]]].
    + exact (Ht _ _ Hin).
    + injection Hin as _ <-. exists name, attrs. reflexivity.
Qed.

Lemma decl_const_inv st name ty v :
  ginv (gs_globals st) -> ginv (gs_globals (decl_const st name ty v)).
Proof.
  intros (Hf & Hc & Ht). unfold decl_const. cbv zeta.
  destruct (amem (iname name) (g_consts (gs_globals st))); cbn [g_add_error gs_globals].
  { split; [exact Hf | split; [exact Hc | exact Ht]]. }
  destruct (check_const_links (gs_globals st) (ce_rest v)); cbn [g_add_error gs_globals].
  { split; [exact Hf | split; [exact Hc | exact Ht]]. }
  pose proof (g_check_type_exists_globals st (c_ty (const_of name ty v))
                (c_name (const_of name ty v)) (iloc name)) as HG.
  destruct (g_check_type_exists st (c_ty (const_of name ty v))
              (c_name (const_of name ty v)) (iloc name)) as [st' ok]. cbn [fst] in HG.
  destruct ok.
  - cbn [gs_globals g_types g_consts g_funcs]. rewrite HG.
    split; [exact Hf | split; [| exact Ht]]. intros k c Hin.
    apply in_app_or in Hin. destruct Hin as [Hin|[Hin|[]]].
    + exact (Hc _ _ Hin).
    + injection Hin as <- <-. reflexivity.
  - rewrite HG. split; [exact Hf | split; [exact Hc | exact Ht]].
Qed.

Lemma decl_fn_inv st f : ginv (gs_globals st) -> ginv (gs_globals (decl_fn st f)).
Proof.
  intros (Hf & Hc & Ht). unfold decl_fn. cbv zeta.
  destruct (amem (iname (fn_name f)) (g_funcs (gs_globals st))); cbn [g_add_error gs_globals].
  { split; [exact Hf | split; [exact Hc | exact Ht]]. }
  pose proof (g_check_type_exists_globals st (sem_of_ty (fn_result f)) (iname (fn_name f))
                (iloc (fn_name f))) as HG1.
  destruct (g_check_type_exists st (sem_of_ty (fn_result f)) (iname (fn_name f))
              (iloc (fn_name f))) as [st1 ok]. cbn [fst] in HG1.
  pose proof (decl_fn_params_globals (iloc (fn_name f)) (fn_params f) st1 (negb ok)) as HG2.
  destruct (decl_fn_params st1 (negb ok) (iloc (fn_name f)) (fn_params f)) as [st2 quit].
  cbn [fst] in HG2. rewrite HG1 in HG2.
  destruct quit.
  - rewrite HG2. split; [exact Hf | split; [exact Hc | exact Ht]].
  - cbn [gs_globals g_types g_consts g_funcs]. rewrite HG2.
    split; [| split; [exact Hc | exact Ht]]. intros k fd Hin.
    apply in_app_or in Hin. destruct Hin as [Hin|[Hin|[]]].
    + exact (Hf _ _ Hin).
    + injection Hin as <- <-. reflexivity.
Qed.

Lemma pass_types_inv st t : ginv (gs_globals st) -> ginv (gs_globals (pass_types st t)).
Proof. destruct t; cbn [pass_types]; try exact (fun H => H). apply decl_type_inv. Qed.

Lemma pass_decls_inv st t : ginv (gs_globals st) -> ginv (gs_globals (pass_decls st t)).
Proof.
  destruct t; cbn [pass_decls]; try exact (fun H => H).
  - apply decl_const_inv.
  - apply decl_fn_inv.
Qed.

Lemma fold_inv (step : gstate -> top -> gstate) :
  (forall st t, ginv (gs_globals st) -> ginv (gs_globals (step st t))) ->
  forall p st, ginv (gs_globals st) -> ginv (gs_globals (fold_left step p st)).
Proof.
  intro Hs. induction p as [|t p IH]; intros st H; cbn [fold_left]; [exact H|].
  apply IH, Hs, H.
Qed.

Lemma declarations_inv p : ginv (gs_globals (declarations p)).
Proof.
  unfold declarations. apply (fold_inv pass_decls pass_decls_inv).
  apply (fold_inv pass_types pass_types_inv). exact ginv0.
Qed.

Theorem declarations_GWf : forall p, GWf (gs_globals (declarations p)).
Proof.
  intro p. destruct (declarations_inv p) as (Hf & Hc & Ht). constructor.
  - intros k fd H. exact (Hf _ _ (alookup_in _ _ _ H)).
  - intros k c H. exact (Hc _ _ (alookup_in _ _ _ H)).
  - intros k n attrs a idx aty H Ha.
    destruct (Ht _ _ (alookup_in _ _ _ H)) as (name & dattrs & He).
    exact (struct_of_decl_at _ _ _ _ _ _ _ He Ha).
Qed.

Print Assumptions wf_arity.
Print Assumptions declarations_GWf.
