(** The INTENDED structured semantics outside the class of finding F5.

    [Spec/Exec.v] has two readings of the source statements: [quirk = true] (finding F5: an [if]
    that is a statement of an if / else / else-if body continues, when it completes normally,
    after the outermost enclosing if-chain) and [quirk = false] (intended).  The simulation
    [FlowSim.flow_simulation] is proved for [quirk = true]; [Properties/C05.v] refutes it for
    [quirk = false] by a program in which an [if] nested in an if-body is FOLLOWED by a statement.

    Here: the decidable class [tail_ifs] ("outside K_F5": in every if / else / else-if body, at any
    depth, an [if] statement can only be the LAST statement of that body) and the theorem that on
    this class both readings are the same function ([struct_exec_quirk_irrelevant]).  Hence the
    intended C05 holds there ([flow_simulation_intended], [chk_C05_intended_holds]): the known
    class is exactly where the deviation lives. *)
From Coq Require Import Lia.
From SA Require Import Model.
From SA.Spec Require Import Stack Exec.
From SA.Mon Require Import Control.
From SA.Proofs Require Import ExecBasic FlowBasic FlowSim.
Local Open Scope list_scope.

(** ** The class *)

(** [ti_stmt s]: the if-bodies nested in [s] have their [if] statements in last position only.
    [ti_ifbody]: a statement list that IS an if-body: every statement is fine inside, and an
    [SIf] has no successor. *)
Fixpoint ti_stmt (s : stmt) : bool :=
  match s with
  | SIf i => ti_if i
  | SLoop body =>
      (fix go (l : list stmt) : bool :=
         match l with [] => true | s' :: l' => ti_stmt s' && go l' end) body
  | _ => true
  end
with ti_if (i : ifstmt) : bool :=
  match i with
  | IfS _ body els elif =>
      ti_ifbody body &&
      match els with Some b => ti_ifbody b | None => true end &&
      match elif with Some i' => ti_if i' | None => true end
  end
with ti_ifbody (b : ifbody) : bool :=
  match b with
  | IBIf ss | IBLoop ss =>
      (fix go (l : list stmt) : bool :=
         match l with
         | [] => true
         | s' :: l' =>
             ti_stmt s' &&
             match s', l' with SIf _, _ :: _ => false | _, _ => true end &&
             go l'
         end) ss
  end.

(** a function body or a loop body: [if] statements anywhere *)
Definition ti_block (ss : list stmt) : bool := forallb ti_stmt ss.

(** an if / else / else-if body: an [if] statement only in last position *)
Fixpoint ti_ifstmts (ss : list stmt) : bool :=
  match ss with
  | [] => true
  | s :: ss' =>
      ti_stmt s &&
      match s, ss' with SIf _, _ :: _ => false | _, _ => true end &&
      ti_ifstmts ss'
  end.

(** "Outside K_F5". *)
Definition tail_ifs (body : list stmt) : bool := ti_block body.

Lemma ti_stmt_loop body : ti_stmt (SLoop body) = ti_block body.
Proof.
  cbn [ti_stmt]. induction body as [|s ss IH]; [reflexivity|]. cbn [ti_block forallb].
  rewrite IH. reflexivity.
Qed.

Lemma ti_ifbody_stmts b : ti_ifbody b = ti_ifstmts (ifbody_stmts b).
Proof.
  destruct b as [ss|ss]; cbn [ti_ifbody ifbody_stmts];
    (induction ss as [|s ss IH]; [reflexivity|]; cbn [ti_ifstmts]; rewrite IH; reflexivity).
Qed.

Lemma ti_if_IfS c body els elif :
  ti_if (IfS c body els elif) =
  ti_ifstmts (ifbody_stmts body) &&
  match els with Some b => ti_ifstmts (ifbody_stmts b) | None => true end &&
  match elif with Some i' => ti_if i' | None => true end.
Proof.
  cbn [ti_if]. rewrite ti_ifbody_stmts. destruct els as [b|]; [rewrite (ti_ifbody_stmts b)|];
    reflexivity.
Qed.

(** ** The simulation relation *)

(** The quirk run may end with [JumpOuterEnd] where the intended run ends with [Normal]. *)
Definition crel (q i : completion) : Prop := q = i \/ (q = JumpOuterEnd /\ i = Normal).

Definition rrel (rq ri : sres) : Prop :=
  fst (fst rq) = fst (fst ri) /\ crel (snd (fst rq)) (snd (fst ri)) /\ snd rq = snd ri.

Lemma rrel_refl r : rrel r r.
Proof. split; [|split]; try reflexivity. left. reflexivity. Qed.

Lemma rrel_eq r r' : r = r' -> rrel r r'.
Proof. intros ->. apply rrel_refl. Qed.

Lemma rrel_prepend ev rq ri : rrel rq ri -> rrel (prepend ev rq) (prepend ev ri).
Proof.
  destruct rq as [[eq cq] wq], ri as [[ei ci] wi]. unfold rrel. cbn.
  intros (-> & Hc & ->). auto.
Qed.

(** An [if] that is a statement of a function or loop body: both readings complete alike. *)
Lemma if_exit_block rq ri : rrel rq ri -> if_exit true false rq = if_exit false false ri.
Proof.
  destruct rq as [[eq cq] wq], ri as [[ei ci] wi]. unfold rrel. cbn.
  intros (-> & [-> | [-> ->]] & ->); reflexivity.
Qed.

(** An [if] that is a statement of an if-body: still related. *)
Lemma if_exit_nested rq ri : rrel rq ri -> rrel (if_exit true true rq) (if_exit false true ri).
Proof.
  destruct rq as [[eq cq] wq], ri as [[ei ci] wi]. unfold rrel. cbn.
  intros (-> & [-> | [-> ->]] & ->); (split; [reflexivity | split; [|reflexivity]]).
  - destruct ci; try (left; reflexivity). right. split; reflexivity.
  - right. split; reflexivity.
Qed.

(** The last statement of a sequence: the tail is empty, [Normal] and [JumpOuterEnd] both end
    the sequence. *)
Lemma rrel_seq_last rq ri n m b :
  rrel rq ri ->
  rrel (seq rq (exec_stmts true n b [])) (seq ri (exec_stmts false m b [])).
Proof.
  destruct rq as [[eq cq] wq], ri as [[ei ci] wi]. unfold rrel. cbn [fst snd].
  intros (-> & [-> | [-> ->]] & ->).
  - destruct ci; cbn [seq]; try (split; [reflexivity | split; [left|]; reflexivity]).
    rewrite !exec_stmts_nil. cbn. split; [reflexivity | split; [left|]; reflexivity].
  - cbn [seq]. rewrite exec_stmts_nil. cbn. rewrite app_nil_r.
    split; [reflexivity | split; [right; split|]; reflexivity].
Qed.

(** ** Both interpreters, by induction on the fuel *)
Lemma exec_quirk_sim : forall n,
  (forall s w, ti_stmt s = true ->
     exec_stmt true n false s w = exec_stmt false n false s w /\
     rrel (exec_stmt true n true s w) (exec_stmt false n true s w) /\
     ((forall i, s <> SIf i) -> exec_stmt true n true s w = exec_stmt false n true s w)) /\
  (forall ss w, ti_block ss = true ->
     exec_stmts true n false ss w = exec_stmts false n false ss w) /\
  (forall ss w, ti_ifstmts ss = true ->
     rrel (exec_stmts true n true ss w) (exec_stmts false n true ss w)) /\
  (forall i w, ti_if i = true -> rrel (exec_if true n i w) (exec_if false n i w)) /\
  (forall body w, ti_block body = true -> exec_loop true n body w = exec_loop false n body w).
Proof.
  induction n as [|n (IHs & IHb & IHss & IHi & IHl)].
  - split; [|split; [|split; [|split]]].
    + intros s w _. split; [reflexivity | split; [apply rrel_refl | reflexivity]].
    + intros [|s ss] w _; reflexivity.
    + intros [|s ss] w _; apply rrel_refl.
    + intros i w _. apply rrel_refl.
    + intros body w _. reflexivity.
  - split; [|split; [|split; [|split]]].
    + (* one statement *)
      intros s w Hs. rewrite !exec_stmt_S.
      destruct s as [x m ty e | x e | f args | i | body | e | e | |];
        try (split; [reflexivity | split; [apply rrel_refl | reflexivity]]).
      * (* SIf *)
        cbn [ti_stmt] in Hs. pose proof (IHi i w Hs) as Hr.
        split; [apply if_exit_block, Hr | split; [apply if_exit_nested, Hr|]].
        intro Hne. exfalso. apply (Hne i). reflexivity.
      * (* SLoop *)
        rewrite ti_stmt_loop in Hs. rewrite (IHl body w Hs).
        split; [reflexivity | split; [apply rrel_refl | reflexivity]].
    + (* a function / loop body *)
      intros [|s ss] w Hb; [reflexivity|]. rewrite !exec_stmts_S.
      cbn [ti_block forallb] in Hb. apply Bool.andb_true_iff in Hb. destruct Hb as [Hs Hb].
      destruct (IHs s w Hs) as (-> & _ & _).
      destruct (exec_stmt false n false s w) as [[ev c] w']. destruct c; try reflexivity.
      cbn [seq]. rewrite (IHb ss w' Hb). reflexivity.
    + (* an if-body *)
      intros [|s ss] w Hb; [apply rrel_refl|]. rewrite !exec_stmts_S.
      cbn [ti_ifstmts] in Hb. apply Bool.andb_true_iff in Hb. destruct Hb as [Hb Hss].
      apply Bool.andb_true_iff in Hb. destruct Hb as [Hs Hlast].
      destruct (IHs s w Hs) as (_ & Hr & Hne).
      destruct ss as [|s' ss'].
      * (* the last statement *)
        apply rrel_seq_last, Hr.
      * (* not the last one: not an [if] *)
        assert (forall i, s <> SIf i) as Hns.
        { intros i ->. discriminate Hlast. }
        rewrite (Hne Hns).
        destruct (exec_stmt false n true s w) as [[ev c] w']. destruct c; try apply rrel_refl.
        cbn [seq]. apply rrel_prepend. apply IHss, Hss.
    + (* an if chain *)
      intros [c body els elif] w Hi. rewrite !exec_if_S.
      rewrite ti_if_IfS in Hi. apply Bool.andb_true_iff in Hi. destruct Hi as [Hi Helif].
      apply Bool.andb_true_iff in Hi. destruct Hi as [Hbody Hels].
      destruct w as [|o w']; [apply rrel_refl|].
      apply rrel_prepend. destruct o.
      * apply IHss, Hbody.
      * destruct els as [eb|]; [apply IHss, Hels|].
        destruct elif as [ei|]; [apply IHi, Helif | apply rrel_refl].
    + (* a loop *)
      intros body w Hb. rewrite !exec_loop_S. rewrite (IHb body w Hb).
      destruct (exec_stmts false n false body w) as [[ev c] w']. destruct c; try reflexivity;
        cbn [loop_exit]; rewrite (IHl body w' Hb); reflexivity.
Qed.

(** ** Outside K_F5 the finding is invisible *)
Theorem struct_exec_quirk_irrelevant : forall body,
  tail_ifs body = true ->
  forall w n, struct_exec true body w n = struct_exec false body w n.
Proof.
  intros body Hb w n. unfold struct_exec.
  rewrite (proj1 (proj2 (exec_quirk_sim n)) body w Hb). reflexivity.
Qed.

(** ** The intended C05 outside K_F5 *)
Lemma Forall2_Forall_l {A B} (P : A -> B -> Prop) (Q : A -> Prop) la lb :
  Forall2 P la lb -> Forall Q la -> Forall2 (fun a b => P a b /\ Q a) la lb.
Proof.
  induction 1 as [|a b la lb Hab _ IH]; intro HQ; [constructor|].
  inversion HQ; subst. constructor; [split; assumption | apply IH; assumption].
Qed.

(** the full form: agreement AND the structured run never falls off the end of the body *)
Theorem flow_simulation_intended_ok : forall p out,
  run p = ROk out -> o_errors out = [] ->
  Forall (fun f => tail_ifs (fn_body f) = true) (functions_of p) ->
  Forall2 (fun f root =>
             forall w n1 n2,
               agree (flat_exec (b_ctx root) w n1) (struct_exec false (fn_body f) w n2) = true /\
               flat_ok (snd (struct_exec false (fn_body f) w n2)) = true)
          (functions_of p) (o_fns out).
Proof.
  intros p out H Hacc Hti.
  eapply Forall2_impl; [|exact (Forall2_Forall_l _ _ _ _ (flow_simulation p out H Hacc) Hti)].
  cbv beta. intros f root [HS Hf] w n1 n2.
  rewrite <- (struct_exec_quirk_irrelevant _ Hf). apply HS.
Qed.

Theorem flow_simulation_intended : forall p out,
  run p = ROk out -> o_errors out = [] ->
  Forall (fun f => tail_ifs (fn_body f) = true) (functions_of p) ->
  Forall2 (fun f root =>
             forall w n1 n2,
               agree (flat_exec (b_ctx root) w n1) (struct_exec false (fn_body f) w n2) = true)
          (functions_of p) (o_fns out).
Proof.
  intros p out H Hacc Hti.
  eapply Forall2_impl; [|exact (flow_simulation_intended_ok p out H Hacc Hti)].
  cbv beta. intros f root HS w n1 n2. apply HS.
Qed.

(** When the intended structured execution returns, so does the jump program, with the same
    events. *)
Theorem flow_simulation_intended_returns : forall p out,
  run p = ROk out -> o_errors out = [] ->
  Forall (fun f => tail_ifs (fn_body f) = true) (functions_of p) ->
  Forall2 (fun f root =>
             forall w n2 ev,
               struct_exec false (fn_body f) w n2 = (ev, Returned) ->
               exists n1, forall n, (n1 <= n)%nat -> flat_exec (b_ctx root) w n = (ev, Returned))
          (functions_of p) (o_fns out).
Proof.
  intros p out H Hacc Hti.
  eapply Forall2_impl;
    [|exact (Forall2_Forall_l _ _ _ _ (flow_simulation_returns p out H Hacc) Hti)].
  cbv beta. intros f root [HS Hf] w n2 ev E.
  rewrite <- (struct_exec_quirk_irrelevant _ Hf) in E. exact (HS w n2 ev E).
Qed.

Lemma forallb_pointwise {A} (f g : A -> bool) l :
  (forall x, f x = g x) -> forallb f l = forallb g l.
Proof. intro H. induction l as [|x l IH]; [reflexivity|]. cbn. rewrite H, IH. reflexivity. Qed.

(** The monitors with and without the finding coincide outside K_F5 (any output). *)
Theorem chk_C05_quirk_irrelevant : forall p,
  Forall (fun f => tail_ifs (fn_body f) = true) (functions_of p) ->
  forall k fuel o, chk_C05 true k fuel p o = chk_C05 false k fuel p o.
Proof.
  intros p Hti k fuel o. unfold chk_C05.
  generalize (o_fns o) as roots. induction Hti as [|f fs Hf _ IH]; intros [|root roots];
    try reflexivity.
  cbn [forallb2]. rewrite IH. f_equal.
  unfold chk_C05_fn. apply forallb_pointwise. intro w. unfold chk_C05_word.
  rewrite (struct_exec_quirk_irrelevant _ Hf). reflexivity.
Qed.

(** The intended monitor never fires on the model's output for an accepted program outside
    K_F5. *)
Theorem chk_C05_intended_holds : forall p out,
  run p = ROk out -> o_errors out = [] ->
  Forall (fun f => tail_ifs (fn_body f) = true) (functions_of p) ->
  forall k fuel, chk_C05 false k fuel p out = true.
Proof.
  intros p out H Hacc Hti k fuel.
  rewrite <- (chk_C05_quirk_irrelevant p Hti). apply chk_C05_quirk_holds; assumption.
Qed.

Print Assumptions struct_exec_quirk_irrelevant.
Print Assumptions flow_simulation_intended_ok.
Print Assumptions flow_simulation_intended.
Print Assumptions flow_simulation_intended_returns.
Print Assumptions chk_C05_quirk_irrelevant.
Print Assumptions chk_C05_intended_holds.
