(** C05 with values, progress: the register machine on the stack of a function of an accepted
    program is NEVER STUCK - also on runs that the source semantics cannot finish with any fuel.

    The simulation of [ValueSimFrag.v] / [ValueSimStmt.v] is indexed by the fuel of the SOURCE: when
    that fuel runs out it says nothing more about the machine.  Here the same decomposition into
    placed fragments is used once more, indexed by the fuel of the MACHINE and with the source
    forgotten (the environment is existential):

      [Safe m pc st]: no run of at most [m] steps from [(pc, st)] ends stuck;
      [SF ... d ...]: from every state that agrees with SOME environment through the value tables
      at the entry of [d], the machine is safe for [m] steps, provided it is safe for [m] steps at
      every exit of [d] (fall through, end label of the enclosing if chain, labels of the
      enclosing loop) from every state that agrees with some environment there.

    Straight-line statements, returns and conditions are taken as they are from the simulation
    ([LineSpec], [RetSpec], [CondSpec]: the machine runs through them without being stuck); the loop
    is an induction on [m] (every iteration executes at least its jump); the analyzer is walked
    once more for the control level. *)
From Coq Require Import Lia.
From SA Require Import Model.
From SA.Spec Require Import Stack Bracket Exec Tables.
From SA.Mon Require Import Control.
From SA.Proofs Require Import Reach InvReg Trace InvNames InvLabels Resolve DefUse ExecBasic.
From SA.Proofs Require Import Fold FlowBasic FlowSem FlowExpr FlowSim DenoteLogic ResolutionBase.
From SA.Spec Require Import ValueExec.
From SA.Proofs Require Import ValueSimBase ValueSimExpr ValueSimFrag ValueSimStmt ValueSim.
Local Open Scope list_scope.

Definition nstuck (s : vstatus) : Prop := forall w, s <> VStuck w.

Section SafeFrag.
  Variable V : Type.
  Variable I : interp V.
  Variable c : list instr.
  Hypothesis Hnd : NoDup (set_labels c).
  Hypothesis Hres : resolved c.

  Notation tab := (list (string * value)).
  Notation mst := (mstate V).
  Notation MSt := (MS V c).

  Definition Safe (m : nat) (pc : nat) (st : mst) : Prop :=
    forall k, (k <= m)%nat -> nstuck (snd (vflat_run V I c k pc st)).

  Lemma Safe_le m m' pc st : (m' <= m)%nat -> Safe m pc st -> Safe m' pc st.
  Proof. intros L H k Hk. apply H. lia. Qed.

  Lemma Safe_0 pc st : Safe 0 pc st.
  Proof. intros k Hk w. destruct k; [cbn; discriminate | lia]. Qed.

  Lemma Safe_next m pc st e pc' st' :
    vflat_step V I c pc st = VNext e pc' st' -> Safe m pc' st' -> Safe (S m) pc st.
  Proof.
    intros Hs H k Hk w. destruct k as [|k]; [cbn; discriminate|]. cbn [vflat_run]. rewrite Hs.
    cbn [vprepend_trace snd]. apply H. lia.
  Qed.

  Lemma Safe_next' m pc st e pc' st' :
    vflat_step V I c pc st = VNext e pc' st' -> Safe m pc' st' -> Safe m pc st.
  Proof. intros Hs H. eapply Safe_le; [|eapply Safe_next; eassumption]. lia. Qed.

  Lemma Safe_steps m pc st e pc' st' : vsteps I c pc st e pc' st' -> Safe m pc' st' -> Safe m pc st.
  Proof.
    induction 1 as [|pc st e pc1 st1 e2 pc2 st2 Hs _ IH]; intro H; [exact H|].
    eapply Safe_next'; [exact Hs | apply IH, H].
  Qed.

  Lemma Safe_halts m pc st e s : vhalts I c pc st e s -> nstuck s -> Safe m pc st.
  Proof.
    intros (e1 & p1 & st1 & e2 & Hs & Hh & _) Hn. eapply Safe_steps; [exact Hs|].
    intros k _ w. destruct k as [|k]; [cbn; discriminate|]. cbn [vflat_run]. rewrite Hh. apply Hn.
  Qed.

  (** ** The exits *)
  Definition KE (oe : ectx) (m : nat) : Prop :=
    forall le k te pc st env, oe = Some (le, k, te) -> find_label le c = Some pc -> MSt te st env ->
                              Safe m pc st.
  Definition KB (ll : lctx) (d : list instr) (m : nat) : Prop :=
    forall lb le k tq pc st env, ll = Some (lb, le, k, tq) ->
      ((In (IJumpTo le) d /\ find_label le c = Some pc) \/ find_label lb c = Some pc) ->
      MSt tq st env -> Safe m pc st.

  Lemma KB_incl ll d d' m : incl d d' -> KB ll d' m -> KB ll d m.
  Proof.
    intros Hi H lb le k tq pc st env E Hl HM. eapply H; [exact E | | exact HM].
    destruct Hl as [[Hin El]|El]; [left; split; [apply Hi, Hin | exact El] | right; exact El].
  Qed.
  Lemma KB_shift ll d m : KB ll d m -> KB (shiftL ll) d m.
  Proof.
    intros H lb le k tq pc st env E Hl HM. destruct ll as [[[[lb0 le0] k0] tq0]|]; [|discriminate].
    cbn [shiftL] in E. inversion E; subst. eapply H; [reflexivity | exact Hl | exact HM].
  Qed.

  Definition SF (oe : ectx) (ll : lctx) (nn : bool) (d : list instr) (ts ts' : list tab) (h h' : N)
    : Prop :=
    forall pre post, Pos c pre d post h h' ->
    forall m st env, MSt ts st env ->
      (nn = false -> forall st' env', MSt ts' st' env' -> Safe m (length pre + length d) st') ->
      KE oe m -> KB ll d m -> Safe m (length pre) st.

  Definition SFL (lend : string) (k : nat) (te : list tab) (ll : lctx) (d : list instr)
             (ts : list tab) (h h' : N) : Prop :=
    forall pre post, Pos c pre d post h h' ->
    forall m st env, MSt ts st env ->
      (forall pc st' env', find_label lend c = Some pc -> MSt te st' env' -> Safe m pc st') ->
      KB ll d m -> Safe m (length pre) st.

  (** ** Straight-line statements, returns, break, continue *)
  Lemma SF_line oe ll R d ts ts' h h' : LineSpec V I c ts ts' h h' d R -> SF oe ll false d ts ts' h h'.
  Proof.
    intros HL pre post Hp m st env HM KN _ _.
    destruct (HL pre post Hp st env HM) as (e & st' & env' & Hs & HM' & _).
    eapply Safe_steps; [exact Hs|]. eapply KN; [reflexivity | exact HM'].
  Qed.

  Lemma SF_ret oe ll R d ts ts' h h' : RetSpec V I c ts h h' d R -> SF oe ll true d ts ts' h h'.
  Proof.
    intros HL pre post Hp m st env HM _ _ _.
    destruct (HL pre post Hp st env HM) as (e & Hh & _).
    eapply Safe_halts; [exact Hh|]. intros w E. discriminate.
  Qed.

  Lemma SF_break oe lb le k tq ts ts' h :
    skipn k ts = tq -> SF oe (Some (lb, le, k, tq)) false [IJumpTo le] ts ts' h h.
  Proof.
    intros Hk pre post Hp m st env HM _ _ HB.
    destruct (vstep_jump V I c Hres pre le post st (Pos_c c _ _ _ _ _ Hp)) as (pc & E & Hs).
    eapply Safe_steps; [exact Hs|]. eapply HB; [reflexivity | left; split; [left; reflexivity | exact E]|].
    rewrite <- Hk. apply MS_skipn, HM.
  Qed.

  Lemma SF_continue oe lb le k tq ts ts' h :
    skipn k ts = tq -> SF oe (Some (lb, le, k, tq)) false [IJumpTo lb] ts ts' h h.
  Proof.
    intros Hk pre post Hp m st env HM _ _ HB.
    destruct (vstep_jump V I c Hres pre lb post st (Pos_c c _ _ _ _ _ Hp)) as (pc & E & Hs).
    eapply Safe_steps; [exact Hs|]. eapply HB; [reflexivity | right; exact E|].
    rewrite <- Hk. apply MS_skipn, HM.
  Qed.

  (** ** Sequences *)
  Lemma SF_seq oe ll nn1 nn2 d1 d2 ts tm ts' h hm h' :
    SF oe ll nn1 d1 ts tm h hm -> SF oe ll nn2 d2 tm ts' hm h' ->
    DefsIn h hm d1 -> DefsIn hm h' d2 -> h <= hm -> hm <= h' ->
    SF oe ll (nn1 || nn2) (d1 ++ d2) ts ts' h h'.
  Proof.
    intros H1 H2 D1 D2 L1 L2 pre post Hp m st env HM KN HE HB.
    destruct (Pos_split c _ _ _ _ _ _ _ Hp D1 D2 L1 L2) as [Hp1 Hp2].
    eapply (H1 _ _ Hp1 m st env HM); [|exact HE | eapply KB_incl; [|exact HB]; apply incl_appl, incl_refl].
    intros Hn1 st1 env1 HM1.
    pose proof (H2 _ _ Hp2 m st1 env1 HM1) as H2'. rewrite app_length in H2'. apply H2'.
    - intros Hn2 st2 env2 HM2. rewrite app_length in KN.
      replace (length pre + length d1 + length d2)%nat with (length pre + (length d1 + length d2))%nat by lia.
      apply (KN ltac:(rewrite Hn1, Hn2; reflexivity) st2 env2 HM2).
    - exact HE.
    - eapply KB_incl; [|exact HB]. apply incl_appr, incl_refl.
  Qed.

  Lemma SF_nil oe ll ts h : SF oe ll false [] ts ts h h.
  Proof.
    intros pre post Hp m st env HM KN _ _. rewrite Nat.add_0_r in KN. eapply KN; [reflexivity | exact HM].
  Qed.

  (** ** A block and the jump to the end label *)
  Lemma SFL_block lend k te ll nn d j ts tb h h' :
    SF (Some (lend, S k, te)) (shiftL ll) nn d ([] :: ts) tb h h' ->
    (nn = false -> j = [IJumpTo lend]) -> (nn = true -> j = []) ->
    skipn k ts = te -> tl tb = ts ->
    SFL lend k te ll (d ++ j) ts h h'.
  Proof.
    intros H Hj0 Hj1 Hk Htb pre post Hp m st env HM KL HB.
    assert (Dj : DefsIn h' h' j).
    { destruct nn; [rewrite (Hj1 eq_refl); constructor | rewrite (Hj0 eq_refl); apply DefsIn_nondef; reflexivity]. }
    assert (Hle : h <= h') by (destruct Hp; assumption).
    assert (Dd : DefsIn h h' d).
    { destruct Hp as [_ _ D _ _]. apply DefsIn_app in D. apply D. }
    destruct (Pos_split c _ _ _ _ _ _ _ Hp Dd Dj Hle (N.le_refl h')) as [Hp1 Hp2].
    eapply (H pre _ Hp1 m st ([] :: env) (MS_push V c _ _ _ HM)).
    - intros Hnn st' env' HM'. rewrite (Hj0 Hnn) in Hp2.
      destruct (vstep_jump V I c Hres _ _ _ st' (Pos_c c _ _ _ _ _ Hp2)) as (pc & E & Hs).
      rewrite app_length in Hs. eapply Safe_steps; [exact Hs|].
      eapply (KL pc st' (skipn k (tl env'))); [exact E|].
      rewrite <- Hk, <- Htb, <- !skipn_S_tl. apply MS_skipn, HM'.
    - intros le k' te' pc st' env' E El HM'. inversion E; subst. eapply KL; eassumption.
    - apply KB_shift. eapply KB_incl; [|exact HB]. apply incl_appl, incl_refl.
  Qed.

  (** ** The if statement *)
  Lemma SFL_if lend k te ll cnd dcond ci lbegin target dthen delse ts h h1 h2 h' :
    CondSpec V I c ts h h1 dcond ci lbegin target cnd -> def_reg ci = None ->
    SFL lend k te ll dthen ts h1 h2 ->
    ((exists lelse de, target = lelse /\ delse = ISetLabel lelse :: de /\ SFL lend k te ll de ts h2 h') \/
     (target = lend /\ delse = [] /\ skipn k ts = te)) ->
    DefsIn h h1 dcond -> DefsIn h1 h2 dthen -> DefsIn h2 h' delse ->
    h <= h1 -> h1 <= h2 -> h2 <= h' ->
    SFL lend k te ll (dcond ++ ci :: ISetLabel lbegin :: dthen ++ delse) ts h h'.
  Proof.
    intros Hcond Hcin Hthen Helse Dc Dt De L1 L2 L3 pre post Hp m st env HM KL HB.
    set (d := dcond ++ ci :: ISetLabel lbegin :: dthen ++ delse) in *.
    pose proof (Pos_c c _ _ _ _ _ Hp) as Hc.
    assert (Hp0 : Pos c pre dcond ((ci :: ISetLabel lbegin :: dthen ++ delse) ++ post) h h1).
    { assert (D2 : DefsIn h1 h' (ci :: ISetLabel lbegin :: dthen ++ delse)).
      { change (ci :: ISetLabel lbegin :: dthen ++ delse) with ([ci] ++ [ISetLabel lbegin] ++ dthen ++ delse).
        apply DefsIn_app. split; [apply DefsIn_nondef, Hcin|].
        apply DefsIn_app. split; [apply DefsIn_nondef; reflexivity|].
        apply DefsIn_app. split; (eapply DefsIn_widen; [| |eassumption]; lia). }
      assert (L13 : h1 <= h') by lia.
      exact (proj1 (Pos_split c _ _ _ _ _ _ _ Hp Dc D2 L1 L13)). }
    destruct (Hcond _ _ Hp0 st env HM) as (e & st1 & b & Hs0 & HM1 & _ & Hrd).
    eapply Safe_steps; [exact Hs0|].
    assert (Hc1 : c = (pre ++ dcond) ++ ci :: (ISetLabel lbegin :: dthen ++ delse ++ post))
      by (rewrite Hc; unfold d; vsplit_eq).
    assert (Hci_in : In ci c) by (rewrite Hc1; apply in_mid).
    pose proof (vstep_at V I c _ _ _ st1 Hc1) as Hs. rewrite app_length in Hs.
    rewrite (cond_step V I c _ _ _ _ _ _ Hrd) in Hs.
    destruct b.
    - assert (Hc2 : c = (pre ++ dcond ++ [ci]) ++ ISetLabel lbegin :: (dthen ++ delse ++ post))
        by (rewrite Hc; unfold d; vsplit_eq).
      rewrite (vgoto_to V c _ _ _ (label_pos c Hnd _ _ _ Hc2)) in Hs.
      assert (Hp3 : Pos c (pre ++ dcond ++ [ci; ISetLabel lbegin]) dthen (delse ++ post) h1 h2).
      { assert (Hp' : Pos c pre ((dcond ++ [ci; ISetLabel lbegin]) ++ dthen ++ delse) post h h').
        { replace ((dcond ++ [ci; ISetLabel lbegin]) ++ dthen ++ delse) with d by (unfold d; vsplit_eq).
          exact Hp. }
        apply (Pos_mid c pre (dcond ++ [ci; ISetLabel lbegin]) dthen delse post h h1 h2 h' Hp');
          [ | exact Dt | exact De | lia | lia | lia].
        apply DefsIn_app. split; [eapply DefsIn_widen; [| |exact Dc]; lia|].
        apply DefsIn_app with (c1 := [ci]) (c2 := [ISetLabel lbegin]).
        split; apply DefsIn_nondef; [exact Hcin | reflexivity]. }
      eapply Safe_next'; [exact Hs|].
      eapply Safe_steps; [eapply vstep_set, Hc2|].
      pose proof (Hthen _ _ Hp3 m st1 env HM1 KL) as Ht.
      replace (S (length (pre ++ dcond ++ [ci]))) with (length (pre ++ dcond ++ [ci; ISetLabel lbegin])) by vlen.
      apply Ht. eapply KB_incl; [|exact HB]. unfold d. intros y Hy.
      apply in_or_app. right. right. right. apply in_or_app. left. exact Hy.
    - destruct Helse as [(lelse & de & -> & -> & Hde)|(-> & -> & Hk)].
      + assert (Hc2 : c = (pre ++ dcond ++ [ci; ISetLabel lbegin] ++ dthen) ++ ISetLabel lelse :: (de ++ post))
          by (rewrite Hc; unfold d; vsplit_eq).
        rewrite (vgoto_to V c _ _ _ (label_pos c Hnd _ _ _ Hc2)) in Hs.
        assert (Hp3 : Pos c (pre ++ dcond ++ [ci; ISetLabel lbegin] ++ dthen ++ [ISetLabel lelse]) de post h2 h').
        { assert (Hp' : Pos c pre ((dcond ++ [ci; ISetLabel lbegin] ++ dthen ++ [ISetLabel lelse]) ++ de ++ []) post h h').
          { replace ((dcond ++ [ci; ISetLabel lbegin] ++ dthen ++ [ISetLabel lelse]) ++ de ++ [])
              with d by (unfold d; rewrite app_nil_r; vsplit_eq). exact Hp. }
          assert (Dde : DefsIn h2 h' de).
          { change (ISetLabel lelse :: de) with ([ISetLabel lelse] ++ de) in De.
            apply DefsIn_app in De. apply De. }
          pose proof (Pos_mid c _ _ _ _ _ _ h2 h' _ Hp') as HPm. rewrite app_nil_l in HPm.
          apply HPm; [| exact Dde | constructor | lia | lia | lia].
          apply DefsIn_app. split; [eapply DefsIn_widen; [| |exact Dc]; lia|].
          apply DefsIn_app with (c1 := [ci; ISetLabel lbegin]). split.
          - apply DefsIn_app with (c1 := [ci]) (c2 := [ISetLabel lbegin]).
            split; apply DefsIn_nondef; [exact Hcin | reflexivity].
          - apply DefsIn_app. split; [eapply DefsIn_widen; [| |exact Dt]; lia|].
            apply DefsIn_nondef. reflexivity. }
        eapply Safe_next'; [exact Hs|].
        eapply Safe_steps; [eapply vstep_set, Hc2|].
        pose proof (Hde _ _ Hp3 m st1 env HM1 KL) as Ht.
        replace (S (length (pre ++ dcond ++ [ci; ISetLabel lbegin] ++ dthen)))
          with (length (pre ++ dcond ++ [ci; ISetLabel lbegin] ++ dthen ++ [ISetLabel lelse])) by vlen.
        apply Ht. eapply KB_incl; [|exact HB]. unfold d. intros y Hy.
        apply in_or_app. right. right. right. apply in_or_app. right. right. exact Hy.
      + destruct (find_label_in lend c) as [pc E].
        { apply (Hres ci); [exact Hci_in|]. rewrite (cond_targets V I _ _ _ _ _ Hrd). right. left. reflexivity. }
        rewrite (vgoto_to V c _ _ _ E) in Hs.
        eapply Safe_next'; [exact Hs|]. eapply (KL pc st1 (skipn k env)); [exact E|].
        rewrite <- Hk. apply MS_skipn, HM1.
  Qed.

  (** ** An if statement as a statement of a block *)
  Lemma SF_if_inner le k te ll d ts ts' h h' :
    SFL le k te ll d ts h h' -> SF (Some (le, k, te)) ll false d ts ts' h h'.
  Proof.
    intros H pre post Hp m st env HM _ HE HB. eapply (H _ _ Hp m st env HM); [|exact HB].
    intros pc st' env' E HM'. eapply HE; [reflexivity | exact E | exact HM'].
  Qed.

  Lemma SF_if_outer oe lend ll d ts h h' :
    SFL lend 0 ts ll d ts h h' -> SF oe ll false (d ++ [ISetLabel lend]) ts ts h h'.
  Proof.
    intros H pre post Hp m st env HM KN _ HB.
    assert (Hle : h <= h') by (destruct Hp; assumption).
    assert (Dd : DefsIn h h' d).
    { destruct Hp as [_ _ D _ _]. apply DefsIn_app in D. apply D. }
    destruct (Pos_split c _ _ _ _ _ _ _ Hp Dd (DefsIn_nondef h' h' (ISetLabel lend) eq_refl) Hle (N.le_refl h'))
      as [Hp1 Hp2].
    pose proof (Pos_c c _ _ _ _ _ Hp2) as Hc2. cbn [app] in Hc2.
    eapply (H _ _ Hp1 m st env HM); [|eapply KB_incl; [|exact HB]; apply incl_appl, incl_refl].
    intros pc st' env' E HM'. rewrite (label_pos c Hnd _ _ _ Hc2) in E. inversion E; subst pc.
    eapply Safe_steps; [eapply vstep_set, Hc2|].
    replace (S (length (pre ++ d))) with (length pre + length (d ++ [ISetLabel lend]))%nat by vlen.
    eapply KN; [reflexivity | exact HM'].
  Qed.

  (** ** The loop: induction on the fuel of the machine *)
  Lemma SF_loop oe ll lb le nn db tail ts tb h h' :
    SF None (Some (lb, le, 1%nat, ts)) nn db ([] :: ts) tb h h' ->
    tl tb = ts ->
    ((nn = false /\ tail = [IJumpTo lb; ISetLabel le]) \/
     (nn = true /\ (tail = [ISetLabel le] \/ (~ In (IJumpTo le) db /\ tail = [])))) ->
    SF oe ll false (IJumpTo lb :: ISetLabel lb :: db ++ tail) ts ts h h'.
  Proof.
    intros Hbody Htb Htail pre post Hp m0 st0 env0 HM0 KN _ _.
    set (d := IJumpTo lb :: ISetLabel lb :: db ++ tail) in *.
    set (Pend := (length pre + length d)%nat) in *.
    pose proof (Pos_c c _ _ _ _ _ Hp) as Hc.
    assert (Hle : h <= h') by (destruct Hp; assumption).
    assert (Dtail : DefsIn h' h' tail).
    { destruct Htail as [[_ ->]|[_ [->|[_ ->]]]]; constructor. }
    assert (Ddb : DefsIn h h' db).
    { destruct Hp as [_ _ D _ _]. unfold d in D.
      change (IJumpTo lb :: ISetLabel lb :: db ++ tail) with ([IJumpTo lb; ISetLabel lb] ++ db ++ tail) in D.
      apply DefsIn_app in D. destruct D as [_ D]. apply DefsIn_app in D. apply D. }
    assert (Hp2 : Pos c (pre ++ [IJumpTo lb; ISetLabel lb]) db (tail ++ post) h h').
    { eapply (Pos_mid c pre [IJumpTo lb; ISetLabel lb] db tail post h h h' h'); try lia; try assumption.
      apply DefsIn_app with (c1 := [IJumpTo lb]) (c2 := [ISetLabel lb]). split; apply DefsIn_nondef; reflexivity. }
    assert (Hc0 : c = pre ++ IJumpTo lb :: (ISetLabel lb :: db ++ tail ++ post))
      by (rewrite Hc; unfold d; vsplit_eq).
    assert (Hc1 : c = (pre ++ [IJumpTo lb]) ++ ISetLabel lb :: (db ++ tail ++ post))
      by (rewrite Hc; unfold d; vsplit_eq).
    pose proof (label_pos c Hnd _ _ _ Hc1) as Hlb.
    assert (Hset : forall st, vflat_step V I c (length (pre ++ [IJumpTo lb])) st =
                              VNext [] (S (length (pre ++ [IJumpTo lb]))) st).
    { intro st. rewrite (vstep_at V I c _ _ _ st Hc1). reflexivity. }
    assert (HLE : In (IJumpTo le) db \/ nn = false ->
                  exists ple pole, c = ple ++ ISetLabel le :: pole /\ S (length ple) = Pend).
    { intro Hin. destruct Htail as [[_ ->]|[Hnn [->|[Hno ->]]]].
      - exists (pre ++ [IJumpTo lb; ISetLabel lb] ++ db ++ [IJumpTo lb]), post.
        split; [rewrite Hc; unfold d; vsplit_eq | unfold Pend, d; vlen].
      - exists (pre ++ [IJumpTo lb; ISetLabel lb] ++ db), post.
        split; [rewrite Hc; unfold d; vsplit_eq | unfold Pend, d; vlen].
      - exfalso. destruct Hin as [Hin|Hin]; [exact (Hno Hin) | congruence]. }
    (* at the setter of the begin label: every iteration costs at least this step *)
    assert (Hhead : forall m, (m <= m0)%nat -> forall st env, MSt ts st env ->
                      Safe m (length (pre ++ [IJumpTo lb])) st).
    { induction m as [|m IH]; intros Lm st env HM; [apply Safe_0|].
      eapply Safe_next; [apply Hset|].
      replace (S (length (pre ++ [IJumpTo lb]))) with (length (pre ++ [IJumpTo lb; ISetLabel lb])) by vlen.
      eapply (Hbody _ _ Hp2 m st ([] :: env) (MS_push V c _ _ _ HM)).
      - (* the body fell through: jump back *)
        intros Hnn st1 env1 HM1.
        destruct Htail as [[_ Ht]|[Hnn' _]]; [|congruence]. subst tail.
        assert (Hc3 : c = (pre ++ [IJumpTo lb; ISetLabel lb] ++ db) ++ IJumpTo lb :: (ISetLabel le :: post))
          by (rewrite Hc; unfold d; vsplit_eq).
        destruct (vstep_jump V I c Hres _ _ _ st1 Hc3) as (pc & E & Hs). rewrite Hlb in E. inversion E; subst pc.
        eapply Safe_steps; [eapply vsteps_eq; [exact Hs | vlen | reflexivity | reflexivity]|].
        eapply (IH ltac:(lia) st1 (tl env1)). rewrite <- Htb. apply MS_tl, HM1.
      - intros le' k' te' pc st' env' E. discriminate.
      - intros lb' le' k' tq pc st1 env1 E Hl HM1. inversion E; subst lb' le' k' tq.
        destruct Hl as [[Hin El]|El].
        + (* break *)
          destruct (HLE (or_introl Hin)) as (ple & pole & Hcle & Hpe).
          rewrite (label_pos c Hnd _ _ _ Hcle) in El. inversion El; subst pc.
          eapply Safe_steps; [eapply vsteps_eq; [eapply vstep_set, Hcle | reflexivity | exact Hpe | reflexivity]|].
          eapply Safe_le; [|eapply KN; [reflexivity | exact HM1]]. lia.
        + (* continue *)
          rewrite Hlb in El. inversion El; subst pc. eapply (IH ltac:(lia) st1 env1 HM1). }
    destruct (vstep_jump V I c Hres _ _ _ st0 Hc0) as (pc & E & Hs). rewrite Hlb in E. inversion E; subst pc.
    eapply Safe_steps; [exact Hs|]. eapply Hhead; [lia | exact HM0].
  Qed.
End SafeFrag.

(** ** The analyzer walked once more: the delta of a statement / block / if / loop is safe *)
Section Walk.
  Variable V : Type.
  Variable I : interp V.
  Variable c : list instr.
  Hypothesis Hnd : NoDup (set_labels c).
  Hypothesis Hres : resolved c.
  Variable G : globals.
  Hypothesis HW : GWF G.
  Variable fuel : nat.
  Variable RT : sem_ty.

  Notation XR := (XRuns I c).
  Notation SFc := (SF V I c).
  Notation SFLc := (SFL V I c).

  (** what the delta of a statement of a block is *)
  Definition P_stmt (k : bkind) (lend : string) (lloop : option (string * string)) (st : stmt)
             (s : bst) (fl' : flags) (s' : bst) (d : list instr) : Prop :=
    tl (vals s') = tl (vals s) /\
    forall oe ll, LinkE k lend oe -> LinkL lloop ll -> CtxOKE (vals s) oe -> CtxOKL (vals s) ll ->
      SFc oe ll (fl_ret fl') d (vals s) (vals s') (hr s) (hr s').

  (** what the delta of an if statement is, depending on who owns the end label *)
  Definition P_IFC (i : ifstmt) (le : option string) (lloop : option (string * string)) (s : bst)
             (_ : unit) (s' : bst) (d : list instr) : Prop :=
    vals s' = vals s /\
    forall ll, LinkL lloop ll -> CtxOKL (vals s) ll ->
      match le with
      | Some lend =>
          forall ke te, skipn ke (vals s) = te ->
            SFLc lend ke te ll d (vals s) (hr s) (hr s')
      | None =>
          exists lend d', d = d' ++ [ISetLabel lend] /\
            SFLc lend 0 (vals s) ll d' (vals s) (hr s) (hr s')
      end.

  Definition P_LOOP (body : list stmt) (s : bst) (_ : unit) (s' : bst) (d : list instr) : Prop :=
    vals s' = vals s /\
    forall oe ll, SFc oe ll false d (vals s) (vals s) (hr s) (hr s').

  Section Control.
    Variable IFC : ifstmt -> option string -> option (string * string) -> M unit.
    Variable LOOP : list stmt -> M unit.
    Hypothesis HIFC : forall i le lloop s, NIX s -> VH s (IFC i le lloop) (P_IFC i le lloop s).
    Hypothesis HLOOP : forall body s, NIX s -> VH s (LOOP body) (P_LOOP body s).
    Hypothesis HIFCr : forall i oe ll, R2 (IFC i oe ll).
    Hypothesis HLOOPr : forall body, R2 (LOOP body).

    Lemma S_nested_stmt k lend lloop fl st s :
      fl_ret fl = false -> NIX s ->
      VH s (nested_stmt G fuel RT IFC LOOP k lend lloop fl st) (P_stmt k lend lloop st s).
    Proof.
      intros Hfl Hnix. destruct st; cbn [nested_stmt].
      - (* let *)
        eapply VH_bind; [apply (Line_let V I c G HW fuel (in_if_k k)), Hnix | intros; mono_go |].
        intros u s1 d1 (Htl & HL) _ _ _ _. apply VH_ret. intros _ _. rewrite app_nil_r.
        split; [exact Htl|]. intros oe ll _ _ _ _. rewrite Hfl. eapply SF_line, HL.
      - eapply VH_bind; [apply (Line_bind V I c G HW fuel (in_if_k k)), Hnix | intros; mono_go |].
        intros u s1 d1 (Hv & HL) _ _ _ _. apply VH_ret. intros _ _. rewrite app_nil_r.
        split; [rewrite Hv; reflexivity|]. intros oe ll _ _ _ _. rewrite Hfl. eapply SF_line, HL.
      - eapply VH_bind; [apply (Line_call V I c G HW fuel (in_if_k k)) | intros; mono_go |].
        intros u s1 d1 (Hv & HL) _ _ _ _. apply VH_ret. intros _ _. rewrite app_nil_r.
        split; [rewrite Hv; reflexivity|]. intros oe ll _ _ _ _. rewrite Hfl. eapply SF_line, HL.
      - (* if *)
        destruct k; cbn [in_if_k].
        + eapply VH_bind; [apply HIFC, Hnix | intros; mono_go |].
          intros u s1 d1 (Hv & HQ) _ _ _ _. apply VH_ret. intros _ _. rewrite app_nil_r.
          split; [rewrite Hv; reflexivity|]. intros oe ll (ke & te & ->) HLl HCe HCl. rewrite Hfl.
          destruct (HCe _ _ _ eq_refl) as (k' & -> & Ek).
          apply SF_if_inner. apply (HQ ll HLl HCl). rewrite skipn_S_tl. exact Ek.
        + eapply VH_bind; [apply HIFC, Hnix | intros; mono_go |].
          intros u s1 d1 (Hv & HQ) _ _ _ _. apply VH_ret. intros _ _. rewrite app_nil_r.
          split; [rewrite Hv; reflexivity|]. intros oe ll (ke & te & ->) HLl HCe HCl. rewrite Hfl.
          destruct (HCe _ _ _ eq_refl) as (k' & -> & Ek).
          apply SF_if_inner. apply (HQ ll HLl HCl). rewrite skipn_S_tl. exact Ek.
        + eapply VH_bind; [apply HIFC, Hnix | intros; mono_go |].
          intros u s1 d1 (Hv & HQ) _ _ _ _. apply VH_ret. intros _ _. rewrite app_nil_r.
          split; [rewrite Hv; reflexivity|]. intros oe ll _ HLl _ HCl. rewrite Hfl, Hv.
          destruct (HQ ll HLl HCl) as (le' & d' & -> & HF).
          apply SF_if_outer; assumption.
      - (* loop *)
        eapply VH_bind; [apply HLOOP, Hnix | intros; mono_go |].
        intros u s1 d1 (Hv & HQ) _ _ _ _. apply VH_ret. intros _ _. rewrite app_nil_r.
        split; [rewrite Hv; reflexivity|]. intros oe ll _ _ _ _. rewrite Hfl, Hv.
        apply HQ.
      - (* return *)
        pose proof (Mono_expression G fuel). pose proof (Mono_check_return_type RT).
        eapply VH_bind; [apply (V_expression V I c G HW) | intros; mono_go |].
        intros r s1 d1 (er & -> & Hv1 & Hle1 & HX1) HC1 W1 L1 D1. cbv beta.
        eapply VH_bind with (Q1 := fun _ s' d => d = [] /\ hr s' = hr s1 /\ vals s' = vals s1).
        { unfold check_return_type. destruct (negb _); cbn [when]; [apply VH_error_last|].
          apply VH_ret. repeat split. }
        { intros; mono_go. }
        intros u2 s2 d2 (-> & Hh2 & Hv2) _ W2 _ _. cbv beta.
        eapply VH_bind; [apply VH_emit; reflexivity | intros; mono_go |].
        intros u3 s3 d3 (-> & Hh3 & Hv3) _ W3 _ _. cbv beta.
        eapply VH_bind; [apply VH_set_return | intros; mono_go |].
        intros u4 s4 d4 (-> & Hh4 & Hv4) _ W4 _ _. apply VH_ret. do 4 (intros _ _).
        cbn [app]. rewrite ?app_nil_r. cbn [fl_ret].
        split; [congruence|]. intros oe ll _ _ _ _.
        replace (vals s4) with (vals s) by congruence. replace (hr s4) with (hr s1) by congruence.
        eapply SF_ret. eapply (Ret_spec V I c false); [left; reflexivity | right; right; reflexivity | exact HX1 | exact D1 | exact L1].
      - (* expression statement *)
        apply VH_panic.
      - (* break *)
        assert (Hb : forall lb le, lloop = Some (lb, le) ->
                  VH s (emit (IJumpTo le) ;;; ret (Flags (fl_ret fl) true (fl_cont fl)))
                     (P_stmt k lend lloop SBreak s)).
        { intros lb le ->. eapply VH_bind; [apply VH_emit; reflexivity | intros; mono_go |].
          intros u1 s1 d1 (-> & Hh1 & Hv1) _ _ _ _. apply VH_ret. intros _ _. cbn [app fl_ret].
          split; [rewrite Hv1; reflexivity|]. intros oe ll _ (kl & tq & ->) _ HCl.
          rewrite Hfl, Hv1, Hh1. destruct (HCl _ _ _ _ eq_refl) as (k' & -> & Ek).
          apply SF_break; [assumption | rewrite skipn_S_tl; exact Ek]. }
        destruct k; try apply VH_panic; (destruct lloop as [[lb le]|]; [|apply VH_panic]);
          eapply Hb; reflexivity.
      - (* continue *)
        assert (Hb : forall lb le, lloop = Some (lb, le) ->
                  VH s (emit (IJumpTo lb) ;;; ret (Flags (fl_ret fl) (fl_brk fl) true))
                     (P_stmt k lend lloop SContinue s)).
        { intros lb le ->. eapply VH_bind; [apply VH_emit; reflexivity | intros; mono_go |].
          intros u1 s1 d1 (-> & Hh1 & Hv1) _ _ _ _. apply VH_ret. intros _ _. cbn [app fl_ret].
          split; [rewrite Hv1; reflexivity|]. intros oe ll _ (kl & tq & ->) _ HCl.
          rewrite Hfl, Hv1, Hh1. destruct (HCl _ _ _ _ eq_refl) as (k' & -> & Ek).
          apply SF_continue; [assumption | rewrite skipn_S_tl; exact Ek]. }
        destruct k; try apply VH_panic; (destruct lloop as [[lb le]|]; [|apply VH_panic]);
          eapply Hb; reflexivity.
    Qed.
    Definition P_body (k : bkind) (lend : string) (lloop : option (string * string)) (ss : list stmt)
               (s : bst) (ret' : bool) (s' : bst) (d : list instr) : Prop :=
      forall oe ll, LinkE k lend oe -> LinkL lloop ll -> CtxOKE (vals s) oe -> CtxOKL (vals s) ll ->
        SFc oe ll ret' d (vals s) (vals s') (hr s) (hr s').

    Lemma S_run_body k lend lloop : forall ss fl s,
      NIX s ->
      VH s (run_body G fuel RT IFC LOOP k lend lloop fl ss)
         (fun fl' s' d =>
            tl (vals s') = tl (vals s) /\
            (fl_ret fl = false -> P_body k lend lloop ss s (fl_ret fl') s' d) /\
            (fl_ret fl = true -> ss = [] /\ d = [] /\ fl' = fl /\ s' = s)).
    Proof.
      pose proof (Mono_nested_stmt' G fuel RT IFC LOOP HIFCr HLOOPr) as HM1.
      pose proof (Mono_run_body' G fuel RT IFC LOOP HIFCr HLOOPr) as HM2.
      induction ss as [|st ss IH]; intros fl s Hnix; cbn [run_body].
      - apply VH_ret. split; [reflexivity|]. split.
        + intros Hfl oe ll _ _ _ _. rewrite Hfl. apply SF_nil.
        + intros _. repeat split.
      - eapply VH_bind; [apply V_code_after_errors | intros; mono_go |].
        intros u s0 d0 (-> & -> & Hfl) _ _ _ _. cbv beta.
        eapply VH_bind; [apply VH_NIX; [apply R2_nested_stmt; assumption | exact Hnix |
                                         apply (S_nested_stmt k lend lloop fl st s Hfl Hnix)]
                        | intros; mono_go |].
        intros fl1 s1 d1 (Hnix1 & Htl1 & HF1) HC1 W1 L1 D1. cbv beta.
        apply VH_self. eapply VH_conseq; [apply (IH fl1 s1 Hnix1)|].
        intros fl' s' d2 (Htl2 & HF2 & HF2') HC2 W2 L2 D2 _ _. cbn [app].
        split; [congruence|]. split; [|intro Hx; congruence]. intros _ oe ll HLe HLl HCe HCl.
        specialize (HF1 oe ll HLe HLl HCe HCl).
        destruct (fl_ret fl1) eqn:Efl1.
        + destruct (HF2' eq_refl) as (-> & -> & -> & ->). rewrite Efl1.
          apply (SF_seq V I c oe ll true false d1 [] _ _ _ _ (hr s1) _ HF1).
          * apply SF_nil.
          * exact D1.
          * constructor.
          * exact L1.
          * lia.
        + specialize (HF2 eq_refl oe ll HLe HLl (CtxOKE_tl _ _ _ Htl1 HCe) (CtxOKL_tl _ _ _ Htl1 HCl)).
          apply (SF_seq V I c oe ll false _ _ _ _ _ _ _ _ _ HF1 HF2 D1 D2 L1 L2).
    Qed.

    Lemma S_if_body b lend lloop s :
      NIX s ->
      VH s (if_body G fuel RT IFC LOOP b lend lloop)
         (fun returned s' d => tl (vals s') = tl (vals s) /\
                               P_body KIf lend lloop (vifbody_stmts b) s returned s' d).
    Proof.
      intro Hnix. destruct b as [ss|ss]; cbn [if_body vifbody_stmts].
      - eapply VH_bind; [apply (S_run_body KIf lend lloop ss flags0 s Hnix) | intros; mono_go |].
        intros fl s1 d1 (Htl & HF & _) _ _ _ _. apply VH_ret. intros _ _. rewrite app_nil_r.
        split; [exact Htl | exact (HF eq_refl)].
      - destruct lloop as [l|]; [|apply VH_panic].
        eapply VH_bind; [apply (S_run_body KIfLoop lend (Some l) ss flags0 s Hnix) | intros; mono_go |].
        intros fl s1 d1 (Htl & HF & _) _ _ _ _. apply VH_ret. intros _ _. rewrite app_nil_r.
        split; [exact Htl | exact (HF eq_refl)].
    Qed.

    Ltac vh_step_ lem E Hacc1 d L D HQ :=
      match type of E with
      | ?m ?s = Ok ?x ?s1 =>
          match goal with
          | HC : ctxs s = ?X, HS : St' s _ _ |- _ =>
              let HC1 := fresh "HC" in let HS1 := fresh "HS" in
              let Eh := fresh "Eh" in let Ev := fresh "Ev" in
              destruct (step_VH s m _ x s1 X _ _ lem HC HS E Hacc1)
                as (d & HC1 & HS1 & L & D & Eh & Ev & HQ);
              rewrite ?Eh, ?Ev in HQ;
              clear HC HS E; rename HC1 into HC; rename HS1 into HS; norm HC
          end
      end.
    Tactic Notation "vh_step" uconstr(lem) hyp(E) hyp(Hacc1) ident(d) ident(L) ident(D) ident(HQ) :=
      vh_step_ lem E Hacc1 d L D HQ.

    Lemma P_IFC_close i (le : option string) lloop lend d t s s' hq :
      vals s' = vals s -> hr s' = hq ->
      (forall ll, LinkL lloop ll -> CtxOKL (vals s) ll -> forall ke te, skipn ke (vals s) = te ->
         SFLc lend ke te ll d (vals s) (hr s) hq) ->
      (forall l, le = Some l -> lend = l) ->
      (le = None -> t = [ISetLabel lend]) -> (le <> None -> t = []) ->
      P_IFC i le lloop s tt s' (d ++ t).
    Proof.
      intros Hv Hh HF Hle Ht0 Ht1. split; [exact Hv|]. intros ll HLl HCl. rewrite Hh.
      destruct le as [l|].
      - rewrite (Ht1 ltac:(discriminate)), app_nil_r. rewrite <- (Hle l eq_refl).
        intros ke te Hk. apply HF; assumption.
      - exists lend, d. split; [rewrite (Ht0 eq_refl); reflexivity|]. apply HF; try assumption. reflexivity.
    Qed.

    Lemma S_if_condition_step i le lloop s :
      NIX s -> VH s (if_condition_step G fuel RT IFC LOOP i le lloop) (P_IFC i le lloop s).
    Proof.
      intros Hnix W a s_end H Hacc.
      pose proof (Mono_if_body' G fuel RT IFC LOOP HIFCr HLOOPr) as HM1. pose proof (Mono_if_condition_calculation G fuel) as HM2.
      assert (HM3 : forall i oe ll, Mono (IFC i oe ll)) by (intros; apply Mono_R2, HIFCr).
      destruct i as [cnd body els elif].
      assert (HS : St' s (hr s) (vals s)) by (split; [exact W | split; reflexivity]).
      assert (HneC : ctxs s <> []).
      { destruct W as [Hne _]. unfold ctxs. intro E. apply map_eq_nil in E. contradiction. }
      remember (ctxs s) as C eqn:HC. symmetry in HC.
      set (h0 := hr s) in *. set (ts := vals s) in *.
      cbn [if_condition_step] in H.
      dstep H Hacc as u0 E0 Hacc0.
      destruct (when_error_acc _ _ _ _ _ E0 Hacc0) as [Hboth ->]. clear E0 Hacc0.
      dstep H Hacc as u1 E1 Hacc1. nix_step ltac:(intro; apply Rat_push_child) E1.
      st_step St_push E1 Hacc1. ecore E1.
      dstep H Hacc as lbegin E2 Hacc2. nix_step ltac:(apply R2_gen_label) E2.
      st_step (St_gen "if_begin") E2 Hacc2. ecore E2.
      dstep H Hacc as lelse E3 Hacc3. nix_step ltac:(apply R2_gen_label) E3.
      st_step (St_gen "if_else") E3 Hacc3. ecore E3.
      dstep H Hacc as lend E4 Hacc4.
      destruct (lend_step _ _ _ _ _ _ E4 Hacc4 HS Hnix) as (HC4 & HS4 & Hnix4 & Hle).
      rewrite HC in HC4. clear HC E4 HS Hnix. rename HC4 into HC. rename HS4 into HS.
      rename Hnix4 into Hnix.
      cbv zeta in H.
      dstep H Hacc as u5 E5 Hacc5. nix_step ltac:(apply R2_if_condition_calculation) E5.
      vh_step (V_calc V I c G HW fuel cnd lbegin lelse lend (is_some els || is_some elif) _) E5 Hacc5 d1 L1 D1 Hd1.
      destruct Hd1 as (dcond & ci & -> & Hv5 & Hci & Dc & HXc).
      rewrite Ev in Hv5, HXc. rewrite Eh in Dc, HXc. clear Eh Ev.
      pose proof (CondSpec_push V I c _ _ _ _ _ _ _ _ HXc) as Hcond. clear HXc.
      dstep H Hacc as u6 E6 Hacc6.
      nix_step ltac:(intro; apply Rat_emit; [reflexivity | exact Logic.I | constructor]) E6.
      rewrite Hv5 in HS.
      st_step (St_emit (ISetLabel lbegin) eq_refl) E6 Hacc6. ecore E6.
      dstep H Hacc as returned E7 Hacc7. pose proof Hnix as Hnix6.
      assert (Hnix7 : NIX s6) by (eapply (NIX_R2 _ _ _ _ (R2_if_body G fuel RT IFC LOOP HIFCr HLOOPr body lend lloop) Hnix E7)).
      vh_step (S_if_body body lend lloop _ Hnix6) E7 Hacc7 d2 L2 D2 Hd2.
      destruct Hd2 as (Htl2 & Hbody).
      destruct HS as (W7 & _ & _).
      assert (HS : St' s6 (hr s6) (vals s6)) by (split; [exact W7 | split; reflexivity]).
      dstep H Hacc as u8 E8 Hacc8.
      assert (Hnix8 : NIX s7) by (exact (NIX_R2 _ _ _ _ (R2_when _ _ (R2_emit_jump lend)) Hnix7 E8)).
      vh_step (V_jump_end returned lend _) E8 Hacc8 j L8 D8 Hj.
      destruct Hj as (Hj0 & Hj1 & Hh8 & Hv8). clear Eh0 Ev0.
      cbn [tl] in Htl2.
      assert (Dj : DefsIn (hr s6) (hr s6) j).
      { destruct returned; [rewrite (Hj1 eq_refl); constructor | rewrite (Hj0 eq_refl); apply DefsIn_nondef; reflexivity]. }
      (* the then part *)
      assert (Hthen : forall ll, LinkL lloop ll -> CtxOKL ts ll -> forall ke te, skipn ke ts = te ->
                SFLc lend ke te ll (d2 ++ j) ts (hr s4) (hr s6)).
      { intros ll HLl HCl ke te Hk.
        apply (SFL_block V I c Hres lend ke te ll
                 returned d2 j ts (vals s6) (hr s4) (hr s6)); try assumption.
        rewrite <- Ev, <- Eh. apply Hbody.
        - exists (S ke), te. reflexivity.
        - apply LinkL_shift, HLl.
        - rewrite Ev. intros le' k' te' E. inversion E; subst. exists ke. split; reflexivity.
        - rewrite Ev. apply CtxOKL_push, HCl. }
      clear Hbody.
      destruct els as [eb|]; [destruct elif as [ei|]; [discriminate|]|destruct elif as [ei|]];
        cbn [is_some orb negb] in H, Hcond.
      - (* else *)
        dstep H Hacc as u9 E9 Hacc9.
        assert (Hnix9 : NIX s8) by (exact (NIX_R2 _ _ _ _ (R2_emit_label lelse) Hnix8 E9)).
        st_step (St_emit (ISetLabel lelse) eq_refl) E9 Hacc9. ecore E9.
        dstep H Hacc as slot E10 Hacc10.
        assert (Hnix10 : NIX s9) by (exact (NIX_R2 _ _ _ _ R2_pop Hnix9 E10)).
        st_step St_pop E10 Hacc10. ecore E10.
        dstep H Hacc as u11 Hmid Hacc11.
        dstep Hmid Hacc11 as v1 F1 Hf1.
        assert (Hnix11 : NIX s11) by (exact (NIX_R2 _ _ _ _ R2_push Hnix10 F1)).
        st_step St_push F1 Hf1. ecore F1.
        dstep Hmid Hacc11 as returned' F2 Hf2.
        vh_step (S_if_body eb lend lloop _ Hnix11) F2 Hf2 d3 L3 D3 Hd3.
        destruct Hd3 as (Htl3 & Hbody3). rewrite Hv8, Htl2 in Ev0, Htl3. cbn [tl] in Htl3.
        rewrite Hh8 in Eh0, D3, L3.
        dstep Hmid Hacc11 as v3 F3 Hf3. st_step St_pop F3 Hf3. ecore F3.
        vh_step (V_jump_end_kid slot returned' lend _) Hmid Hacc11 j' L4 D4 Hj'.
        destruct Hj' as (Hj0' & Hj1' & Hh4 & Hv4).
        vh_step (V_set_end_kid slot le lend _) H Hacc t L5 D5 Ht.
        destruct Ht as (Ht0 & Ht1 & Hh5 & Hv5').
        assert (Dj' : DefsIn (hr s12) (hr s12) j').
        { destruct returned'; [rewrite (Hj1' eq_refl); constructor | rewrite (Hj0' eq_refl); apply DefsIn_nondef; reflexivity]. }
        assert (Dt : DefsIn (hr s12) (hr s12) t).
        { destruct le; [rewrite (Ht1 ltac:(discriminate)); constructor | rewrite (Ht0 eq_refl); apply DefsIn_nondef; reflexivity]. }
        destruct HS as (Wend & _ & _).
        exists ((dcond ++ ci :: ISetLabel lbegin :: (d2 ++ j) ++ (ISetLabel lelse :: d3 ++ j')) ++ t).
        split; [rewrite HC; f_equal; vsplit_eq|]. split; [exact Wend|].
        assert (Ehe : hr s_end = hr s12) by congruence.
        assert (Eh13 : hr s13 = hr s12) by congruence.
        rewrite Ehe. split; [lia|]. split; [defs_go|]. destruct a.
        apply (P_IFC_close _ le lloop lend _ _ _ _ (hr s12)); [fold ts; congruence | exact Ehe | | exact Hle | exact Ht0 | exact Ht1].
        intros ll HLl HCl ke te Hk. fold ts in HCl, Hk. fold h0.
        eapply (SFL_if V I c Hnd Hres lend ke te ll cnd dcond ci lbegin lelse
                  (d2 ++ j) (ISetLabel lelse :: d3 ++ j') ts h0 (hr s4) (hr s6) (hr s12));
          [exact Hcond | exact Hci | apply Hthen; assumption | | exact Dc | defs_go | defs_go | lia | lia | lia].
        left. exists lelse, (d3 ++ j'). split; [reflexivity|]. split; [reflexivity|].
        apply (SFL_block V I c Hres lend ke te ll
                 returned' d3 j' ts (vals s12) (hr s6) (hr s12)); try assumption.
        rewrite <- Ev0, <- Eh0. apply Hbody3.
        + exists (S ke), te. reflexivity.
        + apply LinkL_shift, HLl.
        + rewrite Ev0. intros le' k' te' E. inversion E; subst. exists ke. split; reflexivity.
        + rewrite Ev0. apply CtxOKL_push, HCl.
      - (* else-if *)
        dstep H Hacc as u9 E9 Hacc9.
        assert (Hnix9 : NIX s8) by (exact (NIX_R2 _ _ _ _ (R2_emit_label lelse) Hnix8 E9)).
        st_step (St_emit (ISetLabel lelse) eq_refl) E9 Hacc9. ecore E9.
        dstep H Hacc as slot E10 Hacc10.
        assert (Hnix10 : NIX s9) by (exact (NIX_R2 _ _ _ _ R2_pop Hnix9 E10)).
        st_step St_pop E10 Hacc10. ecore E10.
        dstep H Hacc as u11 E11 Hacc11.
        vh_step (HIFC ei (Some lend) lloop _ Hnix10) E11 Hacc11 d3 L3 D3 Hd3.
        destruct Hd3 as (Hv3 & Helif). rewrite Hv8, Htl2 in Ev0. rewrite Hh8 in Eh0, D3, L3.
        vh_step (V_set_end_kid slot le lend _) H Hacc t L5 D5 Ht.
        destruct Ht as (Ht0 & Ht1 & Hh5 & Hv5').
        assert (Dt : DefsIn (hr s10) (hr s10) t).
        { destruct le; [rewrite (Ht1 ltac:(discriminate)); constructor | rewrite (Ht0 eq_refl); apply DefsIn_nondef; reflexivity]. }
        destruct HS as (Wend & _ & _).
        exists ((dcond ++ ci :: ISetLabel lbegin :: (d2 ++ j) ++ (ISetLabel lelse :: d3)) ++ t).
        split; [rewrite HC; f_equal; vsplit_eq|]. split; [exact Wend|].
        assert (Ehe : hr s_end = hr s10) by congruence.
        rewrite Ehe. split; [lia|]. split; [defs_go|]. destruct a.
        apply (P_IFC_close _ le lloop lend _ _ _ _ (hr s10)); [fold ts; congruence | exact Ehe | | exact Hle | exact Ht0 | exact Ht1].
        intros ll HLl HCl ke te Hk. fold ts in HCl, Hk. fold h0.
        eapply (SFL_if V I c Hnd Hres lend ke te ll cnd dcond ci lbegin lelse
                  (d2 ++ j) (ISetLabel lelse :: d3) ts h0 (hr s4) (hr s6) (hr s10));
          [exact Hcond | exact Hci | apply Hthen; assumption | | exact Dc | defs_go | defs_go | lia | lia | lia].
        left. exists lelse, d3. split; [reflexivity|]. split; [reflexivity|].
        rewrite Ev0 in Helif. rewrite Eh0 in Helif.
        apply Helif; assumption.
      - (* no else part *)
        dstep H Hacc as u9 E9 Hacc9.
        vh_step (V_set_end le lend _) E9 Hacc9 t L5 D5 Ht.
        destruct Ht as (Ht0 & Ht1 & Hh5 & Hv5').
        dstep H Hacc as u10 E10 Hacc10. st_step St_pop E10 Hacc10. ecore E10.
        inversion H; subst; clear H.
        assert (Dt : DefsIn (hr s6) (hr s6) t).
        { destruct le; [rewrite (Ht1 ltac:(discriminate)); constructor | rewrite (Ht0 eq_refl); apply DefsIn_nondef; reflexivity]. }
        destruct HS as (Wend & Ehe & Eve).
        exists ((dcond ++ ci :: ISetLabel lbegin :: (d2 ++ j) ++ []) ++ t).
        split; [rewrite HC; f_equal; rewrite app_nil_r; vsplit_eq|]. split; [exact Wend|].
        assert (Ehe' : hr s_end = hr s6) by congruence.
        rewrite Ehe'. split; [lia|]. split; [defs_go|].
        apply (P_IFC_close _ le lloop lend _ _ _ _ (hr s6)); [fold ts; congruence | exact Ehe' | | exact Hle | exact Ht0 | exact Ht1].
        intros ll HLl HCl ke te Hk. fold ts in HCl, Hk. fold h0.
        eapply (SFL_if V I c Hnd Hres lend ke te ll cnd dcond ci lbegin lend
                  (d2 ++ j) [] ts h0 (hr s4) (hr s6) (hr s6));
          [exact Hcond | exact Hci | apply Hthen; assumption | | exact Dc | defs_go | constructor | lia | lia | lia].
        right. split; [reflexivity|]. split; [reflexivity | exact Hk].
    Qed.
    Lemma S_loop_step body s : NIX s -> VH s (loop_step G fuel RT IFC LOOP body) (P_LOOP body s).
    Proof.
      intros Hnix W a s_end H Hacc.
      pose proof (Mono_run_body' G fuel RT IFC LOOP HIFCr HLOOPr) as HM1.
      assert (HS : St' s (hr s) (vals s)) by (split; [exact W | split; reflexivity]).
      assert (HneC : ctxs s <> []).
      { destruct W as [Hne _]. unfold ctxs. intro E. apply map_eq_nil in E. contradiction. }
      remember (ctxs s) as C eqn:HC. symmetry in HC.
      set (h0 := hr s) in *. set (ts := vals s) in *.
      unfold loop_step in H.
      dstep H Hacc as u1 E1 Hacc1.
      assert (Hnix1 : NIX s0) by (exact (NIX_R2 _ _ _ _ R2_push Hnix E1)).
      st_step St_push E1 Hacc1. ecore E1.
      dstep H Hacc as lbegin E2 Hacc2.
      assert (Hnix2 : NIX s1) by (exact (NIX_R2 _ _ _ _ (R2_gen_label _) Hnix1 E2)).
      st_step (St_gen "loop_begin") E2 Hacc2. ecore E2.
      dstep H Hacc as lend E3 Hacc3.
      assert (Hnix3 : NIX s2) by (exact (NIX_R2 _ _ _ _ (R2_gen_label _) Hnix2 E3)).
      st_step (St_gen "loop_end") E3 Hacc3. ecore E3.
      dstep H Hacc as u4 E4 Hacc4.
      assert (Hnix4 : NIX s3) by (exact (NIX_R2 _ _ _ _ (R2_emit_jump lbegin) Hnix3 E4)).
      st_step (St_emit (IJumpTo lbegin) eq_refl) E4 Hacc4. ecore E4.
      dstep H Hacc as u5 E5 Hacc5.
      assert (Hnix5 : NIX s4) by (exact (NIX_R2 _ _ _ _ (R2_emit_label lbegin) Hnix4 E5)).
      st_step (St_emit (ISetLabel lbegin) eq_refl) E5 Hacc5. ecore E5.
      dstep H Hacc as fl E6 Hacc6.
      vh_step (S_run_body KLoop "" (Some (lbegin, lend)) body flags0 _ Hnix5) E6 Hacc6 db L6 D6 Hdb.
      destruct Hdb as (Htl6 & Hdb & _). specialize (Hdb eq_refl). cbn [tl] in Htl6.
      assert (Hbody : SFc None (Some (lbegin, lend, 1%nat, ts)) (fl_ret fl) db
                         ([] :: ts) (vals s5) h0 (hr s5)).
      { rewrite <- Ev, <- Eh. apply (Hdb None (Some (lbegin, lend, 1%nat, ts))).
        - reflexivity.
        - exists 1%nat, ts. reflexivity.
        - intros le k te E. discriminate.
        - rewrite Ev. intros lb le k tq E. inversion E; subst. exists O. split; reflexivity. }
      clear Hdb.
      dstep H Hacc as u7 Hmid Hacc7.
      assert (Hfin : forall tail s6',
                ctxs s6' = adds tail (((([] ++ [IJumpTo lbegin]) ++ [ISetLabel lbegin]) ++ db)
                                       :: adds (([IJumpTo lbegin] ++ [ISetLabel lbegin]) ++ db) C) ->
                St' s6' (hr s5) (vals s5) ->
                (pop_child ;;; ret tt) s6' = Ok a s_end ->
                ((fl_ret fl = false /\ tail = [IJumpTo lbegin; ISetLabel lend]) \/
                 (fl_ret fl = true /\ (tail = [ISetLabel lend] \/ (~ In (IJumpTo lend) db /\ tail = [])))) ->
                exists d, ctxs s_end = adds d C /\ WF s_end /\ h0 <= hr s_end /\
                          DefsIn h0 (hr s_end) d /\ P_LOOP body s a s_end d).
      { intros tail s6' HC' HS' H' Htail. clear HC Hmid HS H. rename HC' into HC. norm HC.
        dstep H' Hacc as u8 E8 Hacc8. st_step St_pop E8 Hacc8. ecore E8. inversion H'; subst; clear H'.
        destruct HS' as (Wend & Ehe & Eve).
        assert (Dtail : DefsIn (hr s5) (hr s5) tail).
        { destruct Htail as [[_ ->]|[_ [->|[_ ->]]]]; constructor. }
        exists (IJumpTo lbegin :: ISetLabel lbegin :: db ++ tail).
        split; [rewrite HC; f_equal; vsplit_eq|]. split; [exact Wend|]. rewrite Ehe.
        split; [exact L6|]. split; [defs_go|].
        split; [fold ts; rewrite Eve, Htl6; reflexivity|].
        intros oe ll. fold ts. fold h0. rewrite Ehe.
        eapply (SF_loop V I c Hnd Hres); [exact Hbody | exact Htl6 | exact Htail]. }
      destruct (fl_ret fl) eqn:Efl.
      - rewrite bind_gets_eq, head_ctx_ctxs, HC in Hmid. cbn [hd] in Hmid.
        destruct (existsb (is_jump_to lend) _) eqn:Eex in Hmid; cbn [when] in Hmid.
        + st_step (St_emit (ISetLabel lend) eq_refl) Hmid Hacc7.
          pose proof (step_emit _ _ _ _ _ HC Hmid) as HC'.
          eapply (Hfin [ISetLabel lend]); [exact HC' | exact HS | exact H|].
          right. split; [reflexivity|]. left. reflexivity.
        + assert (Hno : ~ In (IJumpTo lend) db).
          { intro Hin. rewrite <- Bool.not_true_iff_false in Eex. apply Eex.
            apply existsb_exists. exists (IJumpTo lend).
            split; [apply in_or_app; right; exact Hin | cbn; apply String.eqb_refl]. }
          inversion Hmid; subst. eapply (Hfin []); [rewrite adds_nil; exact HC | exact HS | exact H|].
          right. split; [reflexivity|]. right. split; [exact Hno | reflexivity].
      - dstep Hmid Hacc7 as v1 F1 Hf1.
        st_step (St_emit (IJumpTo lbegin) eq_refl) F1 Hf1. ecore F1.
        st_step (St_emit (ISetLabel lend) eq_refl) Hmid Hacc7. ecore Hmid.
        eapply (Hfin [IJumpTo lbegin; ISetLabel lend]); [|exact HS | exact H|].
        + rewrite HC, adds_cons, adds_adds. f_equal; [vsplit_eq | f_equal; vsplit_eq].
        + left. split; reflexivity.
    Qed.
  End Control.

  (** ** The control level *)
  Lemma S_control n :
    (forall i le lloop s, NIX s -> VH s (if_condition G fuel RT n i le lloop) (P_IFC i le lloop s)) /\
    (forall body s, NIX s -> VH s (loop_statement G fuel RT n body) (P_LOOP body s)).
  Proof.
    induction n as [|n [IH1 IH2]]; split; intros; cbn [if_condition loop_statement];
      try apply VH_oof; destruct (R2_control G fuel RT n) as [R1 R2'].
    - apply S_if_condition_step; assumption.
    - apply S_loop_step; assumption.
  Qed.

  (** ** The function level *)
  Definition P_fn (ss : list stmt) (s : bst) (ret' : bool) (s' : bst) (d : list instr) : Prop :=
    SFc None None ret' d
       (vals s) (vals s') (hr s) (hr s').

  Lemma S_fn_stmt st s :
    NIX s ->
    VH s (fn_stmt G fuel RT false st)
       (fun ret' s' d => SFc None None ret' d
                            (vals s) (vals s') (hr s) (hr s')).
  Proof.
    intro Hnix. destruct (S_control fuel) as [HI HLp].
    assert (Hret : forall e st', (st' = SRet e \/ st' = SExprStmt e) ->
      VH s (r <- expression G fuel e ;;
            when false (add_error (Err EReturnAlreadyCalled None loc10)) ;;;
            match r with
            | Some er =>
                check_type_exists G (r_ty er) None loc10 ;;;
                when (negb (sem_ty_eqb RT (r_ty er))) (add_error (Err EWrongReturnType None loc10)) ;;;
                mret <- gets head_mret ;;
                (if mret then emit (IFnRetLabel er) else emit (IFnRet er)) ;;;
                ret true
            | None => ret false
            end)
         (fun ret' s' d => SFc None None ret' d
                              (vals s) (vals s') (hr s) (hr s'))).
    { intros e st' Hst.
      pose proof (Mono_expression G fuel). pose proof (Mono_check_type_exists G).
      eapply VH_bind; [apply (V_expression V I c G HW) | intros; mono_go |].
      intros r s1 d1 (er & -> & Hv1 & Hle1 & HX1) HC1 W1 L1 D1. cbv beta. cbn [when].
      eapply VH_bind; [apply VH_ret with (Q := fun _ s' d => s' = s1 /\ d = []); split; reflexivity
                      | intros; mono_go |].
      intros _ s2 d2 (-> & ->) _ _ _ _.
      eapply VH_bind; [apply VH_check_type_exists | intros; mono_go |].
      intros ok s3 d3 (-> & _ & -> & _) _ _ _ _.
      eapply VH_bind with (Q1 := fun _ s' d => s' = s1 /\ d = []).
      { destruct (negb _); cbn [when]; [apply VH_error_last | apply VH_ret; split; reflexivity]. }
      { intros; mono_go. }
      intros _ s4 d4 (-> & ->) _ _ _ _.
      apply VH_gets_bind.
      eapply VH_bind with
        (Q1 := fun _ s' d => exists i, is_vret i er /\ d = [i] /\ hr s' = hr s1 /\ vals s' = vals s1).
      { destruct (head_mret (frames s1)); (eapply VH_conseq; [apply VH_emit; reflexivity|]);
          intros u s' d (-> & Hh & Hv); eexists; (split; [|repeat split; eassumption]).
        - right. left. reflexivity.
        - left. reflexivity. }
      { intros; mono_go. }
      intros u5 s5 d5 (i & Hi & Ed5 & Hh5 & Hv5) _ _ _ _. subst d5. apply VH_ret. do 5 (intros _ _).
      cbn [app]. rewrite ?app_nil_r.
      replace (vals s5) with (vals s) by congruence. rewrite Hh5.
      eapply SF_ret. eapply (Ret_spec V I c false); [exact Hst | exact Hi | exact HX1 | exact D1 | exact L1]. }
    destruct st; cbn [fn_stmt].
    - eapply VH_bind; [apply (Line_let V I c G HW fuel false), Hnix | intros; mono_go |].
      intros u s1 d1 (Htl & HL) _ _ _ _. apply VH_ret. intros _ _. rewrite app_nil_r.
      eapply SF_line, HL.
    - eapply VH_bind; [apply (Line_bind V I c G HW fuel false), Hnix | intros; mono_go |].
      intros u s1 d1 (Hv & HL) _ _ _ _. apply VH_ret. intros _ _. rewrite app_nil_r.
      eapply SF_line, HL.
    - eapply VH_bind; [apply (Line_call V I c G HW fuel false) | intros; mono_go |].
      intros u s1 d1 (Hv & HL) _ _ _ _. apply VH_ret. intros _ _. rewrite app_nil_r.
      eapply SF_line, HL.
    - eapply VH_bind; [apply HI, Hnix | intros; mono_go |].
      intros u s1 d1 (Hv & HQ) _ _ _ _. apply VH_ret. intros _ _. rewrite app_nil_r. rewrite Hv.
      destruct (HQ None eq_refl) as (le' & d' & -> & HF).
      { intros lb le k tq E. discriminate. }
      apply SF_if_outer; assumption.
    - eapply VH_bind; [apply HLp, Hnix | intros; mono_go |].
      intros u s1 d1 (Hv & HQ) _ _ _ _. apply VH_ret. intros _ _. rewrite app_nil_r. rewrite Hv.
      apply HQ.
    - apply (Hret e (SRet e)). left. reflexivity.
    - apply (Hret e (SExprStmt e)). right. reflexivity.
    - apply VH_panic.
    - apply VH_panic.
  Qed.

  Lemma S_fn_stmts : forall ss ret0 s,
    NIX s ->
    VH s (fn_stmts G fuel RT ret0 ss)
       (fun ret1 s' d =>
          (ret0 = false -> P_fn ss s ret1 s' d) /\
          (ret0 = true -> ss = [] /\ d = [] /\ ret1 = ret0 /\ s' = s)).
  Proof.
    pose proof (Mono_fn_stmt G fuel RT) as HM1. pose proof (Mono_fn_stmts G fuel RT) as HM2.
    induction ss as [|st ss IH]; intros ret0 s Hnix; cbn [fn_stmts].
    - apply VH_ret. split.
      + intros ->. apply SF_nil.
      + intros _. repeat split.
    - eapply VH_bind with (Q1 := fun _ s' d => s' = s /\ d = [] /\ ret0 = false).
      { destruct ret0; cbn [when]; [apply VH_error_last | apply VH_ret; repeat split]. }
      { intros; mono_go. }
      intros _ s0 d0 (-> & -> & ->) _ _ _ _. cbv beta.
      eapply VH_bind; [apply VH_NIX; [apply R2_fn_stmt | exact Hnix | apply (S_fn_stmt st s Hnix)]
                      | intros; mono_go |].
      intros r1 s1 d1 (Hnix1 & HF1) HC1 W1 L1 D1. cbv beta.
      apply VH_self. eapply VH_conseq; [apply (IH r1 s1 Hnix1)|].
      intros ret1 s' d2 (HF2 & HF2') HC2 W2 L2 D2 _ _. cbn [app].
      split; [|discriminate]. intros _. unfold P_fn in *.
      destruct r1.
      + destruct (HF2' eq_refl) as (-> & -> & -> & ->).
        apply (SF_seq V I c None None true false d1 [] _ _ _ _ (hr s1) _ HF1).
        * apply SF_nil.
        * exact D1.
        * constructor.
        * exact L1.
        * lia.
      + apply (SF_seq V I c None None false _ _ _ _ _ _ _ _ _ HF1 (HF2 eq_refl) D1 D2 L1 L2).
  Qed.
End Walk.

(** ** One function *)
Lemma function_body_safe {V} (I : interp V) G f a s root :
  GWF G -> function_body G [] f = Ok a s -> errs s = [] -> frames s = [root] ->
  NoDup (set_labels (b_ctx root)) -> resolved (b_ctx root) ->
  forall args, length args = length (fn_params f) ->
  forall m, Safe V I (b_ctx root) m 0 (MState [] [] args).
Proof.
  intros HW H Hacc Hf Hnd Hres args Hlen m.
  unfold function_body, function_body_m in H.
  pose proof Mono_init_func_params as HM0.
  pose proof (Mono_fn_stmts G (fuel_of f) (sem_of_ty (fn_result f))) as HM1.
  set (c := b_ctx root) in *.
  dstep H Hacc as u0 E0 Hacc0.
  dstep H Hacc as returned E1 Hacc1.
  destruct (when_error_acc _ _ _ _ _ H Hacc) as [Hret <-]. clear H.
  apply Bool.negb_false_iff in Hret. subst returned.
  assert (Hf0 : frames (BSt [empty_block] []) = [empty_block]) by reflexivity.
  assert (Hs0 : SelfInner (b_values empty_block)) by (intros y v E; discriminate).
  destruct (V_params V I c _ _ _ _ empty_block Hf0 Hs0 E0 Hacc0)
    as (b1 & dps & Hf1 & Hc1 & Hr1 & Hd1 & Hself1 & Hrun).
  cbn [b_ctx empty_block app b_reg] in Hc1, Hr1.
  assert (W1 : WF s0).
  { split; [rewrite Hf1; discriminate|].
    eapply reach_Inv_reg; [eapply R_init_func_params, E0 | apply Inv_reg_init]. }
  assert (Hnix1 : NIX s0).
  { split.
    - destruct (Inv_names_init []) as [Hi Hp]. eapply init_func_params_names; eassumption.
    - unfold vals. rewrite Hf1. cbn [map]. apply SelfInner_TabInj, Hself1. }
  assert (Hh1 : hr s0 = 0%N) by (unfold hr; rewrite Hf1; cbn [head_reg]; exact Hr1).
  assert (Hv1 : vals s0 = [b_values b1]) by (unfold vals; rewrite Hf1; reflexivity).
  destruct (S_fn_stmts V I c Hnd Hres G HW (fuel_of f) (sem_of_ty (fn_result f)) (fn_body f) false s0 Hnix1
              W1 true s E1 Hacc) as (d1 & HC1 & W2 & L2 & D2 & HQ & _).
  specialize (HQ eq_refl). unfold P_fn in HQ.
  assert (Hroot : c = dps ++ d1).
  { unfold ctxs in HC1. rewrite Hf, Hf1 in HC1. cbn in HC1. inversion HC1 as [Hr]. unfold c.
    rewrite Hr, Hc1. reflexivity. }
  assert (Hp : Pos c dps d1 [] 0 (hr s)).
  { constructor.
    - rewrite Hroot, app_nil_r. reflexivity.
    - rewrite Hd1. constructor.
    - rewrite Hh1 in D2. exact D2.
    - constructor.
    - rewrite <- Hh1. exact L2. }
  destruct (Hrun [] (d1 ++ []) ltac:(rewrite Hroot, app_nil_r; reflexivity) [] [] [] args Hlen)
    as (mu1 & Hs1 & HS1).
  { intro x. reflexivity. }
  rewrite app_nil_r in HS1, Hs1. cbn [length Nat.add] in Hs1.
  assert (HM1' : MS V c (vals s0) (MState [] mu1 []) [param_frame V (fn_params f) args]).
  { split; [intros n _; reflexivity|]. rewrite Hv1. constructor; [exact HS1 | constructor]. }
  rewrite Hh1 in HQ.
  eapply Safe_steps; [exact Hs1|].
  eapply (HQ dps [] Hp m _ _ HM1').
  - intro Hx. discriminate.
  - intros le k te pc st env E. discriminate.
  - intros lb le k tq pc st env E. discriminate.
Qed.

(** ** The driver *)

(** THE REGISTER MACHINE IS NEVER STUCK.  In an accepted program, for every function, every
    interpretation of the primitive operations, all argument values (as many as the function has
    parameters) and every fuel: the run of the register machine on the emitted stack does not end
    with a read of a register or name that was never written, a register of the wrong kind, a
    field index that the struct type does not have, or a missing argument - also when the source
    semantics cannot finish the run with any fuel. *)
Theorem vflat_never_stuck : forall (V : Type) (I : interp V) p out,
  run p = ROk out -> o_errors out = [] ->
  Forall2 (fun f root =>
             forall args n why, length args = length (fn_params f) ->
               snd (vflat_exec V I (b_ctx root) args n) <> VStuck why)
          (functions_of p) (o_fns out).
Proof.
  intros V I p out H Hacc.
  pose proof (run_accepted_each p out H Hacc) as HF.
  pose proof (run_labels_unique p out H) as HU.
  pose proof (run_targets_resolved p out H) as HR.
  pose proof (Forall2_Forall_r _ _ _ _ (Forall2_Forall_r _ _ _ _ HF HU) HR) as HF'.
  eapply Forall2_impl; [|exact HF']. cbv beta.
  intros f root [[(a & s & Hb & He & Hfr) Hnd] Hres] args n why Hlen.
  assert (HW : GWF (o_globals out)) by (rewrite (run_globals p out H); apply GWF_declarations).
  unfold vflat_exec.
  exact (function_body_safe I _ f a s root HW Hb He Hfr Hnd Hres args Hlen n n (le_n n) why).
Qed.

(** with the two static lemmas of [ValueSimSafe.v]: the machine always ends well *)
Print Assumptions vflat_never_stuck.
