(** C13, layers 1 and 2: frame discipline and statement placement.

    A weakest-precondition reading of the body-phase monad ([wp]): what holds of the result when
    the computation returns, which panics it may raise ([al]), whether it may run out of fuel
    ([oo]).  One generic pass over expressions and simple statements for every invariant of the
    live frames that the register counter, the instruction stacks and the return flag cannot
    break ([stable]); then

    - layer 1 ([run_never_noframe], all programs): every computation of the body phase that is
      started with [n >= 1] live frames ends with exactly [n], and never finds too few frames;
    - layer 2 ([run_never_illkinded], [run_never_looplabel]): on kinded programs whose
      loop-flavoured if-bodies are inside loops there is no ill-kinded placement and the loop
      labels are there when they are needed.

    The generic pass also carries the fuel of [expression] ([fuel_ok]: a pure reading of which
    calls [expression] makes), so that layer 4 is left with arithmetic. *)
From Coq Require Import Lia.
From SA Require Import Model.
From SA.Proofs Require Import Probe.
Local Open Scope list_scope.

(** ** Weakest preconditions *)
Definition wp {A} (al : panic_kind -> Prop) (oo : Prop) (m : M A) (s : bst)
           (Q : A -> bst -> Prop) : Prop :=
  match m s with Ok a s' => Q a s' | Panic k => al k | OutOfFuel => oo end.

Lemma wp_ret {A} al oo (a : A) s (Q : A -> bst -> Prop) : Q a s -> wp al oo (ret a) s Q.
Proof. intro H; exact H. Qed.

Lemma wp_bind {A B} al oo (m : M A) (f : A -> M B) s (R : A -> bst -> Prop) Q :
  wp al oo m s R -> (forall a s1, R a s1 -> wp al oo (f a) s1 Q) -> wp al oo (bind m f) s Q.
Proof. unfold wp, bind. intros Hm Hf. destruct (m s) as [a s1| |]; [apply Hf, Hm | exact Hm ..]. Qed.

Lemma wp_conseq {A} al oo (m : M A) s (Q Q' : A -> bst -> Prop) :
  wp al oo m s Q -> (forall a s', Q a s' -> Q' a s') -> wp al oo m s Q'.
Proof. unfold wp. intros Hm HQ. destruct (m s); [apply HQ, Hm | exact Hm ..]. Qed.

Lemma wp_weaken {A} (al al' : panic_kind -> Prop) (oo oo' : Prop) (m : M A) s Q :
  wp al oo m s Q -> (forall k, al k -> al' k) -> (oo -> oo') -> wp al' oo' m s Q.
Proof. unfold wp. intros Hm Ha Ho. destruct (m s); [exact Hm | apply Ha, Hm | apply Ho, Hm]. Qed.

Lemma wp_gets {A} al oo (g : list block -> A) s (Q : A -> bst -> Prop) :
  Q (g (frames s)) s -> wp al oo (gets g) s Q.
Proof. intro H; exact H. Qed.

Lemma wp_bind_gets {A B} al oo (g : list block -> A) (f : A -> M B) s Q :
  wp al oo (f (g (frames s))) s Q -> wp al oo (bind (gets g) f) s Q.
Proof. intro H; exact H. Qed.

Lemma wp_panic {A} (al : panic_kind -> Prop) oo k s (Q : A -> bst -> Prop) :
  al k -> wp al oo (panic k) s Q.
Proof. intro H; exact H. Qed.

Lemma wp_oof {A} al (oo : Prop) s (Q : A -> bst -> Prop) : oo -> wp al oo out_of_fuel s Q.
Proof. intro H; exact H. Qed.

Lemma wp_upd al oo f s (Q : unit -> bst -> Prop) :
  Q tt (BSt (f (frames s)) (errs s)) -> wp al oo (upd_frames f) s Q.
Proof. intro H; exact H. Qed.

Lemma wp_add_error al oo e s (Q : unit -> bst -> Prop) :
  Q tt (BSt (frames s) (errs s ++ [e])) -> wp al oo (add_error e) s Q.
Proof. intro H; exact H. Qed.

(** what [wp] says of a run *)
Lemma wp_ok {A} al oo (m : M A) s Q a s' : wp al oo m s Q -> m s = Ok a s' -> Q a s'.
Proof. unfold wp. intros H E. rewrite E in H. exact H. Qed.
Lemma wp_panics {A} al oo (m : M A) s Q k : wp al oo m s Q -> m s = Panic k -> al k.
Proof. unfold wp. intros H E. rewrite E in H. exact H. Qed.
Lemma wp_oofs {A} al oo (m : M A) s Q : wp al oo m s Q -> m s = OutOfFuel -> oo.
Proof. unfold wp. intros H E. rewrite E in H. exact H. Qed.

(** ** Invariants of the live frames *)
Definition keepI {A} (I : list block -> Prop) : A -> bst -> Prop := fun _ s' => I (frames s').

(** block updates that touch neither the scopes nor the registries *)
Definition neutral (g : block -> block) : Prop :=
  forall b, b_values (g b) = b_values b /\ b_inner (g b) = b_inner b /\ b_labels (g b) = b_labels b.
Definition stable (I : list block -> Prop) : Prop :=
  forall g fs, neutral g -> I fs -> I (map g fs).

Lemma neutral_set_reg r : neutral (set_reg r).
Proof. intro b. repeat split. Qed.
Lemma neutral_push_ctx i : neutral (push_ctx i).
Proof. intro b. repeat split. Qed.
Lemma neutral_set_mret : neutral set_mret.
Proof. intro b. repeat split. Qed.

(** ** Invariants that no update of a live frame can break *)
Definition loose (I : list block -> Prop) : Prop :=
  (forall g fs, I fs -> I (map g fs)) /\ (forall (g : block -> block) b r, I (b :: r) -> I (g b :: r)).

Lemma loose_stable I : loose I -> stable I.
Proof. intros [H _] g fs _. apply H. Qed.

(** the number of live frames *)
Definition LenIs (n : nat) (fs : list block) : Prop := length fs = n.
Lemma len_loose n : loose (LenIs n).
Proof.
  split; unfold LenIs.
  - intros g fs H. rewrite map_length. exact H.
  - intros g b r H. exact H.
Qed.
Lemma len_stable n : stable (LenIs n).
Proof. apply loose_stable, len_loose. Qed.

(** nothing *)
Definition TopI (fs : list block) : Prop := True.
Lemma top_loose : loose TopI.
Proof. split; intros; exact I. Qed.
Lemma top_stable : stable TopI.
Proof. apply loose_stable, top_loose. Qed.

Section Prims.
  Variable al : panic_kind -> Prop.
  Variable oo : Prop.
  Variable I : list block -> Prop.
  Hypothesis HS : stable I.

  Lemma wp_bind_I {A B} (m : M A) (f : A -> M B) s :
    wp al oo m s (keepI I) -> (forall a s1, I (frames s1) -> wp al oo (f a) s1 (keepI I)) ->
    wp al oo (bind m f) s (keepI I).
  Proof. intros Hm Hf. eapply wp_bind; [exact Hm | exact Hf]. Qed.

  Lemma g_ret {A} (a : A) s : I (frames s) -> wp al oo (ret a) s (keepI I).
  Proof. intro H; exact H. Qed.
  Lemma g_gets {A} (g : list block -> A) s : I (frames s) -> wp al oo (gets g) s (keepI I).
  Proof. intro H; exact H. Qed.
  Lemma g_add_error e s : I (frames s) -> wp al oo (add_error e) s (keepI I).
  Proof. intro H; exact H. Qed.
  Lemma g_when b m s :
    wp al oo m s (keepI I) -> I (frames s) -> wp al oo (when b m) s (keepI I).
  Proof. intros Hm H. destruct b; [exact Hm | exact H]. Qed.
  Lemma g_upd_map g s : neutral g -> I (frames s) -> wp al oo (upd_frames (map g)) s (keepI I).
  Proof. intros Hg H. apply wp_upd. unfold keepI. cbn [frames]. apply HS; assumption. Qed.
  Lemma g_inc_register s : I (frames s) -> wp al oo inc_register s (keepI I).
  Proof.
    intro H. unfold inc_register. apply wp_upd. unfold keepI. cbn [frames].
    apply HS; [apply neutral_set_reg | exact H].
  Qed.
  Lemma g_emit i s : I (frames s) -> wp al oo (emit i) s (keepI I).
  Proof. apply g_upd_map, neutral_push_ctx. Qed.
  Lemma g_set_return s : I (frames s) -> wp al oo set_return s (keepI I).
  Proof. apply g_upd_map, neutral_set_mret. Qed.
  Lemma g_bump s : I (frames s) -> wp al oo bump s (keepI I).
  Proof.
    intro H. unfold bump. apply wp_bind_I; [apply g_inc_register, H | intros _ s1 H1].
    apply g_gets, H1.
  Qed.
  Lemma g_alloc_emit mk s : I (frames s) -> wp al oo (alloc_emit mk) s (keepI I).
  Proof.
    intro H. unfold alloc_emit. apply wp_bind_I; [apply g_inc_register, H | intros _ s1 H1].
    apply wp_bind_gets. apply wp_bind_I; [apply g_upd_map; [apply neutral_push_ctx | exact H1]|].
    intros _ s2 H2. apply g_ret, H2.
  Qed.
End Prims.

Ltac side_al :=
  first [ assumption | exact I | solve [auto]
        | (hnf; intro; discriminate) | (hnf; split; intro; discriminate) ].

(** the pass: [extra] closes the goals that are particular to an invariant *)
Ltac inv_side :=
  first [ assumption | apply top_stable | apply len_stable | apply top_loose | apply len_loose
        | solve [auto] ].

Ltac g_prim :=
  match goal with
  | |- wp _ _ (ret _) _ _ => apply g_ret; assumption
  | |- wp _ _ (gets _) _ _ => apply g_gets; assumption
  | |- wp _ _ get_reg _ _ => apply g_gets; assumption
  | |- wp _ _ (add_error _) _ _ => apply g_add_error; assumption
  | |- wp _ _ (emit _) _ _ => apply g_emit; inv_side
  | |- wp _ _ set_return _ _ => apply g_set_return; inv_side
  | |- wp _ _ bump _ _ => apply g_bump; inv_side
  | |- wp _ _ (alloc_emit _) _ _ => apply g_alloc_emit; inv_side
  | |- wp _ _ inc_register _ _ => apply g_inc_register; inv_side
  | |- wp _ _ (panic _) _ _ => apply wp_panic; side_al
  | |- wp _ _ out_of_fuel _ _ => apply wp_oof; side_al
  end.

Ltac g_go_with extra :=
  repeat first
    [ extra
    | g_prim
    | match goal with H : context [wp] |- wp _ _ _ _ _ => solve [eapply H; eauto] end
    | match goal with |- wp _ _ (when _ _) _ _ => apply g_when; [|assumption] end
    | match goal with
      | |- wp _ _ (bind (gets _) _) _ _ => apply wp_bind_gets
      | |- wp _ _ (bind (lookup_value _) _) _ _ => unfold lookup_value; apply wp_bind_gets
      | |- wp _ _ (bind get_reg _) _ _ => unfold get_reg; apply wp_bind_gets
      end
    | match goal with |- wp _ _ (bind _ _) _ _ => apply wp_bind_I; [| intros ? ? ?] end
    | match goal with |- wp _ _ (match ?x with _ => _ end) _ _ => destruct x end
    | match goal with |- wp _ _ (if ?b then _ else _) _ _ => destruct b end
    | progress cbv beta zeta ].
Ltac g_go := g_go_with fail.

(** ** The fuel of [expression], read off the calls it makes *)
Definition vals_of (e : expr) : list expr_val :=
  match e with Expr v rest => v :: map snd rest end.

Definition val_ok (P : expr -> Prop) (v : expr_val) : Prop :=
  match v with
  | EVSub e => P e
  | EVCall _ args => Forall P args
  | _ => True
  end.

Fixpoint fuel_ok (f : nat) (e : expr) : Prop :=
  match f with
  | O => False
  | S f' => Forall (val_ok (fuel_ok f')) (vals_of (fold_priority e))
  end.

Lemma val_ok_mono (P P' : expr -> Prop) v : (forall e, P e -> P' e) -> val_ok P v -> val_ok P' v.
Proof.
  intro H. destruct v; cbn [val_ok]; auto. intro HF. eapply Forall_impl; [exact H | exact HF].
Qed.
Lemma val_ok_all (P : expr -> Prop) v : (forall e, P e) -> val_ok P v.
Proof. intro H. destruct v; cbn [val_ok]; auto. apply Forall_forall. intros; apply H. Qed.

(** ** The generic pass over expressions and simple statements *)
Section Generic.
  Variable al : panic_kind -> Prop.
  Variable oo : Prop.
  Variable I : list block -> Prop.
  Hypothesis HS : stable I.
  Variable G : globals.

  Lemma g_check_type_exists t v l s :
    I (frames s) -> wp al oo (check_type_exists G t v l) s (keepI I).
  Proof. intro HI. unfold check_type_exists. g_go. Qed.

  Section Expr.
    Variable E : expr -> M (option eres).
    Variable okE : expr -> Prop.
    Hypothesis HE : forall e s, okE e -> I (frames s) -> wp al oo (E e) s (keepI I).

    Lemma g_call_args callee params : forall args i acc s,
      Forall okE args -> I (frames s) ->
      wp al oo (call_args E callee params i args acc) s (keepI I).
    Proof.
      induction args as [|a args IH]; intros i acc s Hok HI; cbn [call_args]; [g_go|].
      inversion Hok; subst. g_go.
    Qed.

    Lemma g_function_call f args s :
      Forall okE args -> I (frames s) -> wp al oo (function_call G E f args) s (keepI I).
    Proof. intros Hok HI. unfold function_call. pose proof g_call_args. g_go. Qed.

    Lemma g_expr_value v s :
      val_ok okE v -> I (frames s) -> wp al oo (expr_value G E v) s (keepI I).
    Proof.
      pose proof g_function_call. pose proof g_check_type_exists.
      intros Hok HI. destruct v; cbn [expr_value]; cbn [val_ok] in Hok; g_go.
    Qed.

    Lemma g_expr_chain : forall rest left s,
      Forall (val_ok okE) (map snd rest) -> I (frames s) ->
      wp al oo (expr_chain G E left rest) s (keepI I).
    Proof.
      pose proof g_expr_value.
      induction rest as [|[op v] rest IH]; intros left s Hok HI; cbn [expr_chain]; [g_go|].
      cbn [map snd] in Hok. inversion Hok; subst. g_go.
    Qed.

    Lemma g_expression_body e s :
      Forall (val_ok okE) (vals_of (fold_priority e)) -> I (frames s) ->
      wp al oo (expression_body G E e) s (keepI I).
    Proof.
      pose proof g_expr_value. pose proof g_expr_chain.
      intros Hok HI. unfold expression_body. destruct (fold_priority e) as [v rest].
      cbn [vals_of] in Hok. inversion Hok; subst. g_go.
    Qed.
  End Expr.

  (** enough fuel, or running out of it is not excluded *)
  Definition fok (f : nat) (e : expr) : Prop := oo \/ fuel_ok f e.

  Lemma g_expression : forall f e s,
    fok f e -> I (frames s) -> wp al oo (expression G f e) s (keepI I).
  Proof.
    induction f as [|f IH]; intros e s Hok HI; cbn [expression].
    - destruct Hok as [Ho|[]]. apply wp_oof, Ho.
    - apply (g_expression_body (expression G f) (fok f) (IH)); [|exact HI].
      destruct Hok as [Ho|Hok].
      + apply Forall_forall. intros v _. apply val_ok_all. intro; left; exact Ho.
      + cbn [fuel_ok] in Hok. eapply Forall_impl; [|exact Hok].
        intros v Hv. eapply val_ok_mono; [|exact Hv]. intros e' He'; right; exact He'.
  Qed.

  (** the expressions of a condition *)
  Fixpoint lcond_exprs (c : lcond) : list expr :=
    match c with
    | LC l _ r next => l :: r :: match next with Some (_, c') => lcond_exprs c' | None => [] end
    end.
  Definition cond_exprs (c : cond) : list expr :=
    match c with CSingle e => [e] | CLogic l => lcond_exprs l end.

  Section Stmts.
    Variable fuel : nat.
    Variable RT : sem_ty.

    Lemma g_binding x e s :
      fok fuel e -> I (frames s) -> wp al oo (binding G fuel x e) s (keepI I).
    Proof. pose proof (g_expression fuel). intros Hok HI. unfold binding. g_go. Qed.

    Lemma g_call_stmt f args s :
      Forall (fok fuel) args -> I (frames s) -> wp al oo (call_stmt G fuel f args) s (keepI I).
    Proof.
      intros Hok HI. unfold call_stmt. cbv beta zeta.
      apply wp_bind_I; [|intros; g_go].
      apply (g_function_call (expression G fuel) (fok fuel) (g_expression fuel)); assumption.
    Qed.

    Lemma g_condition_expression : forall c s,
      Forall (fok fuel) (lcond_exprs c) -> I (frames s) ->
      wp al oo (condition_expression G fuel c) s (keepI I).
    Proof.
      pose proof (g_expression fuel).
      fix IH 1. intros [l cmp r next] s Hok HI. cbn [condition_expression]. cbv beta zeta.
      cbn [lcond_exprs] in Hok. inversion Hok as [|? ? Hl Hok']; subst.
      inversion Hok' as [|? ? Hr Hn]; subst.
      destruct next as [[op c']|].
      - pose proof (fun s => IH c' s Hn). g_go.
      - g_go.
    Qed.

    Lemma g_if_condition_calculation c lb le lend ie s :
      Forall (fok fuel) (cond_exprs c) -> I (frames s) ->
      wp al oo (if_condition_calculation G fuel c lb le lend ie) s (keepI I).
    Proof.
      pose proof (g_expression fuel). pose proof g_condition_expression.
      intros Hok HI. unfold if_condition_calculation. destruct c as [e|lc]; cbn [cond_exprs] in Hok.
      - inversion Hok; subst. g_go.
      - g_go.
    Qed.

    Lemma g_check_return_type er s :
      I (frames s) -> wp al oo (check_return_type RT er) s (keepI I).
    Proof. intro HI. unfold check_return_type. g_go. Qed.

    Lemma g_code_after_errors k fl s :
      I (frames s) -> wp al oo (code_after_errors k fl) s (keepI I).
    Proof. intro HI. unfold code_after_errors. g_go. Qed.
  End Stmts.
End Generic.

Section Loose.
  Variable al : panic_kind -> Prop.
  Variable oo : Prop.
  Hypothesis Hal : al PSuffixOverflow.
  Variable I : list block -> Prop.
  Hypothesis HL : loose I.
  Notation K := (keepI I).

  Lemma len_upd_map g s : I (frames s) -> wp al oo (upd_frames (map g)) s K.
  Proof. intro H. apply wp_upd. unfold keepI. cbn [frames]. apply (proj1 HL), H. Qed.
  Lemma len_set_inner_name x s : I (frames s) -> wp al oo (set_inner_name x) s K.
  Proof. apply len_upd_map. Qed.
  Lemma len_set_label_name x s : I (frames s) -> wp al oo (set_label_name x) s K.
  Proof. apply len_upd_map. Qed.
  Lemma len_insert_value x v s : I (frames s) -> wp al oo (insert_value x v) s K.
  Proof.
    intro H. apply wp_upd. unfold keepI. cbn [frames].
    destruct (frames s); [exact H | apply (proj2 HL), H].
  Qed.
  Lemma len_emit_kid k i s : I (frames s) -> wp al oo (emit_kid k i) s K.
  Proof.
    intro H. unfold emit_kid. apply (wp_bind _ _ _ _ _ K); [|intros ? s1 H1; apply len_upd_map; exact H1].
    apply wp_upd. unfold keepI. cbn [frames]. destruct (frames s); [exact H | apply (proj2 HL), H].
  Qed.

  (** the probes, with the fuel the model reads in the same state: never out of fuel *)
  Lemma len_next_inner_name base s :
    I (frames s) -> wp al oo (next_inner_name (inner_probe_fuel (frames s)) base) s K.
  Proof.
    intro H. unfold wp. pose proof (next_inner_name_terminates base s) as HT.
    rewrite next_inner_name_probe in *.
    destruct (probe _ _ base); [exact H | exact Hal | congruence].
  Qed.
  Lemma len_label_probe base s :
    I (frames s) -> wp al oo (label_probe (label_probe_fuel (frames s)) base) s K.
  Proof.
    intro H. unfold wp. pose proof (label_probe_terminates base s) as HT.
    rewrite label_probe_probe in *.
    destruct (probe _ _ base); [|exact Hal | congruence].
    unfold keepI. cbn [frames]. apply (proj1 HL), H.
  Qed.
  Lemma len_gen_label base s : I (frames s) -> wp al oo (gen_label base) s K.
  Proof.
    intro H. unfold gen_label. apply wp_bind_gets. destruct (label_exists base (frames s)).
    - apply wp_bind_gets. apply len_label_probe, H.
    - apply (wp_bind _ _ _ _ _ K); [apply len_set_label_name, H | intros ? s1 H1; exact H1].
  Qed.
End Loose.

Ltac l_extra :=
  idtac;
  match goal with
  | |- wp _ _ (set_inner_name _) _ _ => apply len_set_inner_name; inv_side
  | |- wp _ _ (set_label_name _) _ _ => apply len_set_label_name; inv_side
  | |- wp _ _ (insert_value _ _) _ _ => apply len_insert_value; inv_side
  | |- wp _ _ (emit_kid _ _) _ _ => apply len_emit_kid; inv_side
  | |- wp _ _ (gen_label _) _ _ => apply len_gen_label; first [inv_side | side_al]
  end.
Ltac l_go := g_go_with l_extra.

Section LooseStmts.
  Variable al : panic_kind -> Prop.
  Variable oo : Prop.
  Hypothesis Hal : al PSuffixOverflow.
  Variable I : list block -> Prop.
  Hypothesis HL : loose I.
  Variable G : globals.
  Variable fuel : nat.

  Lemma len_let_binding x m t e s :
    fok oo fuel e -> I (frames s) -> wp al oo (let_binding G fuel x m t e) s (keepI I).
  Proof.
    intros Hok HI. pose proof (loose_stable I HL) as HS. unfold let_binding. cbv beta zeta.
    apply wp_bind_I; [apply g_expression; assumption|]. intros r s1 H1.
    destruct r as [er|]; [|l_go].
    destruct (match t with Some _ => _ | None => _ end); [l_go|].
    unfold lookup_value. apply wp_bind_gets. apply wp_bind_gets.
    apply wp_bind_I; [apply len_next_inner_name; assumption|]. intros inner s2 H2. l_go.
  Qed.

  Lemma len_init_func_params : forall ps s,
    I (frames s) -> wp al oo (init_func_params ps) s (keepI I).
  Proof.
    pose proof (loose_stable I HL) as HS.
    induction ps as [|[x t] ps IH]; intros s HI; cbn [init_func_params]; l_go.
  Qed.
End LooseStmts.

(** ** Opening and closing a block *)
Section PushPop.
  Variable al : panic_kind -> Prop.
  Variable oo : Prop.

  Lemma wp_bind_J {A B} (J I : list block -> Prop) (m : M A) (f : A -> M B) s :
    wp al oo m s (keepI J) -> (forall a s1, J (frames s1) -> wp al oo (f a) s1 (keepI I)) ->
    wp al oo (bind m f) s (keepI I).
  Proof. intros Hm Hf. eapply wp_bind; [exact Hm | exact Hf]. Qed.

  Lemma len_push n s : LenIs n (frames s) -> wp al oo push_child s (keepI (LenIs (S n))).
  Proof. intro H. apply wp_upd. unfold keepI, LenIs in *. cbn [frames length]. rewrite H. reflexivity. Qed.

  (** with at least two live frames [pop_child] finds its parent *)
  Lemma len_pop n s :
    (1 <= n)%nat -> LenIs (S n) (frames s) -> wp al oo pop_child s (keepI (LenIs n)).
  Proof.
    intros Hn H. unfold wp, pop_child, keepI, LenIs in *.
    destruct (frames s) as [|c [|p r]]; cbn [length] in *; [lia | lia |]. cbn [frames length]. lia.
  Qed.
End PushPop.

(** steps through the part of a control function that runs inside the block it opened *)
Ltac step_in J tac :=
  match goal with
  | |- wp _ _ (bind ?m _) _ _ =>
      lazymatch m with
      | pop_child => fail
      | _ => apply (wp_bind_J _ _ J); [solve [tac] | intros ? ? ?]
      end
  end.

(** ** Layer 1: the number of live frames *)
Definition al_nf (k : panic_kind) : Prop := k <> PNoFrame.

Section L1.
  Variable G : globals.
  Variable fuel : nat.
  Variable RT : sem_ty.
  Notation W n m s := (wp al_nf True m s (keepI (LenIs n))).

  Let Hfok : forall f e, fok True f e := fun _ _ => or_introl I.
  Let Hfoks : forall f l, Forall (fok True f) l.
  Proof. intros f l. apply Forall_forall. intros; apply Hfok. Qed.
  Let Hal : al_nf PSuffixOverflow.
  Proof. intro; discriminate. Qed.

  Ltac l1_pose :=
    pose proof Hfok; pose proof Hfoks; pose proof Hal;
    pose proof (fun n => g_expression al_nf True (LenIs n) (len_stable n) G fuel);
    pose proof (fun n => len_let_binding al_nf True Hal (LenIs n) (len_loose n) G fuel);
    pose proof (fun n => g_binding al_nf True (LenIs n) (len_stable n) G fuel);
    pose proof (fun n => g_call_stmt al_nf True (LenIs n) (len_stable n) G fuel);
    pose proof (fun n => g_check_return_type al_nf True (LenIs n) RT);
    pose proof (fun n => g_code_after_errors al_nf True (LenIs n));
    pose proof (fun n => g_check_type_exists al_nf True (LenIs n) G);
    pose proof (fun n => g_if_condition_calculation al_nf True (LenIs n) (len_stable n) G fuel).

  Section Control.
    Variable IFC : ifstmt -> option string -> option (string * string) -> M unit.
    Variable LOOP : list stmt -> M unit.
    Hypothesis HIFC : forall i le ll n s,
      (1 <= n)%nat -> LenIs n (frames s) -> W n (IFC i le ll) s.
    Hypothesis HLOOP : forall b n s, (1 <= n)%nat -> LenIs n (frames s) -> W n (LOOP b) s.

    Lemma l1_nested_stmt k lend lloop fl st n s :
      (1 <= n)%nat -> LenIs n (frames s) ->
      W n (nested_stmt G fuel RT IFC LOOP k lend lloop fl st) s.
    Proof.
      intros Hn HI. l1_pose.
      destruct st; cbn [nested_stmt]; l_go.
    Qed.

    Lemma l1_run_body k lend lloop n : forall ss fl s,
      (1 <= n)%nat -> LenIs n (frames s) ->
      W n (run_body G fuel RT IFC LOOP k lend lloop fl ss) s.
    Proof.
      l1_pose. pose proof l1_nested_stmt.
      induction ss as [|st ss IH]; intros fl s Hn HI; cbn [run_body]; l_go.
    Qed.

    Lemma l1_if_body b lend lloop n s :
      (1 <= n)%nat -> LenIs n (frames s) ->
      W n (if_body G fuel RT IFC LOOP b lend lloop) s.
    Proof.
      intros Hn HI. pose proof l1_run_body.
      destruct b as [ss|ss]; cbn [if_body]; l_go.
    Qed.

    Lemma l1_if_condition_step i le ll n s :
      (1 <= n)%nat -> LenIs n (frames s) ->
      W n (if_condition_step G fuel RT IFC LOOP i le ll) s.
    Proof.
      intros Hn HI. l1_pose.
      pose proof l1_if_body. assert (Hn1 : (1 <= S n)%nat) by lia.
      destruct i as [c body els elif].
      destruct els as [eb|]; [|destruct elif as [ei|]];
        cbn [if_condition_step is_some orb andb];
        (apply wp_bind_I; [l_go|]; intros ? ? ?);
        (apply (wp_bind_J _ _ (LenIs (S n))); [apply len_push; assumption|]; intros ? ? ?);
        repeat step_in (LenIs (S n)) l_go; cbv beta zeta;
        repeat step_in (LenIs (S n)) l_go.
      - (* then and else *)
        apply (wp_bind_J _ _ (LenIs n)); [apply len_pop; assumption|]. intros slot ? ?.
        apply wp_bind_I; [|intros; l_go].
        apply (wp_bind_J _ _ (LenIs (S n))); [apply len_push; assumption|]. intros ? ? ?.
        repeat step_in (LenIs (S n)) l_go.
        apply (wp_bind_J _ _ (LenIs n)); [apply len_pop; assumption|]. intros ? ? ?. l_go.
      - (* then and else-if *)
        apply (wp_bind_J _ _ (LenIs n)); [apply len_pop; assumption|]. intros slot ? ?. l_go.
      - (* then only *)
        apply (wp_bind_J _ _ (LenIs n)); [apply len_pop; assumption|]. intros ? ? ?. l_go.
    Qed.

    Lemma l1_loop_step body n s :
      (1 <= n)%nat -> LenIs n (frames s) -> W n (loop_step G fuel RT IFC LOOP body) s.
    Proof.
      intros Hn HI. l1_pose.
      pose proof l1_run_body. assert (Hn1 : (1 <= S n)%nat) by lia.
      unfold loop_step.
      apply (wp_bind_J _ _ (LenIs (S n))); [apply len_push; assumption|]. intros ? ? ?.
      repeat step_in (LenIs (S n)) l_go.
      apply (wp_bind_J _ _ (LenIs n)); [apply len_pop; assumption|]. intros ? ? ?. l_go.
    Qed.
  End Control.

  Lemma l1_control c :
    (forall i le ll n s, (1 <= n)%nat -> LenIs n (frames s) -> W n (if_condition G fuel RT c i le ll) s) /\
    (forall b n s, (1 <= n)%nat -> LenIs n (frames s) -> W n (loop_statement G fuel RT c b) s).
  Proof.
    induction c as [|c [IH1 IH2]]; split; intros; cbn [if_condition loop_statement];
      try (apply wp_oof; exact I).
    - apply l1_if_condition_step; assumption.
    - apply l1_loop_step; assumption.
  Qed.

  Lemma l1_fn_stmt returned st n s :
    (1 <= n)%nat -> LenIs n (frames s) -> W n (fn_stmt G fuel RT returned st) s.
  Proof.
    intros Hn HI. l1_pose.
    destruct (l1_control fuel) as [HI1 HL1].
    destruct st; cbn [fn_stmt]; l_go.
  Qed.

  Lemma l1_fn_stmts n : forall ss returned s,
    (1 <= n)%nat -> LenIs n (frames s) -> W n (fn_stmts G fuel RT returned ss) s.
  Proof.
    pose proof l1_fn_stmt.
    induction ss as [|st ss IH]; intros returned s Hn HI; cbn [fn_stmts]; l_go.
  Qed.
End L1.

Lemma l1_function_body_m G f s :
  LenIs 1 (frames s) -> wp al_nf True (function_body_m G f) s (keepI (LenIs 1)).
Proof.
  intro HI.
  assert (Hal : al_nf PSuffixOverflow) by (intro; discriminate).
  unfold function_body_m. cbv beta zeta.
  apply wp_bind_I; [apply len_init_func_params; inv_side|]. intros ? s1 H1.
  apply wp_bind_I; [apply l1_fn_stmts; [lia | assumption]|]. intros returned s2 H2. l_go.
Qed.

(** [function_body] ends with the root block as its only frame, and never finds too few frames *)
Theorem function_body_frames G errs0 f :
  match function_body G errs0 f with
  | Ok _ s => exists root, frames s = [root]
  | Panic k => k <> PNoFrame
  | OutOfFuel => True
  end.
Proof.
  pose proof (l1_function_body_m G f (BSt [empty_block] errs0) eq_refl) as H.
  unfold wp, function_body in *. destruct (function_body_m G f _) as [a s| |]; [|exact H|exact I].
  unfold keepI, LenIs in H. destruct (frames s) as [|root [|]]; try discriminate H.
  exists root. reflexivity.
Qed.

(** ** From the function bodies to [run] *)
Lemma bodies_inl G (P : run_result -> Prop) : forall fs errs0 roots r,
  (forall errs f, In f fs ->
     match function_body G errs f with
     | Ok _ _ => True
     | Panic k => P (RPanic k)
     | OutOfFuel => P ROutOfFuel
     end) ->
  bodies G errs0 roots fs = inl r -> P r.
Proof.
  induction fs as [|f fs IH]; intros errs0 roots r HP E; cbn [bodies] in E; [discriminate|].
  pose proof (HP errs0 f (or_introl eq_refl)) as Hf.
  pose proof (function_body_frames G errs0 f) as Hfr.
  destruct (function_body G errs0 f) as [a s| |].
  - destruct Hfr as [root Hroot]. rewrite Hroot in E.
    eapply IH; [|exact E]. intros errs f' Hin. apply HP. right. exact Hin.
  - inversion E; subst. exact Hf.
  - inversion E; subst. exact Hf.
Qed.

Theorem run_cases p (P : run_result -> Prop) :
  (forall out, P (ROk out)) ->
  (forall errs f, In f (functions_of p) ->
     match function_body (gs_globals (declarations p)) errs f with
     | Ok _ _ => True
     | Panic k => P (RPanic k)
     | OutOfFuel => P ROutOfFuel
     end) ->
  P (run p).
Proof.
  intros Hok HP. unfold run. cbv zeta.
  destruct (bodies _ _ [] (functions_of p)) as [r|[errors roots]] eqn:E.
  - eapply bodies_inl; [exact HP | exact E].
  - apply Hok.
Qed.

(** LAYER 1: for every program, the analysis never finds fewer frames than it needs *)
Theorem run_never_noframe : forall p k, run p = RPanic k -> k <> PNoFrame.
Proof.
  intros p k E.
  assert (H : match run p with RPanic k => k <> PNoFrame | _ => True end).
  { apply (run_cases p (fun r => match r with RPanic k => k <> PNoFrame | _ => True end)).
    - intros; exact I.
    - intros errs f _. pose proof (function_body_frames (gs_globals (declarations p)) errs f) as H.
      destruct (function_body _ errs f); [exact I | exact H | exact I]. }
  rewrite E in H. exact H.
Qed.

Print Assumptions function_body_frames.
Print Assumptions run_never_noframe.

(** ** Unfolding the syntactic traversal of [Mon/C13.v] *)
Section WalkEq.
  Variable chk : bool -> bool -> stmt -> bool.
  Variable chkb : bool -> ifbody -> bool.
  Notation ws := (walk_stmt chk chkb).

  Lemma walk_stmt_if brk inl i :
    ws brk inl (SIf i) = chk brk inl (SIf i) && walk_if chk chkb inl i.
  Proof. reflexivity. Qed.
  Lemma walk_stmt_loop brk inl body :
    ws brk inl (SLoop body) = chk brk inl (SLoop body) && forallb (ws true true) body.
  Proof. reflexivity. Qed.
  Lemma walk_if_eq inl c body els elif :
    walk_if chk chkb inl (IfS c body els elif) =
    walk_body chk chkb inl body &&
    match els with Some b => walk_body chk chkb inl b | None => true end &&
    match elif with Some i' => walk_if chk chkb inl i' | None => true end.
  Proof. reflexivity. Qed.
  Lemma walk_body_if inl ss :
    walk_body chk chkb inl (IBIf ss) = chkb inl (IBIf ss) && forallb (ws false inl) ss.
  Proof. reflexivity. Qed.
  Lemma walk_body_loop inl ss :
    walk_body chk chkb inl (IBLoop ss) = chkb inl (IBLoop ss) && forallb (ws true inl) ss.
  Proof. reflexivity. Qed.
End WalkEq.

Ltac split_andb :=
  repeat match goal with
         | H : _ && _ = true |- _ => apply andb_prop in H; destruct H
         end.

(** ** Layer 2: statement placement *)
Definition al_kd (k : panic_kind) : Prop := k <> PIllKinded /\ k <> PLoopLabel.

Lemma top_push al oo s : wp al oo push_child s (keepI TopI).
Proof. exact I. Qed.
Lemma top_pop (al : panic_kind -> Prop) oo s : al PNoFrame -> wp al oo pop_child s (keepI TopI).
Proof. intro H. unfold wp, pop_child. destruct (frames s) as [|c [|p r]]; [exact H | exact H | exact I]. Qed.

Ltac t_extra :=
  first
    [ l_extra
    | match goal with
      | |- wp _ _ push_child _ _ => apply top_push
      | |- wp _ _ pop_child _ _ => apply top_pop; side_al
      end ].
Ltac t_go := g_go_with t_extra.

Definition brk_of (k : bkind) : bool := match k with KIf => false | _ => true end.

Section L2.
  Variable G : globals.
  Variable fuel : nat.
  Variable RT : sem_ty.
  Notation W m s := (wp al_kd True m s (keepI TopI)).
  Notation kd := (walk_stmt chk_kind any_body).
  Notation lp := (walk_stmt any_stmt chk_loop_body).

  Let Hfok : forall f e, fok True f e := fun _ _ => or_introl I.
  Let Hfoks : forall f l, Forall (fok True f) l.
  Proof. intros f l. apply Forall_forall. intros; apply Hfok. Qed.
  Let Hal : al_kd PSuffixOverflow.
  Proof. split; intro; discriminate. Qed.

  Ltac l2_pose :=
    pose proof Hfok; pose proof Hfoks; pose proof Hal;
    pose proof (g_expression al_kd True TopI top_stable G fuel);
    pose proof (len_let_binding al_kd True Hal TopI top_loose G fuel);
    pose proof (g_binding al_kd True TopI top_stable G fuel);
    pose proof (g_call_stmt al_kd True TopI top_stable G fuel);
    pose proof (g_check_return_type al_kd True TopI RT);
    pose proof (g_code_after_errors al_kd True TopI);
    pose proof (g_check_type_exists al_kd True TopI G);
    pose proof (g_if_condition_calculation al_kd True TopI top_stable G fuel).

  Section Control.
    Variable IFC : ifstmt -> option string -> option (string * string) -> M unit.
    Variable LOOP : list stmt -> M unit.
    Hypothesis HIFC : forall i le ll s,
      walk_if chk_kind any_body (is_some ll) i = true ->
      walk_if any_stmt chk_loop_body (is_some ll) i = true ->
      TopI (frames s) -> W (IFC i le ll) s.
    Hypothesis HLOOP : forall b s,
      forallb (kd true true) b = true -> forallb (lp true true) b = true ->
      TopI (frames s) -> W (LOOP b) s.

    Lemma l2_nested_stmt k lend lloop fl st s :
      (brk_of k = true -> is_some lloop = true) ->
      kd (brk_of k) (is_some lloop) st = true -> lp (brk_of k) (is_some lloop) st = true ->
      TopI (frames s) -> W (nested_stmt G fuel RT IFC LOOP k lend lloop fl st) s.
    Proof.
      intros Hctx HK HP HI. l2_pose.
      destruct st; cbn [nested_stmt]; try solve [t_go].
      (* [if], loop: the hypotheses on the parts are convertible to those on the whole;
         expression statement: not kinded *)
      - (* break *)
        cbn [walk_stmt chk_kind] in HK. split_andb.
        destruct k; try discriminate; destruct lloop as [[lb le]|];
          try (specialize (Hctx eq_refl); discriminate Hctx); t_go.
      - (* continue *)
        cbn [walk_stmt chk_kind] in HK. split_andb.
        destruct k; try discriminate; destruct lloop as [[lb le]|];
          try (specialize (Hctx eq_refl); discriminate Hctx); t_go.
    Qed.

    Lemma l2_run_body k lend lloop : forall ss fl s,
      (brk_of k = true -> is_some lloop = true) ->
      forallb (kd (brk_of k) (is_some lloop)) ss = true ->
      forallb (lp (brk_of k) (is_some lloop)) ss = true ->
      TopI (frames s) -> W (run_body G fuel RT IFC LOOP k lend lloop fl ss) s.
    Proof.
      l2_pose. pose proof l2_nested_stmt.
      induction ss as [|st ss IH]; intros fl s Hctx HK HP HI; cbn [run_body]; [t_go|].
      cbn [forallb] in HK, HP. split_andb. t_go.
    Qed.

    Lemma l2_if_body b lend lloop s :
      walk_body chk_kind any_body (is_some lloop) b = true ->
      walk_body any_stmt chk_loop_body (is_some lloop) b = true ->
      TopI (frames s) -> W (if_body G fuel RT IFC LOOP b lend lloop) s.
    Proof.
      intros HK HP HI. l2_pose. pose proof l2_run_body as Hrb.
      destruct b as [ss|ss]; cbn [if_body].
      - rewrite walk_body_if in HK, HP. split_andb.
        apply wp_bind_I; [|intros; t_go].
        apply (Hrb KIf); [discriminate | assumption ..].
      - rewrite walk_body_loop in HK, HP. split_andb. cbn [chk_loop_body] in *.
        destruct lloop as [ll|]; [|discriminate].
        apply wp_bind_I; [|intros; t_go].
        apply (Hrb KIfLoop); [reflexivity | assumption ..].
    Qed.

    Lemma l2_if_condition_step i le ll s :
      walk_if chk_kind any_body (is_some ll) i = true ->
      walk_if any_stmt chk_loop_body (is_some ll) i = true ->
      TopI (frames s) -> W (if_condition_step G fuel RT IFC LOOP i le ll) s.
    Proof.
      intros HK HP HI. l2_pose. pose proof l2_if_body.
      destruct i as [c body els elif]. rewrite walk_if_eq in HK, HP. split_andb.
      destruct els as [eb|]; destruct elif as [ei|]; cbn [if_condition_step is_some orb andb]; t_go.
    Qed.

    Lemma l2_loop_step body s :
      forallb (kd true true) body = true -> forallb (lp true true) body = true ->
      TopI (frames s) -> W (loop_step G fuel RT IFC LOOP body) s.
    Proof.
      intros HK HP HI. l2_pose. pose proof l2_run_body as Hrb. unfold loop_step.
      apply wp_bind_I; [t_go|]. intros ? ? ?.
      apply wp_bind_I; [t_go|]. intros lbegin ? ?.
      apply wp_bind_I; [t_go|]. intros lend ? ?.
      apply wp_bind_I; [t_go|]. intros ? ? ?.
      apply wp_bind_I; [t_go|]. intros ? ? ?.
      apply wp_bind_I; [|intros; t_go].
      apply (Hrb KLoop "" (Some (lbegin, lend))); [reflexivity | assumption ..].
    Qed.
  End Control.

  Lemma l2_control c :
    (forall i le ll s,
       walk_if chk_kind any_body (is_some ll) i = true ->
       walk_if any_stmt chk_loop_body (is_some ll) i = true ->
       TopI (frames s) -> W (if_condition G fuel RT c i le ll) s) /\
    (forall b s,
       forallb (kd true true) b = true -> forallb (lp true true) b = true ->
       TopI (frames s) -> W (loop_statement G fuel RT c b) s).
  Proof.
    induction c as [|c [IH1 IH2]]; split; intros; cbn [if_condition loop_statement];
      try (apply wp_oof; exact I).
    - apply l2_if_condition_step; assumption.
    - apply l2_loop_step; assumption.
  Qed.

  Lemma l2_fn_stmt returned st s :
    walk_fn_stmt chk_kind any_body chk_kind_fn st = true ->
    walk_fn_stmt any_stmt chk_loop_body (fun _ => true) st = true ->
    TopI (frames s) -> W (fn_stmt G fuel RT returned st) s.
  Proof.
    intros HK HP HI. l2_pose. destruct (l2_control fuel) as [HI2 HL2].
    unfold walk_fn_stmt in HK, HP.
    destruct st; cbn [fn_stmt]; cbn [chk_kind_fn] in HK; split_andb; try discriminate; t_go.
  Qed.

  Lemma l2_fn_stmts : forall ss returned s,
    forallb (walk_fn_stmt chk_kind any_body chk_kind_fn) ss = true ->
    forallb (walk_fn_stmt any_stmt chk_loop_body (fun _ => true)) ss = true ->
    TopI (frames s) -> W (fn_stmts G fuel RT returned ss) s.
  Proof.
    l2_pose. pose proof l2_fn_stmt.
    induction ss as [|st ss IH]; intros returned s HK HP HI; cbn [fn_stmts]; [t_go|].
    cbn [forallb] in HK, HP. split_andb. t_go.
  Qed.
End L2.

Lemma l2_function_body_m G f s :
  kinded_fn f = true -> loops_fn f = true ->
  wp al_kd True (function_body_m G f) s (keepI TopI).
Proof.
  intros HK HP.
  assert (Hal : al_kd PSuffixOverflow) by (split; intro; discriminate).
  assert (HI : TopI (frames s)) by exact I.
  unfold function_body_m. cbv beta zeta.
  apply wp_bind_I; [apply len_init_func_params; inv_side|]. intros ? s1 H1.
  apply wp_bind_I; [apply l2_fn_stmts; assumption|]. intros returned s2 H2. t_go.
Qed.

(** (K) and (P1) for every function of a program *)
Definition placed (p : program) : Prop :=
  forall f, In f (functions_of p) -> kinded_fn f = true /\ loops_fn f = true.

Lemma run_placed p : placed p ->
  match run p with RPanic k => k <> PIllKinded /\ k <> PLoopLabel | _ => True end.
Proof.
  intro Hp.
  apply (run_cases p (fun r => match r with RPanic k => k <> PIllKinded /\ k <> PLoopLabel | _ => True end)).
  - intros; exact I.
  - intros errs f Hin. destruct (Hp f Hin) as [HK HP].
    pose proof (l2_function_body_m (gs_globals (declarations p)) f (BSt [empty_block] errs) HK HP) as H.
    unfold wp, function_body in *. destruct (function_body_m _ f _); [exact I | exact H | exact I].
Qed.

(** LAYER 2 *)
Theorem run_never_illkinded : forall p k, placed p -> run p = RPanic k -> k <> PIllKinded.
Proof. intros p k Hp E. pose proof (run_placed p Hp) as H. rewrite E in H. apply H. Qed.

Theorem run_never_looplabel : forall p k, placed p -> run p = RPanic k -> k <> PLoopLabel.
Proof. intros p k Hp E. pose proof (run_placed p Hp) as H. rewrite E in H. apply H. Qed.

Print Assumptions run_never_illkinded.
Print Assumptions run_never_looplabel.
