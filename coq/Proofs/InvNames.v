(** Family T1: internal value names (C12).

    In the function's complete stack (the root block's) the internal names introduced by
    [FunctionArg] and [LetBinding] instructions are pairwise distinct, every one of them is in the
    root's registry, every value stored in a live block's value table is one of the declared
    value records, and every value record carried by a read or an assignment is one of them. *)
From Coq Require Import Lia.
From SA Require Import Model.
From SA.Proofs Require Import Trace.
From SA.Mon Require Import C12.
Local Open Scope list_scope.

Definition root_of (fs : list block) : block := last fs empty_block.

Lemma decl_values_app a b : decl_values (a ++ b) = decl_values a ++ decl_values b.
Proof. unfold decl_values. apply flat_map_app. Qed.
Lemma reads_app a b : reads (a ++ b) = reads a ++ reads b.
Proof. unfold reads. apply flat_map_app. Qed.
Lemma decl_values_snoc_plain c i : decl_value i = None -> decl_values (c ++ [i]) = decl_values c.
Proof. intro Hp. rewrite decl_values_app. cbn. rewrite Hp. apply app_nil_r. Qed.
Lemma plain_nodecl i : plain i -> decl_value i = None.
Proof. destruct i; cbn; intro H; try contradiction; reflexivity. Qed.

Record Inv_names (s : bst) : Prop := {
  in_nonempty : frames s <> [];
  in_nodup : NoDup (decl_names (b_ctx (root_of (frames s))));
  in_registered : forall n, In n (decl_names (b_ctx (root_of (frames s)))) ->
                            smem n (b_inner (root_of (frames s))) = true;
  in_values : forall f x v, In f (frames s) -> alookup x (b_values f) = Some v ->
                            In v (decl_values (b_ctx (root_of (frames s))));
  in_reads : forall v, In v (reads (b_ctx (root_of (frames s)))) ->
                       In v (decl_values (b_ctx (root_of (frames s)))) }.

Lemma root_of_map f fs : fs <> [] -> root_of (map f fs) = f (root_of fs).
Proof.
  unfold root_of. induction fs as [|a fs IH]; [congruence|]. intros _.
  destruct fs as [|b fs]; [reflexivity|]. cbn [map].
  change (last (f a :: f b :: map f fs) empty_block) with (last (f b :: map f fs) empty_block).
  change (last (a :: b :: fs) empty_block) with (last (b :: fs) empty_block).
  apply IH. discriminate.
Qed.

Lemma root_of_in fs : fs <> [] -> In (root_of fs) fs.
Proof.
  unfold root_of. induction fs as [|a fs IH]; [congruence|]. intros _.
  destruct fs as [|b fs]; [left; reflexivity|]. right. apply IH. discriminate.
Qed.

Lemma root_of_cons a fs : fs <> [] -> root_of (a :: fs) = root_of fs.
Proof. unfold root_of. destruct fs; [congruence | reflexivity]. Qed.

Lemma lookup_frames_in x fs v :
  lookup_frames x fs = Some v -> exists f, In f fs /\ alookup x (b_values f) = Some v.
Proof.
  induction fs as [|b fs IH]; cbn; [discriminate|].
  destruct (alookup x (b_values b)) as [v'|] eqn:E.
  - intro H; inversion H; subst. exists b. split; [left; reflexivity | exact E].
  - intro H. destruct (IH H) as (f & Hf & Hl). exists f. split; [right; exact Hf | exact Hl].
Qed.

Lemma NoDup_app_snoc {A} (l : list A) (a : A) : NoDup l -> ~ In a l -> NoDup (l ++ [a]).
Proof.
  induction l as [|b l IH]; intros Hn Hni; cbn.
  - constructor; [intros [] | constructor].
  - inversion Hn as [|? ? Hb Hl]; subst. constructor.
    + intro Hin. apply in_app_or in Hin as [Hin|[<-|[]]]; [exact (Hb Hin)|]. apply Hni. left. reflexivity.
    + apply IH; [exact Hl|]. intro Hin. apply Hni. right. exact Hin.
Qed.

Lemma lookup_frames_set_reg r x fs :
  lookup_frames x (map (set_reg r) fs) = lookup_frames x fs.
Proof.
  induction fs as [|b fs IH]; cbn; [reflexivity|].
  destruct (alookup x (b_values b)); [reflexivity | exact IH].
Qed.

Lemma smem_sadd n l : smem n (sadd n l) = true.
Proof.
  unfold sadd. destruct (smem n l) eqn:E; [exact E|].
  induction l as [|a l IH]; cbn; [rewrite String.eqb_refl; reflexivity|].
  cbn in E. destruct (String.eqb n a); [discriminate | apply IH, E].
Qed.
Lemma smem_sadd_mono n m l : smem n l = true -> smem n (sadd m l) = true.
Proof.
  unfold sadd. destruct (smem m l); [trivial|]. intro H.
  induction l as [|a l IH]; cbn in *; [discriminate|].
  destruct (String.eqb n a); [reflexivity | apply IH, H].
Qed.
Lemma smem_true_in n l : smem n l = true -> In n l.
Proof.
  induction l as [|a l IH]; cbn; [discriminate|].
  destruct (String.eqb n a) eqn:E; [apply String.eqb_eq in E; left; symmetry; exact E|].
  intro H; right; apply IH, H.
Qed.

Lemma alookup_ainsert {V} x y (v : V) l :
  alookup y (ainsert x v l) = if String.eqb y x then Some v else alookup y l.
Proof.
  induction l as [|[k w] l IH]; cbn.
  - destruct (String.eqb y x); reflexivity.
  - destruct (String.eqb x k) eqn:Exk; cbn.
    + apply String.eqb_eq in Exk; subst k. destruct (String.eqb y x); reflexivity.
    + destruct (String.eqb y k) eqn:Eyk.
      * apply String.eqb_eq in Eyk; subst k.
        rewrite String.eqb_sym in Exk. rewrite Exk. reflexivity.
      * exact IH.
Qed.

(** frames mapped by a function that only appends a plain, non-declaring instruction whose read
    values are in scope *)
Lemma Inv_names_push i s e :
  decl_value i = None -> Forall (in_scope (frames s)) (read_values i) ->
  Inv_names s -> Inv_names (BSt (map (push_ctx i) (frames s)) e).
Proof.
  intros Hp Hr [Hne Hnd Hreg Hval Hrd].
  assert (Hroot : root_of (map (push_ctx i) (frames s)) = push_ctx i (root_of (frames s)))
    by (apply root_of_map; exact Hne).
  constructor; cbn [frames]; rewrite ?Hroot; cbn [push_ctx b_ctx b_inner].
  - destruct (frames s); [congruence | discriminate].
  - unfold decl_names. rewrite decl_values_snoc_plain by exact Hp. exact Hnd.
  - unfold decl_names. rewrite decl_values_snoc_plain by exact Hp. exact Hreg.
  - intros f x v Hf Hl. rewrite decl_values_snoc_plain by exact Hp.
    apply in_map_iff in Hf as (f0 & <- & Hf0). cbn in Hl. eapply Hval; eauto.
  - intros v Hv. rewrite decl_values_snoc_plain by exact Hp. rewrite reads_app in Hv.
    apply in_app_or in Hv as [Hv|Hv]; [apply Hrd, Hv|].
    cbn in Hv. rewrite app_nil_r in Hv. rewrite Forall_forall in Hr.
    destruct (Hr v Hv) as (x & Hx). apply lookup_frames_in in Hx as (f & Hf & Hl).
    eapply Hval; eauto.
Qed.

(** frames mapped by a function that changes neither stacks, value tables nor name registries *)
Lemma Inv_names_neutral g s e :
  (forall b, b_ctx (g b) = b_ctx b) -> (forall b, b_values (g b) = b_values b) ->
  (forall b, b_inner (g b) = b_inner b) ->
  Inv_names s -> Inv_names (BSt (map g (frames s)) e).
Proof.
  intros Hc Hv Hi [Hne Hnd Hreg Hval Hrd].
  assert (Hroot : root_of (map g (frames s)) = g (root_of (frames s))) by (apply root_of_map; exact Hne).
  constructor; cbn [frames]; rewrite ?Hroot, ?Hc, ?Hi; try assumption.
  - destruct (frames s); [congruence | discriminate].
  - intros f x v Hf Hl. apply in_map_iff in Hf as (f0 & <- & Hf0). rewrite Hv in Hl. eapply Hval; eauto.
Qed.

(** a declaration: the value is stored in the head block, its internal name registered
    everywhere, and the declaring instruction pushed; the name was free *)
Lemma Inv_names_declare i x val s :
  decl_value i = Some val -> read_values i = [] ->
  inner_exists (v_inner val) (frames s) = false ->
  Inv_names s -> Inv_names (st_emit i (st_inner (v_inner val) (st_value x val s))).
Proof.
  intros Hdecl Hnoread Hfresh Hinv.
    destruct Hinv as [Hne Hnd Hreg Hval Hrd].
    destruct s as [fs e]. cbn [frames errs] in *.
    destruct fs as [|h r]; [congruence|].
    unfold st_emit, st_inner, st_value. cbn [frames errs].
    set (g := fun b => push_ctx (i) (add_inner (v_inner val) b)).
    assert (Hmap : map (push_ctx (i)) (map (add_inner (v_inner val)) (set_value x val h :: r))
                   = map g (set_value x val h :: r)) by (rewrite map_map; reflexivity).
    rewrite Hmap.
    assert (Hroot : root_of (map g (set_value x val h :: r)) = g (root_of (set_value x val h :: r)))
      by (apply root_of_map; discriminate).
    assert (Hroot_ctx : b_ctx (root_of (set_value x val h :: r)) = b_ctx (root_of (h :: r))).
    { destruct r; [reflexivity|]. rewrite !root_of_cons by discriminate. reflexivity. }
    assert (Hroot_inner : b_inner (root_of (set_value x val h :: r)) = b_inner (root_of (h :: r))).
    { destruct r; [reflexivity|]. rewrite !root_of_cons by discriminate. reflexivity. }
    assert (Hnot : ~ In (v_inner val) (decl_names (b_ctx (root_of (h :: r))))).
    { intro Hin. apply Hreg in Hin.
      unfold inner_exists in Hfresh.
      assert (Hex : existsb (fun b => smem (v_inner val) (b_inner b)) (h :: r) = true).
      { apply existsb_exists. exists (root_of (h :: r)). split; [apply root_of_in; discriminate | exact Hin]. }
      congruence. }
    assert (Hc' : b_ctx (root_of (map g (set_value x val h :: r))) = b_ctx (root_of (h :: r)) ++ [i]).
    { rewrite Hroot. unfold g. cbn [push_ctx add_inner b_ctx]. rewrite Hroot_ctx. reflexivity. }
    assert (Hi' : b_inner (root_of (map g (set_value x val h :: r))) = sadd (v_inner val) (b_inner (root_of (h :: r)))).
    { rewrite Hroot. unfold g. cbn [push_ctx add_inner b_inner]. rewrite Hroot_inner. reflexivity. }
    assert (Hdv : decl_values (b_ctx (root_of (h :: r)) ++ [i]) = decl_values (b_ctx (root_of (h :: r))) ++ [val]).
    { rewrite decl_values_app. cbn. rewrite Hdecl. reflexivity. }
    constructor; cbn [frames]; rewrite ?Hc', ?Hi'; unfold decl_names; rewrite ?Hdv, ?map_app.
    + discriminate.
    + apply NoDup_app_snoc; assumption.
    + intros n Hn. apply in_app_or in Hn as [Hn|Hn].
      * apply smem_sadd_mono, Hreg, Hn.
      * destruct Hn as [<-|[]]. apply smem_sadd.
    + intros f y v Hf Hl. apply in_or_app.
      apply in_map_iff in Hf as (f0 & <- & Hf0).
      assert (Hl' : alookup y (b_values f0) = Some v) by exact Hl.
      destruct Hf0 as [<-|Hf0].
      * cbn [set_value b_values] in Hl'. rewrite alookup_ainsert in Hl'. destruct (String.eqb y x).
        -- inversion Hl'; subst. right. left. reflexivity.
        -- left. eapply Hval; [left; reflexivity | exact Hl'].
      * left. eapply Hval; [right; exact Hf0 | exact Hl'].
    + intros v Hv. apply in_or_app. left. apply Hrd.
      rewrite reads_app in Hv. apply in_app_or in Hv as [Hv|Hv]; [exact Hv|].
      cbn in Hv. rewrite Hnoread in Hv. destruct Hv.
Qed.

Lemma step2_Inv_names s s' : step2 s s' -> Inv_names s -> Inv_names s'.
Proof.
  intros Hstep Hinv.
  destruct Hstep as [mk s Hd Hp Hr | s | i s Hd Hp Hr | er s | x val er s Hfresh | er s | n s | e s
                    | s | c p r e | k i s Hd Hp Hr].
  - (* alloc *)
    unfold st_alloc, st_emit.
    assert (H1 : Inv_names (st_inc s)).
    { unfold st_inc. apply Inv_names_neutral; try reflexivity. exact Hinv. }
    apply Inv_names_push; [apply plain_nodecl, Hp | | exact H1].
    unfold st_inc; cbn [frames]. eapply Forall_impl; [|apply Hr].
    intros v (x & Hx). exists x. rewrite lookup_frames_set_reg. exact Hx.
  - unfold st_inc. apply Inv_names_neutral; try reflexivity. exact Hinv.
  - unfold st_emit. apply Inv_names_push; [apply plain_nodecl, Hp | exact Hr | exact Hinv].
  - (* jump-to-return + flag *)
    unfold st_return. apply Inv_names_neutral; try reflexivity.
    unfold st_emit. apply Inv_names_push; [reflexivity | constructor | exact Hinv].
  - (* let declaration *)
    apply Inv_names_declare; [reflexivity | reflexivity | exact Hfresh | exact Hinv].
  - (* function return *)
    unfold st_emit. apply Inv_names_push; [destruct (head_mret _); reflexivity | | exact Hinv].
    destruct (head_mret _); constructor.
  - unfold st_label. apply Inv_names_neutral; try reflexivity. exact Hinv.
  - destruct Hinv as [Hne Hnd Hreg Hval Hrd]. constructor; assumption.
  - (* push *)
    destruct Hinv as [Hne Hnd Hreg Hval Hrd]. unfold st_push. cbn [frames].
    assert (Hroot : root_of (new_child (frames s) :: frames s) = root_of (frames s))
      by (apply root_of_cons; exact Hne).
    constructor; cbn [frames]; rewrite ?Hroot; try assumption; [discriminate|].
    intros f x v [<-|Hf] Hl.
    + destruct (frames s); cbn in Hl; discriminate.
    + eapply Hval; eauto.
  - (* pop *)
    destruct Hinv as [Hne Hnd Hreg Hval Hrd]. cbn [frames] in *.
    assert (Hc : b_ctx (root_of (add_kid c p :: r)) = b_ctx (root_of (c :: p :: r)) /\
                 b_inner (root_of (add_kid c p :: r)) = b_inner (root_of (c :: p :: r))).
    { rewrite (root_of_cons c) by discriminate.
      destruct r; [split; reflexivity|]. rewrite !root_of_cons by discriminate. split; reflexivity. }
    destruct Hc as [Hc Hi].
    constructor; cbn [frames]; rewrite ?Hc, ?Hi; try assumption; [discriminate|].
    intros f x v [<-|Hf] Hl.
    + eapply (Hval p); [right; left; reflexivity | exact Hl].
    + eapply Hval; [right; right; exact Hf | exact Hl].
  - (* push through a finished child *)
    unfold st_emit.
    assert (H1 : Inv_names (st_kid k i s)).
    { destruct Hinv as [Hne Hnd Hreg Hval Hrd]. unfold st_kid.
      destruct s as [fs e]. cbn [frames errs] in *. destruct fs as [|p r]; [congruence|].
      set (p' := set_kids (update_nth k (push_ctx i) (b_kids p)) p).
      assert (Hc : b_ctx (root_of (p' :: r)) = b_ctx (root_of (p :: r)) /\
                   b_inner (root_of (p' :: r)) = b_inner (root_of (p :: r))).
      { destruct r; [split; reflexivity|]. rewrite !root_of_cons by discriminate. split; reflexivity. }
      destruct Hc as [Hc Hi].
      constructor; cbn [frames]; rewrite ?Hc, ?Hi; try assumption; [discriminate|].
      intros f x v [<-|Hf] Hl.
      - eapply (Hval p); [left; reflexivity | exact Hl].
      - eapply Hval; [right; exact Hf | exact Hl]. }
    apply Inv_names_push; [apply plain_nodecl, Hp | rewrite Hr; constructor | exact H1].
Qed.

Lemma reach2_Inv_names s s' : reach2 s s' -> Inv_names s -> Inv_names s'.
Proof. intros H; induction H; intro Hi; [exact Hi | eapply step2_Inv_names; eauto]. Qed.

(** ** The parameter phase: a single block whose registry holds only parameter names *)
Definition param_phase (s : bst) : Prop :=
  exists b, frames s = [b] /\ (forall n, smem n (b_inner b) = true -> amem n (b_values b) = true).

Lemma amem_ainsert {V} x y (v : V) l : amem y (ainsert x v l) = String.eqb y x || amem y l.
Proof. unfold amem. rewrite alookup_ainsert. destruct (String.eqb y x); reflexivity. Qed.

Lemma smem_sadd_inv n m l : smem n (sadd m l) = true -> n = m \/ smem n l = true.
Proof.
  unfold sadd. destruct (smem m l); [right; assumption|].
  induction l as [|a l IH]; cbn.
  - destruct (String.eqb n m) eqn:E; [apply String.eqb_eq in E; left; exact E | discriminate].
  - destruct (String.eqb n a); [right; reflexivity | exact IH].
Qed.

Lemma init_func_params_names : forall ps s a s',
  Inv_names s -> param_phase s -> init_func_params ps s = Ok a s' -> Inv_names s'.
Proof.
  induction ps as [|[x t] ps IH]; intros s a s' Hinv Hph H; cbn [init_func_params] in H.
  - inversion H; subst. exact Hinv.
  - destruct Hph as (b & Hfs & Hkeys).
    unfold bind, lookup_value, gets in H. rewrite Hfs in H. cbn [lookup_frames] in H.
    destruct (alookup (iname x) (b_values b)) as [v|] eqn:El.
    + apply add_error_eq in H as ->. destruct Hinv as [Hne Hnd Hreg Hval Hrd]. constructor; assumption.
    + set (val := Value (iname x) (sem_of_ty t) false) in *.
      destruct (insert_value (iname x) val s) as [a1 s1| |] eqn:E1; try discriminate.
      apply insert_value_eq in E1 as ->.
      destruct (set_inner_name (iname x) (st_value (iname x) val s)) as [a2 s2| |] eqn:E2; try discriminate.
      apply set_inner_name_eq in E2 as ->.
      destruct (emit (IFnArg val (iname x) (sem_of_ty t)) _) as [a3 s3| |] eqn:E3; try discriminate.
      apply emit_eq in E3 as ->.
      assert (Hfresh : inner_exists (v_inner val) (frames s) = false).
      { rewrite Hfs. cbn. rewrite Bool.orb_false_r. destruct (smem (iname x) (b_inner b)) eqn:Es; [|reflexivity].
        apply Hkeys in Es. unfold amem in Es. rewrite El in Es. discriminate. }
      eapply IH; [| |exact H].
      * apply (Inv_names_declare (IFnArg val (iname x) (sem_of_ty t)) (iname x) val s);
          [reflexivity | reflexivity | exact Hfresh | exact Hinv].
      * unfold st_emit, st_inner, st_value. rewrite Hfs. cbn [frames map].
        eexists. split; [reflexivity|]. cbn [push_ctx add_inner set_value b_inner b_values].
        intros n Hn. rewrite amem_ainsert. apply smem_sadd_inv in Hn as [->|Hn].
        -- cbn [v_inner val]. rewrite String.eqb_refl. reflexivity.
        -- rewrite (Hkeys n Hn). apply Bool.orb_true_r.
Qed.

Lemma Inv_names_init e : Inv_names (BSt [empty_block] e) /\ param_phase (BSt [empty_block] e).
Proof.
  split.
  - constructor; cbn; try discriminate; try constructor; intros; try contradiction; try discriminate.
    destruct H as [<-|[]]. cbn in H0. discriminate.
  - exists empty_block. split; [reflexivity|]. cbn. discriminate.
Qed.

Lemma function_body_Inv_names G errs0 f a s :
  function_body G errs0 f = Ok a s -> Inv_names s.
Proof.
  unfold function_body, function_body_m. intro H. unfold bind in H.
  destruct (init_func_params (fn_params f) _) as [a1 s1| |] eqn:E1; try discriminate.
  destruct (fn_stmts G (fuel_of f) (sem_of_ty (fn_result f)) false (fn_body f) s1) as [ret s2| |] eqn:E2;
    try discriminate.
  destruct (Inv_names_init errs0) as [Hi Hp].
  pose proof (init_func_params_names _ _ _ _ Hi Hp E1) as H1.
  pose proof (reach2_Inv_names _ _ (R2_fn_stmts G _ _ _ _ s1 _ _ E2) H1) as H2.
  destruct (negb ret); [apply add_error_eq in H as ->|inversion H; subst; exact H2].
  destruct H2 as [Hne Hnd Hreg Hval Hrd]. constructor; assumption.
Qed.

Definition C12_root (root : block) : Prop :=
  NoDup (decl_names (b_ctx root)) /\
  (forall v, In v (reads (b_ctx root)) -> In v (decl_values (b_ctx root))).

Lemma bodies_names G : forall fs errs0 roots errs1 roots1,
  Forall C12_root roots ->
  bodies G errs0 roots fs = inr (errs1, roots1) ->
  Forall C12_root roots1.
Proof.
  induction fs as [|f fs IH]; intros errs0 roots errs1 roots1 Hroots H; cbn in H.
  - inversion H; subst. exact Hroots.
  - destruct (function_body G errs0 f) as [a s| |] eqn:E; try discriminate.
    destruct (frames s) as [|root [|]] eqn:Ef; try discriminate.
    eapply IH; [|exact H]. apply Forall_app; split; [exact Hroots|].
    constructor; [|constructor].
    pose proof (function_body_Inv_names _ _ _ _ _ E) as [Hne Hnd Hreg Hval Hrd].
    rewrite Ef in *. unfold root_of in *. cbn [last] in *. split; assumption.
Qed.

Theorem run_names_unique_stable p out :
  run p = ROk out -> Forall C12_root (o_fns out).
Proof.
  unfold run. intro H.
  destruct (bodies (gs_globals (declarations p)) (gs_errs (declarations p)) [] (functions_of p))
    as [r|[errors roots]] eqn:E.
  - exfalso. clear -E H. revert E.
    generalize (gs_errs (declarations p)) ([] : list block).
    induction (functions_of p) as [|f fs IH]; intros e0 r0 E; cbn in E; [discriminate|].
    destruct (function_body _ e0 f) as [a s| |]; try (inversion E; subst; discriminate).
    destruct (frames s) as [|root [|]]; try (inversion E; subst; discriminate).
    eapply IH; exact E.
  - inversion H; subst; clear H. cbn [o_fns]. eapply bodies_names; [|exact E]. constructor.
Qed.
