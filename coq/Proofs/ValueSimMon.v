(** The theorem-backed value-level monitor [Mon/C05w.chk_C05v_sound] never fires on the output
    of the model for an accepted program, whatever the salts and the two fuels.

    (a), (b): [ValueSim.free_interpretation_agrees]; (c): [ValueSimSafe]; (d): a source run that
    returns is matched by the machine for every sufficiently large fuel
    ([ValueSim.value_simulation_returns]), and a machine run that ended otherwise than by its fuel
    is not changed by more fuel ([ValueSim.vflat_run_mono]). *)
From Coq Require Import Lia.
From SA Require Import Model.
From SA.Spec Require Import Stack Exec ValueExec.
From SA.Mon Require Import Control C05w.
From SA.Proofs Require Import ExecBasic FlowBasic FlowSim ValueSimBase ValueSim ValueSimSafe.
Local Open Scope list_scope.

Lemma free_args_length n : length (free_args n) = n.
Proof. unfold free_args. rewrite map_length, seq_length. reflexivity. Qed.

(** (d) for one machine: stuck with some fuel is stuck with every larger fuel *)
Lemma returned_not_stuck {V} (I : interp V) c args nflat e :
  (exists n1, forall n, (n1 <= n)%nat -> vflat_exec V I c args n = (e, VReturned)) ->
  not_stuck_when_returned (snd (vflat_exec V I c args nflat)) VReturned = true.
Proof.
  intros [n1 Hn1]. unfold vflat_exec in *.
  destruct (vflat_run V I c nflat 0 (MState [] [] args)) as [t s] eqn:E. cbn [snd].
  assert (Hs : s = VOutOfFuel \/ s <> VOutOfFuel) by (destruct s; auto; right; discriminate).
  destruct Hs as [->|Hs]; [reflexivity|].
  pose proof (vflat_run_mono V I c _ _ _ _ _ E Hs (Nat.max nflat n1) (Nat.le_max_l _ _)) as E1.
  rewrite (Hn1 (Nat.max nflat n1) (Nat.le_max_r _ _)) in E1. inversion E1; subst. reflexivity.
Qed.

Lemma Forall2_all {A B X} (P : X -> A -> B -> Prop) (x0 : X) : forall la lb,
  (forall x, Forall2 (P x) la lb) -> Forall2 (fun a b => forall x, P x a b) la lb.
Proof.
  induction la as [|a la IH]; intros lb H; pose proof (H x0) as H0; inversion H0; subst; constructor.
  - intro x. specialize (H x). inversion H; assumption.
  - apply IH. intro x. specialize (H x). inversion H; assumption.
Qed.

Lemma Forall2_and {A B} (P Q : A -> B -> Prop) : forall la lb,
  Forall2 P la lb -> Forall2 Q la lb -> Forall2 (fun a b => P a b /\ Q a b) la lb.
Proof.
  induction 1 as [|a b la lb Hp _ IH]; intro HQ; inversion HQ; subst; constructor; auto.
Qed.

Theorem chk_C05v_sound_on_model : forall salts nflat nsrc p out,
  run p = ROk out -> o_errors out = [] -> chk_C05v_sound salts nflat nsrc p out = true.
Proof.
  intros salts nflat nsrc p out H Hacc. unfold chk_C05v_sound. rewrite Hacc.
  apply (proj2 (forallb2_Forall2 _ (fun f root => chk_C05v_sound_fn salts nflat nsrc f root = true) _ _
                  (fun a b => iff_refl _))).
  assert (HIn : Forall (fun root => In root (o_fns out)) (o_fns out))
    by (apply Forall_forall; trivial).
  pose proof (Forall2_all _ 0%N _ _
                (fun salt => value_simulation_returns term (free_interp salt) p out H Hacc)) as HR.
  pose proof (Forall2_all _ 0%N _ _ (fun salt => free_interpretation_agrees salt p out H Hacc)) as HA.
  pose proof (Forall2_Forall_r _ _ _ _ (Forall2_and _ _ _ _ HA HR) HIn) as HF.
  eapply Forall2_impl; [|exact HF]. cbv beta.
  intros f root [[Hag Hret] Hin]. unfold chk_C05v_sound_fn. apply forallb_forall. intros salt _.
  unfold chk_C05v_sound_salt. cbv zeta.
  destruct (Hag salt nflat nsrc) as [Ha Ho]. cbv zeta in Ha, Ho. rewrite Ha, Ho. cbn [andb].
  assert (Hc : machine_ends_inside
                 (snd (vflat_exec term (free_interp salt) (b_ctx root)
                                  (free_args (length (fn_params f))) nflat)) = true).
  { pose proof (vflat_never_bad_label term (free_interp salt) p out H root Hin
                  (free_args (length (fn_params f))) nflat) as H1.
    pose proof (vflat_never_falls_off term (free_interp salt) p out H Hacc root Hin
                  (free_args (length (fn_params f))) nflat) as H2.
    destruct (snd (vflat_exec _ _ _ _ _)); try reflexivity; [congruence | exfalso; eapply H1; reflexivity]. }
  rewrite Hc. cbn [andb].
  destruct (vstruct_exec term (free_interp salt) true f (free_args (length (fn_params f))) nsrc)
    as [e ss] eqn:Es. cbn [snd].
  destruct ss; try reflexivity.
  eapply returned_not_stuck, (Hret salt); [apply free_args_length | exact Es].
Qed.

Print Assumptions chk_C05v_sound_on_model.
