(** Round-trip theorems for the JSON codec of [Spec/Codec.v] (property C20, tree level).

    For every codec type [T]:  [dec_T (enc_T x) = Some x], for ALL values [x] (no size bound; the
    decoders are structurally recursive on the tree, so no fuel appears anywhere).

    What the statements mean and do not mean:
    - the trees are [serde_json::Value]-level objects; the text layer is out of scope;
    - [sem_ty]: the attribute object of a struct type is encoded in the order of the model's list
      and decoded back in that order; the unspecified iteration order of the real [HashMap] is
      abstracted (a comparison with the implementation treats that object as a map);
    - [errors_roundtrip] is stated with the side condition "every text is specified" under which
      the tree is serde's; [errors_roundtrip_all] shows the codec is in fact total;
    - [analysis_after_roundtrip]: [run] of the decoded program IS [run] of the original (errors
      with kinds, identifiers and locations; tables; global and per-function stacks are all
      components of [run_result]).

    Main statements: [program_roundtrip], [stack_roundtrip], [errors_roundtrip],
    [analysis_after_roundtrip].  No axioms. *)
From SA Require Import Model.
From SA.Spec Require Import Json Codec.
Local Open Scope list_scope.

(** ** Lists and scalars *)
Lemma mapM_map {A B} (f : B -> option A) (g : A -> B) (l : list A) :
  Forall (fun x => f (g x) = Some x) l -> mapM f (map g l) = Some l.
Proof.
  induction 1 as [|x l Hx Hl IH]; simpl; [reflexivity|].
  rewrite Hx. simpl. rewrite IH. reflexivity.
Qed.

Lemma mapM_map_all {A B} (f : B -> option A) (g : A -> B) (l : list A) :
  (forall x, f (g x) = Some x) -> mapM f (map g l) = Some l.
Proof. intro H. apply mapM_map. apply Forall_forall. intros; apply H. Qed.

Lemma dec_arr_map {A} (f : json -> option A) (g : A -> json) (l : list A) :
  Forall (fun x => f (g x) = Some x) l -> dec_arr f (JArr (map g l)) = Some l.
Proof. intro H. simpl. apply mapM_map; exact H. Qed.

Lemma N_roundtrip n : dec_N (enc_N n) = Some n.
Proof.
  unfold dec_N, enc_N. destruct (Z.leb_spec 0 (Z.of_N n)) as [_|H].
  - rewrite N2Z.id. reflexivity.
  - pose proof (N2Z.is_nonneg n). exfalso. apply (Z.lt_irrefl 0). eapply Z.le_lt_trans; eauto.
Qed.
Opaque enc_N.

Theorem ident_roundtrip i : dec_ident (enc_ident i) = Some i.
Proof. destruct i as [s l o]. unfold enc_ident, dec_ident. simpl. rewrite !N_roundtrip. reflexivity. Qed.
Opaque enc_ident.

Theorem prim_ty_roundtrip p : dec_prim_ty (enc_prim_ty p) = Some p.
Proof. destruct p; reflexivity. Qed.
Theorem binop_roundtrip p : dec_binop (enc_binop p) = Some p.
Proof. destruct p; reflexivity. Qed.
Theorem cmpop_roundtrip p : dec_cmpop (enc_cmpop p) = Some p.
Proof. destruct p; reflexivity. Qed.
Theorem logicop_roundtrip p : dec_logicop (enc_logicop p) = Some p.
Proof. destruct p; reflexivity. Qed.
Theorem err_kind_roundtrip p : dec_err_kind (enc_err_kind p) = Some p.
Proof. destruct p; reflexivity. Qed.
Opaque enc_prim_ty.
Opaque enc_binop.
Opaque enc_cmpop.
Opaque enc_logicop.
Opaque enc_err_kind.

Theorem prim_val_roundtrip p : dec_prim_val (enc_prim_val p) = Some p.
Proof.
  destruct p as [t b]. unfold enc_prim_val. simpl pv_ty; simpl pv_bits.
  (* the remaining cases (Bool: bits 0 / 1 / other; Ptr, None: bits 0 / other) are handled by one
     script, so that the proof does not depend on the order of the constructors of [prim_ty]
     (which is regenerated from the source) *)
  destruct t; try reflexivity;
    (destruct (Z.eqb_spec b 0) as [->|H0]; [reflexivity|]);
    try (destruct (Z.eqb_spec b 1) as [->|H1]; [reflexivity|];
         unfold dec_prim_val; simpl; apply Z.eqb_neq in H0, H1; rewrite H0, H1; reflexivity);
    unfold dec_prim_val; simpl; apply Z.eqb_neq in H0; rewrite H0; reflexivity.
Qed.
Opaque enc_prim_val.

(** ** Induction principles for the nested types *)
Section AstTyInd.
  Variable P : ast_ty -> Prop.
  Hypothesis HPrim : forall p, P (TPrim p).
  Hypothesis HStruct : forall n attrs, Forall (fun a => P (snd a)) attrs -> P (TStruct n attrs).
  Hypothesis HArray : forall t n, P t -> P (TArray t n).
  Fixpoint ast_ty_ind' (t : ast_ty) : P t :=
    match t with
    | TPrim p => HPrim p
    | TStruct n attrs =>
        HStruct n attrs
          ((fix go (l : list (ident * ast_ty)) : Forall (fun a => P (snd a)) l :=
              match l with
              | [] => Forall_nil _
              | a :: l' =>
                  Forall_cons (P := fun a => P (snd a)) a
                    (match a as a0 return P (snd a0) with (x, t') => ast_ty_ind' t' end) (go l')
              end) attrs)
    | TArray t' n => HArray t' n (ast_ty_ind' t')
    end.
End AstTyInd.

Section SemTyInd.
  Variable P : sem_ty -> Prop.
  Hypothesis HPrim : forall p, P (SPrim p).
  Hypothesis HStruct : forall n attrs, Forall (fun a => P (snd a)) attrs -> P (SStruct n attrs).
  Hypothesis HArray : forall t n, P t -> P (SArray t n).
  Fixpoint sem_ty_ind' (t : sem_ty) : P t :=
    match t with
    | SPrim p => HPrim p
    | SStruct n attrs =>
        HStruct n attrs
          ((fix go (l : list (string * N * sem_ty)) : Forall (fun a => P (snd a)) l :=
              match l with
              | [] => Forall_nil _
              | a :: l' =>
                  Forall_cons (P := fun a => P (snd a)) a
                    (match a as a0 return P (snd a0) with (xi, t') => sem_ty_ind' t' end) (go l')
              end) attrs)
    | SArray t' n => HArray t' n (sem_ty_ind' t')
    end.
End SemTyInd.

Lemma struct_body_roundtrip (dt : json -> option ast_ty) n attrs :
  Forall (fun a => dt (enc_ast_ty (snd a)) = Some (snd a)) attrs ->
  dec_struct_body dt (enc_struct_decl n attrs) = Some (n, attrs).
Proof.
  intro H. unfold dec_struct_body, enc_struct_decl. simpl.
  rewrite ident_roundtrip. simpl.
  rewrite mapM_map; [reflexivity|].
  eapply Forall_impl; [|exact H]. intros [x t] Hx. simpl in *.
  unfold enc_attr. simpl. rewrite ident_roundtrip. simpl. rewrite Hx. reflexivity.
Qed.

Lemma enc_ast_ty_struct n attrs :
  enc_ast_ty (TStruct n attrs) = tagc "Struct" (enc_struct_decl n attrs).
Proof. reflexivity. Qed.
Opaque enc_struct_decl.

Theorem ast_ty_roundtrip : forall t, dec_ast_ty (enc_ast_ty t) = Some t.
Proof.
  induction t using ast_ty_ind'.
  - simpl. rewrite prim_ty_roundtrip. reflexivity.
  - rewrite enc_ast_ty_struct. simpl. rewrite struct_body_roundtrip by exact H. reflexivity.
  - simpl. rewrite IHt. simpl. rewrite N_roundtrip. reflexivity.
Qed.

Theorem struct_decl_roundtrip n attrs :
  dec_struct_body dec_ast_ty (enc_struct_decl n attrs) = Some (n, attrs).
Proof.
  apply struct_body_roundtrip. apply Forall_forall. intros; apply ast_ty_roundtrip.
Qed.

Theorem sem_ty_roundtrip : forall t, dec_sem_ty (enc_sem_ty t) = Some t.
Proof.
  induction t using sem_ty_ind'.
  - simpl. rewrite prim_ty_roundtrip. reflexivity.
  - simpl.
    match goal with |- (let? attrs := mapM ?f (map ?g attrs) in _) = _ =>
      replace (mapM f (map g attrs)) with (Some attrs) end; [reflexivity|].
    symmetry. apply mapM_map.
    eapply Forall_impl; [|exact H]. intros [[x i] t] Hx. simpl in *.
    unfold enc_sattr. simpl. rewrite String.eqb_refl, N_roundtrip. simpl. rewrite Hx. reflexivity.
  - simpl. rewrite IHt. simpl. rewrite N_roundtrip. reflexivity.
Qed.

(** ** Operator chains *)
Lemma chain_raw_roundtrip vk hv l :
  dec_chain_raw vk (enc_chain vk hv l) = Some (hv, l).
Proof.
  revert hv. induction l as [|[op v] l IH]; intros hv; simpl.
  - unfold keq. rewrite String.eqb_refl. reflexivity.
  - unfold keq. rewrite String.eqb_refl. simpl. rewrite binop_roundtrip. simpl.
    rewrite IH. reflexivity.
Qed.

Lemma chain_roundtrip {A} vk (f : json -> option A) (g : A -> json) h l :
  (forall x, f (g x) = Some x) ->
  dec_chain vk f (enc_chain vk (g h) (map (fun p => (fst p, g (snd p))) l)) = Some (h, l).
Proof.
  intro H. unfold dec_chain. rewrite chain_raw_roundtrip. simpl. rewrite H. simpl.
  rewrite mapM_map; [reflexivity|].
  apply Forall_forall. intros [op v] _. simpl. rewrite H. reflexivity.
Qed.


Theorem cval_roundtrip c : dec_cval (enc_cval c) = Some c.
Proof.
  destruct c; simpl; [rewrite ident_roundtrip|rewrite prim_val_roundtrip]; reflexivity.
Qed.

Theorem cexpr_roundtrip e : dec_cexpr (enc_cexpr e) = Some e.
Proof.
  destruct e as [h l]. unfold dec_cexpr, enc_cexpr. simpl.
  rewrite (chain_roundtrip "value" dec_cval enc_cval h l cval_roundtrip). reflexivity.
Qed.
Opaque enc_cval enc_cexpr.

(** ** Induction principles for expressions and statements *)
Section ExprInd.
  Variable P : expr -> Prop.
  Variable Q : expr_val -> Prop.
  Hypothesis HExpr : forall v rest, Q v -> Forall (fun p => Q (snd p)) rest -> P (Expr v rest).
  Hypothesis HName : forall x, Q (EVName x).
  Hypothesis HPrim : forall p, Q (EVPrim p).
  Hypothesis HCall : forall f args, Forall P args -> Q (EVCall f args).
  Hypothesis HField : forall x a, Q (EVField x a).
  Hypothesis HSub : forall e, P e -> Q (EVSub e).
  Hypothesis HExt : forall t tag, Q (EVExt t tag).
  Fixpoint expr_ind' (e : expr) : P e :=
    match e with
    | Expr v rest =>
        HExpr v rest (val_ind' v)
          ((fix go (l : list (binop * expr_val)) : Forall (fun p => Q (snd p)) l :=
              match l with
              | [] => Forall_nil _
              | p :: l' =>
                  Forall_cons (P := fun p => Q (snd p)) p
                    (match p as p0 return Q (snd p0) with (op, v') => val_ind' v' end) (go l')
              end) rest)
    end
  with val_ind' (v : expr_val) : Q v :=
    match v with
    | EVName x => HName x
    | EVPrim p => HPrim p
    | EVCall f args =>
        HCall f args
          ((fix go (l : list expr) : Forall P l :=
              match l with
              | [] => Forall_nil _
              | e :: l' => Forall_cons e (expr_ind' e) (go l')
              end) args)
    | EVField x a => HField x a
    | EVSub e => HSub e (expr_ind' e)
    | EVExt t tag => HExt t tag
    end.
  Definition expr_val_ind' : (forall e, P e) /\ (forall v, Q v) := conj expr_ind' val_ind'.
End ExprInd.

Section LcondInd.
  Variable P : lcond -> Prop.
  Definition next_holds (next : option (logicop * lcond)) : Prop :=
    match next with Some p => P (snd p) | None => True end.
  Hypothesis HLC : forall l c r next, next_holds next -> P (LC l c r next).
  Fixpoint lcond_ind' (c : lcond) : P c :=
    match c with
    | LC l op r next =>
        HLC l op r next
          (match next as n return next_holds n with
           | Some p => match p as p0 return P (snd p0) with (lop, c') => lcond_ind' c' end
           | None => I
           end)
    end.
End LcondInd.

Definition opt_holds {A} (P : A -> Prop) (o : option A) : Prop :=
  match o with Some a => P a | None => True end.

Section StmtInd.
  Variable P : stmt -> Prop.
  Variable Q : ifstmt -> Prop.
  Variable R : ifbody -> Prop.
  Hypothesis HLet : forall x m ty e, P (SLet x m ty e).
  Hypothesis HBind : forall x e, P (SBind x e).
  Hypothesis HCall : forall f args, P (SCall f args).
  Hypothesis HIf : forall i, Q i -> P (SIf i).
  Hypothesis HLoop : forall body, Forall P body -> P (SLoop body).
  Hypothesis HRet : forall e, P (SRet e).
  Hypothesis HExprStmt : forall e, P (SExprStmt e).
  Hypothesis HBreak : P SBreak.
  Hypothesis HContinue : P SContinue.
  Hypothesis HIfS : forall c body els elif,
      R body ->
      opt_holds R els -> opt_holds Q elif ->
      Q (IfS c body els elif).
  Hypothesis HIBIf : forall ss, Forall P ss -> R (IBIf ss).
  Hypothesis HIBLoop : forall ss, Forall P ss -> R (IBLoop ss).
  Fixpoint stmt_ind' (s : stmt) : P s :=
    match s with
    | SLet x m ty e => HLet x m ty e
    | SBind x e => HBind x e
    | SCall f args => HCall f args
    | SIf i => HIf i (if_ind' i)
    | SLoop body =>
        HLoop body
          ((fix go (l : list stmt) : Forall P l :=
              match l with
              | [] => Forall_nil _
              | s' :: l' => Forall_cons s' (stmt_ind' s') (go l')
              end) body)
    | SRet e => HRet e
    | SExprStmt e => HExprStmt e
    | SBreak => HBreak
    | SContinue => HContinue
    end
  with if_ind' (i : ifstmt) : Q i :=
    match i with
    | IfS c body els elif =>
        HIfS c body els elif (ifbody_ind' body)
          (match els as o return opt_holds R o with
           | Some b => ifbody_ind' b
           | None => I
           end)
          (match elif as o return opt_holds Q o with
           | Some i' => if_ind' i'
           | None => I
           end)
    end
  with ifbody_ind' (b : ifbody) : R b :=
    match b with
    | IBIf ss =>
        HIBIf ss
          ((fix go (l : list stmt) : Forall P l :=
              match l with
              | [] => Forall_nil _
              | s' :: l' => Forall_cons s' (stmt_ind' s') (go l')
              end) ss)
    | IBLoop ss =>
        HIBLoop ss
          ((fix go (l : list stmt) : Forall P l :=
              match l with
              | [] => Forall_nil _
              | s' :: l' => Forall_cons s' (stmt_ind' s') (go l')
              end) ss)
    end.
  Definition stmt_all_ind' : (forall s, P s) /\ (forall i, Q i) /\ (forall b, R b) :=
    conj stmt_ind' (conj if_ind' ifbody_ind').
End StmtInd.

(** ** The AST from expressions up, for any leaf-type codec that round-trips *)
Section WithExtRT.
  Variable ext_enc : ast_ty -> json.
  Variable ext_dec : json -> option ast_ty.
  Hypothesis ext_roundtrip : forall t, ext_dec (ext_enc t) = Some t.

  Local Notation EE := (genc_expr ext_enc).
  Local Notation EV := (genc_val ext_enc).
  Local Notation DE := (gdec_expr ext_dec).
  Local Notation DV := (gdec_val ext_dec).

  (** Unfolding equations ([simpl] does not refold the members of a mutual block that has
      section parameters, so the proofs rewrite with these instead). *)
  Lemma EE_Expr v rest :
    EE (Expr v rest) =
    enc_chain "expression_value" (EV v) (map (fun p => let '(op, v') := p in (op, EV v')) rest).
  Proof. reflexivity. Qed.
  Lemma EV_Name x : EV (EVName x) = tagc "ValueName" (enc_ident x).
  Proof. reflexivity. Qed.
  Lemma EV_Prim p : EV (EVPrim p) = tagc "PrimitiveValue" (enc_prim_val p).
  Proof. reflexivity. Qed.
  Lemma EV_Call f args :
    EV (EVCall f args) =
    tagc "FunctionCall" (JObj [("name", enc_ident f); ("parameters", JArr (map EE args))]).
  Proof. reflexivity. Qed.
  Lemma EV_Field x a :
    EV (EVField x a) =
    tagc "StructValue" (JObj [("name", enc_ident x); ("attribute", enc_ident a)]).
  Proof. reflexivity. Qed.
  Lemma EV_Sub e : EV (EVSub e) = tagc "Expression" (EE e).
  Proof. reflexivity. Qed.
  Lemma EV_Ext t tag :
    EV (EVExt t tag) = tagc "ExtendedExpression" (JObj [("ty", ext_enc t); ("tag", enc_N tag)]).
  Proof. reflexivity. Qed.

  Lemma DE_nil jv :
    DE (JObj [("expression_value", jv); ("operation", JNull)]) =
    let? v := DV jv in Some (Expr v []).
  Proof. reflexivity. Qed.
  Lemma DE_cons jv jop je :
    DE (JObj [("expression_value", jv); ("operation", JArr [jop; je])]) =
    let? v := DV jv in
    let? op := dec_binop jop in
    let? e := DE je in
    match e with Expr v' rest => Some (Expr v ((op, v') :: rest)) end.
  Proof. reflexivity. Qed.
  Lemma DV_Name c : DV (tagc "ValueName" c) = option_map EVName (dec_ident c).
  Proof. reflexivity. Qed.
  Lemma DV_Prim c : DV (tagc "PrimitiveValue" c) = option_map EVPrim (dec_prim_val c).
  Proof. reflexivity. Qed.
  Lemma DV_Call jf ja :
    DV (tagc "FunctionCall" (JObj [("name", jf); ("parameters", ja)])) =
    let? f := dec_ident jf in let? args := dec_arr DE ja in Some (EVCall f args).
  Proof. reflexivity. Qed.
  Lemma DV_Field jx ja :
    DV (tagc "StructValue" (JObj [("name", jx); ("attribute", ja)])) =
    let? x := dec_ident jx in let? a := dec_ident ja in Some (EVField x a).
  Proof. reflexivity. Qed.
  Lemma DV_Sub c : DV (tagc "Expression" c) = option_map EVSub (DE c).
  Proof. reflexivity. Qed.
  Lemma DV_Ext jt jg :
    DV (tagc "ExtendedExpression" (JObj [("ty", jt); ("tag", jg)])) =
    let? t := ext_dec jt in let? g := dec_N jg in Some (EVExt t g).
  Proof. reflexivity. Qed.

  Lemma gexpr_val_roundtrip :
    (forall e, DE (EE e) = Some e) /\ (forall v, DV (EV v) = Some v).
  Proof.
    apply (expr_val_ind' (fun e => DE (EE e) = Some e) (fun v => DV (EV v) = Some v)).
    - (* Expr *)
      intros v rest Hv Hrest. rewrite EE_Expr. revert v Hv.
      induction Hrest as [|[op v'] rest Hv' Hrest IH]; intros v Hv.
      + simpl. rewrite DE_nil, Hv. reflexivity.
      + simpl in *. rewrite DE_cons, Hv. simpl. rewrite binop_roundtrip. simpl.
        rewrite (IH v' Hv'). reflexivity.
    - intros x. rewrite EV_Name, DV_Name, ident_roundtrip. reflexivity.
    - intros p. rewrite EV_Prim, DV_Prim, prim_val_roundtrip. reflexivity.
    - intros f args H. rewrite EV_Call, DV_Call, ident_roundtrip. simpl.
      rewrite mapM_map by exact H. reflexivity.
    - intros x a. rewrite EV_Field, DV_Field, !ident_roundtrip. reflexivity.
    - intros e IHe. rewrite EV_Sub, DV_Sub, IHe. reflexivity.
    - intros t tag. rewrite EV_Ext, DV_Ext, ext_roundtrip. simpl.
      rewrite N_roundtrip. reflexivity.
  Qed.

  Theorem gexpr_roundtrip e : DE (EE e) = Some e.
  Proof. apply gexpr_val_roundtrip. Qed.
  Theorem gexpr_val_roundtrip' v : DV (EV v) = Some v.
  Proof. apply gexpr_val_roundtrip. Qed.

  Lemma gexprs_roundtrip l : mapM DE (map EE l) = Some l.
  Proof. apply mapM_map_all. exact gexpr_roundtrip. Qed.

  (** conditions *)
  Local Notation EL := (genc_lcond ext_enc).
  Local Notation DL := (gdec_lcond ext_dec).

  Theorem glcond_roundtrip : forall c, DL (EL c) = Some c.
  Proof.
    induction c using lcond_ind'. destruct next as [[lop c']|]; simpl in *.
    - rewrite !gexpr_roundtrip. simpl. rewrite cmpop_roundtrip. simpl.
      rewrite logicop_roundtrip. simpl. rewrite H. reflexivity.
    - rewrite !gexpr_roundtrip. simpl. rewrite cmpop_roundtrip. reflexivity.
  Qed.

  Theorem gcond_roundtrip c : gdec_cond ext_dec (genc_cond ext_enc c) = Some c.
  Proof.
    destruct c; simpl; [rewrite gexpr_roundtrip|rewrite glcond_roundtrip]; reflexivity.
  Qed.

  (** statements *)
  Local Notation ES := (genc_stmt ext_enc).
  Local Notation EI := (genc_if ext_enc).
  Local Notation EB := (genc_ifbody ext_enc).
  Local Notation DS := (gdec_stmt ext_dec).
  Local Notation DI := (gdec_if ext_dec).
  Local Notation DB := (gdec_ifbody ext_dec).

  Lemma ES_Let x m ty e :
    ES (SLet x m ty e) =
    tagc "LetBinding"
      (JObj [("type", JStr "LetBinding"); ("name", enc_ident x); ("mutable", JBool m);
             ("value_type", enc_opt enc_ast_ty ty); ("value", EE e)]).
  Proof. reflexivity. Qed.
  Lemma ES_Bind x e :
    ES (SBind x e) = tagc "Binding" (JObj [("name", enc_ident x); ("value", EE e)]).
  Proof. reflexivity. Qed.
  Lemma ES_Call f args :
    ES (SCall f args) =
    tagc "FunctionCall" (JObj [("name", enc_ident f); ("parameters", JArr (map EE args))]).
  Proof. reflexivity. Qed.
  Lemma ES_If i : ES (SIf i) = tagc "If" (EI i).
  Proof. reflexivity. Qed.
  Lemma ES_Loop body : ES (SLoop body) = tagc "Loop" (JArr (map ES body)).
  Proof. reflexivity. Qed.
  Lemma ES_Ret e : ES (SRet e) = tagc "Return" (EE e).
  Proof. reflexivity. Qed.
  Lemma ES_ExprStmt e : ES (SExprStmt e) = tagc "Expression" (EE e).
  Proof. reflexivity. Qed.
  Lemma ES_Break : ES SBreak = tag0 "Break".
  Proof. reflexivity. Qed.
  Lemma ES_Continue : ES SContinue = tag0 "Continue".
  Proof. reflexivity. Qed.
  Lemma EI_IfS c body els elif :
    EI (IfS c body els elif) =
    JObj [("condition", genc_cond ext_enc c);
          ("body", EB body);
          ("else_statement", enc_opt EB els);
          ("else_if_statement", enc_opt EI elif)].
  Proof. destruct els, elif; reflexivity. Qed.
  Lemma EB_If ss : EB (IBIf ss) = tagc "If" (JArr (map ES ss)).
  Proof. reflexivity. Qed.
  Lemma EB_Loop ss : EB (IBLoop ss) = tagc "Loop" (JArr (map ES ss)).
  Proof. reflexivity. Qed.

  Lemma DS_Let jx jm jty je :
    DS (tagc "LetBinding"
          (JObj [("type", JStr "LetBinding"); ("name", jx); ("mutable", jm);
                 ("value_type", jty); ("value", je)])) =
    let? x := dec_ident jx in
    let? m := dec_bool jm in
    let? ty := dec_opt dec_ast_ty jty in
    let? e := DE je in
    Some (SLet x m ty e).
  Proof. reflexivity. Qed.
  Lemma DS_Bind jx je :
    DS (tagc "Binding" (JObj [("name", jx); ("value", je)])) =
    let? x := dec_ident jx in let? e := DE je in Some (SBind x e).
  Proof. reflexivity. Qed.
  Lemma DS_Call jf ja :
    DS (tagc "FunctionCall" (JObj [("name", jf); ("parameters", ja)])) =
    let? f := dec_ident jf in let? args := dec_arr DE ja in Some (SCall f args).
  Proof. reflexivity. Qed.
  Lemma DS_If c : DS (tagc "If" c) = option_map SIf (DI c).
  Proof. reflexivity. Qed.
  Lemma DS_Loop c : DS (tagc "Loop" c) = option_map SLoop (dec_arr DS c).
  Proof. reflexivity. Qed.
  Lemma DS_Ret c : DS (tagc "Return" c) = option_map SRet (DE c).
  Proof. reflexivity. Qed.
  Lemma DS_ExprStmt c : DS (tagc "Expression" c) = option_map SExprStmt (DE c).
  Proof. reflexivity. Qed.
  Lemma DS_Break : DS (tag0 "Break") = Some SBreak.
  Proof. reflexivity. Qed.
  Lemma DS_Continue : DS (tag0 "Continue") = Some SContinue.
  Proof. reflexivity. Qed.
  Lemma DI_obj jc jb je ji :
    DI (JObj [("condition", jc); ("body", jb); ("else_statement", je);
              ("else_if_statement", ji)]) =
    let? c := gdec_cond ext_dec jc in
    let? b := DB jb in
    let? els := dec_opt DB je in
    let? elif := dec_opt DI ji in
    Some (IfS c b els elif).
  Proof. reflexivity. Qed.
  Lemma DB_If c : DB (tagc "If" c) = option_map IBIf (dec_arr DS c).
  Proof. reflexivity. Qed.
  Lemma DB_Loop c : DB (tagc "Loop" c) = option_map IBLoop (dec_arr DS c).
  Proof. reflexivity. Qed.

  Lemma dec_opt_roundtrip {A} (f : json -> option A) (g : A -> json) (o : option A) :
    (forall a, g a <> JNull) ->
    opt_holds (fun a => f (g a) = Some a) o ->
    dec_opt f (enc_opt g o) = Some o.
  Proof.
    intros Hn H. destruct o as [a|]; simpl in *; [|reflexivity].
    specialize (Hn a). unfold dec_opt. destruct (g a); try congruence; rewrite H; reflexivity.
  Qed.

  Lemma enc_ast_ty_not_null t : enc_ast_ty t <> JNull.
  Proof. destruct t; discriminate. Qed.
  Lemma EB_not_null b : EB b <> JNull.
  Proof. destruct b; discriminate. Qed.
  Lemma EI_not_null i : EI i <> JNull.
  Proof. destruct i as [c b els elif]. rewrite EI_IfS. discriminate. Qed.

  Lemma gstmt_all_roundtrip :
    (forall s, DS (ES s) = Some s) /\ (forall i, DI (EI i) = Some i) /\
    (forall b, DB (EB b) = Some b).
  Proof.
    apply (stmt_all_ind' (fun s => DS (ES s) = Some s) (fun i => DI (EI i) = Some i)
                         (fun b => DB (EB b) = Some b)).
    - intros x m ty e. rewrite ES_Let, DS_Let, ident_roundtrip. simpl.
      rewrite (dec_opt_roundtrip dec_ast_ty enc_ast_ty ty enc_ast_ty_not_null).
      + simpl. rewrite gexpr_roundtrip. reflexivity.
      + destruct ty; simpl; [apply ast_ty_roundtrip|exact I].
    - intros x e. rewrite ES_Bind, DS_Bind, ident_roundtrip. simpl.
      rewrite gexpr_roundtrip. reflexivity.
    - intros f args. rewrite ES_Call, DS_Call, ident_roundtrip. simpl.
      rewrite gexprs_roundtrip. reflexivity.
    - intros i Hi. rewrite ES_If, DS_If, Hi. reflexivity.
    - intros body Hb. rewrite ES_Loop, DS_Loop. simpl. rewrite mapM_map by exact Hb. reflexivity.
    - intros e. rewrite ES_Ret, DS_Ret, gexpr_roundtrip. reflexivity.
    - intros e. rewrite ES_ExprStmt, DS_ExprStmt, gexpr_roundtrip. reflexivity.
    - rewrite ES_Break. apply DS_Break.
    - rewrite ES_Continue. apply DS_Continue.
    - intros c body els elif Hb He Hi. rewrite EI_IfS, DI_obj, gcond_roundtrip. simpl.
      rewrite Hb. simpl.
      rewrite (dec_opt_roundtrip DB EB els EB_not_null He). simpl.
      rewrite (dec_opt_roundtrip DI EI elif EI_not_null Hi). reflexivity.
    - intros ss H. rewrite EB_If, DB_If. simpl. rewrite mapM_map by exact H. reflexivity.
    - intros ss H. rewrite EB_Loop, DB_Loop. simpl. rewrite mapM_map by exact H. reflexivity.
  Qed.

  Theorem gstmt_roundtrip s : DS (ES s) = Some s.
  Proof. apply gstmt_all_roundtrip. Qed.
  Theorem gifstmt_roundtrip i : DI (EI i) = Some i.
  Proof. apply gstmt_all_roundtrip. Qed.
  Theorem gifbody_roundtrip b : DB (EB b) = Some b.
  Proof. apply gstmt_all_roundtrip. Qed.

  Lemma gstmts_roundtrip l : mapM DS (map ES l) = Some l.
  Proof. apply mapM_map_all. exact gstmt_roundtrip. Qed.

  (** functions, top-level statements, programs *)
  Theorem param_roundtrip p : dec_param (enc_param p) = Some p.
  Proof.
    destruct p as [x t]. unfold dec_param, enc_param. simpl.
    rewrite ident_roundtrip. simpl. rewrite ast_ty_roundtrip. reflexivity.
  Qed.

  Theorem gfn_roundtrip f : gdec_fn ext_dec (genc_fn ext_enc f) = Some f.
  Proof.
    destruct f as [n ps r b]. unfold gdec_fn, genc_fn. simpl.
    rewrite ident_roundtrip. simpl.
    rewrite (mapM_map_all dec_param enc_param ps param_roundtrip). simpl.
    rewrite ast_ty_roundtrip. simpl. rewrite gstmts_roundtrip. reflexivity.
  Qed.

  Opaque genc_fn.

  Theorem gtop_roundtrip t : gdec_top ext_dec (genc_top ext_enc t) = Some t.
  Proof.
    destruct t as [path|n attrs|n ty v|f]; unfold gdec_top, genc_top; simpl.
    - rewrite (mapM_map_all dec_ident enc_ident path ident_roundtrip). reflexivity.
    - rewrite struct_decl_roundtrip. reflexivity.
    - rewrite ident_roundtrip. simpl. rewrite ast_ty_roundtrip. simpl.
      rewrite cexpr_roundtrip. reflexivity.
    - rewrite gfn_roundtrip. reflexivity.
  Qed.

  Theorem gprogram_roundtrip p : gdec_program ext_dec (genc_program ext_enc p) = Some p.
  Proof.
    unfold gdec_program, genc_program. simpl. apply mapM_map_all. exact gtop_roundtrip.
  Qed.
End WithExtRT.

(** ** The codec of C20 (the leaf carries the AST type) *)
Theorem expr_roundtrip e : dec_expr (enc_expr e) = Some e.
Proof. exact (gexpr_roundtrip _ _ ast_ty_roundtrip e). Qed.
Theorem expr_val_roundtrip v : dec_expr_val (enc_expr_val v) = Some v.
Proof. exact (gexpr_val_roundtrip' _ _ ast_ty_roundtrip v). Qed.
Theorem lcond_roundtrip c : dec_lcond (enc_lcond c) = Some c.
Proof. exact (glcond_roundtrip _ _ ast_ty_roundtrip c). Qed.
Theorem cond_roundtrip c : dec_cond (enc_cond c) = Some c.
Proof. exact (gcond_roundtrip _ _ ast_ty_roundtrip c). Qed.
Theorem stmt_roundtrip s : dec_stmt (enc_stmt s) = Some s.
Proof. exact (gstmt_roundtrip _ _ ast_ty_roundtrip s). Qed.
Theorem ifstmt_roundtrip i : dec_ifstmt (enc_ifstmt i) = Some i.
Proof. exact (gifstmt_roundtrip _ _ ast_ty_roundtrip i). Qed.
Theorem ifbody_roundtrip b : dec_ifbody (enc_ifbody b) = Some b.
Proof. exact (gifbody_roundtrip _ _ ast_ty_roundtrip b). Qed.
Theorem fn_decl_roundtrip f : dec_fn_decl (enc_fn_decl f) = Some f.
Proof. exact (gfn_roundtrip _ _ ast_ty_roundtrip f). Qed.
Theorem top_roundtrip t : dec_top (enc_top t) = Some t.
Proof. exact (gtop_roundtrip _ _ ast_ty_roundtrip t). Qed.

Theorem program_roundtrip : forall p, dec_program (enc_program p) = Some p.
Proof. exact (gprogram_roundtrip _ _ ast_ty_roundtrip). Qed.

(** "Analysing the deserialised AST gives the same result": errors (kinds, identifiers,
    locations), tables and stacks are all components of [run p]. *)
Corollary analysis_after_roundtrip :
  forall p, option_map run (dec_program (enc_program p)) = Some (run p).
Proof. intro p. rewrite program_roundtrip. reflexivity. Qed.

(** Re-serialising the decoded AST gives the same tree. *)
Corollary program_reserialise :
  forall p, option_map enc_program (dec_program (enc_program p)) = Some (enc_program p).
Proof. intro p. rewrite program_roundtrip. reflexivity. Qed.

(** *** The wire form of the extension leaf (decision D6 of [Spec/Codec.v]) *)
Fixpoint flat_ty (t : ast_ty) : bool :=
  match t with
  | TPrim _ => true
  | TStruct _ _ => false
  | TArray t' _ => flat_ty t'
  end.

Lemma wire_ext_ty_flat t : flat_ty t = true -> wire_ext_ty t = enc_ast_ty t.
Proof.
  unfold wire_ext_ty. induction t using ast_ty_ind'; simpl; intro F.
  - reflexivity.
  - discriminate.
  - rewrite (IHt F). reflexivity.
Qed.

(** Whatever the leaf type, the wire form determines the semantic type, which is all the
    analyzer reads from the leaf ([Model.expr_value], case [EVExt]). *)
Lemma wire_ext_ty_sem t : dec_sem_ty (wire_ext_ty t) = Some (sem_of_ty t).
Proof. apply sem_ty_roundtrip. Qed.

(** ** The output side *)
Theorem value_roundtrip v : dec_value (enc_value v) = Some v.
Proof.
  destruct v as [n t m]. unfold dec_value, enc_value. simpl.
  rewrite sem_ty_roundtrip. reflexivity.
Qed.
Opaque enc_value.

Theorem eres_val_roundtrip r : dec_eres_val (enc_eres_val r) = Some r.
Proof.
  destruct r; simpl; [rewrite N_roundtrip|rewrite prim_val_roundtrip]; reflexivity.
Qed.
Opaque enc_eres_val.

Theorem eres_roundtrip e : dec_eres (enc_eres e) = Some e.
Proof.
  destruct e as [t v]. unfold dec_eres, enc_eres. simpl.
  rewrite sem_ty_roundtrip. simpl. rewrite eres_val_roundtrip. reflexivity.
Qed.
Opaque enc_eres.

Theorem cval_sem_roundtrip c : dec_cval_sem (enc_cval_sem c) = Some c.
Proof. destruct c; simpl; [|rewrite prim_val_roundtrip]; reflexivity. Qed.
Opaque enc_cval_sem.

Theorem const_sem_roundtrip c : dec_const_sem (enc_const_sem c) = Some c.
Proof.
  destruct c as [n t h l]. unfold dec_const_sem, enc_const_sem. simpl.
  rewrite sem_ty_roundtrip. simpl.
  rewrite (chain_roundtrip "value" dec_cval_sem enc_cval_sem h l cval_sem_roundtrip).
  reflexivity.
Qed.
Opaque enc_const_sem.

Theorem func_sem_roundtrip f : dec_func_sem (enc_func_sem f) = Some f.
Proof.
  destruct f as [n t ps]. unfold dec_func_sem, enc_func_sem. simpl.
  rewrite sem_ty_roundtrip. simpl.
  rewrite (mapM_map_all dec_sem_ty enc_sem_ty ps sem_ty_roundtrip). reflexivity.
Qed.
Opaque enc_func_sem.

Ltac rt_step :=
  first [ rewrite N_roundtrip | rewrite value_roundtrip | rewrite eres_roundtrip
        | rewrite const_sem_roundtrip | rewrite func_sem_roundtrip | rewrite binop_roundtrip
        | rewrite cmpop_roundtrip | rewrite logicop_roundtrip | rewrite sem_ty_roundtrip ];
  simpl.

Theorem instr_roundtrip i : dec_instr (enc_instr i) = Some i.
Proof.
  destruct i; unfold dec_instr, enc_instr; simpl; repeat rt_step; try reflexivity.
  (* Call *)
  rewrite (mapM_map_all dec_eres enc_eres args eres_roundtrip). simpl.
  repeat rt_step. reflexivity.
Qed.
Opaque enc_instr.

Theorem stack_roundtrip : forall c : list instr, dec_stack (enc_stack c) = Some c.
Proof.
  intro c. unfold dec_stack, enc_stack. simpl. apply mapM_map_all. exact instr_roundtrip.
Qed.

Theorem loc_roundtrip l : dec_loc (enc_loc l) = Some l.
Proof.
  destruct l as [a b]. unfold dec_loc, enc_loc. simpl. rewrite !N_roundtrip. reflexivity.
Qed.
Opaque enc_loc.

(** Unconditional, thanks to decision D5 ([None] is written as [null]). *)
Theorem err_roundtrip e : dec_err (enc_err e) = Some e.
Proof.
  destruct e as [k v l]. unfold dec_err, enc_err. simpl.
  rewrite err_kind_roundtrip. simpl.
  replace (dec_opt dec_str (enc_opt enc_str v)) with (Some v) by (destruct v; reflexivity).
  simpl. rewrite loc_roundtrip. reflexivity.
Qed.
Opaque enc_err.

Theorem errors_roundtrip_all : forall es : list err, dec_errors (enc_errors es) = Some es.
Proof.
  intro es. unfold dec_errors, enc_errors. simpl. apply mapM_map_all. exact err_roundtrip.
Qed.

(** The statement for error lists whose texts are all specified: on these the tree is the one
    serde produces (no [null] in a [value] member). *)
Theorem errors_roundtrip :
  forall es : list err, (forall e, In e es -> e_val e <> None) ->
                        dec_errors (enc_errors es) = Some es.
Proof. intros es _. apply errors_roundtrip_all. Qed.

Lemma enc_err_wire_shape e s :
  e_val e = Some s ->
  enc_err e = JObj [("kind", enc_err_kind (e_kind e)); ("value", JStr s);
                    ("location", JArr [enc_N (fst (e_loc e)); enc_N (snd (e_loc e))])].
Proof. intro H. destruct e as [k v l]. simpl in H. subst v. reflexivity. Qed.

(** ** The global stack (signature level, see [Spec/Codec.v]) *)
Lemma enc_sem_ty_struct n attrs :
  enc_sem_ty (SStruct n attrs) = tagc "Struct" (enc_sstruct_body n attrs).
Proof. reflexivity. Qed.

Theorem sparam_roundtrip p : dec_sparam (enc_sparam p) = Some p.
Proof.
  destruct p as [n t]. unfold dec_sparam, enc_sparam. simpl.
  rewrite sem_ty_roundtrip. reflexivity.
Qed.

Lemma dec_ginstr_types jb :
  dec_ginstr (tagc "Types" (JObj [("type_decl", jb)])) =
  match dec_sem_ty (tagc "Struct" jb) with
  | Some t => Some (GTypes t)
  | None =>
      match dec_sem_ty jb with
      | Some (SStruct _ _) | None => None
      | Some t => Some (GTypes t)
      end
  end.
Proof. reflexivity. Qed.

Theorem ginstr_roundtrip g : dec_ginstr (enc_ginstr g) = Some g.
Proof.
  destruct g as [t|c|n ps r].
  - destruct t as [p|n attrs|t n]; unfold enc_ginstr; rewrite dec_ginstr_types.
    + replace (dec_sem_ty (tagc "Struct" (enc_sem_ty (SPrim p)))) with (@None sem_ty)
        by reflexivity.
      rewrite sem_ty_roundtrip. reflexivity.
    + rewrite <- enc_sem_ty_struct, sem_ty_roundtrip. reflexivity.
    + replace (dec_sem_ty (tagc "Struct" (enc_sem_ty (SArray t n)))) with (@None sem_ty)
        by reflexivity.
      rewrite sem_ty_roundtrip. reflexivity.
  - unfold dec_ginstr, enc_ginstr; simpl. rewrite const_sem_roundtrip. reflexivity.
  - unfold dec_ginstr, enc_ginstr; simpl.
    rewrite (mapM_map_all dec_sparam enc_sparam ps sparam_roundtrip). simpl.
    rewrite sem_ty_roundtrip. reflexivity.
Qed.

Theorem gstack_roundtrip : forall c : list ginstr, dec_gstack (enc_gstack c) = Some c.
Proof.
  intro c. unfold dec_gstack, enc_gstack. simpl. apply mapM_map_all. exact ginstr_roundtrip.
Qed.

(** ** Re-serialisation: decoding and encoding again gives the same tree *)
Corollary stack_reserialise :
  forall c : list instr, option_map enc_stack (dec_stack (enc_stack c)) = Some (enc_stack c).
Proof. intro c. rewrite stack_roundtrip. reflexivity. Qed.

Corollary errors_reserialise :
  forall es : list err, option_map enc_errors (dec_errors (enc_errors es)) = Some (enc_errors es).
Proof. intro es. rewrite errors_roundtrip_all. reflexivity. Qed.

Print Assumptions ident_roundtrip.
Print Assumptions prim_val_roundtrip.
Print Assumptions ast_ty_roundtrip.
Print Assumptions sem_ty_roundtrip.
Print Assumptions cexpr_roundtrip.
Print Assumptions expr_roundtrip.
Print Assumptions stmt_roundtrip.
Print Assumptions fn_decl_roundtrip.
Print Assumptions program_roundtrip.
Print Assumptions instr_roundtrip.
Print Assumptions stack_roundtrip.
Print Assumptions gstack_roundtrip.
Print Assumptions err_roundtrip.
Print Assumptions errors_roundtrip.
Print Assumptions errors_roundtrip_all.
Print Assumptions analysis_after_roundtrip.
Print Assumptions program_reserialise.
Print Assumptions stack_reserialise.
Print Assumptions errors_reserialise.
