(** Family T1: the register invariant (C09).

    In every live frame the register counter is the same number, the result registers of the
    frame's own stack are strictly increasing and none exceeds the counter.  Preserved by every
    primitive step, hence true of every state the analysis of a function body reaches. *)
From Coq Require Import Sorted Lia.
From SA Require Import Model.
From SA.Proofs Require Import Reach.
Local Open Scope list_scope.

Definition regs_ok (h : N) (c : list instr) : Prop :=
  StronglySorted N.lt (defs c) /\ Forall (fun r => 0 < r <= h) (defs c).

Definition frame_ok (h : N) (b : block) : Prop := b_reg b = h /\ regs_ok h (b_ctx b).

Definition Inv_reg (s : bst) : Prop := Forall (frame_ok (head_reg (frames s))) (frames s).

Lemma sorted_snoc l r : StronglySorted N.lt l -> Forall (fun x => x < r) l ->
                        StronglySorted N.lt (l ++ [r]).
Proof.
  induction l as [|a l IH]; intros Hs Hf; cbn.
  - constructor; constructor.
  - inversion Hs as [|? ? Hs' Ha]; subst. inversion Hf as [|? ? Har Hf']; subst.
    constructor; [apply IH; assumption|].
    apply Forall_app; split; [assumption | constructor; [assumption | constructor]].
Qed.

Lemma regs_ok_mono h h' c : h <= h' -> regs_ok h c -> regs_ok h' c.
Proof.
  intros Hle [Hs Hf]; split; [assumption|].
  eapply Forall_impl; [|exact Hf]. cbn. intros a Ha. lia.
Qed.

Lemma regs_ok_alloc h c i : def_reg i = Some (h + 1) -> regs_ok h c -> regs_ok (h + 1) (c ++ [i]).
Proof.
  intros Hd [Hs Hf]. unfold regs_ok. rewrite (defs_snoc_some _ _ _ Hd). split.
  - apply sorted_snoc; [assumption|]. eapply Forall_impl; [|exact Hf]. cbn. intros a Ha. lia.
  - apply Forall_app; split.
    + eapply Forall_impl; [|exact Hf]. cbn. intros a Ha. lia.
    + constructor; [lia | constructor].
Qed.

Lemma regs_ok_nondef h c i : def_reg i = None -> regs_ok h c -> regs_ok h (c ++ [i]).
Proof. intros Hd H. unfold regs_ok. rewrite (defs_snoc_none _ _ Hd). exact H. Qed.

Lemma head_reg_map_set_reg r fs : fs <> [] -> head_reg (map (set_reg r) fs) = r.
Proof. destruct fs; [congruence | reflexivity]. Qed.

Lemma Inv_reg_head s b : Inv_reg s -> In b (frames s) -> b_reg b = head_reg (frames s).
Proof. intros H Hin. unfold Inv_reg in H. rewrite Forall_forall in H. apply (H b Hin). Qed.

(** Frames mapped by a function that keeps the counter: the head counter is unchanged. *)
Lemma head_reg_map f fs : (forall b, b_reg (f b) = b_reg b) -> head_reg (map f fs) = head_reg fs.
Proof. intro H. destruct fs; cbn; [reflexivity | apply H]. Qed.

Lemma Inv_reg_map f s e :
  (forall b, b_reg (f b) = b_reg b) ->
  (forall h b, regs_ok h (b_ctx b) -> regs_ok h (b_ctx (f b))) ->
  Inv_reg s -> Inv_reg (BSt (map f (frames s)) e).
Proof.
  intros Hr Hc H. unfold Inv_reg in *. cbn [frames]. rewrite (head_reg_map _ _ Hr).
  apply Forall_map. eapply Forall_impl; [|exact H]. intros b [Hb Hok]. split.
  - rewrite Hr. exact Hb.
  - apply Hc. exact Hok.
Qed.

Lemma Inv_reg_inc s :
  Inv_reg s ->
  Forall (fun b => b_reg b = head_reg (frames s) + 1 /\ regs_ok (head_reg (frames s)) (b_ctx b))
         (map (set_reg (head_reg (frames s) + 1)) (frames s)).
Proof.
  intro H. apply Forall_map. eapply Forall_impl; [|exact H].
  intros b [_ Hok]. cbn. split; [reflexivity | exact Hok].
Qed.

Lemma step_Inv_reg s s' : step s s' -> Inv_reg s -> Inv_reg s'.
Proof.
  intros Hstep Hinv. destruct Hstep as
    [mk s r s' Hd H | s r s' H | i s s' Hd H | n s s' H | n s s' H | s s' H | x v s s' H
    | e s s' H | s s' H | s k s' H | k i s s' Hd H].
  - (* alloc_emit *)
    unfold alloc_emit, bind, inc_register, upd_frames, get_reg, gets, ret in H. cbn in H.
    inversion H; subst; clear H. destruct s as [fs e]. cbn [frames errs] in *.
    destruct fs as [|b0 fs]; [constructor|].
    set (h := head_reg (b0 :: fs)) in *.
    unfold Inv_reg. cbn [frames].
    assert (Hh : head_reg (map (push_ctx (mk (head_reg (map (set_reg (h + 1)) (b0 :: fs)))))
                               (map (set_reg (h + 1)) (b0 :: fs))) = h + 1) by reflexivity.
    rewrite Hh.
    assert (Hr : head_reg (map (set_reg (h + 1)) (b0 :: fs)) = h + 1) by reflexivity.
    rewrite Hr. apply Forall_map. apply Forall_map.
    eapply Forall_impl; [|exact Hinv]. intros b [Hb Hok]. split; [reflexivity|].
    cbn. apply regs_ok_alloc; [apply Hd | exact Hok].
  - (* bump *)
    unfold bump, bind, inc_register, upd_frames, get_reg, gets in H. cbn in H.
    inversion H; subst; clear H. destruct s as [fs e]. cbn [frames errs] in *.
    destruct fs as [|b0 fs]; [constructor|].
    set (h := head_reg (b0 :: fs)) in *. unfold Inv_reg. cbn [frames].
    assert (Hr : head_reg (map (set_reg (h + 1)) (b0 :: fs)) = h + 1) by reflexivity.
    rewrite Hr. apply Forall_map. eapply Forall_impl; [|exact Hinv].
    intros b [Hb Hok]. split; [reflexivity|]. cbn. eapply regs_ok_mono; [|exact Hok]. cbn. lia.
  - (* emit, non-defining *)
    unfold emit, upd_frames in H. inversion H; subst; clear H.
    apply Inv_reg_map; [reflexivity | | exact Hinv].
    intros h b Hok. cbn. apply regs_ok_nondef; assumption.
  - unfold set_inner_name, upd_frames in H. inversion H; subst; clear H.
    apply Inv_reg_map; [reflexivity | | exact Hinv]. intros h b Hok; exact Hok.
  - unfold set_label_name, upd_frames in H. inversion H; subst; clear H.
    apply Inv_reg_map; [reflexivity | | exact Hinv]. intros h b Hok; exact Hok.
  - unfold set_return, upd_frames in H. inversion H; subst; clear H.
    apply Inv_reg_map; [reflexivity | | exact Hinv]. intros h b Hok; exact Hok.
  - (* insert_value: head only *)
    unfold insert_value, upd_frames in H. inversion H; subst; clear H.
    destruct s as [fs e]. cbn [frames errs] in *. destruct fs as [|b0 fs]; [constructor|].
    unfold Inv_reg in *. cbn [frames] in *. inversion Hinv as [|? ? [Hb Hok] Hrest]; subst.
    constructor; [split; [reflexivity | exact Hok] | exact Hrest].
  - unfold add_error in H. inversion H; subst; clear H. exact Hinv.
  - (* push_child *)
    unfold push_child, upd_frames in H. inversion H; subst; clear H.
    destruct s as [fs e]. cbn [frames errs] in *. unfold Inv_reg in *. cbn [frames] in *.
    destruct fs as [|p fs]; cbn.
    + constructor; [|constructor]. split; [reflexivity|]. split; cbn; constructor.
    + constructor.
      * split; [reflexivity|]. split; cbn; constructor.
      * exact Hinv.
  - (* pop_child *)
    unfold pop_child in H. destruct s as [fs e]. cbn [frames errs] in *.
    destruct fs as [|c [|p fs]]; try discriminate. inversion H; subst; clear H.
    unfold Inv_reg in *. cbn [frames] in *.
    inversion Hinv as [|? ? [Hc Hcok] Hrest]; subst.
    inversion Hrest as [|? ? [Hp Hpok] Hrest']; subst.
    cbn [head_reg] in *. change (b_reg (add_kid c p)) with (b_reg p). rewrite Hp.
    constructor; [split; [exact Hp | exact Hpok] | exact Hrest'].
  - (* emit_kid: the live frames only see a non-defining push *)
    unfold emit_kid, bind, upd_frames, emit in H. cbn in H. inversion H; subst; clear H.
    destruct s as [fs e]. cbn [frames errs] in *.
    destruct fs as [|p fs]; [constructor|].
    unfold Inv_reg in *. cbn [frames map] in *.
    inversion Hinv as [|? ? [Hp Hpok] Hrest]; subst. cbn [head_reg] in *.
    constructor.
    + split; [reflexivity|]. cbn. apply regs_ok_nondef; assumption.
    + apply Forall_map. eapply Forall_impl; [|exact Hrest]. intros b [Hb Hok].
      split; [exact Hb|]. cbn. apply regs_ok_nondef; assumption.
Qed.

Lemma reach_Inv_reg s s' : reach s s' -> Inv_reg s -> Inv_reg s'.
Proof. intros H; induction H; intro Hi; [exact Hi | eapply step_Inv_reg; eauto]. Qed.

Lemma Inv_reg_init e : Inv_reg (BSt [empty_block] e).
Proof.
  unfold Inv_reg. cbn. constructor; [|constructor].
  split; [reflexivity|]. split; cbn; constructor.
Qed.

(** Every root block produced by [run]: its result registers strictly increase, are positive and
    are bounded by the block's final counter. *)
Lemma bodies_regs_ok G : forall fs errs0 roots errs1 roots1,
  Forall (fun b => regs_ok (b_reg b) (b_ctx b)) roots ->
  bodies G errs0 roots fs = inr (errs1, roots1) ->
  Forall (fun b => regs_ok (b_reg b) (b_ctx b)) roots1.
Proof.
  induction fs as [|f fs IH]; intros errs0 roots errs1 roots1 Hroots H; cbn in H.
  - inversion H; subst. exact Hroots.
  - destruct (function_body G errs0 f) as [a s| |] eqn:E; try discriminate.
    destruct (frames s) as [|root [|]] eqn:Ef; try discriminate.
    eapply IH; [|exact H]. apply Forall_app; split; [exact Hroots|].
    constructor; [|constructor].
    pose proof (reach_Inv_reg _ _ (function_body_reach _ _ _ _ _ E) (Inv_reg_init errs0)) as Hi.
    unfold Inv_reg in Hi. rewrite Ef in Hi. inversion Hi as [|? ? [Hb Hok] _]; subst.
    cbn [head_reg] in Hok. exact Hok.
Qed.

Lemma bodies_inl_not_ok G : forall fs errs0 roots r o,
  bodies G errs0 roots fs = inl r -> r <> ROk o.
Proof.
  induction fs as [|f fs IH]; intros errs0 roots r o H; cbn in H; [discriminate|].
  destruct (function_body G errs0 f) as [a s| |]; try (inversion H; discriminate).
  destruct (frames s) as [|root [|]]; try (inversion H; discriminate).
  eapply IH; exact H.
Qed.

Theorem run_registers_increasing p out :
  run p = ROk out ->
  Forall (fun root => StronglySorted N.lt (defs (b_ctx root)) /\
                      Forall (fun r => 0 < r <= b_reg root) (defs (b_ctx root)))
         (o_fns out).
Proof.
  unfold run. intro H.
  destruct (bodies (gs_globals (declarations p)) (gs_errs (declarations p)) [] (functions_of p))
    as [r|[errors roots]] eqn:E; [exfalso; eapply bodies_inl_not_ok; eauto|].
  inversion H; subst; clear H. cbn [o_fns].
  eapply bodies_regs_ok; [|exact E]. constructor.
Qed.
