(** Family T1: labels (C10), resolution, second half: every label that is named is SET.

    [run_targets_resolved]: for every program (accepted or not) on which the analysis terminates,
    every label named by a [IJumpTo], [IIfCondExpr] or [IIfCondLogic] of a function's complete
    instruction stack (the root block's) is set by a [ISetLabel] of that same stack.

    The argument is about the instructions a computation EMITS.  [emit] appends its instruction
    to the stack of every live frame, so a computation that pushes and pops blocks in a balanced
    way appends one and the same list [d] (its "delta") to the stack of every frame that was live
    when it started ([DQ]).  The label discipline is a predicate on deltas:

      [Closed oe ll d]: every label named in [d] is set in [d], or is the end label [oe] of the
      enclosing if chain (handed down by the caller, who sets it), or is named by a plain
      [IJumpTo] and is one of the labels [ll] of the enclosing loop (set by the loop).

    No freshness or distinctness of labels is needed: "is set" is membership, and appending
    instructions only adds set labels.

    The repair of finding F3 (a loop whose body returned sets its end label only if its own
    block's stack holds a jump to it) is where the all-frames formulation is needed: the stack of
    the block pushed by [loop_step] is exactly the delta since the push, so a [break] emitted by
    the body - directly or by a nested block - is found there.

    Organisation:
    - [ctxs], [adds]: the stacks of the live frames, and appending a delta to all of them;
    - [DQ Q m]: [m] is balanced and its delta satisfies [Q]; [Good Q]: closed under
      concatenation and true of label-free deltas;
    - the label-free pass ([Plain]) over the expression and statement functions;
    - forward symbolic execution through [if_condition_step] and [loop_step];
    - the driver. *)
From Coq Require Import Lia.
From SA Require Import Model.
From SA.Spec Require Import Stack.
From SA.Proofs Require Import Trace InvNames InvLabels.
Local Open Scope list_scope.

(** ** Stacks of the live frames *)
Definition ctxs (s : bst) : list (list instr) := map b_ctx (frames s).
Definition adds (d : list instr) (X : list (list instr)) : list (list instr) :=
  map (fun c => c ++ d) X.

Lemma adds_nil X : adds [] X = X.
Proof.
  unfold adds. induction X as [|c X IH]; cbn; [reflexivity|]. rewrite app_nil_r, IH. reflexivity.
Qed.
Lemma adds_adds d1 d2 X : adds d2 (adds d1 X) = adds (d1 ++ d2) X.
Proof.
  unfold adds. rewrite map_map. apply map_ext. intro c. rewrite <- app_assoc. reflexivity.
Qed.
Lemma adds_cons d c X : adds d (c :: X) = (c ++ d) :: adds d X.
Proof. reflexivity. Qed.
Lemma adds_ne d X : X <> [] -> adds d X <> [].
Proof. destruct X; [congruence | discriminate]. Qed.

Lemma ctxs_map g fs : (forall b, b_ctx (g b) = b_ctx b) -> map b_ctx (map g fs) = map b_ctx fs.
Proof. intro H. rewrite map_map. apply map_ext. exact H. Qed.

Lemma ctxs_emit i s : ctxs (st_emit i s) = adds [i] (ctxs s).
Proof. unfold ctxs, st_emit, adds. cbn [frames]. rewrite !map_map. reflexivity. Qed.
Lemma ctxs_inc s : ctxs (st_inc s) = ctxs s.
Proof. unfold ctxs, st_inc. cbn [frames]. apply ctxs_map. reflexivity. Qed.
Lemma ctxs_kid k i s : ctxs (st_kid k i s) = ctxs s.
Proof. unfold ctxs, st_kid. cbn [frames]. destruct (frames s); reflexivity. Qed.

Lemma head_ctx_ctxs s : head_ctx (frames s) = hd [] (ctxs s).
Proof. unfold ctxs. destruct (frames s); reflexivity. Qed.

(** ** What the primitives do to the stacks *)
Lemma emit_ctxs i s a s' : emit i s = Ok a s' -> ctxs s' = adds [i] (ctxs s).
Proof. intro H. apply emit_eq in H as ->. apply ctxs_emit. Qed.
Lemma emit_kid_ctxs k i s a s' : emit_kid k i s = Ok a s' -> ctxs s' = adds [i] (ctxs s).
Proof. intro H. apply emit_kid_eq in H as ->. rewrite ctxs_emit, ctxs_kid. reflexivity. Qed.
Lemma alloc_emit_ctxs mk s r s' : alloc_emit mk s = Ok r s' -> ctxs s' = adds [mk r] (ctxs s).
Proof.
  intro H. apply alloc_emit_eq in H as [-> ->]. unfold st_alloc. rewrite ctxs_emit, ctxs_inc.
  reflexivity.
Qed.
Lemma bump_ctxs s r s' : bump s = Ok r s' -> ctxs s' = ctxs s.
Proof. intro H. apply bump_eq in H as [-> _]. apply ctxs_inc. Qed.
Lemma set_inner_name_ctxs n s a s' : set_inner_name n s = Ok a s' -> ctxs s' = ctxs s.
Proof.
  intro H. apply set_inner_name_eq in H as ->. unfold ctxs, st_inner. cbn [frames].
  apply ctxs_map. reflexivity.
Qed.
Lemma set_label_name_ctxs n s a s' : set_label_name n s = Ok a s' -> ctxs s' = ctxs s.
Proof.
  intro H. apply set_label_name_eq in H as ->. unfold ctxs, st_label. cbn [frames].
  apply ctxs_map. reflexivity.
Qed.
Lemma set_return_ctxs s a s' : set_return s = Ok a s' -> ctxs s' = ctxs s.
Proof.
  intro H. apply set_return_eq in H as ->. unfold ctxs, st_return. cbn [frames].
  apply ctxs_map. reflexivity.
Qed.
Lemma insert_value_ctxs x v s a s' : insert_value x v s = Ok a s' -> ctxs s' = ctxs s.
Proof.
  intro H. apply insert_value_eq in H as ->. unfold ctxs, st_value. cbn [frames].
  destruct (frames s); reflexivity.
Qed.
Lemma add_error_ctxs e s a s' : add_error e s = Ok a s' -> ctxs s' = ctxs s.
Proof. intro H. apply add_error_eq in H as ->. reflexivity. Qed.
Lemma push_child_ctxs s a s' : push_child s = Ok a s' -> ctxs s' = [] :: ctxs s.
Proof.
  intro H. apply push_child_eq in H as ->. unfold ctxs, st_push. cbn [frames map].
  destruct (frames s); reflexivity.
Qed.
Lemma pop_child_ctxs s k s' : pop_child s = Ok k s' -> ctxs s' = tl (ctxs s).
Proof.
  intro H. apply pop_child_eq in H as (c & p & r & Hf & -> & _). unfold ctxs. rewrite Hf.
  reflexivity.
Qed.
Lemma label_probe_ctxs fuel : forall n s l s',
  label_probe fuel n s = Ok l s' -> ctxs s' = ctxs s.
Proof.
  induction fuel as [|f IH]; intros n s l s' H; cbn in H; [discriminate|].
  destruct (set_attr_counter n) as [n'|]; [|discriminate].
  destruct (label_exists n' (frames s)); [eapply IH; exact H|].
  inversion H; subst. unfold ctxs. cbn [frames]. apply ctxs_map. reflexivity.
Qed.
Lemma gen_label_ctxs base s l s' : gen_label base s = Ok l s' -> ctxs s' = ctxs s.
Proof.
  intro H. unfold gen_label in H. apply bind_ok in H as (ex & s1 & E & H).
  inversion E; subst; clear E.
  destruct (label_exists base (frames s1)).
  - apply bind_ok in H as (fuel & s2 & E & H). inversion E; subst; clear E.
    eapply label_probe_ctxs; exact H.
  - apply bind_ok in H as (a & s2 & E1 & H). inversion H; subst.
    eapply set_label_name_ctxs; exact E1.
Qed.

(** ** Predicates on deltas *)
Definition Plain (d : list instr) : Prop :=
  forall i, In i d -> target_labels i = [] /\ set_label_of i = [].

Definition Within (L : list string) (d : list instr) : Prop :=
  forall i l, In i d -> In l (target_labels i) -> In l L.

Definition OkE (oe : option string) (l : string) : Prop :=
  match oe with Some e => l = e | None => False end.
Definition OkL (ll : option (string * string)) (i : instr) (l : string) : Prop :=
  match ll with
  | Some (lb, le) => i = IJumpTo l /\ (l = lb \/ l = le)
  | None => False
  end.

Definition Closed (oe : option string) (ll : option (string * string)) (d : list instr) : Prop :=
  forall i l, In i d -> In l (target_labels i) ->
              In l (set_labels d) \/ OkE oe l \/ OkL ll i l.

Record Good (Q : list instr -> Prop) : Prop := mkGood {
  g_plain : forall d, Plain d -> Q d;
  g_app : forall d1 d2, Q d1 -> Q d2 -> Q (d1 ++ d2) }.
Arguments g_plain {Q} _ d _.
Arguments g_app {Q} _ d1 d2 _ _.

Lemma Plain_nil : Plain [].
Proof. intros i []. Qed.
Lemma Plain_in d i l : Plain d -> In i d -> In l (target_labels i) -> False.
Proof. intros Hp Hi Hl. destruct (Hp i Hi) as [Ht _]. rewrite Ht in Hl. exact Hl. Qed.

Lemma Good_Plain : Good Plain.
Proof.
  split; [trivial|]. intros d1 d2 H1 H2 i Hi.
  apply in_app_or in Hi as [Hi|Hi]; [apply H1, Hi | apply H2, Hi].
Qed.
Lemma Good_Within L : Good (Within L).
Proof.
  split.
  - intros d Hp i l Hi Hl. exfalso. eapply Plain_in; eassumption.
  - intros d1 d2 H1 H2 i l Hi Hl.
    apply in_app_or in Hi as [Hi|Hi]; [eapply H1 | eapply H2]; eassumption.
Qed.
Lemma Good_Closed oe ll : Good (Closed oe ll).
Proof.
  split.
  - intros d Hp i l Hi Hl. exfalso. eapply Plain_in; eassumption.
  - intros d1 d2 H1 H2 i l Hi Hl. rewrite set_labels_app.
    apply in_app_or in Hi as [Hi|Hi].
    + destruct (H1 i l Hi Hl) as [Hs|Hr]; [left; apply in_or_app; left; exact Hs | right; exact Hr].
    + destruct (H2 i l Hi Hl) as [Hs|Hr]; [left; apply in_or_app; right; exact Hs | right; exact Hr].
Qed.

Lemma Closed_weaken oe ll d : Closed None None d -> Closed oe ll d.
Proof. intros H i l Hi Hl. destruct (H i l Hi Hl) as [Hs|[[]|[]]]. left. exact Hs. Qed.

Lemma Closed_break oe lb le : Closed oe (Some (lb, le)) [IJumpTo le].
Proof.
  intros i l [<-|[]] Hl. cbn in Hl. destruct Hl as [<-|[]]. right. right. cbn.
  split; [reflexivity | right; reflexivity].
Qed.
Lemma Closed_continue oe lb le : Closed oe (Some (lb, le)) [IJumpTo lb].
Proof.
  intros i l [<-|[]] Hl. cbn in Hl. destruct Hl as [<-|[]]. right. right. cbn.
  split; [reflexivity | left; reflexivity].
Qed.
Lemma Within_jump l : Within [l] [IJumpTo l].
Proof. intros i l' [<-|[]] Hl. exact Hl. Qed.
Lemma Within_cond_expr er a b : Within [a; b] [IIfCondExpr er a b].
Proof. intros i l' [<-|[]] Hl. exact Hl. Qed.
Lemma Within_cond_logic a b r : Within [a; b] [IIfCondLogic a b r].
Proof. intros i l' [<-|[]] Hl. exact Hl. Qed.

Lemma set_labels_set l : set_labels [ISetLabel l] = [l].
Proof. reflexivity. Qed.
Lemma set_labels_jump l : set_labels [IJumpTo l] = [].
Proof. reflexivity. Qed.

(** ** Balanced computations *)
Definition DQ {A} (Q : list instr -> Prop) (m : M A) : Prop :=
  forall s a s', ctxs s <> [] -> m s = Ok a s' ->
                 exists d, ctxs s' = adds d (ctxs s) /\ Q d.

Lemma DQ_neutral {A} Q (m : M A) :
  Good Q -> (forall s a s', m s = Ok a s' -> ctxs s' = ctxs s) -> DQ Q m.
Proof.
  intros HG Hm s a s' _ H. exists []. split; [rewrite adds_nil; eapply Hm; exact H|].
  apply (g_plain HG), Plain_nil.
Qed.
Lemma DQ_ret {A} Q (a : A) : Good Q -> DQ Q (ret a).
Proof. intro HG. apply DQ_neutral; [exact HG|]. intros s a' s' H. inversion H. reflexivity. Qed.
Lemma DQ_gets {A} Q (g : list block -> A) : Good Q -> DQ Q (gets g).
Proof. intro HG. apply DQ_neutral; [exact HG|]. intros s a' s' H. inversion H. reflexivity. Qed.
Lemma DQ_panic {A} Q k : DQ Q (@panic A k).
Proof. intros s a s' _ H. discriminate. Qed.
Lemma DQ_oof {A} Q : DQ Q (@out_of_fuel A).
Proof. intros s a s' _ H. discriminate. Qed.
Lemma DQ_bind {A B} Q (m : M A) (f : A -> M B) :
  Good Q -> DQ Q m -> (forall a, DQ Q (f a)) -> DQ Q (bind m f).
Proof.
  intros HG Hm Hf s b s' Hne H. apply bind_ok in H as (a & s1 & E & H).
  destruct (Hm s a s1 Hne E) as (d1 & HC1 & Q1).
  assert (Hne1 : ctxs s1 <> []) by (rewrite HC1; apply adds_ne, Hne).
  destruct (Hf a s1 b s' Hne1 H) as (d2 & HC2 & Q2).
  exists (d1 ++ d2). split; [rewrite HC2, HC1, adds_adds; reflexivity|].
  apply (g_app HG); assumption.
Qed.
Lemma DQ_when Q b m : Good Q -> DQ Q m -> DQ Q (when b m).
Proof. intros HG H. destruct b; [exact H | apply DQ_ret, HG]. Qed.
Lemma DQ_mono {A} (Q Q' : list instr -> Prop) (m : M A) :
  (forall d, Q d -> Q' d) -> DQ Q m -> DQ Q' m.
Proof.
  intros HQ Hm s a s' Hne H. destruct (Hm s a s' Hne H) as (d & HC & Hd).
  exists d. split; [exact HC | apply HQ, Hd].
Qed.
Lemma DQ_plain {A} Q (m : M A) : Good Q -> DQ Plain m -> DQ Q m.
Proof. intro HG. apply DQ_mono. apply (g_plain HG). Qed.
Lemma DQ_emit (Q : list instr -> Prop) i : Q [i] -> DQ Q (emit i).
Proof. intros Hi s a s' _ H. exists [i]. split; [eapply emit_ctxs; exact H | exact Hi]. Qed.
Lemma DQ_emit_kid (Q : list instr -> Prop) k i : Q [i] -> DQ Q (emit_kid k i).
Proof. intros Hi s a s' _ H. exists [i]. split; [eapply emit_kid_ctxs; exact H | exact Hi]. Qed.

Lemma DP_alloc_emit mk :
  (forall n, target_labels (mk n) = [] /\ set_label_of (mk n) = []) -> DQ Plain (alloc_emit mk).
Proof.
  intros Hmk s r s' _ H. exists [mk r]. split; [eapply alloc_emit_ctxs; exact H|].
  intros i [<-|[]]. apply Hmk.
Qed.
Lemma DP_bump : DQ Plain bump.
Proof. apply DQ_neutral; [apply Good_Plain | apply bump_ctxs]. Qed.
Lemma DP_set_inner_name n : DQ Plain (set_inner_name n).
Proof. apply DQ_neutral; [apply Good_Plain | apply set_inner_name_ctxs]. Qed.
Lemma DP_set_return : DQ Plain set_return.
Proof. apply DQ_neutral; [apply Good_Plain | apply set_return_ctxs]. Qed.
Lemma DP_insert_value x v : DQ Plain (insert_value x v).
Proof. apply DQ_neutral; [apply Good_Plain | apply insert_value_ctxs]. Qed.
Lemma DP_add_error e : DQ Plain (add_error e).
Proof. apply DQ_neutral; [apply Good_Plain | apply add_error_ctxs]. Qed.
Lemma DP_next_inner_name fuel n : DQ Plain (next_inner_name fuel n).
Proof.
  apply DQ_neutral; [apply Good_Plain|]. intros s a s' H.
  apply next_inner_name_spec in H as [-> _]. reflexivity.
Qed.

Ltac good := first [assumption | apply Good_Plain | apply Good_Closed | apply Good_Within].

Ltac plain_single :=
  let j := fresh "j" in intros j [<-|[]]; split; reflexivity.

Ltac q_single :=
  first
    [ plain_single
    | apply Closed_break | apply Closed_continue
    | apply Within_jump | apply Within_cond_expr | apply Within_cond_logic
    | apply g_plain; [good | plain_single] ].

Ltac p_prim :=
  first
    [ apply DP_bump
    | apply DP_alloc_emit; intro; split; reflexivity
    | apply DP_set_inner_name | apply DP_set_return | apply DP_insert_value
    | apply DP_add_error | apply DP_next_inner_name ].

Ltac d_go :=
  repeat first
    [ apply DQ_ret; good | apply DQ_gets; good | apply DQ_panic | apply DQ_oof
    | match goal with H : _ |- DQ _ _ => solve [apply H; auto] end
    | match goal with |- DQ Plain _ => p_prim end
    | match goal with
      | |- DQ Plain _ => fail 1
      | |- DQ _ _ => apply DQ_plain; [good | solve [d_go]]
      end
    | apply DQ_emit; solve [q_single]
    | apply DQ_emit_kid; solve [q_single]
    | apply DQ_when; [good|]
    | apply DQ_bind; [good | | intros ?]
    | match goal with |- DQ _ (match ?x with _ => _ end) => destruct x end
    | progress cbv zeta ].

(** ** The label-free pass *)
Section PBody.
  Variable G : globals.

  Lemma P_check_type_exists t v l : DQ Plain (check_type_exists G t v l).
  Proof. unfold check_type_exists. d_go. Qed.

  Section Expr.
    Variable E : expr -> M (option eres).
    Hypothesis HE : forall e, DQ Plain (E e).

    Lemma P_call_args callee params : forall args i acc,
      DQ Plain (call_args E callee params i args acc).
    Proof. induction args as [|a args IH]; intros i acc; cbn [call_args]; d_go. Qed.

    Lemma P_function_call f args : DQ Plain (function_call G E f args).
    Proof. pose proof P_call_args. unfold function_call. d_go. Qed.

    Lemma P_expr_value v : DQ Plain (expr_value G E v).
    Proof.
      pose proof P_function_call. pose proof P_check_type_exists.
      destruct v; cbn [expr_value]; d_go.
    Qed.

    Lemma P_expr_chain : forall rest left, DQ Plain (expr_chain G E left rest).
    Proof.
      pose proof P_expr_value.
      induction rest as [|[op v] rest IH]; intros left; cbn [expr_chain]; d_go.
    Qed.

    Lemma P_expression_body e : DQ Plain (expression_body G E e).
    Proof. pose proof P_expr_value. pose proof P_expr_chain. unfold expression_body. d_go. Qed.
  End Expr.

  Lemma P_expression fuel : forall e, DQ Plain (expression G fuel e).
  Proof.
    induction fuel as [|f IH]; intros e; cbn [expression]; [apply DQ_oof|].
    apply P_expression_body; exact IH.
  Qed.

  Section Stmts.
    Variable fuel : nat.
    Variable RT : sem_ty.

    Lemma P_let_binding x m t e : DQ Plain (let_binding G fuel x m t e).
    Proof. pose proof (P_expression fuel). unfold let_binding. d_go. Qed.

    Lemma P_binding x e : DQ Plain (binding G fuel x e).
    Proof. pose proof (P_expression fuel). unfold binding. d_go. Qed.

    Lemma P_call_stmt f args : DQ Plain (call_stmt G fuel f args).
    Proof.
      unfold call_stmt. apply DQ_bind; [good | | intros; apply DQ_ret; good].
      apply P_function_call. apply P_expression.
    Qed.

    Lemma P_condition_expression c : DQ Plain (condition_expression G fuel c).
    Proof.
      pose proof (P_expression fuel).
      induction c as [l c r | l c r op n IH] using lcond_ind'; cbn [condition_expression]; d_go.
    Qed.

    Lemma P_check_return_type er : DQ Plain (check_return_type RT er).
    Proof. unfold check_return_type. d_go. Qed.

    Lemma P_code_after_errors k fl : DQ Plain (code_after_errors k fl).
    Proof. unfold code_after_errors. d_go. Qed.

    Lemma P_init_func_params : forall ps, DQ Plain (init_func_params ps).
    Proof. induction ps as [|[x t] ps IH]; cbn [init_func_params]; d_go. Qed.
  End Stmts.
End PBody.

(** ** Forward symbolic execution

    The context holds [HC : ctxs s = X] for the current state [s], where [X] is an explicit
    expression: [adds D C] at the level of the frames [C] the computation started with, or
    [h :: adds D C] while a block pushed by the computation is live. *)
Lemma step_DQ {A} Q (m : M A) s a s' X :
  DQ Q m -> ctxs s = X -> X <> [] -> m s = Ok a s' -> exists d, Q d /\ ctxs s' = adds d X.
Proof.
  intros Hm <- Hne E. destruct (Hm s a s' Hne E) as (d & HC & Hd). exists d. split; assumption.
Qed.
Lemma step_emit i s a s' X : ctxs s = X -> emit i s = Ok a s' -> ctxs s' = adds [i] X.
Proof. intros <- H. eapply emit_ctxs; exact H. Qed.
Lemma step_emit_kid k i s a s' X : ctxs s = X -> emit_kid k i s = Ok a s' -> ctxs s' = adds [i] X.
Proof. intros <- H. eapply emit_kid_ctxs; exact H. Qed.
Lemma step_push s a s' X : ctxs s = X -> push_child s = Ok a s' -> ctxs s' = [] :: X.
Proof. intros <- H. eapply push_child_ctxs; exact H. Qed.
Lemma step_pop s k s' X : ctxs s = X -> pop_child s = Ok k s' -> ctxs s' = tl X.
Proof. intros <- H. eapply pop_child_ctxs; exact H. Qed.
Lemma step_gen base s l s' X : ctxs s = X -> gen_label base s = Ok l s' -> ctxs s' = X.
Proof. intros <- H. eapply gen_label_ctxs; exact H. Qed.

Lemma bind_ret_eq {A B} (a : A) (f : A -> M B) s : bind (ret a) f s = f a s.
Proof. reflexivity. Qed.
Lemma bind_gets_eq {A B} (g : list block -> A) (f : A -> M B) s :
  bind (gets g) f s = f (g (frames s)) s.
Proof. reflexivity. Qed.

Ltac ne_solve := first [discriminate | assumption | apply adds_ne; ne_solve].

Ltac norm HC := rewrite ?adds_cons, ?adds_adds in HC; cbn [tl] in HC.

Ltac qcore Q d E :=
  match type of E with
  | ?m ?s = Ok ?x ?s1 =>
      match goal with
      | HC : ctxs s = ?X |- _ =>
          let HQ := fresh "HQ" in let Hd := fresh "Hd" in let HC1 := fresh "HC" in
          let Hn := fresh "Hn" in
          assert (HQ : DQ Q m) by (solve [d_go]);
          assert (Hn : X <> []) by ne_solve;
          destruct (step_DQ Q m s x s1 X HQ HC Hn E) as (d & Hd & HC1);
          clear HQ Hn E HC; rename HC1 into HC; norm HC
      end
  end.

Ltac ecore E :=
  match type of E with
  | ?m ?s = Ok _ ?s1 =>
      match goal with
      | HC : ctxs s = ?X |- _ =>
          let HC1 := fresh "HC" in
          first [ pose proof (step_emit _ _ _ _ _ HC E) as HC1
                | pose proof (step_emit_kid _ _ _ _ _ _ HC E) as HC1
                | pose proof (step_push _ _ _ _ HC E) as HC1
                | pose proof (step_pop _ _ _ _ HC E) as HC1
                | pose proof (step_gen _ _ _ _ _ HC E) as HC1 ];
          clear E HC; rename HC1 into HC; norm HC
      end
  end.

Ltac qstep_ H Q d :=
  let x := fresh "x" in let s1 := fresh "s" in let E := fresh "E" in
  apply bind_ok in H as (x & s1 & E & H); cbv beta in H; qcore Q d E.
Ltac estep H :=
  let x := fresh "x" in let s1 := fresh "s" in let E := fresh "E" in
  apply bind_ok in H as (x & s1 & E & H); cbv beta in H; ecore E.
Ltac estep_as_ H x :=
  let s1 := fresh "s" in let E := fresh "E" in
  apply bind_ok in H as (x & s1 & E & H); cbv beta in H; ecore E.
Ltac elast H := ecore H.
Tactic Notation "qstep" hyp(H) constr(Q) ident(d) := qstep_ H Q d.
Tactic Notation "qlast" hyp(H) constr(Q) ident(d) := qcore Q d H.
Tactic Notation "qcore'" constr(Q) ident(d) hyp(E) := qcore Q d E.
Tactic Notation "estep_as" hyp(H) ident(x) := estep_as_ H x.

(** Closing a case: the final stacks are [adds D C] for an explicit concatenation [D] of the
    deltas of the steps; [Closed _ _ D] is checked piece by piece. *)
Ltac fin_leaf i l Hi Hl :=
  first
    [ contradiction
    | match type of Hi with
      | In _ ?d =>
          match goal with
          | Hd : Plain d |- _ => exfalso; exact (Plain_in _ _ _ Hd Hi Hl)
          | Hd : Within _ d |- _ =>
              let Hx := fresh "Hx" in
              pose proof (Hd i l Hi Hl) as Hx; cbn [In] in Hx;
              intuition (subst; try contradiction; auto 30)
          | Hd : Closed _ _ d |- _ =>
              let Hx := fresh "Hx" in
              destruct (Hd i l Hi Hl) as [Hx|[Hx|Hx]]; cbn [OkE OkL] in Hx;
              intuition (subst; try contradiction; auto 30)
          end
      | _ = i =>
          subst i; cbn [target_labels In] in Hl; intuition (subst; try contradiction; auto 30)
      end ].

Ltac fin :=
  match goal with
  | HC : ctxs ?s = adds ?D _ |- exists d, ctxs ?s = adds d _ /\ _ =>
      exists D; split; [exact HC|]
  end;
  let i := fresh "i" in let l := fresh "l" in let Hi := fresh "Hi" in let Hl := fresh "Hl" in
  intros i l Hi Hl;
  rewrite ?set_labels_app, ?set_labels_set, ?set_labels_jump; rewrite ?in_app_iff;
  cbn [In OkE OkL];
  rewrite ?in_app_iff in Hi; cbn [In] in Hi;
  repeat (destruct Hi as [Hi|Hi]);
  fin_leaf i l Hi Hl.

Section ClBody.
  Variable G : globals.
  Variable fuel : nat.
  Variable RT : sem_ty.

  Lemma W_calc c lb le lend (ie : bool) :
    DQ (Within [lb; if ie then le else lend]) (if_condition_calculation G fuel c lb le lend ie).
  Proof.
    pose proof (P_expression G fuel). pose proof (P_condition_expression G fuel).
    unfold if_condition_calculation. d_go.
  Qed.

  (** the end label that statements of a nested body may name *)
  Definition oeK (k : bkind) (lend : string) : option string :=
    match k with KLoop => None | _ => Some lend end.

  Section Control.
    Variable IFC : ifstmt -> option string -> option (string * string) -> M unit.
    Variable LOOP : list stmt -> M unit.
    Hypothesis HIFC : forall i oe ll, DQ (Closed oe ll) (IFC i oe ll).
    Hypothesis HLOOP : forall b oe ll, DQ (Closed oe ll) (LOOP b).

    Lemma Cl_nested_stmt k lend lloop fl st :
      DQ (Closed (oeK k lend) lloop) (nested_stmt G fuel RT IFC LOOP k lend lloop fl st).
    Proof.
      pose proof (P_expression G fuel). pose proof (P_let_binding G fuel).
      pose proof (P_binding G fuel). pose proof (P_call_stmt G fuel).
      pose proof (P_check_return_type RT).
      destruct k; cbn [oeK]; destruct st; cbn [nested_stmt]; d_go.
    Qed.

    Lemma Cl_run_body k lend lloop : forall ss fl,
      DQ (Closed (oeK k lend) lloop) (run_body G fuel RT IFC LOOP k lend lloop fl ss).
    Proof.
      pose proof Cl_nested_stmt. pose proof P_code_after_errors.
      induction ss as [|st ss IH]; intros fl; cbn [run_body]; d_go.
    Qed.

    Lemma Cl_if_body b lend lloop :
      DQ (Closed (Some lend) lloop) (if_body G fuel RT IFC LOOP b lend lloop).
    Proof.
      pose proof (fun ss fl => Cl_run_body KIf lend lloop ss fl) as H1.
      pose proof (fun ss fl => Cl_run_body KIfLoop lend lloop ss fl) as H2.
      cbn [oeK] in H1, H2. unfold if_body. d_go.
    Qed.

    Lemma Cl_if_condition_step i oe ll :
      DQ (Closed oe ll) (if_condition_step G fuel RT IFC LOOP i oe ll).
    Proof.
      pose proof Cl_if_body as Hbody. pose proof W_calc as Hcalc.
      destruct i as [c body els elif]. intros s0 a s_end Hne H.
      remember (ctxs s0) as C eqn:HC. symmetry in HC.
      cbn [if_condition_step] in H.
      qstep H Plain d0. estep H. estep_as H lbegin. estep_as H lelse.
      destruct oe as [le|].
      - (* the end label belongs to the caller *)
        rewrite bind_ret_eq in H. cbv beta zeta in H.
        destruct els as [eb|]; [|destruct elif as [ei|]]; cbn [is_some orb negb when] in H.
        + qstep H (Within [lbegin; lelse]) d1. estep H.
          qstep H (Closed (Some le) ll) d2. qstep H (Within [le]) d3.
          estep H. estep_as H slot.
          apply bind_ok in H as (u & s_mid & Hmid & H).
          estep Hmid. qstep Hmid (Closed (Some le) ll) d4. estep Hmid.
          qlast Hmid (Within [le]) d5. qlast H Plain d6. fin.
        + qstep H (Within [lbegin; lelse]) d1. estep H.
          qstep H (Closed (Some le) ll) d2. qstep H (Within [le]) d3.
          estep H. estep_as H slot.
          qstep H (Closed (Some le) ll) d4. qlast H Plain d6. fin.
        + qstep H (Within [lbegin; le]) d1. estep H.
          qstep H (Closed (Some le) ll) d2. qstep H (Within [le]) d3.
          qstep H Plain d4. estep H. qlast H Plain d5. fin.
      - (* the end label is generated, and set, here *)
        estep_as H lend. cbv beta zeta in H.
        destruct els as [eb|]; [|destruct elif as [ei|]]; cbn [is_some orb negb when] in H.
        + qstep H (Within [lbegin; lelse]) d1. estep H.
          qstep H (Closed (Some lend) ll) d2. qstep H (Within [lend]) d3.
          estep H. estep_as H slot.
          apply bind_ok in H as (u & s_mid & Hmid & H).
          estep Hmid. qstep Hmid (Closed (Some lend) ll) d4. estep Hmid.
          qlast Hmid (Within [lend]) d5. elast H. fin.
        + qstep H (Within [lbegin; lelse]) d1. estep H.
          qstep H (Closed (Some lend) ll) d2. qstep H (Within [lend]) d3.
          estep H. estep_as H slot.
          qstep H (Closed (Some lend) ll) d4. elast H. fin.
        + qstep H (Within [lbegin; lend]) d1. estep H.
          qstep H (Closed (Some lend) ll) d2. qstep H (Within [lend]) d3.
          estep H. estep H. qlast H Plain d5. fin.
    Qed.

    Lemma Cl_loop_step body oe ll : DQ (Closed oe ll) (loop_step G fuel RT IFC LOOP body).
    Proof.
      intros s0 a s_end Hne H.
      remember (ctxs s0) as C eqn:HC. symmetry in HC.
      unfold loop_step in H.
      estep H. estep_as H lbegin. estep_as H lend. estep H. estep H.
      pose proof (fun fl => Cl_run_body KLoop "" (Some (lbegin, lend)) body fl) as Hbody.
      cbn [oeK] in Hbody.
      apply bind_ok in H as (fl & s_body & E & H). cbv beta in H.
      qcore' (Closed None (Some (lbegin, lend))) db E.
      apply bind_ok in H as (u & s_mid & Hmid & H). cbv beta in H.
      destruct (fl_ret fl).
      - (* a return in the body: the end label is set iff the block's stack jumps to it *)
        rewrite bind_gets_eq, head_ctx_ctxs, HC in Hmid. cbn [hd] in Hmid.
        destruct (existsb (is_jump_to lend) _) eqn:Eex in Hmid; cbn [when] in Hmid.
        + elast Hmid. estep H. qlast H Plain dr. fin.
        + assert (Hno : ~ In (IJumpTo lend) db).
          { intro Hin. rewrite <- Bool.not_true_iff_false in Eex. apply Eex.
            apply existsb_exists. exists (IJumpTo lend).
            split; [apply in_or_app; right; exact Hin | cbn; apply String.eqb_refl]. }
          clear Eex. qlast Hmid Plain dm. estep H. qlast H Plain dr. fin.
      - estep Hmid. elast Hmid. estep H. qlast H Plain dr. fin.
    Qed.
  End Control.

  Lemma Cl_control n :
    (forall i oe ll, DQ (Closed oe ll) (if_condition G fuel RT n i oe ll)) /\
    (forall b oe ll, DQ (Closed oe ll) (loop_statement G fuel RT n b)).
  Proof.
    induction n as [|n [IH1 IH2]]; split; intros; cbn [if_condition loop_statement];
      try apply DQ_oof.
    - apply Cl_if_condition_step; assumption.
    - apply Cl_loop_step; assumption.
  Qed.

  Lemma Cl_fn_stmt returned st : DQ (Closed None None) (fn_stmt G fuel RT returned st).
  Proof.
    pose proof (P_expression G fuel). pose proof (P_let_binding G fuel).
    pose proof (P_binding G fuel). pose proof (P_call_stmt G fuel).
    pose proof (P_check_type_exists G).
    destruct (Cl_control fuel) as [HI HL].
    destruct st; cbn [fn_stmt]; d_go.
  Qed.

  Lemma Cl_fn_stmts : forall ss returned, DQ (Closed None None) (fn_stmts G fuel RT returned ss).
  Proof.
    pose proof Cl_fn_stmt.
    induction ss as [|st ss IH]; intros returned; cbn [fn_stmts]; d_go.
  Qed.
End ClBody.

Lemma Cl_function_body_m G f : DQ (Closed None None) (function_body_m G f).
Proof.
  pose proof (P_init_func_params (fn_params f)). pose proof (Cl_fn_stmts G).
  unfold function_body_m. d_go.
Qed.

(** ** The driver *)
Definition targets_resolved (b : block) : Prop :=
  forall i l, In i (b_ctx b) -> In l (target_labels i) -> In l (set_labels (b_ctx b)).

Lemma function_body_resolved G errs0 f a s rt :
  function_body G errs0 f = Ok a s -> frames s = [rt] -> targets_resolved rt.
Proof.
  intros H Hf.
  destruct (Cl_function_body_m G f (BSt [empty_block] errs0) a s) as (d & HC & HQ);
    [discriminate | exact H |].
  unfold ctxs in HC. rewrite Hf in HC. cbn in HC. inversion HC as [Hd]. subst d.
  intros i l Hi Hl. destruct (HQ i l Hi Hl) as [Hx|[[]|[]]]. exact Hx.
Qed.

Lemma bodies_targets_resolved G : forall fs errs0 roots errs1 roots1,
  Forall targets_resolved roots ->
  bodies G errs0 roots fs = inr (errs1, roots1) ->
  Forall targets_resolved roots1.
Proof.
  induction fs as [|f fs IH]; intros errs0 roots errs1 roots1 Hroots H; cbn in H.
  - inversion H; subst. exact Hroots.
  - destruct (function_body G errs0 f) as [a s| |] eqn:E; try discriminate.
    destruct (frames s) as [|rt [|]] eqn:Ef; try discriminate.
    eapply IH; [|exact H]. apply Forall_app; split; [exact Hroots|].
    constructor; [|constructor].
    eapply function_body_resolved; eassumption.
Qed.

(** C10, resolution (second half): for every program (accepted or not) on which the analysis
    terminates, every label named by a [IJumpTo], [IIfCondExpr] or [IIfCondLogic] of a function's
    complete stack is set by a [ISetLabel] of that stack. *)
Theorem run_targets_resolved : forall p out,
  run p = ROk out ->
  Forall (fun root => forall i l, In i (b_ctx root) -> In l (target_labels i) ->
                                  In l (set_labels (b_ctx root)))
         (o_fns out).
Proof.
  intros p out H. unfold run in H.
  destruct (bodies (gs_globals (declarations p)) (gs_errs (declarations p)) [] (functions_of p))
    as [r|[errors roots]] eqn:E; [exfalso; eapply bodies_inl_not_ok'; eauto|].
  inversion H; subst; clear H. cbn [o_fns].
  eapply (bodies_targets_resolved _ _ _ [] _ _ (Forall_nil _) E).
Qed.

Print Assumptions run_targets_resolved.
