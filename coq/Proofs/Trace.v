(** Family T1, refined: the analysis of a function body after parameter initialisation is a
    composition of the steps below.  Compared with [Reach.v] the steps carry the LOCAL facts that
    hold at the point of the code that performs them (a value that is read was just looked up; an
    internal name that is declared was just probed free; a return form was just chosen from the
    flag), and the pairs of primitives that the code always performs together are single steps.

    [Rat s m] is indexed by the state so that facts about what was just read are available. *)
From Coq Require Import Lia.
From SA Require Import Model.
From SA.Spec Require Export Stack.
From SA.Mon Require Export C12.
Local Open Scope list_scope.

(** ** State transformers of the primitives *)
Definition st_inc (s : bst) : bst :=
  BSt (map (set_reg (head_reg (frames s) + 1)) (frames s)) (errs s).
Definition st_emit (i : instr) (s : bst) : bst := BSt (map (push_ctx i) (frames s)) (errs s).
Definition st_alloc (mk : N -> instr) (s : bst) : bst :=
  st_emit (mk (head_reg (frames (st_inc s)))) (st_inc s).
Definition st_inner (n : string) (s : bst) : bst := BSt (map (add_inner n) (frames s)) (errs s).
Definition st_label (n : string) (s : bst) : bst := BSt (map (add_label n) (frames s)) (errs s).
Definition st_return (s : bst) : bst := BSt (map set_mret (frames s)) (errs s).
Definition st_value (x : string) (v : value) (s : bst) : bst :=
  BSt (match frames s with b :: r => set_value x v b :: r | [] => [] end) (errs s).
Definition st_error (e : err) (s : bst) : bst := BSt (frames s) (errs s ++ [e]).
Definition st_push (s : bst) : bst := BSt (new_child (frames s) :: frames s) (errs s).
Definition st_kid (k : nat) (i : instr) (s : bst) : bst :=
  BSt (match frames s with
       | p :: r => set_kids (update_nth k (push_ctx i) (b_kids p)) p :: r
       | [] => []
       end) (errs s).

Lemma alloc_emit_eq mk s r s' :
  alloc_emit mk s = Ok r s' -> s' = st_alloc mk s /\ r = head_reg (frames (st_inc s)).
Proof. unfold alloc_emit, bind, inc_register, upd_frames, get_reg, gets, ret. cbn. intro H. inversion H. split; reflexivity. Qed.
Lemma bump_eq s r s' : bump s = Ok r s' -> s' = st_inc s /\ r = head_reg (frames (st_inc s)).
Proof. unfold bump, bind, inc_register, upd_frames, get_reg, gets. cbn. intro H. inversion H. split; reflexivity. Qed.
Lemma emit_eq i s a s' : emit i s = Ok a s' -> s' = st_emit i s.
Proof. unfold emit, upd_frames. intro H. inversion H. reflexivity. Qed.
Lemma set_inner_name_eq n s a s' : set_inner_name n s = Ok a s' -> s' = st_inner n s.
Proof. unfold set_inner_name, upd_frames. intro H. inversion H. reflexivity. Qed.
Lemma set_label_name_eq n s a s' : set_label_name n s = Ok a s' -> s' = st_label n s.
Proof. unfold set_label_name, upd_frames. intro H. inversion H. reflexivity. Qed.
Lemma set_return_eq s a s' : set_return s = Ok a s' -> s' = st_return s.
Proof. unfold set_return, upd_frames. intro H. inversion H. reflexivity. Qed.
Lemma insert_value_eq x v s a s' : insert_value x v s = Ok a s' -> s' = st_value x v s.
Proof. unfold insert_value, upd_frames. intro H. inversion H. reflexivity. Qed.
Lemma add_error_eq e s a s' : add_error e s = Ok a s' -> s' = st_error e s.
Proof. unfold add_error. intro H. inversion H. reflexivity. Qed.
Lemma push_child_eq s a s' : push_child s = Ok a s' -> s' = st_push s.
Proof. unfold push_child, upd_frames. intro H. inversion H. reflexivity. Qed.
Lemma emit_kid_eq k i s a s' : emit_kid k i s = Ok a s' -> s' = st_emit i (st_kid k i s).
Proof. unfold emit_kid, bind, upd_frames, emit. cbn. intro H. inversion H. reflexivity. Qed.
Lemma pop_child_eq s k s' :
  pop_child s = Ok k s' ->
  exists c p r, frames s = c :: p :: r /\ s' = BSt (add_kid c p :: r) (errs s) /\ k = length (b_kids p).
Proof.
  unfold pop_child. destruct (frames s) as [|c [|p r]]; try discriminate.
  intro H. inversion H. exists c, p, r. repeat split.
Qed.

(** ** Steps *)
Definition in_scope (fs : list block) (v : value) : Prop := exists x, lookup_frames x fs = Some v.

(** instructions that are neither declarations nor returns *)
Definition plain (i : instr) : Prop :=
  match i with
  | ILet _ _ | IFnArg _ _ _ | IJumpFnRet _ | IFnRet _ | IFnRetLabel _ => False
  | _ => True
  end.

Inductive step2 : bst -> bst -> Prop :=
| t_alloc mk s :
    (forall n, def_reg (mk n) = Some n) -> (forall n, plain (mk n)) ->
    (forall n, Forall (in_scope (frames s)) (read_values (mk n))) ->
    step2 s (st_alloc mk s)
| t_bump s : step2 s (st_inc s)
| t_emit i s :
    def_reg i = None -> plain i -> Forall (in_scope (frames s)) (read_values i) ->
    step2 s (st_emit i s)
| t_jump_ret er s : step2 s (st_return (st_emit (IJumpFnRet er) s))
| t_let x val er s :
    inner_exists (v_inner val) (frames s) = false ->
    step2 s (st_emit (ILet val er) (st_inner (v_inner val) (st_value x val s)))
| t_fn_ret er s :
    step2 s (st_emit (if head_mret (frames s) then IFnRetLabel er else IFnRet er) s)
| t_label n s : step2 s (st_label n s)
| t_error e s : step2 s (st_error e s)
| t_push s : step2 s (st_push s)
| t_pop c p r e : step2 (BSt (c :: p :: r) e) (BSt (add_kid c p :: r) e)
| t_kid k i s :
    def_reg i = None -> plain i -> read_values i = [] ->
    step2 s (st_emit i (st_kid k i s)).

Inductive reach2 : bst -> bst -> Prop :=
| reach2_refl s : reach2 s s
| reach2_step s1 s2 s3 : reach2 s1 s2 -> step2 s2 s3 -> reach2 s1 s3.

Lemma reach2_trans s1 s2 s3 : reach2 s1 s2 -> reach2 s2 s3 -> reach2 s1 s3.
Proof. intros H12 H23; induction H23; eauto using reach2. Qed.
Lemma reach2_one s s' : step2 s s' -> reach2 s s'.
Proof. intro H; eapply reach2_step; [apply reach2_refl | exact H]. Qed.

(** ** The state-indexed closure predicate *)
Definition Rat {A} (s : bst) (m : M A) : Prop := forall a s', m s = Ok a s' -> reach2 s s'.
Definition R2 {A} (m : M A) : Prop := forall s, Rat s m.

Lemma Rat_ret {A} s (a : A) : Rat s (ret a).
Proof. intros a' s' H; inversion H; apply reach2_refl. Qed.
Lemma Rat_bind {A B} s (m : M A) (f : A -> M B) :
  Rat s m -> (forall a s1, m s = Ok a s1 -> Rat s1 (f a)) -> Rat s (bind m f).
Proof.
  intros Hm Hf b s' H. unfold bind in H.
  case_eq (m s); [intros a s1 E | intros k E | intros E]; rewrite E in H; try discriminate.
  eapply reach2_trans; [eapply Hm; exact E | eapply Hf; [exact E | exact H]].
Qed.
Lemma Rat_bind_R2 {A B} s (m : M A) (f : A -> M B) :
  Rat s m -> (forall a, R2 (f a)) -> Rat s (bind m f).
Proof. intros Hm Hf. apply Rat_bind; [exact Hm | intros a s1 _; apply Hf]. Qed.
(** reads: the continuation is analysed in the same state with the value that was read *)
Lemma Rat_bind_gets {A B} s (g : list block -> A) (f : A -> M B) :
  Rat s (f (g (frames s))) -> Rat s (bind (gets g) f).
Proof. intros H b s' Hb. unfold bind, gets in Hb. exact (H b s' Hb). Qed.
Lemma Rat_gets {A} s (g : list block -> A) : Rat s (gets g).
Proof. intros a s' H; inversion H; apply reach2_refl. Qed.
Lemma Rat_panic {A} s k : Rat s (@panic A k).
Proof. intros a s' H; discriminate. Qed.
Lemma Rat_oof {A} s : Rat s (@out_of_fuel A).
Proof. intros a s' H; discriminate. Qed.

Lemma Rat_alloc_emit s mk :
  (forall n, def_reg (mk n) = Some n) -> (forall n, plain (mk n)) ->
  (forall n, Forall (in_scope (frames s)) (read_values (mk n))) ->
  Rat s (alloc_emit mk).
Proof.
  intros H1 H2 H3 a s' H. apply alloc_emit_eq in H as [-> _]. apply reach2_one, t_alloc; assumption.
Qed.
Lemma Rat_bump s : Rat s bump.
Proof. intros a s' H. apply bump_eq in H as [-> _]. apply reach2_one, t_bump. Qed.
Lemma Rat_emit s i :
  def_reg i = None -> plain i -> Forall (in_scope (frames s)) (read_values i) -> Rat s (emit i).
Proof. intros H1 H2 H3 a s' H. apply emit_eq in H as ->. apply reach2_one, t_emit; assumption. Qed.
Lemma Rat_set_label s n : Rat s (set_label_name n).
Proof. intros a s' H. apply set_label_name_eq in H as ->. apply reach2_one, t_label. Qed.
Lemma Rat_add_error s e : Rat s (add_error e).
Proof. intros a s' H. apply add_error_eq in H as ->. apply reach2_one, t_error. Qed.
Lemma Rat_push_child s : Rat s push_child.
Proof. intros a s' H. apply push_child_eq in H as ->. apply reach2_one, t_push. Qed.
Lemma Rat_pop_child s : Rat s pop_child.
Proof.
  intros k s' H. apply pop_child_eq in H as (c & p & r & Hf & -> & _).
  destruct s as [fs e]. cbn in Hf. subst fs. apply reach2_one, t_pop.
Qed.
Lemma Rat_emit_kid s k i :
  def_reg i = None -> plain i -> read_values i = [] -> Rat s (emit_kid k i).
Proof. intros H1 H2 H3 a s' H. apply emit_kid_eq in H as ->. apply reach2_one, t_kid; assumption. Qed.
Lemma Rat_when s b m : Rat s m -> Rat s (when b m).
Proof. intro H; destruct b; [exact H | apply Rat_ret]. Qed.

Lemma next_inner_name_spec fuel : forall n s a s',
  next_inner_name fuel n s = Ok a s' -> s' = s /\ inner_exists a (frames s) = false.
Proof.
  induction fuel as [|f IH]; intros n s a s' H; cbn in H; [discriminate|].
  destruct (set_attr_counter n) as [n'|]; [|discriminate].
  destruct (inner_exists n' (frames s)) eqn:E; [eapply IH; exact H|].
  inversion H; subst. split; [reflexivity | exact E].
Qed.

Lemma R2_label_probe fuel : forall n, R2 (label_probe fuel n).
Proof.
  induction fuel as [|f IH]; intros n s a s' H; cbn in H; [discriminate|].
  destruct (set_attr_counter n) as [n'|]; [|discriminate].
  destruct (label_exists n' (frames s)); [eapply IH; exact H|].
  revert H. apply (Rat_bind s (set_label_name n') (fun _ => ret n') (Rat_set_label s n')).
  intros; apply Rat_ret.
Qed.

Ltac r2_prim :=
  first
    [ apply Rat_ret | apply Rat_gets | apply Rat_panic | apply Rat_oof | apply Rat_bump
    | apply Rat_alloc_emit; [intro; reflexivity | intro; exact I | intro; constructor]
    | apply Rat_emit; [reflexivity | exact I | constructor]
    | apply Rat_emit_kid; reflexivity
    | apply Rat_emit_kid; [reflexivity | exact I | reflexivity]
    | apply Rat_set_label | apply Rat_add_error | apply Rat_push_child | apply Rat_pop_child
    | apply R2_label_probe ].

Ltac r2_go :=
  repeat first
    [ r2_prim
    | match goal with H : _ |- Rat _ _ => solve [apply H; auto] end
    | apply Rat_when
    | apply Rat_bind_gets
    | apply Rat_bind; [| intros ? ? _]
    | match goal with |- Rat _ (match ?x with _ => _ end) => destruct x end
    | match goal with |- Rat _ (if ?b then _ else _) => destruct b end
    | progress cbv zeta ].

Lemma R2_gen_label base : R2 (gen_label base).
Proof. intro s. unfold gen_label. r2_go. Qed.

Section Body.
  Variable G : globals.

  Lemma R2_check_type_exists t v l : R2 (check_type_exists G t v l).
  Proof. intro s. unfold check_type_exists. r2_go. Qed.

  Section Expr.
    Variable E : expr -> M (option eres).
    Hypothesis HE : forall e, R2 (E e).

    Lemma R2_call_args callee params : forall args i acc, R2 (call_args E callee params i args acc).
    Proof.
      induction args as [|a args IH]; intros i acc s; cbn [call_args]; r2_go.
    Qed.

    Lemma R2_function_call f args : R2 (function_call G E f args).
    Proof. intro s. unfold function_call. pose proof R2_call_args. r2_go. Qed.

    Lemma lookup_value_bind {B} s x (f : option value -> M B) :
      Rat s (f (lookup_frames x (frames s))) -> Rat s (bind (lookup_value x) f).
    Proof. apply Rat_bind_gets. Qed.

    Lemma R2_expr_value v : R2 (expr_value G E v).
    Proof.
      pose proof R2_function_call. pose proof R2_check_type_exists.
      intro s. destruct v; cbn [expr_value].
      - (* name: the value that is read was just looked up *)
        apply lookup_value_bind. destruct (lookup_frames (iname x) (frames s)) as [val|] eqn:E1.
        + apply Rat_bind; [|intros; apply Rat_ret].
          apply Rat_alloc_emit; [intro; reflexivity | intro; exact I|].
          intro n. constructor; [exists (iname x); exact E1 | constructor].
        + r2_go.
      - r2_go.
      - r2_go.
      - (* field read *)
        apply lookup_value_bind. destruct (lookup_frames (iname x) (frames s)) as [val|] eqn:E1;
          [|r2_go].
        destruct (v_ty val) eqn:Ety; try solve [r2_go].
        apply Rat_bind; [apply R2_check_type_exists|]. intros ok s1 Hc.
        assert (Hs1 : frames s1 = frames s).
        { unfold check_type_exists in Hc.
          destruct (is_prim (SStruct name attrs)); [inversion Hc; reflexivity|].
          destruct (amem _ _); [inversion Hc; reflexivity|].
          unfold bind, add_error, ret in Hc. inversion Hc. reflexivity. }
        destruct (negb ok); [apply Rat_ret|].
        destruct (alookup _ _); [|apply Rat_ret].
        destruct (negb _); [r2_go|].
        destruct (attr_lookup _ _) as [[idx aty]|]; [|r2_go].
        apply Rat_bind.
        + apply Rat_alloc_emit; [intro; reflexivity | intro; exact I|].
          intro n. constructor; [|constructor]. exists (iname x). rewrite Hs1. exact E1.
        + intros. r2_go.
      - apply HE.
      - r2_go.
    Qed.

    Lemma R2_expr_chain : forall rest left, R2 (expr_chain G E left rest).
    Proof.
      pose proof R2_expr_value.
      induction rest as [|[op v] rest IH]; intros left s; cbn [expr_chain]; r2_go.
    Qed.

    Lemma R2_expression_body e : R2 (expression_body G E e).
    Proof.
      pose proof R2_expr_value. pose proof R2_expr_chain.
      intro s. unfold expression_body. r2_go.
    Qed.
  End Expr.

  Lemma R2_expression fuel : forall e, R2 (expression G fuel e).
  Proof.
    induction fuel as [|f IH]; intros e s; cbn [expression]; [apply Rat_oof|].
    apply R2_expression_body; exact IH.
  Qed.

  Section Stmts.
    Variable fuel : nat.
    Variable RT : sem_ty.

    Lemma R2_let_binding x m t e : R2 (let_binding G fuel x m t e).
    Proof.
      pose proof (R2_expression fuel) as HE. intro s. unfold let_binding.
      apply Rat_bind; [apply HE|]. intros r s1 _. destruct r as [er|]; [|apply Rat_ret].
      cbv zeta. destruct (match t with Some _ => _ | None => _ end); [r2_go|].
      apply lookup_value_bind. apply Rat_bind_gets.
      apply Rat_bind; [intros a s' Hn; apply next_inner_name_spec in Hn as [-> _]; apply reach2_refl|].
      intros inner s2 Hn. apply next_inner_name_spec in Hn as [-> Hfresh].
      (* the three pushes of a declaration are one step *)
      intros a s' H. unfold bind in H.
      destruct (insert_value _ _ s1) as [a1 sa| |] eqn:E1; try discriminate.
      apply insert_value_eq in E1 as ->.
      destruct (set_inner_name _ _) as [a2 sb| |] eqn:E2; try discriminate.
      apply set_inner_name_eq in E2 as ->.
      apply emit_eq in H as ->.
      apply reach2_one. apply (t_let (iname x) (Value inner (r_ty er) m) er s1). exact Hfresh.
    Qed.

    Lemma R2_binding x e : R2 (binding G fuel x e).
    Proof.
      pose proof (R2_expression fuel) as HE. intro s. unfold binding.
      apply Rat_bind; [apply HE|]. intros r s1 _. destruct r as [er|]; [|apply Rat_ret].
      apply lookup_value_bind. destruct (lookup_frames (iname x) (frames s1)) as [val|] eqn:E1;
        [|r2_go].
      destruct (negb (v_mut val)); [r2_go|]. destruct (negb _); [r2_go|].
      apply Rat_emit; [reflexivity | exact I|].
      constructor; [exists (iname x); exact E1 | constructor].
    Qed.

    Lemma R2_call_stmt f args : R2 (call_stmt G fuel f args).
    Proof.
      intro s. unfold call_stmt. apply Rat_bind; [|intros; apply Rat_ret].
      apply R2_function_call. apply R2_expression.
    Qed.

    Lemma lcond_ind' (P : lcond -> Prop) :
      (forall l c r, P (LC l c r None)) ->
      (forall l c r op n, P n -> P (LC l c r (Some (op, n)))) ->
      forall c, P c.
    Proof.
      intros H1 H2. fix IH 1. intros [l c r [[op n]|]]; [apply H2, IH | apply H1].
    Qed.

    Lemma R2_condition_expression c : R2 (condition_expression G fuel c).
    Proof.
      pose proof (R2_expression fuel).
      induction c as [l c r | l c r op n IH] using lcond_ind'; intro s;
        cbn [condition_expression]; r2_go.
    Qed.

    Lemma R2_if_condition_calculation c lb le lend ie :
      R2 (if_condition_calculation G fuel c lb le lend ie).
    Proof.
      pose proof (R2_expression fuel). pose proof R2_condition_expression.
      intro s. unfold if_condition_calculation. r2_go.
    Qed.

    Lemma R2_check_return_type er : R2 (check_return_type RT er).
    Proof. intro s. unfold check_return_type. r2_go. Qed.

    Lemma R2_code_after_errors k fl : R2 (code_after_errors k fl).
    Proof. intro s. unfold code_after_errors. r2_go. Qed.

    Lemma Rat_jump_ret s er (k : M flags) :
      (forall s1, Rat s1 k) ->
      Rat s (emit (IJumpFnRet er) ;;; set_return ;;; k).
    Proof.
      intros Hk a s' H. unfold bind in H.
      destruct (emit _ s) as [a1 sa| |] eqn:E1; try discriminate. apply emit_eq in E1 as ->.
      destruct (set_return _) as [a2 sb| |] eqn:E2; try discriminate. apply set_return_eq in E2 as ->.
      eapply reach2_trans; [apply reach2_one, t_jump_ret | eapply Hk; exact H].
    Qed.

    Section Control.
      Variable IFC : ifstmt -> option string -> option (string * string) -> M unit.
      Variable LOOP : list stmt -> M unit.
      Hypothesis HIFC : forall i le ll, R2 (IFC i le ll).
      Hypothesis HLOOP : forall b, R2 (LOOP b).

      Lemma R2_nested_stmt k lend lloop fl st : R2 (nested_stmt G fuel RT IFC LOOP k lend lloop fl st).
      Proof.
        pose proof (R2_expression fuel) as HE. pose proof R2_let_binding. pose proof R2_binding.
        pose proof R2_call_stmt. pose proof R2_check_return_type.
        intro s. destruct st; cbn [nested_stmt]; try solve [r2_go].
        (* return: jump-to-return and the flag are one step *)
        apply Rat_bind; [apply HE|]. intros r s1 _. destruct r as [er|]; [|apply Rat_ret].
        apply Rat_bind; [apply R2_check_return_type|]. intros _ s2 _.
        apply Rat_jump_ret. intro. apply Rat_ret.
      Qed.

      Lemma R2_run_body k lend lloop : forall ss fl, R2 (run_body G fuel RT IFC LOOP k lend lloop fl ss).
      Proof.
        pose proof R2_nested_stmt. pose proof R2_code_after_errors.
        induction ss as [|st ss IH]; intros fl s; cbn [run_body]; r2_go.
      Qed.

      Lemma R2_if_body b lend lloop : R2 (if_body G fuel RT IFC LOOP b lend lloop).
      Proof. pose proof R2_run_body. intro s. unfold if_body. r2_go. Qed.

      Lemma R2_if_condition_step i le ll : R2 (if_condition_step G fuel RT IFC LOOP i le ll).
      Proof.
        pose proof R2_if_body. pose proof R2_if_condition_calculation. pose proof R2_gen_label.
        intro s. destruct i as [c body els elif]. cbn [if_condition_step]. r2_go.
      Qed.

      Lemma R2_loop_step body : R2 (loop_step G fuel RT IFC LOOP body).
      Proof. pose proof R2_run_body. pose proof R2_gen_label. intro s. unfold loop_step. r2_go. Qed.
    End Control.

    Lemma R2_control n :
      (forall i le ll, R2 (if_condition G fuel RT n i le ll)) /\
      (forall b, R2 (loop_statement G fuel RT n b)).
    Proof.
      induction n as [|n [IH1 IH2]]; split; intros; intro s; cbn [if_condition loop_statement];
        try apply Rat_oof.
      - apply R2_if_condition_step; assumption.
      - apply R2_loop_step; assumption.
    Qed.

    Lemma R2_fn_stmt returned st : R2 (fn_stmt G fuel RT returned st).
    Proof.
      pose proof (R2_expression fuel) as HE. pose proof R2_let_binding. pose proof R2_binding.
      pose proof R2_call_stmt. pose proof R2_check_type_exists.
      destruct (R2_control fuel) as [HI HL].
      intro s. destruct st; cbn [fn_stmt]; try solve [r2_go].
      - (* return *)
        apply Rat_bind; [apply HE|]. intros r s1 _.
        apply Rat_bind; [r2_go|]. intros _ s2 _. destruct r as [er|]; [|apply Rat_ret].
        apply Rat_bind; [apply R2_check_type_exists|]. intros _ s3 _.
        apply Rat_bind; [r2_go|]. intros _ s4 _.
        apply Rat_bind_gets. apply Rat_bind; [|intros; apply Rat_ret].
        intros a s' Hm. apply reach2_one.
        assert (s' = st_emit (if head_mret (frames s4) then IFnRetLabel er else IFnRet er) s4) as ->.
        { destruct (head_mret (frames s4)); apply emit_eq in Hm; exact Hm. }
        apply t_fn_ret.
      - (* expression statement: the same code *)
        apply Rat_bind; [apply HE|]. intros r s1 _.
        apply Rat_bind; [r2_go|]. intros _ s2 _. destruct r as [er|]; [|apply Rat_ret].
        apply Rat_bind; [apply R2_check_type_exists|]. intros _ s3 _.
        apply Rat_bind; [r2_go|]. intros _ s4 _.
        apply Rat_bind_gets. apply Rat_bind; [|intros; apply Rat_ret].
        intros a s' Hm. apply reach2_one.
        assert (s' = st_emit (if head_mret (frames s4) then IFnRetLabel er else IFnRet er) s4) as ->.
        { destruct (head_mret (frames s4)); apply emit_eq in Hm; exact Hm. }
        apply t_fn_ret.
    Qed.

    Lemma R2_fn_stmts : forall ss returned, R2 (fn_stmts G fuel RT returned ss).
    Proof.
      pose proof R2_fn_stmt.
      induction ss as [|st ss IH]; intros returned s; cbn [fn_stmts]; r2_go.
    Qed.
  End Stmts.
End Body.
