(** C03: the relation between a model state and the resolver's state, and the logic used to
    carry it through the model.

    - the view of a state: root stack [Ctx], value tables of the live frames [Tabs], the root's
      registry of internal names [RInner];
    - [Inv na s S n Ev]: the stack side reads the root stack of [s] as the events [Ev], has seen
      [n] declarations of which [na] parameters, and under its translation of internal names the
      tables of the live frames are the scopes [S] of the resolver;
    - [J s m Q]: when [m] runs from [s] the error list only grows, and [Q] holds for the result
      when it did not grow;
    - the primitives; [K s m]: [m] keeps the relation. *)
From Coq Require Import Lia.
From SA Require Import Model.
From SA.Spec Require Import Stack.
From SA.Mon Require Import C03.
From SA.Proofs Require Import Trace InvNames DefUse ResolutionBase.
Local Open Scope list_scope.

(** ** The view *)
Definition table := list (string * value).
Definition Tabs (s : bst) : list table := map b_values (frames s).
Definition RInner (s : bst) : list string := b_inner (root_of (frames s)).
Definition view := (list instr * list table * list string)%type.
Definition V (s : bst) : view := (Ctx s, Tabs s, RInner s).
Definition ne (s : bst) : nat := length (errs s).

Lemma V_map (g : block -> block) fc fi s e :
  frames s <> [] ->
  (forall b, b_ctx (g b) = fc (b_ctx b)) -> (forall b, b_values (g b) = b_values b) ->
  (forall b, b_inner (g b) = fi (b_inner b)) ->
  V (BSt (map g (frames s)) e) = (fc (Ctx s), Tabs s, fi (RInner s)).
Proof.
  intros Hne Hc Hv Hi. unfold V, Ctx, Tabs, RInner. cbn [frames].
  rewrite (root_of_map g _ Hne), Hc, Hi. f_equal. f_equal. rewrite map_map. apply map_ext. exact Hv.
Qed.

Lemma V_inc s : frames s <> [] -> frames (st_inc s) <> [] /\ V (st_inc s) = V s.
Proof.
  intro Hne. split; [apply map_ne, Hne|]. unfold st_inc.
  apply (V_map _ (fun c => c) (fun i => i)); [exact Hne | | |]; reflexivity.
Qed.

Lemma V_emit i s :
  frames s <> [] ->
  frames (st_emit i s) <> [] /\ V (st_emit i s) = (Ctx s ++ [i], Tabs s, RInner s).
Proof.
  intro Hne. split; [apply map_ne, Hne|]. unfold st_emit.
  apply (V_map _ (fun c => c ++ [i]) (fun x => x)); [exact Hne | | |]; reflexivity.
Qed.

Lemma V_inner n s :
  frames s <> [] ->
  frames (st_inner n s) <> [] /\ V (st_inner n s) = (Ctx s, Tabs s, sadd n (RInner s)).
Proof.
  intro Hne. split; [apply map_ne, Hne|]. unfold st_inner.
  apply (V_map _ (fun c => c) (fun x => sadd n x)); [exact Hne | | |]; reflexivity.
Qed.

Lemma V_label n s : frames s <> [] -> frames (st_label n s) <> [] /\ V (st_label n s) = V s.
Proof.
  intro Hne. split; [apply map_ne, Hne|]. unfold st_label.
  apply (V_map _ (fun c => c) (fun i => i)); [exact Hne | | |]; reflexivity.
Qed.

Lemma V_return s : frames s <> [] -> frames (st_return s) <> [] /\ V (st_return s) = V s.
Proof.
  intro Hne. split; [apply map_ne, Hne|]. unfold st_return.
  apply (V_map _ (fun c => c) (fun i => i)); [exact Hne | | |]; reflexivity.
Qed.

Lemma RInner_head h h' r e e' :
  b_inner h' = b_inner h -> RInner (BSt (h' :: r) e') = RInner (BSt (h :: r) e).
Proof.
  intro Hc. unfold RInner. cbn [frames]. destruct r as [|b r].
  - exact Hc.
  - rewrite !root_of_cons by discriminate. reflexivity.
Qed.

Lemma V_value x v s :
  frames s <> [] ->
  frames (st_value x v s) <> [] /\
  V (st_value x v s) =
  (Ctx s, match Tabs s with t :: r => ainsert x v t :: r | [] => [] end, RInner s).
Proof.
  intro Hne. destruct s as [fs e]. cbn [frames] in Hne. destruct fs as [|h r]; [congruence|].
  unfold st_value. cbn [frames errs]. split; [discriminate|]. unfold V. f_equal; [f_equal|].
  - apply Ctx_head. reflexivity.
  - apply (RInner_head h (set_value x v h) r e e). reflexivity.
Qed.

Lemma V_push s :
  frames s <> [] -> frames (st_push s) <> [] /\ V (st_push s) = (Ctx s, [] :: Tabs s, RInner s).
Proof.
  intro Hne. split; [discriminate|]. unfold V, Ctx, Tabs, RInner, st_push. cbn [frames].
  rewrite (root_of_cons _ _ Hne). cbn [map]. destruct (frames s); [congruence | reflexivity].
Qed.

Lemma V_pop s c p r :
  frames s = c :: p :: r ->
  V (BSt (add_kid c p :: r) (errs s)) = (Ctx s, tl (Tabs s), RInner s).
Proof.
  intro Hf. unfold V. f_equal; [f_equal|].
  - unfold Ctx at 2. rewrite Hf. rewrite (root_of_cons c (p :: r)) by discriminate.
    apply (Ctx_head p (add_kid c p) r (errs s) (errs s)). reflexivity.
  - unfold Tabs. rewrite Hf. reflexivity.
  - unfold RInner at 2. rewrite Hf. rewrite (root_of_cons c (p :: r)) by discriminate.
    apply (RInner_head p (add_kid c p) r (errs s) (errs s)). reflexivity.
Qed.

Lemma V_kid k i s : frames s <> [] -> frames (st_kid k i s) <> [] /\ V (st_kid k i s) = V s.
Proof.
  intro Hne. destruct s as [fs e]. cbn [frames] in Hne. destruct fs as [|p r]; [congruence|].
  unfold st_kid. cbn [frames errs]. split; [discriminate|]. unfold V. f_equal; [f_equal|].
  - apply Ctx_head. reflexivity.
  - apply (RInner_head p _ r e e). reflexivity.
Qed.

(** ** The relation *)
Definition tab_rel (m : nmap) (tab : table) (sc : rscope) : Prop :=
  forall x, match alookup x tab with
            | Some v => exists d, scope_find x sc = Some d /\ nmap_find (v_inner v) m = Some d
            | None => scope_find x sc = None
            end.

Fixpoint lookup_tabs (x : string) (ts : list table) : option value :=
  match ts with
  | [] => None
  | t :: r => match alookup x t with Some v => Some v | None => lookup_tabs x r end
  end.

Lemma lookup_frames_tabs x fs : lookup_frames x fs = lookup_tabs x (map b_values fs).
Proof.
  induction fs as [|b fs IH]; cbn; [reflexivity|]. rewrite IH. reflexivity.
Qed.

Lemma lookup_rel m x : forall ts S, Forall2 (tab_rel m) ts S ->
  match lookup_tabs x ts with
  | Some v => exists d, resolve x S = Some d /\ nmap_find (v_inner v) m = Some d
  | None => resolve x S = None
  end.
Proof.
  induction 1 as [|t sc ts S Ht _ IH]; cbn [lookup_tabs resolve]; [reflexivity|].
  specialize (Ht x). destruct (alookup x t) as [v|].
  - destruct Ht as (d & Hs & Hm). exists d. rewrite Hs. split; [reflexivity | exact Hm].
  - rewrite Ht. exact IH.
Qed.

Definition Core (na : nat) (m : nmap) (lets : bool) (v : view) (S : rscopes) (n : nat)
           (Ev : list ev) : Prop :=
  match v with
  | (c, tabs, inner) =>
      sscan c st0 = Some ((m, n, na, lets), Ev) /\
      Forall2 (tab_rel m) tabs S /\
      (forall x, smem x inner = false -> nmap_find x m = None)
  end.

Definition Inv (na : nat) (s : bst) (S : rscopes) (n : nat) (Ev : list ev) : Prop :=
  frames s <> [] /\ exists m lets, Core na m lets (V s) S n Ev.

Definition Keeps (s s' : bst) : Prop :=
  forall na S n Ev, Inv na s S n Ev -> Inv na s' S n Ev.

Lemma Keeps_refl s : Keeps s s.
Proof. intros na S n Ev H. exact H. Qed.
Lemma Keeps_trans s1 s2 s3 : Keeps s1 s2 -> Keeps s2 s3 -> Keeps s1 s3.
Proof. intros H1 H2 na S n Ev H. apply H2, H1, H. Qed.

Lemma Keeps_V s s' : frames s' <> [] -> V s' = V s -> Keeps s s'.
Proof. intros Hne HV na S n Ev [_ H]. split; [exact Hne|]. rewrite HV. exact H. Qed.

(** one more instruction whose reading leaves the scanner's state alone *)
Lemma Core_step na m lets c t i S n Ev x e :
  Core na m lets (c, t, i) S n Ev -> step_st x (m, n, na, lets) = Some ((m, n, na, lets), e) ->
  Core na m lets (c ++ [x], t, i) S n (Ev ++ e).
Proof.
  intros (Hs & Ht & Hi) Hx. split; [|split; assumption].
  eapply sscan_snoc; eassumption.
Qed.

Lemma Inv_step na s s' S n Ev x :
  frames s' <> [] -> V s' = (Ctx s ++ [x], Tabs s, RInner s) ->
  Inv na s S n Ev ->
  forall e, (forall m lets, Core na m lets (V s) S n Ev ->
                            step_st x (m, n, na, lets) = Some ((m, n, na, lets), e)) ->
  Inv na s' S n (Ev ++ e).
Proof.
  intros Hne HV [_ (m & lets & HC)] e Hx. split; [exact Hne|]. exists m, lets. rewrite HV.
  apply Core_step; [exact HC | apply Hx, HC].
Qed.

Lemma Keeps_silent s s' x :
  frames s' <> [] -> V s' = (Ctx s ++ [x], Tabs s, RInner s) -> silent x -> Keeps s s'.
Proof.
  intros Hne HV Hx na S n Ev HI. rewrite <- (app_nil_r Ev).
  eapply Inv_step; try eassumption. intros. apply step_silent, Hx.
Qed.

Lemma tab_rel_nil m : tab_rel m [] [].
Proof. intro x. reflexivity. Qed.

Lemma Inv_push na s s' S n Ev :
  frames s' <> [] -> V s' = (Ctx s, [] :: Tabs s, RInner s) ->
  Inv na s S n Ev -> Inv na s' ([] :: S) n Ev.
Proof.
  intros Hne HV [_ (m & lets & Hs & Ht & Hi)]. split; [exact Hne|]. exists m, lets. rewrite HV.
  split; [exact Hs|]. split; [|exact Hi]. constructor; [apply tab_rel_nil | exact Ht].
Qed.

Lemma Inv_pop na s s' S n Ev :
  frames s' <> [] -> V s' = (Ctx s, tl (Tabs s), RInner s) ->
  Inv na s S n Ev -> Inv na s' (tl S) n Ev.
Proof.
  intros Hne HV [_ (m & lets & Hs & Ht & Hi)]. split; [exact Hne|]. exists m, lets. rewrite HV.
  split; [exact Hs|]. split; [|exact Hi]. destruct Ht; [constructor | assumption].
Qed.

(** what a lookup in the live frames means on the resolver's side *)
Lemma Inv_lookup na s S n Ev x :
  Inv na s S n Ev ->
  match lookup_frames x (frames s) with
  | Some v => exists d, resolve x S = Some d /\
                        forall m lets, Core na m lets (V s) S n Ev ->
                                       nmap_find (v_inner v) m = Some d
  | None => resolve x S = None
  end.
Proof.
  intros [_ (m & lets & Hs & Ht & Hi)]. rewrite lookup_frames_tabs. fold (Tabs s).
  pose proof (lookup_rel m x _ _ Ht) as H. destruct (lookup_tabs x (Tabs s)) as [v|]; [|exact H].
  destruct H as (d & Hr & Hm). exists d. split; [exact Hr|].
  intros m' lets' (Hs' & _). unfold V in Hs'. rewrite Hs in Hs'. inversion Hs'; subst. exact Hm.
Qed.

Lemma smem_sadd_false y n l : smem y (sadd n l) = false -> smem y l = false /\ String.eqb y n = false.
Proof.
  intro H. split.
  - destruct (smem y l) eqn:E; [|reflexivity]. rewrite (smem_sadd_mono y n l E) in H. discriminate.
  - destruct (String.eqb y n) eqn:E; [|reflexivity]. apply String.eqb_eq in E; subst.
    rewrite smem_sadd in H. discriminate.
Qed.

Lemma tab_rel_fresh m k d tab sc :
  nmap_find k m = None -> tab_rel m tab sc -> tab_rel ((k, d) :: m) tab sc.
Proof.
  intros Hk Ht x. specialize (Ht x). destruct (alookup x tab) as [v|]; [|exact Ht].
  destruct Ht as (d' & Hs & Hm). exists d'. split; [exact Hs|]. cbn [nmap_find].
  destruct (String.eqb (v_inner v) k) eqn:E; [|exact Hm].
  apply String.eqb_eq in E. rewrite E, Hk in Hm. discriminate.
Qed.

Lemma Forall2_tab_rel_fresh m k d ts S :
  nmap_find k m = None -> Forall2 (tab_rel m) ts S -> Forall2 (tab_rel ((k, d) :: m)) ts S.
Proof.
  intros Hk H. induction H; constructor; [apply tab_rel_fresh; assumption | assumption].
Qed.

Lemma tab_rel_declare m k n x val tab sc :
  v_inner val = k -> tab_rel ((k, n) :: m) tab sc ->
  tab_rel ((k, n) :: m) (ainsert x val tab) ((x, n) :: sc).
Proof.
  intros Hk Ht y. rewrite alookup_ainsert. cbn [scope_find]. destruct (String.eqb y x).
  - exists n. split; [reflexivity|]. cbn [nmap_find]. rewrite Hk, String.eqb_refl. reflexivity.
  - apply Ht.
Qed.

(** a declaration: the value enters the head table under [x], its internal name the registry,
    the [LetBinding] the stack *)
Lemma Inv_let na s s' S n Ev x val er :
  frames s' <> [] ->
  V s' = (Ctx s ++ [ILet val er],
          match Tabs s with t :: r => ainsert x val t :: r | [] => [] end,
          sadd (v_inner val) (RInner s)) ->
  smem (v_inner val) (RInner s) = false ->
  Inv na s S n Ev -> Inv na s' (declare_in x n S) (Datatypes.S n) (Ev ++ [EDecl n]).
Proof.
  intros Hne HV Hfresh [Hne0 (m & lets & Hs & Ht & Hi)]. split; [exact Hne|].
  pose proof (Hi _ Hfresh) as Hm.
  exists ((v_inner val, n) :: m), true. rewrite HV. split; [|split].
  - eapply sscan_snoc; [exact Hs|]. cbn [step_st]. rewrite Hm. reflexivity.
  - unfold Tabs in *. destruct (frames s) as [|b fs]; [congruence|]. cbn [map] in *.
    inversion Ht as [|t sc ts S' Ht1 Hts]; subst. cbn [declare_in]. constructor.
    + apply tab_rel_declare; [reflexivity|]. apply tab_rel_fresh; assumption.
    + apply Forall2_tab_rel_fresh; assumption.
  - intros y Hy. apply smem_sadd_false in Hy as [Hy1 Hy2]. cbn [nmap_find]. rewrite Hy2.
    apply Hi, Hy1.
Qed.

Lemma inner_exists_root n fs :
  fs <> [] -> inner_exists n fs = false -> smem n (b_inner (root_of fs)) = false.
Proof.
  intros Hne H. unfold inner_exists in H.
  destruct (smem n (b_inner (root_of fs))) eqn:E; [|reflexivity].
  assert (existsb (fun b => smem n (b_inner b)) fs = true)
    by (apply existsb_exists; exists (root_of fs); split; [apply root_of_in, Hne | exact E]).
  congruence.
Qed.

(** ** The logic *)
Definition J {A} (s : bst) (m : M A) (Q : A -> bst -> Prop) : Prop :=
  frames s <> [] -> forall a s', m s = Ok a s' ->
  (frames s' <> [] /\ (ne s <= ne s')%nat) /\ ((ne s' <= ne s)%nat -> Q a s').

Lemma J_ret {A} s (a : A) (Q : A -> bst -> Prop) : Q a s -> J s (ret a) Q.
Proof. intros HQ Hne a' s' H. inversion H; subst. split; [split; [exact Hne | lia] | intros _; exact HQ]. Qed.
Lemma J_panic {A} s k (Q : A -> bst -> Prop) : J s (@panic A k) Q.
Proof. intros _ a s' H. discriminate. Qed.
Lemma J_oof {A} s (Q : A -> bst -> Prop) : J s (@out_of_fuel A) Q.
Proof. intros _ a s' H. discriminate. Qed.

Lemma J_bind {A B} s (m : M A) (f : A -> M B) (Q1 : A -> bst -> Prop) (Q : B -> bst -> Prop) :
  J s m Q1 ->
  (forall a s1, frames s1 <> [] -> J s1 (f a) (fun b s' => Q1 a s1 -> Q b s')) ->
  J s (bind m f) Q.
Proof.
  intros Hm Hf Hne x s' H. apply bind_ok in H as (a & s1 & E & H).
  destruct (Hm Hne a s1 E) as [[N1 L1] HQ1].
  destruct (Hf a s1 N1 N1 x s' H) as [[N2 L2] HQ].
  split; [split; [exact N2 | lia]|]. intro L. apply HQ; [lia|]. apply HQ1. lia.
Qed.

Lemma J_conseq {A} s (m : M A) (Q Q' : A -> bst -> Prop) :
  J s m Q -> (forall a s', Q a s' -> Q' a s') -> J s m Q'.
Proof.
  intros Hm HQ Hne a s' H. destruct (Hm Hne a s' H) as [R1 H1]. split; [exact R1|].
  intro L. apply HQ, H1, L.
Qed.

Lemma J_gets_bind {A B} s (g : list block -> A) (f : A -> M B) (Q : B -> bst -> Prop) :
  J s (f (g (frames s))) Q -> J s (bind (gets g) f) Q.
Proof. intros H Hne x s' Hb. unfold bind, gets in Hb. exact (H Hne x s' Hb). Qed.

Lemma J_gets {A} s (g : list block -> A) (Q : A -> bst -> Prop) :
  Q (g (frames s)) s -> J s (gets g) Q.
Proof. intros HQ Hne a s' H. inversion H; subst. split; [split; [exact Hne | lia] | intros _; exact HQ]. Qed.

(** an added error: nothing is owed *)
Lemma J_err s e (Q : unit -> bst -> Prop) : J s (add_error e) Q.
Proof.
  intros Hne a s' H. apply add_error_eq in H as ->. unfold st_error, ne. cbn [frames errs].
  rewrite app_length. cbn [length]. split; [split; [exact Hne | lia] | intro L; lia].
Qed.

(** [when c (add_error e)]: accepted means the condition was false *)
Lemma J_when_err s c e :
  J s (when c (add_error e)) (fun _ s' => c = false /\ s' = s).
Proof.
  destruct c; cbn [when]; [apply J_err | apply J_ret; split; reflexivity].
Qed.

Lemma J_state {A} s (m : M A) (Q : A -> bst -> Prop) :
  (frames s <> [] -> forall a s', m s = Ok a s' -> frames s' <> [] /\ ne s' = ne s /\ Q a s') ->
  J s m Q.
Proof.
  intros H Hne a s' Hm. destruct (H Hne a s' Hm) as (N & L & HQ).
  split; [split; [exact N | lia] | intros _; exact HQ].
Qed.

Lemma J_alloc s mk :
  J s (alloc_emit mk)
    (fun r s' => frames s' <> [] /\ V s' = (Ctx s ++ [mk r], Tabs s, RInner s)).
Proof.
  apply J_state. intros Hne r s' H. apply alloc_emit_eq in H as [-> ->].
  destruct (V_inc s Hne) as [N1 V1].
  destruct (V_emit (mk (head_reg (frames (st_inc s)))) (st_inc s) N1) as [N2 V2].
  unfold st_alloc. split; [exact N2|]. split; [reflexivity|]. split; [exact N2|].
  rewrite V2. unfold V in V1. inversion V1 as [[H1 H2 H3]]. rewrite H1, H2, H3. reflexivity.
Qed.

Lemma J_bump s : J s bump (fun _ s' => frames s' <> [] /\ V s' = V s).
Proof.
  apply J_state. intros Hne r s' H. apply bump_eq in H as [-> _].
  destruct (V_inc s Hne) as [N1 V1]. repeat split; assumption.
Qed.

Lemma J_emit s i :
  J s (emit i) (fun _ s' => frames s' <> [] /\ V s' = (Ctx s ++ [i], Tabs s, RInner s)).
Proof.
  apply J_state. intros Hne r s' H. apply emit_eq in H as ->.
  destruct (V_emit i s Hne) as [N1 V1]. repeat split; assumption.
Qed.

Lemma J_emit_kid s k i :
  J s (emit_kid k i) (fun _ s' => frames s' <> [] /\ V s' = (Ctx s ++ [i], Tabs s, RInner s)).
Proof.
  apply J_state. intros Hne r s' H. apply emit_kid_eq in H as ->.
  destruct (V_kid k i s Hne) as [N0 V0]. destruct (V_emit i (st_kid k i s) N0) as [N1 V1].
  split; [exact N1|]. split; [reflexivity|]. split; [exact N1|].
  rewrite V1. unfold V in V0. inversion V0 as [[H1 H2 H3]]. rewrite H1, H2, H3. reflexivity.
Qed.

Lemma J_set_inner s n :
  J s (set_inner_name n)
    (fun _ s' => frames s' <> [] /\ V s' = (Ctx s, Tabs s, sadd n (RInner s))).
Proof.
  apply J_state. intros Hne r s' H. apply set_inner_name_eq in H as ->.
  destruct (V_inner n s Hne) as [N1 V1]. repeat split; assumption.
Qed.

Lemma J_set_label s n : J s (set_label_name n) (fun _ s' => frames s' <> [] /\ V s' = V s).
Proof.
  apply J_state. intros Hne r s' H. apply set_label_name_eq in H as ->.
  destruct (V_label n s Hne) as [N1 V1]. repeat split; assumption.
Qed.

Lemma J_set_return s : J s set_return (fun _ s' => frames s' <> [] /\ V s' = V s).
Proof.
  apply J_state. intros Hne r s' H. apply set_return_eq in H as ->.
  destruct (V_return s Hne) as [N1 V1]. repeat split; assumption.
Qed.

Lemma J_insert_value s x v :
  J s (insert_value x v)
    (fun _ s' => frames s' <> [] /\
                 V s' = (Ctx s, match Tabs s with t :: r => ainsert x v t :: r | [] => [] end,
                         RInner s)).
Proof.
  apply J_state. intros Hne r s' H. apply insert_value_eq in H as ->.
  destruct (V_value x v s Hne) as [N1 V1]. repeat split; assumption.
Qed.

Lemma J_push s :
  J s push_child (fun _ s' => frames s' <> [] /\ V s' = (Ctx s, [] :: Tabs s, RInner s)).
Proof.
  apply J_state. intros Hne r s' H. apply push_child_eq in H as ->.
  destruct (V_push s Hne) as [N1 V1]. repeat split; assumption.
Qed.

Lemma J_pop s :
  J s pop_child (fun _ s' => frames s' <> [] /\ V s' = (Ctx s, tl (Tabs s), RInner s)).
Proof.
  apply J_state. intros Hne k s' H. apply pop_child_eq in H as (c & p & r & Hf & -> & _).
  split; [discriminate|]. split; [reflexivity|]. split; [discriminate|]. apply V_pop, Hf.
Qed.

Lemma J_next_inner s fuel n :
  J s (next_inner_name fuel n) (fun a s' => s' = s /\ smem a (RInner s) = false).
Proof.
  apply J_state. intros Hne a s' H. apply next_inner_name_spec in H as [-> H].
  split; [exact Hne|]. split; [reflexivity|]. split; [reflexivity|].
  apply inner_exists_root; assumption.
Qed.

(** ** Computations that keep the relation *)
Definition K {A} (s : bst) (m : M A) : Prop := J s m (fun _ s' => Keeps s s').

Lemma K_ret {A} s (a : A) : K s (ret a).
Proof. apply J_ret, Keeps_refl. Qed.
Lemma K_panic {A} s k : K s (@panic A k).
Proof. apply J_panic. Qed.
Lemma K_oof {A} s : K s (@out_of_fuel A).
Proof. apply J_oof. Qed.

Lemma K_bind {A B} s (m : M A) (f : A -> M B) :
  K s m -> (forall a s1, K s1 (f a)) -> K s (bind m f).
Proof.
  intros Hm Hf. eapply J_bind; [exact Hm|]. intros a s1 _.
  eapply J_conseq; [apply Hf|]. intros b s' H2 H1. eapply Keeps_trans; eassumption.
Qed.

Lemma K_gets_bind {A B} s (g : list block -> A) (f : A -> M B) :
  K s (f (g (frames s))) -> K s (bind (gets g) f).
Proof. apply J_gets_bind. Qed.
Lemma K_gets {A} s (g : list block -> A) : K s (gets g).
Proof. apply J_gets, Keeps_refl. Qed.
Lemma K_err s e : K s (add_error e).
Proof. apply J_err. Qed.
Lemma K_when s c m : K s m -> K s (when c m).
Proof. intro H. destruct c; [exact H | apply K_ret]. Qed.

Lemma K_of_V {A} s (m : M A) :
  J s m (fun _ s' => frames s' <> [] /\ V s' = V s) -> K s m.
Proof. intro H. eapply J_conseq; [exact H|]. intros a s' [N HV]. apply Keeps_V; assumption. Qed.

Lemma K_bump s : K s bump.
Proof. apply K_of_V, J_bump. Qed.
Lemma K_set_label s n : K s (set_label_name n).
Proof. apply K_of_V, J_set_label. Qed.
Lemma K_set_return s : K s set_return.
Proof. apply K_of_V, J_set_return. Qed.

Lemma K_emit s i : silent i -> K s (emit i).
Proof.
  intro Hs. eapply J_conseq; [apply J_emit|]. intros a s' [N HV]. eapply Keeps_silent; eassumption.
Qed.
Lemma K_emit_kid s k i : silent i -> K s (emit_kid k i).
Proof.
  intro Hs. eapply J_conseq; [apply J_emit_kid|]. intros a s' [N HV].
  eapply Keeps_silent; eassumption.
Qed.
Lemma K_alloc s mk : (forall r, silent (mk r)) -> K s (alloc_emit mk).
Proof.
  intro Hs. eapply J_conseq; [apply J_alloc|]. intros a s' [N HV].
  eapply Keeps_silent; [eassumption | eassumption | apply Hs].
Qed.

Lemma K_label_probe fuel : forall n s, K s (label_probe fuel n).
Proof.
  induction fuel as [|f IH]; intros n s Hne a s' H; cbn [label_probe] in H; [discriminate|].
  destruct (set_attr_counter n) as [n'|]; [|discriminate].
  destruct (label_exists n' (frames s)); [eapply IH; eassumption|].
  revert a s' H. apply (K_bind s (set_label_name n') (fun _ => ret n'));
    [apply K_set_label | | exact Hne].
  intros. apply K_ret.
Qed.

Lemma K_gen_label s base : K s (gen_label base).
Proof.
  unfold gen_label. apply K_gets_bind. destruct (label_exists base (frames s)).
  - apply K_gets_bind. apply K_label_probe.
  - apply K_bind; [apply K_set_label|]. intros. apply K_ret.
Qed.

Ltac k_go :=
  repeat first
    [ apply K_ret | apply K_panic | apply K_oof | apply K_gets | apply K_err
    | match goal with H : _ |- K _ _ => solve [apply H] end
    | apply K_emit; exact I
    | apply K_emit_kid; exact I
    | apply K_alloc; intro; exact I
    | apply K_gen_label | apply K_bump | apply K_set_label | apply K_set_return
    | apply K_when
    | apply K_gets_bind
    | apply K_bind; [| intros ? ?]
    | match goal with |- K _ (match ?x with _ => _ end) => destruct x end
    | progress cbv zeta ].

Section Body.
  Variable GL : globals.

  Lemma K_check_type_exists s t v l : K s (check_type_exists GL t v l).
  Proof. unfold check_type_exists. k_go. Qed.

  Lemma K_check_return_type RT er s : K s (check_return_type RT er).
  Proof. unfold check_return_type. k_go. Qed.

  Lemma K_code_after_errors k fl s : K s (code_after_errors k fl).
  Proof. unfold code_after_errors. k_go. Qed.
End Body.

(** dead ends: an error is added and the computation goes on *)
Lemma J_dead {A} s e (k : M A) (Q : A -> bst -> Prop) :
  (forall s1, J s1 k (fun _ _ => True)) -> J s (add_error e ;;; k) Q.
Proof.
  intro Hk. eapply J_bind; [apply (J_err s e (fun _ _ => False))|]. intros a s1 _.
  eapply J_conseq; [apply Hk|]. intros b s' _ [].
Qed.

Lemma J_dead_ret {A} s e (a : A) (Q : A -> bst -> Prop) : J s (add_error e ;;; ret a) Q.
Proof. apply J_dead. intro. apply J_ret. exact I. Qed.

Lemma J_true_of_K {A} s (m : M A) : K s m -> J s m (fun _ _ => True).
Proof. intro H. eapply J_conseq; [exact H|]. trivial. Qed.
