(** The monitor of C04 decides exactly the reading of [Spec/Readings04.v].

    - [inst m E]: the monitor's register table [m] (in which an extension register nobody has
      named yet is [KUnk]) is instantiated by the environment [E] of the reading (in which every
      extension register has the type chosen by rule [T_extension]): same registers in the same
      order, the same information, some type in the place of every [KUnk].
    - [chk_operand_sound] / [chk_operand_complete]: one operand;
    - [scan_sound]: what the monitor accepts from the table [m] is typed under SOME instance of
      [m]; [scan_complete]: what is typed under an instance of [m] is accepted from [m];
    - [chk_C04_reading]: the equivalence for programs. *)
From SA Require Import Model.
From SA.Spec Require Import Tables Readings04.
From SA.Mon Require Import C04.
From SA.Proofs Require Import TypedMon.
Local Open Scope list_scope.

(** ** Instances of a register table *)
Definition inst_entry (a : N * (rkind * bool)) (b : N * rinfo) : Prop :=
  fst a = fst b /\
  match snd a with
  | (KTy t, f) => snd b = Produced t f
  | (KCond, _) => snd b = Condition
  | (KUnk, f) => f = false /\ exists t, snd b = Produced t false
  end.

Definition inst (m : regmap) (E : renv) : Prop := Forall2 inst_entry m E.

Lemma inst_nil_l E : inst [] E <-> E = [].
Proof. split; [intro H; inversion H; reflexivity | intros ->; constructor]. Qed.

Lemma inst_cons_ty r t f m E : inst m E -> inst ((r, (KTy t, f)) :: m) ((r, Produced t f) :: E).
Proof. intro H. constructor; [split; reflexivity | exact H]. Qed.

Lemma inst_cons_cond r f m E : inst m E -> inst ((r, (KCond, f)) :: m) ((r, Condition) :: E).
Proof. intro H. constructor; [split; reflexivity | exact H]. Qed.

Lemma inst_cons_unk r t m E :
  inst m E -> inst ((r, (KUnk, false)) :: m) ((r, Produced t false) :: E).
Proof.
  intro H. constructor; [split; [reflexivity | split; [reflexivity | exists t; reflexivity]] | exact H].
Qed.

Lemma inst_cons_ty_inv r t f m E' :
  inst ((r, (KTy t, f)) :: m) E' -> exists E, E' = (r, Produced t f) :: E /\ inst m E.
Proof.
  intro H. inversion H as [|a [k x] m0 E Ha Hm]; subst. destruct Ha as [H1 H2]. cbn in H1, H2.
  subst. exists E. split; [reflexivity | exact Hm].
Qed.

Lemma inst_cons_cond_inv r f m E' :
  inst ((r, (KCond, f)) :: m) E' -> exists E, E' = (r, Condition) :: E /\ inst m E.
Proof.
  intro H. inversion H as [|a [k x] m0 E Ha Hm]; subst. destruct Ha as [H1 H2]. cbn in H1, H2.
  subst. exists E. split; [reflexivity | exact Hm].
Qed.

Lemma inst_cons_unk_inv r f m E' :
  inst ((r, (KUnk, f)) :: m) E' ->
  f = false /\ exists t E, E' = (r, Produced t false) :: E /\ inst m E.
Proof.
  intro H. inversion H as [|a [k x] m0 E Ha Hm]; subst. destruct Ha as [H1 [Hf [t H2]]].
  cbn in H1, H2. subst. split; [reflexivity|]. exists t, E. split; [reflexivity | exact Hm].
Qed.

(** what a table says about a register, read in an instance *)
Definition find_inst (o : option (rkind * bool)) (o' : option rinfo) : Prop :=
  match o with
  | None => o' = None
  | Some (KTy t, f) => o' = Some (Produced t f)
  | Some (KCond, _) => o' = Some Condition
  | Some (KUnk, f) => f = false /\ exists t, o' = Some (Produced t false)
  end.

Lemma inst_find n : forall m E, inst m E -> find_inst (reg_find n m) (produced n E).
Proof.
  induction 1 as [|[k [x f]] [k' y] m E [Hk Hx] _ IH]; [reflexivity|].
  cbn [fst snd] in Hk, Hx. subst k'. cbn [reg_find produced].
  destruct (N.eqb n k); [|exact IH].
  destruct x as [t| |]; cbn [find_inst].
  - rewrite Hx. reflexivity.
  - rewrite Hx. reflexivity.
  - destruct Hx as [Hf [t ->]]. split; [exact Hf|]. exists t. reflexivity.
Qed.

(** fixing the type of an unnamed extension register to the type the instance has for it *)
Lemma inst_fix n t : forall m E,
  reg_find n m = Some (KUnk, false) -> produced n E = Some (Produced t false) ->
  (inst (reg_fix n t m) E <-> inst m E).
Proof.
  induction m as [|[k [x f]] m IH]; intros E Hf Hp; [discriminate Hf|].
  cbn [reg_find reg_fix] in *. destruct (N.eqb n k) eqn:En.
  - inversion Hf; subst x f. clear Hf. split; intro H.
    + apply inst_cons_ty_inv in H as (E0 & HE & Hm). subst E.
      apply inst_cons_unk. exact Hm.
    + apply inst_cons_unk_inv in H as (Hb & t' & E0 & HE & Hm). subst E.
      cbn [produced] in Hp. rewrite En in Hp. inversion Hp; subst t'.
      apply inst_cons_ty. exact Hm.
  - split; intro H; inversion H as [|? [k' y] ? E0 Ha Hm]; subst;
      pose proof Ha as [Hk _]; cbn [fst] in Hk; subst k';
      cbn [produced] in Hp; rewrite En in Hp;
      (constructor; [exact Ha|]); eapply (IH E0 Hf Hp); exact Hm.
Qed.

(** The monitor never flags an extension register nobody has named ([IExt] pushes
    [(KUnk, false)]); the soundness direction needs it of the tables it starts from. *)
Definition wf_tab (m : regmap) : Prop :=
  Forall (fun a : N * (rkind * bool) => fst (snd a) = KUnk -> snd (snd a) = false) m.

Lemma wf_tab_nil : wf_tab [].
Proof. constructor. Qed.

Lemma wf_tab_cons r x m : wf_tab m -> (x = KUnk -> False) -> wf_tab ((r, (x, true)) :: m).
Proof. intros H Hx. constructor; [cbn; intro E; contradiction | exact H]. Qed.

Lemma wf_tab_cons_false r x m : wf_tab m -> wf_tab ((r, (x, false)) :: m).
Proof. intros H. constructor; [cbn; reflexivity | exact H]. Qed.

Lemma wf_tab_find n : forall m b, wf_tab m -> reg_find n m = Some (KUnk, b) -> b = false.
Proof.
  induction m as [|[k [x f]] m IH]; intros b Hw Hf; [discriminate Hf|].
  inversion Hw as [|? ? Ha Hw']; subst. cbn [reg_find] in Hf. destruct (N.eqb n k).
  - inversion Hf; subst. apply Ha. reflexivity.
  - eapply IH; eassumption.
Qed.

Lemma wf_tab_fix n t : forall m, wf_tab m -> wf_tab (reg_fix n t m).
Proof.
  induction m as [|[k [x f]] m IH]; intro Hw; [constructor|].
  inversion Hw as [|? ? Ha Hw']; subst. cbn [reg_fix]. destruct (N.eqb n k).
  - constructor; [cbn; discriminate | exact Hw'].
  - constructor; [exact Ha | apply IH, Hw'].
Qed.

Lemma chk_operand_wf m e m' : chk_operand m e = Some m' -> wf_tab m -> wf_tab m'.
Proof.
  unfold chk_operand. intros Hc Hw. destruct (r_val e) as [n|p].
  - destruct (reg_find n m) as [[[t| |] b]|].
    + destruct (sem_ty_eqb (r_ty e) t); inversion Hc; subst; exact Hw.
    + discriminate Hc.
    + inversion Hc; subst. apply wf_tab_fix, Hw.
    + destruct (N.eqb n 0); [discriminate Hc|].
      destruct (reg_find (n - 1) m) as [[[t| |] [|]]|]; try discriminate Hc.
      destruct (sem_ty_eqb (r_ty e) t); inversion Hc; subst; exact Hw.
  - destruct (sem_ty_eqb (r_ty e) (SPrim (pv_ty p))); inversion Hc; subst; exact Hw.
Qed.

(** ** One operand *)
Lemma chk_operand_sound m e m' E :
  wf_tab m -> chk_operand m e = Some m' -> inst m' E -> inst m E /\ operand_ok E e.
Proof.
  unfold chk_operand. intros Hw Hc Hi. destruct (r_val e) as [n|p] eqn:Ev.
  - destruct (reg_find n m) as [[[t| |] b]|] eqn:Ef.
    + destruct (sem_ty_eqb (r_ty e) t) eqn:Et; [|discriminate Hc]. inversion Hc; subst m'.
      apply sem_ty_eqb_eq in Et. subst t. split; [exact Hi|].
      pose proof (inst_find n m E Hi) as Hp. rewrite Ef in Hp. cbn in Hp.
      eapply O_register; eassumption.
    + discriminate Hc.
    + inversion Hc; subst m'. clear Hc.
      pose proof (wf_tab_find _ _ _ Hw Ef). subst b.
      assert (Hp : produced n E = Some (Produced (r_ty e) false)).
      { pose proof (inst_find n _ E Hi) as Hp. rewrite reg_find_fix, N.eqb_refl, Ef in Hp.
        exact Hp. }
      split; [eapply inst_fix; eassumption | eapply O_register; eassumption].
    + destruct (N.eqb_spec n 0) as [E0|E0]; [discriminate Hc|].
      destruct (reg_find (n - 1) m) as [[[t| |] [|]]|] eqn:Ef1; try discriminate Hc.
      destruct (sem_ty_eqb (r_ty e) t) eqn:Et; [|discriminate Hc]. inversion Hc; subst m'.
      apply sem_ty_eqb_eq in Et. subst t. split; [exact Hi|].
      pose proof (inst_find n m E Hi) as Hp. rewrite Ef in Hp. cbn in Hp.
      pose proof (inst_find (n - 1) m E Hi) as Hp1. rewrite Ef1 in Hp1. cbn in Hp1.
      eapply O_after_call_or_field; eassumption.
  - destruct (sem_ty_eqb (r_ty e) (SPrim (pv_ty p))) eqn:Et; [|discriminate Hc].
    inversion Hc; subst m'. apply sem_ty_eqb_eq in Et. split; [exact Hi|].
    eapply O_literal; eassumption.
Qed.

Lemma chk_operand_complete m e E :
  operand_ok E e -> inst m E -> exists m', chk_operand m e = Some m' /\ inst m' E.
Proof.
  intros Ho Hi. unfold chk_operand. destruct Ho as [p Ev Et | n b Ev Hp | n Ev Hp Hn Hp1]; rewrite Ev.
  - rewrite Et, sem_ty_eqb_refl. exists m. split; [reflexivity | exact Hi].
  - pose proof (inst_find n m E Hi) as Hf. rewrite Hp in Hf.
    destruct (reg_find n m) as [[[t| |] f]|] eqn:Ef; cbn in Hf.
    + inversion Hf; subst. rewrite sem_ty_eqb_refl. exists m. split; [reflexivity | exact Hi].
    + discriminate Hf.
    + destruct Hf as [-> [t Hf]]. inversion Hf; subst t b.
      exists (reg_fix n (r_ty e) m). split; [reflexivity|]. eapply inst_fix; eassumption.
    + discriminate Hf.
  - pose proof (inst_find n m E Hi) as Hf. rewrite Hp in Hf.
    destruct (reg_find n m) as [[[t| |] f]|] eqn:Ef; cbn in Hf;
      try discriminate Hf;
      try (match type of Hf with _ /\ _ => destruct Hf as [_ [t Hf]]; discriminate Hf end).
    destruct (N.eqb_spec n 0) as [E0|_]; [contradiction|].
    pose proof (inst_find (n - 1) m E Hi) as Hf1. rewrite Hp1 in Hf1.
    destruct (reg_find (n - 1) m) as [[[t| |] f]|] eqn:Ef1; cbn in Hf1;
      try discriminate Hf1.
    + inversion Hf1; subst t f. rewrite sem_ty_eqb_refl. exists m. split; [reflexivity | exact Hi].
    + (* an extension register nobody has named is never flagged *)
      destruct Hf1 as [_ [t Hf1]]. discriminate Hf1.
Qed.

(** ** Lists of operands *)
Lemma chk_operands_wf : forall l m m', chk_operands m l = Some m' -> wf_tab m -> wf_tab m'.
Proof.
  induction l as [|e l IH]; intros m m' Hc Hw; cbn [chk_operands] in Hc.
  - inversion Hc; subst; exact Hw.
  - destruct (chk_operand m e) as [m1|] eqn:E1; [|discriminate Hc].
    eapply IH; [exact Hc | eapply chk_operand_wf; eassumption].
Qed.

Lemma chk_operands_sound E : forall l m m',
  wf_tab m -> chk_operands m l = Some m' -> inst m' E -> inst m E /\ Forall (operand_ok E) l.
Proof.
  induction l as [|e l IH]; intros m m' Hw Hc Hi; cbn [chk_operands] in Hc.
  - inversion Hc; subst. split; [exact Hi | constructor].
  - destruct (chk_operand m e) as [m1|] eqn:E1; [|discriminate Hc].
    destruct (IH m1 m' (chk_operand_wf _ _ _ E1 Hw) Hc Hi) as [Hi1 Hl].
    destruct (chk_operand_sound m e m1 E Hw E1 Hi1) as [Hi0 He].
    split; [exact Hi0 | constructor; assumption].
Qed.

Lemma chk_operands_complete E : forall l m,
  Forall (operand_ok E) l -> inst m E -> exists m', chk_operands m l = Some m' /\ inst m' E.
Proof.
  induction l as [|e l IH]; intros m Hl Hi.
  - exists m. split; [reflexivity | exact Hi].
  - inversion Hl as [|? ? He Hl']; subst.
    destruct (chk_operand_complete m e E He Hi) as (m1 & E1 & Hi1).
    destruct (IH m1 Hl' Hi1) as (m2 & E2 & Hi2).
    exists m2. split; [cbn [chk_operands]; rewrite E1; exact E2 | exact Hi2].
Qed.

(** ** The small clauses *)
Lemma value_eqb_eq a b : value_eqb a b = true <-> a = b.
Proof.
  destruct a as [n t u], b as [n' t' u']. unfold value_eqb. cbn.
  rewrite !Bool.andb_true_iff, String.eqb_eq, sem_ty_eqb_eq, Bool.eqb_true_iff. split.
  - intros [[H1 H2] H3]; subst; reflexivity.
  - intro H; inversion H; repeat split; reflexivity.
Qed.

Lemma declared_iff vs v : declared vs v = true <-> declared_as vs v.
Proof.
  unfold declared, declared_as. destruct (alookup (v_inner v) vs) as [d|].
  - rewrite value_eqb_eq. split; [intros ->; reflexivity | intro H; inversion H; reflexivity].
  - split; discriminate.
Qed.

Lemma attr_at_eq idx l : attr_ty_at idx l = attr_at idx l.
Proof. induction l as [|[[x i] t] l IH]; cbn; [reflexivity | rewrite IH; reflexivity]. Qed.

Lemma field_ty_iff t idx u : field_ty t idx = Some u <-> field_has_ty t idx u.
Proof.
  split.
  - destruct t as [p|n attrs|t' k]; cbn; try discriminate. rewrite attr_at_eq. apply Field_of_struct.
  - intros [n attrs i u' H]. cbn. rewrite attr_at_eq. exact H.
Qed.

Lemma is_prim_iff t : is_prim t = true <-> primitive t.
Proof.
  unfold primitive. destruct t; cbn; split; intro H; try discriminate H; try reflexivity.
  - eexists; reflexivity.
  - destruct H as [? H]; discriminate H.
  - destruct H as [? H]; discriminate H.
Qed.

Lemma is_cond_reg_iff m E n : inst m E -> (is_cond_reg m n = true <-> produced n E = Some Condition).
Proof.
  intro Hi. unfold is_cond_reg. pose proof (inst_find n m E Hi) as Hf.
  destruct (reg_find n m) as [[[t| |] f]|]; cbn in Hf.
  - rewrite Hf. split; discriminate.
  - rewrite Hf. split; reflexivity.
  - destruct Hf as [_ [t ->]]. split; discriminate.
  - rewrite Hf. split; discriminate.
Qed.

Lemma tys_Forall2 : forall (args : list eres) (ps : list sem_ty),
  map r_ty args = ps <-> Forall2 (fun a t => r_ty a = t) args ps.
Proof.
  induction args as [|a args IH]; intros [|t ps]; cbn; split; intro H;
    try discriminate H; try (inversion H; fail); try constructor.
  - inversion H; reflexivity.
  - apply IH. inversion H; reflexivity.
  - inversion H as [|? ? ? ? H1 H2]; subst. f_equal. apply IH. exact H2.
Qed.

Lemma chk_call_iff G f args :
  chk_call G f args = true <->
  alookup (f_name f) (g_funcs G) = Some f /\ length args = length (f_params f) /\
  Forall2 (fun a t => r_ty a = t) args (f_params f).
Proof.
  unfold chk_call. destruct (alookup (f_name f) (g_funcs G)) as [fd|].
  - rewrite !Bool.andb_true_iff, func_sem_eqb_eq, Nat.eqb_eq. unfold tys_eqb.
    rewrite (list_eqb_eq _ sem_ty_eqb_eq), tys_Forall2. split.
    + intros [[H1 H2] H3]. subst fd. repeat split; assumption.
    + intros [H1 [H2 H3]]. inversion H1; subst. repeat split; assumption.
  - split; [discriminate | intros [H _]; discriminate H].
Qed.

Lemma chk_const_iff G k : chk_const G k = true <-> alookup (c_name k) (g_consts G) = Some k.
Proof.
  unfold chk_const. destruct (alookup (c_name k) (g_consts G)) as [d|].
  - rewrite const_sem_eqb_eq. split; [intros ->; reflexivity | intro H; inversion H; reflexivity].
  - split; discriminate.
Qed.

(** ** The scan *)
Ltac and_true H :=
  repeat match type of H with
         | (_ && _)%bool = true =>
             let H1 := fresh "Hb" in apply Bool.andb_true_iff in H as [H H1]; and_true H1
         end.

(** what the monitor accepts from [m] is typed under some instance of [m] *)
Lemma scan_sound G RT : forall c m vs ps,
  wf_tab m -> scan_C04 G RT c m vs ps = true -> exists E, inst m E /\ Typed G RT E vs ps c.
Proof.
  induction c as [|i c IH]; intros m vs ps Hw H.
  - cbn in H. destruct ps; [|discriminate H].
    assert (Hex : exists E, inst m E).
    { clear H. induction Hw as [|[k [x f]] m Ha _ [E HE]]; [exists []; constructor|].
      destruct x as [t| |].
      - exists ((k, Produced t f) :: E). apply inst_cons_ty, HE.
      - exists ((k, Condition) :: E). apply inst_cons_cond, HE.
      - cbn in Ha. rewrite (Ha eq_refl). exists ((k, Produced (SPrim PNone) false) :: E).
        apply inst_cons_unk, HE. }
    destruct Hex as [E HE]. exists E. split; [exact HE | apply T_end].
  - cbn [scan_C04] in H. destruct i.
    + (* IExprValue *)
      and_true H. apply IH in Hb; [|apply wf_tab_cons_false, Hw].
      destruct Hb as (E' & Hi & Ht). apply inst_cons_ty_inv in Hi as (E & -> & Hi).
      exists E. split; [exact Hi|]. apply T_value; [apply declared_iff, H | exact Ht].
    + (* IExprConst *)
      and_true H. apply IH in Hb; [|apply wf_tab_cons_false, Hw].
      destruct Hb as (E' & Hi & Ht). apply inst_cons_ty_inv in Hi as (E & -> & Hi).
      exists E. split; [exact Hi|]. apply T_const; [apply chk_const_iff, H | exact Ht].
    + (* IExprStruct *)
      and_true H. destruct (field_ty (v_ty v) idx) as [t|] eqn:Ef; [|discriminate Hb].
      apply IH in Hb; [|apply wf_tab_cons; [exact Hw | discriminate]].
      destruct Hb as (E' & Hi & Ht). apply inst_cons_ty_inv in Hi as (E & -> & Hi).
      exists E. split; [exact Hi|].
      eapply T_field; [apply declared_iff, H | apply field_ty_iff, Ef | exact Ht].
    + (* IExprOp *)
      destruct (chk_operands m [l; r]) as [m'|] eqn:Eo; [|discriminate H]. and_true H.
      apply IH in Hb; [|apply wf_tab_cons_false; eapply chk_operands_wf; eassumption].
      destruct Hb as (E' & Hi & Ht). apply inst_cons_ty_inv in Hi as (E & -> & Hi).
      destruct (chk_operands_sound E _ _ _ Hw Eo Hi) as [Hi0 Hl].
      inversion Hl as [|? ? Hl1 Hl2]; subst. inversion Hl2 as [|? ? Hl3 _]; subst.
      exists E. split; [exact Hi0|].
      apply T_operation; [exact Hl1 | exact Hl3 | apply sem_ty_eqb_eq, H | exact Ht].
    + (* ICall *)
      destruct (chk_operands m args) as [m'|] eqn:Eo; [|discriminate H]. and_true H.
      apply IH in Hb; [|apply wf_tab_cons; [eapply chk_operands_wf; eassumption | discriminate]].
      destruct Hb as (E' & Hi & Ht). apply inst_cons_ty_inv in Hi as (E & -> & Hi).
      destruct (chk_operands_sound E _ _ _ Hw Eo Hi) as [Hi0 Hl].
      apply chk_call_iff in H as (H1 & H2 & H3).
      exists E. split; [exact Hi0|]. apply T_call; assumption.
    + (* ILet *)
      destruct (chk_operand m e) as [m'|] eqn:Eo; [|discriminate H]. and_true H.
      apply IH in Hb; [|eapply chk_operand_wf; eassumption].
      destruct Hb as (E & Hi & Ht). destruct (chk_operand_sound _ _ _ E Hw Eo Hi) as [Hi0 He].
      exists E. split; [exact Hi0|]. apply T_let; [exact He | apply sem_ty_eqb_eq, H | exact Ht].
    + (* IBind *)
      destruct (chk_operand m e) as [m'|] eqn:Eo; [|discriminate H]. and_true H.
      apply IH in Hb; [|eapply chk_operand_wf; eassumption].
      destruct Hb as (E & Hi & Ht). destruct (chk_operand_sound _ _ _ E Hw Eo Hi) as [Hi0 He].
      exists E. split; [exact Hi0|].
      apply T_assign; [exact He | apply declared_iff, H | exact Hb1 | apply sem_ty_eqb_eq, Hb0 | exact Ht].
    + (* IFnRet *)
      destruct (chk_operand m e) as [m'|] eqn:Eo; [|discriminate H]. and_true H.
      apply IH in Hb; [|eapply chk_operand_wf; eassumption].
      destruct Hb as (E & Hi & Ht). destruct (chk_operand_sound _ _ _ E Hw Eo Hi) as [Hi0 He].
      exists E. split; [exact Hi0|]. apply T_return; [exact He | apply sem_ty_eqb_eq, H | exact Ht].
    + (* IFnRetLabel *)
      destruct (chk_operand m e) as [m'|] eqn:Eo; [|discriminate H]. and_true H.
      apply IH in Hb; [|eapply chk_operand_wf; eassumption].
      destruct Hb as (E & Hi & Ht). destruct (chk_operand_sound _ _ _ E Hw Eo Hi) as [Hi0 He].
      exists E. split; [exact Hi0|].
      apply T_return_label; [exact He | apply sem_ty_eqb_eq, H | exact Ht].
    + (* ISetLabel *)
      apply IH in H; [|exact Hw]. destruct H as (E & Hi & Ht).
      exists E. split; [exact Hi | apply T_set_label, Ht].
    + (* IJumpTo *)
      apply IH in H; [|exact Hw]. destruct H as (E & Hi & Ht).
      exists E. split; [exact Hi | apply T_jump, Ht].
    + (* IIfCondExpr *)
      destruct (chk_operand m e) as [m'|] eqn:Eo; [|discriminate H].
      apply IH in H; [|eapply chk_operand_wf; eassumption].
      destruct H as (E & Hi & Ht). destruct (chk_operand_sound _ _ _ E Hw Eo Hi) as [Hi0 He].
      exists E. split; [exact Hi0|]. apply T_if_expression; assumption.
    + (* ICondExpr *)
      destruct (chk_operands m [l; r]) as [m'|] eqn:Eo; [|discriminate H]. and_true H.
      apply IH in Hb; [|apply wf_tab_cons_false; eapply chk_operands_wf; eassumption].
      destruct Hb as (E' & Hi & Ht). apply inst_cons_cond_inv in Hi as (E & -> & Hi).
      destruct (chk_operands_sound E _ _ _ Hw Eo Hi) as [Hi0 Hl].
      inversion Hl as [|? ? Hl1 Hl2]; subst. inversion Hl2 as [|? ? Hl3 _]; subst.
      exists E. split; [exact Hi0|].
      apply T_comparison;
        [exact Hl1 | exact Hl3 | apply sem_ty_eqb_eq, H | apply is_prim_iff, Hb0 | exact Ht].
    + (* IJumpFnRet *)
      destruct (chk_operand m e) as [m'|] eqn:Eo; [|discriminate H]. and_true H.
      apply IH in Hb; [|eapply chk_operand_wf; eassumption].
      destruct Hb as (E & Hi & Ht). destruct (chk_operand_sound _ _ _ E Hw Eo Hi) as [Hi0 He].
      exists E. split; [exact Hi0|].
      apply T_jump_return; [exact He | apply sem_ty_eqb_eq, H | exact Ht].
    + (* ILogic *)
      and_true H. apply IH in Hb; [|apply wf_tab_cons_false, Hw].
      destruct Hb as (E' & Hi & Ht). apply inst_cons_cond_inv in Hi as (E & -> & Hi).
      exists E. split; [exact Hi|].
      apply T_logic; [apply (is_cond_reg_iff m E _ Hi), H | apply (is_cond_reg_iff m E _ Hi), Hb0 | exact Ht].
    + (* IIfCondLogic *)
      and_true H. apply IH in Hb; [|exact Hw]. destruct Hb as (E & Hi & Ht).
      exists E. split; [exact Hi|].
      apply T_if_logic; [apply (is_cond_reg_iff m E _ Hi), H | exact Ht].
    + (* IFnArg *)
      destruct ps as [|[x t] ps']; [discriminate H|]. and_true H.
      apply IH in Hb; [|exact Hw]. destruct Hb as (E & Hi & Ht).
      exists E. split; [exact Hi|].
      apply T_argument;
        [apply String.eqb_eq, H | apply sem_ty_eqb_eq, Hb2 | apply sem_ty_eqb_eq, Hb1
         | apply Bool.negb_true_iff, Hb0 | exact Ht].
    + (* IExt *)
      apply IH in H; [|apply wf_tab_cons_false, Hw]. destruct H as (E' & Hi & Ht).
      apply inst_cons_unk_inv in Hi as (_ & t & E & -> & Hi).
      exists E. split; [exact Hi|]. eapply T_extension. exact Ht.
Qed.

(** what is typed under an instance of [m] is accepted from [m] *)
Lemma scan_complete G RT : forall E vs ps c,
  Typed G RT E vs ps c -> forall m, inst m E -> scan_C04 G RT c m vs ps = true.
Proof.
  induction 1 as
    [E VS
    |E VS PS v r c Hd _ IH
    |E VS PS k r c Hk _ IH
    |E VS PS v idx t r c Hd Hf _ IH
    |E VS PS op l r reg c Hl Hr Ht _ IH
    |E VS PS f args r c Ha Hf Hn Hts _ IH
    |E VS PS v e c He Ht _ IH
    |E VS PS v e c He Hd Hm Ht _ IH
    |E VS PS e c He Ht _ IH
    |E VS PS e c He Ht _ IH
    |E VS PS e c He Ht _ IH
    |E VS PS e l1 l2 c He _ IH
    |E VS PS l r cmp reg c Hl Hr Ht Hp _ IH
    |E VS PS op lreg rreg reg c Hl Hr _ IH
    |E VS PS l1 l2 reg c Hr _ IH
    |E VS PS x t v pname pty c Hn Hp Ht Hm _ IH
    |E VS PS tag r t c _ IH
    |E VS PS l c _ IH
    |E VS PS l c _ IH]; intros m Hi; cbn [scan_C04].
  - reflexivity.
  - apply declared_iff in Hd. rewrite Hd. cbn [andb]. apply IH, inst_cons_ty, Hi.
  - apply chk_const_iff in Hk. rewrite Hk. cbn [andb]. apply IH, inst_cons_ty, Hi.
  - apply declared_iff in Hd. apply field_ty_iff in Hf. rewrite Hd, Hf. cbn [andb].
    apply IH, inst_cons_ty, Hi.
  - destruct (chk_operands_complete E [l; r] m) as (m' & -> & Hi');
      [constructor; [exact Hl | constructor; [exact Hr | constructor]] | exact Hi |].
    rewrite Ht, sem_ty_eqb_refl. cbn [andb]. apply IH, inst_cons_ty, Hi'.
  - destruct (chk_operands_complete E args m Ha Hi) as (m' & -> & Hi').
    assert (Hc : chk_call G f args = true) by (apply chk_call_iff; repeat split; assumption).
    rewrite Hc. cbn [andb]. apply IH, inst_cons_ty, Hi'.
  - destruct (chk_operand_complete m e E He Hi) as (m' & -> & Hi').
    rewrite Ht, sem_ty_eqb_refl. cbn [andb]. apply IH, Hi'.
  - destruct (chk_operand_complete m e E He Hi) as (m' & -> & Hi').
    apply declared_iff in Hd. rewrite Hd, Hm, Ht, sem_ty_eqb_refl. cbn [andb]. apply IH, Hi'.
  - destruct (chk_operand_complete m e E He Hi) as (m' & -> & Hi').
    rewrite Ht, sem_ty_eqb_refl. cbn [andb]. apply IH, Hi'.
  - destruct (chk_operand_complete m e E He Hi) as (m' & -> & Hi').
    rewrite Ht, sem_ty_eqb_refl. cbn [andb]. apply IH, Hi'.
  - destruct (chk_operand_complete m e E He Hi) as (m' & -> & Hi').
    rewrite Ht, sem_ty_eqb_refl. cbn [andb]. apply IH, Hi'.
  - destruct (chk_operand_complete m e E He Hi) as (m' & -> & Hi'). apply IH, Hi'.
  - destruct (chk_operands_complete E [l; r] m) as (m' & -> & Hi');
      [constructor; [exact Hl | constructor; [exact Hr | constructor]] | exact Hi |].
    apply is_prim_iff in Hp. rewrite Hp, Ht, sem_ty_eqb_refl. cbn [andb].
    apply IH, inst_cons_cond, Hi'.
  - apply (is_cond_reg_iff m E _ Hi) in Hl. apply (is_cond_reg_iff m E _ Hi) in Hr.
    rewrite Hl, Hr. cbn [andb]. apply IH, inst_cons_cond, Hi.
  - apply (is_cond_reg_iff m E _ Hi) in Hr. rewrite Hr. cbn [andb]. apply IH, Hi.
  - subst pname pty. rewrite String.eqb_refl, Ht, sem_ty_eqb_refl, Hm. cbn [andb negb].
    apply IH, Hi.
  - apply IH, inst_cons_unk, Hi.
  - apply IH, Hi.
  - apply IH, Hi.
Qed.

(** ** Functions and programs *)
Lemma chk_C04_fn_reading G f root : chk_C04_fn G f root = true <-> fn_typed G f root.
Proof.
  unfold chk_C04_fn, fn_typed. split.
  - intro H. apply scan_sound in H; [|apply wf_tab_nil]. destruct H as (E & Hi & Ht).
    apply inst_nil_l in Hi. subst E. exact Ht.
  - intro H. eapply scan_complete; [exact H | constructor].
Qed.

Lemma chk_C04_fns_reading G : forall fs roots,
  chk_C04_fns G fs roots = true <-> Forall2 (fn_typed G) fs roots.
Proof.
  induction fs as [|f fs IH]; intros [|r roots]; cbn [chk_C04_fns].
  - split; [constructor | reflexivity].
  - split; [discriminate | intro H; inversion H].
  - split; [discriminate | intro H; inversion H].
  - rewrite Bool.andb_true_iff, chk_C04_fn_reading, IH. split.
    + intros [H1 H2]. constructor; assumption.
    + intro H. inversion H; subst. split; assumption.
Qed.

(** The monitor decides the reading. *)
Theorem chk_C04_reading (p : program) (o : output) : chk_C04 p o = true <-> C04_reading p o.
Proof.
  unfold chk_C04, C04_reading. destruct (o_errors o) as [|e es].
  - rewrite chk_C04_fns_reading. split; [intros H _; exact H | intro H; apply H; reflexivity].
  - split; [intros _ H; discriminate H | reflexivity].
Qed.

(** the judgement is decidable function by function, by running the monitor *)
Corollary fn_typed_dec G f root : {fn_typed G f root} + {~ fn_typed G f root}.
Proof.
  destruct (chk_C04_fn G f root) eqn:E.
  - left. apply chk_C04_fn_reading, E.
  - right. intro H. apply chk_C04_fn_reading in H. congruence.
Qed.
