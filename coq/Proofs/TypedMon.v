(** C04 (the emitted stack is well typed), part 1: the monitor of [Mon/C04.v] as a fold.

    - [step_i]: what one instruction does to the monitor's state (register table, declared
      values, source parameters not declared yet), [run_from]: the fold, [run_from_app];
      [scan_run]: [scan_C04] is "the fold succeeds and no source parameter is left".
      The flag [X] selects the arity clause of [Call]: [X = true] exact (the monitor),
      [X = false] "not more arguments than parameters" (what holds without [wf_b]: finding F2).
    - [op_ok m h e]: the operand [e] will pass [chk_operand] against the table [m] whose
      registers are [<= h]; [mods]: what checking operands may do to a table (fix the type of
      an extension register that is named for the first time); stability of [op_ok].
    Nothing here mentions the model. *)
From Coq Require Import Lia.
From SA Require Import Model.
From SA.Spec Require Import Stack Tables.
From SA.Mon Require Import C04.
Local Open Scope list_scope.

Definition mstate := (regmap * valmap * list (ident * ast_ty))%type.

Section Step.
  Variable X : bool.
  Variable G : globals.
  Variable RT : sem_ty.

  Definition chk_callx (f : func_sem) (args : list eres) : bool :=
    match alookup (f_name f) (g_funcs G) with
    | Some fd =>
        func_sem_eqb f fd &&
        (if X then Nat.eqb (length args) (length (f_params f)) else true) &&
        tys_eqb (map r_ty args) (firstn (length args) (f_params f))
    | None => false
    end.

  Definition step_i (i : instr) (st : mstate) : option mstate :=
    match st with
    | (m, vs, ps) =>
        match i with
        | IExprValue v r =>
            if declared vs v then Some ((r, (KTy (v_ty v), false)) :: m, vs, ps) else None
        | IExprConst cst r =>
            if chk_const G cst then Some ((r, (KTy (c_ty cst), false)) :: m, vs, ps) else None
        | IExprStruct v idx r =>
            if declared vs v then
              match field_ty (v_ty v) idx with
              | Some t => Some ((r, (KTy t, true)) :: m, vs, ps)
              | None => None
              end
            else None
        | IExprOp _ l r reg =>
            match chk_operands m [l; r] with
            | Some m' =>
                if sem_ty_eqb (r_ty l) (r_ty r)
                then Some ((reg, (KTy (r_ty r), false)) :: m', vs, ps) else None
            | None => None
            end
        | ICall f args r =>
            match chk_operands m args with
            | Some m' =>
                if chk_callx f args then Some ((r, (KTy (f_ty f), true)) :: m', vs, ps) else None
            | None => None
            end
        | ILet v e =>
            match chk_operand m e with
            | Some m' =>
                if sem_ty_eqb (v_ty v) (r_ty e) then Some (m', (v_inner v, v) :: vs, ps) else None
            | None => None
            end
        | IBind v e =>
            match chk_operand m e with
            | Some m' =>
                if declared vs v && v_mut v && sem_ty_eqb (v_ty v) (r_ty e)
                then Some (m', vs, ps) else None
            | None => None
            end
        | IFnRet e | IFnRetLabel e | IJumpFnRet e =>
            match chk_operand m e with
            | Some m' => if sem_ty_eqb (r_ty e) RT then Some (m', vs, ps) else None
            | None => None
            end
        | IIfCondExpr e _ _ =>
            match chk_operand m e with
            | Some m' => Some (m', vs, ps)
            | None => None
            end
        | ICondExpr l r _ reg =>
            match chk_operands m [l; r] with
            | Some m' =>
                if sem_ty_eqb (r_ty l) (r_ty r) && is_prim (r_ty l)
                then Some ((reg, (KCond, false)) :: m', vs, ps) else None
            | None => None
            end
        | ILogic _ lreg rreg reg =>
            if is_cond_reg m lreg && is_cond_reg m rreg
            then Some ((reg, (KCond, false)) :: m, vs, ps) else None
        | IIfCondLogic _ _ reg => if is_cond_reg m reg then Some (m, vs, ps) else None
        | IFnArg v pname pty =>
            match ps with
            | (x, t) :: ps' =>
                if String.eqb pname (iname x) && sem_ty_eqb pty (sem_of_ty t) &&
                   sem_ty_eqb (v_ty v) pty && negb (v_mut v)
                then Some (m, (v_inner v, v) :: vs, ps') else None
            | [] => None
            end
        | IExt _ r => Some ((r, (KUnk, false)) :: m, vs, ps)
        | ISetLabel _ | IJumpTo _ => Some (m, vs, ps)
        end
    end.

  Fixpoint run_from (c : list instr) (st : mstate) : option mstate :=
    match c with
    | [] => Some st
    | i :: c' => match step_i i st with
                 | Some st' => run_from c' st'
                 | None => None
                 end
    end.

  Lemma run_from_app : forall c1 c2 st,
    run_from (c1 ++ c2) st =
    match run_from c1 st with Some st' => run_from c2 st' | None => None end.
  Proof.
    induction c1 as [|i c1 IH]; intros c2 st; [reflexivity|].
    cbn [app run_from]. destruct (step_i i st) as [st'|]; [apply IH | reflexivity].
  Qed.

  Lemma run_from_snoc c i st :
    run_from (c ++ [i]) st =
    match run_from c st with Some st' => step_i i st' | None => None end.
  Proof.
    rewrite run_from_app. destruct (run_from c st) as [st'|]; [|reflexivity].
    cbn [run_from]. destruct (step_i i st'); reflexivity.
  Qed.
End Step.

Definition fin (o : option mstate) : bool :=
  match o with Some (_, _, []) => true | _ => false end.

(** ** The monitor is the fold with the exact arity clause *)
Lemma chk_callx_true G f args : chk_callx true G f args = chk_call G f args.
Proof.
  unfold chk_callx, chk_call. destruct (alookup (f_name f) (g_funcs G)) as [fd|]; [|reflexivity].
  destruct (Nat.eqb (length args) (length (f_params f))) eqn:E.
  - apply Nat.eqb_eq in E. rewrite E, firstn_all. reflexivity.
  - rewrite !Bool.andb_false_r. reflexivity.
Qed.

Lemma scan_run G RT : forall c m vs ps,
  scan_C04 G RT c m vs ps = fin (run_from true G RT c (m, vs, ps)).
Proof.
  induction c as [|i c IH]; intros m vs ps.
  - cbn. destruct ps; reflexivity.
  - cbn [scan_C04 run_from]. destruct i; cbn [step_i];
      repeat match goal with
             | |- context [chk_callx true G ?f ?a] => rewrite (chk_callx_true G f a)
             | |- context [match chk_operands ?a ?b with _ => _ end] =>
                 destruct (chk_operands a b); [|reflexivity]
             | |- context [match chk_operand ?a ?b with _ => _ end] =>
                 destruct (chk_operand a b); [|reflexivity]
             | |- context [match field_ty ?a ?b with _ => _ end] =>
                 destruct (field_ty a b); [|rewrite ?Bool.andb_false_r; reflexivity]
             | |- context [match ?ps with [] => _ | _ :: _ => _ end] =>
                 is_var ps; destruct ps as [|[? ?] ?]; [reflexivity|]
             | |- context [if ?b then _ else None] =>
                 destruct b; cbn [andb fin]; [|rewrite ?Bool.andb_false_r; reflexivity]
             end; try apply IH.
Qed.

(** ** The per-function and per-program checks for either arity clause *)
Definition chk_fn_x (X : bool) (G : globals) (f : fn_decl) (root : block) : bool :=
  fin (run_from X G (sem_of_ty (fn_result f)) (b_ctx root) ([], [], fn_params f)).

Fixpoint chk_fns_x (X : bool) (G : globals) (fs : list fn_decl) (roots : list block) : bool :=
  match fs, roots with
  | [], [] => true
  | f :: fs', r :: roots' => chk_fn_x X G f r && chk_fns_x X G fs' roots'
  | _, _ => false
  end.

Lemma chk_fns_x_true G : forall fs roots, chk_fns_x true G fs roots = chk_C04_fns G fs roots.
Proof.
  induction fs as [|f fs IH]; intros [|r roots]; cbn; try reflexivity.
  rewrite IH. unfold chk_fn_x, chk_C04_fn. rewrite scan_run. reflexivity.
Qed.

(** the weak monitor: C04 with "not more arguments than parameters" (finding F2) *)
Definition chk_C04_weak (p : program) (o : output) : bool :=
  match o_errors o with
  | [] => chk_fns_x false (o_globals o) (functions_of p) (o_fns o)
  | _ => true
  end.

(** ** Boolean equalities are reflexive *)
Lemma sem_ty_eqb_refl t : sem_ty_eqb t t = true.
Proof. apply sem_ty_eqb_eq. reflexivity. Qed.
Lemma func_sem_eqb_refl f : func_sem_eqb f f = true.
Proof. apply func_sem_eqb_eq. reflexivity. Qed.
Lemma const_sem_eqb_refl c : const_sem_eqb c c = true.
Proof. apply const_sem_eqb_eq. reflexivity. Qed.
Lemma value_eqb_refl v : value_eqb v v = true.
Proof.
  unfold value_eqb. rewrite String.eqb_refl, sem_ty_eqb_refl. destruct (v_mut v); reflexivity.
Qed.

Lemma declared_head vs v : declared ((v_inner v, v) :: vs) v = true.
Proof. unfold declared. cbn. rewrite String.eqb_refl. apply value_eqb_refl. Qed.

Lemma declared_tail vs n d v :
  v_inner v <> n -> declared vs v = true -> declared ((n, d) :: vs) v = true.
Proof.
  intros Hn H. unfold declared in *. cbn.
  destruct (String.eqb_spec (v_inner v) n) as [E|_]; [contradiction | exact H].
Qed.

(** ** Argument types against a prefix of the parameter types *)
Definition tys_pref (l : list eres) (params : list sem_ty) : Prop :=
  tys_eqb (map r_ty l) (firstn (length l) params) = true.

Lemma tys_pref_nil params : tys_pref [] params.
Proof. reflexivity. Qed.

Lemma tys_pref_snoc : forall l params pt e,
  tys_pref l params -> nth_error params (length l) = Some pt -> sem_ty_eqb pt (r_ty e) = true ->
  tys_pref (l ++ [e]) params.
Proof.
  unfold tys_pref, tys_eqb.
  induction l as [|a l IH]; intros params pt e Hl Hn He.
  - destruct params as [|p params]; [discriminate|]. cbn in Hn. inversion Hn; subst.
    cbn. apply sem_ty_eqb_eq in He. subst. rewrite sem_ty_eqb_refl. reflexivity.
  - destruct params as [|p params]; [discriminate|]. cbn in Hn. cbn in Hl |- *.
    apply Bool.andb_true_iff in Hl as [H1 H2]. rewrite H1. cbn. eapply IH; eassumption.
Qed.

Lemma tys_pref_length l params : tys_pref l params -> (length l <= length params)%nat.
Proof.
  unfold tys_pref, tys_eqb. revert params.
  induction l as [|a l IH]; intros params H; cbn; [lia|].
  destruct params as [|p params]; [discriminate|]. cbn in H.
  apply Bool.andb_true_iff in H as [_ H]. apply IH in H. cbn. lia.
Qed.

(** ** Register tables *)
Definition keys_le (m : regmap) (h : N) : Prop := forall k, h < k -> reg_find k m = None.

Lemma keys_le_nil h : keys_le [] h.
Proof. intros k _. reflexivity. Qed.

Lemma keys_le_mono m h h' : h <= h' -> keys_le m h -> keys_le m h'.
Proof. intros Hle H k Hk. apply H. lia. Qed.

Lemma keys_le_cons m h r x : keys_le m h -> r <= h -> keys_le ((r, x) :: m) h.
Proof.
  intros H Hr k Hk. cbn. destruct (N.eqb_spec k r) as [E|_]; [lia | apply H, Hk].
Qed.

Lemma reg_find_cons k r x m :
  reg_find k ((r, x) :: m) = if N.eqb k r then Some x else reg_find k m.
Proof. reflexivity. Qed.

Lemma reg_find_fix n t : forall m k,
  reg_find k (reg_fix n t m) =
  if N.eqb k n
  then match reg_find n m with Some (_, b) => Some (KTy t, b) | None => None end
  else reg_find k m.
Proof.
  induction m as [|[k0 [x b]] m IH]; intro k; cbn.
  - destruct (N.eqb k n); reflexivity.
  - destruct (N.eqb_spec n k0) as [E|E]; cbn.
    + subst k0. destruct (N.eqb_spec k n) as [E2|E2]; reflexivity.
    + rewrite IH. destruct (N.eqb_spec k n) as [E2|E2].
      * subst k. destruct (N.eqb_spec n k0) as [E3|_]; [contradiction | reflexivity].
      * reflexivity.
Qed.

(** what checking the operands [L] may do to a table *)
Definition mods (m m' : regmap) (L : list N) : Prop :=
  forall k, reg_find k m' = reg_find k m \/
            (In k L /\ exists b t, reg_find k m = Some (KUnk, b) /\ reg_find k m' = Some (KTy t, b)).

Lemma mods_refl m L : mods m m L.
Proof. intro k. left. reflexivity. Qed.

Lemma mods_trans m m1 m2 L1 L2 : mods m m1 L1 -> mods m1 m2 L2 -> mods m m2 (L1 ++ L2).
Proof.
  intros H1 H2 k. destruct (H2 k) as [E2|(I2 & b & t & A2 & B2)].
  - destruct (H1 k) as [E1|(I1 & b & t & A1 & B1)].
    + left. congruence.
    + right. split; [apply in_or_app; left; exact I1|]. exists b, t. split; congruence.
  - destruct (H1 k) as [E1|(I1 & b1 & t1 & A1 & B1)].
    + right. split; [apply in_or_app; right; exact I2|]. exists b, t. split; congruence.
    + congruence.
Qed.

Lemma mods_incl m m' L L' : incl L L' -> mods m m' L -> mods m m' L'.
Proof.
  intros Hi H k. destruct (H k) as [E|(I & R)]; [left; exact E | right; split; [apply Hi, I | exact R]].
Qed.

Lemma mods_none m m' L k : mods m m' L -> reg_find k m = None -> reg_find k m' = None.
Proof. intros H E. destruct (H k) as [E1|(_ & b & t & A & _)]; congruence. Qed.

Lemma mods_keys m m' L h : mods m m' L -> keys_le m h -> keys_le m' h.
Proof. intros H Hk k Hlt. eapply mods_none; [exact H | apply Hk, Hlt]. Qed.

Lemma mods_out m m' L k : mods m m' L -> ~ In k L -> reg_find k m' = reg_find k m.
Proof. intros H Hn. destruct (H k) as [E|(I & _)]; [exact E | contradiction]. Qed.

Lemma mods_ty m m' L k t b :
  mods m m' L -> reg_find k m = Some (KTy t, b) -> reg_find k m' = Some (KTy t, b).
Proof. intros H E. destruct (H k) as [E1|(_ & b' & t' & A & _)]; congruence. Qed.

Lemma mods_cond m m' L k b :
  mods m m' L -> reg_find k m = Some (KCond, b) -> reg_find k m' = Some (KCond, b).
Proof. intros H E. destruct (H k) as [E1|(_ & b' & t' & A & _)]; congruence. Qed.

(** ** Operands *)
Definition op_ok (m : regmap) (h : N) (e : eres) : Prop :=
  match r_val e with
  | RPrim p => r_ty e = SPrim (pv_ty p)
  | RReg n =>
      n <= h /\
      match reg_find n m with
      | Some (KTy t, _) => t = r_ty e
      | Some (KCond, _) => False
      | Some (KUnk, _) => True
      | None => n <> 0 /\ reg_find (n - 1) m = Some (KTy (r_ty e), true)
      end
  end.

Lemma op_ok_prim m h p : op_ok m h (ERes (SPrim (pv_ty p)) (RPrim p)).
Proof. reflexivity. Qed.

(** the register just written with this type *)
Lemma op_ok_written m h r t b : r <= h -> op_ok ((r, (KTy t, b)) :: m) h (ERes t (RReg r)).
Proof. intro Hr. unfold op_ok. cbn. rewrite N.eqb_refl. split; [exact Hr | reflexivity]. Qed.

Lemma op_ok_unk m h r b t : r <= h -> op_ok ((r, (KUnk, b)) :: m) h (ERes t (RReg r)).
Proof. intro Hr. unfold op_ok. cbn. rewrite N.eqb_refl. split; [exact Hr | exact I]. Qed.

(** finding F7: the register after a call / field read *)
Lemma op_ok_f7 m h t :
  keys_le m h -> reg_find h m = Some (KTy t, true) -> op_ok m (h + 1) (ERes t (RReg (h + 1))).
Proof.
  intros Hk Hf. unfold op_ok. cbn. split; [lia|].
  rewrite (Hk (h + 1)) by lia. split; [lia|]. rewrite N.add_sub. exact Hf.
Qed.

Lemma op_ok_frame m h m' h' e :
  op_ok m h e -> h <= h' -> (forall k, k <= h -> reg_find k m' = reg_find k m) -> op_ok m' h' e.
Proof.
  unfold op_ok. intros H Hle Hf. destruct (r_val e) as [n|p]; [|exact H].
  destruct H as [Hn H]. split; [lia|]. rewrite (Hf n Hn).
  destruct (reg_find n m) as [[[t| |] b]|]; try exact H.
  destruct H as [H0 H1]. split; [exact H0|]. rewrite Hf by lia. exact H1.
Qed.

Lemma op_ok_mods m h m' L e :
  op_ok m h e -> mods m m' L -> (forall n, In n (eres_reg e) -> ~ In n L) -> op_ok m' h e.
Proof.
  unfold op_ok, eres_reg. intros H Hm Hd. destruct (r_val e) as [n|p]; [|exact H].
  destruct H as [Hn H]. split; [exact Hn|].
  rewrite (mods_out _ _ _ _ Hm (Hd n (or_introl eq_refl))).
  destruct (reg_find n m) as [[[t| |] b]|]; try exact H.
  destruct H as [H0 H1]. split; [exact H0|]. eapply mods_ty; eassumption.
Qed.

Lemma chk_operand_ok m h e :
  op_ok m h e -> exists m', chk_operand m e = Some m' /\ mods m m' (eres_reg e).
Proof.
  unfold op_ok, chk_operand, eres_reg. destruct (r_val e) as [n|p].
  - intros [Hn H]. destruct (reg_find n m) as [[[t| |] b]|] eqn:E.
    + subst t. rewrite sem_ty_eqb_refl. exists m. split; [reflexivity | apply mods_refl].
    + contradiction.
    + exists (reg_fix n (r_ty e) m). split; [reflexivity|]. intro k. rewrite reg_find_fix.
      destruct (N.eqb_spec k n) as [->|Hk]; [|left; reflexivity].
      right. split; [left; reflexivity|]. exists b, (r_ty e). rewrite E. split; reflexivity.
    + destruct H as [H0 H1]. destruct (N.eqb_spec n 0) as [E0|_]; [contradiction|].
      rewrite H1, sem_ty_eqb_refl. exists m. split; [reflexivity | apply mods_refl].
  - intro H. rewrite H, sem_ty_eqb_refl. exists m. split; [reflexivity | apply mods_refl].
Qed.

Lemma NoDup_app_dis {A} (l l' : list A) : NoDup (l ++ l') -> forall a, In a l -> ~ In a l'.
Proof.
  induction l as [|x l IH]; intros Hnd a Ha Ha'; [contradiction|].
  cbn in Hnd. inversion Hnd as [|? ? Hx Hnd']; subst. destruct Ha as [->|Ha].
  - apply Hx. apply in_or_app. right. exact Ha'.
  - exact (IH Hnd' a Ha Ha').
Qed.

Lemma NoDup_app_tail {A} (l l' : list A) : NoDup (l ++ l') -> NoDup l'.
Proof. induction l as [|x l IH]; intro H; [exact H|]. inversion H; subst. apply IH. assumption. Qed.

Lemma chk_operands_ok h : forall l m,
  Forall (op_ok m h) l -> NoDup (flat_map eres_reg l) ->
  exists m', chk_operands m l = Some m' /\ mods m m' (flat_map eres_reg l).
Proof.
  induction l as [|e l IH]; intros m Hf Hnd.
  - exists m. split; [reflexivity | apply mods_refl].
  - inversion Hf as [|? ? He Hl]; subst. cbn [flat_map] in *.
    destruct (chk_operand_ok m h e He) as (m1 & E1 & M1).
    assert (Hl1 : Forall (op_ok m1 h) l).
    { rewrite Forall_forall in *. intros e' He'. eapply op_ok_mods; [apply Hl, He' | exact M1|].
      intros n Hn Hin. apply (NoDup_app_dis _ _ Hnd n Hin).
      apply in_flat_map. exists e'. split; assumption. }
    destruct (IH m1 Hl1 (NoDup_app_tail _ _ Hnd)) as (m2 & E2 & M2).
    exists m2. split; [cbn [chk_operands]; rewrite E1; exact E2 | eapply mods_trans; eassumption].
Qed.

Lemma is_cond_reg_cons r m b : is_cond_reg ((r, (KCond, b)) :: m) r = true.
Proof. unfold is_cond_reg. cbn. rewrite N.eqb_refl. reflexivity. Qed.
