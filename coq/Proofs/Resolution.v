(** C03: names resolve by lexical scoping and operands keep source order.

    On every accepted program the output of the model passes the monitor of [Mon/C03.v]: for
    every function, the root stack -- with the internal name of every value replaced by the index
    of the instruction that declares it -- reads as exactly the events that the independent
    lexical resolver emits for the source of the function, and it declares as many parameters as
    the function has.

    This file: parameter initialisation against the resolver's parameter numbering,
    [function_body_m], [bodies], [run].  The expression level is in [ResolutionExpr.v], statements
    and control flow in [ResolutionStmt.v], the relation and the logic in [ResolutionLogic.v], the
    two sides of the monitor in [ResolutionBase.v]. *)
From Coq Require Import Lia.
From SA Require Import Model.
From SA.Spec Require Import Stack.
From SA.Mon Require Import C03.
From SA.Proofs Require Import Trace InvNames DefUse.
From SA.Proofs Require Import ResolutionBase ResolutionLogic ResolutionExpr ResolutionStmt.
Local Open Scope list_scope.

(** ** The parameter phase: one frame, no [let] yet, internal name = source name *)
Definition InvP (k : nat) (s : bst) (sc : rscope) : Prop :=
  frames s <> [] /\
  exists m tab,
    Tabs s = [tab] /\
    Core k m false (V s) [sc] k [] /\
    (forall y v, alookup y tab = Some v -> v_inner v = y) /\
    (forall y, alookup y tab = None -> nmap_find y m = None).

Lemma InvP_Inv k s sc : InvP k s sc -> Inv k s [sc] k [].
Proof. intros [Hne (m & tab & _ & HC & _)]. split; [exact Hne|]. exists m, false. exact HC. Qed.

Lemma InvP_init e : InvP O (BSt [empty_block] e) [].
Proof.
  split; [discriminate|]. exists [], []. split; [reflexivity|]. split; [|split].
  - split; [reflexivity|]. split; [|reflexivity]. constructor; [apply tab_rel_nil | constructor].
  - intros y v H. discriminate.
  - reflexivity.
Qed.

Lemma InvP_step k s s' sc x val ty :
  InvP k s sc -> lookup_frames x (frames s) = None -> v_inner val = x ->
  frames s' <> [] ->
  V s' = (Ctx s ++ [IFnArg val x ty],
          match Tabs s with t :: r => ainsert x val t :: r | [] => [] end,
          sadd x (RInner s)) ->
  InvP (S k) s' ((x, k) :: sc).
Proof.
  intros [_ (m & tab & HT & (Hs & Ht & Hi) & Hinn & Hnone)] HL Hv Hne HV.
  rewrite lookup_frames_tabs in HL. fold (Tabs s) in HL. rewrite HT in HL. cbn [lookup_tabs] in HL.
  assert (HLa : alookup x tab = None) by (destruct (alookup x tab); [discriminate | reflexivity]).
  pose proof (Hnone _ HLa) as Hm.
  assert (Ht1 : tab_rel m tab sc) by (rewrite HT in Ht; inversion Ht; assumption).
  split; [exact Hne|]. exists ((x, k) :: m), (ainsert x val tab).
  pose proof (V_inv _ _ _ _ HV) as (C1 & T1 & R1). rewrite HT in T1.
  split; [exact T1|]. split; [|split].
  - rewrite HV, HT. split; [|split].
    + change (@nil ev) with (@nil ev ++ @nil ev). eapply sscan_snoc; [exact Hs|].
      cbn [step_st]. rewrite Hv, Hm. reflexivity.
    + constructor; [|constructor]. apply tab_rel_declare; [exact Hv|].
      apply tab_rel_fresh; assumption.
    + intros y Hy. apply smem_sadd_false in Hy as [Hy1 Hy2]. cbn [nmap_find]. rewrite Hy2.
      apply Hi, Hy1.
  - intros y v. rewrite alookup_ainsert. destruct (String.eqb y x) eqn:E.
    + apply String.eqb_eq in E. intro H. injection H as <-. rewrite E. exact Hv.
    + apply Hinn.
  - intros y. rewrite alookup_ainsert. destruct (String.eqb y x) eqn:E; [discriminate|].
    intro H. cbn [nmap_find]. rewrite E. apply Hnone, H.
Qed.

Section Body.
  Variable GL : globals.
  Hypothesis HW : GWF GL.

  Definition QP (ps : list (ident * ast_ty)) (s s' : bst) : Prop :=
    forall k sc, InvP k s sc ->
      Inv (k + length ps) s' [param_scope k ps sc] (k + length ps) [].

  Lemma J_init_func_params : forall ps s, J s (init_func_params ps) (fun _ s' => QP ps s s').
  Proof.
    induction ps as [|[x t] ps IH]; intro s; cbn [init_func_params].
    - apply J_ret. intros k sc HP. cbn [length param_scope]. rewrite Nat.add_0_r.
      apply InvP_Inv, HP.
    - apply J_gets_bind. destruct (lookup_frames (iname x) (frames s)) as [v|] eqn:EL;
        [apply J_err|]. cbv zeta.
      eapply J_bind; [apply J_insert_value|]. intros u1 s1 N1.
      eapply J_bind; [apply J_set_inner|]. intros u2 s2 N2.
      eapply J_bind; [apply J_emit|]. intros u3 s3 N3.
      eapply J_conseq; [apply IH|]. intros u4 s4 HQ [N3' V3] [N2' V2] [N1' V1] k sc HP.
      cbn [length param_scope]. rewrite Nat.add_succ_r. apply (HQ (S k)).
      apply V_inv in V1 as (C1 & T1 & R1). apply V_inv in V2 as (C2 & T2 & R2).
      apply (InvP_step k s s3 sc (iname x) (Value (iname x) (sem_of_ty t) false) (sem_of_ty t));
        [exact HP | exact EL | reflexivity | exact N3' |].
      rewrite V3, C2, T2, R2, C1, T1, R1. reflexivity.
  Qed.

  (** a whole function: the resolver succeeds and the stack reads as its events *)
  Definition QFn (f : fn_decl) (s s' : bst) : Prop :=
    InvP O s [] ->
    exists es m n lets,
      src_events f = Some es /\
      sscan (Ctx s') st0 = Some ((m, n, length (fn_params f), lets), es).

  Lemma J_function_body_m f s : J s (function_body_m GL f) (fun _ s' => QFn f s s').
  Proof.
    unfold function_body_m. cbv zeta.
    eapply J_bind; [apply J_init_func_params|]. intros u1 s1 N1.
    eapply J_bind; [apply (J_fn_stmts GL HW (length (fn_params f)))|]. intros returned s2 N2.
    eapply J_conseq; [apply K_when, K_err|]. intros u3 s3 HK HQ2 HQ1 HP.
    pose proof (HQ1 O [] HP) as I1. cbn [Nat.add] in I1.
    destruct (HQ2 _ _ _ I1) as (S' & n' & es & E1 & I2 & _). apply HK in I2.
    destruct I2 as [_ (m & lets & Hs & _)]. cbn [app] in Hs.
    exists es, m, n', lets. split; [|exact Hs]. unfold src_events. rewrite E1. reflexivity.
  Qed.
End Body.

(** ** The monitor on one function *)
Lemma ev_eqb_refl e : ev_eqb e e = true.
Proof.
  destruct e; cbn; rewrite ?Nat.eqb_refl, ?String.eqb_refl, ?N.eqb_refl; reflexivity.
Qed.

Lemma evs_eqb_refl l : evs_eqb l l = true.
Proof. induction l as [|e l IH]; cbn; [reflexivity|]. rewrite ev_eqb_refl, IH. reflexivity. Qed.

Lemma function_body_C03 GL errs0 f a s root :
  GWF GL -> function_body GL errs0 f = Ok a s -> frames s = [root] ->
  (length errs0 <= length (errs s))%nat /\
  ((length (errs s) <= length errs0)%nat -> chk_C03_fn f root = true).
Proof.
  intros HW H Hf. unfold function_body in H.
  assert (Hne : frames (BSt [empty_block] errs0) <> []) by discriminate.
  destruct (J_function_body_m GL HW f _ Hne a s H) as [[_ L] HQ]. split; [exact L|].
  intro L'. destruct (HQ L' (InvP_init errs0)) as (es & m & n & lets & E1 & Hs).
  unfold chk_C03_fn. rewrite E1, stack_events_eq.
  unfold Ctx in Hs. rewrite Hf in Hs. change (root_of [root]) with root in Hs. rewrite Hs.
  rewrite Nat.eqb_refl, evs_eqb_refl. reflexivity.
Qed.

(** ** The driver *)
Lemma bodies_C03 GL : GWF GL -> forall fs errs0 roots errs1 roots1,
  bodies GL errs0 roots fs = inr (errs1, roots1) ->
  (length errs0 <= length errs1)%nat /\
  ((length errs1 <= length errs0)%nat ->
   exists new, roots1 = roots ++ new /\ chk_C03_fns fs new = true).
Proof.
  intro HW. induction fs as [|f fs IH]; intros errs0 roots errs1 roots1 H; cbn [bodies] in H.
  - inversion H; subst. split; [lia|]. intros _. exists []. rewrite app_nil_r.
    split; reflexivity.
  - destruct (function_body GL errs0 f) as [a s| |] eqn:E; try discriminate.
    destruct (frames s) as [|root [|]] eqn:Ef; try discriminate.
    destruct (IH _ _ _ _ H) as [L2 HF].
    destruct (function_body_C03 _ _ _ _ _ _ HW E Ef) as [L1 HC].
    split; [lia|]. intro L.
    destruct (HF ltac:(lia)) as (new & Hr & Hn).
    exists (root :: new). rewrite Hr, <- app_assoc. split; [reflexivity|].
    cbn [chk_C03_fns]. rewrite HC by lia. exact Hn.
Qed.

(** C03: on every accepted program the monitor of [Mon/C03.v] accepts the model's output *)
Theorem run_resolution_events : forall p out,
  run p = ROk out -> o_errors out = [] -> chk_C03 p out = true.
Proof.
  intros p out H Hacc. unfold run in H.
  destruct (bodies (gs_globals (declarations p)) (gs_errs (declarations p)) [] (functions_of p))
    as [r|[errors roots]] eqn:E; [exfalso; eapply bodies_inl_not_ok; eauto|].
  inversion H; subst; clear H. cbn [o_errors] in Hacc. subst errors.
  unfold chk_C03. cbn [o_errors o_fns].
  destruct (bodies_C03 _ (GWF_declarations p) _ _ _ _ _ E) as [_ HF].
  destruct (HF ltac:(cbn; lia)) as (new & -> & Hn). exact Hn.
Qed.

(** The expression level on its own: when the analysis of an expression adds no error, the
    resolver succeeds on it in the related scopes, the root stack grows by instructions that read
    as exactly its events (leaves left to right, arguments before their call, whatever the
    operator priorities), and scopes and numbering are as before. *)
Theorem expression_resolution_events : forall GL na fuel e s r s',
  GWF GL -> frames s <> [] -> expression GL fuel e s = Ok r s' ->
  (length (errs s') <= length (errs s))%nat ->
  forall S n Ev, Inv na s S n Ev ->
    exists es, ev_expr S e = Some es /\ Inv na s' S n (Ev ++ es) /\ r <> None.
Proof.
  intros GL na fuel e s r s' HW Hne H L.
  destruct (J_expression GL HW na fuel e s Hne r s' H) as [_ HQ]. exact (HQ L).
Qed.

Print Assumptions run_resolution_events.
Print Assumptions expression_resolution_events.
