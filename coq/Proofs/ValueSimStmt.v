(** C05 with values, statements: the analyzer followed forward ([VH]); the delta of a statement /
    block / if / loop is a fragment in the sense of [ValueSimFrag.v] for the structured run of
    that piece of source, WITH DATA, in whatever program [c] (no label set twice, every named
    label set) it occurs.

    - the names: distinct entries of the value tables of the live blocks carry distinct internal
      names ([TabInj]), kept by every step of the analysis ([step2_TabInj]); a fresh internal name
      is the name of no table entry ([fresh_not_in_tabs]);
    - the evaluation of an expression only looks names up ([SEval_env]);
    - the simple statements ([Line_let], [Line_bind], [Line_call], [Ret_spec]);
    - the control level ([V_nested_stmt] ... [V_control]), the function level ([V_fn_stmts]). *)
From Coq Require Import Lia.
From SA Require Import Model.
From SA.Spec Require Import Stack Bracket Exec Tables.
From SA.Mon Require Import Control.
From SA.Proofs Require Import Reach InvReg Trace InvNames InvLabels Resolve DefUse ExecBasic.
From SA.Proofs Require Import Fold FlowBasic FlowSem FlowExpr FlowSim DenoteLogic ResolutionBase.
From SA.Spec Require Import ValueExec.
From SA.Proofs Require Import ValueSimBase ValueSimExpr ValueSimFrag.
Local Open Scope list_scope.

(** ** The names of the value tables *)
Notation tab := (list (string * value)).

Lemma InTabs_frames s val :
  InTabs val (vals s) -> exists f x, In f (frames s) /\ alookup x (b_values f) = Some val.
Proof.
  intros (t & x & Hin & E). unfold vals in Hin. apply in_map_iff in Hin as (f & <- & Hf).
  exists f, x. split; assumption.
Qed.

(** a name that is free in the registries is the internal name of no table entry *)
Lemma fresh_not_in_tabs s inner :
  Inv_names s -> inner_exists inner (frames s) = false ->
  forall val, InTabs val (vals s) -> v_inner val <> inner.
Proof.
  intros [Hne _ Hreg Hval _] Hf val Hin E.
  destruct (InTabs_frames s val Hin) as (f & x & Hfr & Hl).
  pose proof (Hval f x val Hfr Hl) as Hd.
  assert (Hn : In inner (C12.decl_names (b_ctx (root_of (frames s))))).
  { unfold C12.decl_names. rewrite <- E. apply in_map, Hd. }
  apply Hreg in Hn. unfold inner_exists in Hf.
  assert (Hex : existsb (fun b => smem inner (b_inner b)) (frames s) = true).
  { apply existsb_exists. exists (root_of (frames s)). split; [apply root_of_in, Hne | exact Hn]. }
  congruence.
Qed.

Lemma TabInj_push ts : TabInj ts -> TabInj ([] :: ts).
Proof.
  intros H i j ti tj x y v w Hi Hj Hx Hy E.
  destruct i as [|i]; [cbn in Hi; inversion Hi; subst; discriminate|].
  destruct j as [|j]; [cbn in Hj; inversion Hj; subst; discriminate|].
  destruct (H i j ti tj x y v w Hi Hj Hx Hy E) as [-> ->]. split; reflexivity.
Qed.

Lemma TabInj_tl ts : TabInj ts -> TabInj (tl ts).
Proof.
  destruct ts as [|t ts]; [trivial|]. intros H i j ti tj x y v w Hi Hj Hx Hy E.
  destruct (H (S i) (S j) ti tj x y v w Hi Hj Hx Hy E) as [Hij ->]. split; [lia | reflexivity].
Qed.

Lemma TabInj_insert t ts x val :
  TabInj (t :: ts) -> (forall w, InTabs w (t :: ts) -> v_inner w <> v_inner val) ->
  TabInj (ainsert x val t :: ts).
Proof.
  intros H Hf i j ti tj a b v w Hi Hj Ha Hb E.
  assert (Hold : forall k tk y u, nth_error (ainsert x val t :: ts) k = Some tk ->
                                  alookup y tk = Some u -> (k = O /\ y = x /\ u = val) \/
                                  exists tk', nth_error (t :: ts) k = Some tk' /\ alookup y tk' = Some u).
  { intros k tk y u Hk Hy. destruct k as [|k].
    - cbn in Hk. inversion Hk; subst tk. rewrite alookup_ainsert in Hy.
      destruct (String.eqb_spec y x) as [->|Hne].
      + inversion Hy; subst. left. repeat split.
      + right. exists t. split; [reflexivity | exact Hy].
    - right. exists tk. split; [exact Hk | exact Hy]. }
  assert (Hin : forall k tk' y u, nth_error (t :: ts) k = Some tk' -> alookup y tk' = Some u ->
                                  InTabs u (t :: ts)).
  { intros k tk' y u Hk Hy. exists tk', y. split; [eapply nth_error_In, Hk | exact Hy]. }
  destruct (Hold _ _ _ _ Hi Ha) as [(-> & -> & ->)|(ti' & Hi' & Ha')];
    destruct (Hold _ _ _ _ Hj Hb) as [(-> & -> & ->)|(tj' & Hj' & Hb')].
  - split; reflexivity.
  - exfalso. eapply Hf; [eapply Hin; eassumption | symmetry; exact E].
  - exfalso. eapply Hf; [eapply Hin; eassumption | exact E].
  - exact (H i j ti' tj' a b v w Hi' Hj' Ha' Hb' E).
Qed.

Lemma vals_st_kid k i s : vals (st_kid k i s) = vals s.
Proof. unfold vals, st_kid. cbn [frames]. destruct (frames s); reflexivity. Qed.

Lemma step2_TabInj s s' : step2 s s' -> Inv_names s -> TabInj (vals s) -> TabInj (vals s').
Proof.
  intros Hstep Hinv HT.
  destruct Hstep as [mk s Hd Hp Hr | s | i s Hd Hp Hr | er s | x val er s Hfresh | er s | n s | e s
                    | s | c p r e | k i s Hd Hp Hr].
  - unfold st_alloc, st_emit, st_inc. cbn [frames errs]. rewrite vals_map by reflexivity.
    rewrite map_map. exact HT.
  - unfold st_inc. rewrite vals_map by reflexivity. exact HT.
  - unfold st_emit. rewrite vals_map by reflexivity. exact HT.
  - unfold st_return, st_emit. cbn [frames errs]. rewrite vals_map by reflexivity.
    rewrite map_map. exact HT.
  - (* let *)
    pose proof (fresh_not_in_tabs s (v_inner val) Hinv Hfresh) as Hf.
    unfold st_emit, st_inner, st_value. cbn [frames errs]. rewrite vals_map by reflexivity.
    rewrite map_map. unfold vals in *. destruct (frames s) as [|h r]; [exact HT|].
    cbn [map set_value b_values add_inner] in *. apply TabInj_insert; assumption.
  - unfold st_emit. rewrite vals_map by reflexivity. exact HT.
  - unfold st_label. rewrite vals_map by reflexivity. exact HT.
  - exact HT.
  - unfold st_push, vals. cbn [frames map].
    replace (b_values (new_child (frames s))) with (@nil (string * value))
      by (destruct (frames s); reflexivity).
    apply TabInj_push, HT.
  - unfold vals in *. cbn [frames map] in *. apply (TabInj_tl _ HT).
  - unfold st_emit. cbn [frames errs]. rewrite vals_map by reflexivity.
    fold (vals (st_kid k i s)). rewrite vals_st_kid. exact HT.
Qed.

(** the two invariants of names, together *)
Definition NIX (s : bst) : Prop := Inv_names s /\ TabInj (vals s).

Lemma reach2_NIX s s' : reach2 s s' -> NIX s -> NIX s'.
Proof.
  induction 1 as [|s1 s2 s3 _ IH Hs]; intro H; [exact H|]. destruct (IH H) as [H1 H2].
  split; [eapply step2_Inv_names; eassumption | eapply step2_TabInj; eassumption].
Qed.

Lemma NIX_R2 {A} (m : M A) s a s' : R2 m -> NIX s -> m s = Ok a s' -> NIX s'.
Proof. intros Hm H E. eapply reach2_NIX; [eapply Hm, E | exact H]. Qed.

(** ** The evaluation of an expression only looks names up *)
Section EnvEquiv.
  Variable V : Type.
  Variable I : interp V.
  Variables env1 env2 : venv V.
  Hypothesis Heq : forall x, env_find V x env1 = env_find V x env2.

  Lemma read_var_equiv x : read_var V I env1 x = read_var V I env2 x.
  Proof. unfold read_var. rewrite Heq. reflexivity. Qed.

  Lemma SEval_env_all :
    (forall e0 e x, SEval I env1 e0 e x -> SEval I env2 e0 e x) /\
    (forall t e x, STree I env1 t e x -> STree I env2 t e x) /\
    (forall v e x, SVal I env1 v e x -> SVal I env2 v e x) /\
    (forall args e xs, SArgs I env1 args e xs -> SArgs I env2 args e xs).
  Proof.
    apply SEval_mut; intros; try (econstructor; eassumption).
    - rewrite read_var_equiv. constructor.
    - constructor. rewrite <- Heq. assumption.
  Qed.

  Lemma SLCond_env l e b : SLCond I env1 l e b -> SLCond I env2 l e b.
  Proof.
    induction 1; constructor; try assumption; apply SEval_env_all; assumption.
  Qed.

  Lemma SCond_env cnd e b : SCond I env1 cnd e b -> SCond I env2 cnd e b.
  Proof.
    intros [e0 e' x H|l e' b' H]; constructor; [apply SEval_env_all, H | apply SLCond_env, H].
  Qed.
End EnvEquiv.

(** the logic, with the invariants of names *)
Lemma VH_NIX {A} s (m : M A) (Q : A -> bst -> list instr -> Prop) :
  R2 m -> NIX s -> VH s m Q -> VH s m (fun a s' d => NIX s' /\ Q a s' d).
Proof.
  intros Hr Hn H W a s' E Hacc. destruct (H W a s' E Hacc) as (d & HC & W' & L & D & Hq).
  exists d. split; [exact HC|]. split; [exact W'|]. split; [exact L|]. split; [exact D|].
  split; [eapply NIX_R2; eassumption | exact Hq].
Qed.

Lemma WF_vals s : WF s -> exists t rest, vals s = t :: rest.
Proof.
  intros [Hne _]. unfold vals. destruct (frames s) as [|b fs]; [congruence|].
  exists (b_values b), (map b_values fs). reflexivity.
Qed.

(** ** Stepping forward through a run: the register invariant, the counter, the value tables *)
Definition St' (s : bst) (h : N) (ts : list tab) : Prop := WF s /\ hr s = h /\ vals s = ts.

Lemma HT_use {A} s (m : M A) (Q : A -> bst -> Prop) a s' :
  (forall Cf, HT Cf s m Q) -> WF s -> m s = Ok a s' -> errs s' = [] -> WF s' /\ Q a s'.
Proof.
  intros H W E Hacc. destruct (H (Ctx s') W a s' E) as (W' & _ & HQ). split; [exact W'|].
  apply HQ. split; [exact Hacc|]. exists []. rewrite app_nil_r. reflexivity.
Qed.

Lemma St_push s h ts a s' : St' s h ts -> push_child s = Ok a s' -> errs s' = [] -> St' s' h ([] :: ts).
Proof.
  intros (W & <- & <-) E Hacc.
  destruct (HT_use _ _ _ _ _ (fun Cf => HT_push_child Cf s) W E Hacc) as (W' & Hh & _ & Hv).
  repeat split; try apply W'; assumption.
Qed.
Lemma St_pop s h ts a s' : St' s h ts -> pop_child s = Ok a s' -> errs s' = [] -> St' s' h (tl ts).
Proof.
  intros (W & <- & <-) E Hacc.
  destruct (HT_use _ _ _ _ _ (fun Cf => HT_pop_child Cf s) W E Hacc) as (W' & Hh & _ & Hv).
  repeat split; try apply W'; assumption.
Qed.
Lemma St_gen base s h ts a s' : St' s h ts -> gen_label base s = Ok a s' -> errs s' = [] -> St' s' h ts.
Proof.
  intros (W & <- & <-) E Hacc.
  destruct (HT_use _ _ _ _ _ (fun Cf => HT_gen_label Cf s base) W E Hacc) as (W' & Hh & _ & Hv).
  repeat split; try apply W'; assumption.
Qed.
Lemma St_emit i (Hd : def_reg i = None) s h ts a s' :
  St' s h ts -> emit i s = Ok a s' -> errs s' = [] -> St' s' h ts.
Proof.
  intros (W & <- & <-) E Hacc.
  destruct (HT_use _ _ _ _ _ (fun Cf => HT_emit Cf s i Hd) W E Hacc) as (W' & Hh & _ & Hv).
  repeat split; try apply W'; assumption.
Qed.
Lemma St_emit_kid k i (Hd : def_reg i = None) s h ts a s' :
  St' s h ts -> emit_kid k i s = Ok a s' -> errs s' = [] -> St' s' h ts.
Proof.
  intros (W & <- & <-) E Hacc.
  destruct (HT_use _ _ _ _ _ (fun Cf => HT_emit_kid Cf s k i Hd) W E Hacc) as (W' & Hh & _ & Hv).
  repeat split; try apply W'; assumption.
Qed.

Lemma DefsIn_cons_nondef lo hi i d : def_reg i = None -> DefsIn lo hi d -> DefsIn lo hi (i :: d).
Proof.
  intros Hi H. change (i :: d) with ([i] ++ d). apply DefsIn_app. split; [apply DefsIn_nondef, Hi | exact H].
Qed.

Ltac defs_leaf :=
  first [ eapply DefsIn_widen; [| |eassumption]; lia
        | apply DefsIn_nondef; first [reflexivity | assumption]
        | constructor ].
Ltac defs_go :=
  repeat first [ apply DefsIn_app; split
               | apply DefsIn_cons_nondef; [first [reflexivity | assumption]|]
               | defs_leaf ].

Ltac nix_step R E :=
  match type of E with
  | ?m ?s = Ok _ ?s1 =>
      match goal with
      | Hn : NIX s |- _ =>
          let Hn' := fresh "Hnix" in
          assert (Hn' : NIX s1) by (eapply (NIX_R2 m); [R | exact Hn | exact E]); clear Hn;
          rename Hn' into Hn
      end
  end.

Ltac st_step lem E Hacc1 :=
  match type of E with
  | _ ?s = Ok _ _ =>
      match goal with
      | HS : St' s _ _ |- _ =>
          let HS1 := fresh "HS" in
          pose proof (lem _ _ _ _ _ HS E Hacc1) as HS1; clear HS; rename HS1 into HS
      end
  end.

Lemma step_VH {A} s (m : M A) Q a s' X h ts :
  VH s m Q -> ctxs s = X -> St' s h ts -> m s = Ok a s' -> errs s' = [] ->
  exists d, ctxs s' = adds d X /\ St' s' (hr s') (vals s') /\ h <= hr s' /\ DefsIn h (hr s') d /\
            hr s = h /\ vals s = ts /\ Q a s' d.
Proof.
  intros Hm <- (W & <- & <-) E Hacc. destruct (Hm W a s' E Hacc) as (d & HC & W' & L & D & HQ).
  exists d. repeat split; try apply W'; assumption.
Qed.

Lemma R2_push : R2 push_child.
Proof. intro s. apply Rat_push_child. Qed.
Lemma R2_pop : R2 pop_child.
Proof. intro s. apply Rat_pop_child. Qed.
Lemma R2_emit_label l : R2 (emit (ISetLabel l)).
Proof. intro s. apply Rat_emit; [reflexivity | exact Logic.I | constructor]. Qed.
Lemma R2_emit_jump l : R2 (emit (IJumpTo l)).
Proof. intro s. apply Rat_emit; [reflexivity | exact Logic.I | constructor]. Qed.
Lemma R2_emit_kid_label k l : R2 (emit_kid k (ISetLabel l)).
Proof. intro s. apply Rat_emit_kid; [reflexivity | exact Logic.I | reflexivity]. Qed.
Lemma R2_emit_kid_jump k l : R2 (emit_kid k (IJumpTo l)).
Proof. intro s. apply Rat_emit_kid; [reflexivity | exact Logic.I | reflexivity]. Qed.
Lemma R2_when b m : R2 m -> R2 (when b m).
Proof. intros H s. apply Rat_when, H. Qed.

Section Sim.
  Variable V : Type.
  Variable I : interp V.
  Variable c : list instr.
  Hypothesis Hnd : NoDup (set_labels c).
  Hypothesis Hres : resolved c.
  Variable G : globals.
  Hypothesis HW : GWF G.
  Variable fuel : nat.
  Variable RT : sem_ty.

  Notation XR := (XRuns I c).
  Notation LSpec := (LineSpec V I c).
  Notation RSpec := (RetSpec V I c).
  Notation VF := (VFrag V I c).
  Notation VFL := (VFragL V I c).
  Notation MSt := (MS V c).

  (** ** The code of an expression, then one instruction that consumes its result *)
  Lemma expr_prefix ts h h1 d1 e0 er i pre post rf mu az env :
    XR ts h h1 d1 (PE V I e0 er) -> DefsIn h h1 d1 -> h <= h1 -> def_reg i = None ->
    Pos c pre (d1 ++ [i]) post h h1 -> DomOK c rf -> Rel ts mu env ->
    exists e1 rf' x,
      vsteps I c (length pre) (MState rf mu az) e1 (length pre + length d1) (MState rf' mu az) /\
      DomOK c rf' /\ SEval I env e0 e1 x /\ operand V I rf' er = Rd x /\
      c = (pre ++ d1) ++ i :: post.
  Proof.
    intros HX D1 L1 Hi Hp HD HR.
    destruct (Pos_split c _ _ _ _ _ _ _ Hp D1 (DefsIn_nondef h1 h1 i Hi) L1 (N.le_refl h1)) as [Hp1 Hp2].
    destruct (HX _ _ Hp1 rf mu az env HD HR Logic.I) as (e1 & rf' & Hs & HD' & _ & (x & Hx & Ho)).
    exists e1, rf', x. repeat split; try assumption.
    destruct Hp as [E _ _ _ _]. rewrite E, <- !app_assoc. reflexivity.
  Qed.

  Ltac below_cases Hx n :=
    let p := fresh "p" in let Hp := fresh "Hp" in
    destruct n as [|n];
    [ right; exists []; eexists; split; [apply pref_nil | reflexivity]
    | cbn [vexec_stmt];
      first [ destruct (eval_expr_below V I _ _ _ _ Hx n) as [-> | (p & Hp & ->)]
            | destruct (eval_exprs_below V I _ _ _ _ Hx n) as [-> | (p & Hp & ->)] ];
      cbn [after vprepend];
      [ | right; exists p; eexists; split; [apply pref_app_r, Hp | reflexivity] ] ].

  (** ** The simple statements *)
  Lemma Line_let b x m t e s :
    NIX s ->
    VH s (let_binding G fuel x m t e)
       (fun _ s' d => tl (vals s') = tl (vals s) /\
                      LSpec (vals s) (vals s') (hr s) (hr s') d
                            (fun n env => vexec_stmt V I true n b (SLet x m t e) env)).
  Proof.
    intro Hnix. pose proof (Mono_expression G fuel).
    unfold let_binding.
    eapply VH_bind; [apply VH_NIX; [apply R2_expression | exact Hnix | apply (V_expression V I c G HW)]
                    | intros; mono_go |].
    intros r s1 d1 (Hnix1 & er & -> & Hv1 & Hle1 & HX1) HC1 W1 L1 D1. cbv beta zeta.
    match goal with |- VH _ (if ?bb then _ else _) _ => destruct bb end; [apply VH_error_last|].
    unfold lookup_value. apply VH_gets_bind. apply VH_gets_bind.
    eapply VH_bind; [apply VH_next_inner_name | intros; mono_go |].
    intros inner s2 d2 (-> & -> & Hfresh) _ _ _ _. cbv beta.
    set (val := Value inner (r_ty er) m).
    eapply VH_bind; [apply VH_insert_value | intros; mono_go |].
    intros u3 s3 d3 (-> & Hh3 & Hv3) _ W3 _ _. cbv beta.
    eapply VH_bind; [apply VH_set_inner_name | intros; mono_go |].
    intros u4 s4 d4 (-> & Hh4 & Hv4) _ W4 _ _. cbv beta.
    eapply VH_conseq; [apply VH_emit; reflexivity|].
    intros u5 s5 d5 (-> & Hh5 & Hv5). do 4 (intros _ _). cbn [app]. rewrite ?app_nil_r.
    destruct (WF_vals _ W1) as (t0 & rest & Ev1).
    assert (Ev5 : vals s5 = ainsert (iname x) val t0 :: rest) by (rewrite Hv5, Hv4, Hv3, Ev1; reflexivity).
    assert (Eh5 : hr s5 = hr s1) by congruence.
    rewrite Ev5, Eh5, <- Hv1, Ev1. split; [reflexivity|].
    intros pre post Hp [rf mu az] env [HD HR]. cbn [m_regs m_store] in HD, HR.
    rewrite <- Hv1, Ev1 in HX1.
    destruct (expr_prefix _ _ _ _ _ _ (ILet val er) pre post rf mu az env HX1 D1 L1 eq_refl Hp HD HR)
      as (e1 & rf' & xv & Hs & HD' & Hx & Ho & Hc).
    assert (Hfr : forall w, InTabs w (t0 :: rest) -> v_inner w <> v_inner val).
    { rewrite <- Ev1. apply fresh_not_in_tabs; [apply Hnix1 | exact Hfresh]. }
    destruct env as [|fr erest]; [inversion HR|].
    exists (e1 ++ [VLet xv]), (MState rf' (ainsert inner xv mu) az), (((iname x, xv) :: fr) :: erest).
    split; [|split].
    - eapply vsteps_trans; [exact Hs|]. eapply vsteps_eq; [apply vsteps_one| | |reflexivity].
      + pose proof (vstep_at V I c _ _ _ (MState rf' mu az) Hc) as Hst. rewrite Hst.
        cbn [vinstr_step m_regs]. rewrite Ho. reflexivity.
      + rewrite app_length. reflexivity.
      + rewrite !app_length. cbn [length]. lia.
    - split; [exact HD'|]. cbn [m_store]. apply (Rel_declare V t0 rest mu fr erest (iname x) val xv Hfr HR).
    - intro n. below_cases Hx n. left. reflexivity.
  Qed.

  Lemma Line_bind b x e s :
    NIX s ->
    VH s (binding G fuel x e)
       (fun _ s' d => vals s' = vals s /\
                      LSpec (vals s) (vals s') (hr s) (hr s') d
                            (fun n env => vexec_stmt V I true n b (SBind x e) env)).
  Proof.
    intro Hnix. pose proof (Mono_expression G fuel).
    unfold binding.
    eapply VH_bind; [apply VH_NIX; [apply R2_expression | exact Hnix | apply (V_expression V I c G HW)]
                    | intros; mono_go |].
    intros r s1 d1 (Hnix1 & er & -> & Hv1 & Hle1 & HX1) HC1 W1 L1 D1. cbv beta.
    unfold lookup_value. apply VH_gets_bind. rewrite lookup_frames_tabs. fold (vals s1).
    destruct (tabs_find (iname x) (vals s1)) as [val|] eqn:EL; [|apply VH_error_last].
    destruct (negb (v_mut val)); [apply VH_error_last|].
    destruct (negb (sem_ty_eqb (v_ty val) (r_ty er))); [apply VH_error_last|].
    eapply VH_conseq; [apply VH_emit; reflexivity|].
    intros u5 s5 d5 (-> & Hh5 & Hv5) _ _. split; [congruence|].
    rewrite Hv5, Hh5, Hv1. rewrite Hv1 in EL.
    intros pre post Hp [rf mu az] env [HD HR]. cbn [m_regs m_store] in HD, HR.
    destruct (expr_prefix _ _ _ _ _ _ (IBind val er) pre post rf mu az env HX1 D1 L1 eq_refl Hp HD HR)
      as (e1 & rf' & xv & Hs & HD' & Hx & Ho & Hc).
    destruct Hnix1 as [_ Hinj]. rewrite Hv1 in Hinj.
    destruct (Rel_assign V _ _ _ _ _ xv Hinj HR EL) as (env' & Ea & HR').
    exists (e1 ++ [VAssign xv]), (MState rf' (ainsert (v_inner val) xv mu) az), env'.
    split; [|split].
    - eapply vsteps_trans; [exact Hs|]. eapply vsteps_eq; [apply vsteps_one| | |reflexivity].
      + pose proof (vstep_at V I c _ _ _ (MState rf' mu az) Hc) as Hst. rewrite Hst.
        cbn [vinstr_step m_regs]. rewrite Ho. reflexivity.
      + rewrite app_length. reflexivity.
      + rewrite !app_length. cbn [length]. lia.
    - split; [exact HD' | exact HR'].
    - intro n. below_cases Hx n. rewrite Ea. left. reflexivity.
  Qed.

  Lemma Line_call b f args s :
    VH s (call_stmt G fuel f args)
       (fun _ s' d => vals s' = vals s /\
                      LSpec (vals s) (vals s') (hr s) (hr s') d
                            (fun n env => vexec_stmt V I true n b (SCall f args) env)).
  Proof.
    unfold call_stmt.
    eapply VH_bind; [apply (V_function_call V I c G HW); [apply (V_expression V I c G HW) | apply R2_expression]
                    | intros; mono_go |].
    intros r s1 d1 (fd & ers & da & hm & -> & Hfn & Hv1 & -> & Hh1 & Lm & Dm & Hle & HXa) HC1 W1 L1 D1.
    apply VH_ret. intros _ _. rewrite app_nil_r. split; [exact Hv1|]. rewrite Hv1, Hh1.
    assert (HXc : XR (vals s) (hr s) (hm + 1) (da ++ [ICall fd ers (hm + 1)])
                     (fun env e rf => exists e0 xs, e = e0 ++ [VCall (iname f) xs] /\ SArgs I env args e0 xs)).
    { eapply XRuns_seqP; [exact HXa | apply (XRunsP_call V I c _ fd ers hm (hm + 1) (f_ty fd)); lia
                         | exact Dm | eapply DefsIn_def; [reflexivity | lia] | exact Lm | lia | |].
      - intros env e1 rf1 (xs & _ & Ho). exists xs. exact Ho.
      - intros env e1 rf1 e2 rf2 (xs & Hxs & Ho) _ Hc2. destruct (Hc2 xs Ho) as [-> _].
        exists e1, xs. rewrite Hfn. split; [reflexivity | exact Hxs]. }
    intros pre post Hp [rf mu az] env [HD HR]. cbn [m_regs m_store] in HD, HR.
    destruct (HXc pre post Hp rf mu az env HD HR Logic.I) as (e & rf' & Hs & HD' & _ & (e0 & xs & -> & Hxs)).
    exists (e0 ++ [VCall (iname f) xs]), (MState rf' mu az), env.
    split; [exact Hs|]. split; [split; [exact HD' | exact HR]|].
    intro n. below_cases Hxs n. left. reflexivity.
  Qed.

  (** a return: the code of the expression, then an instruction that halts with its value *)
  Definition is_vret (i : instr) (er : eres) : Prop :=
    i = IFnRet er \/ i = IFnRetLabel er \/ i = IJumpFnRet er.

  Lemma Ret_spec b st e0 er i ts h h1 d1 :
    (st = SRet e0 \/ st = SExprStmt e0) -> is_vret i er ->
    XR ts h h1 d1 (PE V I e0 er) -> DefsIn h h1 d1 -> h <= h1 ->
    RSpec ts h h1 (d1 ++ [i]) (fun n env => vexec_stmt V I true n b st env).
  Proof.
    intros Hst Hi HX D1 L1 pre post Hp [rf mu az] env [HD HR]. cbn [m_regs m_store] in HD, HR.
    assert (Hdef : def_reg i = None) by (destruct Hi as [->|[->| ->]]; reflexivity).
    destruct (expr_prefix _ _ _ _ _ _ i pre post rf mu az env HX D1 L1 Hdef Hp HD HR)
      as (e1 & rf' & xv & Hs & HD' & Hx & Ho & Hc).
    exists (e1 ++ [VRet xv]). split.
    - eapply vsteps_halts; [exact Hs|]. apply vhalts_now.
      pose proof (vstep_at V I c _ _ _ (MState rf' mu az) Hc) as Hstp. rewrite app_length in Hstp.
      rewrite Hstp. destruct Hi as [->|[->| ->]]; cbn [vinstr_step m_regs]; rewrite Ho; reflexivity.
    - intro n. destruct Hst as [-> | ->]; below_cases Hx n; left; eexists; reflexivity.
  Qed.

  (** ** The semantic contexts that go with the labels the analyzer hands down *)
  Definition in_if_k (k : bkind) : bool := match k with KLoop => false | _ => true end.

  Definition LinkE (k : bkind) (lend : string) (oe : ectx) : Prop :=
    match k with KLoop => oe = None | _ => exists ke te, oe = Some (lend, ke, te) end.
  Definition LinkL (lloop : option (string * string)) (ll : lctx) : Prop :=
    match lloop with
    | Some (lb, le) => exists kl tq, ll = Some (lb, le, kl, tq)
    | None => ll = None
    end.
  (** at least one block is open since the statement of the context, and below it the tables
      are those of the context *)
  Definition CtxOKE (ts : list tab) (oe : ectx) : Prop :=
    forall le k te, oe = Some (le, k, te) -> exists k', k = S k' /\ skipn k' (tl ts) = te.
  Definition CtxOKL (ts : list tab) (ll : lctx) : Prop :=
    forall lb le k tq, ll = Some (lb, le, k, tq) -> exists k', k = S k' /\ skipn k' (tl ts) = tq.

  Lemma CtxOKE_tl ts ts' oe : tl ts' = tl ts -> CtxOKE ts oe -> CtxOKE ts' oe.
  Proof. intros E H le k te Ho. rewrite E. exact (H le k te Ho). Qed.
  Lemma CtxOKL_tl ts ts' ll : tl ts' = tl ts -> CtxOKL ts ll -> CtxOKL ts' ll.
  Proof. intros E H lb le k tq Ho. rewrite E. exact (H lb le k tq Ho). Qed.
  Lemma CtxOKL_push ts ll : CtxOKL ts ll -> CtxOKL ([] :: ts) (shiftL ll).
  Proof.
    intros H lb le k tq Ho. destruct ll as [[[[lb0 le0] k0] tq0]|]; [|discriminate].
    cbn [shiftL] in Ho. inversion Ho; subst. destruct (H _ _ _ _ eq_refl) as (k' & -> & E).
    exists (S k'). split; [reflexivity|]. cbn [tl]. rewrite skipn_S_tl. exact E.
  Qed.
  Lemma LinkL_shift lloop ll : LinkL lloop ll -> LinkL lloop (shiftL ll).
  Proof.
    unfold LinkL. destruct lloop as [[lb le]|]; [|intros ->; reflexivity].
    intros (kl & tq & ->). exists (S kl), tq. reflexivity.
  Qed.

  (** what the delta of a statement of a block is *)
  Definition Q_stmt (k : bkind) (lend : string) (lloop : option (string * string)) (st : stmt)
             (s : bst) (fl' : flags) (s' : bst) (d : list instr) : Prop :=
    tl (vals s') = tl (vals s) /\
    forall oe ll, LinkE k lend oe -> LinkL lloop ll -> CtxOKE (vals s) oe -> CtxOKL (vals s) ll ->
      VF oe ll (fun n env => vexec_stmt V I true n (in_if_k k) st env) (fl_ret fl') d
         (vals s) (vals s') (hr s) (hr s').

  (** what the delta of an if statement is, depending on who owns the end label *)
  Definition Q_IFC (i : ifstmt) (le : option string) (lloop : option (string * string)) (s : bst)
             (_ : unit) (s' : bst) (d : list instr) : Prop :=
    vals s' = vals s /\
    forall ll, LinkL lloop ll -> CtxOKL (vals s) ll ->
      match le with
      | Some lend =>
          forall ke te, skipn ke (vals s) = te ->
            VFL lend ke te ll (fun n env => vexec_if V I true n i env) d (vals s) (hr s) (hr s')
      | None =>
          exists lend d', d = d' ++ [ISetLabel lend] /\
            VFL lend 0 (vals s) ll (fun n env => vexec_if V I true n i env) d' (vals s) (hr s) (hr s')
      end.

  Definition Q_LOOP (body : list stmt) (s : bst) (_ : unit) (s' : bst) (d : list instr) : Prop :=
    vals s' = vals s /\
    forall oe ll, VF oe ll (fun n env => vexec_loop V I true n body env) false d
                     (vals s) (vals s) (hr s) (hr s').

  Lemma code_after_errors_acc' k fl s u s' :
    code_after_errors k fl s = Ok u s' -> errs s' = [] -> s' = s /\ fl_ret fl = false.
  Proof.
    unfold code_after_errors. intros H Hacc.
    dstep H Hacc as x E Hacc1. destruct (when_error_acc _ _ _ _ _ E Hacc1) as [Hr ->].
    split; [|exact Hr]. destruct k; [inversion H; reflexivity| |];
      (dstep H Hacc as y E2 Hacc2; destruct (when_error_acc _ _ _ _ _ E2 Hacc2) as [_ ->];
       destruct (when_error_acc _ _ _ _ _ H Hacc) as [_ ->]; reflexivity).
  Qed.

  Lemma vexec_stmt_loop n b body env :
    vexec_stmt V I true (S n) b (SLoop body) env = vexec_loop V I true n body env.
  Proof. reflexivity. Qed.

  Section Control.
    Variable IFC : ifstmt -> option string -> option (string * string) -> M unit.
    Variable LOOP : list stmt -> M unit.
    Hypothesis HIFC : forall i le lloop s, NIX s -> VH s (IFC i le lloop) (Q_IFC i le lloop s).
    Hypothesis HLOOP : forall body s, NIX s -> VH s (LOOP body) (Q_LOOP body s).
    Hypothesis HIFCr : forall i oe ll, R2 (IFC i oe ll).
    Hypothesis HLOOPr : forall body, R2 (LOOP body).

    Lemma HIFCm' i oe ll : Mono (IFC i oe ll).
    Proof. apply Mono_R2, HIFCr. Qed.
    Lemma HLOOPm' body : Mono (LOOP body).
    Proof. apply Mono_R2, HLOOPr. Qed.
    Lemma Mono_nested_stmt' k lend lloop fl st : Mono (nested_stmt G fuel RT IFC LOOP k lend lloop fl st).
    Proof. apply Mono_R2, R2_nested_stmt; assumption. Qed.
    Lemma Mono_run_body' k lend lloop fl ss : Mono (run_body G fuel RT IFC LOOP k lend lloop fl ss).
    Proof. apply Mono_R2, R2_run_body; assumption. Qed.
    Lemma Mono_if_body' b lend lloop : Mono (if_body G fuel RT IFC LOOP b lend lloop).
    Proof. apply Mono_R2, R2_if_body; assumption. Qed.

    Lemma V_nested_stmt k lend lloop fl st s :
      fl_ret fl = false -> NIX s ->
      VH s (nested_stmt G fuel RT IFC LOOP k lend lloop fl st) (Q_stmt k lend lloop st s).
    Proof.
      intros Hfl Hnix. destruct st; cbn [nested_stmt].
      - (* let *)
        eapply VH_bind; [apply (Line_let (in_if_k k)), Hnix | intros; mono_go |].
        intros u s1 d1 (Htl & HL) _ _ _ _. apply VH_ret. intros _ _. rewrite app_nil_r.
        split; [exact Htl|]. intros oe ll _ _ _ _. rewrite Hfl. apply VFrag_line, HL.
      - eapply VH_bind; [apply (Line_bind (in_if_k k)), Hnix | intros; mono_go |].
        intros u s1 d1 (Hv & HL) _ _ _ _. apply VH_ret. intros _ _. rewrite app_nil_r.
        split; [rewrite Hv; reflexivity|]. intros oe ll _ _ _ _. rewrite Hfl. apply VFrag_line, HL.
      - eapply VH_bind; [apply (Line_call (in_if_k k)) | intros; mono_go |].
        intros u s1 d1 (Hv & HL) _ _ _ _. apply VH_ret. intros _ _. rewrite app_nil_r.
        split; [rewrite Hv; reflexivity|]. intros oe ll _ _ _ _. rewrite Hfl. apply VFrag_line, HL.
      - (* if *)
        destruct k; cbn [in_if_k].
        + eapply VH_bind; [apply HIFC, Hnix | intros; mono_go |].
          intros u s1 d1 (Hv & HQ) _ _ _ _. apply VH_ret. intros _ _. rewrite app_nil_r.
          split; [rewrite Hv; reflexivity|]. intros oe ll (ke & te & ->) HLl HCe HCl. rewrite Hfl.
          destruct (HCe _ _ _ eq_refl) as (k' & -> & Ek).
          apply VFrag_if_inner. apply (HQ ll HLl HCl). rewrite skipn_S_tl. exact Ek.
        + eapply VH_bind; [apply HIFC, Hnix | intros; mono_go |].
          intros u s1 d1 (Hv & HQ) _ _ _ _. apply VH_ret. intros _ _. rewrite app_nil_r.
          split; [rewrite Hv; reflexivity|]. intros oe ll (ke & te & ->) HLl HCe HCl. rewrite Hfl.
          destruct (HCe _ _ _ eq_refl) as (k' & -> & Ek).
          apply VFrag_if_inner. apply (HQ ll HLl HCl). rewrite skipn_S_tl. exact Ek.
        + eapply VH_bind; [apply HIFC, Hnix | intros; mono_go |].
          intros u s1 d1 (Hv & HQ) _ _ _ _. apply VH_ret. intros _ _. rewrite app_nil_r.
          split; [rewrite Hv; reflexivity|]. intros oe ll _ HLl _ HCl. rewrite Hfl, Hv.
          destruct (HQ ll HLl HCl) as (le' & d' & -> & HF).
          apply VFrag_if_outer; assumption.
      - (* loop *)
        eapply VH_bind; [apply HLOOP, Hnix | intros; mono_go |].
        intros u s1 d1 (Hv & HQ) _ _ _ _. apply VH_ret. intros _ _. rewrite app_nil_r.
        split; [rewrite Hv; reflexivity|]. intros oe ll _ _ _ _. rewrite Hfl, Hv.
        eapply VFrag_ext; [|apply VFrag_shift, HQ]. intros [|n] env; reflexivity.
      - (* return *)
        pose proof (Mono_expression G fuel). pose proof (Mono_check_return_type RT).
        eapply VH_bind; [apply (V_expression V I c G HW) | intros; mono_go |].
        intros r s1 d1 (er & -> & Hv1 & Hle1 & HX1) HC1 W1 L1 D1. cbv beta.
        eapply VH_bind with (Q1 := fun _ s' d => d = [] /\ hr s' = hr s1 /\ vals s' = vals s1).
        { unfold check_return_type. destruct (negb _); cbn [when]; [apply VH_error_last|].
          apply VH_ret. repeat split. }
        { intros; mono_go. }
        intros u2 s2 d2 (-> & Hh2 & Hv2) _ W2 _ _. cbv beta.
        eapply VH_bind; [apply VH_emit; reflexivity | intros; mono_go |].
        intros u3 s3 d3 (-> & Hh3 & Hv3) _ W3 _ _. cbv beta.
        eapply VH_bind; [apply VH_set_return | intros; mono_go |].
        intros u4 s4 d4 (-> & Hh4 & Hv4) _ W4 _ _. apply VH_ret. do 4 (intros _ _).
        cbn [app]. rewrite ?app_nil_r. cbn [fl_ret].
        split; [congruence|]. intros oe ll _ _ _ _.
        replace (vals s4) with (vals s) by congruence. replace (hr s4) with (hr s1) by congruence.
        apply VFrag_ret. eapply Ret_spec; [left; reflexivity | right; right; reflexivity | exact HX1 | exact D1 | exact L1].
      - (* expression statement *)
        apply VH_panic.
      - (* break *)
        assert (Hb : forall lb le, lloop = Some (lb, le) ->
                  VH s (emit (IJumpTo le) ;;; ret (Flags (fl_ret fl) true (fl_cont fl)))
                     (Q_stmt k lend lloop SBreak s)).
        { intros lb le ->. eapply VH_bind; [apply VH_emit; reflexivity | intros; mono_go |].
          intros u1 s1 d1 (-> & Hh1 & Hv1) _ _ _ _. apply VH_ret. intros _ _. cbn [app fl_ret].
          split; [rewrite Hv1; reflexivity|]. intros oe ll _ (kl & tq & ->) _ HCl.
          rewrite Hfl, Hv1, Hh1. destruct (HCl _ _ _ _ eq_refl) as (k' & -> & Ek).
          apply VFrag_break; [assumption | rewrite skipn_S_tl; exact Ek |].
          intros [|n] env; [right | left]; reflexivity. }
        destruct k; try apply VH_panic; (destruct lloop as [[lb le]|]; [|apply VH_panic]);
          eapply Hb; reflexivity.
      - (* continue *)
        assert (Hb : forall lb le, lloop = Some (lb, le) ->
                  VH s (emit (IJumpTo lb) ;;; ret (Flags (fl_ret fl) (fl_brk fl) true))
                     (Q_stmt k lend lloop SContinue s)).
        { intros lb le ->. eapply VH_bind; [apply VH_emit; reflexivity | intros; mono_go |].
          intros u1 s1 d1 (-> & Hh1 & Hv1) _ _ _ _. apply VH_ret. intros _ _. cbn [app fl_ret].
          split; [rewrite Hv1; reflexivity|]. intros oe ll _ (kl & tq & ->) _ HCl.
          rewrite Hfl, Hv1, Hh1. destruct (HCl _ _ _ _ eq_refl) as (k' & -> & Ek).
          apply VFrag_continue; [assumption | rewrite skipn_S_tl; exact Ek |].
          intros [|n] env; [right | left]; reflexivity. }
        destruct k; try apply VH_panic; (destruct lloop as [[lb le]|]; [|apply VH_panic]);
          eapply Hb; reflexivity.
    Qed.
    Lemma V_code_after_errors k fl s :
      VH s (code_after_errors k fl) (fun _ s' d => d = [] /\ s' = s /\ fl_ret fl = false).
    Proof.
      intros W a s' E Hacc. destruct (code_after_errors_acc' _ _ _ _ _ E Hacc) as [-> Hf].
      exists []. rewrite adds_nil. repeat split; try apply W; try lia; try constructor. exact Hf.
    Qed.

    Definition Q_body (k : bkind) (lend : string) (lloop : option (string * string)) (ss : list stmt)
               (s : bst) (ret' : bool) (s' : bst) (d : list instr) : Prop :=
      forall oe ll, LinkE k lend oe -> LinkL lloop ll -> CtxOKE (vals s) oe -> CtxOKL (vals s) ll ->
        VF oe ll (fun n env => vexec_stmts V I true n (in_if_k k) ss env) ret' d
           (vals s) (vals s') (hr s) (hr s').

    Lemma V_run_body k lend lloop : forall ss fl s,
      NIX s ->
      VH s (run_body G fuel RT IFC LOOP k lend lloop fl ss)
         (fun fl' s' d =>
            tl (vals s') = tl (vals s) /\
            (fl_ret fl = false -> Q_body k lend lloop ss s (fl_ret fl') s' d) /\
            (fl_ret fl = true -> ss = [] /\ d = [] /\ fl' = fl /\ s' = s)).
    Proof.
      pose proof Mono_nested_stmt' as HM1. pose proof Mono_run_body' as HM2.
      induction ss as [|st ss IH]; intros fl s Hnix; cbn [run_body].
      - apply VH_ret. split; [reflexivity|]. split.
        + intros Hfl oe ll _ _ _ _. rewrite Hfl. apply VFrag_nil. intros n env. apply vexec_stmts_nil.
        + intros _. repeat split.
      - eapply VH_bind; [apply V_code_after_errors | intros; mono_go |].
        intros u s0 d0 (-> & -> & Hfl) _ _ _ _. cbv beta.
        eapply VH_bind; [apply VH_NIX; [apply R2_nested_stmt; assumption | exact Hnix |
                                         apply (V_nested_stmt k lend lloop fl st s Hfl Hnix)]
                        | intros; mono_go |].
        intros fl1 s1 d1 (Hnix1 & Htl1 & HF1) HC1 W1 L1 D1. cbv beta.
        apply VH_self. eapply VH_conseq; [apply (IH fl1 s1 Hnix1)|].
        intros fl' s' d2 (Htl2 & HF2 & HF2') HC2 W2 L2 D2 _ _. cbn [app].
        split; [congruence|]. split; [|intro Hx; congruence]. intros _ oe ll HLe HLl HCe HCl.
        specialize (HF1 oe ll HLe HLl HCe HCl).
        destruct (fl_ret fl1) eqn:Efl1.
        + destruct (HF2' eq_refl) as (-> & -> & -> & ->). rewrite Efl1.
          eapply VFrag_ext; [|apply (VFrag_seq V I c oe ll _ (fun n env => vexec_stmts V I true n (in_if_k k) [] env)
                                                true false d1 [] _ _ _ _ (hr s1) _ HF1)].
          * intros [|n] env; reflexivity.
          * apply VFrag_nil. intros n env. apply vexec_stmts_nil.
          * exact D1.
          * constructor.
          * exact L1.
          * lia.
        + specialize (HF2 eq_refl oe ll HLe HLl (CtxOKE_tl _ _ _ Htl1 HCe) (CtxOKL_tl _ _ _ Htl1 HCl)).
          eapply VFrag_ext; [|apply (VFrag_seq V I c oe ll _ _ false _ _ _ _ _ _ _ _ _ HF1 HF2 D1 D2 L1 L2)].
          intros [|n] env; reflexivity.
    Qed.

    Lemma V_if_body b lend lloop s :
      NIX s ->
      VH s (if_body G fuel RT IFC LOOP b lend lloop)
         (fun returned s' d => tl (vals s') = tl (vals s) /\
                               Q_body KIf lend lloop (vifbody_stmts b) s returned s' d).
    Proof.
      intro Hnix. destruct b as [ss|ss]; cbn [if_body vifbody_stmts].
      - eapply VH_bind; [apply (V_run_body KIf lend lloop ss flags0 s Hnix) | intros; mono_go |].
        intros fl s1 d1 (Htl & HF & _) _ _ _ _. apply VH_ret. intros _ _. rewrite app_nil_r.
        split; [exact Htl | exact (HF eq_refl)].
      - destruct lloop as [l|]; [|apply VH_panic].
        eapply VH_bind; [apply (V_run_body KIfLoop lend (Some l) ss flags0 s Hnix) | intros; mono_go |].
        intros fl s1 d1 (Htl & HF & _) _ _ _ _. apply VH_ret. intros _ _. rewrite app_nil_r.
        split; [exact Htl | exact (HF eq_refl)].
    Qed.

    (** the condition: straight-line code, then the conditional instruction *)
    Definition Q_calc (cnd : cond) (lb target : string) (s : bst) (_ : unit) (s' : bst)
               (d : list instr) : Prop :=
      exists d0 ci, d = d0 ++ [ci] /\ vals s' = vals s /\ def_reg ci = None /\
                    DefsIn (hr s) (hr s') d0 /\
                    XR (vals s) (hr s) (hr s') d0
                       (fun env e rf => exists b, SCond I env cnd e b /\ CondReads V I ci lb target rf b).

    Lemma V_calc cnd lb le lend ie s :
      VH s (if_condition_calculation G fuel cnd lb le lend ie)
         (Q_calc cnd lb (if ie then le else lend) s).
    Proof.
      pose proof (Mono_expression G fuel). pose proof (Mono_condition_expression G fuel).
      unfold if_condition_calculation. cbv zeta. destruct cnd as [e|lc].
      - eapply VH_bind; [apply (V_expression V I c G HW) | intros; mono_go |].
        intros r s1 d1 (er & -> & Hv1 & Hle1 & HX1) HC1 W1 L1 D1. cbv beta.
        eapply VH_conseq; [apply VH_emit; reflexivity|].
        intros u s2 d2 (-> & Hh2 & Hv2) _ _. exists d1, (IIfCondExpr er lb (if ie then le else lend)).
        split; [reflexivity|]. split; [congruence|]. split; [reflexivity|]. rewrite Hh2.
        split; [exact D1|]. eapply XRuns_conseq; [exact HX1|].
        intros env e' rf (x & Hx & Ho). exists (i_truth I x). split; [constructor; exact Hx|].
        left. exists er, x. repeat split. exact Ho.
      - eapply VH_bind; [apply (V_condition_expression V I c G HW) | intros; mono_go |].
        intros reg s1 d1 (Hv1 & -> & HX1) HC1 W1 L1 D1. cbv beta.
        eapply VH_conseq; [apply VH_emit; reflexivity|].
        intros u s2 d2 (-> & Hh2 & Hv2) _ _. exists d1, (IIfCondLogic lb (if ie then le else lend) (hr s1)).
        split; [reflexivity|]. split; [congruence|]. split; [reflexivity|]. rewrite Hh2.
        split; [exact D1|]. eapply XRuns_conseq; [exact HX1|].
        intros env e' rf (b & Hb & Ho). exists b. split; [constructor; exact Hb|].
        right. exists (hr s1). split; [reflexivity | exact Ho].
    Qed.

    (** the condition is analysed in the block of the then-part, which is still empty *)
    Lemma CondSpec_push ts h h1 d0 ci lt lf cnd :
      XR ([] :: ts) h h1 d0 (fun env e rf => exists b, SCond I env cnd e b /\ CondReads V I ci lt lf rf b) ->
      CondSpec V I c ts h h1 d0 ci lt lf cnd.
    Proof.
      intros HX pre post Hp [rf mu az] env [HD HR]. cbn [m_regs m_store] in HD, HR.
      destruct (HX pre post Hp rf mu az ([] :: env) HD (Rel_push V _ _ _ HR) Logic.I)
        as (e & rf' & Hs & HD' & _ & (b & Hb & Hrd)).
      exists e, (MState rf' mu az), b. split; [exact Hs|]. split; [split; assumption|].
      split; [|exact Hrd]. eapply SCond_env; [|exact Hb]. intro x. reflexivity.
    Qed.

    Lemma V_jump_end returned lend s :
      VH s (when (negb returned) (emit (IJumpTo lend)))
         (fun _ s' j => (returned = false -> j = [IJumpTo lend]) /\ (returned = true -> j = []) /\
                        hr s' = hr s /\ vals s' = vals s).
    Proof.
      destruct returned; cbn [negb when].
      - apply VH_ret. repeat split; congruence.
      - eapply VH_conseq; [apply VH_emit; reflexivity|]. intros u s' d (-> & Hh & Hv). repeat split; congruence.
    Qed.
    Lemma V_jump_end_kid slot returned lend s :
      VH s (when (negb returned) (emit_kid slot (IJumpTo lend)))
         (fun _ s' j => (returned = false -> j = [IJumpTo lend]) /\ (returned = true -> j = []) /\
                        hr s' = hr s /\ vals s' = vals s).
    Proof.
      destruct returned; cbn [negb when].
      - apply VH_ret. repeat split; congruence.
      - eapply VH_conseq; [apply VH_emit_kid; reflexivity|]. intros u s' d (-> & Hh & Hv). repeat split; congruence.
    Qed.
    Lemma V_set_end (oe : option string) lend s :
      VH s (when (negb (is_some oe)) (emit (ISetLabel lend)))
         (fun _ s' t => (oe = None -> t = [ISetLabel lend]) /\ (oe <> None -> t = []) /\
                        hr s' = hr s /\ vals s' = vals s).
    Proof.
      destruct oe; cbn [is_some negb when].
      - apply VH_ret. repeat split; congruence.
      - eapply VH_conseq; [apply VH_emit; reflexivity|]. intros u s' d (-> & Hh & Hv). repeat split; congruence.
    Qed.
    Lemma V_set_end_kid slot (oe : option string) lend s :
      VH s (when (negb (is_some oe)) (emit_kid slot (ISetLabel lend)))
         (fun _ s' t => (oe = None -> t = [ISetLabel lend]) /\ (oe <> None -> t = []) /\
                        hr s' = hr s /\ vals s' = vals s).
    Proof.
      destruct oe; cbn [is_some negb when].
      - apply VH_ret. repeat split; congruence.
      - eapply VH_conseq; [apply VH_emit_kid; reflexivity|]. intros u s' d (-> & Hh & Hv). repeat split; congruence.
    Qed.
    Lemma lend_step (oe : option string) s l s' h ts :
      match oe with Some l => ret l | None => gen_label "if_end" end s = Ok l s' -> errs s' = [] ->
      St' s h ts -> NIX s ->
      ctxs s' = ctxs s /\ St' s' h ts /\ NIX s' /\ (forall le, oe = Some le -> l = le).
    Proof.
      destruct oe as [le|]; intros H Hacc HS Hn.
      - inversion H; subst. split; [reflexivity|]. split; [exact HS|]. split; [exact Hn|].
        intros le' E. inversion E. reflexivity.
      - split; [eapply gen_label_ctxs, H|]. split; [eapply St_gen; eassumption|].
        split; [eapply (NIX_R2 (gen_label "if_end")); [apply R2_gen_label | exact Hn | exact H] | discriminate].
    Qed.

    Ltac vh_step_ lem E Hacc1 d L D HQ :=
      match type of E with
      | ?m ?s = Ok ?x ?s1 =>
          match goal with
          | HC : ctxs s = ?X, HS : St' s _ _ |- _ =>
              let HC1 := fresh "HC" in let HS1 := fresh "HS" in
              let Eh := fresh "Eh" in let Ev := fresh "Ev" in
              destruct (step_VH s m _ x s1 X _ _ lem HC HS E Hacc1)
                as (d & HC1 & HS1 & L & D & Eh & Ev & HQ);
              rewrite ?Eh, ?Ev in HQ;
              clear HC HS E; rename HC1 into HC; rename HS1 into HS; norm HC
          end
      end.
    Tactic Notation "vh_step" uconstr(lem) hyp(E) hyp(Hacc1) ident(d) ident(L) ident(D) ident(HQ) :=
      vh_step_ lem E Hacc1 d L D HQ.

    Lemma Q_IFC_close i (le : option string) lloop lend d t s s' hq :
      vals s' = vals s -> hr s' = hq ->
      (forall ll, LinkL lloop ll -> CtxOKL (vals s) ll -> forall ke te, skipn ke (vals s) = te ->
         VFL lend ke te ll (fun n env => vexec_if V I true n i env) d (vals s) (hr s) hq) ->
      (forall l, le = Some l -> lend = l) ->
      (le = None -> t = [ISetLabel lend]) -> (le <> None -> t = []) ->
      Q_IFC i le lloop s tt s' (d ++ t).
    Proof.
      intros Hv Hh HF Hle Ht0 Ht1. split; [exact Hv|]. intros ll HLl HCl. rewrite Hh.
      destruct le as [l|].
      - rewrite (Ht1 ltac:(discriminate)), app_nil_r. rewrite <- (Hle l eq_refl).
        intros ke te Hk. apply HF; assumption.
      - exists lend, d. split; [rewrite (Ht0 eq_refl); reflexivity|]. apply HF; try assumption. reflexivity.
    Qed.

    Lemma V_if_condition_step i le lloop s :
      NIX s -> VH s (if_condition_step G fuel RT IFC LOOP i le lloop) (Q_IFC i le lloop s).
    Proof.
      intros Hnix W a s_end H Hacc.
      pose proof Mono_if_body' as HM1. pose proof (Mono_if_condition_calculation G fuel) as HM2.
      pose proof HIFCm' as HM3.
      destruct i as [cnd body els elif].
      assert (HS : St' s (hr s) (vals s)) by (split; [exact W | split; reflexivity]).
      assert (HneC : ctxs s <> []).
      { destruct W as [Hne _]. unfold ctxs. intro E. apply map_eq_nil in E. contradiction. }
      remember (ctxs s) as C eqn:HC. symmetry in HC.
      set (h0 := hr s) in *. set (ts := vals s) in *.
      cbn [if_condition_step] in H.
      dstep H Hacc as u0 E0 Hacc0.
      destruct (when_error_acc _ _ _ _ _ E0 Hacc0) as [Hboth ->]. clear E0 Hacc0.
      dstep H Hacc as u1 E1 Hacc1. nix_step ltac:(intro; apply Rat_push_child) E1.
      st_step St_push E1 Hacc1. ecore E1.
      dstep H Hacc as lbegin E2 Hacc2. nix_step ltac:(apply R2_gen_label) E2.
      st_step (St_gen "if_begin") E2 Hacc2. ecore E2.
      dstep H Hacc as lelse E3 Hacc3. nix_step ltac:(apply R2_gen_label) E3.
      st_step (St_gen "if_else") E3 Hacc3. ecore E3.
      dstep H Hacc as lend E4 Hacc4.
      destruct (lend_step _ _ _ _ _ _ E4 Hacc4 HS Hnix) as (HC4 & HS4 & Hnix4 & Hle).
      rewrite HC in HC4. clear HC E4 HS Hnix. rename HC4 into HC. rename HS4 into HS.
      rename Hnix4 into Hnix.
      cbv zeta in H.
      dstep H Hacc as u5 E5 Hacc5. nix_step ltac:(apply R2_if_condition_calculation) E5.
      vh_step (V_calc cnd lbegin lelse lend (is_some els || is_some elif) _) E5 Hacc5 d1 L1 D1 Hd1.
      destruct Hd1 as (dcond & ci & -> & Hv5 & Hci & Dc & HXc).
      rewrite Ev in Hv5, HXc. rewrite Eh in Dc, HXc. clear Eh Ev.
      pose proof (CondSpec_push _ _ _ _ _ _ _ _ HXc) as Hcond. clear HXc.
      dstep H Hacc as u6 E6 Hacc6.
      nix_step ltac:(intro; apply Rat_emit; [reflexivity | exact Logic.I | constructor]) E6.
      rewrite Hv5 in HS.
      st_step (St_emit (ISetLabel lbegin) eq_refl) E6 Hacc6. ecore E6.
      dstep H Hacc as returned E7 Hacc7. pose proof Hnix as Hnix6.
      assert (Hnix7 : NIX s6) by (eapply (NIX_R2 _ _ _ _ (R2_if_body G fuel RT IFC LOOP HIFCr HLOOPr body lend lloop) Hnix E7)).
      vh_step (V_if_body body lend lloop _ Hnix6) E7 Hacc7 d2 L2 D2 Hd2.
      destruct Hd2 as (Htl2 & Hbody).
      destruct HS as (W7 & _ & _).
      assert (HS : St' s6 (hr s6) (vals s6)) by (split; [exact W7 | split; reflexivity]).
      dstep H Hacc as u8 E8 Hacc8.
      assert (Hnix8 : NIX s7) by (exact (NIX_R2 _ _ _ _ (R2_when _ _ (R2_emit_jump lend)) Hnix7 E8)).
      vh_step (V_jump_end returned lend _) E8 Hacc8 j L8 D8 Hj.
      destruct Hj as (Hj0 & Hj1 & Hh8 & Hv8). clear Eh0 Ev0.
      cbn [tl] in Htl2.
      assert (Dj : DefsIn (hr s6) (hr s6) j).
      { destruct returned; [rewrite (Hj1 eq_refl); constructor | rewrite (Hj0 eq_refl); apply DefsIn_nondef; reflexivity]. }
      (* the then part *)
      assert (Hthen : forall ll, LinkL lloop ll -> CtxOKL ts ll -> forall ke te, skipn ke ts = te ->
                VFL lend ke te ll (vblock_run V I (vifbody_stmts body)) (d2 ++ j) ts (hr s4) (hr s6)).
      { intros ll HLl HCl ke te Hk.
        apply (VFragL_block V I c Hres lend ke te ll
                 (fun n env => vexec_stmts V I true n true (vifbody_stmts body) env)
                 returned d2 j ts (vals s6) (hr s4) (hr s6)); try assumption.
        rewrite <- Ev, <- Eh. apply Hbody.
        - exists (S ke), te. reflexivity.
        - apply LinkL_shift, HLl.
        - rewrite Ev. intros le' k' te' E. inversion E; subst. exists ke. split; reflexivity.
        - rewrite Ev. apply CtxOKL_push, HCl. }
      clear Hbody.
      destruct els as [eb|]; [destruct elif as [ei|]; [discriminate|]|destruct elif as [ei|]];
        cbn [is_some orb negb] in H, Hcond.
      - (* else *)
        dstep H Hacc as u9 E9 Hacc9.
        assert (Hnix9 : NIX s8) by (exact (NIX_R2 _ _ _ _ (R2_emit_label lelse) Hnix8 E9)).
        st_step (St_emit (ISetLabel lelse) eq_refl) E9 Hacc9. ecore E9.
        dstep H Hacc as slot E10 Hacc10.
        assert (Hnix10 : NIX s9) by (exact (NIX_R2 _ _ _ _ R2_pop Hnix9 E10)).
        st_step St_pop E10 Hacc10. ecore E10.
        dstep H Hacc as u11 Hmid Hacc11.
        dstep Hmid Hacc11 as v1 F1 Hf1.
        assert (Hnix11 : NIX s11) by (exact (NIX_R2 _ _ _ _ R2_push Hnix10 F1)).
        st_step St_push F1 Hf1. ecore F1.
        dstep Hmid Hacc11 as returned' F2 Hf2.
        vh_step (V_if_body eb lend lloop _ Hnix11) F2 Hf2 d3 L3 D3 Hd3.
        destruct Hd3 as (Htl3 & Hbody3). rewrite Hv8, Htl2 in Ev0, Htl3. cbn [tl] in Htl3.
        rewrite Hh8 in Eh0, D3, L3.
        dstep Hmid Hacc11 as v3 F3 Hf3. st_step St_pop F3 Hf3. ecore F3.
        vh_step (V_jump_end_kid slot returned' lend _) Hmid Hacc11 j' L4 D4 Hj'.
        destruct Hj' as (Hj0' & Hj1' & Hh4 & Hv4).
        vh_step (V_set_end_kid slot le lend _) H Hacc t L5 D5 Ht.
        destruct Ht as (Ht0 & Ht1 & Hh5 & Hv5').
        assert (Dj' : DefsIn (hr s12) (hr s12) j').
        { destruct returned'; [rewrite (Hj1' eq_refl); constructor | rewrite (Hj0' eq_refl); apply DefsIn_nondef; reflexivity]. }
        assert (Dt : DefsIn (hr s12) (hr s12) t).
        { destruct le; [rewrite (Ht1 ltac:(discriminate)); constructor | rewrite (Ht0 eq_refl); apply DefsIn_nondef; reflexivity]. }
        destruct HS as (Wend & _ & _).
        exists ((dcond ++ ci :: ISetLabel lbegin :: (d2 ++ j) ++ (ISetLabel lelse :: d3 ++ j')) ++ t).
        split; [rewrite HC; f_equal; vsplit_eq|]. split; [exact Wend|].
        assert (Ehe : hr s_end = hr s12) by congruence.
        assert (Eh13 : hr s13 = hr s12) by congruence.
        rewrite Ehe. split; [lia|]. split; [defs_go|]. destruct a.
        apply (Q_IFC_close _ le lloop lend _ _ _ _ (hr s12)); [fold ts; congruence | exact Ehe | | exact Hle | exact Ht0 | exact Ht1].
        intros ll HLl HCl ke te Hk. fold ts in HCl, Hk. fold h0.
        eapply (VFragL_if V I c Hnd Hres lend ke te ll cnd body (Some eb) None dcond ci lbegin lelse
                  (d2 ++ j) (ISetLabel lelse :: d3 ++ j') ts h0 (hr s4) (hr s6) (hr s12));
          [exact Hcond | exact Hci | apply Hthen; assumption | | exact Dc | defs_go | defs_go | lia | lia | lia].
        left. exists lelse, (d3 ++ j'). split; [reflexivity|]. split; [reflexivity|].
        cbn [velse_run].
        apply (VFragL_block V I c Hres lend ke te ll
                 (fun n env => vexec_stmts V I true n true (vifbody_stmts eb) env)
                 returned' d3 j' ts (vals s12) (hr s6) (hr s12)); try assumption.
        rewrite <- Ev0, <- Eh0. apply Hbody3.
        + exists (S ke), te. reflexivity.
        + apply LinkL_shift, HLl.
        + rewrite Ev0. intros le' k' te' E. inversion E; subst. exists ke. split; reflexivity.
        + rewrite Ev0. apply CtxOKL_push, HCl.
      - (* else-if *)
        dstep H Hacc as u9 E9 Hacc9.
        assert (Hnix9 : NIX s8) by (exact (NIX_R2 _ _ _ _ (R2_emit_label lelse) Hnix8 E9)).
        st_step (St_emit (ISetLabel lelse) eq_refl) E9 Hacc9. ecore E9.
        dstep H Hacc as slot E10 Hacc10.
        assert (Hnix10 : NIX s9) by (exact (NIX_R2 _ _ _ _ R2_pop Hnix9 E10)).
        st_step St_pop E10 Hacc10. ecore E10.
        dstep H Hacc as u11 E11 Hacc11.
        vh_step (HIFC ei (Some lend) lloop _ Hnix10) E11 Hacc11 d3 L3 D3 Hd3.
        destruct Hd3 as (Hv3 & Helif). rewrite Hv8, Htl2 in Ev0. rewrite Hh8 in Eh0, D3, L3.
        vh_step (V_set_end_kid slot le lend _) H Hacc t L5 D5 Ht.
        destruct Ht as (Ht0 & Ht1 & Hh5 & Hv5').
        assert (Dt : DefsIn (hr s10) (hr s10) t).
        { destruct le; [rewrite (Ht1 ltac:(discriminate)); constructor | rewrite (Ht0 eq_refl); apply DefsIn_nondef; reflexivity]. }
        destruct HS as (Wend & _ & _).
        exists ((dcond ++ ci :: ISetLabel lbegin :: (d2 ++ j) ++ (ISetLabel lelse :: d3)) ++ t).
        split; [rewrite HC; f_equal; vsplit_eq|]. split; [exact Wend|].
        assert (Ehe : hr s_end = hr s10) by congruence.
        rewrite Ehe. split; [lia|]. split; [defs_go|]. destruct a.
        apply (Q_IFC_close _ le lloop lend _ _ _ _ (hr s10)); [fold ts; congruence | exact Ehe | | exact Hle | exact Ht0 | exact Ht1].
        intros ll HLl HCl ke te Hk. fold ts in HCl, Hk. fold h0.
        eapply (VFragL_if V I c Hnd Hres lend ke te ll cnd body None (Some ei) dcond ci lbegin lelse
                  (d2 ++ j) (ISetLabel lelse :: d3) ts h0 (hr s4) (hr s6) (hr s10));
          [exact Hcond | exact Hci | apply Hthen; assumption | | exact Dc | defs_go | defs_go | lia | lia | lia].
        left. exists lelse, d3. split; [reflexivity|]. split; [reflexivity|].
        cbn [velse_run]. rewrite Ev0 in Helif. rewrite Eh0 in Helif.
        apply Helif; assumption.
      - (* no else part *)
        dstep H Hacc as u9 E9 Hacc9.
        vh_step (V_set_end le lend _) E9 Hacc9 t L5 D5 Ht.
        destruct Ht as (Ht0 & Ht1 & Hh5 & Hv5').
        dstep H Hacc as u10 E10 Hacc10. st_step St_pop E10 Hacc10. ecore E10.
        inversion H; subst; clear H.
        assert (Dt : DefsIn (hr s6) (hr s6) t).
        { destruct le; [rewrite (Ht1 ltac:(discriminate)); constructor | rewrite (Ht0 eq_refl); apply DefsIn_nondef; reflexivity]. }
        destruct HS as (Wend & Ehe & Eve).
        exists ((dcond ++ ci :: ISetLabel lbegin :: (d2 ++ j) ++ []) ++ t).
        split; [rewrite HC; f_equal; rewrite app_nil_r; vsplit_eq|]. split; [exact Wend|].
        assert (Ehe' : hr s_end = hr s6) by congruence.
        rewrite Ehe'. split; [lia|]. split; [defs_go|].
        apply (Q_IFC_close _ le lloop lend _ _ _ _ (hr s6)); [fold ts; congruence | exact Ehe' | | exact Hle | exact Ht0 | exact Ht1].
        intros ll HLl HCl ke te Hk. fold ts in HCl, Hk. fold h0.
        eapply (VFragL_if V I c Hnd Hres lend ke te ll cnd body None None dcond ci lbegin lend
                  (d2 ++ j) [] ts h0 (hr s4) (hr s6) (hr s6));
          [exact Hcond | exact Hci | apply Hthen; assumption | | exact Dc | defs_go | constructor | lia | lia | lia].
        right. repeat split; try reflexivity. exact Hk.
    Qed.
    Lemma V_loop_step body s : NIX s -> VH s (loop_step G fuel RT IFC LOOP body) (Q_LOOP body s).
    Proof.
      intros Hnix W a s_end H Hacc.
      pose proof Mono_run_body' as HM1.
      assert (HS : St' s (hr s) (vals s)) by (split; [exact W | split; reflexivity]).
      assert (HneC : ctxs s <> []).
      { destruct W as [Hne _]. unfold ctxs. intro E. apply map_eq_nil in E. contradiction. }
      remember (ctxs s) as C eqn:HC. symmetry in HC.
      set (h0 := hr s) in *. set (ts := vals s) in *.
      unfold loop_step in H.
      dstep H Hacc as u1 E1 Hacc1.
      assert (Hnix1 : NIX s0) by (exact (NIX_R2 _ _ _ _ R2_push Hnix E1)).
      st_step St_push E1 Hacc1. ecore E1.
      dstep H Hacc as lbegin E2 Hacc2.
      assert (Hnix2 : NIX s1) by (exact (NIX_R2 _ _ _ _ (R2_gen_label _) Hnix1 E2)).
      st_step (St_gen "loop_begin") E2 Hacc2. ecore E2.
      dstep H Hacc as lend E3 Hacc3.
      assert (Hnix3 : NIX s2) by (exact (NIX_R2 _ _ _ _ (R2_gen_label _) Hnix2 E3)).
      st_step (St_gen "loop_end") E3 Hacc3. ecore E3.
      dstep H Hacc as u4 E4 Hacc4.
      assert (Hnix4 : NIX s3) by (exact (NIX_R2 _ _ _ _ (R2_emit_jump lbegin) Hnix3 E4)).
      st_step (St_emit (IJumpTo lbegin) eq_refl) E4 Hacc4. ecore E4.
      dstep H Hacc as u5 E5 Hacc5.
      assert (Hnix5 : NIX s4) by (exact (NIX_R2 _ _ _ _ (R2_emit_label lbegin) Hnix4 E5)).
      st_step (St_emit (ISetLabel lbegin) eq_refl) E5 Hacc5. ecore E5.
      dstep H Hacc as fl E6 Hacc6.
      vh_step (V_run_body KLoop "" (Some (lbegin, lend)) body flags0 _ Hnix5) E6 Hacc6 db L6 D6 Hdb.
      destruct Hdb as (Htl6 & Hdb & _). specialize (Hdb eq_refl). cbn [tl] in Htl6.
      assert (Hbody : VF None (Some (lbegin, lend, 1%nat, ts))
                         (fun n env => vexec_stmts V I true n false body env) (fl_ret fl) db
                         ([] :: ts) (vals s5) h0 (hr s5)).
      { rewrite <- Ev, <- Eh. apply (Hdb None (Some (lbegin, lend, 1%nat, ts))).
        - reflexivity.
        - exists 1%nat, ts. reflexivity.
        - intros le k te E. discriminate.
        - rewrite Ev. intros lb le k tq E. inversion E; subst. exists O. split; reflexivity. }
      clear Hdb.
      dstep H Hacc as u7 Hmid Hacc7.
      assert (Hfin : forall tail s6',
                ctxs s6' = adds tail (((([] ++ [IJumpTo lbegin]) ++ [ISetLabel lbegin]) ++ db)
                                       :: adds (([IJumpTo lbegin] ++ [ISetLabel lbegin]) ++ db) C) ->
                St' s6' (hr s5) (vals s5) ->
                (pop_child ;;; ret tt) s6' = Ok a s_end ->
                ((fl_ret fl = false /\ tail = [IJumpTo lbegin; ISetLabel lend]) \/
                 (fl_ret fl = true /\ (tail = [ISetLabel lend] \/ (~ In (IJumpTo lend) db /\ tail = [])))) ->
                exists d, ctxs s_end = adds d C /\ WF s_end /\ h0 <= hr s_end /\
                          DefsIn h0 (hr s_end) d /\ Q_LOOP body s a s_end d).
      { intros tail s6' HC' HS' H' Htail. clear HC Hmid HS H. rename HC' into HC. norm HC.
        dstep H' Hacc as u8 E8 Hacc8. st_step St_pop E8 Hacc8. ecore E8. inversion H'; subst; clear H'.
        destruct HS' as (Wend & Ehe & Eve).
        assert (Dtail : DefsIn (hr s5) (hr s5) tail).
        { destruct Htail as [[_ ->]|[_ [->|[_ ->]]]]; constructor. }
        exists (IJumpTo lbegin :: ISetLabel lbegin :: db ++ tail).
        split; [rewrite HC; f_equal; vsplit_eq|]. split; [exact Wend|]. rewrite Ehe.
        split; [exact L6|]. split; [defs_go|].
        split; [fold ts; rewrite Eve, Htl6; reflexivity|].
        intros oe ll. fold ts. fold h0. rewrite Ehe.
        eapply (VFrag_loop V I c Hnd Hres); [exact Hbody | exact Htl6 | exact Htail]. }
      destruct (fl_ret fl) eqn:Efl.
      - rewrite bind_gets_eq, head_ctx_ctxs, HC in Hmid. cbn [hd] in Hmid.
        destruct (existsb (is_jump_to lend) _) eqn:Eex in Hmid; cbn [when] in Hmid.
        + st_step (St_emit (ISetLabel lend) eq_refl) Hmid Hacc7.
          pose proof (step_emit _ _ _ _ _ HC Hmid) as HC'.
          eapply (Hfin [ISetLabel lend]); [exact HC' | exact HS | exact H|].
          right. split; [reflexivity|]. left. reflexivity.
        + assert (Hno : ~ In (IJumpTo lend) db).
          { intro Hin. rewrite <- Bool.not_true_iff_false in Eex. apply Eex.
            apply existsb_exists. exists (IJumpTo lend).
            split; [apply in_or_app; right; exact Hin | cbn; apply String.eqb_refl]. }
          inversion Hmid; subst. eapply (Hfin []); [rewrite adds_nil; exact HC | exact HS | exact H|].
          right. split; [reflexivity|]. right. split; [exact Hno | reflexivity].
      - dstep Hmid Hacc7 as v1 F1 Hf1.
        st_step (St_emit (IJumpTo lbegin) eq_refl) F1 Hf1. ecore F1.
        st_step (St_emit (ISetLabel lend) eq_refl) Hmid Hacc7. ecore Hmid.
        eapply (Hfin [IJumpTo lbegin; ISetLabel lend]); [|exact HS | exact H|].
        + rewrite HC, adds_cons, adds_adds. f_equal; [vsplit_eq | f_equal; vsplit_eq].
        + left. split; reflexivity.
    Qed.
  End Control.

  (** ** The control level *)
  Lemma V_control n :
    (forall i le lloop s, NIX s -> VH s (if_condition G fuel RT n i le lloop) (Q_IFC i le lloop s)) /\
    (forall body s, NIX s -> VH s (loop_statement G fuel RT n body) (Q_LOOP body s)).
  Proof.
    induction n as [|n [IH1 IH2]]; split; intros; cbn [if_condition loop_statement];
      try apply VH_oof; destruct (R2_control G fuel RT n) as [R1 R2'].
    - apply V_if_condition_step; assumption.
    - apply V_loop_step; assumption.
  Qed.

  (** ** The function level *)
  Definition Q_fn (ss : list stmt) (s : bst) (ret' : bool) (s' : bst) (d : list instr) : Prop :=
    VF None None (fun n env => vexec_stmts V I true n false ss env) ret' d
       (vals s) (vals s') (hr s) (hr s').

  Lemma V_fn_stmt st s :
    NIX s ->
    VH s (fn_stmt G fuel RT false st)
       (fun ret' s' d => VF None None (fun n env => vexec_stmt V I true n false st env) ret' d
                            (vals s) (vals s') (hr s) (hr s')).
  Proof.
    intro Hnix. destruct (V_control fuel) as [HI HLp].
    assert (Hret : forall e st', (st' = SRet e \/ st' = SExprStmt e) ->
      VH s (r <- expression G fuel e ;;
            when false (add_error (Err EReturnAlreadyCalled None loc10)) ;;;
            match r with
            | Some er =>
                check_type_exists G (r_ty er) None loc10 ;;;
                when (negb (sem_ty_eqb RT (r_ty er))) (add_error (Err EWrongReturnType None loc10)) ;;;
                mret <- gets head_mret ;;
                (if mret then emit (IFnRetLabel er) else emit (IFnRet er)) ;;;
                ret true
            | None => ret false
            end)
         (fun ret' s' d => VF None None (fun n env => vexec_stmt V I true n false st' env) ret' d
                              (vals s) (vals s') (hr s) (hr s'))).
    { intros e st' Hst.
      pose proof (Mono_expression G fuel). pose proof (Mono_check_type_exists G).
      eapply VH_bind; [apply (V_expression V I c G HW) | intros; mono_go |].
      intros r s1 d1 (er & -> & Hv1 & Hle1 & HX1) HC1 W1 L1 D1. cbv beta. cbn [when].
      eapply VH_bind; [apply VH_ret with (Q := fun _ s' d => s' = s1 /\ d = []); split; reflexivity
                      | intros; mono_go |].
      intros _ s2 d2 (-> & ->) _ _ _ _.
      eapply VH_bind; [apply VH_check_type_exists | intros; mono_go |].
      intros ok s3 d3 (-> & _ & -> & _) _ _ _ _.
      eapply VH_bind with (Q1 := fun _ s' d => s' = s1 /\ d = []).
      { destruct (negb _); cbn [when]; [apply VH_error_last | apply VH_ret; split; reflexivity]. }
      { intros; mono_go. }
      intros _ s4 d4 (-> & ->) _ _ _ _.
      apply VH_gets_bind.
      eapply VH_bind with
        (Q1 := fun _ s' d => exists i, is_vret i er /\ d = [i] /\ hr s' = hr s1 /\ vals s' = vals s1).
      { destruct (head_mret (frames s1)); (eapply VH_conseq; [apply VH_emit; reflexivity|]);
          intros u s' d (-> & Hh & Hv); eexists; (split; [|repeat split; eassumption]).
        - right. left. reflexivity.
        - left. reflexivity. }
      { intros; mono_go. }
      intros u5 s5 d5 (i & Hi & Ed5 & Hh5 & Hv5) _ _ _ _. subst d5. apply VH_ret. do 5 (intros _ _).
      cbn [app]. rewrite ?app_nil_r.
      replace (vals s5) with (vals s) by congruence. rewrite Hh5.
      apply VFrag_ret. eapply Ret_spec; [exact Hst | exact Hi | exact HX1 | exact D1 | exact L1]. }
    destruct st; cbn [fn_stmt].
    - eapply VH_bind; [apply (Line_let false), Hnix | intros; mono_go |].
      intros u s1 d1 (Htl & HL) _ _ _ _. apply VH_ret. intros _ _. rewrite app_nil_r.
      apply VFrag_line, HL.
    - eapply VH_bind; [apply (Line_bind false), Hnix | intros; mono_go |].
      intros u s1 d1 (Hv & HL) _ _ _ _. apply VH_ret. intros _ _. rewrite app_nil_r.
      apply VFrag_line, HL.
    - eapply VH_bind; [apply (Line_call false) | intros; mono_go |].
      intros u s1 d1 (Hv & HL) _ _ _ _. apply VH_ret. intros _ _. rewrite app_nil_r.
      apply VFrag_line, HL.
    - eapply VH_bind; [apply HI, Hnix | intros; mono_go |].
      intros u s1 d1 (Hv & HQ) _ _ _ _. apply VH_ret. intros _ _. rewrite app_nil_r. rewrite Hv.
      destruct (HQ None eq_refl) as (le' & d' & -> & HF).
      { intros lb le k tq E. discriminate. }
      apply VFrag_if_outer; assumption.
    - eapply VH_bind; [apply HLp, Hnix | intros; mono_go |].
      intros u s1 d1 (Hv & HQ) _ _ _ _. apply VH_ret. intros _ _. rewrite app_nil_r. rewrite Hv.
      eapply VFrag_ext; [|apply VFrag_shift, HQ]. intros [|n] env; reflexivity.
    - apply (Hret e (SRet e)). left. reflexivity.
    - apply (Hret e (SExprStmt e)). right. reflexivity.
    - apply VH_panic.
    - apply VH_panic.
  Qed.

  Lemma V_fn_stmts : forall ss ret0 s,
    NIX s ->
    VH s (fn_stmts G fuel RT ret0 ss)
       (fun ret1 s' d =>
          (ret0 = false -> Q_fn ss s ret1 s' d) /\
          (ret0 = true -> ss = [] /\ d = [] /\ ret1 = ret0 /\ s' = s)).
  Proof.
    pose proof (Mono_fn_stmt G fuel RT) as HM1. pose proof (Mono_fn_stmts G fuel RT) as HM2.
    induction ss as [|st ss IH]; intros ret0 s Hnix; cbn [fn_stmts].
    - apply VH_ret. split.
      + intros ->. apply VFrag_nil. intros n env. apply vexec_stmts_nil.
      + intros _. repeat split.
    - eapply VH_bind with (Q1 := fun _ s' d => s' = s /\ d = [] /\ ret0 = false).
      { destruct ret0; cbn [when]; [apply VH_error_last | apply VH_ret; repeat split]. }
      { intros; mono_go. }
      intros _ s0 d0 (-> & -> & ->) _ _ _ _. cbv beta.
      eapply VH_bind; [apply VH_NIX; [apply R2_fn_stmt | exact Hnix | apply (V_fn_stmt st s Hnix)]
                      | intros; mono_go |].
      intros r1 s1 d1 (Hnix1 & HF1) HC1 W1 L1 D1. cbv beta.
      apply VH_self. eapply VH_conseq; [apply (IH r1 s1 Hnix1)|].
      intros ret1 s' d2 (HF2 & HF2') HC2 W2 L2 D2 _ _. cbn [app].
      split; [|discriminate]. intros _. unfold Q_fn in *.
      destruct r1.
      + destruct (HF2' eq_refl) as (-> & -> & -> & ->).
        eapply VFrag_ext; [|apply (VFrag_seq V I c None None _ (fun n env => vexec_stmts V I true n false [] env)
                                              true false d1 [] _ _ _ _ (hr s1) _ HF1)].
        * intros [|n] env; reflexivity.
        * apply VFrag_nil. intros n env. apply vexec_stmts_nil.
        * exact D1.
        * constructor.
        * exact L1.
        * lia.
      + eapply VFrag_ext; [|apply (VFrag_seq V I c None None _ _ false _ _ _ _ _ _ _ _ _ HF1 (HF2 eq_refl) D1 D2 L1 L2)].
        intros [|n] env; reflexivity.
  Qed.
End Sim.

