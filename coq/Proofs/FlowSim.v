(** C05, the simulation: in an accepted program, the jump program of a function does, for every
    string of condition outcomes, what the structured execution (with the recorded finding F5:
    [quirk = true]) of its source statements does.

    The analyzer is followed forward, as in [Resolve.v]: every computation appends one delta to
    the stack of every live frame ([DS]); the delta of a statement / block / if / loop is a
    fragment in the sense of [FlowFrag.v] for the structured run of that piece of source, in
    whatever jump program [c] (no label set twice, every named label set) it occurs. *)
From Coq Require Import Lia.
From SA Require Import Model.
From SA.Spec Require Import Stack Exec.
From SA.Mon Require Import Control.
From SA.Proofs Require Import Trace InvNames InvLabels Resolve ExecBasic.
From SA.Proofs Require Import FlowBasic FlowSem FlowExpr FlowFrag.
Local Open Scope list_scope.

(** ** Stepping through a run that ends without errors *)
Lemma acc_back {A} (m : M A) s a s' : Mono m -> m s = Ok a s' -> errs s' = [] -> errs s = [].
Proof. intros Hm E H. eapply errs_le_nil; [eapply Hm, E | exact H]. Qed.

Lemma step_DS {A} (Q : A -> list instr -> Prop) (m : M A) s a s' X :
  DS m Q -> ctxs s = X -> X <> [] -> m s = Ok a s' -> errs s' = [] ->
  exists d, Q a d /\ ctxs s' = adds d X.
Proof.
  intros Hm <- Hne E Hacc. destruct (Hm s a s' Hne E Hacc) as (d & HC & Hd). exists d. split; assumption.
Qed.

Lemma step_same {A} (m : M A) s a s' X :
  (forall s a s', m s = Ok a s' -> ctxs s' = ctxs s) -> ctxs s = X -> m s = Ok a s' -> ctxs s' = X.
Proof. intros Hm <- E. eapply Hm, E. Qed.

(** [H : (m ;; k) s = Ok b s_end], [Hacc : errs s_end = []]: split off [E : m s = Ok x s1] and
    derive [errs s1 = []] from the continuation *)
Ltac dstep_ H Hacc x E Hacc1 :=
  let s1 := fresh "s" in
  apply bind_ok in H as (x & s1 & E & H); cbv beta in H;
  match type of H with
  | ?k s1 = Ok ?b ?s' =>
      assert (Hacc1 : errs s1 = []) by (refine (acc_back k s1 b s' _ H Hacc); mono_go)
  end.
Tactic Notation "dstep" hyp(H) hyp(Hacc) "as" ident(x) ident(E) ident(Hacc1) :=
  dstep_ H Hacc x E Hacc1.

(** use a [DS] fact on [E : m s = Ok x s1], with [HC : ctxs s = X] *)
Ltac dcore_ lem d HQ E :=
  match type of E with
  | ?m ?s = Ok ?x ?s1 =>
      match goal with
      | HC : ctxs s = ?X, Ha : errs s1 = [] |- _ =>
          let HC1 := fresh "HC" in let Hn := fresh "Hn" in
          assert (Hn : X <> []) by ne_solve;
          destruct (step_DS _ m s x s1 X lem HC Hn E Ha) as (d & HQ & HC1);
          clear Hn E HC; rename HC1 into HC; norm HC
      end
  end.
Tactic Notation "dcore" constr(lem) "as" ident(d) ident(HQ) "in" hyp(E) := dcore_ lem d HQ E.

(** a step that pushes nothing *)
Ltac score_ lem E :=
  match type of E with
  | ?m ?s = Ok ?x ?s1 =>
      match goal with
      | HC : ctxs s = ?X |- _ =>
          let HC1 := fresh "HC" in
          pose proof (step_same m s x s1 X lem HC E) as HC1;
          clear E HC; rename HC1 into HC
      end
  end.
Tactic Notation "score" uconstr(lem) "in" hyp(E) := score_ lem E.

(** ** Small facts about the analyzer *)
Lemma when_error_acc b e s u s' :
  when b (add_error e) s = Ok u s' -> errs s' = [] -> b = false /\ s' = s.
Proof.
  destruct b; cbn [when]; intros H Hacc.
  - exfalso. eapply add_error_not_nil; eassumption.
  - inversion H. split; reflexivity.
Qed.

Lemma check_return_type_ctxs RT er s a s' : check_return_type RT er s = Ok a s' -> ctxs s' = ctxs s.
Proof.
  unfold check_return_type. destruct (negb _); cbn [when]; intro H.
  - eapply add_error_ctxs, H.
  - inversion H; reflexivity.
Qed.

Lemma check_type_exists_ctxs G t v l s a s' : check_type_exists G t v l s = Ok a s' -> ctxs s' = ctxs s.
Proof.
  unfold check_type_exists. destruct (is_prim t); [intro H; inversion H; reflexivity|].
  destruct (amem _ _); [intro H; inversion H; reflexivity|].
  intro H. apply bind_ok in H as (u & s1 & E & H). inversion H; subst.
  eapply add_error_ctxs, E.
Qed.

Lemma when_error_ctxs b e s u s' : when b (add_error e) s = Ok u s' -> ctxs s' = ctxs s.
Proof.
  destruct b; cbn [when]; intro H; [eapply add_error_ctxs, H | inversion H; reflexivity].
Qed.

Lemma code_after_errors_ctxs k fl s u s' : code_after_errors k fl s = Ok u s' -> ctxs s' = ctxs s.
Proof.
  unfold code_after_errors. intro H. apply bind_ok in H as (x & s1 & E & H).
  apply when_error_ctxs in E. rewrite <- E. destruct k; [inversion H; reflexivity| |];
    apply bind_ok in H as (y & s2 & E2 & H); apply when_error_ctxs in E2; apply when_error_ctxs in H;
    congruence.
Qed.

Lemma code_after_errors_acc k fl s u s' :
  code_after_errors k fl s = Ok u s' -> errs s' = [] -> fl_ret fl = false.
Proof.
  unfold code_after_errors. intros H Hacc.
  dstep H Hacc as x E Hacc1.
  exact (proj1 (when_error_acc _ _ _ _ _ E Hacc1)).
Qed.

Lemma Mono_init_func_params : forall ps, Mono (init_func_params ps).
Proof. induction ps as [|[x t] ps IH]; cbn [init_func_params]; mono_go. Qed.

Lemma SL_init_func_params : forall ps, SL (init_func_params ps) (fun _ ev => ev = []).
Proof.
  pose proof Mono_init_func_params as HM.
  induction ps as [|[x t] ps IH]; cbn [init_func_params]; [apply SL_ret; reflexivity|].
  unfold lookup_value. apply SL_gets_bind. intros [v|]; [apply SL_add_error_last|].
  eapply SL_bind; [apply SL_insert_value with (P := fun _ ev => ev = []); reflexivity | intros; mono_go|].
  intros _ ev1 ->. cbn [app].
  eapply SL_bind; [apply SL_set_inner_name with (P := fun _ ev => ev = []); reflexivity | intros; mono_go|].
  intros _ ev1 ->. cbn [app].
  eapply SL_bind; [apply SL_emit with (P := fun _ ev => ev = []); reflexivity | intros; mono_go|].
  intros _ ev1 ->. cbn [app]. exact IH.
Qed.

(** ** The simulation, for a fixed jump program *)
Section Sim.
  Variable G : globals.
  Hypothesis HG : fnames_ok G.
  Variable fuel : nat.
  Variable RT : sem_ty.

  Variable c : list instr.
  Hypothesis Hnd : NoDup (set_labels c).
  Hypothesis Hres : resolved c.

  Definition in_if_of (k : bkind) : bool := match k with KLoop => false | _ => true end.

  (** what the delta of an if statement is, depending on who owns the end label *)
  Definition Q_IFC (i : ifstmt) (oe : option string) (ll : option (string * string))
             (_ : unit) (d : list instr) : Prop :=
    match oe with
    | Some le => FragL c le ll (fun n w => exec_if true n i w) d
    | None => exists lend d', d = d' ++ [ISetLabel lend] /\
                              FragL c lend ll (fun n w => exec_if true n i w) d'
    end.

  Definition Q_LOOP (body : list stmt) (_ : unit) (d : list instr) : Prop :=
    forall oe ll, Frag c oe ll (fun n w => exec_loop true n body w) false d.

  (** the structured runs of the simple statements *)
  Lemma run_simple b st ev :
    (forall n w, exec_stmt true (S n) b st w = (ev, Normal, w)) ->
    forall n w, exec_stmt true n b st w = (ev, Normal, w) \/ exec_stmt true n b st w = out_of_fuel_res w.
  Proof. intros H [|n] w; [right; reflexivity | left; apply H]. Qed.

  Lemma DS_then_ret {A B} (m : M A) (b : B) (Q : A -> list instr -> Prop) :
    DS m Q -> DS (m ;;; ret b) (fun b' d => b' = b /\ exists a, Q a d).
  Proof.
    intros Hm s b' s' Hne H Hacc. apply bind_ok in H as (a & s1 & E & H). inversion H; subst.
    destruct (Hm s a s' Hne E Hacc) as (d & HC & HQ). exists d. split; [exact HC|].
    split; [reflexivity | exists a; exact HQ].
  Qed.

  Section Control.
    Variable IFC : ifstmt -> option string -> option (string * string) -> M unit.
    Variable LOOP : list stmt -> M unit.
    Hypothesis HIFC : forall i oe ll, DS (IFC i oe ll) (Q_IFC i oe ll).
    Hypothesis HLOOP : forall body, DS (LOOP body) (Q_LOOP body).
    Hypothesis HIFCr : forall i oe ll, R2 (IFC i oe ll).
    Hypothesis HLOOPr : forall body, R2 (LOOP body).

    Lemma HIFCm i oe ll : Mono (IFC i oe ll).
    Proof. apply Mono_R2, HIFCr. Qed.
    Lemma HLOOPm body : Mono (LOOP body).
    Proof. apply Mono_R2, HLOOPr. Qed.
    Lemma Mono_nested_stmt k lend lloop fl st : Mono (nested_stmt G fuel RT IFC LOOP k lend lloop fl st).
    Proof. apply Mono_R2, R2_nested_stmt; assumption. Qed.
    Lemma Mono_run_body k lend lloop fl ss : Mono (run_body G fuel RT IFC LOOP k lend lloop fl ss).
    Proof. apply Mono_R2, R2_run_body; assumption. Qed.
    Lemma Mono_if_body b lend lloop : Mono (if_body G fuel RT IFC LOOP b lend lloop).
    Proof. apply Mono_R2, R2_if_body; assumption. Qed.

    Lemma DS_nested_stmt k lend lloop fl st :
      fl_ret fl = false ->
      DS (nested_stmt G fuel RT IFC LOOP k lend lloop fl st)
         (fun fl' d => Frag c (oeK k lend) lloop
                            (fun n w => exec_stmt true n (in_if_of k) st w) (fl_ret fl') d).
    Proof.
      intro Hfl. destruct st; cbn [nested_stmt].
      - (* let *)
        eapply DS_conseq; [apply DS_then_ret, (SL_let_binding G HG fuel)|].
        intros fl' d (-> & u & HL & Hev). rewrite Hfl.
        eapply Frag_line; [exact HL | exact Hev|]. apply run_simple. reflexivity.
      - eapply DS_conseq; [apply DS_then_ret, (SL_binding G HG fuel)|].
        intros fl' d (-> & u & HL & Hev). rewrite Hfl.
        eapply Frag_line; [exact HL | exact Hev|]. apply run_simple. reflexivity.
      - eapply DS_conseq; [apply DS_then_ret, (SL_call_stmt G HG fuel)|].
        intros fl' d (-> & u & HL & Hev). rewrite Hfl.
        eapply Frag_line; [exact HL | exact Hev|]. apply run_simple. reflexivity.
      - (* if *)
        destruct k; cbn [oeK in_if_of].
        + eapply DS_conseq; [apply DS_then_ret, HIFC|].
          intros fl' d (-> & u & HQ). rewrite Hfl. cbn [Q_IFC] in HQ.
          apply Frag_if_inner; assumption.
        + eapply DS_conseq; [apply DS_then_ret, HIFC|].
          intros fl' d (-> & u & HQ). rewrite Hfl. cbn [Q_IFC] in HQ.
          apply Frag_if_inner; assumption.
        + eapply DS_conseq; [apply DS_then_ret, HIFC|].
          intros fl' d (-> & u & HQ). rewrite Hfl. cbn [Q_IFC] in HQ.
          destruct HQ as (le & d' & -> & HQ). apply Frag_if_outer; assumption.
      - (* loop *)
        eapply DS_conseq; [apply DS_then_ret, HLOOP|].
        intros fl' d (-> & u & HQ). rewrite Hfl.
        eapply Frag_ext; [|apply Frag_shift, HQ]. intros [|n] w; reflexivity.
      - (* return *)
        intros s fl' s' Hne H Hacc.
        pose proof (Mono_check_return_type RT) as HM1.
        dstep H Hacc as r E Hacc1.
        destruct (SL_expression G HG fuel e s r _ Hne E Hacc1) as (d0 & HC0 & HL0 & Hr & Hev0).
        destruct r as [er|]; [|congruence].
        remember (ctxs s) as C eqn:HCs. symmetry in HCs. clear HCs.
        rename HC0 into HC.
        dstep H Hacc as u1 E1 Hacc2. score (check_return_type_ctxs RT er) in E1.
        dstep H Hacc as u2 E2 Hacc3. ecore E2.
        dstep H Hacc as u3 E3 Hacc4. score set_return_ctxs in E3.
        inversion H; subst; clear H. cbn [fl_ret].
        eexists. split; [exact HC|].
        eapply Frag_ret; [exact HL0 | exact Hev0 | exact I|].
        intros [|n] w; [right | left]; reflexivity.
      - (* expression statement *)
        intros s fl' s' Hne H. discriminate.
      - (* break *)
        destruct k; try (intros s fl' s' Hne H; discriminate);
          (destruct lloop as [[lb le]|]; [|intros s fl' s' Hne H; discriminate]);
          cbn [oeK in_if_of];
          (eapply DS_conseq; [apply DS_then_ret with (Q := fun _ d => d = [IJumpTo le])|]);
          try (intros s a s' _ E _; exists [IJumpTo le]; split; [eapply emit_ctxs, E | reflexivity]);
          (intros fl' d (-> & u & ->); cbn [fl_ret]; rewrite Hfl;
           apply Frag_break; [assumption|]; intros [|n] w; [right | left]; reflexivity).
      - (* continue *)
        destruct k; try (intros s fl' s' Hne H; discriminate);
          (destruct lloop as [[lb le]|]; [|intros s fl' s' Hne H; discriminate]);
          cbn [oeK in_if_of];
          (eapply DS_conseq; [apply DS_then_ret with (Q := fun _ d => d = [IJumpTo lb])|]);
          try (intros s a s' _ E _; exists [IJumpTo lb]; split; [eapply emit_ctxs, E | reflexivity]);
          (intros fl' d (-> & u & ->); cbn [fl_ret]; rewrite Hfl;
           apply Frag_continue; [assumption|]; intros [|n] w; [right | left]; reflexivity).
    Qed.

    Lemma DS_run_body k lend lloop : forall ss fl,
      DS (run_body G fuel RT IFC LOOP k lend lloop fl ss)
         (fun fl' d =>
            (fl_ret fl = false ->
             Frag c (oeK k lend) lloop (fun n w => exec_stmts true n (in_if_of k) ss w)
                  (fl_ret fl') d) /\
            (fl_ret fl = true -> ss = [] /\ d = [] /\ fl' = fl)).
    Proof.
      pose proof Mono_nested_stmt as HM1. pose proof Mono_run_body as HM2.
      induction ss as [|st ss IH]; intros fl s fl' s' Hne H Hacc; cbn [run_body] in H.
      - inversion H; subst. exists []. rewrite adds_nil. split; [reflexivity|]. split.
        + intro Hfl. rewrite Hfl. apply Frag_nil. intros n w. apply exec_stmts_nil.
        + intros _. repeat split.
      - dstep H Hacc as u E Hacc1.
        pose proof (code_after_errors_acc _ _ _ _ _ E Hacc1) as Hfl.
        pose proof (code_after_errors_ctxs _ _ _ _ _ E) as HC0.
        dstep H Hacc as fl1 E1 Hacc2.
        assert (Hne0 : ctxs s0 <> []) by (rewrite HC0; exact Hne).
        destruct (DS_nested_stmt k lend lloop fl st Hfl _ _ _ Hne0 E1 Hacc2) as (d1 & HC1 & HF1).
        assert (Hne1 : ctxs s1 <> []) by (rewrite HC1; apply adds_ne, Hne0).
        destruct (IH fl1 _ _ _ Hne1 H Hacc) as (d2 & HC2 & HF2 & HF2').
        exists (d1 ++ d2). split; [rewrite HC2, HC1, HC0, adds_adds; reflexivity|].
        split; [|intro Hx; congruence]. intros _.
        destruct (fl_ret fl1) eqn:Efl1.
        + destruct (HF2' eq_refl) as (-> & -> & ->). rewrite Efl1.
          eapply Frag_ext; [|apply (Frag_seq c _ _ _ (fun n w => exec_stmts true n (in_if_of k) [] w) true false _ [] HF1)].
          * intros [|n] w; reflexivity.
          * apply Frag_nil. intros n w. apply exec_stmts_nil.
        + eapply Frag_ext; [|apply (Frag_seq c _ _ _ _ false _ _ _ HF1 (HF2 eq_refl))].
          intros [|n] w; reflexivity.
    Qed.

    Lemma DS_if_body b lend lloop :
      DS (if_body G fuel RT IFC LOOP b lend lloop)
         (fun returned d =>
            Frag c (Some lend) lloop (fun n w => exec_stmts true n true (ifbody_stmts b) w)
                 returned d).
    Proof.
      destruct b as [ss|ss]; cbn [if_body ifbody_stmts].
      - intros s r s' Hne H Hacc. apply bind_ok in H as (fl & s1 & E & H). inversion H; subst.
        destruct (DS_run_body KIf lend lloop ss flags0 _ _ _ Hne E Hacc) as (d & HC & HF & _).
        exists d. split; [exact HC | exact (HF eq_refl)].
      - destruct lloop as [l|]; [|intros s r s' Hne H; discriminate].
        intros s r s' Hne H Hacc. apply bind_ok in H as (fl & s1 & E & H). inversion H; subst.
        destruct (DS_run_body KIfLoop lend (Some l) ss flags0 _ _ _ Hne E Hacc) as (d & HC & HF & _).
        exists d. split; [exact HC | exact (HF eq_refl)].
    Qed.

    (** the condition: straight-line code, then the conditional instruction *)
    Lemma DS_calc cnd lb le lend ie :
      DS (if_condition_calculation G fuel cnd lb le lend ie)
         (fun _ d => exists d0 ci, d = d0 ++ [ci] /\ Line d0 /\ levs d0 = cond_events cnd /\
                                   is_cond ci lb (if ie then le else lend)).
    Proof.
      unfold if_condition_calculation. cbv zeta. destruct cnd as [e|lc]; intros s u s' Hne H Hacc.
      - dstep H Hacc as r E Hacc1.
        destruct (SL_expression G HG fuel e s r _ Hne E Hacc1) as (d0 & HC0 & HL0 & Hr & Hev0).
        destruct r as [er|]; [|congruence].
        exists (d0 ++ [IIfCondExpr er lb (if ie then le else lend)]).
        split; [rewrite <- adds_adds, <- HC0; eapply emit_ctxs, H|].
        eexists _, _. split; [reflexivity|]. split; [exact HL0|]. split; [exact Hev0|].
        left. eexists. reflexivity.
      - dstep H Hacc as r E Hacc1.
        destruct (SL_condition_expression G HG fuel lc s r _ Hne E Hacc1) as (d0 & HC0 & HL0 & Hev0).
        exists (d0 ++ [IIfCondLogic lb (if ie then le else lend) r]).
        split; [rewrite <- adds_adds, <- HC0; eapply emit_ctxs, H|].
        eexists _, _. split; [reflexivity|]. split; [exact HL0|]. split; [exact Hev0|].
        right. eexists. reflexivity.
    Qed.

    Lemma DS_jump_end returned lend :
      DS (when (negb returned) (emit (IJumpTo lend)))
         (fun _ j => (returned = false -> j = [IJumpTo lend]) /\ (returned = true -> j = [])).
    Proof.
      intros s u s' _ H _. destruct returned; cbn [negb when] in H.
      - inversion H; subst. exists []. rewrite adds_nil. repeat split; congruence.
      - exists [IJumpTo lend]. split; [eapply emit_ctxs, H|]. repeat split; congruence.
    Qed.
    Lemma DS_jump_end_kid slot returned lend :
      DS (when (negb returned) (emit_kid slot (IJumpTo lend)))
         (fun _ j => (returned = false -> j = [IJumpTo lend]) /\ (returned = true -> j = [])).
    Proof.
      intros s u s' _ H _. destruct returned; cbn [negb when] in H.
      - inversion H; subst. exists []. rewrite adds_nil. repeat split; congruence.
      - exists [IJumpTo lend]. split; [eapply emit_kid_ctxs, H|]. repeat split; congruence.
    Qed.
    Lemma DS_set_end (oe : option string) lend :
      DS (when (negb (is_some oe)) (emit (ISetLabel lend)))
         (fun _ t => (oe = None -> t = [ISetLabel lend]) /\ (oe <> None -> t = [])).
    Proof.
      intros s u s' _ H _. destruct oe; cbn [is_some negb when] in H.
      - inversion H; subst. exists []. rewrite adds_nil. repeat split; congruence.
      - exists [ISetLabel lend]. split; [eapply emit_ctxs, H|]. repeat split; congruence.
    Qed.
    Lemma DS_set_end_kid slot (oe : option string) lend :
      DS (when (negb (is_some oe)) (emit_kid slot (ISetLabel lend)))
         (fun _ t => (oe = None -> t = [ISetLabel lend]) /\ (oe <> None -> t = [])).
    Proof.
      intros s u s' _ H _. destruct oe; cbn [is_some negb when] in H.
      - inversion H; subst. exists []. rewrite adds_nil. repeat split; congruence.
      - exists [ISetLabel lend]. split; [eapply emit_kid_ctxs, H|]. repeat split; congruence.
    Qed.

    Lemma lend_ctxs (oe : option string) s l s' :
      match oe with Some l => ret l | None => gen_label "if_end" end s = Ok l s' ->
      ctxs s' = ctxs s /\ (forall le, oe = Some le -> l = le).
    Proof.
      destruct oe as [le|]; intro H.
      - inversion H; subst. split; [reflexivity|]. intros le' E. inversion E. reflexivity.
      - split; [eapply gen_label_ctxs, H | discriminate].
    Qed.

    (** from the inner statement about the chain to what the caller sees *)
    Lemma Q_IFC_close i (oe : option string) ll lend d t :
      FragL c lend ll (fun n w => exec_if true n i w) d ->
      (forall le, oe = Some le -> lend = le) ->
      (oe = None -> t = [ISetLabel lend]) -> (oe <> None -> t = []) ->
      Q_IFC i oe ll tt (d ++ t).
    Proof.
      intros HF Hle Ht0 Ht1. destruct oe as [le|]; cbn [Q_IFC].
      - rewrite (Ht1 ltac:(discriminate)), app_nil_r. rewrite <- (Hle le eq_refl). exact HF.
      - exists lend, d. split; [rewrite (Ht0 eq_refl); reflexivity | exact HF].
    Qed.

    Lemma DS_if_condition_step i oe ll :
      DS (if_condition_step G fuel RT IFC LOOP i oe ll) (Q_IFC i oe ll).
    Proof.
      pose proof Mono_if_body as HM1. pose proof (Mono_if_condition_calculation G fuel) as HM2.
      pose proof HIFCm as HM3.
      destruct i as [cnd body els elif]. intros s0 a s_end Hne H Hacc.
      remember (ctxs s0) as C eqn:HC. symmetry in HC.
      cbn [if_condition_step] in H.
      dstep H Hacc as u0 E0 Hacc0.
      destruct (when_error_acc _ _ _ _ _ E0 Hacc0) as [Hboth ->]. clear E0 Hacc0.
      dstep H Hacc as u1 E1 Hacc1. ecore E1.
      dstep H Hacc as lbegin E2 Hacc2. ecore E2.
      dstep H Hacc as lelse E3 Hacc3. ecore E3.
      dstep H Hacc as lend E4 Hacc4.
      destruct (lend_ctxs _ _ _ _ E4) as [HC4 Hle]. rewrite HC in HC4. clear HC E4. rename HC4 into HC.
      cbv zeta in H.
      dstep H Hacc as u5 E5 Hacc5.
      dcore (DS_calc cnd lbegin lelse lend (is_some els || is_some elif)) as d1 Hd1 in E5.
      destruct Hd1 as (dcond & ci & -> & HLc & Hevc & Hci).
      dstep H Hacc as u6 E6 Hacc6. ecore E6.
      dstep H Hacc as returned E7 Hacc7. dcore (DS_if_body body lend ll) as d2 Hd2 in E7.
      dstep H Hacc as u8 E8 Hacc8. dcore (DS_jump_end returned lend) as j Hj in E8.
      pose proof (FragL_body c Hres _ _ _ _ _ _ Hd2 (proj1 Hj) (proj2 Hj)) as Hthen.
      destruct els as [eb|]; [destruct elif as [ei|]; [discriminate|]|destruct elif as [ei|]];
        cbn [is_some orb negb] in H, Hci.
      - (* else *)
        dstep H Hacc as u9 E9 Hacc9. ecore E9.
        dstep H Hacc as slot E10 Hacc10. ecore E10.
        dstep H Hacc as u11 Hmid Hacc11.
        dstep Hmid Hacc11 as v1 F1 Hf1. ecore F1.
        dstep Hmid Hacc11 as returned' F2 Hf2. dcore (DS_if_body eb lend ll) as d3 Hd3 in F2.
        dstep Hmid Hacc11 as v3 F3 Hf3. ecore F3.
        dcore (DS_jump_end_kid slot returned' lend) as j' Hj' in Hmid.
        dcore (DS_set_end_kid slot oe lend) as t Ht in H.
        pose proof (FragL_body c Hres _ _ _ _ _ _ Hd3 (proj1 Hj') (proj2 Hj')) as Helse.
        exists ((dcond ++ ci :: ISetLabel lbegin :: (d2 ++ j) ++ (ISetLabel lelse :: d3 ++ j')) ++ t).
        split; [rewrite HC; f_equal; split_eq|]. destruct a.
        apply (Q_IFC_close _ oe ll lend); [|exact Hle | apply Ht | apply Ht].
        eapply (FragL_if c Hnd Hres); [exact HLc | exact Hevc | exact Hci | exact Hthen|].
        left. exists lelse, (d3 ++ j'). split; [reflexivity|]. split; [reflexivity | exact Helse].
      - (* else-if *)
        dstep H Hacc as u9 E9 Hacc9. ecore E9.
        dstep H Hacc as slot E10 Hacc10. ecore E10.
        dstep H Hacc as u11 E11 Hacc11. dcore (HIFC ei (Some lend) ll) as d3 Hd3 in E11.
        dcore (DS_set_end_kid slot oe lend) as t Ht in H.
        exists ((dcond ++ ci :: ISetLabel lbegin :: (d2 ++ j) ++ (ISetLabel lelse :: d3)) ++ t).
        split; [rewrite HC; f_equal; split_eq|]. destruct a.
        apply (Q_IFC_close _ oe ll lend); [|exact Hle | apply Ht | apply Ht].
        eapply (FragL_if c Hnd Hres); [exact HLc | exact Hevc | exact Hci | exact Hthen|].
        left. exists lelse, d3. split; [reflexivity|]. split; [reflexivity | exact Hd3].
      - (* no else part *)
        dstep H Hacc as u9 E9 Hacc9. dcore (DS_set_end oe lend) as t Ht in E9.
        dstep H Hacc as u10 E10 Hacc10. ecore E10.
        inversion H; subst; clear H.
        exists ((dcond ++ ci :: ISetLabel lbegin :: (d2 ++ j) ++ []) ++ t).
        split; [rewrite HC; f_equal; rewrite app_nil_r; split_eq|].
        apply (Q_IFC_close _ oe ll lend); [|exact Hle | apply Ht | apply Ht].
        eapply (FragL_if c Hnd Hres); [exact HLc | exact Hevc | exact Hci | exact Hthen|].
        right. repeat split; reflexivity.
    Qed.

    Lemma DS_loop_step body : DS (loop_step G fuel RT IFC LOOP body) (Q_LOOP body).
    Proof.
      pose proof Mono_run_body as HM1.
      intros s0 a s_end Hne H Hacc.
      remember (ctxs s0) as C eqn:HC. symmetry in HC.
      unfold loop_step in H.
      dstep H Hacc as u1 E1 Hacc1. ecore E1.
      dstep H Hacc as lbegin E2 Hacc2. ecore E2.
      dstep H Hacc as lend E3 Hacc3. ecore E3.
      dstep H Hacc as u4 E4 Hacc4. ecore E4.
      dstep H Hacc as u5 E5 Hacc5. ecore E5.
      dstep H Hacc as fl E6 Hacc6.
      dcore (DS_run_body KLoop "" (Some (lbegin, lend)) body flags0) as db Hdb in E6.
      destruct Hdb as [Hdb _]. specialize (Hdb eq_refl). cbn [oeK in_if_of] in Hdb.
      dstep H Hacc as u7 Hmid Hacc7.
      assert (Hfin : forall tail,
                ctxs s6 = adds tail (((([] ++ [IJumpTo lbegin]) ++ [ISetLabel lbegin]) ++ db)
                                       :: adds (([IJumpTo lbegin] ++ [ISetLabel lbegin]) ++ db) C) ->
                ((fl_ret fl = false /\ tail = [IJumpTo lbegin; ISetLabel lend]) \/
                 (fl_ret fl = true /\ (tail = [ISetLabel lend] \/ (~ In (IJumpTo lend) db /\ tail = [])))) ->
                exists d, ctxs s_end = adds d C /\ Q_LOOP body a d).
      { intros tail HC' Htail. clear HC Hmid. rename HC' into HC. norm HC.
        dstep H Hacc as u8 E8 Hacc8. ecore E8. inversion H; subst; clear H.
        exists (IJumpTo lbegin :: ISetLabel lbegin :: db ++ tail).
        split; [rewrite HC; f_equal; split_eq|].
        intros oe ll. eapply (Frag_loop c Hnd Hres); [exact Hdb | exact Htail]. }
      destruct (fl_ret fl) eqn:Efl.
      - rewrite bind_gets_eq, head_ctx_ctxs, HC in Hmid. cbn [hd] in Hmid.
        destruct (existsb (is_jump_to lend) _) eqn:Eex in Hmid; cbn [when] in Hmid.
        + ecore Hmid. apply (Hfin [ISetLabel lend]); [rewrite HC, adds_cons, adds_adds; reflexivity|].
          right. split; [reflexivity|]. left. reflexivity.
        + assert (Hno : ~ In (IJumpTo lend) db).
          { intro Hin. rewrite <- Bool.not_true_iff_false in Eex. apply Eex.
            apply existsb_exists. exists (IJumpTo lend).
            split; [apply in_or_app; right; exact Hin | cbn; apply String.eqb_refl]. }
          inversion Hmid; subst. apply (Hfin []); [rewrite adds_nil; exact HC|].
          right. split; [reflexivity|]. right. split; [exact Hno | reflexivity].
      - dstep Hmid Hacc7 as v1 F1 Hf1. ecore F1. ecore Hmid.
        apply (Hfin [IJumpTo lbegin; ISetLabel lend]);
          [rewrite HC, adds_cons, adds_adds; f_equal; [split_eq | f_equal; split_eq]|].
        left. split; reflexivity.
    Qed.
  End Control.

  (** ** The control level *)
  Lemma DS_control n :
    (forall i oe ll, DS (if_condition G fuel RT n i oe ll) (Q_IFC i oe ll)) /\
    (forall body, DS (loop_statement G fuel RT n body) (Q_LOOP body)).
  Proof.
    induction n as [|n [IH1 IH2]]; split; intros; cbn [if_condition loop_statement];
      try (intros s a s' _ H; discriminate);
      destruct (R2_control G fuel RT n) as [R1 R2'].
    - apply DS_if_condition_step; assumption.
    - apply DS_loop_step; assumption.
  Qed.

  (** ** The function level *)
  Lemma DS_fn_stmt st :
    DS (fn_stmt G fuel RT false st)
       (fun ret' d => Frag c None None (fun n w => exec_stmt true n false st w) ret' d).
  Proof.
    destruct (DS_control fuel) as [HI HLp].
    assert (Hret : forall e st',
      (forall n w, exec_stmt true (S n) false st' w = (expr_events e ++ [EvRet], Stop Returned, w)) ->
      DS (r <- expression G fuel e ;;
          when false (add_error (Err EReturnAlreadyCalled None loc10)) ;;;
          match r with
          | Some er =>
              check_type_exists G (r_ty er) None loc10 ;;;
              when (negb (sem_ty_eqb RT (r_ty er))) (add_error (Err EWrongReturnType None loc10)) ;;;
              mret <- gets head_mret ;;
              (if mret then emit (IFnRetLabel er) else emit (IFnRet er)) ;;;
              ret true
          | None => ret false
          end)
         (fun ret' d => Frag c None None (fun n w => exec_stmt true n false st' w) ret' d)).
    { intros e st' Hst s ret' s' Hne H Hacc.
      pose proof (Mono_check_type_exists G) as HM1.
      dstep H Hacc as r E Hacc1.
      destruct (SL_expression G HG fuel e s r _ Hne E Hacc1) as (d0 & HC0 & HL0 & Hr & Hev0).
      destruct r as [er|]; [|congruence].
      remember (ctxs s) as C eqn:HCs. symmetry in HCs. clear HCs. rename HC0 into HC.
      dstep H Hacc as u1 E1 Hacc2. score (when_error_ctxs _ _) in E1.
      dstep H Hacc as u2 E2 Hacc3. score (check_type_exists_ctxs G (r_ty er) None loc10) in E2.
      dstep H Hacc as u3 E3 Hacc4. score (when_error_ctxs _ _) in E3.
      rewrite bind_gets_eq in H.
      dstep H Hacc as u4 E4 Hacc5. inversion H; subst; clear H.
      assert (exists i, is_ret i /\ ctxs s' = adds (d0 ++ [i]) C) as (i & Hi & HC').
      { destruct (head_mret (frames s3)); ecore E4; eexists; (split; [|exact HC]); exact I. }
      eexists. split; [exact HC'|].
      eapply Frag_ret; [exact HL0 | exact Hev0 | exact Hi|].
      intros [|n] w; [right; reflexivity | left; apply Hst]. }
    destruct st; cbn [fn_stmt].
    - eapply DS_conseq; [apply DS_then_ret, (SL_let_binding G HG fuel)|].
      intros fl' d (-> & u & HL & Hev).
      eapply Frag_line; [exact HL | exact Hev|]. apply run_simple. reflexivity.
    - eapply DS_conseq; [apply DS_then_ret, (SL_binding G HG fuel)|].
      intros fl' d (-> & u & HL & Hev).
      eapply Frag_line; [exact HL | exact Hev|]. apply run_simple. reflexivity.
    - eapply DS_conseq; [apply DS_then_ret, (SL_call_stmt G HG fuel)|].
      intros fl' d (-> & u & HL & Hev).
      eapply Frag_line; [exact HL | exact Hev|]. apply run_simple. reflexivity.
    - eapply DS_conseq; [apply DS_then_ret, HI|].
      intros fl' d (-> & u & HQ). cbn [Q_IFC] in HQ.
      destruct HQ as (le & d' & -> & HQ). apply Frag_if_outer; assumption.
    - eapply DS_conseq; [apply DS_then_ret, HLp|].
      intros fl' d (-> & u & HQ).
      eapply Frag_ext; [|apply Frag_shift, HQ]. intros [|n] w; reflexivity.
    - apply Hret. reflexivity.
    - apply Hret. reflexivity.
    - intros s a s' _ H. discriminate.
    - intros s a s' _ H. discriminate.
  Qed.

  Lemma Mono_fn_stmt r st : Mono (fn_stmt G fuel RT r st).
  Proof. apply Mono_R2, R2_fn_stmt. Qed.
  Lemma Mono_fn_stmts r ss : Mono (fn_stmts G fuel RT r ss).
  Proof. apply Mono_R2, R2_fn_stmts. Qed.

  Lemma DS_fn_stmts : forall ss ret0,
    DS (fn_stmts G fuel RT ret0 ss)
       (fun ret1 d =>
          (ret0 = false ->
           Frag c None None (fun n w => exec_stmts true n false ss w) ret1 d) /\
          (ret0 = true -> ss = [] /\ d = [] /\ ret1 = ret0)).
  Proof.
    pose proof Mono_fn_stmt as HM1. pose proof Mono_fn_stmts as HM2.
    induction ss as [|st ss IH]; intros ret0 s ret1 s' Hne H Hacc; cbn [fn_stmts] in H.
    - inversion H; subst. exists []. rewrite adds_nil. split; [reflexivity|]. split.
      + intros ->. apply Frag_nil. intros n w. apply exec_stmts_nil.
      + intros _. repeat split.
    - dstep H Hacc as u E Hacc1.
      destruct (when_error_acc _ _ _ _ _ E Hacc1) as [-> ->]. clear E.
      dstep H Hacc as r1 E1 Hacc2.
      destruct (DS_fn_stmt st _ _ _ Hne E1 Hacc2) as (d1 & HC1 & HF1).
      pose proof (adds_ne d1 _ Hne) as Hne1. rewrite <- HC1 in Hne1.
      destruct (IH r1 _ _ _ Hne1 H Hacc) as (d2 & HC2 & HF2 & HF2').
      exists (d1 ++ d2). split; [rewrite HC2, HC1, adds_adds; reflexivity|].
      split; [|discriminate]. intros _.
      destruct r1.
      + destruct (HF2' eq_refl) as (-> & -> & ->).
        eapply Frag_ext; [|apply (Frag_seq c _ _ _ (fun n w => exec_stmts true n false [] w) true false _ [] HF1)].
        * intros [|n] w; reflexivity.
        * apply Frag_nil. intros n w. apply exec_stmts_nil.
      + eapply Frag_ext; [|apply (Frag_seq c _ _ _ _ false _ _ _ HF1 (HF2 eq_refl))].
        intros [|n] w; reflexivity.
  Qed.
End Sim.

(** ** One function *)
Lemma prefixb_refl a : prefixb a a = true.
Proof. rewrite <- (app_nil_r a) at 2. apply prefixb_app. Qed.

Lemma Sem_agree c d pend body w n2 :
  Sem c (TF c None None true d pend) 0 w (exec_stmts true n2 false body w) ->
  forall n1, agree (flat_exec c w n1) (struct_exec true body w n2) = true /\
             flat_ok (snd (struct_exec true body w n2)) = true.
Proof.
  unfold struct_exec, flat_exec. destruct (exec_stmts true n2 false body w) as [[ev cpl] w'].
  intros (x & Hd & HT) n1. destruct cpl; cbn [TF TC] in HT.
  - destruct HT; discriminate.
  - destruct HT as (lb & le & pc & Hx & _); discriminate.
  - destruct HT as (lb & le & pc & Hx & _); discriminate.
  - destruct HT as (le & pc & Hx & _); discriminate.
  - destruct st; try contradiction; subst x; cbn [does] in Hd; cbn [finish snd flat_ok].
    + destruct (halts_run _ _ _ _ _ Hd n1) as [E|(p & r & <- & E)]; rewrite E; unfold agree; cbn [fst snd].
      * split; [apply events_eqb_refl | reflexivity].
      * rewrite prefixb_app. split; reflexivity.
    + destruct (halts_run _ _ _ _ _ Hd n1) as [E|(p & r & <- & E)]; rewrite E; unfold agree; cbn [fst snd].
      * rewrite prefixb_refl. split; reflexivity.
      * rewrite prefixb_app. split; reflexivity.
    + specialize (Hd n1). destruct (flat_run c n1 0 w) as [e1 st1]. unfold agree. cbn [fst snd] in *.
      split; [|reflexivity]. destruct st1; apply comparable_prefixb, Hd.
Qed.

Lemma function_body_Sem G f a s root :
  fnames_ok G -> function_body G [] f = Ok a s -> errs s = [] -> frames s = [root] ->
  NoDup (set_labels (b_ctx root)) -> resolved (b_ctx root) ->
  exists d pend, forall w n2,
    Sem (b_ctx root) (TF (b_ctx root) None None true d pend) 0 w
        (exec_stmts true n2 false (fn_body f) w).
Proof.
  intros HG H Hacc Hf Hnd Hres.
  unfold function_body, function_body_m in H.
  pose proof Mono_init_func_params as HM0.
  pose proof (Mono_fn_stmts G (fuel_of f) (sem_of_ty (fn_result f))) as HM1.
  dstep H Hacc as u0 E0 Hacc0.
  assert (Hne0 : ctxs (BSt [empty_block] []) <> []) by discriminate.
  destruct (SL_init_func_params _ _ _ _ Hne0 E0 Hacc0) as (d0 & HC0 & HL0 & Hev0).
  dstep H Hacc as returned E1 Hacc1.
  destruct (when_error_acc _ _ _ _ _ H Hacc) as [Hret ->]. clear H.
  apply Bool.negb_false_iff in Hret. subst returned.
  assert (Hne1 : ctxs s0 <> []) by (rewrite HC0; apply adds_ne, Hne0).
  destruct (DS_fn_stmts G HG _ _ (b_ctx root) Hnd Hres _ false _ _ _ Hne1 E1 Hacc) as (d1 & HC1 & HF & _).
  specialize (HF eq_refl).
  rewrite HC0 in HC1. unfold ctxs in HC1. rewrite Hf in HC1. cbn in HC1.
  inversion HC1 as [Hroot].
  assert (Hc : b_ctx root = d0 ++ d1 ++ []) by (rewrite Hroot, app_nil_r; reflexivity).
  exists d1, (length d0 + length d1)%nat. intros w n2.
  pose proof (HF d0 [] Hc n2 w) as HS.
  eapply Sem_prepend_nil; [|exact HS].
  rewrite <- Hev0.
  apply (steps_line (b_ctx root) d0 [] (d1 ++ []) w Hc HL0).
Qed.

Lemma halts_enough c pc w ev st : halts c pc w ev st -> exists m, flat_run c m pc w = (ev, st).
Proof.
  intros (e1 & p1 & w1 & e2 & Hs & Hh & ->). induction Hs as [pc w|pc w ev pc1 w1 ev2 pc2 w2 Hstep _ IH].
  - exists 1%nat. cbn [flat_run]. rewrite Hh. reflexivity.
  - destruct (IH Hh) as [m E]. exists (S m). cbn [flat_run]. rewrite Hstep, E.
    unfold prepend_trace. cbn [fst snd]. rewrite !app_assoc. reflexivity.
Qed.

(** a structured run that returns is matched by the jump program, given enough fuel *)
Lemma Sem_returns c d pend body w n2 ev :
  Sem c (TF c None None true d pend) 0 w (exec_stmts true n2 false body w) ->
  struct_exec true body w n2 = (ev, Returned) ->
  exists n1, forall n, (n1 <= n)%nat -> flat_exec c w n = (ev, Returned).
Proof.
  unfold struct_exec, flat_exec. destruct (exec_stmts true n2 false body w) as [[ev' cpl] w'].
  intros (x & Hd & HT) E. destruct cpl; cbn [finish] in E; try discriminate.
  inversion E; subst. cbn [TF TC] in HT. subst x. cbn [does] in Hd.
  destruct (halts_enough _ _ _ _ _ Hd) as [m Hm]. exists m. intros n Hn.
  eapply flat_run_fuel_mono; [exact Hm | discriminate | exact Hn].
Qed.

(** ** The driver *)
Lemma run_globals p out : run p = ROk out -> o_globals out = gs_globals (declarations p).
Proof.
  unfold run. intro H.
  destruct (bodies (gs_globals (declarations p)) (gs_errs (declarations p)) [] (functions_of p))
    as [r|[errors roots]] eqn:E; [exfalso; eapply bodies_inl_not_ok'; eauto|].
  inversion H; subst. reflexivity.
Qed.

Lemma fnames_of_run p out : run p = ROk out -> fnames_ok (o_globals out).
Proof. intro H. rewrite (run_globals p out H). apply declarations_fnames_ok. Qed.

Lemma Forall2_Forall_r {A B} (P : A -> B -> Prop) (Q : B -> Prop) la lb :
  Forall2 P la lb -> Forall Q lb -> Forall2 (fun a b => P a b /\ Q b) la lb.
Proof.
  induction 1 as [|a b la lb H0 _ IH]; intro HQ; [constructor|].
  inversion HQ; subst. constructor; [split; assumption | apply IH; assumption].
Qed.

Lemma Forall2_impl {A B} (P P' : A -> B -> Prop) la lb :
  (forall a b, P a b -> P' a b) -> Forall2 P la lb -> Forall2 P' la lb.
Proof. intros HP. induction 1; constructor; auto. Qed.

(** (C) THE SIMULATION.  In an accepted program, for every function, every string of condition
    outcomes and every pair of fuels: the trace of the jump program and the trace of the
    structured execution with the recorded finding F5 ([quirk = true]) agree - they are equal
    when both runs end with [Returned], and prefix-comparable when a fuel (or the outcomes) ran
    out - and the structured execution never falls off the end of the body. *)
Theorem flow_simulation : forall p out,
  run p = ROk out -> o_errors out = [] ->
  Forall2 (fun f root =>
             forall w n1 n2,
               agree (flat_exec (b_ctx root) w n1) (struct_exec true (fn_body f) w n2) = true /\
               flat_ok (snd (struct_exec true (fn_body f) w n2)) = true)
          (functions_of p) (o_fns out).
Proof.
  intros p out H Hacc.
  pose proof (run_accepted_each p out H Hacc) as HF.
  pose proof (run_labels_unique p out H) as HU.
  pose proof (run_targets_resolved p out H) as HR.
  pose proof (Forall2_Forall_r _ _ _ _ (Forall2_Forall_r _ _ _ _ HF HU) HR) as HF'.
  eapply Forall2_impl; [|exact HF']. cbv beta.
  intros f root [[(a & s & Hb & He & Hfr) Hnd] Hres] w n1 n2.
  destruct (function_body_Sem _ f a s root (fnames_of_run p out H) Hb He Hfr Hnd Hres) as (d & pend & HS).
  eapply Sem_agree, HS.
Qed.

(** Termination transfers: when the structured execution returns, so does the jump program
    (given enough fuel), with the same events. *)
Theorem flow_simulation_returns : forall p out,
  run p = ROk out -> o_errors out = [] ->
  Forall2 (fun f root =>
             forall w n2 ev,
               struct_exec true (fn_body f) w n2 = (ev, Returned) ->
               exists n1, forall n, (n1 <= n)%nat -> flat_exec (b_ctx root) w n = (ev, Returned))
          (functions_of p) (o_fns out).
Proof.
  intros p out H Hacc.
  pose proof (run_accepted_each p out H Hacc) as HF.
  pose proof (run_labels_unique p out H) as HU.
  pose proof (run_targets_resolved p out H) as HR.
  pose proof (Forall2_Forall_r _ _ _ _ (Forall2_Forall_r _ _ _ _ HF HU) HR) as HF'.
  eapply Forall2_impl; [|exact HF']. cbv beta.
  intros f root [[(a & s & Hb & He & Hfr) Hnd] Hres] w n2 ev E.
  destruct (function_body_Sem _ f a s root (fnames_of_run p out H) Hb He Hfr Hnd Hres) as (d & pend & HS).
  eapply Sem_returns; [apply HS | exact E].
Qed.

(** With equal fuels and equal final statuses: the traces are equal. *)
Corollary flow_simulation_returned : forall p out,
  run p = ROk out -> o_errors out = [] ->
  Forall2 (fun f root =>
             forall w n1 n2 ev1 ev2,
               flat_exec (b_ctx root) w n1 = (ev1, Returned) ->
               struct_exec true (fn_body f) w n2 = (ev2, Returned) ->
               events_eqb ev1 ev2 = true)
          (functions_of p) (o_fns out).
Proof.
  intros p out H Hacc. eapply Forall2_impl; [|exact (flow_simulation p out H Hacc)]. cbv beta.
  intros f root HS w n1 n2 ev1 ev2 E1 E2. destruct (HS w n1 n2) as [Ha _].
  rewrite E1, E2 in Ha. exact Ha.
Qed.

(** The monitor never fires on the output of the model for an accepted program. *)
Theorem chk_C05_quirk_holds : forall p out,
  run p = ROk out -> o_errors out = [] -> forall k fuel, chk_C05 true k fuel p out = true.
Proof.
  intros p out H Hacc k fuel. unfold chk_C05.
  apply (proj2 (forallb2_Forall2 _ (fun f root => chk_C05_fn true k fuel f root = true) _ _
                  (fun a b => iff_refl _))).
  pose proof (flow_simulation p out H Hacc) as HS.
  assert (HO : Forall (fun root => forall w n, flat_ok (snd (flat_exec (b_ctx root) w n)) = true)
                      (o_fns out)).
  { apply Forall_forall. intros root Hin w n. apply (flat_always_ok p out H Hacc root Hin). }
  eapply Forall2_impl; [|exact (Forall2_Forall_r _ _ _ _ HS HO)]. cbv beta.
  intros f root [Hs Ho]. unfold chk_C05_fn. apply forallb_forall. intros w _.
  unfold chk_C05_word. destruct (Hs w fuel fuel) as [Ha Hk]. rewrite Ho, Hk, Ha. reflexivity.
Qed.

Print Assumptions flow_simulation.
Print Assumptions flow_simulation_returns.
Print Assumptions chk_C05_quirk_holds.
