(** C05 with values, the INTENDED source semantics outside the class of finding F5.

    [IntendedFlow.tail_ifs] is the class "in every if / else / else-if body, at any depth, an [if]
    statement can only be the LAST statement of that body".  As for the data-abstract semantics
    ([IntendedFlow.struct_exec_quirk_irrelevant]), on this class the two readings of the source
    with values - [vstruct_exec _ _ true] (finding F5 recorded) and [vstruct_exec _ _ false]
    (intended) - are the same function ([vstruct_exec_quirk_irrelevant]); hence the theorems of
    C05c hold there for the intended semantics. *)
From Coq Require Import Lia.
From SA Require Import Model.
From SA.Spec Require Import Stack Exec ValueExec.
From SA.Mon Require Import Control.
From SA.Proofs Require Import ExecBasic FlowBasic FlowSim IntendedFlow.
From SA.Proofs Require Import ValueSimBase ValueSimFrag ValueSim.
Local Open Scope list_scope.

Section Quirk.
  Variable V : Type.
  Variable I : interp V.

  Notation res := (vsres V).

  (** the quirk run may end with [VJumpOuterEnd] where the intended run ends with [VNormal] *)
  Definition vcrel (q i : vcompletion) : Prop := q = i \/ (q = VJumpOuterEnd /\ i = VNormal).
  Definition vrrel (rq ri : res) : Prop :=
    fst (fst rq) = fst (fst ri) /\ vcrel (snd (fst rq)) (snd (fst ri)) /\ snd rq = snd ri.

  Lemma vrrel_refl r : vrrel r r.
  Proof. split; [|split]; try reflexivity. left. reflexivity. Qed.

  Lemma vrrel_prepend ev rq ri : vrrel rq ri -> vrrel (vprepend V ev rq) (vprepend V ev ri).
  Proof.
    destruct rq as [[eq cq] wq], ri as [[ei ci] wi]. unfold vrrel. cbn.
    intros (-> & Hc & ->). auto.
  Qed.

  Lemma vrrel_close rq ri : vrrel rq ri -> vrrel (close_block V rq) (close_block V ri).
  Proof.
    destruct rq as [[eq cq] wq], ri as [[ei ci] wi]. unfold vrrel. cbn.
    intros (-> & Hc & ->). auto.
  Qed.

  Lemma vrrel_after {A} (r : evr V A) env (kq ki : A -> res) :
    (forall a, vrrel (kq a) (ki a)) -> vrrel (after V r env kq) (after V r env ki).
  Proof.
    intro H. destruct r as [ev [a|s]]; cbn [after]; [apply vrrel_prepend, H | apply vrrel_refl].
  Qed.

  Lemma vif_exit_block rq ri : vrrel rq ri -> vif_exit V true false rq = vif_exit V false false ri.
  Proof.
    destruct rq as [[eq cq] wq], ri as [[ei ci] wi]. unfold vrrel. cbn.
    intros (-> & [-> | [-> ->]] & ->); reflexivity.
  Qed.

  Lemma vif_exit_nested rq ri : vrrel rq ri -> vrrel (vif_exit V true true rq) (vif_exit V false true ri).
  Proof.
    destruct rq as [[eq cq] wq], ri as [[ei ci] wi]. unfold vrrel. cbn.
    intros (-> & [-> | [-> ->]] & ->); (split; [reflexivity | split; [|reflexivity]]).
    - destruct ci; try (left; reflexivity). right. split; reflexivity.
    - right. split; reflexivity.
  Qed.

  Lemma vrrel_seq_last rq ri n m b :
    vrrel rq ri ->
    vrrel (vseq V rq (vexec_stmts V I true n b [])) (vseq V ri (vexec_stmts V I false m b [])).
  Proof.
    destruct rq as [[eq cq] wq], ri as [[ei ci] wi]. unfold vrrel. cbn [fst snd].
    intros (-> & [-> | [-> ->]] & ->).
    - destruct ci; cbn [vseq]; try (split; [reflexivity | split; [left|]; reflexivity]).
      rewrite !vexec_stmts_nil. cbn. split; [reflexivity | split; [left|]; reflexivity].
    - cbn [vseq]. rewrite vexec_stmts_nil. cbn. rewrite app_nil_r.
      split; [reflexivity | split; [right; split|]; reflexivity].
  Qed.

  (** unfolding equations, for both readings *)
  Lemma vexec_stmt_if_q q n b i env :
    vexec_stmt V I q (S n) b (SIf i) env = vif_exit V q b (vexec_if V I q n i env).
  Proof. reflexivity. Qed.
  Lemma vexec_stmt_loop_q q n b body env :
    vexec_stmt V I q (S n) b (SLoop body) env = vexec_loop V I q n body env.
  Proof. reflexivity. Qed.
  Lemma vexec_if_S_q q n cnd body els elif env :
    vexec_if V I q (S n) (IfS cnd body els elif) env =
    after V (eval_cond V I env n cnd) env
          (fun b => if b then close_block V (vexec_stmts V I q n true (ifbody_stmts body) ([] :: env))
                    else match els with
                         | Some eb => close_block V (vexec_stmts V I q n true (ifbody_stmts eb) ([] :: env))
                         | None => match elif with
                                   | Some ei => vexec_if V I q n ei env
                                   | None => ([], VNormal, env)
                                   end
                         end).
  Proof. destruct body, els as [[?|?]|]; reflexivity. Qed.

  (** a statement other than [if] / [loop] does not look at the flag *)
  Lemma vexec_stmt_simple n b s env :
    (forall i, s <> SIf i) -> (forall body, s <> SLoop body) ->
    vexec_stmt V I true n b s env = vexec_stmt V I false n b s env.
  Proof.
    intros H1 H2. destruct n as [|n]; [reflexivity|].
    destruct s; try reflexivity; [exfalso; eapply H1 | exfalso; eapply H2]; reflexivity.
  Qed.

  (** ** Both interpreters, by induction on the fuel *)
  Lemma vexec_quirk_sim : forall n,
    (forall s env, ti_stmt s = true ->
       vexec_stmt V I true n false s env = vexec_stmt V I false n false s env /\
       vrrel (vexec_stmt V I true n true s env) (vexec_stmt V I false n true s env) /\
       ((forall i, s <> SIf i) -> vexec_stmt V I true n true s env = vexec_stmt V I false n true s env)) /\
    (forall ss env, ti_block ss = true ->
       vexec_stmts V I true n false ss env = vexec_stmts V I false n false ss env) /\
    (forall ss env, ti_ifstmts ss = true ->
       vrrel (vexec_stmts V I true n true ss env) (vexec_stmts V I false n true ss env)) /\
    (forall i env, ti_if i = true -> vrrel (vexec_if V I true n i env) (vexec_if V I false n i env)) /\
    (forall body env, ti_block body = true ->
       vexec_loop V I true n body env = vexec_loop V I false n body env).
  Proof.
    induction n as [|n (IHs & IHb & IHss & IHi & IHl)].
    - split; [|split; [|split; [|split]]].
      + intros s env _. split; [reflexivity | split; [apply vrrel_refl | reflexivity]].
      + intros [|s ss] env _; reflexivity.
      + intros [|s ss] env _; apply vrrel_refl.
      + intros i env _. apply vrrel_refl.
      + intros body env _. reflexivity.
    - split; [|split; [|split; [|split]]].
      + (* one statement *)
        intros s env Hs.
        destruct s as [x m ty e | x e | f args | i | body | e | e | |];
          try (split; [reflexivity | split; [apply vrrel_refl | reflexivity]]).
        * (* SIf *)
          rewrite !vexec_stmt_if_q. cbn [ti_stmt] in Hs. pose proof (IHi i env Hs) as Hr.
          split; [apply vif_exit_block, Hr | split; [apply vif_exit_nested, Hr|]].
          intro Hne. exfalso. apply (Hne i). reflexivity.
        * (* SLoop *)
          rewrite !vexec_stmt_loop_q. rewrite ti_stmt_loop in Hs. rewrite (IHl body env Hs).
          split; [reflexivity | split; [apply vrrel_refl | reflexivity]].
      + (* a function / loop body *)
        intros [|s ss] env Hb; [reflexivity|]. rewrite !vexec_stmts_S.
        cbn [ti_block forallb] in Hb. apply Bool.andb_true_iff in Hb. destruct Hb as [Hs Hb].
        destruct (IHs s env Hs) as (-> & _ & _).
        destruct (vexec_stmt V I false n false s env) as [[ev c] env']. destruct c; try reflexivity.
        cbn [vseq]. rewrite (IHb ss env' Hb). reflexivity.
      + (* an if-body *)
        intros [|s ss] env Hb; [apply vrrel_refl|]. rewrite !vexec_stmts_S.
        cbn [ti_ifstmts] in Hb. apply Bool.andb_true_iff in Hb. destruct Hb as [Hb Hss].
        apply Bool.andb_true_iff in Hb. destruct Hb as [Hs Hlast].
        destruct (IHs s env Hs) as (_ & Hr & Hne).
        destruct ss as [|s' ss'].
        * apply vrrel_seq_last, Hr.
        * assert (forall i, s <> SIf i) as Hns.
          { intros i ->. discriminate Hlast. }
          rewrite (Hne Hns).
          destruct (vexec_stmt V I false n true s env) as [[ev c] env']. destruct c; try apply vrrel_refl.
          cbn [vseq]. apply vrrel_prepend. apply IHss, Hss.
      + (* an if chain *)
        intros [c body els elif] env Hi. rewrite !vexec_if_S_q.
        rewrite ti_if_IfS in Hi. apply Bool.andb_true_iff in Hi. destruct Hi as [Hi Helif].
        apply Bool.andb_true_iff in Hi. destruct Hi as [Hbody Hels].
        apply vrrel_after. intros [|].
        * apply vrrel_close, IHss, Hbody.
        * destruct els as [eb|]; [apply vrrel_close, IHss, Hels|].
          destruct elif as [ei|]; [apply IHi, Helif | apply vrrel_refl].
      + (* a loop *)
        intros body env Hb. rewrite !vexec_loop_S. rewrite (IHb body ([] :: env) Hb).
        destruct (close_block V (vexec_stmts V I false n false body ([] :: env))) as [[ev c] env'].
        destruct c; try reflexivity; cbn [vloop_exit]; rewrite (IHl body env' Hb); reflexivity.
  Qed.

  (** ** Outside K_F5 the finding is invisible, with values too *)
  Theorem vstruct_exec_quirk_irrelevant : forall f,
    tail_ifs (fn_body f) = true ->
    forall args n, vstruct_exec V I true f args n = vstruct_exec V I false f args n.
  Proof.
    intros f Hb args n. unfold vstruct_exec.
    destruct (Nat.eqb (length args) (length (fn_params f))); [|reflexivity].
    rewrite (proj1 (proj2 (vexec_quirk_sim n)) (fn_body f) _ Hb). reflexivity.
  Qed.
End Quirk.

(** ** The intended C05 with values outside K_F5 *)
Theorem value_simulation_intended : forall (V : Type) (I : interp V) p out,
  run p = ROk out -> o_errors out = [] ->
  Forall (fun f => tail_ifs (fn_body f) = true) (functions_of p) ->
  Forall2 (fun f root =>
             forall args n1 n2, length args = length (fn_params f) ->
               vagreeP (vflat_exec V I (b_ctx root) args n1) (vstruct_exec V I false f args n2) /\
               vok (snd (vstruct_exec V I false f args n2)) = true)
          (functions_of p) (o_fns out).
Proof.
  intros V I p out H Hacc Hti.
  eapply Forall2_impl; [|exact (Forall2_Forall_l _ _ _ _ (value_simulation_P V I p out H Hacc) Hti)].
  cbv beta. intros f root [HS Hf] args n1 n2 Hlen.
  rewrite <- (vstruct_exec_quirk_irrelevant V I f Hf). apply HS, Hlen.
Qed.

Theorem value_simulation_intended_bool : forall (V : Type) (I : interp V) p out,
  (forall v, i_eqb I v v = true) ->
  run p = ROk out -> o_errors out = [] ->
  Forall (fun f => tail_ifs (fn_body f) = true) (functions_of p) ->
  Forall2 (fun f root =>
             forall args n1 n2, length args = length (fn_params f) ->
               vagree V I (vflat_exec V I (b_ctx root) args n1) (vstruct_exec V I false f args n2) = true /\
               vok (snd (vstruct_exec V I false f args n2)) = true)
          (functions_of p) (o_fns out).
Proof.
  intros V I p out He H Hacc Hti.
  eapply Forall2_impl; [|exact (value_simulation_intended V I p out H Hacc Hti)].
  cbv beta. intros f root HS args n1 n2 Hlen. destruct (HS args n1 n2 Hlen) as [Ha Ho].
  split; [apply vagreeP_vagree; assumption | exact Ho].
Qed.

(** termination transfers, intended semantics *)
Theorem value_simulation_intended_returns : forall (V : Type) (I : interp V) p out,
  run p = ROk out -> o_errors out = [] ->
  Forall (fun f => tail_ifs (fn_body f) = true) (functions_of p) ->
  Forall2 (fun f root =>
             forall args n2 e, length args = length (fn_params f) ->
               vstruct_exec V I false f args n2 = (e, VReturned) ->
               exists n1, forall n, (n1 <= n)%nat ->
                                    vflat_exec V I (b_ctx root) args n = (e, VReturned))
          (functions_of p) (o_fns out).
Proof.
  intros V I p out H Hacc Hti.
  eapply Forall2_impl;
    [|exact (Forall2_Forall_l _ _ _ _ (value_simulation_returns V I p out H Hacc) Hti)].
  cbv beta. intros f root [HS Hf] args n2 e Hlen E.
  rewrite <- (vstruct_exec_quirk_irrelevant V I f Hf) in E. exact (HS args n2 e Hlen E).
Qed.

Print Assumptions vstruct_exec_quirk_irrelevant.
Print Assumptions value_simulation_intended.
Print Assumptions value_simulation_intended_bool.
Print Assumptions value_simulation_intended_returns.
