(** C05, safety half: the jump program of a function never looks up a label that is not set
    ([flat_never_bad_label], every program on which the analysis terminates) and, in an accepted
    program, never runs off the end of the stack ([flat_never_falls_off]).

    Also the small vocabulary shared by the simulation files: facts about [find_label], and
    "the error list only grows" ([errs_le]) derived from the refined steps of [Trace.v]. *)
From Coq Require Import Lia.
From SA Require Import Model.
From SA.Spec Require Import Stack Exec.
From SA.Mon Require Import Control.
From SA.Proofs Require Import Trace InvNames InvLabels Resolve ExecBasic.
From SA.Proofs Require DefUse.
Local Open Scope list_scope.

(** ** [find_label] *)
Lemma find_label_lt l : forall c n, find_label l c = Some n -> (n < length c)%nat.
Proof.
  induction c as [|i c IH]; intros n H; cbn in H; [discriminate|].
  destruct (match i with ISetLabel l' => String.eqb l l' | _ => false end).
  - inversion H; subst. cbn. lia.
  - destruct (find_label l c) as [m|]; [|discriminate]. inversion H; subst.
    specialize (IH m eq_refl). cbn. lia.
Qed.

Lemma find_label_in l : forall c, In l (set_labels c) -> exists n, find_label l c = Some n.
Proof.
  induction c as [|i c IH]; intro H; [contradiction|].
  unfold set_labels in H. cbn [flat_map] in H. apply in_app_or in H. cbn [find_label].
  destruct i; cbn [set_label_of] in H;
    try (destruct H as [[]|H]; destruct (IH H) as [n ->]; eexists; reflexivity).
  destruct (String.eqb l l0) eqn:E; [eexists; reflexivity|].
  destruct H as [[->|[]]|H]; [rewrite String.eqb_refl in E; discriminate|].
  destruct (IH H) as [n ->]. eexists; reflexivity.
Qed.

Lemma find_label_skip l : forall a b,
  ~ In l (set_labels a) ->
  find_label l (a ++ b) = match find_label l b with Some n => Some (length a + n)%nat | None => None end.
Proof.
  induction a as [|i a IH]; intros b Hn; cbn [app find_label length].
  - destruct (find_label l b); reflexivity.
  - unfold set_labels in Hn. cbn [flat_map] in Hn.
    assert (Hi : match i with ISetLabel l' => String.eqb l l' | _ => false end = false).
    { destruct i; try reflexivity. apply String.eqb_neq. intros ->. apply Hn. left. reflexivity. }
    rewrite Hi, IH.
    + destruct (find_label l b); reflexivity.
    + intro H. apply Hn. apply in_or_app. right. exact H.
Qed.

(** the position of the setter, from uniqueness *)
Lemma find_label_at l a b :
  NoDup (set_labels (a ++ ISetLabel l :: b)) ->
  find_label l (a ++ ISetLabel l :: b) = Some (length a).
Proof.
  intro Hnd. rewrite find_label_skip.
  - cbn [find_label]. rewrite String.eqb_refl. f_equal. lia.
  - intro Hin. rewrite set_labels_app in Hnd. apply NoDup_remove_2 with (a := l) (l' := set_labels b) in Hnd.
    + apply Hnd. apply in_or_app. left. exact Hin.
Qed.

(** ** (A) no lookup of an unset label *)
Definition resolved (c : list instr) : Prop :=
  forall i l, In i c -> In l (target_labels i) -> In l (set_labels c).

Lemma goto_resolved c i l w :
  resolved c -> In i c -> In l (target_labels i) -> exists pc, goto c l w = Next [] pc w /\ (pc < length c)%nat.
Proof.
  intros Hr Hi Hl. destruct (find_label_in l c (Hr i l Hi Hl)) as [pc E].
  exists pc. unfold goto. rewrite E. split; [reflexivity | eapply find_label_lt, E].
Qed.

(** what a step can be, for an instruction of a resolved stack *)
Lemma instr_step_cases c i pc w :
  resolved c -> In i c ->
  (exists ev, instr_step c i pc w = Next ev (S pc) w /\ Control.is_fn_ret i = false) \/
  (exists pc' w', instr_step c i pc w = Next [] pc' w' /\ (pc' < length c)%nat) \/
  instr_step c i pc w = Halt [EvRet] Returned \/
  instr_step c i pc w = Halt [] OutOfOutcomes.
Proof.
  intros Hr Hi.
  destruct i; cbn [instr_step Control.is_fn_ret];
    try (left; eexists; split; reflexivity);
    try (right; right; left; reflexivity).
  - (* jump *)
    right. left. destruct (goto_resolved c _ l w Hr Hi) as (pc' & E & Hlt); [left; reflexivity|].
    exists pc', w. split; assumption.
  - (* conditional *)
    unfold branch. destruct w as [|b w']; [right; right; right; reflexivity|].
    right. left.
    destruct (goto_resolved c _ (if b then lbegin else lend) w' Hr Hi) as (pc' & E & Hlt).
    { cbn. destruct b; auto. }
    exists pc', w'. split; assumption.
  - unfold branch. destruct w as [|b w']; [right; right; right; reflexivity|].
    right. left.
    destruct (goto_resolved c _ (if b then lbegin else lend) w' Hr Hi) as (pc' & E & Hlt).
    { cbn. destruct b; auto. }
    exists pc', w'. split; assumption.
Qed.

Lemma flat_run_no_bad_label c :
  resolved c -> forall n pc w l, snd (flat_run c n pc w) <> BadLabel l.
Proof.
  intros Hr. induction n as [|n IH]; intros pc w l; cbn [flat_run]; [discriminate|].
  unfold flat_step. destruct (nth_error c pc) as [i|] eqn:En; [|discriminate].
  apply nth_error_In in En.
  destruct (instr_step_cases c i pc w Hr En) as [(ev & -> & _)|[(pc' & w' & -> & _)|[->| ->]]];
    cbn [prepend_trace snd]; try discriminate; apply IH.
Qed.

(** ** (B) no running off the end *)
Lemma flat_run_no_fell_off c pre last :
  resolved c -> c = pre ++ [last] -> Control.is_fn_ret last = true ->
  forall n pc w, (pc < length c)%nat -> snd (flat_run c n pc w) <> FellOff.
Proof.
  intros Hr Hc Hlast. induction n as [|n IH]; intros pc w Hpc; cbn [flat_run]; [discriminate|].
  unfold flat_step. destruct (nth_error c pc) as [i|] eqn:En.
  2:{ apply nth_error_None in En. lia. }
  pose proof (nth_error_In _ _ En) as Hi.
  destruct (instr_step_cases c i pc w Hr Hi) as [(ev & -> & Hnr)|[(pc' & w' & -> & Hlt)|[->| ->]]];
    cbn [prepend_trace snd]; try discriminate.
  - apply IH. destruct (Nat.eq_dec (S pc) (length c)) as [Heq|Hne]; [|lia].
    exfalso. rewrite Hc, app_length in Heq. cbn in Heq.
    rewrite Hc, nth_error_app2 in En by lia.
    replace (pc - length pre)%nat with O in En by lia. cbn in En. inversion En; subst.
    congruence.
  - apply IH, Hlt.
Qed.

(** ** The error list only grows *)
Definition errs_le (s s' : bst) : Prop := exists e, errs s' = errs s ++ e.

Lemma errs_le_refl s : errs_le s s.
Proof. exists []. rewrite app_nil_r. reflexivity. Qed.
Lemma errs_le_trans s s1 s2 : errs_le s s1 -> errs_le s1 s2 -> errs_le s s2.
Proof. intros [e1 E1] [e2 E2]. exists (e1 ++ e2). rewrite E2, E1, app_assoc. reflexivity. Qed.
Lemma errs_le_nil s s' : errs_le s s' -> errs s' = [] -> errs s = [].
Proof. intros [e E] H. rewrite E in H. apply app_eq_nil in H. apply H. Qed.

Lemma step2_errs s s' : step2 s s' -> errs_le s s'.
Proof.
  intro H. destruct H; unfold errs_le;
    first [exists []; rewrite app_nil_r; reflexivity | eexists; reflexivity].
Qed.
Lemma reach2_errs s s' : reach2 s s' -> errs_le s s'.
Proof.
  induction 1 as [|s1 s2 s3 _ IH H]; [apply errs_le_refl|].
  eapply errs_le_trans; [exact IH | apply step2_errs, H].
Qed.

(** a computation that only appends errors *)
Definition Mono {A} (m : M A) : Prop := forall s a s', m s = Ok a s' -> errs_le s s'.

Lemma Mono_R2 {A} (m : M A) : R2 m -> Mono m.
Proof. intros H s a s' E. apply reach2_errs. eapply H, E. Qed.

Lemma add_error_not_nil e s a s' : add_error e s = Ok a s' -> errs s' = [] -> False.
Proof.
  intros H Hn. apply add_error_eq in H as ->. cbn in Hn. apply app_eq_nil in Hn as [_ Hn]. discriminate.
Qed.

(** ** The stack of an accepted function ends with its function-level return *)
Definition ends_ret (d : list instr) : Prop :=
  exists d' i, d = d' ++ [i] /\ Control.is_fn_ret i = true.

Lemma adds_inj d1 d2 X : X <> [] -> adds d1 X = adds d2 X -> d1 = d2.
Proof.
  destruct X as [|x X]; [congruence|]. intros _ H. cbn in H. inversion H as [[H1 H2]].
  eapply app_inv_head, H1.
Qed.

Section EndsRet.
  Variable G : globals.
  Variable fuel : nat.
  Variable RT : sem_ty.

  Lemma fn_stmt_ends st ret0 s ret' s' :
    ctxs s <> [] -> fn_stmt G fuel RT ret0 st s = Ok ret' s' ->
    exists d, ctxs s' = adds d (ctxs s) /\ (ret' = true -> ret0 = true \/ ends_ret d).
  Proof.
    intros Hne H.
    assert (Hplainret : forall a, fn_stmt G fuel RT ret0 st s = Ok a s' -> a = ret0 ->
              exists d, ctxs s' = adds d (ctxs s) /\ (a = true -> ret0 = true \/ ends_ret d)).
    { intros a Ha ->. destruct (Cl_fn_stmt G fuel RT ret0 st s ret0 s' Hne Ha) as (d & HC & _).
      exists d. split; [exact HC | intro; left; assumption]. }
    pose proof (P_expression G fuel) as PE. pose proof (P_check_type_exists G) as PC.
    remember (ctxs s) as C eqn:HC. symmetry in HC.
    assert (Hret : forall e,
      (r <- expression G fuel e ;;
       when ret0 (add_error (Err EReturnAlreadyCalled None loc10)) ;;;
       match r with
       | Some er =>
           check_type_exists G (r_ty er) None loc10 ;;;
           when (negb (sem_ty_eqb RT (r_ty er))) (add_error (Err EWrongReturnType None loc10)) ;;;
           mret <- gets head_mret ;;
           (if mret then emit (IFnRetLabel er) else emit (IFnRet er)) ;;;
           ret true
       | None => ret ret0
       end) s = Ok ret' s' ->
      exists d, ctxs s' = adds d C /\ (ret' = true -> ret0 = true \/ ends_ret d)).
    { intros e He.
      qstep He Plain d0. qstep He Plain d1.
      destruct x as [er|].
      - qstep He Plain d2. qstep He Plain d3.
        rewrite bind_gets_eq in He.
        apply bind_ok in He as (u & s5 & E5 & He). inversion He; subst; clear He.
        assert (exists i, Control.is_fn_ret i = true /\ ctxs s' = adds [i] (adds (((d0 ++ d1) ++ d2) ++ d3) C))
          as (i & Hi & HC').
        { destruct (head_mret (frames s3)); eexists; (split; [|eapply step_emit; [exact HC | exact E5]]);
            reflexivity. }
        rewrite adds_adds in HC'. eexists. split; [exact HC'|].
        intros _. right. eexists _, i. split; [reflexivity | exact Hi].
      - inversion He; subst. eexists. split; [exact HC|]. intro; left; assumption. }
    destruct st; cbn [fn_stmt] in H.
    - apply Hplainret; [exact H|]. apply bind_ok in H as (u & s1 & _ & H). inversion H; reflexivity.
    - apply Hplainret; [exact H|]. apply bind_ok in H as (u & s1 & _ & H). inversion H; reflexivity.
    - apply Hplainret; [exact H|]. apply bind_ok in H as (u & s1 & _ & H). inversion H; reflexivity.
    - apply Hplainret; [exact H|]. apply bind_ok in H as (u & s1 & _ & H). inversion H; reflexivity.
    - apply Hplainret; [exact H|]. apply bind_ok in H as (u & s1 & _ & H). inversion H; reflexivity.
    - apply Hret in H. exact H.
    - apply Hret in H. exact H.
    - discriminate.
    - discriminate.
  Qed.

  Lemma fn_stmts_ends : forall ss ret0 s ret1 s',
    ctxs s <> [] -> fn_stmts G fuel RT ret0 ss s = Ok ret1 s' -> errs s' = [] ->
    exists d, ctxs s' = adds d (ctxs s) /\
              (ret1 = true -> (ret0 = true /\ d = []) \/ ends_ret d).
  Proof.
    induction ss as [|st ss IH]; intros ret0 s ret1 s' Hne H Hacc; cbn [fn_stmts] in H.
    - inversion H; subst. exists []. rewrite adds_nil. split; [reflexivity|]. intro. left. split; auto.
    - apply bind_ok in H as (u & s1 & E1 & H). apply bind_ok in H as (ret' & s2 & E2 & H).
      pose proof (errs_le_nil _ _ (Mono_R2 _ (R2_fn_stmts G fuel RT ss ret') _ _ _ H) Hacc) as Hacc2.
      pose proof (errs_le_nil _ _ (Mono_R2 _ (R2_fn_stmt G fuel RT ret0 st) _ _ _ E2) Hacc2) as Hacc1.
      destruct ret0; cbn [when] in E1; [exfalso; eapply add_error_not_nil; eassumption|].
      inversion E1; subst s1; clear E1.
      destruct (fn_stmt_ends st false s ret' s2 Hne E2) as (d1 & HC1 & Hr1).
      assert (Hne2 : ctxs s2 <> []) by (rewrite HC1; apply adds_ne, Hne).
      destruct (IH ret' s2 ret1 s' Hne2 H Hacc) as (d2 & HC2 & Hr2).
      exists (d1 ++ d2). split; [rewrite HC2, HC1, adds_adds; reflexivity|].
      intro Hret. right. destruct (Hr2 Hret) as [[Hr' ->]|(d' & i & -> & Hi)].
      + rewrite app_nil_r. destruct (Hr1 Hr') as [Hf|He]; [discriminate | exact He].
      + exists (d1 ++ d'), i. split; [rewrite app_assoc; reflexivity | exact Hi].
  Qed.
End EndsRet.

Lemma function_body_ends G f a s root :
  function_body G [] f = Ok a s -> errs s = [] -> frames s = [root] -> ends_ret (b_ctx root).
Proof.
  unfold function_body, function_body_m. intros H Hacc Hf.
  apply bind_ok in H as (u & s1 & E1 & H). apply bind_ok in H as (returned & s2 & E2 & H).
  destruct returned; cbn [negb when] in H.
  2:{ exfalso. eapply add_error_not_nil; eassumption. }
  inversion H; subst s2; clear H.
  assert (Hne0 : ctxs (BSt [empty_block] []) <> []) by discriminate.
  destruct (P_init_func_params (fn_params f) _ _ _ Hne0 E1) as (d0 & HC0 & _).
  assert (Hne1 : ctxs s1 <> []) by (rewrite HC0; apply adds_ne; discriminate).
  destruct (fn_stmts_ends G _ _ _ _ _ _ _ Hne1 E2 Hacc) as (d1 & HC1 & Hr).
  destruct (Hr eq_refl) as [[Hx _]|(d' & i & -> & Hi)]; [discriminate|].
  rewrite HC0 in HC1. unfold ctxs in HC1. rewrite Hf in HC1. cbn in HC1.
  inversion HC1 as [Hroot]. exists (d0 ++ d'), i. split; [|exact Hi]. rewrite Hroot, app_assoc; reflexivity.
Qed.

(** ** The driver: what [bodies] did for every function *)
Lemma bodies_each G : forall fs errs0 roots errs1 roots1,
  bodies G errs0 roots fs = inr (errs1, roots1) ->
  (exists e, errs1 = errs0 ++ e) /\
  exists news, roots1 = roots ++ news /\
    (errs1 = [] ->
     Forall2 (fun f root => exists a s, function_body G [] f = Ok a s /\ errs s = [] /\
                                        frames s = [root]) fs news).
Proof.
  induction fs as [|f fs IH]; intros errs0 roots errs1 roots1 H; cbn [bodies] in H.
  - inversion H; subst. split; [exists []; rewrite app_nil_r; reflexivity|].
    exists []. rewrite app_nil_r. split; [reflexivity | constructor].
  - destruct (function_body G errs0 f) as [a s| |] eqn:E; try discriminate.
    destruct (frames s) as [|root [|]] eqn:Ef; try discriminate.
    destruct (IH _ _ _ _ H) as [[e2 E2] (news & Hn & HF)].
    destruct (DefUse.function_body_errs _ _ _ _ _ E) as [e1 E1].
    split; [exists (e1 ++ e2); rewrite E2, E1, app_assoc; reflexivity|].
    exists (root :: news). split; [rewrite Hn, <- app_assoc; reflexivity|].
    intro Hnil. rewrite Hnil in E2. symmetry in E2. apply app_eq_nil in E2 as [E2 ->].
    rewrite E2 in E1. symmetry in E1. apply app_eq_nil in E1 as [-> ->].
    constructor; [|apply HF; exact Hnil].
    exists a, s. repeat split; assumption.
Qed.

Lemma run_accepted_each p out :
  run p = ROk out -> o_errors out = [] ->
  Forall2 (fun f root => exists a s, function_body (o_globals out) [] f = Ok a s /\ errs s = [] /\
                                     frames s = [root])
          (functions_of p) (o_fns out).
Proof.
  unfold run. intros H Hacc.
  destruct (bodies (gs_globals (declarations p)) (gs_errs (declarations p)) [] (functions_of p))
    as [r|[errors roots]] eqn:E; [exfalso; eapply bodies_inl_not_ok'; eauto|].
  inversion H; subst; clear H. cbn [o_errors o_globals o_fns] in *. subst errors.
  destruct (bodies_each _ _ _ _ _ _ E) as [_ (news & -> & HF)]. cbn [app]. apply HF. reflexivity.
Qed.

Lemma Forall2_in_r {A B} (P : A -> B -> Prop) la lb b :
  Forall2 P la lb -> In b lb -> exists a, In a la /\ P a b.
Proof.
  induction 1 as [|a0 b0 la lb H0 _ IH]; intro Hin; [contradiction|].
  destruct Hin as [<-|Hin]; [exists a0; split; [left; reflexivity | exact H0]|].
  destruct (IH Hin) as (a & Ha & HP). exists a. split; [right; exact Ha | exact HP].
Qed.

(** ** The theorems *)

(** (A) For every program on which the analysis terminates, whatever the outcomes of the
    conditions, the jump program of a function never looks up a label that is not set. *)
Theorem flat_never_bad_label : forall p out,
  run p = ROk out ->
  forall root, In root (o_fns out) ->
  forall w n l, snd (flat_exec (b_ctx root) w n) <> BadLabel l.
Proof.
  intros p out H root Hin w n l.
  pose proof (run_targets_resolved p out H) as HF. rewrite Forall_forall in HF.
  apply flat_run_no_bad_label. exact (HF root Hin).
Qed.

(** The stack of a function of an accepted program ends with its function-level return. *)
Theorem accepted_stack_ends_with_return : forall p out,
  run p = ROk out -> o_errors out = [] ->
  forall root, In root (o_fns out) ->
  exists pre last, b_ctx root = pre ++ [last] /\ Control.is_fn_ret last = true.
Proof.
  intros p out H Hacc root Hin.
  destruct (Forall2_in_r _ _ _ _ (run_accepted_each p out H Hacc) Hin) as (f & _ & a & s & Hb & He & Hf).
  exact (function_body_ends _ _ _ _ _ Hb He Hf).
Qed.

(** (B) In an accepted program, whatever the outcomes of the conditions, the jump program of a
    function never runs off the end of its stack. *)
Theorem flat_never_falls_off : forall p out,
  run p = ROk out -> o_errors out = [] ->
  forall root, In root (o_fns out) ->
  forall w n, snd (flat_exec (b_ctx root) w n) <> FellOff.
Proof.
  intros p out H Hacc root Hin w n.
  destruct (accepted_stack_ends_with_return p out H Hacc root Hin) as (pre & last & Hc & Hl).
  pose proof (run_targets_resolved p out H) as HF. rewrite Forall_forall in HF.
  eapply flat_run_no_fell_off; [exact (HF root Hin) | exact Hc | exact Hl|].
  rewrite Hc, app_length. cbn. lia.
Qed.

Corollary flat_always_ok : forall p out,
  run p = ROk out -> o_errors out = [] ->
  forall root, In root (o_fns out) ->
  forall w n, flat_ok (snd (flat_exec (b_ctx root) w n)) = true.
Proof.
  intros p out H Hacc root Hin w n.
  pose proof (flat_never_falls_off p out H Hacc root Hin w n) as H1.
  pose proof (flat_never_bad_label p out H root Hin w n) as H2.
  destruct (snd (flat_exec (b_ctx root) w n)); try reflexivity; [congruence | exfalso; eapply H2; reflexivity].
Qed.

Print Assumptions flat_never_bad_label.
Print Assumptions flat_never_falls_off.
Print Assumptions flat_always_ok.
