(** Classifier for C13 (totality): is a program in the domain on which the analysis is proven to
    return normally?  Computation only; the proofs are in [Proofs/Total.v].

    [in_domain_b p] is the conjunction, over the functions of [p], of

    (K)  [kinded_fn]: the statement placement that the four Rust statement enums enforce:
         an expression statement only at function level; [break] / [continue] only in loop
         bodies and in loop-flavoured if-bodies ([IBLoop]);
    (P1) [loops_fn]: a loop-flavoured if-body only inside a loop body (possibly through
         if-bodies) -- the documented precondition of [if_condition_loop_body];
    (S)  [names_fn]: the name of every [let] and of every parameter has a numeric suffix
         ([sfx]: what follows a single dot, read as [u64::from_str(..).unwrap_or_default()])
         below 2^32, and [size_fn f < 2^32] (so that fewer than 2^64 - 2^32 names are ever
         registered). *)
From SA Require Import Model.
Local Open Scope list_scope.

(** the number [set_attr_counter] increments: zero unless the name has exactly two dot parts *)
Definition sfx (n : string) : N :=
  match split_dot n with [_; b] => parse_u64_or_0 b | _ => 0 end.

Definition two32 : N := 4294967296.

Definition name_ok (x : ident) : bool := sfx (iname x) <? two32.

Definition opt_b {A} (f : A -> bool) (o : option A) : bool :=
  match o with Some a => f a | None => true end.

(** ** One traversal of the statements of a body.
    [brk]: the block is a loop body or a loop-flavoured if-body; [inl]: a loop encloses it.
    [chk] is asked at every statement, [chkb] at every if-body. *)
Section Walk.
  Variable chk : bool -> bool -> stmt -> bool.
  Variable chkb : bool -> ifbody -> bool.

  Fixpoint walk_stmt (brk inl : bool) (st : stmt) : bool :=
    chk brk inl st &&
    match st with
    | SIf i => walk_if inl i
    | SLoop body => forallb (walk_stmt true true) body
    | _ => true
    end
  with walk_if (inl : bool) (i : ifstmt) : bool :=
    match i with
    | IfS _ body els elif =>
        walk_body inl body &&
        match els with Some b => walk_body inl b | None => true end &&
        match elif with Some i' => walk_if inl i' | None => true end
    end
  with walk_body (inl : bool) (b : ifbody) : bool :=
    chkb inl b &&
    match b with
    | IBIf ss => forallb (walk_stmt false inl) ss
    | IBLoop ss => forallb (walk_stmt true inl) ss
    end.

  (** function level: no enclosing loop; [chk_fn] replaces [chk] for the top statements *)
  Variable chk_fn : stmt -> bool.
  Definition walk_fn_stmt (st : stmt) : bool :=
    chk_fn st &&
    match st with
    | SIf i => walk_if false i
    | SLoop body => forallb (walk_stmt true true) body
    | _ => true
    end.
End Walk.

(** ** (K) *)
Definition chk_kind (brk _ : bool) (st : stmt) : bool :=
  match st with
  | SBreak | SContinue => brk
  | SExprStmt _ => false
  | _ => true
  end.
Definition chk_kind_fn (st : stmt) : bool :=
  match st with SBreak | SContinue => false | _ => true end.
Definition any_body (_ : bool) (_ : ifbody) : bool := true.

Definition kinded_stmt := walk_stmt chk_kind any_body.
Definition kinded_if := walk_if chk_kind any_body.
Definition kinded_body := walk_body chk_kind any_body.
Definition kinded_fn (f : fn_decl) : bool :=
  forallb (walk_fn_stmt chk_kind any_body chk_kind_fn) (fn_body f).

(** ** (P1) *)
Definition any_stmt (_ _ : bool) (_ : stmt) : bool := true.
Definition chk_loop_body (inl : bool) (b : ifbody) : bool :=
  match b with IBLoop _ => inl | IBIf _ => true end.

Definition loops_stmt := walk_stmt any_stmt chk_loop_body.
Definition loops_if := walk_if any_stmt chk_loop_body.
Definition loops_body := walk_body any_stmt chk_loop_body.
Definition loops_fn (f : fn_decl) : bool :=
  forallb (walk_fn_stmt any_stmt chk_loop_body (fun _ => true)) (fn_body f).

(** ** (S) *)
Definition chk_name (_ _ : bool) (st : stmt) : bool :=
  match st with SLet x _ _ _ => name_ok x | _ => true end.

Definition names_stmt := walk_stmt chk_name any_body.
Definition names_if := walk_if chk_name any_body.
Definition names_body := walk_body chk_name any_body.
Definition names_fn (f : fn_decl) : bool :=
  forallb (fun p => name_ok (fst p)) (fn_params f) &&
  forallb (walk_fn_stmt chk_name any_body (chk_name false false)) (fn_body f) &&
  (N.of_nat (size_fn f) <? two32).

(** ** The domain *)
Definition fn_in_domain_b (f : fn_decl) : bool := kinded_fn f && loops_fn f && names_fn f.

Definition in_domain_b (p : program) : bool := forallb fn_in_domain_b (functions_of p).
