(** The value-level monitor of C05, generic in the interpretation, and its CONSTANT-SIZE instance:
    computation only.

    [chk_C05_gen V mk args salts nflat nsrc p o] is [Mon/C05w.chk_C05v_sound] with an arbitrary
    family of interpretations [mk salt : interp V] and argument values [args n] in place of the
    free interpretation: accepted programs only, the recorded finding F5 ([quirk = true]), the
    machine on [nflat] units of fuel and the source on [nsrc], and only the four judgements that
    are proved of the model ((a) the traces agree, (b) the source ends well, (c) the machine
    neither misses a label nor runs off its stack, (d) the machine is not stuck when the source
    returned).

    [hash_interp salt : interp N]: values are fingerprints below the prime [hM] = 2^31 - 1.
    Every operation is a few multiply-adds, each reduced modulo [hM] at once, so every
    intermediate number stays below 2^52 and the cost of an operation does not depend on the
    history of the value (with the free interpretation the terms of a loop such as [x = x + x]
    double at every iteration). *)
From SA Require Import Model.
From SA.Spec Require Import Stack ValueExec.
From SA.Mon Require Import Control C05w.
Local Open Scope list_scope.

(** ** The generic monitor *)
Section Gen.
  Variable V : Type.
  Variable mk : N -> interp V.
  Variable args : nat -> list V.

  Definition chk_C05_gen_salt (nflat nsrc : nat) (f : fn_decl) (root : block) (salt : N) : bool :=
    let I := mk salt in
    let a := args (length (fn_params f)) in
    let tf := vflat_exec V I (b_ctx root) a nflat in
    let ts := vstruct_exec V I true f a nsrc in
    vagree V I tf ts && vok (snd ts) && machine_ends_inside (snd tf) &&
    not_stuck_when_returned (snd tf) (snd ts).

  Definition chk_C05_gen_fn (salts : list N) (nflat nsrc : nat) (f : fn_decl) (root : block) : bool :=
    forallb (chk_C05_gen_salt nflat nsrc f root) salts.

  (** only accepted programs are judged *)
  Definition chk_C05_gen (salts : list N) (nflat nsrc : nat) (p : program) (o : output) : bool :=
    match o_errors o with
    | [] => forallb2 (chk_C05_gen_fn salts nflat nsrc) (functions_of p) (o_fns o)
    | _ => true
    end.
End Gen.

(** the instance of [Mon/C05w.v] *)
Definition chk_C05_free : list N -> nat -> nat -> program -> output -> bool :=
  chk_C05_gen term free_interp free_args.

(** ** Fingerprints *)

(** the Mersenne prime 2^31 - 1: reduction is two shifts, two masks and two additions *)
Definition hM : N := 2147483647.

(** [x mod hM] for [x < 2^62] (for larger [x]: still a number below 2^31 + ...: [red] below is the
    general reduction); no division *)
Definition fold31 (x : N) : N :=
  let y := N.land x hM + N.shiftr x 31 in
  let z := N.land y hM + N.shiftr y 31 in
  if hM <=? z then z - hM else z.

(** one multiply-add, reduced at once: for [acc < 2^31], [k < 2^20], [x < 2^32] the intermediate
    number is below 2^52 *)
Definition madd (acc k x : N) : N := fold31 (acc * k + x).

(** order-sensitive: [mix3 t a b <> mix3 t b a] in general.  The operands are fingerprints
    (below [hM]) wherever these are used on values; foreign numbers (tags, bits of literals,
    hashes of names) are reduced first ([red]). *)
Definition red (x : N) : N := x mod hM.
Definition mix2 (t a : N) : N := madd (madd t 65599 a) 31 17.
Definition mix3 (t a b : N) : N := madd (madd (madd t 65599 a) 104729 b) 31 29.

(** small codes of the operators (no hashing of their names at every operation) *)
Definition binop_code (o : binop) : N :=
  match o with
  | OPlus => 1 | OMinus => 2 | OMultiply => 3 | ODivide => 4 | OShiftLeft => 5 | OShiftRight => 6
  | OAnd => 7 | OOr => 8 | OXor => 9 | OEq => 10 | ONotEq => 11 | OGreat => 12 | OLess => 13
  | OGreatEq => 14 | OLessEq => 15
  end.
Definition cmpop_code (c : cmpop) : N :=
  match c with
  | CGreat => 21 | CLess => 22 | CEq => 23 | CGreatEq => 24 | CLessEq => 25 | CNotEq => 26
  end.

Definition prim_ty_code (t : prim_ty) : N :=
  match t with
  | PU8 => 31 | PU16 => 32 | PU32 => 33 | PU64 => 34 | PI8 => 35 | PI16 => 36 | PI32 => 37
  | PI64 => 38 | PF32 => 39 | PF64 => 40 | PBool => 41 | PChar => 42 | PPtr => 43 | PNone => 44
  end.

Definition fp_lit (p : prim_val) : N :=
  let bits := pv_bits p in
  mix3 (300 + prim_ty_code (pv_ty p))
       (red (Z.abs_N bits))
       (if Z.ltb bits 0 then 2 else 1).

(** order-sensitive in the arguments, mixes their number *)
Definition fp_call (f : string) (xs : list N) : N :=
  mix2 (fold_left (fun acc x => madd acc 65599 x) xs
                  (madd (madd 59 131 (hash_string f)) 131 (N.of_nat (length xs)))) 61.

(** one bit out of a fingerprint and the salt (no division) *)
Definition hdecide (salt x : N) : bool :=
  N.testbit (madd (madd x (2 * salt + 1) (salt + 7)) 40503 11) 9.

Definition hash_interp (salt : N) : interp N :=
  Interp N
    fp_lit
    (fun o a b => mix3 (100 + binop_code o) a b)
    (fun c a b => hdecide salt (mix3 (200 + cmpop_code c) a b))
    (fun a => hdecide salt (mix2 103 a))
    (fun v a => mix3 29 v (hash_string a))
    (fun tag => mix2 41 (red tag))
    (fun x => mix2 47 (hash_string x))
    fp_call
    N.eqb.

Definition hash_args (n : nat) : list N := map (fun k => mix2 79 (N.of_nat k)) (seq 0 n).

Definition chk_C05h : list N -> nat -> nat -> program -> output -> bool :=
  chk_C05_gen N hash_interp hash_args.
