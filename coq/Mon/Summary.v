(** A numeric summary of a run, computed both inside Coq ([vm_compute]) and by the extracted
    OCaml code on the same programs: a cross-check of the extraction pipeline itself. *)
From SA Require Import Model.
From SA.Mon Require Import C09 C12.
Local Open Scope list_scope.

Fixpoint block_summary (b : block) : list N :=
  match b with
  | Block vals inner labels reg mret ctx kids =>
      [N.of_nat (length vals); N.of_nat (length inner); N.of_nat (length labels); reg;
       (if mret then 1 else 0); N.of_nat (length ctx); N.of_nat (length kids)] ++
      (fix go (ks : list block) : list N :=
         match ks with [] => [] | k :: ks' => block_summary k ++ go ks' end) kids
  end.

Definition summary (r : run_result) : list N :=
  match r with
  | ROk o =>
      [1; N.of_nat (length (o_errors o)); N.of_nat (length (g_types (o_globals o)));
       N.of_nat (length (g_consts (o_globals o))); N.of_nat (length (g_funcs (o_globals o)));
       N.of_nat (length (o_gstack o)); (if chk_C09 o then 1 else 0); (if chk_C12 o then 1 else 0)] ++
      flat_map block_summary (o_fns o)
  | RPanic _ => [2]
  | ROutOfFuel => [3]
  end.
