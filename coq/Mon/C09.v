(** Monitor for C09 (run on the implementation's output). *)
From SA Require Import Model.
From SA.Spec Require Import Stack.
Local Open Scope list_scope.

Fixpoint increasing_from (prev : N) (l : list N) : bool :=
  match l with
  | [] => true
  | r :: l' => (prev <? r) && increasing_from r l'
  end.

Definition chk_C09_root (b : block) : bool :=
  increasing_from 0 (defs (b_ctx b)) && forallb (fun r => r <=? b_reg b) (defs (b_ctx b)).

Definition chk_C09 (o : output) : bool := forallb chk_C09_root (o_fns o).
