(** Monitor for C15 (run on the implementation's output): the global tables, the global
    instruction stack and the number of root blocks are those of [Spec/Tables.v]. *)
From SA Require Import Sem.
From SA.Spec Require Import Tables.
Local Open Scope list_scope.

(** Tables are compared as maps: as many bindings as the specification has, and every key of the
    specification bound to an equal entry. *)
Definition table_eqb {V : Type} (veqb : V -> V -> bool) (spec out : list (string * V)) : bool :=
  Nat.eqb (length out) (length spec) &&
  forallb (fun kv => match alookup (fst kv) out with
                     | Some v => veqb (snd kv) v
                     | None => false
                     end) spec.

Definition chk_C15 (p : program) (o : output) : bool :=
  table_eqb sem_ty_eqb (spec_types p) (g_types (o_globals o)) &&
  table_eqb const_sem_eqb (spec_consts p) (g_consts (o_globals o)) &&
  table_eqb func_sem_eqb (spec_funcs p) (g_funcs (o_globals o)) &&
  list_eqb ginstr_eqb (spec_gstack p) (o_gstack o) &&
  Nat.eqb (length (o_fns o)) (length (spec_fns p)).
