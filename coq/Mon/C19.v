(** Monitor for C19 (run on the implementation's output, harness extension [Ext{ty, tag}]):
    computation only.

    For every function of an accepted program:
    - [chk_C19_order]: the tags of the [ExtendedExpression] instructions of the root stack, in
      stack order, are the tags of the extension leaves of the source in evaluation order (as
      lists: exactly once each, in place; no distinctness of tags is assumed);
    - [chk_C19_types]: every operand that names the register of the j-th extension instruction
      carries the type of the j-th source leaf (the result is used verbatim), and that register
      is read exactly once (by the instruction in whose position the leaf stands; which position
      that is, is C06's business: there the leaf is a [DExt tag] of the denotation tree);
    - [chk_C19_blocks]: in the block tree, every extension instruction of a block's own stack
      occurs in its parent's stack (as a sub-multiset; the subsequence property is C18). *)
From SA Require Import Model.
From SA.Spec Require Import Stack.
Local Open Scope list_scope.

(** ** Extension leaves of the source, in evaluation order *)
Fixpoint expr_exts (e : expr) : list (N * ast_ty) :=
  match e with
  | Expr v rest =>
      val_exts v ++
      (fix go (l : list (binop * expr_val)) : list (N * ast_ty) :=
         match l with [] => [] | (_, v') :: l' => val_exts v' ++ go l' end) rest
  end
with val_exts (v : expr_val) : list (N * ast_ty) :=
  match v with
  | EVCall _ args =>
      (fix go (l : list expr) : list (N * ast_ty) :=
         match l with [] => [] | a :: l' => expr_exts a ++ go l' end) args
  | EVSub e => expr_exts e
  | EVExt t tag => [(tag, t)]
  | _ => []
  end.

Fixpoint lcond_exts (c : lcond) : list (N * ast_ty) :=
  match c with
  | LC l _ r next =>
      expr_exts l ++ expr_exts r ++
      match next with Some (_, c') => lcond_exts c' | None => [] end
  end.

Definition cond_exts (c : cond) : list (N * ast_ty) :=
  match c with CSingle e => expr_exts e | CLogic l => lcond_exts l end.

(** statements in the order in which they are analysed: condition, then-body, then the else-body
    or (without an else) the else-if *)
Fixpoint stmt_exts (s : stmt) : list (N * ast_ty) :=
  match s with
  | SLet _ _ _ e | SBind _ e | SRet e | SExprStmt e => expr_exts e
  | SCall _ args => flat_map expr_exts args
  | SIf i => if_exts i
  | SLoop body =>
      (fix go (l : list stmt) : list (N * ast_ty) :=
         match l with [] => [] | x :: l' => stmt_exts x ++ go l' end) body
  | SBreak | SContinue => []
  end
with if_exts (i : ifstmt) : list (N * ast_ty) :=
  match i with
  | IfS c body els elif =>
      cond_exts c ++ ifbody_exts body ++
      match els with
      | Some eb => ifbody_exts eb
      | None => match elif with Some ei => if_exts ei | None => [] end
      end
  end
with ifbody_exts (b : ifbody) : list (N * ast_ty) :=
  match b with
  | IBIf ss | IBLoop ss =>
      (fix go (l : list stmt) : list (N * ast_ty) :=
         match l with [] => [] | x :: l' => stmt_exts x ++ go l' end) ss
  end.

Definition fn_exts (f : fn_decl) : list (N * ast_ty) := flat_map stmt_exts (fn_body f).

(** ** Extension instructions of a stack: (tag, register), in stack order *)
Definition ext_of (i : instr) : list (N * N) :=
  match i with IExt tag r => [(tag, r)] | _ => [] end.
Definition stack_exts (c : list instr) : list (N * N) := flat_map ext_of c.

Fixpoint list_N_eqb (a b : list N) : bool :=
  match a, b with
  | [], [] => true
  | x :: a', y :: b' => N.eqb x y && list_N_eqb a' b'
  | _, _ => false
  end.

(** (1) exactly once, in place *)
Definition chk_order_fn (f : fn_decl) (root : block) : bool :=
  list_N_eqb (map fst (stack_exts (b_ctx root))) (map fst (fn_exts f)).

(** ** (2) the result is used verbatim: the type *)
Definition operands_of (i : instr) : list eres :=
  match i with
  | IExprOp _ l r _ => [l; r]
  | ICall _ args _ => args
  | ILet _ e | IBind _ e | IFnRet e | IFnRetLabel e | IJumpFnRet e => [e]
  | IIfCondExpr e _ _ => [e]
  | ICondExpr l r _ _ => [l; r]
  | _ => []
  end.

(** registers of the extension instructions seen so far with their positions, most recent first *)
Fixpoint ext_pos (n : N) (s : list (N * N)) : option N :=
  match s with
  | [] => None
  | (r, j) :: s' => if N.eqb n r then Some j else ext_pos n s'
  end.

Fixpoint nthN {A : Type} (l : list A) (n : N) : option A :=
  match l with
  | [] => None
  | x :: l' => if N.eqb n 0 then Some x else nthN l' (n - 1)
  end.

Definition operand_ty_ok (src : list (N * ast_ty)) (seen : list (N * N)) (e : eres) : bool :=
  match r_val e with
  | RPrim _ => true
  | RReg n =>
      match ext_pos n seen with
      | None => true
      | Some j =>
          match nthN src j with
          | Some (_, t) => sem_ty_eqb (r_ty e) (sem_of_ty t)
          | None => false
          end
      end
  end.

Fixpoint scan_types (src : list (N * ast_ty)) (seen : list (N * N)) (j : N) (c : list instr)
  : bool :=
  match c with
  | [] => true
  | i :: c' =>
      forallb (operand_ty_ok src seen) (operands_of i) &&
      match i with
      | IExt _ r => scan_types src ((r, j) :: seen) (j + 1) c'
      | _ => scan_types src seen j c'
      end
  end.

Fixpoint count_N (n : N) (l : list N) : N :=
  match l with
  | [] => 0
  | m :: l' => (if N.eqb n m then 1 else 0) + count_N n l'
  end.

(** every extension register is read exactly once *)
Definition used_once (c : list instr) : bool :=
  let uses := flat_map use_regs c in
  forallb (fun tr => N.eqb (count_N (snd tr) uses) 1) (stack_exts c).

Definition chk_types_fn (f : fn_decl) (root : block) : bool :=
  scan_types (fn_exts f) [] 0 (b_ctx root) && used_once (b_ctx root).

(** ** (3) pushed through the block interface: present in every ancestor *)
Definition ext_eqb (a b : N * N) : bool := N.eqb (fst a) (fst b) && N.eqb (snd a) (snd b).

(** remove one occurrence *)
Fixpoint remove_one (x : N * N) (l : list (N * N)) : option (list (N * N)) :=
  match l with
  | [] => None
  | y :: l' =>
      if ext_eqb x y then Some l'
      else match remove_one x l' with Some r => Some (y :: r) | None => None end
  end.

Fixpoint sub_multiset (a b : list (N * N)) : bool :=
  match a with
  | [] => true
  | x :: a' => match remove_one x b with Some b' => sub_multiset a' b' | None => false end
  end.

Fixpoint chk_blocks_tree (b : block) : bool :=
  match b with
  | Block _ _ _ _ _ ctx kids =>
      (fix go (ks : list block) : bool :=
         match ks with
         | [] => true
         | k :: ks' =>
             sub_multiset (stack_exts (b_ctx k)) (stack_exts ctx) && chk_blocks_tree k && go ks'
         end) kids
  end.

(** ** The monitor *)
Fixpoint all_fns (chk : fn_decl -> block -> bool) (fs : list fn_decl) (roots : list block) : bool :=
  match fs, roots with
  | [], [] => true
  | f :: fs', r :: roots' => chk f r && all_fns chk fs' roots'
  | _, _ => false
  end.

Definition accepted_only (o : output) (b : bool) : bool :=
  match o_errors o with [] => b | _ => true end.

Definition chk_C19_order (p : program) (o : output) : bool :=
  accepted_only o (all_fns chk_order_fn (functions_of p) (o_fns o)).
Definition chk_C19_types (p : program) (o : output) : bool :=
  accepted_only o (all_fns chk_types_fn (functions_of p) (o_fns o)).
Definition chk_C19_blocks (p : program) (o : output) : bool :=
  accepted_only o (forallb chk_blocks_tree (o_fns o)).

Definition chk_C19 (p : program) (o : output) : bool :=
  chk_C19_order p o && chk_C19_types p o && chk_C19_blocks p o.

(** how many extension leaves the monitor judges (coverage) *)
Definition judged_C19 (p : program) : N :=
  N.of_nat (length (flat_map fn_exts (functions_of p))).

(** The same judgement WITHOUT the exemption of rejected analyses, for programs admitted by the
    intended rule set: such a program has to be accepted (C02), so every one of its leaves has to
    be evaluated once, in place, and its result used verbatim.  This is the form run on the
    implementation's output for every well-formed program, whatever its error list says (a
    change that drops the result of a leaf also reports an error). *)
Definition chk_C19_strict (p : program) (o : output) : bool :=
  all_fns chk_order_fn (functions_of p) (o_fns o) &&
  all_fns chk_types_fn (functions_of p) (o_fns o) &&
  forallb chk_blocks_tree (o_fns o).
