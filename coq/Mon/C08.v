(** Monitor for C08 (run on the implementation's output): every register that is read has been
    written earlier in the same function stack.

    [quirk = false]: the statement of the property.
    [quirk = true]: the statement modulo the recorded finding F7 — a register [n] that nothing
    writes may be read when [n - 1] was written earlier by a [Call] or an [ExpressionStructValue]
    (the analyzer increments the counter once more after those two and names the register after
    the one written). *)
From SA Require Import Model.
From SA.Spec Require Import Stack.
Local Open Scope list_scope.

Definition is_call_or_field (i : instr) : bool :=
  match i with ICall _ _ _ | IExprStruct _ _ _ => true | _ => false end.

(** registers written so far, with "written by a call / field read" *)
Definition seen := list (N * bool).

Fixpoint written (n : N) (s : seen) : bool :=
  match s with [] => false | (m, _) :: s' => N.eqb n m || written n s' end.
Fixpoint written_by_f7 (n : N) (s : seen) : bool :=
  match s with [] => false | (m, b) :: s' => (N.eqb n m && b) || written_by_f7 n s' end.

Definition reg_ok (quirk : bool) (s : seen) (n : N) : bool :=
  written n s || (quirk && negb (N.eqb n 0) && written_by_f7 (n - 1) s).

Fixpoint scan (quirk : bool) (s : seen) (c : list instr) : bool :=
  match c with
  | [] => true
  | i :: c' =>
      forallb (reg_ok quirk s) (use_regs i) &&
      scan quirk (match def_reg i with Some r => (r, is_call_or_field i) :: s | None => s end) c'
  end.

Definition chk_C08_root (quirk : bool) (b : block) : bool := scan quirk [] (b_ctx b).
Definition chk_C08 (quirk : bool) (o : output) : bool := forallb (chk_C08_root quirk) (o_fns o).

(** how many operand reads fall under the F7 exception (coverage / KNOWN-FINDING reporting) *)
Fixpoint f7_reads (s : seen) (c : list instr) : nat :=
  match c with
  | [] => O
  | i :: c' =>
      (length (filter (fun n => negb (written n s)) (use_regs i)) +
       f7_reads (match def_reg i with Some r => (r, is_call_or_field i) :: s | None => s end) c')%nat
  end.
Definition f7_count (o : output) : nat :=
  fold_right (fun b n => (f7_reads [] (b_ctx b) + n)%nat) O (o_fns o).
