(** Monitors for C05 (jump program = structured semantics, bounded), C10 (labels) and C11
    (function-return instructions).  Computation only: these are extracted and run on the
    implementation's output. *)
From SA Require Import Model.
From SA.Spec Require Import Stack Exec.
Local Open Scope list_scope.

(** Pointwise check of two lists of the same length. *)
Fixpoint forallb2 {A B : Type} (f : A -> B -> bool) (la : list A) (lb : list B) : bool :=
  match la, lb with
  | [], [] => true
  | a :: la', b :: lb' => f a b && forallb2 f la' lb'
  | _, _ => false
  end.

(** ** C05 *)
Definition chk_C05_word (quirk : bool) (fuel : nat) (f : fn_decl) (root : block) (w : list bool)
  : bool :=
  let tf := flat_exec (b_ctx root) w fuel in
  let ts := struct_exec quirk (fn_body f) w fuel in
  flat_ok (snd tf) && flat_ok (snd ts) && agree tf ts.

Definition chk_C05_fn (quirk : bool) (k fuel : nat) (f : fn_decl) (root : block) : bool :=
  forallb (chk_C05_word quirk fuel f root) (all_outcomes k).

Definition chk_C05 (quirk : bool) (k fuel : nat) (p : program) (o : output) : bool :=
  forallb2 (chk_C05_fn quirk k fuel) (functions_of p) (o_fns o).

(** ** C10 *)
Fixpoint nodupb (l : list string) : bool :=
  match l with
  | [] => true
  | x :: l' => negb (smem x l') && nodupb l'
  end.

Definition chk_C10_unique_root (root : block) : bool := nodupb (set_labels (b_ctx root)).
Definition chk_C10_unique (o : output) : bool := forallb chk_C10_unique_root (o_fns o).

Definition chk_C10_resolve_root (root : block) : bool :=
  forallb (fun i => forallb (fun l => smem l (set_labels (b_ctx root))) (target_labels i))
          (b_ctx root).
Definition chk_C10_resolve (o : output) : bool := forallb chk_C10_resolve_root (o_fns o).

(** ** C11 *)
Definition is_fn_ret (i : instr) : bool :=
  match i with IFnRet _ | IFnRetLabel _ => true | _ => false end.
Definition is_fn_ret_label (i : instr) : bool :=
  match i with IFnRetLabel _ => true | _ => false end.
Definition is_jump_fn_ret (i : instr) : bool :=
  match i with IJumpFnRet _ => true | _ => false end.

Definition count_instr (f : instr -> bool) (c : list instr) : nat := length (filter f c).

(** [return] statements at any depth of a statement (the statement itself included). *)
Fixpoint rets_stmt (s : stmt) : nat :=
  match s with
  | SRet _ => 1%nat
  | SIf i => rets_if i
  | SLoop body =>
      (fix go (l : list stmt) : nat :=
         match l with [] => O | s' :: l' => (rets_stmt s' + go l')%nat end) body
  | _ => O
  end
with rets_if (i : ifstmt) : nat :=
  match i with
  | IfS _ body els elif =>
      (rets_ifbody body +
       match els with Some b => rets_ifbody b | None => O end +
       match elif with Some i' => rets_if i' | None => O end)%nat
  end
with rets_ifbody (b : ifbody) : nat :=
  match b with
  | IBIf ss | IBLoop ss =>
      (fix go (l : list stmt) : nat :=
         match l with [] => O | s' :: l' => (rets_stmt s' + go l')%nat end) ss
  end.

(** [return] statements nested in the if / loop bodies of a function body: the function-level
    [SRet] / [SExprStmt] are not nested. *)
Definition nested_rets_stmt (s : stmt) : nat :=
  match s with
  | SRet _ | SExprStmt _ => O
  | _ => rets_stmt s
  end.
Definition nested_rets (body : list stmt) : nat :=
  fold_right (fun s n => (nested_rets_stmt s + n)%nat) O body.

Definition chk_C11_fn (f : fn_decl) (root : block) : bool :=
  match rev (b_ctx root) with
  | [] => false
  | last :: before =>
      is_fn_ret last &&
      negb (existsb is_fn_ret before) &&
      Bool.eqb (is_fn_ret_label last) (existsb is_jump_fn_ret before) &&
      Nat.eqb (count_instr is_jump_fn_ret (b_ctx root)) (nested_rets (fn_body f))
  end.

Definition chk_C11 (p : program) (o : output) : bool :=
  forallb2 chk_C11_fn (functions_of p) (o_fns o).
