(** Monitor for C07, all leaf kinds and all statement positions (run on the implementation's
    output): computation only.

    [Mon/C06.v] compares, use site by use site, the denotation tree read back from the root stack
    with the source expression AS TOKEN LISTS, i.e. modulo the bracketing of operator chains.
    This monitor closes that gap.  Both sides are reduced to SHAPES -- what is left of an
    expression when every leaf is forgotten but the nesting of operators, calls, comparisons and
    connectives is kept -- and the shapes are compared site by site:
    - the stack side is [Mon/C06.scan] itself (registers expanded through the instructions that
      define them, finding F7 included), every tree mapped by [shape_of_dt];
    - the source side brackets every chain with [Spec/Bracket.bracket] (the reference algorithm,
      independent of the level passes of the analyzer); explicit brackets are transparent, calls
      carry the shapes of their argument expressions.  The sites are enumerated in the order of
      [Mon/C06.fn_sites] (whose [esite]s carry token lists only, hence the parallel functions;
      the calls of an expression are [Mon/C06.expr_calls]).
    Together with [chk_C06] (same leaves and operators in the same in-order sequence) this says
    that the emitted tree IS the bracketed source tree: for the value bound by each let, stored
    by each assignment, passed as each call argument, returned by each return, tested by each
    single-expression condition, and for both sides of each comparison of a logic condition. *)
From SA Require Import Model.
From SA.Spec Require Import Stack Bracket.
From SA.Mon Require Import C06.
Local Open Scope list_scope.

(** ** Shapes *)
Inductive shape :=
| ShLeaf
| ShCall (args : list shape)
| ShNode (o : binop) (l r : shape)
| ShCmp (c : cmpop) (l r : shape)
| ShLogic (o : logicop) (l r : shape).

Fixpoint shape_eqb (a b : shape) : bool :=
  match a, b with
  | ShLeaf, ShLeaf => true
  | ShCall xs, ShCall ys =>
      (fix go (xs ys : list shape) : bool :=
         match xs, ys with
         | [], [] => true
         | x :: xs', y :: ys' => shape_eqb x y && go xs' ys'
         | _, _ => false
         end) xs ys
  | ShNode o l r, ShNode o' l' r' => bop_eqb o o' && shape_eqb l l' && shape_eqb r r'
  | ShCmp c l r, ShCmp c' l' r' => cop_eqb c c' && shape_eqb l l' && shape_eqb r r'
  | ShLogic o l r, ShLogic o' l' r' => lop_eqb o o' && shape_eqb l l' && shape_eqb r r'
  | _, _ => false
  end.

Fixpoint shapes_eqb (xs ys : list shape) : bool :=
  match xs, ys with
  | [], [] => true
  | x :: xs', y :: ys' => shape_eqb x y && shapes_eqb xs' ys'
  | _, _ => false
  end.

(** ** The stack side: the shape of a denotation tree *)
Fixpoint shape_of_dt (t : dt) : shape :=
  match t with
  | DOp o l r => ShNode o (shape_of_dt l) (shape_of_dt r)
  | DCall _ args => ShCall (map shape_of_dt args)
  | DCmp c l r => ShCmp c (shape_of_dt l) (shape_of_dt r)
  | DLogic o l r => ShLogic o (shape_of_dt l) (shape_of_dt r)
  | DLit _ | DRead _ | DConst _ | DField _ _ | DExt _ | DUnknown _ => ShLeaf
  end.

(** use sites, reduced to shapes *)
Inductive hsite :=
| HLet (s : shape)
| HAssign (s : shape)
| HRet (s : shape)
| HCondSingle (s : shape)
| HCondLogic (s : shape)
| HCall (args : list shape).

Definition hsite_of_usite (u : usite) : hsite :=
  match u with
  | ULet _ t => HLet (shape_of_dt t)
  | UAssign _ t => HAssign (shape_of_dt t)
  | URet t => HRet (shape_of_dt t)
  | UCondSingle t => HCondSingle (shape_of_dt t)
  | UCondLogic t => HCondLogic (shape_of_dt t)
  | UCall _ args => HCall (map shape_of_dt args)
  end.

(** the shape sites of a stack, in stack order: [Mon/C06.scan], mapped *)
Definition stack_hsites (c : list instr) : list hsite := map hsite_of_usite (scan [] c).

(** ** The source side *)

(** The shape of a chain bracketed by [bracket]: the leaves of the tree are the operands of the
    chain; an explicit bracket is the shape of the chain inside, a call carries the shapes of its
    arguments.  [fuel] bounds the nesting of brackets and calls plus the depth of the trees. *)
Fixpoint shape_of_tree (fuel : nat) (t : tree) : shape :=
  match fuel with
  | O => ShLeaf
  | S f =>
      match t with
      | Leaf (EVSub (Expr v rest)) => shape_of_tree f (bracket v rest)
      | Leaf (EVCall _ args) =>
          ShCall (map (fun a => match a with Expr v rest => shape_of_tree f (bracket v rest) end)
                      args)
      | Leaf _ => ShLeaf
      | Node l o r => ShNode o (shape_of_tree f l) (shape_of_tree f r)
      end
  end.

Definition shape_of_expr (e : expr) : shape :=
  match e with Expr v rest => shape_of_tree (S (S (size_expr e))) (bracket v rest) end.

(** a call site: the shapes of the argument expressions *)
Definition call_hsite (c : ident * list expr) : hsite := HCall (map shape_of_expr (snd c)).

(** the calls inside an expression, in the order of [Mon/C06.expr_calls] *)
Definition call_hsites (e : expr) : list hsite := map call_hsite (expr_calls e).

(** a logic condition: comparisons nest to the right under their connectives, as in
    [Mon/C06.lcond_toks] *)
Fixpoint shape_of_lcond (c : lcond) : shape :=
  match c with
  | LC l cmp r next =>
      let a := ShCmp cmp (shape_of_expr l) (shape_of_expr r) in
      match next with
      | None => a
      | Some (o, c') => ShLogic o a (shape_of_lcond c')
      end
  end.

Fixpoint lcond_hcalls (c : lcond) : list hsite :=
  match c with
  | LC l _ r next =>
      call_hsites l ++ call_hsites r ++
      match next with Some (_, c') => lcond_hcalls c' | None => [] end
  end.

Definition cond_hsites (c : cond) : list hsite :=
  match c with
  | CSingle e => call_hsites e ++ [HCondSingle (shape_of_expr e)]
  | CLogic lc => lcond_hcalls lc ++ [HCondLogic (shape_of_lcond lc)]
  end.

(** statements, in the order of [Mon/C06.stmt_sites] (no scope is needed: shapes have no names) *)
Fixpoint stmt_hsites (s : stmt) : list hsite :=
  match s with
  | SLet _ _ _ e => call_hsites e ++ [HLet (shape_of_expr e)]
  | SBind _ e => call_hsites e ++ [HAssign (shape_of_expr e)]
  | SCall f args => flat_map call_hsites args ++ [call_hsite (f, args)]
  | SIf i => if_hsites i
  | SLoop body =>
      (fix go (ss : list stmt) : list hsite :=
         match ss with [] => [] | s' :: ss' => stmt_hsites s' ++ go ss' end) body
  | SRet e | SExprStmt e => call_hsites e ++ [HRet (shape_of_expr e)]
  | SBreak | SContinue => []
  end
with if_hsites (i : ifstmt) : list hsite :=
  match i with
  | IfS c body els elif =>
      cond_hsites c ++ ifbody_hsites body ++
      match els with
      | Some eb => ifbody_hsites eb                   (* the else wins over an else-if *)
      | None => match elif with Some ei => if_hsites ei | None => [] end
      end
  end
with ifbody_hsites (b : ifbody) : list hsite :=
  match b with
  | IBIf ss | IBLoop ss =>
      (fix go (ss : list stmt) : list hsite :=
         match ss with [] => [] | s' :: ss' => stmt_hsites s' ++ go ss' end) ss
  end.

Definition fn_hsites (f : fn_decl) : list hsite := flat_map stmt_hsites (fn_body f).

(** ** Comparison *)
Definition hsite_eqb (a b : hsite) : bool :=
  match a, b with
  | HLet s, HLet s' | HAssign s, HAssign s' | HRet s, HRet s'
  | HCondSingle s, HCondSingle s' | HCondLogic s, HCondLogic s' => shape_eqb s s'
  | HCall xs, HCall ys => shapes_eqb xs ys
  | _, _ => false
  end.

Fixpoint hsites_eqb (us es : list hsite) : bool :=
  match us, es with
  | [], [] => true
  | u :: us', e :: es' => hsite_eqb u e && hsites_eqb us' es'
  | _, _ => false
  end.

Definition chk_C07_shape_fn (f : fn_decl) (root : block) : bool :=
  hsites_eqb (stack_hsites (b_ctx root)) (fn_hsites f).

Fixpoint chk_C07_shape_fns (fs : list fn_decl) (roots : list block) : bool :=
  match fs, roots with
  | [], [] => true
  | f :: fs', r :: roots' => chk_C07_shape_fn f r && chk_C07_shape_fns fs' roots'
  | _, _ => false
  end.

(** only accepted programs are judged, exactly as in [chk_C06] / [chk_C07] *)
Definition chk_C07_shape (p : program) (o : output) : bool :=
  match o_errors o with
  | [] => chk_C07_shape_fns (functions_of p) (o_fns o)
  | _ => true
  end.

(** ** Reporting *)

(** position of the first site whose shapes differ, per function ([None]: all agree) *)
Fixpoint first_hdiff (us es : list hsite) (i : N) : option N :=
  match us, es with
  | [], [] => None
  | u :: us', e :: es' => if hsite_eqb u e then first_hdiff us' es' (i + 1) else Some i
  | _, _ => Some i
  end.

Fixpoint diff_C07_shape_fns (fs : list fn_decl) (roots : list block) (i : N) : list (N * N) :=
  match fs, roots with
  | f :: fs', r :: roots' =>
      match first_hdiff (stack_hsites (b_ctx r)) (fn_hsites f) 0 with
      | Some d => [(i, d)]
      | None => []
      end ++ diff_C07_shape_fns fs' roots' (i + 1)
  | _, _ => []
  end.

Definition diff_C07_shape (p : program) (o : output) : list (N * N) :=
  match o_errors o with
  | [] => diff_C07_shape_fns (functions_of p) (o_fns o) 0
  | _ => []
  end.

(** how many operator nodes the judged shapes of the source hold in chains of at least two
    operators -- where bracketing is a question at all (coverage) *)
Fixpoint shape_ops (s : shape) : nat :=
  match s with
  | ShLeaf => O
  | ShCall args => fold_right (fun a n => (shape_ops a + n)%nat) O args
  | ShNode _ l r => S (shape_ops l + shape_ops r)
  | ShCmp _ l r | ShLogic _ l r => (shape_ops l + shape_ops r)%nat
  end.

Definition hsite_ops (h : hsite) : nat :=
  match h with
  | HLet s | HAssign s | HRet s | HCondSingle s | HCondLogic s => shape_ops s
  | HCall args => fold_right (fun a n => (shape_ops a + n)%nat) O args
  end.

Definition judged_C07_shape (p : program) : nat :=
  fold_right (fun f n => (fold_right (fun h m => (hsite_ops h + m)%nat) O (fn_hsites f) + n)%nat)
             O (functions_of p).
