(** Monitor for the value-table clause of C18 (run on the implementation's output, accepted
    programs): each block's value table holds exactly the names declared directly in that block
    (parameters in the root), each bound to the value record of its latest declaration there. *)
From SA Require Import Model.
From SA.Spec Require Import Tables.
From SA.Mon Require Import C12 C18.
Local Open Scope list_scope.

(** names of the lets directly in a statement list, in order *)
Definition direct_lets (ss : list stmt) : list string :=
  flat_map (fun s => match s with SLet x _ _ _ => [iname x] | _ => [] end) ss.

(** the statement lists of the blocks a statement list opens directly, in the order in which the
    analyzer creates them (same order as [shapes_stmt]) *)
Fixpoint bodies_if (i : ifstmt) : list (list stmt) :=
  match i with
  | IfS _ body els elif =>
      (match body with IBIf ss | IBLoop ss => ss end) ::
      match els with
      | Some (IBIf ss) | Some (IBLoop ss) => [ss]
      | None => match elif with Some i' => bodies_if i' | None => [] end
      end
  end.
Definition bodies_stmt (s : stmt) : list (list stmt) :=
  match s with
  | SLoop body => [body]
  | SIf i => bodies_if i
  | _ => []
  end.
Definition kid_bodies (ss : list stmt) : list (list stmt) := flat_map bodies_stmt ss.

(** declaring instructions of a block's own stack that do not belong to one of its children *)
Definition direct_decls (b : block) : list value :=
  let kid_names := flat_map (fun k => decl_names (b_ctx k)) (b_kids b) in
  filter (fun v => negb (smem (v_inner v) kid_names)) (decl_values (b_ctx b)).

Fixpoint build_table (names : list string) (vals : list value) (acc : list (string * value))
  : option (list (string * value)) :=
  match names, vals with
  | [], [] => Some acc
  | x :: names', v :: vals' => build_table names' vals' (ainsert x v acc)
  | _, _ => None
  end.

Definition table_eqb (a b : list (string * value)) : bool :=
  Nat.eqb (length a) (length b) &&
  forallb (fun kv => match alookup (fst kv) b with
                     | Some v => value_eqb (snd kv) v
                     | None => false
                     end) a.

Fixpoint chk_vals (fuel : nat) (own : list string) (ss : list stmt) (b : block) : bool :=
  match fuel with
  | O => false
  | S f =>
      match build_table (own ++ direct_lets ss) (direct_decls b) [] with
      | None => false
      | Some t =>
          table_eqb t (b_values b) &&
          (fix go (bodies : list (list stmt)) (ks : list block) : bool :=
             match bodies, ks with
             | [], [] => true
             | body :: bodies', k :: ks' => chk_vals f [] body k && go bodies' ks'
             | _, _ => false
             end) (kid_bodies ss) (b_kids b)
      end
  end.

Definition chk_C18_values_fn (f : fn_decl) (root : block) : bool :=
  chk_vals (S (S (size_fn f))) (map (fun p => iname (fst p)) (fn_params f)) (fn_body f) root.

Fixpoint chk_C18_values_fns (fs : list fn_decl) (roots : list block) : bool :=
  match fs, roots with
  | [], [] => true
  | f :: fs', r :: roots' => chk_C18_values_fn f r && chk_C18_values_fns fs' roots'
  | _, _ => false
  end.

Definition chk_C18_values (p : program) (o : output) : bool :=
  match o_errors o with
  | [] => chk_C18_values_fns (functions_of p) (o_fns o)
  | _ => true
  end.
