(** Monitor for C07 (run on the implementation's output).

    For every function of an accepted program, the k-th [LetBinding] instruction of the root
    stack belongs to the k-th [let] statement in source order.  When the initialiser of that let
    is a chain whose leaves are extension leaves (and explicitly bracketed chains of such), the
    tree read back from the emitted [ExpressionOperation]s through their register operands must
    be the unique well-bracketed tree of the chain ([Spec/Bracket.bracket], an algorithm that is
    independent of the level passes of the analyzer). *)
From SA Require Import Model.
From SA.Spec Require Import Stack Bracket.
Local Open Scope list_scope.

Inductive ttree := TLeaf (tag : N) | TNode (l : ttree) (o : binop) (r : ttree).

Definition binop_eqb (a b : binop) : bool := String.eqb (binop_name a) (binop_name b).

Fixpoint ttree_eqb (a b : ttree) : bool :=
  match a, b with
  | TLeaf x, TLeaf y => N.eqb x y
  | TNode l o r, TNode l' o' r' => ttree_eqb l l' && binop_eqb o o' && ttree_eqb r r'
  | _, _ => false
  end.

(** the reference tree of a source expression; [None]: some leaf is not an extension leaf *)
Fixpoint ref_tree_of (fuel : nat) (t : tree) : option ttree :=
  match fuel with
  | O => None
  | S f =>
      match t with
      | Leaf (EVExt _ tag) => Some (TLeaf tag)
      | Leaf (EVSub (Expr v rest)) => ref_tree_of f (bracket v rest)
      | Leaf _ => None
      | Node l o r =>
          match ref_tree_of f l, ref_tree_of f r with
          | Some a, Some b => Some (TNode a o b)
          | _, _ => None
          end
      end
  end.

Definition ref_of_expr (e : expr) : option ttree :=
  match e with Expr v rest => ref_tree_of (S (S (size_expr e))) (bracket v rest) end.

(** reading the emitted operations back as trees *)
Fixpoint env_lookup (n : N) (env : list (N * ttree)) : option ttree :=
  match env with
  | [] => None
  | (m, t) :: env' => if N.eqb n m then Some t else env_lookup n env'
  end.

Definition operand_tree (e : eres) (env : list (N * ttree)) : option ttree :=
  match r_val e with RReg n => env_lookup n env | RPrim _ => None end.

(** trees bound by the [LetBinding] instructions, in order; [None]: operand not an ext tree *)
Fixpoint let_trees (code : list instr) (env : list (N * ttree)) : list (option ttree) :=
  match code with
  | [] => []
  | i :: c =>
      match i with
      | IExt tag r => let_trees c ((r, TLeaf tag) :: env)
      | IExprOp o l r reg =>
          match operand_tree l env, operand_tree r env with
          | Some a, Some b => let_trees c ((reg, TNode a o b) :: env)
          | _, _ => let_trees c env
          end
      | ILet _ e => operand_tree e env :: let_trees c env
      | _ => let_trees c env
      end
  end.

(** initialisers of the [let] statements of a body, in source (= emission) order *)
Fixpoint lets_of_stmt (s : stmt) : list expr :=
  match s with
  | SLet _ _ _ e => [e]
  | SIf i => lets_of_if i
  | SLoop body => (fix go (l : list stmt) := match l with [] => [] | x :: l' => lets_of_stmt x ++ go l' end) body
  | _ => []
  end
with lets_of_if (i : ifstmt) : list expr :=
  match i with
  | IfS _ body els elif =>
      lets_of_ifbody body ++
      match els with Some b => lets_of_ifbody b | None => [] end ++
      match elif with Some i' => lets_of_if i' | None => [] end
  end
with lets_of_ifbody (b : ifbody) : list expr :=
  match b with
  | IBIf ss | IBLoop ss =>
      (fix go (l : list stmt) := match l with [] => [] | x :: l' => lets_of_stmt x ++ go l' end) ss
  end.

Definition lets_of_fn (f : fn_decl) : list expr := flat_map lets_of_stmt (fn_body f).

Fixpoint match_lets (src : list expr) (got : list (option ttree)) : bool :=
  match src, got with
  | [], [] => true
  | e :: src', g :: got' =>
      match ref_of_expr e with
      | Some t => match g with Some t' => ttree_eqb t t' | None => false end
      | None => true
      end && match_lets src' got'
  | _, _ => false
  end.

Definition chk_C07_fn (f : fn_decl) (root : block) : bool :=
  match_lets (lets_of_fn f) (let_trees (b_ctx root) []).

Fixpoint chk_C07_fns (fs : list fn_decl) (roots : list block) : bool :=
  match fs, roots with
  | [], [] => true
  | f :: fs', r :: roots' => chk_C07_fn f r && chk_C07_fns fs' roots'
  | _, _ => false
  end.

(** only accepted programs are judged (a rejected one need not emit every let) *)
Definition chk_C07 (p : program) (o : output) : bool :=
  match o_errors o with
  | [] => chk_C07_fns (functions_of p) (o_fns o)
  | _ => true
  end.

(** number of let initialisers with a reference tree of at least two operators: how much of a
    program the monitor actually judges (reported as coverage) *)
Fixpoint ttree_ops (t : ttree) : nat :=
  match t with TLeaf _ => O | TNode l _ r => S (ttree_ops l + ttree_ops r) end.
Definition judged_C07 (p : program) : nat :=
  length (filter (fun e => match ref_of_expr e with Some t => Nat.leb 2 (ttree_ops t) | None => false end)
                 (flat_map lets_of_fn (functions_of p))).
