(** Monitor for C05 at the level of VALUES (run on the implementation's output): computation only.

    For every function of an accepted program and every salt of the free interpretation
    ([Spec/ValueExec.free_interp]: values are terms, comparisons and truth are decided by a hash of
    the terms and the salt): the trace of the register machine on the root stack and the trace of
    the source semantics (with the recorded finding F5) agree - with the data carried by every
    let, assignment, call and return - and both runs end well.  The arguments of the function are
    the free terms [TArg 0; TArg 1; ...]. *)
From SA Require Import Model.
From SA.Spec Require Import Stack ValueExec.
From SA.Mon Require Import Control.
Local Open Scope list_scope.

Definition chk_C05v_salt (fuel : nat) (f : fn_decl) (root : block) (salt : N) : bool :=
  let I := free_interp salt in
  let args := free_args (length (fn_params f)) in
  let tf := vflat_exec term I (b_ctx root) args fuel in
  let ts := vstruct_exec term I true f args fuel in
  vok (snd tf) && vok (snd ts) && vagree term I tf ts.

Definition chk_C05v_fn (salts : list N) (fuel : nat) (f : fn_decl) (root : block) : bool :=
  forallb (chk_C05v_salt fuel f root) salts.

(** only accepted programs are judged *)
Definition chk_C05v (salts : list N) (fuel : nat) (p : program) (o : output) : bool :=
  match o_errors o with
  | [] => forallb2 (chk_C05v_fn salts fuel) (functions_of p) (o_fns o)
  | _ => true
  end.

(** the intended semantics (no finding F5), for the examples *)
Definition chk_C05v_intended (salts : list N) (fuel : nat) (p : program) (o : output) : bool :=
  match o_errors o with
  | [] =>
      forallb2 (fun f root =>
                  forallb (fun salt =>
                             let I := free_interp salt in
                             let args := free_args (length (fn_params f)) in
                             let tf := vflat_exec term I (b_ctx root) args fuel in
                             let ts := vstruct_exec term I false f args fuel in
                             vok (snd tf) && vok (snd ts) && vagree term I tf ts) salts)
               (functions_of p) (o_fns o)
  | _ => true
  end.
