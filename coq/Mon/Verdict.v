(** Monitors for the verdict properties C01, C02 and C14 (run on the implementation's output).
    Plain boolean functions, free of proof terms: they are extracted to OCaml.
    Their meaning is stated and proved in [Proofs/VerdictMon.v]. *)
From SA Require Import Sem.
From SA.Spec Require Import FirstViolation.
Local Open Scope list_scope.

(** Equality of error kinds, through their (pairwise distinct) names. *)
Definition err_kind_eqb (a b : err_kind) : bool :=
  String.eqb (err_kind_name a) (err_kind_name b).

Definition loc_eqb (a b : loc) : bool :=
  N.eqb (fst a) (fst b) && N.eqb (snd a) (snd b).

(** The value agrees when the specification names one; otherwise it is a wildcard. *)
Definition val_agrees (spec : option string) (reported : option string) : bool :=
  match spec with
  | None => true
  | Some s => match reported with
              | Some s' => String.eqb s s'
              | None => false
              end
  end.

Definition viol_agrees (v : viol) (e : err) : bool :=
  err_kind_eqb (vi_kind v) (e_kind e) &&
  loc_eqb (vi_loc v) (e_loc e) &&
  val_agrees (vi_val v) (e_val e).

Definition no_errors (o : output) : bool :=
  match o_errors o with [] => true | _ :: _ => false end.

(** C14: the first reported error is the first violated (enforced) rule: same kind, same
    location, and the same identifier for the kinds that name one; no error iff no violation. *)
Definition chk_C14 (p : program) (o : output) : bool :=
  match first_violation true p, hd_error (o_errors o) with
  | None, None => true
  | Some v, Some e => viol_agrees v e
  | _, _ => false
  end.

(** C02: a well-formed program is accepted. *)
Definition chk_C02 (p : program) (o : output) : bool :=
  implb (wf_b p) (no_errors o).

(** C01, intended rule set: an accepted program is well-formed.  (Fails exactly on the known
    classes F2 / F8 when [chk_C01_quirk] holds: see [in_K_F2_or_F8].) *)
Definition chk_C01 (p : program) (o : output) : bool :=
  implb (no_errors o) (wf_b p).

(** C01, enforced rule set: an accepted program obeys every rule the analyzer enforces. *)
Definition chk_C01_quirk (p : program) (o : output) : bool :=
  implb (no_errors o) (accepted_spec_b p).
