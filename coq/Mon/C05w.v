(** The THEOREM-BACKED variant of the value-level monitor of C05 ([Mon/C05v.v]): computation only.

    Like [chk_C05v] (accepted programs only, the free interpretation, the arguments
    [TArg 0; TArg 1; ...], the recorded finding F5: [quirk = true]) but with separate fuels for
    the register machine ([nflat]) and the source semantics ([nsrc]), and judging ONLY what
    [Proofs/ValueSimMon.chk_C05v_sound_on_model] proves of the model's output.  For every
    function and every salt, with [tf] the trace of the machine and [ts] the trace of the source:
    (a) the traces agree ([vagree]);
    (b) the source run ends well ([vok]: returned or out of fuel);
    (c) the machine neither looks up an unset label nor runs off its stack;
    (d) when the source returned, the machine returned or ran out of fuel (it is not stuck on a
        run that the source finishes).
    Nothing is asked of a stuck machine when the source ran out of fuel. *)
From SA Require Import Model.
From SA.Spec Require Import Stack ValueExec.
From SA.Mon Require Import Control.
Local Open Scope list_scope.

(** (c) *)
Definition machine_ends_inside (s : vstatus) : bool :=
  match s with VBadLabel _ | VFellOff => false | _ => true end.

(** (d): [sf] the status of the machine, [ss] the status of the source *)
Definition not_stuck_when_returned (sf ss : vstatus) : bool :=
  match ss with
  | VReturned => match sf with VReturned | VOutOfFuel => true | _ => false end
  | _ => true
  end.

Definition chk_C05v_sound_salt (nflat nsrc : nat) (f : fn_decl) (root : block) (salt : N) : bool :=
  let I := free_interp salt in
  let args := free_args (length (fn_params f)) in
  let tf := vflat_exec term I (b_ctx root) args nflat in
  let ts := vstruct_exec term I true f args nsrc in
  vagree term I tf ts && vok (snd ts) && machine_ends_inside (snd tf) &&
  not_stuck_when_returned (snd tf) (snd ts).

Definition chk_C05v_sound_fn (salts : list N) (nflat nsrc : nat) (f : fn_decl) (root : block)
  : bool :=
  forallb (chk_C05v_sound_salt nflat nsrc f root) salts.

(** only accepted programs are judged *)
Definition chk_C05v_sound (salts : list N) (nflat nsrc : nat) (p : program) (o : output) : bool :=
  match o_errors o with
  | [] => forallb2 (chk_C05v_sound_fn salts nflat nsrc) (functions_of p) (o_fns o)
  | _ => true
  end.
