(** Monitors for C18 (run on the implementation's output): computation only.

    [chk_C18_sub]: in every function's block tree, the instruction stack of every block is an
    order-preserving subsequence of its parent's.
    [chk_C18_shape]: the tree of every function mirrors the nesting of the source.
    Their exactness is proved in [Proofs/InvTree.v]. *)
From SA Require Import Model.
From SA.Spec Require Import Tables.
From SA.Mon Require Import C12.
Local Open Scope list_scope.

(** ** Boolean equality of instructions *)
Definition cmpop_eqb (a b : cmpop) : bool :=
  match a, b with
  | CGreat, CGreat | CLess, CLess | CEq, CEq | CGreatEq, CGreatEq | CLessEq, CLessEq
  | CNotEq, CNotEq => true
  | _, _ => false
  end.

Definition logicop_eqb (a b : logicop) : bool :=
  match a, b with
  | LAnd, LAnd | LOr, LOr => true
  | _, _ => false
  end.

Definition eres_val_eqb (a b : eres_val) : bool :=
  match a, b with
  | RReg n, RReg m => N.eqb n m
  | RPrim p, RPrim q => prim_val_eqb p q
  | _, _ => false
  end.

Definition eres_eqb (a b : eres) : bool :=
  sem_ty_eqb (r_ty a) (r_ty b) && eres_val_eqb (r_val a) (r_val b).

Definition instr_eqb (a b : instr) : bool :=
  match a, b with
  | IExprValue v r, IExprValue v' r' => value_eqb v v' && N.eqb r r'
  | IExprConst c r, IExprConst c' r' => const_sem_eqb c c' && N.eqb r r'
  | IExprStruct v i r, IExprStruct v' i' r' => value_eqb v v' && N.eqb i i' && N.eqb r r'
  | IExprOp o l r g, IExprOp o' l' r' g' =>
      binop_eqb o o' && eres_eqb l l' && eres_eqb r r' && N.eqb g g'
  | ICall f args r, ICall f' args' r' =>
      func_sem_eqb f f' && list_eqb eres_eqb args args' && N.eqb r r'
  | ILet v e, ILet v' e' => value_eqb v v' && eres_eqb e e'
  | IBind v e, IBind v' e' => value_eqb v v' && eres_eqb e e'
  | IFnRet e, IFnRet e' => eres_eqb e e'
  | IFnRetLabel e, IFnRetLabel e' => eres_eqb e e'
  | ISetLabel l, ISetLabel l' => String.eqb l l'
  | IJumpTo l, IJumpTo l' => String.eqb l l'
  | IIfCondExpr e x y, IIfCondExpr e' x' y' => eres_eqb e e' && String.eqb x x' && String.eqb y y'
  | ICondExpr l r c g, ICondExpr l' r' c' g' =>
      eres_eqb l l' && eres_eqb r r' && cmpop_eqb c c' && N.eqb g g'
  | IJumpFnRet e, IJumpFnRet e' => eres_eqb e e'
  | ILogic o x y g, ILogic o' x' y' g' =>
      logicop_eqb o o' && N.eqb x x' && N.eqb y y' && N.eqb g g'
  | IIfCondLogic x y g, IIfCondLogic x' y' g' => String.eqb x x' && String.eqb y y' && N.eqb g g'
  | IFnArg v n t, IFnArg v' n' t' => value_eqb v v' && String.eqb n n' && sem_ty_eqb t t'
  | IExt t r, IExt t' r' => N.eqb t t' && N.eqb r r'
  | _, _ => false
  end.

(** ** Subsequences, greedily: the first element of [a] is matched with its first occurrence *)
Fixpoint subseqb {A : Type} (eqb : A -> A -> bool) (a b : list A) : bool :=
  match b with
  | [] => match a with [] => true | _ :: _ => false end
  | y :: b' =>
      match a with
      | [] => true
      | x :: a' => if eqb x y then subseqb eqb a' b' else subseqb eqb a b'
      end
  end.

(** every block of the tree: each child's stack is a subsequence of its parent's *)
Fixpoint chk_tree_sub (b : block) : bool :=
  match b with
  | Block _ _ _ _ _ ctx kids =>
      (fix go (ks : list block) : bool :=
         match ks with
         | [] => true
         | k :: ks' => subseqb instr_eqb (b_ctx k) ctx && chk_tree_sub k && go ks'
         end) kids
  end.

Definition chk_C18_sub (o : output) : bool := forallb chk_tree_sub (o_fns o).

(** ** The shape of a block tree and of the source nesting *)
Inductive shape := Sh (kids : list shape).

Fixpoint shape_of_block (b : block) : shape :=
  match b with
  | Block _ _ _ _ _ _ kids => Sh (map shape_of_block kids)
  end.

(** The blocks a statement opens directly in the block that contains it, in order: a loop opens
    one block; an [if] opens its then-block and then either its else-block or, when it has no
    else but an else-if, the blocks of that [if] as siblings (when both are present the else
    wins: the else-if is never analysed). *)
Fixpoint shapes_stmt (st : stmt) : list shape :=
  match st with
  | SLoop body =>
      [Sh ((fix go (l : list stmt) : list shape :=
              match l with [] => [] | s' :: l' => shapes_stmt s' ++ go l' end) body)]
  | SIf i => shapes_if i
  | _ => []
  end
with shapes_if (i : ifstmt) : list shape :=
  match i with
  | IfS _ body els elif =>
      Sh (shapes_body body) ::
      match els with
      | Some eb => [Sh (shapes_body eb)]
      | None => match elif with Some i' => shapes_if i' | None => [] end
      end
  end
with shapes_body (b : ifbody) : list shape :=
  match b with
  | IBIf ss | IBLoop ss =>
      (fix go (l : list stmt) : list shape :=
         match l with [] => [] | s' :: l' => shapes_stmt s' ++ go l' end) ss
  end.

Definition shape_of_stmts (ss : list stmt) : list shape := flat_map shapes_stmt ss.

Fixpoint shape_eqb (a b : shape) : bool :=
  match a, b with
  | Sh ka, Sh kb =>
      (fix go (la lb : list shape) : bool :=
         match la, lb with
         | [], [] => true
         | x :: la', y :: lb' => shape_eqb x y && go la' lb'
         | _, _ => false
         end) ka kb
  end.

Definition chk_C18_shape (p : program) (o : output) : bool :=
  list_eqb shape_eqb (map shape_of_block (o_fns o))
           (map (fun f => Sh (shape_of_stmts (fn_body f))) (functions_of p)).

Definition chk_C18 (p : program) (o : output) : bool := chk_C18_sub o && chk_C18_shape p o.
