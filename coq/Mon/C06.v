(** Monitor for C06 (run on the implementation's output): computation only.

    "Expanding register operands through the instructions that define them, the value bound by
    each let, stored by each assignment, passed as each call argument, returned by each return and
    tested by each condition is the source expression itself."

    Two lists of USE SITES are computed for every function of an accepted program and compared
    site by site:
    - from the root stack ([scan]): registers are expanded into denotation trees [dt] through the
      instructions that define them (with the rule of finding F7 for operands that name the
      register after a [Call] / [ExpressionStructValue]);
    - from the source ([fn_sites]), in evaluation order.
    Expressions are compared MODULO BRACKETING of operator chains (bracketing is C07): as in-order
    token lists, in which explicit brackets are flattened away, calls delimit their arguments, and
    comparisons and logic connectives are fully parenthesised (their nesting is part of C06).

    Names.  A read in the stack carries the internal name; the k-th declaring instruction of the
    stack ([FunctionArg]s, then [LetBinding]s) belongs to the k-th declaration of the source
    (parameters, then [let]s in the order they are analysed).  A variable token carries the
    declaration number and the source name.
    [chk_C06]        compares variables by source name (constants and variables of the same name
                     are not told apart);
    [chk_C06_scoped] also compares declaration numbers: the read must come from the declaration
                     that lexical scoping selects (and a name with no declaration in scope must be
                     read as a constant).  This is stronger than the text of C06 (it overlaps C03). *)
From SA Require Import Model.
From SA.Spec Require Import Stack.
Local Open Scope list_scope.

(** ** Equalities on leaves and operators *)
Definition pv_eqb (a b : prim_val) : bool :=
  prim_ty_eqb (pv_ty a) (pv_ty b) && Z.eqb (pv_bits a) (pv_bits b).
Definition bop_eqb (a b : binop) : bool := String.eqb (binop_name a) (binop_name b).
Definition cop_eqb (a b : cmpop) : bool := String.eqb (cmpop_name a) (cmpop_name b).
Definition lop_eqb (a b : logicop) : bool := String.eqb (logicop_name a) (logicop_name b).

Fixpoint nthN {A : Type} (l : list A) (n : N) : option A :=
  match l with
  | [] => None
  | x :: l' => if N.eqb n 0 then Some x else nthN l' (n - 1)
  end.

Fixpoint same_len {A B : Type} (a : list A) (b : list B) : bool :=
  match a, b with
  | [], [] => true
  | _ :: a', _ :: b' => same_len a' b'
  | _, _ => false
  end.

(** ** Denotation trees read back from a stack *)
Inductive dt :=
| DLit (p : prim_val)
| DRead (inner : string)
| DConst (name : string)
| DField (inner : string) (idx : N)
| DCall (f : string) (args : list dt)
| DExt (tag : N)
| DOp (o : binop) (l r : dt)
| DCmp (c : cmpop) (l r : dt)
| DLogic (o : logicop) (l r : dt)
| DUnknown (reg : N).

(** register, its tree, "defined by a call or a field read"; most recent definition first *)
Definition denv := list (N * dt * bool).

Fixpoint env_find (n : N) (env : denv) : option (dt * bool) :=
  match env with
  | [] => None
  | (m, t, b) :: env' => if N.eqb n m then Some (t, b) else env_find n env'
  end.

Definition reg_tree (env : denv) (n : N) : dt :=
  match env_find n env with Some (t, _) => t | None => DUnknown n end.

(** An operand.  Finding F7: a register that nothing defined denotes the call / field read that
    defined the register before it. *)
Definition operand (env : denv) (e : eres) : dt :=
  match r_val e with
  | RPrim p => DLit p
  | RReg n =>
      match env_find n env with
      | Some (t, _) => t
      | None =>
          if N.eqb n 0 then DUnknown n
          else match env_find (n - 1) env with
               | Some (t, true) => t
               | _ => DUnknown n
               end
      end
  end.

Inductive usite :=
| ULet (inner : string) (t : dt)
| UAssign (inner : string) (t : dt)
| URet (t : dt)
| UCondSingle (t : dt)
| UCondLogic (t : dt)
| UCall (f : string) (args : list dt).

(** the use sites of a stack, in stack order *)
Fixpoint scan (env : denv) (c : list instr) : list usite :=
  match c with
  | [] => []
  | i :: c' =>
      match i with
      | IExprValue v r => scan ((r, DRead (v_inner v), false) :: env) c'
      | IExprConst k r => scan ((r, DConst (c_name k), false) :: env) c'
      | IExprStruct v idx r => scan ((r, DField (v_inner v) idx, true) :: env) c'
      | IExt tag r => scan ((r, DExt tag, false) :: env) c'
      | IExprOp o l r reg => scan ((reg, DOp o (operand env l) (operand env r), false) :: env) c'
      | ICondExpr l r cmp reg =>
          scan ((reg, DCmp cmp (operand env l) (operand env r), false) :: env) c'
      | ILogic o lreg rreg reg =>
          scan ((reg, DLogic o (reg_tree env lreg) (reg_tree env rreg), false) :: env) c'
      | ICall f args r =>
          let a := map (operand env) args in
          UCall (f_name f) a :: scan ((r, DCall (f_name f) a, true) :: env) c'
      | ILet v e => ULet (v_inner v) (operand env e) :: scan env c'
      | IBind v e => UAssign (v_inner v) (operand env e) :: scan env c'
      | IFnRet e | IFnRetLabel e | IJumpFnRet e => URet (operand env e) :: scan env c'
      | IIfCondExpr e _ _ => UCondSingle (operand env e) :: scan env c'
      | IIfCondLogic _ _ reg => UCondLogic (reg_tree env reg) :: scan env c'
      | ISetLabel _ | IJumpTo _ | IFnArg _ _ _ => scan env c'
      end
  end.

(** ** Declarations of a stack: internal name and type of the declared value, in stack order *)
Definition decl_of (i : instr) : list (string * sem_ty) :=
  match i with
  | IFnArg v _ _ => [(v_inner v, v_ty v)]
  | ILet v _ => [(v_inner v, v_ty v)]
  | _ => []
  end.
Definition stack_decls (c : list instr) : list (string * sem_ty) := flat_map decl_of c.

Fixpoint decl_index (inner : string) (d : list (string * sem_ty)) (k : N) : option N :=
  match d with
  | [] => None
  | (n, _) :: d' => if String.eqb inner n then Some k else decl_index inner d' (k + 1)
  end.

(** ** Tokens *)
Inductive tok :=
| KLit (p : prim_val)
| KVar (k : N) (x : string)            (* read of the k-th declaration, whose source name is x *)
| KConst (x : string)
| KField (k : N) (x : string) (idx : N)
| KCallOpen (f : string)
| KCallSep
| KCallClose
| KExt (tag : N)
| KOp (o : binop)
| KCmp (c : cmpop)
| KLogic (o : logicop)
| KOpen
| KClose
| KBad.                                 (* equal to nothing, itself included *)

(** [sm = true]: declaration numbers are compared too *)
Definition tok_eqb (sm : bool) (a b : tok) : bool :=
  match a, b with
  | KLit p, KLit q => pv_eqb p q
  | KVar k x, KVar k' x' => String.eqb x x' && (negb sm || N.eqb k k')
  | KConst x, KConst y => String.eqb x y
  | KVar _ x, KConst y | KConst x, KVar _ y => negb sm && String.eqb x y
  | KField k x i, KField k' x' i' => String.eqb x x' && N.eqb i i' && (negb sm || N.eqb k k')
  | KCallOpen f, KCallOpen g => String.eqb f g
  | KCallSep, KCallSep | KCallClose, KCallClose | KOpen, KOpen | KClose, KClose => true
  | KExt t, KExt u => N.eqb t u
  | KOp o, KOp o' => bop_eqb o o'
  | KCmp c, KCmp c' => cop_eqb c c'
  | KLogic o, KLogic o' => lop_eqb o o'
  | _, _ => false
  end.

Fixpoint toks_eqb (sm : bool) (a b : list tok) : bool :=
  match a, b with
  | [], [] => true
  | x :: a', y :: b' => tok_eqb sm x y && toks_eqb sm a' b'
  | _, _ => false
  end.

Fixpoint tokss_eqb (sm : bool) (a b : list (list tok)) : bool :=
  match a, b with
  | [], [] => true
  | x :: a', y :: b' => toks_eqb sm x y && tokss_eqb sm a' b'
  | _, _ => false
  end.

(** ** Tokens of a denotation tree (in order; accumulator style) *)
Section StackSide.
  Variable D : list (string * sem_ty).    (* declarations of the stack *)
  Variable NM : list string.              (* source names of the declarations of the source *)

  Definition var_tok (inner : string) : tok :=
    match decl_index inner D 0 with
    | Some k => match nthN NM k with Some x => KVar k x | None => KBad end
    | None => KBad
    end.

  Definition dfield_tok (inner : string) (idx : N) : tok :=
    match decl_index inner D 0 with
    | Some k => match nthN NM k with Some x => KField k x idx | None => KBad end
    | None => KBad
    end.

  Fixpoint dt_toks (t : dt) (acc : list tok) : list tok :=
    match t with
    | DLit p => KLit p :: acc
    | DRead inner => var_tok inner :: acc
    | DConst c => KConst c :: acc
    | DField inner idx => dfield_tok inner idx :: acc
    | DCall f args =>
        KCallOpen f ::
        (fix go (l : list dt) : list tok :=
           match l with
           | [] => KCallClose :: acc
           | a :: l' => dt_toks a (KCallSep :: go l')
           end) args
    | DExt tag => KExt tag :: acc
    | DOp o l r => dt_toks l (KOp o :: dt_toks r acc)
    | DCmp c l r => KOpen :: dt_toks l (KCmp c :: dt_toks r (KClose :: acc))
    | DLogic o l r => KOpen :: dt_toks l (KLogic o :: dt_toks r (KClose :: acc))
    | DUnknown _ => KBad :: acc
    end.
End StackSide.

(** ** The source side *)
Definition scope := list (string * N).    (* innermost declaration first *)

Fixpoint sc_find (x : string) (sc : scope) : option N :=
  match sc with
  | [] => None
  | (y, k) :: sc' => if String.eqb x y then Some k else sc_find x sc'
  end.

(** expected use sites, tokens resolved in the scope of the site *)
Inductive esite :=
| ELet (x : string) (k : N) (e : list tok)
| EAssign (x : string) (k : option N) (e : list tok)
| ERet (e : list tok)
| ECondSingle (e : list tok)
| ECondLogic (e : list tok)
| ECall (f : string) (args : list (list tok)).

(** the calls of an expression in the order in which their [Call]s are emitted: a call after the
    calls of its arguments, leaves left to right *)
Fixpoint expr_calls (e : expr) : list (ident * list expr) :=
  match e with
  | Expr v rest =>
      val_calls v ++
      (fix go (l : list (binop * expr_val)) : list (ident * list expr) :=
         match l with [] => [] | (_, v') :: l' => val_calls v' ++ go l' end) rest
  end
with val_calls (v : expr_val) : list (ident * list expr) :=
  match v with
  | EVCall f args =>
      (fix go (l : list expr) : list (ident * list expr) :=
         match l with [] => [] | a :: l' => expr_calls a ++ go l' end) args ++ [(f, args)]
  | EVSub e => expr_calls e
  | _ => []
  end.

Section SourceSide.
  Variable D : list (string * sem_ty).    (* declarations of the stack: for field indices *)

  Section InScope.
    Variable sc : scope.

    Definition name_tok (x : ident) : tok :=
      match sc_find (iname x) sc with
      | Some k => KVar k (iname x)
      | None => KConst (iname x)
      end.

    Definition field_tok (x a : ident) : tok :=
      match sc_find (iname x) sc with
      | Some k =>
          match nthN D k with
          | Some (_, SStruct _ attrs) =>
              match attr_lookup (iname a) attrs with
              | Some (idx, _) => KField k (iname x) idx
              | None => KBad
              end
          | _ => KBad
          end
      | None => KBad
      end.

    Fixpoint expr_toks (e : expr) (acc : list tok) : list tok :=
      match e with
      | Expr v rest =>
          val_toks v
            ((fix go (l : list (binop * expr_val)) : list tok :=
                match l with
                | [] => acc
                | (o, v') :: l' => KOp o :: val_toks v' (go l')
                end) rest)
      end
    with val_toks (v : expr_val) (acc : list tok) : list tok :=
      match v with
      | EVName x => name_tok x :: acc
      | EVPrim p => KLit p :: acc
      | EVCall f args =>
          KCallOpen (iname f) ::
          (fix go (l : list expr) : list tok :=
             match l with
             | [] => KCallClose :: acc
             | a :: l' => expr_toks a (KCallSep :: go l')
             end) args
      | EVField x a => field_tok x a :: acc
      | EVSub e => expr_toks e acc
      | EVExt _ tag => KExt tag :: acc
      end.

    (** [(l c r)] alone, [((l c r) op next)] with a connective: the source nests to the right *)
    Fixpoint lcond_toks (c : lcond) (acc : list tok) : list tok :=
      match c with
      | LC l cmp r next =>
          match next with
          | None => KOpen :: expr_toks l (KCmp cmp :: expr_toks r (KClose :: acc))
          | Some (o, c') =>
              KOpen :: KOpen ::
              expr_toks l (KCmp cmp :: expr_toks r
                (KClose :: KLogic o :: lcond_toks c' (KClose :: acc)))
          end
      end.

    Definition etoks (e : expr) : list tok := expr_toks e [].

    Definition call_site (c : ident * list expr) : esite :=
      ECall (iname (fst c)) (map etoks (snd c)).
    Definition call_sites (e : expr) : list esite := map call_site (expr_calls e).

    Fixpoint lcond_calls (c : lcond) : list esite :=
      match c with
      | LC l _ r next =>
          call_sites l ++ call_sites r ++
          match next with Some (_, c') => lcond_calls c' | None => [] end
      end.

    Definition cond_sites (c : cond) : list esite :=
      match c with
      | CSingle e => call_sites e ++ [ECondSingle (etoks e)]
      | CLogic lc => lcond_calls lc ++ [ECondLogic (lcond_toks lc [])]
      end.
  End InScope.

  (** statements: the sites, the scope after the statement, the next declaration number *)
  Fixpoint stmt_sites (s : stmt) (sc : scope) (k : N) : list esite * scope * N :=
    match s with
    | SLet x _ _ e =>
        (call_sites sc e ++ [ELet (iname x) k (etoks sc e)], (iname x, k) :: sc, k + 1)
    | SBind x e =>
        (call_sites sc e ++ [EAssign (iname x) (sc_find (iname x) sc) (etoks sc e)], sc, k)
    | SCall f args =>
        (flat_map (call_sites sc) args ++ [call_site sc (f, args)], sc, k)
    | SIf i => let '(l, k') := if_sites i sc k in (l, sc, k')
    | SLoop body =>
        let '(l, k') :=
          (fix go (ss : list stmt) (sc0 : scope) (k0 : N) : list esite * N :=
             match ss with
             | [] => ([], k0)
             | s' :: ss' =>
                 let '(a, sc1, k1) := stmt_sites s' sc0 k0 in
                 let '(b, k2) := go ss' sc1 k1 in (a ++ b, k2)
             end) body sc k in
        (l, sc, k')
    | SRet e | SExprStmt e => (call_sites sc e ++ [ERet (etoks sc e)], sc, k)
    | SBreak | SContinue => ([], sc, k)
    end
  with if_sites (i : ifstmt) (sc : scope) (k : N) : list esite * N :=
    match i with
    | IfS c body els elif =>
        let '(b, k1) := ifbody_sites body sc k in
        let '(e, k2) :=
          match els with
          | Some eb => ifbody_sites eb sc k1          (* the else wins over an else-if *)
          | None =>
              match elif with
              | Some ei => if_sites ei sc k1
              | None => ([], k1)
              end
          end in
        (cond_sites sc c ++ b ++ e, k2)
    end
  with ifbody_sites (b : ifbody) (sc : scope) (k : N) : list esite * N :=
    match b with
    | IBIf ss | IBLoop ss =>
        (fix go (ss : list stmt) (sc0 : scope) (k0 : N) : list esite * N :=
           match ss with
           | [] => ([], k0)
           | s' :: ss' =>
               let '(a, sc1, k1) := stmt_sites s' sc0 k0 in
               let '(b, k2) := go ss' sc1 k1 in (a ++ b, k2)
           end) ss sc k
    end.

  Fixpoint stmts_sites (ss : list stmt) (sc : scope) (k : N) : list esite :=
    match ss with
    | [] => []
    | s :: ss' => let '(a, sc1, k1) := stmt_sites s sc k in a ++ stmts_sites ss' sc1 k1
    end.

  Fixpoint param_scope (ps : list (ident * ast_ty)) (sc : scope) (k : N) : scope * N :=
    match ps with
    | [] => (sc, k)
    | (x, _) :: ps' => param_scope ps' ((iname x, k) :: sc) (k + 1)
    end.

  Definition fn_sites (f : fn_decl) : list esite :=
    let '(sc, k) := param_scope (fn_params f) [] 0 in stmts_sites (fn_body f) sc k.
End SourceSide.

(** source names of the declarations: parameters, then the lets in the order of their sites *)
Definition let_name (e : esite) : list string :=
  match e with ELet x _ _ => [x] | _ => [] end.
Definition decl_names (f : fn_decl) (es : list esite) : list string :=
  map (fun p => iname (fst p)) (fn_params f) ++ flat_map let_name es.

(** ** Comparison *)
Definition opt_N_eqb (a : option N) (b : N) : bool :=
  match a with Some x => N.eqb x b | None => false end.
Definition opt_str_eqb (a : option string) (b : string) : bool :=
  match a with Some x => String.eqb x b | None => false end.

Section Compare.
  Variable sm : bool.
  Variable D : list (string * sem_ty).
  Variable NM : list string.

  Definition tree_is (t : dt) (e : list tok) : bool := toks_eqb sm (dt_toks D NM t []) e.

  Definition site_eqb (u : usite) (e : esite) : bool :=
    match u, e with
    | ULet inner t, ELet x k toks =>
        match decl_index inner D 0 with
        | Some k' => opt_str_eqb (nthN NM k') x && (negb sm || N.eqb k k')
        | None => false
        end && tree_is t toks
    | UAssign inner t, EAssign x k toks =>
        match decl_index inner D 0 with
        | Some k' => opt_str_eqb (nthN NM k') x && (negb sm || opt_N_eqb k k')
        | None => false
        end && tree_is t toks
    | URet t, ERet toks => tree_is t toks
    | UCondSingle t, ECondSingle toks => tree_is t toks
    | UCondLogic t, ECondLogic toks => tree_is t toks
    | UCall f args, ECall g toks =>
        String.eqb f g && tokss_eqb sm (map (fun a => dt_toks D NM a []) args) toks
    | _, _ => false
    end.

  Fixpoint sites_eqb (us : list usite) (es : list esite) : bool :=
    match us, es with
    | [], [] => true
    | u :: us', e :: es' => site_eqb u e && sites_eqb us' es'
    | _, _ => false
    end.

  (** position of the first site that differs (the common length when one list is a proper
      prefix of the other); [None]: the lists agree *)
  Fixpoint first_diff (us : list usite) (es : list esite) (i : N) : option N :=
    match us, es with
    | [], [] => None
    | u :: us', e :: es' => if site_eqb u e then first_diff us' es' (i + 1) else Some i
    | _, _ => Some i
    end.
End Compare.

Definition chk_C06_fn (sm : bool) (f : fn_decl) (root : block) : bool :=
  let c := b_ctx root in
  let D := stack_decls c in
  let es := fn_sites D f in
  let NM := decl_names f es in
  same_len D NM && sites_eqb sm D NM (scan [] c) es.

Fixpoint chk_C06_fns (sm : bool) (fs : list fn_decl) (roots : list block) : bool :=
  match fs, roots with
  | [], [] => true
  | f :: fs', r :: roots' => chk_C06_fn sm f r && chk_C06_fns sm fs' roots'
  | _, _ => false
  end.

(** only accepted programs are judged (a rejected one need not emit every statement) *)
Definition chk_C06_gen (sm : bool) (p : program) (o : output) : bool :=
  match o_errors o with
  | [] => chk_C06_fns sm (functions_of p) (o_fns o)
  | _ => true
  end.

Definition chk_C06 : program -> output -> bool := chk_C06_gen false.
Definition chk_C06_scoped : program -> output -> bool := chk_C06_gen true.

(** ** Reporting *)

(** for every function that fails: its position and the position of the first differing site
    ([None]: the declaration counts differ) *)
Definition diff_C06_fn (sm : bool) (f : fn_decl) (root : block) : option (option N) :=
  let c := b_ctx root in
  let D := stack_decls c in
  let es := fn_sites D f in
  let NM := decl_names f es in
  if same_len D NM then
    match first_diff sm D NM (scan [] c) es 0 with Some i => Some (Some i) | None => None end
  else Some None.

Fixpoint diff_C06_fns (sm : bool) (fs : list fn_decl) (roots : list block) (i : N)
  : list (N * option N) :=
  match fs, roots with
  | f :: fs', r :: roots' =>
      match diff_C06_fn sm f r with
      | Some d => [(i, d)]
      | None => []
      end ++ diff_C06_fns sm fs' roots' (i + 1)
  | _, _ => []
  end.

Definition diff_C06 (sm : bool) (p : program) (o : output) : list (N * option N) :=
  match o_errors o with
  | [] => diff_C06_fns sm (functions_of p) (o_fns o) 0
  | _ => []
  end.

(** how many use sites the monitor judges (coverage) *)
Definition judged_C06 (p : program) (o : output) : N :=
  match o_errors o with
  | [] => fold_right (fun b n => N.of_nat (length (scan [] (b_ctx b))) + n) 0 (o_fns o)
  | _ => 0
  end.
