(** The STRICT generic value-level monitor of C05: computation only.

    [chk_C05_gen_strict V mk args salts nflat nsrc p o] is [Mon/C05h.chk_C05_gen] with the machine
    required to end well in every case: for every function of an accepted program and every salt,
    with [tf] the trace of the register machine on [nflat] units of fuel and [ts] the trace of the
    source semantics (finding F5 recorded) on [nsrc]:
    (a) the traces agree ([vagree]);
    (b) the source run ends well ([vok]);
    (c) the machine run ends well ([vok]): it returned or ran out of fuel - it is NEVER stuck,
        also when the source ran out of fuel; it misses no label and does not run off its stack.
    Backed by [Proofs/ValueSimStrict.chk_C05_gen_strict_on_model]. *)
From SA Require Import Model.
From SA.Spec Require Import Stack ValueExec.
From SA.Mon Require Import Control C05h.
Local Open Scope list_scope.

Section Strict.
  Variable V : Type.
  Variable mk : N -> interp V.
  Variable args : nat -> list V.

  Definition chk_C05_gen_strict_salt (nflat nsrc : nat) (f : fn_decl) (root : block) (salt : N)
    : bool :=
    let I := mk salt in
    let a := args (length (fn_params f)) in
    let tf := vflat_exec V I (b_ctx root) a nflat in
    let ts := vstruct_exec V I true f a nsrc in
    vagree V I tf ts && vok (snd ts) && vok (snd tf).

  Definition chk_C05_gen_strict_fn (salts : list N) (nflat nsrc : nat) (f : fn_decl) (root : block)
    : bool :=
    forallb (chk_C05_gen_strict_salt nflat nsrc f root) salts.

  (** only accepted programs are judged *)
  Definition chk_C05_gen_strict (salts : list N) (nflat nsrc : nat) (p : program) (o : output)
    : bool :=
    match o_errors o with
    | [] => forallb2 (chk_C05_gen_strict_fn salts nflat nsrc) (functions_of p) (o_fns o)
    | _ => true
    end.
End Strict.

(** the constant-size instance (fingerprints) and the instance with the free interpretation *)
Definition chk_C05hs : list N -> nat -> nat -> program -> output -> bool :=
  chk_C05_gen_strict N hash_interp hash_args.
Definition chk_C05_free_strict : list N -> nat -> nat -> program -> output -> bool :=
  chk_C05_gen_strict term free_interp free_args.
