(** Monitor for C12 (run on the implementation's output). *)
From SA Require Import Model.
From SA.Spec Require Import Stack.
Local Open Scope list_scope.

Definition decl_value (i : instr) : option value :=
  match i with ILet v _ | IFnArg v _ _ => Some v | _ => None end.
Definition decl_values (c : list instr) : list value :=
  flat_map (fun i => match decl_value i with Some v => [v] | None => [] end) c.
Definition decl_names (c : list instr) : list string := map v_inner (decl_values c).
(** the values an instruction reads from the scope *)
Definition read_values (i : instr) : list value :=
  match i with
  | IExprValue v _ | IExprStruct v _ _ | IBind v _ => [v]
  | _ => []
  end.
Definition reads (c : list instr) : list value := flat_map read_values c.

Definition value_eqb (a b : value) : bool :=
  String.eqb (v_inner a) (v_inner b) && sem_ty_eqb (v_ty a) (v_ty b) && Bool.eqb (v_mut a) (v_mut b).

Fixpoint nodup_strings (l : list string) : bool :=
  match l with
  | [] => true
  | x :: l' => negb (smem x l') && nodup_strings l'
  end.

Definition chk_C12_root (b : block) : bool :=
  nodup_strings (decl_names (b_ctx b)) &&
  forallb (fun v => existsb (value_eqb v) (decl_values (b_ctx b))) (reads (b_ctx b)).

Definition chk_C12 (o : output) : bool := forallb chk_C12_root (o_fns o).
