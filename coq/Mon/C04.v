(** Monitor for C04 (run on the implementation's output): the types recorded in every function
    stack of an accepted program are mutually consistent.

    One left-to-right pass over each root stack with
    - a register table: which instruction kind produced a register, and with which type;
    - the values declared so far ([FunctionArg], [LetBinding]) by internal name;
    - the source parameters not yet declared.
    Global declarations are taken from the output of the same run ([o_globals]).

    The recorded finding F7 enters in one place: an operand may name a register [n] that nothing
    produced when [n - 1] was produced by a [Call] or an [ExpressionStructValue]; it then has to
    carry the type of that instruction. *)
From SA Require Import Model.
From SA.Spec Require Import Tables.
Local Open Scope list_scope.

(** what is known about a register *)
Inductive rkind :=
| KTy (t : sem_ty)      (* an expression result of this type *)
| KCond                 (* the result of a comparison or of a logic condition *)
| KUnk.                 (* an extension leaf nobody has named yet: the first operand fixes it *)

(** register -> (kind, "produced by a call / field read") ; most recent first *)
Definition regmap := list (N * (rkind * bool)).

Fixpoint reg_find (n : N) (m : regmap) : option (rkind * bool) :=
  match m with
  | [] => None
  | (k, x) :: m' => if N.eqb n k then Some x else reg_find n m'
  end.

(** fix the type of the (most recent) entry of [n] *)
Fixpoint reg_fix (n : N) (t : sem_ty) (m : regmap) : regmap :=
  match m with
  | [] => []
  | (k, (x, b)) :: m' => if N.eqb n k then (k, (KTy t, b)) :: m' else (k, (x, b)) :: reg_fix n t m'
  end.

(** One operand against the table.  [None]: inconsistent. *)
Definition chk_operand (m : regmap) (e : eres) : option regmap :=
  match r_val e with
  | RPrim p => if sem_ty_eqb (r_ty e) (SPrim (pv_ty p)) then Some m else None
  | RReg n =>
      match reg_find n m with
      | Some (KTy t, _) => if sem_ty_eqb (r_ty e) t then Some m else None
      | Some (KCond, _) => None
      | Some (KUnk, _) => Some (reg_fix n (r_ty e) m)
      | None =>
          (* F7: the register after a call / field read *)
          if N.eqb n 0 then None
          else match reg_find (n - 1) m with
               | Some (KTy t, true) => if sem_ty_eqb (r_ty e) t then Some m else None
               | _ => None
               end
      end
  end.

Fixpoint chk_operands (m : regmap) (l : list eres) : option regmap :=
  match l with
  | [] => Some m
  | e :: l' => match chk_operand m e with
               | Some m' => chk_operands m' l'
               | None => None
               end
  end.

Definition is_cond_reg (m : regmap) (n : N) : bool :=
  match reg_find n m with Some (KCond, _) => true | _ => false end.

(** values *)
Definition value_eqb (a b : value) : bool :=
  String.eqb (v_inner a) (v_inner b) && sem_ty_eqb (v_ty a) (v_ty b) && Bool.eqb (v_mut a) (v_mut b).

Definition valmap := list (string * value).

(** the value is the one its declaring instruction carried *)
Definition declared (vs : valmap) (v : value) : bool :=
  match alookup (v_inner v) vs with
  | Some d => value_eqb v d
  | None => false
  end.

(** the type of the attribute with index [idx] of a struct type *)
Fixpoint attr_ty_at (idx : N) (l : list (string * N * sem_ty)) : option sem_ty :=
  match l with
  | [] => None
  | (_, i, t) :: l' => if N.eqb idx i then Some t else attr_ty_at idx l'
  end.

Definition field_ty (t : sem_ty) (idx : N) : option sem_ty :=
  match t with
  | SStruct _ attrs => attr_ty_at idx attrs
  | _ => None
  end.

Definition tys_eqb (a b : list sem_ty) : bool := list_eqb sem_ty_eqb a b.

Section Scan.
  Variable G : globals.
  Variable RT : sem_ty.      (* the declared result type of the function *)

  Definition chk_call (f : func_sem) (args : list eres) : bool :=
    match alookup (f_name f) (g_funcs G) with
    | Some fd =>
        func_sem_eqb f fd &&
        Nat.eqb (length args) (length (f_params f)) &&
        tys_eqb (map r_ty args) (f_params f)
    | None => false
    end.

  Definition chk_const (c : const_sem) : bool :=
    match alookup (c_name c) (g_consts G) with
    | Some d => const_sem_eqb c d
    | None => false
    end.

  (** [ps]: the source parameters that no [FunctionArg] has declared yet *)
  Fixpoint scan_C04 (c : list instr) (m : regmap) (vs : valmap) (ps : list (ident * ast_ty))
    : bool :=
    match c with
    | [] => match ps with [] => true | _ => false end
    | i :: c' =>
        match i with
        | IExprValue v r =>
            declared vs v && scan_C04 c' ((r, (KTy (v_ty v), false)) :: m) vs ps
        | IExprConst cst r =>
            chk_const cst && scan_C04 c' ((r, (KTy (c_ty cst), false)) :: m) vs ps
        | IExprStruct v idx r =>
            declared vs v &&
            match field_ty (v_ty v) idx with
            | Some t => scan_C04 c' ((r, (KTy t, true)) :: m) vs ps
            | None => false
            end
        | IExprOp _ l r reg =>
            match chk_operands m [l; r] with
            | Some m' =>
                sem_ty_eqb (r_ty l) (r_ty r) &&
                scan_C04 c' ((reg, (KTy (r_ty r), false)) :: m') vs ps
            | None => false
            end
        | ICall f args r =>
            match chk_operands m args with
            | Some m' => chk_call f args && scan_C04 c' ((r, (KTy (f_ty f), true)) :: m') vs ps
            | None => false
            end
        | ILet v e =>
            match chk_operand m e with
            | Some m' => sem_ty_eqb (v_ty v) (r_ty e) && scan_C04 c' m' ((v_inner v, v) :: vs) ps
            | None => false
            end
        | IBind v e =>
            match chk_operand m e with
            | Some m' =>
                declared vs v && v_mut v && sem_ty_eqb (v_ty v) (r_ty e) && scan_C04 c' m' vs ps
            | None => false
            end
        | IFnRet e | IFnRetLabel e | IJumpFnRet e =>
            match chk_operand m e with
            | Some m' => sem_ty_eqb (r_ty e) RT && scan_C04 c' m' vs ps
            | None => false
            end
        | IIfCondExpr e _ _ =>
            match chk_operand m e with
            | Some m' => scan_C04 c' m' vs ps
            | None => false
            end
        | ICondExpr l r _ reg =>
            match chk_operands m [l; r] with
            | Some m' =>
                sem_ty_eqb (r_ty l) (r_ty r) && is_prim (r_ty l) &&
                scan_C04 c' ((reg, (KCond, false)) :: m') vs ps
            | None => false
            end
        | ILogic _ lreg rreg reg =>
            is_cond_reg m lreg && is_cond_reg m rreg &&
            scan_C04 c' ((reg, (KCond, false)) :: m) vs ps
        | IIfCondLogic _ _ reg => is_cond_reg m reg && scan_C04 c' m vs ps
        | IFnArg v pname pty =>
            match ps with
            | (x, t) :: ps' =>
                String.eqb pname (iname x) && sem_ty_eqb pty (sem_of_ty t) &&
                sem_ty_eqb (v_ty v) pty && negb (v_mut v) &&
                scan_C04 c' m ((v_inner v, v) :: vs) ps'
            | [] => false
            end
        | IExt _ r => scan_C04 c' ((r, (KUnk, false)) :: m) vs ps
        | ISetLabel _ | IJumpTo _ => scan_C04 c' m vs ps
        end
    end.
End Scan.

Definition chk_C04_fn (G : globals) (f : fn_decl) (root : block) : bool :=
  scan_C04 G (sem_of_ty (fn_result f)) (b_ctx root) [] [] (fn_params f).

Fixpoint chk_C04_fns (G : globals) (fs : list fn_decl) (roots : list block) : bool :=
  match fs, roots with
  | [], [] => true
  | f :: fs', r :: roots' => chk_C04_fn G f r && chk_C04_fns G fs' roots'
  | _, _ => false
  end.

(** only accepted programs are judged (the orchestrator adds "well-formed") *)
Definition chk_C04 (p : program) (o : output) : bool :=
  match o_errors o with
  | [] => chk_C04_fns (o_globals o) (functions_of p) (o_fns o)
  | _ => true
  end.

(** how many typed operands the monitor looked at: reported as coverage *)
Definition operands_of (i : instr) : list eres :=
  match i with
  | IExprOp _ l r _ | ICondExpr l r _ _ => [l; r]
  | ICall _ args _ => args
  | ILet _ e | IBind _ e | IFnRet e | IFnRetLabel e | IJumpFnRet e | IIfCondExpr e _ _ => [e]
  | _ => []
  end.
Definition judged_C04 (o : output) : nat :=
  fold_right (fun b n => (length (flat_map operands_of (b_ctx b)) + n)%nat) O (o_fns o).
