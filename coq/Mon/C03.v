(** Monitor for C03 (run on the implementation's output): every variable read, struct-field read
    and assignment of a function stack refers to the declaration that lexical scoping selects,
    and reads, calls, declarations, assignments and returns appear in source evaluation order.

    Two independent readings are compared, event list against event list:

    - the SOURCE side is a plain lexical resolver.  The declarations of a function are numbered
      in source order (parameters [0 .. n-1], then every [let] in the order a pre-order walk meets
      it).  The body is walked with a stack of scopes (innermost first, name -> declaration
      number) and every read / call / declaration / assignment / return is emitted in evaluation
      order.  It knows nothing of registers, labels, internal value names or blocks;
    - the STACK side reads the root instruction stack of the function: the k-th declaring
      instruction ([FunctionArg], then [LetBinding]) is declaration number k, and the internal
      name of its [Value] stands for k from then on.

    The internal names are thereby compared up to a bijection with the source declarations: an
    internal name that is declared twice, or used without having been declared, fails. *)
From SA Require Import Model.
Local Open Scope list_scope.

(** ** Events *)
Inductive ev :=
| EDecl (d : nat)
| EUse (d : nat)
| EUseField (d : nat) (a : string)
| EUseConst (c : string)
| EAssign (d : nat)
| ECall (f : string)
| EExt (tag : N)
| ERet.

Definition ev_eqb (a b : ev) : bool :=
  match a, b with
  | EDecl x, EDecl y => Nat.eqb x y
  | EUse x, EUse y => Nat.eqb x y
  | EUseField x s, EUseField y t => Nat.eqb x y && String.eqb s t
  | EUseConst s, EUseConst t => String.eqb s t
  | EAssign x, EAssign y => Nat.eqb x y
  | ECall s, ECall t => String.eqb s t
  | EExt x, EExt y => N.eqb x y
  | ERet, ERet => true
  | _, _ => false
  end.

Fixpoint evs_eqb (l l' : list ev) : bool :=
  match l, l' with
  | [], [] => true
  | a :: r, b :: r' => ev_eqb a b && evs_eqb r r'
  | _, _ => false
  end.

(** ** Source side: the lexical resolver *)

(** A scope: name -> declaration number, most recent declaration first.  Scopes are stacked
    innermost first; the last one is the function's outermost block (it holds the parameters). *)
Definition rscope := list (string * nat).
Definition rscopes := list rscope.

Fixpoint scope_find (x : string) (s : rscope) : option nat :=
  match s with
  | [] => None
  | (y, d) :: s' => if String.eqb x y then Some d else scope_find x s'
  end.

(** innermost scope that has the name; in it, the most recent declaration *)
Fixpoint resolve (x : string) (G : rscopes) : option nat :=
  match G with
  | [] => None
  | s :: G' => match scope_find x s with
               | Some d => Some d
               | None => resolve x G'
               end
  end.

(** a declaration enters the innermost scope *)
Definition declare_in (x : string) (d : nat) (G : rscopes) : rscopes :=
  match G with
  | s :: G' => ((x, d) :: s) :: G'
  | [] => [[(x, d)]]
  end.

Definition oapp (a b : option (list ev)) : option (list ev) :=
  match a, b with
  | Some x, Some y => Some (x ++ y)
  | _, _ => None
  end.

(** Expressions: the leaves left to right; the arguments of a call before the call.  Operators
    are not events, so the bracketing of a chain (C07) plays no role. *)
Fixpoint ev_expr (G : rscopes) (e : expr) {struct e} : option (list ev) :=
  match e with
  | Expr v rest =>
      oapp (ev_val G v)
           ((fix go (l : list (binop * expr_val)) : option (list ev) :=
               match l with
               | [] => Some []
               | (_, v') :: l' => oapp (ev_val G v') (go l')
               end) rest)
  end
with ev_val (G : rscopes) (v : expr_val) {struct v} : option (list ev) :=
  match v with
  | EVName x =>
      match resolve (iname x) G with
      | Some d => Some [EUse d]
      | None => Some [EUseConst (iname x)]        (* no visible value: a global constant *)
      end
  | EVPrim _ => Some []
  | EVCall f args =>
      oapp ((fix go (l : list expr) : option (list ev) :=
               match l with
               | [] => Some []
               | a :: l' => oapp (ev_expr G a) (go l')
               end) args)
           (Some [ECall (iname f)])
  | EVField x a =>
      match resolve (iname x) G with
      | Some d => Some [EUseField d (iname a)]
      | None => None                              (* fields are read from values only *)
      end
  | EVSub e => ev_expr G e
  | EVExt _ tag => Some [EExt tag]
  end.

Fixpoint ev_exprs (G : rscopes) (l : list expr) : option (list ev) :=
  match l with
  | [] => Some []
  | a :: l' => oapp (ev_expr G a) (ev_exprs G l')
  end.

Fixpoint ev_lcond (G : rscopes) (c : lcond) : option (list ev) :=
  match c with
  | LC l _ r next =>
      oapp (ev_expr G l)
           (oapp (ev_expr G r)
                 match next with
                 | Some (_, c') => ev_lcond G c'
                 | None => Some []
                 end)
  end.

Definition ev_cond (G : rscopes) (c : cond) : option (list ev) :=
  match c with
  | CSingle e => ev_expr G e
  | CLogic l => ev_lcond G l
  end.

(** Statements.  [n]: the number the next [let] gets.  A statement yields the scopes for the
    statement after it; an [if] / a loop leave the scopes of their block untouched. *)
Fixpoint ev_stmt (G : rscopes) (n : nat) (s : stmt) {struct s}
  : option (rscopes * nat * list ev) :=
  match s with
  | SLet x _ _ e =>
      (* the initialiser is resolved in the scopes BEFORE the let *)
      match ev_expr G e with
      | Some es => Some (declare_in (iname x) n G, S n, es ++ [EDecl n])
      | None => None
      end
  | SBind x e =>
      match ev_expr G e, resolve (iname x) G with
      | Some es, Some d => Some (G, n, es ++ [EAssign d])
      | _, _ => None
      end
  | SCall f args =>
      match ev_exprs G args with
      | Some es => Some (G, n, es ++ [ECall (iname f)])
      | None => None
      end
  | SIf i =>
      match ev_if G n i with
      | Some (n', es) => Some (G, n', es)
      | None => None
      end
  | SLoop body =>
      match
        (fix go (G : rscopes) (n : nat) (l : list stmt) {struct l} : option (nat * list ev) :=
           match l with
           | [] => Some (n, [])
           | s' :: l' =>
               match ev_stmt G n s' with
               | None => None
               | Some (G', n', es) =>
                   match go G' n' l' with
                   | Some (n'', es') => Some (n'', es ++ es')
                   | None => None
                   end
               end
           end) ([] :: G) n body
      with
      | Some (n', es) => Some (G, n', es)
      | None => None
      end
  | SRet e | SExprStmt e =>
      match ev_expr G e with
      | Some es => Some (G, n, es ++ [ERet])
      | None => None
      end
  | SBreak | SContinue => Some (G, n, [])
  end
with ev_if (G : rscopes) (n : nat) (i : ifstmt) {struct i} : option (nat * list ev) :=
  match i with
  | IfS c body els elif =>
      (* the condition belongs to the then-block; the else body and the else-if are siblings *)
      match ev_cond ([] :: G) c with
      | None => None
      | Some ec =>
          match ev_ifbody ([] :: G) n body with
          | None => None
          | Some (n1, eb) =>
              match els with
              | Some b =>
                  match ev_ifbody ([] :: G) n1 b with
                  | Some (n2, ee) => Some (n2, ec ++ eb ++ ee)
                  | None => None
                  end
              | None =>
                  match elif with
                  | Some i' =>
                      match ev_if G n1 i' with
                      | Some (n2, ee) => Some (n2, ec ++ eb ++ ee)
                      | None => None
                      end
                  | None => Some (n1, ec ++ eb)
                  end
              end
          end
      end
  end
with ev_ifbody (G : rscopes) (n : nat) (b : ifbody) {struct b} : option (nat * list ev) :=
  match b with
  | IBIf ss | IBLoop ss =>
      (fix go (G : rscopes) (n : nat) (l : list stmt) {struct l} : option (nat * list ev) :=
         match l with
         | [] => Some (n, [])
         | s' :: l' =>
             match ev_stmt G n s' with
             | None => None
             | Some (G', n', es) =>
                 match go G' n' l' with
                 | Some (n'', es') => Some (n'', es ++ es')
                 | None => None
                 end
             end
         end) G n ss
  end.

Fixpoint ev_stmts (G : rscopes) (n : nat) (l : list stmt) : option (nat * list ev) :=
  match l with
  | [] => Some (n, [])
  | s :: l' =>
      match ev_stmt G n s with
      | None => None
      | Some (G', n', es) =>
          match ev_stmts G' n' l' with
          | Some (n'', es') => Some (n'', es ++ es')
          | None => None
          end
      end
  end.

(** parameters: declarations [0 .. n-1] of the outermost scope, left to right *)
Fixpoint param_scope (k : nat) (ps : list (ident * ast_ty)) (s : rscope) : rscope :=
  match ps with
  | [] => s
  | (x, _) :: ps' => param_scope (S k) ps' ((iname x, k) :: s)
  end.

(** the events of a function; [None]: some name cannot be resolved *)
Definition src_events (f : fn_decl) : option (list ev) :=
  match ev_stmts [param_scope O (fn_params f) []] (length (fn_params f)) (fn_body f) with
  | Some (_, es) => Some es
  | None => None
  end.

(** ** Stack side *)

(** internal name -> declaration number *)
Definition nmap := list (string * nat).

Fixpoint nmap_find (x : string) (m : nmap) : option nat :=
  match m with
  | [] => None
  | (y, d) :: m' => if String.eqb x y then Some d else nmap_find x m'
  end.

(** the name of the attribute with index [idx] in a struct type *)
Fixpoint attr_name_at (idx : N) (l : list (string * N * sem_ty)) : option string :=
  match l with
  | [] => None
  | (x, i, _) :: l' => if N.eqb idx i then Some x else attr_name_at idx l'
  end.

Definition field_name (t : sem_ty) (idx : N) : option string :=
  match t with
  | SStruct _ attrs => attr_name_at idx attrs
  | _ => None
  end.

(** [k]: number of declaring instructions seen; [na]: how many of them were [FunctionArg];
    [lets]: a [LetBinding] was seen (no [FunctionArg] may follow).  Result: the number of
    parameters declared and the events, or [None] when the stack cannot be read: an internal
    name used before it is declared, declared twice, a field index that the value's type does not
    have, a parameter declared after a let. *)
Fixpoint stack_scan (c : list instr) (m : nmap) (k na : nat) (lets : bool)
  : option (nat * list ev) :=
  let continue_with (e : list ev) (r : option (nat * list ev)) :=
    match r with
    | Some (na', es) => Some (na', e ++ es)
    | None => None
    end in
  match c with
  | [] => Some (na, [])
  | i :: c' =>
      match i with
      | IFnArg v _ _ =>
          if lets then None
          else match nmap_find (v_inner v) m with
               | Some _ => None
               | None => stack_scan c' ((v_inner v, k) :: m) (S k) (S na) lets
               end
      | ILet v _ =>
          match nmap_find (v_inner v) m with
          | Some _ => None
          | None => continue_with [EDecl k] (stack_scan c' ((v_inner v, k) :: m) (S k) na true)
          end
      | IExprValue v _ =>
          match nmap_find (v_inner v) m with
          | Some d => continue_with [EUse d] (stack_scan c' m k na lets)
          | None => None
          end
      | IExprConst cst _ => continue_with [EUseConst (c_name cst)] (stack_scan c' m k na lets)
      | IExprStruct v idx _ =>
          match nmap_find (v_inner v) m, field_name (v_ty v) idx with
          | Some d, Some a => continue_with [EUseField d a] (stack_scan c' m k na lets)
          | _, _ => None
          end
      | IBind v _ =>
          match nmap_find (v_inner v) m with
          | Some d => continue_with [EAssign d] (stack_scan c' m k na lets)
          | None => None
          end
      | ICall f _ _ => continue_with [ECall (f_name f)] (stack_scan c' m k na lets)
      | IExt tag _ => continue_with [EExt tag] (stack_scan c' m k na lets)
      | IFnRet _ | IFnRetLabel _ | IJumpFnRet _ =>
          continue_with [ERet] (stack_scan c' m k na lets)
      | IExprOp _ _ _ _ | ISetLabel _ | IJumpTo _ | IIfCondExpr _ _ _ | ICondExpr _ _ _ _
      | ILogic _ _ _ _ | IIfCondLogic _ _ _ => stack_scan c' m k na lets
      end
  end.

Definition stack_events (c : list instr) : option (nat * list ev) := stack_scan c [] O O false.

(** ** The monitor *)
Definition chk_C03_fn (f : fn_decl) (root : block) : bool :=
  match src_events f, stack_events (b_ctx root) with
  | Some es, Some (na, et) => Nat.eqb na (length (fn_params f)) && evs_eqb es et
  | _, _ => false
  end.

Fixpoint chk_C03_fns (fs : list fn_decl) (roots : list block) : bool :=
  match fs, roots with
  | [], [] => true
  | f :: fs', r :: roots' => chk_C03_fn f r && chk_C03_fns fs' roots'
  | _, _ => false
  end.

(** only accepted programs are judged *)
Definition chk_C03 (p : program) (o : output) : bool :=
  match o_errors o with
  | [] => chk_C03_fns (functions_of p) (o_fns o)
  | _ => true
  end.

(** how many reference events (reads, field reads, assignments) the monitor compared: reported
    as coverage *)
Definition is_ref_ev (e : ev) : bool :=
  match e with EUse _ | EUseField _ _ | EAssign _ => true | _ => false end.
Definition judged_C03 (p : program) : nat :=
  fold_right (fun f n =>
                (match src_events f with
                 | Some es => length (filter is_ref_ev es)
                 | None => O
                 end + n)%nat) O (functions_of p).
