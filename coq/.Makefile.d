Gen/Enums.vo Gen/Enums.glob Gen/Enums.v.beautified Gen/Enums.required_vo: Gen/Enums.v 
Gen/Enums.vio: Gen/Enums.v 
Gen/Enums.vos Gen/Enums.vok Gen/Enums.required_vos: Gen/Enums.v 
Gen/Priority.vo Gen/Priority.glob Gen/Priority.v.beautified Gen/Priority.required_vo: Gen/Priority.v Gen/Enums.vo
Gen/Priority.vio: Gen/Priority.v Gen/Enums.vio
Gen/Priority.vos Gen/Priority.vok Gen/Priority.required_vos: Gen/Priority.v Gen/Enums.vos
Base.vo Base.glob Base.v.beautified Base.required_vo: Base.v 
Base.vio: Base.v 
Base.vos Base.vok Base.required_vos: Base.v 
Ast.vo Ast.glob Ast.v.beautified Ast.required_vo: Ast.v Base.vo Gen/Enums.vo Gen/Priority.vo
Ast.vio: Ast.v Base.vio Gen/Enums.vio Gen/Priority.vio
Ast.vos Ast.vok Ast.required_vos: Ast.v Base.vos Gen/Enums.vos Gen/Priority.vos
Sem.vo Sem.glob Sem.v.beautified Sem.required_vo: Sem.v Ast.vo
Sem.vio: Sem.v Ast.vio
Sem.vos Sem.vok Sem.required_vos: Sem.v Ast.vos
Model.vo Model.glob Model.v.beautified Model.required_vo: Model.v Sem.vo
Model.vio: Model.v Sem.vio
Model.vos Model.vok Model.required_vos: Model.v Sem.vos
