Gen/Enums.vo Gen/Enums.glob Gen/Enums.v.beautified Gen/Enums.required_vo: Gen/Enums.v 
Gen/Enums.vio: Gen/Enums.v 
Gen/Enums.vos Gen/Enums.vok Gen/Enums.required_vos: Gen/Enums.v 
Gen/Priority.vo Gen/Priority.glob Gen/Priority.v.beautified Gen/Priority.required_vo: Gen/Priority.v Gen/Enums.vo
Gen/Priority.vio: Gen/Priority.v Gen/Enums.vio
Gen/Priority.vos Gen/Priority.vok Gen/Priority.required_vos: Gen/Priority.v Gen/Enums.vos
Base.vo Base.glob Base.v.beautified Base.required_vo: Base.v 
Base.vio: Base.v 
Base.vos Base.vok Base.required_vos: Base.v 
Ast.vo Ast.glob Ast.v.beautified Ast.required_vo: Ast.v Base.vo Gen/Enums.vo Gen/Priority.vo
Ast.vio: Ast.v Base.vio Gen/Enums.vio Gen/Priority.vio
Ast.vos Ast.vok Ast.required_vos: Ast.v Base.vos Gen/Enums.vos Gen/Priority.vos
Sem.vo Sem.glob Sem.v.beautified Sem.required_vo: Sem.v Ast.vo
Sem.vio: Sem.v Ast.vio
Sem.vos Sem.vok Sem.required_vos: Sem.v Ast.vos
Model.vo Model.glob Model.v.beautified Model.required_vo: Model.v Sem.vo
Model.vio: Model.v Sem.vio
Model.vos Model.vok Model.required_vos: Model.v Sem.vos
Proofs/Reach.vo Proofs/Reach.glob Proofs/Reach.v.beautified Proofs/Reach.required_vo: Proofs/Reach.v Model.vo
Proofs/Reach.vio: Proofs/Reach.v Model.vio
Proofs/Reach.vos Proofs/Reach.vok Proofs/Reach.required_vos: Proofs/Reach.v Model.vos
Proofs/InvReg.vo Proofs/InvReg.glob Proofs/InvReg.v.beautified Proofs/InvReg.required_vo: Proofs/InvReg.v Model.vo Proofs/Reach.vo
Proofs/InvReg.vio: Proofs/InvReg.v Model.vio Proofs/Reach.vio
Proofs/InvReg.vos Proofs/InvReg.vok Proofs/InvReg.required_vos: Proofs/InvReg.v Model.vos Proofs/Reach.vos
Monitors.vo Monitors.glob Monitors.v.beautified Monitors.required_vo: Monitors.v Model.vo Proofs/Reach.vo Proofs/InvReg.vo
Monitors.vio: Monitors.v Model.vio Proofs/Reach.vio Proofs/InvReg.vio
Monitors.vos Monitors.vok Monitors.required_vos: Monitors.v Model.vos Proofs/Reach.vos Proofs/InvReg.vos
Proofs/MonitorsSound.vo Proofs/MonitorsSound.glob Proofs/MonitorsSound.v.beautified Proofs/MonitorsSound.required_vo: Proofs/MonitorsSound.v Model.vo Monitors.vo Proofs/Reach.vo Proofs/InvReg.vo
Proofs/MonitorsSound.vio: Proofs/MonitorsSound.v Model.vio Monitors.vio Proofs/Reach.vio Proofs/InvReg.vio
Proofs/MonitorsSound.vos Proofs/MonitorsSound.vok Proofs/MonitorsSound.required_vos: Proofs/MonitorsSound.v Model.vos Monitors.vos Proofs/Reach.vos Proofs/InvReg.vos
Properties/C09.vo Properties/C09.glob Properties/C09.v.beautified Properties/C09.required_vo: Properties/C09.v Model.vo Monitors.vo Proofs/Reach.vo Proofs/InvReg.vo Proofs/MonitorsSound.vo
Properties/C09.vio: Properties/C09.v Model.vio Monitors.vio Proofs/Reach.vio Proofs/InvReg.vio Proofs/MonitorsSound.vio
Properties/C09.vos Properties/C09.vok Properties/C09.required_vos: Properties/C09.v Model.vos Monitors.vos Proofs/Reach.vos Proofs/InvReg.vos Proofs/MonitorsSound.vos
