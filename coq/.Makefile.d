Gen/Enums.vo Gen/Enums.glob Gen/Enums.v.beautified Gen/Enums.required_vo: Gen/Enums.v 
Gen/Enums.vio: Gen/Enums.v 
Gen/Enums.vos Gen/Enums.vok Gen/Enums.required_vos: Gen/Enums.v 
Gen/Priority.vo Gen/Priority.glob Gen/Priority.v.beautified Gen/Priority.required_vo: Gen/Priority.v Gen/Enums.vo
Gen/Priority.vio: Gen/Priority.v Gen/Enums.vio
Gen/Priority.vos Gen/Priority.vok Gen/Priority.required_vos: Gen/Priority.v Gen/Enums.vos
Base.vo Base.glob Base.v.beautified Base.required_vo: Base.v 
Base.vio: Base.v 
Base.vos Base.vok Base.required_vos: Base.v 
Ast.vo Ast.glob Ast.v.beautified Ast.required_vo: Ast.v Base.vo Gen/Enums.vo Gen/Priority.vo
Ast.vio: Ast.v Base.vio Gen/Enums.vio Gen/Priority.vio
Ast.vos Ast.vok Ast.required_vos: Ast.v Base.vos Gen/Enums.vos Gen/Priority.vos
Sem.vo Sem.glob Sem.v.beautified Sem.required_vo: Sem.v Ast.vo
Sem.vio: Sem.v Ast.vio
Sem.vos Sem.vok Sem.required_vos: Sem.v Ast.vos
Model.vo Model.glob Model.v.beautified Model.required_vo: Model.v Sem.vo
Model.vio: Model.v Sem.vio
Model.vos Model.vok Model.required_vos: Model.v Sem.vos
Spec/Stack.vo Spec/Stack.glob Spec/Stack.v.beautified Spec/Stack.required_vo: Spec/Stack.v Model.vo
Spec/Stack.vio: Spec/Stack.v Model.vio
Spec/Stack.vos Spec/Stack.vok Spec/Stack.required_vos: Spec/Stack.v Model.vos
Mon/C09.vo Mon/C09.glob Mon/C09.v.beautified Mon/C09.required_vo: Mon/C09.v Model.vo Spec/Stack.vo
Mon/C09.vio: Mon/C09.v Model.vio Spec/Stack.vio
Mon/C09.vos Mon/C09.vok Mon/C09.required_vos: Mon/C09.v Model.vos Spec/Stack.vos
Proofs/Reach.vo Proofs/Reach.glob Proofs/Reach.v.beautified Proofs/Reach.required_vo: Proofs/Reach.v Model.vo Spec/Stack.vo
Proofs/Reach.vio: Proofs/Reach.v Model.vio Spec/Stack.vio
Proofs/Reach.vos Proofs/Reach.vok Proofs/Reach.required_vos: Proofs/Reach.v Model.vos Spec/Stack.vos
Proofs/InvReg.vo Proofs/InvReg.glob Proofs/InvReg.v.beautified Proofs/InvReg.required_vo: Proofs/InvReg.v Model.vo Proofs/Reach.vo
Proofs/InvReg.vio: Proofs/InvReg.v Model.vio Proofs/Reach.vio
Proofs/InvReg.vos Proofs/InvReg.vok Proofs/InvReg.required_vos: Proofs/InvReg.v Model.vos Proofs/Reach.vos
Proofs/MonC09.vo Proofs/MonC09.glob Proofs/MonC09.v.beautified Proofs/MonC09.required_vo: Proofs/MonC09.v Model.vo Mon/C09.vo Proofs/Reach.vo Proofs/InvReg.vo
Proofs/MonC09.vio: Proofs/MonC09.v Model.vio Mon/C09.vio Proofs/Reach.vio Proofs/InvReg.vio
Proofs/MonC09.vos Proofs/MonC09.vok Proofs/MonC09.required_vos: Proofs/MonC09.v Model.vos Mon/C09.vos Proofs/Reach.vos Proofs/InvReg.vos
Properties/C09.vo Properties/C09.glob Properties/C09.v.beautified Properties/C09.required_vo: Properties/C09.v Model.vo Mon/C09.vo Proofs/Reach.vo Proofs/InvReg.vo Proofs/MonC09.vo
Properties/C09.vio: Properties/C09.v Model.vio Mon/C09.vio Proofs/Reach.vio Proofs/InvReg.vio Proofs/MonC09.vio
Properties/C09.vos Properties/C09.vok Properties/C09.required_vos: Properties/C09.v Model.vos Mon/C09.vos Proofs/Reach.vos Proofs/InvReg.vos Proofs/MonC09.vos
Spec/Bracket.vo Spec/Bracket.glob Spec/Bracket.v.beautified Spec/Bracket.required_vo: Spec/Bracket.v Model.vo
Spec/Bracket.vio: Spec/Bracket.v Model.vio
Spec/Bracket.vos Spec/Bracket.vok Spec/Bracket.required_vos: Spec/Bracket.v Model.vos
Proofs/Fold.vo Proofs/Fold.glob Proofs/Fold.v.beautified Proofs/Fold.required_vo: Proofs/Fold.v Model.vo Spec/Bracket.vo
Proofs/Fold.vio: Proofs/Fold.v Model.vio Spec/Bracket.vio
Proofs/Fold.vos Proofs/Fold.vok Proofs/Fold.required_vos: Proofs/Fold.v Model.vos Spec/Bracket.vos
Properties/C07.vo Properties/C07.glob Properties/C07.v.beautified Properties/C07.required_vo: Properties/C07.v Model.vo Spec/Bracket.vo Proofs/Fold.vo
Properties/C07.vio: Properties/C07.v Model.vio Spec/Bracket.vio Proofs/Fold.vio
Properties/C07.vos Properties/C07.vok Properties/C07.required_vos: Properties/C07.v Model.vos Spec/Bracket.vos Proofs/Fold.vos
Mon/C07.vo Mon/C07.glob Mon/C07.v.beautified Mon/C07.required_vo: Mon/C07.v Model.vo Spec/Stack.vo Spec/Bracket.vo
Mon/C07.vio: Mon/C07.v Model.vio Spec/Stack.vio Spec/Bracket.vio
Mon/C07.vos Mon/C07.vok Mon/C07.required_vos: Mon/C07.v Model.vos Spec/Stack.vos Spec/Bracket.vos
Proofs/Trace.vo Proofs/Trace.glob Proofs/Trace.v.beautified Proofs/Trace.required_vo: Proofs/Trace.v Model.vo Spec/Stack.vo Mon/C12.vo
Proofs/Trace.vio: Proofs/Trace.v Model.vio Spec/Stack.vio Mon/C12.vio
Proofs/Trace.vos Proofs/Trace.vok Proofs/Trace.required_vos: Proofs/Trace.v Model.vos Spec/Stack.vos Mon/C12.vos
Mon/C12.vo Mon/C12.glob Mon/C12.v.beautified Mon/C12.required_vo: Mon/C12.v Model.vo Spec/Stack.vo
Mon/C12.vio: Mon/C12.v Model.vio Spec/Stack.vio
Mon/C12.vos Mon/C12.vok Mon/C12.required_vos: Mon/C12.v Model.vos Spec/Stack.vos
Spec/Exec.vo Spec/Exec.glob Spec/Exec.v.beautified Spec/Exec.required_vo: Spec/Exec.v Model.vo Spec/Stack.vo
Spec/Exec.vio: Spec/Exec.v Model.vio Spec/Stack.vio
Spec/Exec.vos Spec/Exec.vok Spec/Exec.required_vos: Spec/Exec.v Model.vos Spec/Stack.vos
Mon/Control.vo Mon/Control.glob Mon/Control.v.beautified Mon/Control.required_vo: Mon/Control.v Model.vo Spec/Stack.vo Spec/Exec.vo
Mon/Control.vio: Mon/Control.v Model.vio Spec/Stack.vio Spec/Exec.vio
Mon/Control.vos Mon/Control.vok Mon/Control.required_vos: Mon/Control.v Model.vos Spec/Stack.vos Spec/Exec.vos
Proofs/ExecBasic.vo Proofs/ExecBasic.glob Proofs/ExecBasic.v.beautified Proofs/ExecBasic.required_vo: Proofs/ExecBasic.v Model.vo Spec/Stack.vo Spec/Exec.vo Mon/Control.vo
Proofs/ExecBasic.vio: Proofs/ExecBasic.v Model.vio Spec/Stack.vio Spec/Exec.vio Mon/Control.vio
Proofs/ExecBasic.vos Proofs/ExecBasic.vok Proofs/ExecBasic.required_vos: Proofs/ExecBasic.v Model.vos Spec/Stack.vos Spec/Exec.vos Mon/Control.vos
Proofs/InvNames.vo Proofs/InvNames.glob Proofs/InvNames.v.beautified Proofs/InvNames.required_vo: Proofs/InvNames.v Model.vo Proofs/Trace.vo Mon/C12.vo
Proofs/InvNames.vio: Proofs/InvNames.v Model.vio Proofs/Trace.vio Mon/C12.vio
Proofs/InvNames.vos Proofs/InvNames.vok Proofs/InvNames.required_vos: Proofs/InvNames.v Model.vos Proofs/Trace.vos Mon/C12.vos
Spec/Tables.vo Spec/Tables.glob Spec/Tables.v.beautified Spec/Tables.required_vo: Spec/Tables.v Sem.vo
Spec/Tables.vio: Spec/Tables.v Sem.vio
Spec/Tables.vos Spec/Tables.vok Spec/Tables.required_vos: Spec/Tables.v Sem.vos
Proofs/MonC12.vo Proofs/MonC12.glob Proofs/MonC12.v.beautified Proofs/MonC12.required_vo: Proofs/MonC12.v Model.vo Spec/Stack.vo Spec/Tables.vo Mon/C12.vo Proofs/Trace.vo Proofs/InvNames.vo
Proofs/MonC12.vio: Proofs/MonC12.v Model.vio Spec/Stack.vio Spec/Tables.vio Mon/C12.vio Proofs/Trace.vio Proofs/InvNames.vio
Proofs/MonC12.vos Proofs/MonC12.vok Proofs/MonC12.required_vos: Proofs/MonC12.v Model.vos Spec/Stack.vos Spec/Tables.vos Mon/C12.vos Proofs/Trace.vos Proofs/InvNames.vos
Properties/C12.vo Properties/C12.glob Properties/C12.v.beautified Properties/C12.required_vo: Properties/C12.v Model.vo Mon/C12.vo Proofs/Trace.vo Proofs/InvNames.vo Proofs/MonC12.vo
Properties/C12.vio: Properties/C12.v Model.vio Mon/C12.vio Proofs/Trace.vio Proofs/InvNames.vio Proofs/MonC12.vio
Properties/C12.vos Properties/C12.vok Properties/C12.required_vos: Properties/C12.v Model.vos Mon/C12.vos Proofs/Trace.vos Proofs/InvNames.vos Proofs/MonC12.vos
Mon/C15.vo Mon/C15.glob Mon/C15.v.beautified Mon/C15.required_vo: Mon/C15.v Sem.vo Spec/Tables.vo
Mon/C15.vio: Mon/C15.v Sem.vio Spec/Tables.vio
Mon/C15.vos Mon/C15.vok Mon/C15.required_vos: Mon/C15.v Sem.vos Spec/Tables.vos
Proofs/Driver.vo Proofs/Driver.glob Proofs/Driver.v.beautified Proofs/Driver.required_vo: Proofs/Driver.v Model.vo Spec/Tables.vo Mon/C15.vo
Proofs/Driver.vio: Proofs/Driver.v Model.vio Spec/Tables.vio Mon/C15.vio
Proofs/Driver.vos Proofs/Driver.vok Proofs/Driver.required_vos: Proofs/Driver.v Model.vos Spec/Tables.vos Mon/C15.vos
Properties/C15.vo Properties/C15.glob Properties/C15.v.beautified Properties/C15.required_vo: Properties/C15.v Model.vo Spec/Tables.vo Mon/C15.vo Proofs/Driver.vo
Properties/C15.vio: Properties/C15.v Model.vio Spec/Tables.vio Mon/C15.vio Proofs/Driver.vio
Properties/C15.vos Properties/C15.vok Properties/C15.required_vos: Properties/C15.v Model.vos Spec/Tables.vos Mon/C15.vos Proofs/Driver.vos
Properties/C16.vo Properties/C16.glob Properties/C16.v.beautified Properties/C16.required_vo: Properties/C16.v Model.vo Proofs/Driver.vo
Properties/C16.vio: Properties/C16.v Model.vio Proofs/Driver.vio
Properties/C16.vos Properties/C16.vok Properties/C16.required_vos: Properties/C16.v Model.vos Proofs/Driver.vos
Properties/C17.vo Properties/C17.glob Properties/C17.v.beautified Properties/C17.required_vo: Properties/C17.v Model.vo Proofs/Driver.vo
Properties/C17.vio: Properties/C17.v Model.vio Proofs/Driver.vio
Properties/C17.vos Properties/C17.vok Properties/C17.required_vos: Properties/C17.v Model.vos Proofs/Driver.vos
Spec/Json.vo Spec/Json.glob Spec/Json.v.beautified Spec/Json.required_vo: Spec/Json.v Base.vo
Spec/Json.vio: Spec/Json.v Base.vio
Spec/Json.vos Spec/Json.vok Spec/Json.required_vos: Spec/Json.v Base.vos
Spec/Codec.vo Spec/Codec.glob Spec/Codec.v.beautified Spec/Codec.required_vo: Spec/Codec.v Model.vo Spec/Json.vo
Spec/Codec.vio: Spec/Codec.v Model.vio Spec/Json.vio
Spec/Codec.vos Spec/Codec.vok Spec/Codec.required_vos: Spec/Codec.v Model.vos Spec/Json.vos
Proofs/CodecRT.vo Proofs/CodecRT.glob Proofs/CodecRT.v.beautified Proofs/CodecRT.required_vo: Proofs/CodecRT.v Model.vo Spec/Json.vo Spec/Codec.vo
Proofs/CodecRT.vio: Proofs/CodecRT.v Model.vio Spec/Json.vio Spec/Codec.vio
Proofs/CodecRT.vos Proofs/CodecRT.vok Proofs/CodecRT.required_vos: Proofs/CodecRT.v Model.vos Spec/Json.vos Spec/Codec.vos
Properties/C20.vo Properties/C20.glob Properties/C20.v.beautified Properties/C20.required_vo: Properties/C20.v Model.vo Spec/Json.vo Spec/Codec.vo Proofs/CodecRT.vo
Properties/C20.vio: Properties/C20.v Model.vio Spec/Json.vio Spec/Codec.vio Proofs/CodecRT.vio
Properties/C20.vos Properties/C20.vok Properties/C20.required_vos: Properties/C20.v Model.vos Spec/Json.vos Spec/Codec.vos Proofs/CodecRT.vos
Proofs/InvLabels.vo Proofs/InvLabels.glob Proofs/InvLabels.v.beautified Proofs/InvLabels.required_vo: Proofs/InvLabels.v Model.vo Spec/Stack.vo Proofs/Trace.vo Proofs/InvNames.vo
Proofs/InvLabels.vio: Proofs/InvLabels.v Model.vio Spec/Stack.vio Proofs/Trace.vio Proofs/InvNames.vio
Proofs/InvLabels.vos Proofs/InvLabels.vok Proofs/InvLabels.required_vos: Proofs/InvLabels.v Model.vos Spec/Stack.vos Proofs/Trace.vos Proofs/InvNames.vos
Properties/C10.vo Properties/C10.glob Properties/C10.v.beautified Properties/C10.required_vo: Properties/C10.v Model.vo Spec/Stack.vo Mon/Control.vo Proofs/ExecBasic.vo Proofs/InvLabels.vo
Properties/C10.vio: Properties/C10.v Model.vio Spec/Stack.vio Mon/Control.vio Proofs/ExecBasic.vio Proofs/InvLabels.vio
Properties/C10.vos Properties/C10.vok Properties/C10.required_vos: Properties/C10.v Model.vos Spec/Stack.vos Mon/Control.vos Proofs/ExecBasic.vos Proofs/InvLabels.vos
Mon/C18.vo Mon/C18.glob Mon/C18.v.beautified Mon/C18.required_vo: Mon/C18.v Model.vo Spec/Tables.vo Mon/C12.vo
Mon/C18.vio: Mon/C18.v Model.vio Spec/Tables.vio Mon/C12.vio
Mon/C18.vos Mon/C18.vok Mon/C18.required_vos: Mon/C18.v Model.vos Spec/Tables.vos Mon/C12.vos
Proofs/InvRet.vo Proofs/InvRet.glob Proofs/InvRet.v.beautified Proofs/InvRet.required_vo: Proofs/InvRet.v Model.vo Proofs/Trace.vo Proofs/InvNames.vo
Proofs/InvRet.vio: Proofs/InvRet.v Model.vio Proofs/Trace.vio Proofs/InvNames.vio
Proofs/InvRet.vos Proofs/InvRet.vok Proofs/InvRet.required_vos: Proofs/InvRet.v Model.vos Proofs/Trace.vos Proofs/InvNames.vos
Proofs/InvTree.vo Proofs/InvTree.glob Proofs/InvTree.v.beautified Proofs/InvTree.required_vo: Proofs/InvTree.v Model.vo Spec/Tables.vo Mon/C12.vo Mon/C18.vo Proofs/Trace.vo Proofs/InvNames.vo Proofs/MonC12.vo
Proofs/InvTree.vio: Proofs/InvTree.v Model.vio Spec/Tables.vio Mon/C12.vio Mon/C18.vio Proofs/Trace.vio Proofs/InvNames.vio Proofs/MonC12.vio
Proofs/InvTree.vos Proofs/InvTree.vok Proofs/InvTree.required_vos: Proofs/InvTree.v Model.vos Spec/Tables.vos Mon/C12.vos Mon/C18.vos Proofs/Trace.vos Proofs/InvNames.vos Proofs/MonC12.vos
Properties/C11.vo Properties/C11.glob Properties/C11.v.beautified Properties/C11.required_vo: Properties/C11.v Model.vo Proofs/Trace.vo Proofs/InvRet.vo
Properties/C11.vio: Properties/C11.v Model.vio Proofs/Trace.vio Proofs/InvRet.vio
Properties/C11.vos Properties/C11.vok Properties/C11.required_vos: Properties/C11.v Model.vos Proofs/Trace.vos Proofs/InvRet.vos
Properties/C18.vo Properties/C18.glob Properties/C18.v.beautified Properties/C18.required_vo: Properties/C18.v Model.vo Mon/C18.vo Proofs/Trace.vo Proofs/InvTree.vo
Properties/C18.vio: Properties/C18.v Model.vio Mon/C18.vio Proofs/Trace.vio Proofs/InvTree.vio
Properties/C18.vos Properties/C18.vok Properties/C18.required_vos: Properties/C18.v Model.vos Mon/C18.vos Proofs/Trace.vos Proofs/InvTree.vos
