Gen/Enums.vo Gen/Enums.glob Gen/Enums.v.beautified Gen/Enums.required_vo: Gen/Enums.v 
Gen/Enums.vio: Gen/Enums.v 
Gen/Enums.vos Gen/Enums.vok Gen/Enums.required_vos: Gen/Enums.v 
Gen/Priority.vo Gen/Priority.glob Gen/Priority.v.beautified Gen/Priority.required_vo: Gen/Priority.v Gen/Enums.vo
Gen/Priority.vio: Gen/Priority.v Gen/Enums.vio
Gen/Priority.vos Gen/Priority.vok Gen/Priority.required_vos: Gen/Priority.v Gen/Enums.vos
Base.vo Base.glob Base.v.beautified Base.required_vo: Base.v 
Base.vio: Base.v 
Base.vos Base.vok Base.required_vos: Base.v 
Ast.vo Ast.glob Ast.v.beautified Ast.required_vo: Ast.v Base.vo Gen/Enums.vo Gen/Priority.vo
Ast.vio: Ast.v Base.vio Gen/Enums.vio Gen/Priority.vio
Ast.vos Ast.vok Ast.required_vos: Ast.v Base.vos Gen/Enums.vos Gen/Priority.vos
Sem.vo Sem.glob Sem.v.beautified Sem.required_vo: Sem.v Ast.vo
Sem.vio: Sem.v Ast.vio
Sem.vos Sem.vok Sem.required_vos: Sem.v Ast.vos
Model.vo Model.glob Model.v.beautified Model.required_vo: Model.v Sem.vo
Model.vio: Model.v Sem.vio
Model.vos Model.vok Model.required_vos: Model.v Sem.vos
Spec/Stack.vo Spec/Stack.glob Spec/Stack.v.beautified Spec/Stack.required_vo: Spec/Stack.v Model.vo
Spec/Stack.vio: Spec/Stack.v Model.vio
Spec/Stack.vos Spec/Stack.vok Spec/Stack.required_vos: Spec/Stack.v Model.vos
Mon/C09.vo Mon/C09.glob Mon/C09.v.beautified Mon/C09.required_vo: Mon/C09.v Model.vo Spec/Stack.vo
Mon/C09.vio: Mon/C09.v Model.vio Spec/Stack.vio
Mon/C09.vos Mon/C09.vok Mon/C09.required_vos: Mon/C09.v Model.vos Spec/Stack.vos
Proofs/Reach.vo Proofs/Reach.glob Proofs/Reach.v.beautified Proofs/Reach.required_vo: Proofs/Reach.v Model.vo Spec/Stack.vo
Proofs/Reach.vio: Proofs/Reach.v Model.vio Spec/Stack.vio
Proofs/Reach.vos Proofs/Reach.vok Proofs/Reach.required_vos: Proofs/Reach.v Model.vos Spec/Stack.vos
Proofs/InvReg.vo Proofs/InvReg.glob Proofs/InvReg.v.beautified Proofs/InvReg.required_vo: Proofs/InvReg.v Model.vo Proofs/Reach.vo
Proofs/InvReg.vio: Proofs/InvReg.v Model.vio Proofs/Reach.vio
Proofs/InvReg.vos Proofs/InvReg.vok Proofs/InvReg.required_vos: Proofs/InvReg.v Model.vos Proofs/Reach.vos
Proofs/MonC09.vo Proofs/MonC09.glob Proofs/MonC09.v.beautified Proofs/MonC09.required_vo: Proofs/MonC09.v Model.vo Mon/C09.vo Proofs/Reach.vo Proofs/InvReg.vo
Proofs/MonC09.vio: Proofs/MonC09.v Model.vio Mon/C09.vio Proofs/Reach.vio Proofs/InvReg.vio
Proofs/MonC09.vos Proofs/MonC09.vok Proofs/MonC09.required_vos: Proofs/MonC09.v Model.vos Mon/C09.vos Proofs/Reach.vos Proofs/InvReg.vos
Properties/C09.vo Properties/C09.glob Properties/C09.v.beautified Properties/C09.required_vo: Properties/C09.v Model.vo Mon/C09.vo Proofs/Reach.vo Proofs/InvReg.vo Proofs/MonC09.vo
Properties/C09.vio: Properties/C09.v Model.vio Mon/C09.vio Proofs/Reach.vio Proofs/InvReg.vio Proofs/MonC09.vio
Properties/C09.vos Properties/C09.vok Properties/C09.required_vos: Properties/C09.v Model.vos Mon/C09.vos Proofs/Reach.vos Proofs/InvReg.vos Proofs/MonC09.vos
Spec/Bracket.vo Spec/Bracket.glob Spec/Bracket.v.beautified Spec/Bracket.required_vo: Spec/Bracket.v Model.vo
Spec/Bracket.vio: Spec/Bracket.v Model.vio
Spec/Bracket.vos Spec/Bracket.vok Spec/Bracket.required_vos: Spec/Bracket.v Model.vos
Proofs/Fold.vo Proofs/Fold.glob Proofs/Fold.v.beautified Proofs/Fold.required_vo: Proofs/Fold.v Model.vo Spec/Bracket.vo
Proofs/Fold.vio: Proofs/Fold.v Model.vio Spec/Bracket.vio
Proofs/Fold.vos Proofs/Fold.vok Proofs/Fold.required_vos: Proofs/Fold.v Model.vos Spec/Bracket.vos
Properties/C07.vo Properties/C07.glob Properties/C07.v.beautified Properties/C07.required_vo: Properties/C07.v Model.vo Spec/Bracket.vo Proofs/Fold.vo
Properties/C07.vio: Properties/C07.v Model.vio Spec/Bracket.vio Proofs/Fold.vio
Properties/C07.vos Properties/C07.vok Properties/C07.required_vos: Properties/C07.v Model.vos Spec/Bracket.vos Proofs/Fold.vos
Mon/C07.vo Mon/C07.glob Mon/C07.v.beautified Mon/C07.required_vo: Mon/C07.v Model.vo Spec/Stack.vo Spec/Bracket.vo
Mon/C07.vio: Mon/C07.v Model.vio Spec/Stack.vio Spec/Bracket.vio
Mon/C07.vos Mon/C07.vok Mon/C07.required_vos: Mon/C07.v Model.vos Spec/Stack.vos Spec/Bracket.vos
Proofs/Trace.vo Proofs/Trace.glob Proofs/Trace.v.beautified Proofs/Trace.required_vo: Proofs/Trace.v Model.vo Spec/Stack.vo Mon/C12.vo
Proofs/Trace.vio: Proofs/Trace.v Model.vio Spec/Stack.vio Mon/C12.vio
Proofs/Trace.vos Proofs/Trace.vok Proofs/Trace.required_vos: Proofs/Trace.v Model.vos Spec/Stack.vos Mon/C12.vos
Mon/C12.vo Mon/C12.glob Mon/C12.v.beautified Mon/C12.required_vo: Mon/C12.v Model.vo Spec/Stack.vo
Mon/C12.vio: Mon/C12.v Model.vio Spec/Stack.vio
Mon/C12.vos Mon/C12.vok Mon/C12.required_vos: Mon/C12.v Model.vos Spec/Stack.vos
Spec/Exec.vo Spec/Exec.glob Spec/Exec.v.beautified Spec/Exec.required_vo: Spec/Exec.v Model.vo Spec/Stack.vo
Spec/Exec.vio: Spec/Exec.v Model.vio Spec/Stack.vio
Spec/Exec.vos Spec/Exec.vok Spec/Exec.required_vos: Spec/Exec.v Model.vos Spec/Stack.vos
Mon/Control.vo Mon/Control.glob Mon/Control.v.beautified Mon/Control.required_vo: Mon/Control.v Model.vo Spec/Stack.vo Spec/Exec.vo
Mon/Control.vio: Mon/Control.v Model.vio Spec/Stack.vio Spec/Exec.vio
Mon/Control.vos Mon/Control.vok Mon/Control.required_vos: Mon/Control.v Model.vos Spec/Stack.vos Spec/Exec.vos
Proofs/ExecBasic.vo Proofs/ExecBasic.glob Proofs/ExecBasic.v.beautified Proofs/ExecBasic.required_vo: Proofs/ExecBasic.v Model.vo Spec/Stack.vo Spec/Exec.vo Mon/Control.vo
Proofs/ExecBasic.vio: Proofs/ExecBasic.v Model.vio Spec/Stack.vio Spec/Exec.vio Mon/Control.vio
Proofs/ExecBasic.vos Proofs/ExecBasic.vok Proofs/ExecBasic.required_vos: Proofs/ExecBasic.v Model.vos Spec/Stack.vos Spec/Exec.vos Mon/Control.vos
Proofs/InvNames.vo Proofs/InvNames.glob Proofs/InvNames.v.beautified Proofs/InvNames.required_vo: Proofs/InvNames.v Model.vo Proofs/Trace.vo Mon/C12.vo
Proofs/InvNames.vio: Proofs/InvNames.v Model.vio Proofs/Trace.vio Mon/C12.vio
Proofs/InvNames.vos Proofs/InvNames.vok Proofs/InvNames.required_vos: Proofs/InvNames.v Model.vos Proofs/Trace.vos Mon/C12.vos
Spec/Tables.vo Spec/Tables.glob Spec/Tables.v.beautified Spec/Tables.required_vo: Spec/Tables.v Sem.vo
Spec/Tables.vio: Spec/Tables.v Sem.vio
Spec/Tables.vos Spec/Tables.vok Spec/Tables.required_vos: Spec/Tables.v Sem.vos
Proofs/MonC12.vo Proofs/MonC12.glob Proofs/MonC12.v.beautified Proofs/MonC12.required_vo: Proofs/MonC12.v Model.vo Spec/Stack.vo Spec/Tables.vo Mon/C12.vo Proofs/Trace.vo Proofs/InvNames.vo
Proofs/MonC12.vio: Proofs/MonC12.v Model.vio Spec/Stack.vio Spec/Tables.vio Mon/C12.vio Proofs/Trace.vio Proofs/InvNames.vio
Proofs/MonC12.vos Proofs/MonC12.vok Proofs/MonC12.required_vos: Proofs/MonC12.v Model.vos Spec/Stack.vos Spec/Tables.vos Mon/C12.vos Proofs/Trace.vos Proofs/InvNames.vos
Properties/C12.vo Properties/C12.glob Properties/C12.v.beautified Properties/C12.required_vo: Properties/C12.v Model.vo Mon/C12.vo Proofs/Trace.vo Proofs/InvNames.vo Proofs/MonC12.vo
Properties/C12.vio: Properties/C12.v Model.vio Mon/C12.vio Proofs/Trace.vio Proofs/InvNames.vio Proofs/MonC12.vio
Properties/C12.vos Properties/C12.vok Properties/C12.required_vos: Properties/C12.v Model.vos Mon/C12.vos Proofs/Trace.vos Proofs/InvNames.vos Proofs/MonC12.vos
Mon/C15.vo Mon/C15.glob Mon/C15.v.beautified Mon/C15.required_vo: Mon/C15.v Sem.vo Spec/Tables.vo
Mon/C15.vio: Mon/C15.v Sem.vio Spec/Tables.vio
Mon/C15.vos Mon/C15.vok Mon/C15.required_vos: Mon/C15.v Sem.vos Spec/Tables.vos
Proofs/Driver.vo Proofs/Driver.glob Proofs/Driver.v.beautified Proofs/Driver.required_vo: Proofs/Driver.v Model.vo Spec/Tables.vo Mon/C15.vo
Proofs/Driver.vio: Proofs/Driver.v Model.vio Spec/Tables.vio Mon/C15.vio
Proofs/Driver.vos Proofs/Driver.vok Proofs/Driver.required_vos: Proofs/Driver.v Model.vos Spec/Tables.vos Mon/C15.vos
Properties/C15.vo Properties/C15.glob Properties/C15.v.beautified Properties/C15.required_vo: Properties/C15.v Model.vo Spec/Tables.vo Mon/C15.vo Proofs/Driver.vo
Properties/C15.vio: Properties/C15.v Model.vio Spec/Tables.vio Mon/C15.vio Proofs/Driver.vio
Properties/C15.vos Properties/C15.vok Properties/C15.required_vos: Properties/C15.v Model.vos Spec/Tables.vos Mon/C15.vos Proofs/Driver.vos
Properties/C16.vo Properties/C16.glob Properties/C16.v.beautified Properties/C16.required_vo: Properties/C16.v Model.vo Proofs/Driver.vo
Properties/C16.vio: Properties/C16.v Model.vio Proofs/Driver.vio
Properties/C16.vos Properties/C16.vok Properties/C16.required_vos: Properties/C16.v Model.vos Proofs/Driver.vos
Properties/C17.vo Properties/C17.glob Properties/C17.v.beautified Properties/C17.required_vo: Properties/C17.v Model.vo Proofs/Driver.vo
Properties/C17.vio: Properties/C17.v Model.vio Proofs/Driver.vio
Properties/C17.vos Properties/C17.vok Properties/C17.required_vos: Properties/C17.v Model.vos Proofs/Driver.vos
Spec/Json.vo Spec/Json.glob Spec/Json.v.beautified Spec/Json.required_vo: Spec/Json.v Base.vo
Spec/Json.vio: Spec/Json.v Base.vio
Spec/Json.vos Spec/Json.vok Spec/Json.required_vos: Spec/Json.v Base.vos
Spec/Codec.vo Spec/Codec.glob Spec/Codec.v.beautified Spec/Codec.required_vo: Spec/Codec.v Model.vo Spec/Json.vo
Spec/Codec.vio: Spec/Codec.v Model.vio Spec/Json.vio
Spec/Codec.vos Spec/Codec.vok Spec/Codec.required_vos: Spec/Codec.v Model.vos Spec/Json.vos
Proofs/CodecRT.vo Proofs/CodecRT.glob Proofs/CodecRT.v.beautified Proofs/CodecRT.required_vo: Proofs/CodecRT.v Model.vo Spec/Json.vo Spec/Codec.vo
Proofs/CodecRT.vio: Proofs/CodecRT.v Model.vio Spec/Json.vio Spec/Codec.vio
Proofs/CodecRT.vos Proofs/CodecRT.vok Proofs/CodecRT.required_vos: Proofs/CodecRT.v Model.vos Spec/Json.vos Spec/Codec.vos
Properties/C20.vo Properties/C20.glob Properties/C20.v.beautified Properties/C20.required_vo: Properties/C20.v Model.vo Spec/Json.vo Spec/Codec.vo Proofs/CodecRT.vo
Properties/C20.vio: Properties/C20.v Model.vio Spec/Json.vio Spec/Codec.vio Proofs/CodecRT.vio
Properties/C20.vos Properties/C20.vok Properties/C20.required_vos: Properties/C20.v Model.vos Spec/Json.vos Spec/Codec.vos Proofs/CodecRT.vos
Proofs/InvLabels.vo Proofs/InvLabels.glob Proofs/InvLabels.v.beautified Proofs/InvLabels.required_vo: Proofs/InvLabels.v Model.vo Spec/Stack.vo Proofs/Trace.vo Proofs/InvNames.vo
Proofs/InvLabels.vio: Proofs/InvLabels.v Model.vio Spec/Stack.vio Proofs/Trace.vio Proofs/InvNames.vio
Proofs/InvLabels.vos Proofs/InvLabels.vok Proofs/InvLabels.required_vos: Proofs/InvLabels.v Model.vos Spec/Stack.vos Proofs/Trace.vos Proofs/InvNames.vos
Properties/C10.vo Properties/C10.glob Properties/C10.v.beautified Properties/C10.required_vo: Properties/C10.v Model.vo Spec/Stack.vo Mon/Control.vo Proofs/ExecBasic.vo Proofs/InvLabels.vo
Properties/C10.vio: Properties/C10.v Model.vio Spec/Stack.vio Mon/Control.vio Proofs/ExecBasic.vio Proofs/InvLabels.vio
Properties/C10.vos Properties/C10.vok Properties/C10.required_vos: Properties/C10.v Model.vos Spec/Stack.vos Mon/Control.vos Proofs/ExecBasic.vos Proofs/InvLabels.vos
Mon/C18.vo Mon/C18.glob Mon/C18.v.beautified Mon/C18.required_vo: Mon/C18.v Model.vo Spec/Tables.vo Mon/C12.vo
Mon/C18.vio: Mon/C18.v Model.vio Spec/Tables.vio Mon/C12.vio
Mon/C18.vos Mon/C18.vok Mon/C18.required_vos: Mon/C18.v Model.vos Spec/Tables.vos Mon/C12.vos
Proofs/InvRet.vo Proofs/InvRet.glob Proofs/InvRet.v.beautified Proofs/InvRet.required_vo: Proofs/InvRet.v Model.vo Proofs/Trace.vo Proofs/InvNames.vo
Proofs/InvRet.vio: Proofs/InvRet.v Model.vio Proofs/Trace.vio Proofs/InvNames.vio
Proofs/InvRet.vos Proofs/InvRet.vok Proofs/InvRet.required_vos: Proofs/InvRet.v Model.vos Proofs/Trace.vos Proofs/InvNames.vos
Proofs/InvTree.vo Proofs/InvTree.glob Proofs/InvTree.v.beautified Proofs/InvTree.required_vo: Proofs/InvTree.v Model.vo Spec/Tables.vo Mon/C12.vo Mon/C18.vo Proofs/Trace.vo Proofs/InvNames.vo Proofs/MonC12.vo
Proofs/InvTree.vio: Proofs/InvTree.v Model.vio Spec/Tables.vio Mon/C12.vio Mon/C18.vio Proofs/Trace.vio Proofs/InvNames.vio Proofs/MonC12.vio
Proofs/InvTree.vos Proofs/InvTree.vok Proofs/InvTree.required_vos: Proofs/InvTree.v Model.vos Spec/Tables.vos Mon/C12.vos Mon/C18.vos Proofs/Trace.vos Proofs/InvNames.vos Proofs/MonC12.vos
Properties/C11.vo Properties/C11.glob Properties/C11.v.beautified Properties/C11.required_vo: Properties/C11.v Model.vo Proofs/Trace.vo Proofs/InvRet.vo
Properties/C11.vio: Properties/C11.v Model.vio Proofs/Trace.vio Proofs/InvRet.vio
Properties/C11.vos Properties/C11.vok Properties/C11.required_vos: Properties/C11.v Model.vos Proofs/Trace.vos Proofs/InvRet.vos
Properties/C18.vo Properties/C18.glob Properties/C18.v.beautified Properties/C18.required_vo: Properties/C18.v Model.vo Mon/C18.vo Proofs/Trace.vo Proofs/InvTree.vo
Properties/C18.vio: Properties/C18.v Model.vio Mon/C18.vio Proofs/Trace.vio Proofs/InvTree.vio
Properties/C18.vos Properties/C18.vok Properties/C18.required_vos: Properties/C18.v Model.vos Mon/C18.vos Proofs/Trace.vos Proofs/InvTree.vos
Mon/C08.vo Mon/C08.glob Mon/C08.v.beautified Mon/C08.required_vo: Mon/C08.v Model.vo Spec/Stack.vo
Mon/C08.vio: Mon/C08.v Model.vio Spec/Stack.vio
Mon/C08.vos Mon/C08.vok Mon/C08.required_vos: Mon/C08.v Model.vos Spec/Stack.vos
Spec/FirstViolation.vo Spec/FirstViolation.glob Spec/FirstViolation.v.beautified Spec/FirstViolation.required_vo: Spec/FirstViolation.v Sem.vo Model.vo
Spec/FirstViolation.vio: Spec/FirstViolation.v Sem.vio Model.vio
Spec/FirstViolation.vos Spec/FirstViolation.vok Spec/FirstViolation.required_vos: Spec/FirstViolation.v Sem.vos Model.vos
Mon/Verdict.vo Mon/Verdict.glob Mon/Verdict.v.beautified Mon/Verdict.required_vo: Mon/Verdict.v Sem.vo Spec/FirstViolation.vo
Mon/Verdict.vio: Mon/Verdict.v Sem.vio Spec/FirstViolation.vio
Mon/Verdict.vos Mon/Verdict.vok Mon/Verdict.required_vos: Mon/Verdict.v Sem.vos Spec/FirstViolation.vos
Proofs/VerdictMon.vo Proofs/VerdictMon.glob Proofs/VerdictMon.v.beautified Proofs/VerdictMon.required_vo: Proofs/VerdictMon.v Sem.vo Spec/FirstViolation.vo Mon/Verdict.vo
Proofs/VerdictMon.vio: Proofs/VerdictMon.v Sem.vio Spec/FirstViolation.vio Mon/Verdict.vio
Proofs/VerdictMon.vos Proofs/VerdictMon.vok Proofs/VerdictMon.required_vos: Proofs/VerdictMon.v Sem.vos Spec/FirstViolation.vos Mon/Verdict.vos
Proofs/RulesBasic.vo Proofs/RulesBasic.glob Proofs/RulesBasic.v.beautified Proofs/RulesBasic.required_vo: Proofs/RulesBasic.v Model.vo Spec/FirstViolation.vo
Proofs/RulesBasic.vio: Proofs/RulesBasic.v Model.vio Spec/FirstViolation.vio
Proofs/RulesBasic.vos Proofs/RulesBasic.vok Proofs/RulesBasic.required_vos: Proofs/RulesBasic.v Model.vos Spec/FirstViolation.vos
Proofs/SimExpr.vo Proofs/SimExpr.glob Proofs/SimExpr.v.beautified Proofs/SimExpr.required_vo: Proofs/SimExpr.v Model.vo Spec/FirstViolation.vo Proofs/Reach.vo Proofs/Trace.vo Proofs/VerdictMon.vo
Proofs/SimExpr.vio: Proofs/SimExpr.v Model.vio Spec/FirstViolation.vio Proofs/Reach.vio Proofs/Trace.vio Proofs/VerdictMon.vio
Proofs/SimExpr.vos Proofs/SimExpr.vok Proofs/SimExpr.required_vos: Proofs/SimExpr.v Model.vos Spec/FirstViolation.vos Proofs/Reach.vos Proofs/Trace.vos Proofs/VerdictMon.vos
Proofs/SimStmt.vo Proofs/SimStmt.glob Proofs/SimStmt.v.beautified Proofs/SimStmt.required_vo: Proofs/SimStmt.v Model.vo Spec/FirstViolation.vo Proofs/Reach.vo Proofs/Trace.vo Proofs/VerdictMon.vo Proofs/SimExpr.vo
Proofs/SimStmt.vio: Proofs/SimStmt.v Model.vio Spec/FirstViolation.vio Proofs/Reach.vio Proofs/Trace.vio Proofs/VerdictMon.vio Proofs/SimExpr.vio
Proofs/SimStmt.vos Proofs/SimStmt.vok Proofs/SimStmt.required_vos: Proofs/SimStmt.v Model.vos Spec/FirstViolation.vos Proofs/Reach.vos Proofs/Trace.vos Proofs/VerdictMon.vos Proofs/SimExpr.vos
Proofs/SimDecl.vo Proofs/SimDecl.glob Proofs/SimDecl.v.beautified Proofs/SimDecl.required_vo: Proofs/SimDecl.v Model.vo Spec/FirstViolation.vo Proofs/VerdictMon.vo Proofs/SimExpr.vo Proofs/Driver.vo
Proofs/SimDecl.vio: Proofs/SimDecl.v Model.vio Spec/FirstViolation.vio Proofs/VerdictMon.vio Proofs/SimExpr.vio Proofs/Driver.vio
Proofs/SimDecl.vos Proofs/SimDecl.vok Proofs/SimDecl.required_vos: Proofs/SimDecl.v Model.vos Spec/FirstViolation.vos Proofs/VerdictMon.vos Proofs/SimExpr.vos Proofs/Driver.vos
Proofs/Simulation.vo Proofs/Simulation.glob Proofs/Simulation.v.beautified Proofs/Simulation.required_vo: Proofs/Simulation.v Model.vo Spec/FirstViolation.vo Mon/Verdict.vo Proofs/VerdictMon.vo Proofs/RulesBasic.vo Proofs/SimExpr.vo Proofs/SimStmt.vo Proofs/SimDecl.vo Proofs/Driver.vo
Proofs/Simulation.vio: Proofs/Simulation.v Model.vio Spec/FirstViolation.vio Mon/Verdict.vio Proofs/VerdictMon.vio Proofs/RulesBasic.vio Proofs/SimExpr.vio Proofs/SimStmt.vio Proofs/SimDecl.vio Proofs/Driver.vio
Proofs/Simulation.vos Proofs/Simulation.vok Proofs/Simulation.required_vos: Proofs/Simulation.v Model.vos Spec/FirstViolation.vos Mon/Verdict.vos Proofs/VerdictMon.vos Proofs/RulesBasic.vos Proofs/SimExpr.vos Proofs/SimStmt.vos Proofs/SimDecl.vos Proofs/Driver.vos
Properties/C14.vo Properties/C14.glob Properties/C14.v.beautified Properties/C14.required_vo: Properties/C14.v Model.vo Spec/FirstViolation.vo Mon/Verdict.vo Proofs/VerdictMon.vo Proofs/Simulation.vo
Properties/C14.vio: Properties/C14.v Model.vio Spec/FirstViolation.vio Mon/Verdict.vio Proofs/VerdictMon.vio Proofs/Simulation.vio
Properties/C14.vos Properties/C14.vok Properties/C14.required_vos: Properties/C14.v Model.vos Spec/FirstViolation.vos Mon/Verdict.vos Proofs/VerdictMon.vos Proofs/Simulation.vos
Properties/C02.vo Properties/C02.glob Properties/C02.v.beautified Properties/C02.required_vo: Properties/C02.v Model.vo Spec/FirstViolation.vo Mon/Verdict.vo Proofs/VerdictMon.vo Proofs/Simulation.vo
Properties/C02.vio: Properties/C02.v Model.vio Spec/FirstViolation.vio Mon/Verdict.vio Proofs/VerdictMon.vio Proofs/Simulation.vio
Properties/C02.vos Properties/C02.vok Properties/C02.required_vos: Properties/C02.v Model.vos Spec/FirstViolation.vos Mon/Verdict.vos Proofs/VerdictMon.vos Proofs/Simulation.vos
Properties/C01.vo Properties/C01.glob Properties/C01.v.beautified Properties/C01.required_vo: Properties/C01.v Model.vo Spec/FirstViolation.vo Mon/Verdict.vo Proofs/VerdictMon.vo Proofs/RulesBasic.vo Proofs/Simulation.vo
Properties/C01.vio: Properties/C01.v Model.vio Spec/FirstViolation.vio Mon/Verdict.vio Proofs/VerdictMon.vio Proofs/RulesBasic.vio Proofs/Simulation.vio
Properties/C01.vos Properties/C01.vok Properties/C01.required_vos: Properties/C01.v Model.vos Spec/FirstViolation.vos Mon/Verdict.vos Proofs/VerdictMon.vos Proofs/RulesBasic.vos Proofs/Simulation.vos
Proofs/DefUse.vo Proofs/DefUse.glob Proofs/DefUse.v.beautified Proofs/DefUse.required_vo: Proofs/DefUse.v Model.vo Spec/Stack.vo Mon/C08.vo Proofs/Trace.vo Proofs/InvNames.vo
Proofs/DefUse.vio: Proofs/DefUse.v Model.vio Spec/Stack.vio Mon/C08.vio Proofs/Trace.vio Proofs/InvNames.vio
Proofs/DefUse.vos Proofs/DefUse.vok Proofs/DefUse.required_vos: Proofs/DefUse.v Model.vos Spec/Stack.vos Mon/C08.vos Proofs/Trace.vos Proofs/InvNames.vos
Proofs/MonC08.vo Proofs/MonC08.glob Proofs/MonC08.v.beautified Proofs/MonC08.required_vo: Proofs/MonC08.v Model.vo Spec/Stack.vo Mon/C08.vo Proofs/DefUse.vo
Proofs/MonC08.vio: Proofs/MonC08.v Model.vio Spec/Stack.vio Mon/C08.vio Proofs/DefUse.vio
Proofs/MonC08.vos Proofs/MonC08.vok Proofs/MonC08.required_vos: Proofs/MonC08.v Model.vos Spec/Stack.vos Mon/C08.vos Proofs/DefUse.vos
Properties/C08.vo Properties/C08.glob Properties/C08.v.beautified Properties/C08.required_vo: Properties/C08.v Model.vo Spec/Stack.vo Mon/C08.vo Proofs/DefUse.vo Proofs/MonC08.vo
Properties/C08.vio: Properties/C08.v Model.vio Spec/Stack.vio Mon/C08.vio Proofs/DefUse.vio Proofs/MonC08.vio
Properties/C08.vos Properties/C08.vok Properties/C08.required_vos: Properties/C08.v Model.vos Spec/Stack.vos Mon/C08.vos Proofs/DefUse.vos Proofs/MonC08.vos
Proofs/Resolve.vo Proofs/Resolve.glob Proofs/Resolve.v.beautified Proofs/Resolve.required_vo: Proofs/Resolve.v Model.vo Spec/Stack.vo Proofs/Trace.vo Proofs/InvNames.vo Proofs/InvLabels.vo
Proofs/Resolve.vio: Proofs/Resolve.v Model.vio Spec/Stack.vio Proofs/Trace.vio Proofs/InvNames.vio Proofs/InvLabels.vio
Proofs/Resolve.vos Proofs/Resolve.vok Proofs/Resolve.required_vos: Proofs/Resolve.v Model.vos Spec/Stack.vos Proofs/Trace.vos Proofs/InvNames.vos Proofs/InvLabels.vos
Properties/C10b.vo Properties/C10b.glob Properties/C10b.v.beautified Properties/C10b.required_vo: Properties/C10b.v Model.vo Spec/Stack.vo Mon/Control.vo Proofs/ExecBasic.vo Proofs/InvLabels.vo Proofs/Resolve.vo
Properties/C10b.vio: Properties/C10b.v Model.vio Spec/Stack.vio Mon/Control.vio Proofs/ExecBasic.vio Proofs/InvLabels.vio Proofs/Resolve.vio
Properties/C10b.vos Properties/C10b.vok Properties/C10b.required_vos: Properties/C10b.v Model.vos Spec/Stack.vos Mon/Control.vos Proofs/ExecBasic.vos Proofs/InvLabels.vos Proofs/Resolve.vos
Mon/C03.vo Mon/C03.glob Mon/C03.v.beautified Mon/C03.required_vo: Mon/C03.v Model.vo
Mon/C03.vio: Mon/C03.v Model.vio
Mon/C03.vos Mon/C03.vok Mon/C03.required_vos: Mon/C03.v Model.vos
Mon/C04.vo Mon/C04.glob Mon/C04.v.beautified Mon/C04.required_vo: Mon/C04.v Model.vo Spec/Tables.vo
Mon/C04.vio: Mon/C04.v Model.vio Spec/Tables.vio
Mon/C04.vos Mon/C04.vok Mon/C04.required_vos: Mon/C04.v Model.vos Spec/Tables.vos
Mon/C06.vo Mon/C06.glob Mon/C06.v.beautified Mon/C06.required_vo: Mon/C06.v Model.vo Spec/Stack.vo
Mon/C06.vio: Mon/C06.v Model.vio Spec/Stack.vio
Mon/C06.vos Mon/C06.vok Mon/C06.required_vos: Mon/C06.v Model.vos Spec/Stack.vos
Mon/C19.vo Mon/C19.glob Mon/C19.v.beautified Mon/C19.required_vo: Mon/C19.v Model.vo Spec/Stack.vo
Mon/C19.vio: Mon/C19.v Model.vio Spec/Stack.vio
Mon/C19.vos Mon/C19.vok Mon/C19.required_vos: Mon/C19.v Model.vos Spec/Stack.vos
Mon/C13.vo Mon/C13.glob Mon/C13.v.beautified Mon/C13.required_vo: Mon/C13.v Model.vo
Mon/C13.vio: Mon/C13.v Model.vio
Mon/C13.vos Mon/C13.vok Mon/C13.required_vos: Mon/C13.v Model.vos
Proofs/Probe.vo Proofs/Probe.glob Proofs/Probe.v.beautified Proofs/Probe.required_vo: Proofs/Probe.v Model.vo Mon/C13.vo
Proofs/Probe.vio: Proofs/Probe.v Model.vio Mon/C13.vio
Proofs/Probe.vos Proofs/Probe.vok Proofs/Probe.required_vos: Proofs/Probe.v Model.vos Mon/C13.vos
Proofs/Frames.vo Proofs/Frames.glob Proofs/Frames.v.beautified Proofs/Frames.required_vo: Proofs/Frames.v Model.vo Proofs/Probe.vo
Proofs/Frames.vio: Proofs/Frames.v Model.vio Proofs/Probe.vio
Proofs/Frames.vos Proofs/Frames.vok Proofs/Frames.required_vos: Proofs/Frames.v Model.vos Proofs/Probe.vos
Proofs/Fuel.vo Proofs/Fuel.glob Proofs/Fuel.v.beautified Proofs/Fuel.required_vo: Proofs/Fuel.v Model.vo Proofs/Probe.vo Proofs/Frames.vo
Proofs/Fuel.vio: Proofs/Fuel.v Model.vio Proofs/Probe.vio Proofs/Frames.vio
Proofs/Fuel.vos Proofs/Fuel.vok Proofs/Fuel.required_vos: Proofs/Fuel.v Model.vos Proofs/Probe.vos Proofs/Frames.vos
Proofs/Total.vo Proofs/Total.glob Proofs/Total.v.beautified Proofs/Total.required_vo: Proofs/Total.v Model.vo Proofs/Probe.vo Proofs/Frames.vo Proofs/Fuel.vo
Proofs/Total.vio: Proofs/Total.v Model.vio Proofs/Probe.vio Proofs/Frames.vio Proofs/Fuel.vio
Proofs/Total.vos Proofs/Total.vok Proofs/Total.required_vos: Proofs/Total.v Model.vos Proofs/Probe.vos Proofs/Frames.vos Proofs/Fuel.vos
Properties/C13.vo Properties/C13.glob Properties/C13.v.beautified Properties/C13.required_vo: Properties/C13.v Model.vo Mon/C13.vo Proofs/Probe.vo Proofs/Frames.vo Proofs/Fuel.vo Proofs/Total.vo
Properties/C13.vio: Properties/C13.v Model.vio Mon/C13.vio Proofs/Probe.vio Proofs/Frames.vio Proofs/Fuel.vio Proofs/Total.vio
Properties/C13.vos Properties/C13.vok Properties/C13.required_vos: Properties/C13.v Model.vos Mon/C13.vos Proofs/Probe.vos Proofs/Frames.vos Proofs/Fuel.vos Proofs/Total.vos
Mon/C18b.vo Mon/C18b.glob Mon/C18b.v.beautified Mon/C18b.required_vo: Mon/C18b.v Model.vo Spec/Tables.vo Mon/C12.vo Mon/C18.vo
Mon/C18b.vio: Mon/C18b.v Model.vio Spec/Tables.vio Mon/C12.vio Mon/C18.vio
Mon/C18b.vos Mon/C18b.vok Mon/C18b.required_vos: Mon/C18b.v Model.vos Spec/Tables.vos Mon/C12.vos Mon/C18.vos
Spec/ResolverTests.vo Spec/ResolverTests.glob Spec/ResolverTests.v.beautified Spec/ResolverTests.required_vo: Spec/ResolverTests.v Model.vo Mon/C03.vo Mon/C04.vo Spec/FirstViolation.vo
Spec/ResolverTests.vio: Spec/ResolverTests.v Model.vio Mon/C03.vio Mon/C04.vio Spec/FirstViolation.vio
Spec/ResolverTests.vos Spec/ResolverTests.vok Spec/ResolverTests.required_vos: Spec/ResolverTests.v Model.vos Mon/C03.vos Mon/C04.vos Spec/FirstViolation.vos
Proofs/ResolutionBase.vo Proofs/ResolutionBase.glob Proofs/ResolutionBase.v.beautified Proofs/ResolutionBase.required_vo: Proofs/ResolutionBase.v Model.vo Spec/Stack.vo Mon/C03.vo Proofs/Trace.vo Proofs/InvNames.vo Proofs/DefUse.vo
Proofs/ResolutionBase.vio: Proofs/ResolutionBase.v Model.vio Spec/Stack.vio Mon/C03.vio Proofs/Trace.vio Proofs/InvNames.vio Proofs/DefUse.vio
Proofs/ResolutionBase.vos Proofs/ResolutionBase.vok Proofs/ResolutionBase.required_vos: Proofs/ResolutionBase.v Model.vos Spec/Stack.vos Mon/C03.vos Proofs/Trace.vos Proofs/InvNames.vos Proofs/DefUse.vos
Proofs/ResolutionLogic.vo Proofs/ResolutionLogic.glob Proofs/ResolutionLogic.v.beautified Proofs/ResolutionLogic.required_vo: Proofs/ResolutionLogic.v Model.vo Spec/Stack.vo Mon/C03.vo Proofs/Trace.vo Proofs/InvNames.vo Proofs/DefUse.vo Proofs/ResolutionBase.vo
Proofs/ResolutionLogic.vio: Proofs/ResolutionLogic.v Model.vio Spec/Stack.vio Mon/C03.vio Proofs/Trace.vio Proofs/InvNames.vio Proofs/DefUse.vio Proofs/ResolutionBase.vio
Proofs/ResolutionLogic.vos Proofs/ResolutionLogic.vok Proofs/ResolutionLogic.required_vos: Proofs/ResolutionLogic.v Model.vos Spec/Stack.vos Mon/C03.vos Proofs/Trace.vos Proofs/InvNames.vos Proofs/DefUse.vos Proofs/ResolutionBase.vos
Proofs/ResolutionExpr.vo Proofs/ResolutionExpr.glob Proofs/ResolutionExpr.v.beautified Proofs/ResolutionExpr.required_vo: Proofs/ResolutionExpr.v Model.vo Spec/Stack.vo Spec/Tables.vo Mon/C03.vo Proofs/Trace.vo Proofs/InvNames.vo Proofs/DefUse.vo Proofs/ResolutionBase.vo Proofs/ResolutionLogic.vo
Proofs/ResolutionExpr.vio: Proofs/ResolutionExpr.v Model.vio Spec/Stack.vio Spec/Tables.vio Mon/C03.vio Proofs/Trace.vio Proofs/InvNames.vio Proofs/DefUse.vio Proofs/ResolutionBase.vio Proofs/ResolutionLogic.vio
Proofs/ResolutionExpr.vos Proofs/ResolutionExpr.vok Proofs/ResolutionExpr.required_vos: Proofs/ResolutionExpr.v Model.vos Spec/Stack.vos Spec/Tables.vos Mon/C03.vos Proofs/Trace.vos Proofs/InvNames.vos Proofs/DefUse.vos Proofs/ResolutionBase.vos Proofs/ResolutionLogic.vos
Proofs/ResolutionStmt.vo Proofs/ResolutionStmt.glob Proofs/ResolutionStmt.v.beautified Proofs/ResolutionStmt.required_vo: Proofs/ResolutionStmt.v Model.vo Spec/Stack.vo Spec/Tables.vo Mon/C03.vo Proofs/Trace.vo Proofs/InvNames.vo Proofs/DefUse.vo Proofs/ResolutionBase.vo Proofs/ResolutionLogic.vo Proofs/ResolutionExpr.vo
Proofs/ResolutionStmt.vio: Proofs/ResolutionStmt.v Model.vio Spec/Stack.vio Spec/Tables.vio Mon/C03.vio Proofs/Trace.vio Proofs/InvNames.vio Proofs/DefUse.vio Proofs/ResolutionBase.vio Proofs/ResolutionLogic.vio Proofs/ResolutionExpr.vio
Proofs/ResolutionStmt.vos Proofs/ResolutionStmt.vok Proofs/ResolutionStmt.required_vos: Proofs/ResolutionStmt.v Model.vos Spec/Stack.vos Spec/Tables.vos Mon/C03.vos Proofs/Trace.vos Proofs/InvNames.vos Proofs/DefUse.vos Proofs/ResolutionBase.vos Proofs/ResolutionLogic.vos Proofs/ResolutionExpr.vos
Proofs/Resolution.vo Proofs/Resolution.glob Proofs/Resolution.v.beautified Proofs/Resolution.required_vo: Proofs/Resolution.v Model.vo Spec/Stack.vo Mon/C03.vo Proofs/Trace.vo Proofs/InvNames.vo Proofs/DefUse.vo Proofs/ResolutionBase.vo Proofs/ResolutionLogic.vo Proofs/ResolutionExpr.vo Proofs/ResolutionStmt.vo
Proofs/Resolution.vio: Proofs/Resolution.v Model.vio Spec/Stack.vio Mon/C03.vio Proofs/Trace.vio Proofs/InvNames.vio Proofs/DefUse.vio Proofs/ResolutionBase.vio Proofs/ResolutionLogic.vio Proofs/ResolutionExpr.vio Proofs/ResolutionStmt.vio
Proofs/Resolution.vos Proofs/Resolution.vok Proofs/Resolution.required_vos: Proofs/Resolution.v Model.vos Spec/Stack.vos Mon/C03.vos Proofs/Trace.vos Proofs/InvNames.vos Proofs/DefUse.vos Proofs/ResolutionBase.vos Proofs/ResolutionLogic.vos Proofs/ResolutionExpr.vos Proofs/ResolutionStmt.vos
Proofs/ResolutionReading.vo Proofs/ResolutionReading.glob Proofs/ResolutionReading.v.beautified Proofs/ResolutionReading.required_vo: Proofs/ResolutionReading.v Model.vo Mon/C03.vo Proofs/Trace.vo Proofs/InvNames.vo Proofs/ResolutionBase.vo
Proofs/ResolutionReading.vio: Proofs/ResolutionReading.v Model.vio Mon/C03.vio Proofs/Trace.vio Proofs/InvNames.vio Proofs/ResolutionBase.vio
Proofs/ResolutionReading.vos Proofs/ResolutionReading.vok Proofs/ResolutionReading.required_vos: Proofs/ResolutionReading.v Model.vos Mon/C03.vos Proofs/Trace.vos Proofs/InvNames.vos Proofs/ResolutionBase.vos
Properties/C03.vo Properties/C03.glob Properties/C03.v.beautified Properties/C03.required_vo: Properties/C03.v Model.vo Mon/C03.vo Proofs/ResolutionBase.vo Proofs/ResolutionLogic.vo Proofs/ResolutionReading.vo Proofs/Resolution.vo Spec/ResolverTests.vo
Properties/C03.vio: Properties/C03.v Model.vio Mon/C03.vio Proofs/ResolutionBase.vio Proofs/ResolutionLogic.vio Proofs/ResolutionReading.vio Proofs/Resolution.vio Spec/ResolverTests.vio
Properties/C03.vos Properties/C03.vok Properties/C03.required_vos: Properties/C03.v Model.vos Mon/C03.vos Proofs/ResolutionBase.vos Proofs/ResolutionLogic.vos Proofs/ResolutionReading.vos Proofs/Resolution.vos Spec/ResolverTests.vos
Proofs/FlowBasic.vo Proofs/FlowBasic.glob Proofs/FlowBasic.v.beautified Proofs/FlowBasic.required_vo: Proofs/FlowBasic.v Model.vo Spec/Stack.vo Spec/Exec.vo Mon/Control.vo Proofs/Trace.vo Proofs/InvNames.vo Proofs/InvLabels.vo Proofs/Resolve.vo Proofs/ExecBasic.vo Proofs/DefUse.vo
Proofs/FlowBasic.vio: Proofs/FlowBasic.v Model.vio Spec/Stack.vio Spec/Exec.vio Mon/Control.vio Proofs/Trace.vio Proofs/InvNames.vio Proofs/InvLabels.vio Proofs/Resolve.vio Proofs/ExecBasic.vio Proofs/DefUse.vio
Proofs/FlowBasic.vos Proofs/FlowBasic.vok Proofs/FlowBasic.required_vos: Proofs/FlowBasic.v Model.vos Spec/Stack.vos Spec/Exec.vos Mon/Control.vos Proofs/Trace.vos Proofs/InvNames.vos Proofs/InvLabels.vos Proofs/Resolve.vos Proofs/ExecBasic.vos Proofs/DefUse.vos
Proofs/FlowSem.vo Proofs/FlowSem.glob Proofs/FlowSem.v.beautified Proofs/FlowSem.required_vo: Proofs/FlowSem.v Model.vo Spec/Stack.vo Spec/Exec.vo Proofs/Trace.vo Proofs/InvNames.vo Proofs/InvLabels.vo Proofs/Resolve.vo Proofs/ExecBasic.vo Proofs/FlowBasic.vo
Proofs/FlowSem.vio: Proofs/FlowSem.v Model.vio Spec/Stack.vio Spec/Exec.vio Proofs/Trace.vio Proofs/InvNames.vio Proofs/InvLabels.vio Proofs/Resolve.vio Proofs/ExecBasic.vio Proofs/FlowBasic.vio
Proofs/FlowSem.vos Proofs/FlowSem.vok Proofs/FlowSem.required_vos: Proofs/FlowSem.v Model.vos Spec/Stack.vos Spec/Exec.vos Proofs/Trace.vos Proofs/InvNames.vos Proofs/InvLabels.vos Proofs/Resolve.vos Proofs/ExecBasic.vos Proofs/FlowBasic.vos
Proofs/FlowExpr.vo Proofs/FlowExpr.glob Proofs/FlowExpr.v.beautified Proofs/FlowExpr.required_vo: Proofs/FlowExpr.v Model.vo Spec/Stack.vo Spec/Exec.vo Proofs/Trace.vo Proofs/InvNames.vo Proofs/InvLabels.vo Proofs/Resolve.vo Proofs/ExecBasic.vo Proofs/FlowBasic.vo Proofs/FlowSem.vo
Proofs/FlowExpr.vio: Proofs/FlowExpr.v Model.vio Spec/Stack.vio Spec/Exec.vio Proofs/Trace.vio Proofs/InvNames.vio Proofs/InvLabels.vio Proofs/Resolve.vio Proofs/ExecBasic.vio Proofs/FlowBasic.vio Proofs/FlowSem.vio
Proofs/FlowExpr.vos Proofs/FlowExpr.vok Proofs/FlowExpr.required_vos: Proofs/FlowExpr.v Model.vos Spec/Stack.vos Spec/Exec.vos Proofs/Trace.vos Proofs/InvNames.vos Proofs/InvLabels.vos Proofs/Resolve.vos Proofs/ExecBasic.vos Proofs/FlowBasic.vos Proofs/FlowSem.vos
Proofs/FlowFrag.vo Proofs/FlowFrag.glob Proofs/FlowFrag.v.beautified Proofs/FlowFrag.required_vo: Proofs/FlowFrag.v Model.vo Spec/Stack.vo Spec/Exec.vo Proofs/ExecBasic.vo Proofs/FlowBasic.vo Proofs/FlowSem.vo
Proofs/FlowFrag.vio: Proofs/FlowFrag.v Model.vio Spec/Stack.vio Spec/Exec.vio Proofs/ExecBasic.vio Proofs/FlowBasic.vio Proofs/FlowSem.vio
Proofs/FlowFrag.vos Proofs/FlowFrag.vok Proofs/FlowFrag.required_vos: Proofs/FlowFrag.v Model.vos Spec/Stack.vos Spec/Exec.vos Proofs/ExecBasic.vos Proofs/FlowBasic.vos Proofs/FlowSem.vos
Proofs/FlowSim.vo Proofs/FlowSim.glob Proofs/FlowSim.v.beautified Proofs/FlowSim.required_vo: Proofs/FlowSim.v Model.vo Spec/Stack.vo Spec/Exec.vo Mon/Control.vo Proofs/Trace.vo Proofs/InvNames.vo Proofs/InvLabels.vo Proofs/Resolve.vo Proofs/ExecBasic.vo Proofs/FlowBasic.vo Proofs/FlowSem.vo Proofs/FlowExpr.vo Proofs/FlowFrag.vo
Proofs/FlowSim.vio: Proofs/FlowSim.v Model.vio Spec/Stack.vio Spec/Exec.vio Mon/Control.vio Proofs/Trace.vio Proofs/InvNames.vio Proofs/InvLabels.vio Proofs/Resolve.vio Proofs/ExecBasic.vio Proofs/FlowBasic.vio Proofs/FlowSem.vio Proofs/FlowExpr.vio Proofs/FlowFrag.vio
Proofs/FlowSim.vos Proofs/FlowSim.vok Proofs/FlowSim.required_vos: Proofs/FlowSim.v Model.vos Spec/Stack.vos Spec/Exec.vos Mon/Control.vos Proofs/Trace.vos Proofs/InvNames.vos Proofs/InvLabels.vos Proofs/Resolve.vos Proofs/ExecBasic.vos Proofs/FlowBasic.vos Proofs/FlowSem.vos Proofs/FlowExpr.vos Proofs/FlowFrag.vos
Properties/C05.vo Properties/C05.glob Properties/C05.v.beautified Properties/C05.required_vo: Properties/C05.v Model.vo Spec/Stack.vo Spec/Exec.vo Mon/Control.vo Proofs/FlowBasic.vo Proofs/FlowSim.vo
Properties/C05.vio: Properties/C05.v Model.vio Spec/Stack.vio Spec/Exec.vio Mon/Control.vio Proofs/FlowBasic.vio Proofs/FlowSim.vio
Properties/C05.vos Properties/C05.vok Properties/C05.required_vos: Properties/C05.v Model.vos Spec/Stack.vos Spec/Exec.vos Mon/Control.vos Proofs/FlowBasic.vos Proofs/FlowSim.vos
Proofs/TypedDefs.vo Proofs/TypedDefs.glob Proofs/TypedDefs.v.beautified Proofs/TypedDefs.required_vo: Proofs/TypedDefs.v Model.vo Mon/C04.vo
Proofs/TypedDefs.vio: Proofs/TypedDefs.v Model.vio Mon/C04.vio
Proofs/TypedDefs.vos Proofs/TypedDefs.vok Proofs/TypedDefs.required_vos: Proofs/TypedDefs.v Model.vos Mon/C04.vos
Proofs/TypedMon.vo Proofs/TypedMon.glob Proofs/TypedMon.v.beautified Proofs/TypedMon.required_vo: Proofs/TypedMon.v Model.vo Spec/Stack.vo Spec/Tables.vo Mon/C04.vo
Proofs/TypedMon.vio: Proofs/TypedMon.v Model.vio Spec/Stack.vio Spec/Tables.vio Mon/C04.vio
Proofs/TypedMon.vos Proofs/TypedMon.vok Proofs/TypedMon.required_vos: Proofs/TypedMon.v Model.vos Spec/Stack.vos Spec/Tables.vos Mon/C04.vos
Proofs/TypedWf.vo Proofs/TypedWf.glob Proofs/TypedWf.v.beautified Proofs/TypedWf.required_vo: Proofs/TypedWf.v Model.vo Spec/FirstViolation.vo Mon/C04.vo Proofs/RulesBasic.vo Proofs/SimExpr.vo Proofs/SimDecl.vo Proofs/Simulation.vo Proofs/Driver.vo Proofs/TypedDefs.vo
Proofs/TypedWf.vio: Proofs/TypedWf.v Model.vio Spec/FirstViolation.vio Mon/C04.vio Proofs/RulesBasic.vio Proofs/SimExpr.vio Proofs/SimDecl.vio Proofs/Simulation.vio Proofs/Driver.vio Proofs/TypedDefs.vio
Proofs/TypedWf.vos Proofs/TypedWf.vok Proofs/TypedWf.required_vos: Proofs/TypedWf.v Model.vos Spec/FirstViolation.vos Mon/C04.vos Proofs/RulesBasic.vos Proofs/SimExpr.vos Proofs/SimDecl.vos Proofs/Simulation.vos Proofs/Driver.vos Proofs/TypedDefs.vos
Proofs/Typed.vo Proofs/Typed.glob Proofs/Typed.v.beautified Proofs/Typed.required_vo: Proofs/Typed.v Model.vo Spec/Stack.vo Spec/Tables.vo Spec/FirstViolation.vo Proofs/Reach.vo Proofs/Trace.vo Proofs/InvReg.vo Proofs/InvNames.vo Proofs/DefUse.vo Proofs/TypedDefs.vo Proofs/TypedMon.vo Proofs/TypedWf.vo Proofs/SimExpr.vo Mon/C04.vo
Proofs/Typed.vio: Proofs/Typed.v Model.vio Spec/Stack.vio Spec/Tables.vio Spec/FirstViolation.vio Proofs/Reach.vio Proofs/Trace.vio Proofs/InvReg.vio Proofs/InvNames.vio Proofs/DefUse.vio Proofs/TypedDefs.vio Proofs/TypedMon.vio Proofs/TypedWf.vio Proofs/SimExpr.vio Mon/C04.vio
Proofs/Typed.vos Proofs/Typed.vok Proofs/Typed.required_vos: Proofs/Typed.v Model.vos Spec/Stack.vos Spec/Tables.vos Spec/FirstViolation.vos Proofs/Reach.vos Proofs/Trace.vos Proofs/InvReg.vos Proofs/InvNames.vos Proofs/DefUse.vos Proofs/TypedDefs.vos Proofs/TypedMon.vos Proofs/TypedWf.vos Proofs/SimExpr.vos Mon/C04.vos
Properties/C04.vo Properties/C04.glob Properties/C04.v.beautified Properties/C04.required_vo: Properties/C04.v Model.vo Spec/FirstViolation.vo Mon/C04.vo Proofs/TypedMon.vo Proofs/Typed.vo Proofs/RulesBasic.vo Spec/ResolverTests.vo
Properties/C04.vio: Properties/C04.v Model.vio Spec/FirstViolation.vio Mon/C04.vio Proofs/TypedMon.vio Proofs/Typed.vio Proofs/RulesBasic.vio Spec/ResolverTests.vio
Properties/C04.vos Properties/C04.vok Properties/C04.required_vos: Properties/C04.v Model.vos Spec/FirstViolation.vos Mon/C04.vos Proofs/TypedMon.vos Proofs/Typed.vos Proofs/RulesBasic.vos Spec/ResolverTests.vos
Proofs/RetOnce.vo Proofs/RetOnce.glob Proofs/RetOnce.v.beautified Proofs/RetOnce.required_vo: Proofs/RetOnce.v Model.vo Spec/Stack.vo Spec/Exec.vo Mon/Control.vo Proofs/Trace.vo Proofs/InvNames.vo Proofs/InvLabels.vo Proofs/Resolve.vo Proofs/ExecBasic.vo Proofs/FlowBasic.vo Proofs/FlowSem.vo Proofs/FlowExpr.vo Proofs/FlowFrag.vo Proofs/FlowSim.vo Proofs/InvRet.vo
Proofs/RetOnce.vio: Proofs/RetOnce.v Model.vio Spec/Stack.vio Spec/Exec.vio Mon/Control.vio Proofs/Trace.vio Proofs/InvNames.vio Proofs/InvLabels.vio Proofs/Resolve.vio Proofs/ExecBasic.vio Proofs/FlowBasic.vio Proofs/FlowSem.vio Proofs/FlowExpr.vio Proofs/FlowFrag.vio Proofs/FlowSim.vio Proofs/InvRet.vio
Proofs/RetOnce.vos Proofs/RetOnce.vok Proofs/RetOnce.required_vos: Proofs/RetOnce.v Model.vos Spec/Stack.vos Spec/Exec.vos Mon/Control.vos Proofs/Trace.vos Proofs/InvNames.vos Proofs/InvLabels.vos Proofs/Resolve.vos Proofs/ExecBasic.vos Proofs/FlowBasic.vos Proofs/FlowSem.vos Proofs/FlowExpr.vos Proofs/FlowFrag.vos Proofs/FlowSim.vos Proofs/InvRet.vos
Properties/C11b.vo Properties/C11b.glob Properties/C11b.v.beautified Properties/C11b.required_vo: Properties/C11b.v Model.vo Spec/Stack.vo Mon/Control.vo Proofs/ExecBasic.vo Proofs/RetOnce.vo
Properties/C11b.vio: Properties/C11b.v Model.vio Spec/Stack.vio Mon/Control.vio Proofs/ExecBasic.vio Proofs/RetOnce.vio
Properties/C11b.vos Properties/C11b.vok Properties/C11b.required_vos: Properties/C11b.v Model.vos Spec/Stack.vos Mon/Control.vos Proofs/ExecBasic.vos Proofs/RetOnce.vos
Proofs/ValueTables.vo Proofs/ValueTables.glob Proofs/ValueTables.v.beautified Proofs/ValueTables.required_vo: Proofs/ValueTables.v Model.vo Spec/Stack.vo Spec/Tables.vo Spec/Exec.vo Mon/C12.vo Mon/C18.vo Mon/C18b.vo Proofs/Trace.vo Proofs/InvNames.vo Proofs/MonC12.vo Proofs/InvLabels.vo Proofs/Resolve.vo Proofs/ExecBasic.vo Proofs/FlowBasic.vo Proofs/FlowSem.vo Proofs/FlowExpr.vo Proofs/FlowSim.vo Proofs/Fuel.vo
Proofs/ValueTables.vio: Proofs/ValueTables.v Model.vio Spec/Stack.vio Spec/Tables.vio Spec/Exec.vio Mon/C12.vio Mon/C18.vio Mon/C18b.vio Proofs/Trace.vio Proofs/InvNames.vio Proofs/MonC12.vio Proofs/InvLabels.vio Proofs/Resolve.vio Proofs/ExecBasic.vio Proofs/FlowBasic.vio Proofs/FlowSem.vio Proofs/FlowExpr.vio Proofs/FlowSim.vio Proofs/Fuel.vio
Proofs/ValueTables.vos Proofs/ValueTables.vok Proofs/ValueTables.required_vos: Proofs/ValueTables.v Model.vos Spec/Stack.vos Spec/Tables.vos Spec/Exec.vos Mon/C12.vos Mon/C18.vos Mon/C18b.vos Proofs/Trace.vos Proofs/InvNames.vos Proofs/MonC12.vos Proofs/InvLabels.vos Proofs/Resolve.vos Proofs/ExecBasic.vos Proofs/FlowBasic.vos Proofs/FlowSem.vos Proofs/FlowExpr.vos Proofs/FlowSim.vos Proofs/Fuel.vos
Properties/C18b.vo Properties/C18b.glob Properties/C18b.v.beautified Properties/C18b.required_vo: Properties/C18b.v Model.vo Spec/Stack.vo Spec/Tables.vo Mon/C12.vo Mon/C18.vo Mon/C18b.vo Proofs/ValueTables.vo
Properties/C18b.vio: Properties/C18b.v Model.vio Spec/Stack.vio Spec/Tables.vio Mon/C12.vio Mon/C18.vio Mon/C18b.vio Proofs/ValueTables.vio
Properties/C18b.vos Properties/C18b.vok Properties/C18b.required_vos: Properties/C18b.v Model.vos Spec/Stack.vos Spec/Tables.vos Mon/C12.vos Mon/C18.vos Mon/C18b.vos Proofs/ValueTables.vos
Spec/DenoteTests.vo Spec/DenoteTests.glob Spec/DenoteTests.v.beautified Spec/DenoteTests.required_vo: Spec/DenoteTests.v Model.vo Spec/Stack.vo Mon/C06.vo Mon/C19.vo
Spec/DenoteTests.vio: Spec/DenoteTests.v Model.vio Spec/Stack.vio Mon/C06.vio Mon/C19.vio
Spec/DenoteTests.vos Spec/DenoteTests.vok Spec/DenoteTests.required_vos: Spec/DenoteTests.v Model.vos Spec/Stack.vos Mon/C06.vos Mon/C19.vos
Proofs/DenoteLogic.vo Proofs/DenoteLogic.glob Proofs/DenoteLogic.v.beautified Proofs/DenoteLogic.required_vo: Proofs/DenoteLogic.v Model.vo Spec/Stack.vo Proofs/Reach.vo Proofs/InvReg.vo Proofs/Trace.vo Proofs/InvNames.vo Proofs/DefUse.vo
Proofs/DenoteLogic.vio: Proofs/DenoteLogic.v Model.vio Spec/Stack.vio Proofs/Reach.vio Proofs/InvReg.vio Proofs/Trace.vio Proofs/InvNames.vio Proofs/DefUse.vio
Proofs/DenoteLogic.vos Proofs/DenoteLogic.vok Proofs/DenoteLogic.required_vos: Proofs/DenoteLogic.v Model.vos Spec/Stack.vos Proofs/Reach.vos Proofs/InvReg.vos Proofs/Trace.vos Proofs/InvNames.vos Proofs/DefUse.vos
Proofs/ExtLeaves.vo Proofs/ExtLeaves.glob Proofs/ExtLeaves.v.beautified Proofs/ExtLeaves.required_vo: Proofs/ExtLeaves.v Model.vo Spec/Stack.vo Spec/Tables.vo Spec/Bracket.vo Mon/C19.vo Proofs/Reach.vo Proofs/InvReg.vo Proofs/Trace.vo Proofs/InvNames.vo Proofs/DefUse.vo Proofs/Fold.vo Proofs/InvTree.vo Proofs/DenoteLogic.vo
Proofs/ExtLeaves.vio: Proofs/ExtLeaves.v Model.vio Spec/Stack.vio Spec/Tables.vio Spec/Bracket.vio Mon/C19.vio Proofs/Reach.vio Proofs/InvReg.vio Proofs/Trace.vio Proofs/InvNames.vio Proofs/DefUse.vio Proofs/Fold.vio Proofs/InvTree.vio Proofs/DenoteLogic.vio
Proofs/ExtLeaves.vos Proofs/ExtLeaves.vok Proofs/ExtLeaves.required_vos: Proofs/ExtLeaves.v Model.vos Spec/Stack.vos Spec/Tables.vos Spec/Bracket.vos Mon/C19.vos Proofs/Reach.vos Proofs/InvReg.vos Proofs/Trace.vos Proofs/InvNames.vos Proofs/DefUse.vos Proofs/Fold.vos Proofs/InvTree.vos Proofs/DenoteLogic.vos
Properties/C19.vo Properties/C19.glob Properties/C19.v.beautified Properties/C19.required_vo: Properties/C19.v Model.vo Spec/Stack.vo Spec/DenoteTests.vo Mon/C19.vo Proofs/ExtLeaves.vo
Properties/C19.vio: Properties/C19.v Model.vio Spec/Stack.vio Spec/DenoteTests.vio Mon/C19.vio Proofs/ExtLeaves.vio
Properties/C19.vos Properties/C19.vok Properties/C19.required_vos: Properties/C19.v Model.vos Spec/Stack.vos Spec/DenoteTests.vos Mon/C19.vos Proofs/ExtLeaves.vos
Mon/Summary.vo Mon/Summary.glob Mon/Summary.v.beautified Mon/Summary.required_vo: Mon/Summary.v Model.vo Mon/C09.vo Mon/C12.vo
Mon/Summary.vio: Mon/Summary.v Model.vio Mon/C09.vio Mon/C12.vio
Mon/Summary.vos Mon/Summary.vok Mon/Summary.required_vos: Mon/Summary.v Model.vos Mon/C09.vos Mon/C12.vos
Proofs/DenoteEnv.vo Proofs/DenoteEnv.glob Proofs/DenoteEnv.v.beautified Proofs/DenoteEnv.required_vo: Proofs/DenoteEnv.v Model.vo Spec/Stack.vo Spec/Bracket.vo Mon/C06.vo Proofs/Reach.vo Proofs/InvReg.vo Proofs/Trace.vo Proofs/InvNames.vo Proofs/DefUse.vo Proofs/Fold.vo Proofs/DenoteLogic.vo
Proofs/DenoteEnv.vio: Proofs/DenoteEnv.v Model.vio Spec/Stack.vio Spec/Bracket.vio Mon/C06.vio Proofs/Reach.vio Proofs/InvReg.vio Proofs/Trace.vio Proofs/InvNames.vio Proofs/DefUse.vio Proofs/Fold.vio Proofs/DenoteLogic.vio
Proofs/DenoteEnv.vos Proofs/DenoteEnv.vok Proofs/DenoteEnv.required_vos: Proofs/DenoteEnv.v Model.vos Spec/Stack.vos Spec/Bracket.vos Mon/C06.vos Proofs/Reach.vos Proofs/InvReg.vos Proofs/Trace.vos Proofs/InvNames.vos Proofs/DefUse.vos Proofs/Fold.vos Proofs/DenoteLogic.vos
Proofs/DenoteSrc.vo Proofs/DenoteSrc.glob Proofs/DenoteSrc.v.beautified Proofs/DenoteSrc.required_vo: Proofs/DenoteSrc.v Model.vo Spec/Stack.vo Mon/C06.vo Proofs/InvNames.vo Proofs/DenoteEnv.vo
Proofs/DenoteSrc.vio: Proofs/DenoteSrc.v Model.vio Spec/Stack.vio Mon/C06.vio Proofs/InvNames.vio Proofs/DenoteEnv.vio
Proofs/DenoteSrc.vos Proofs/DenoteSrc.vok Proofs/DenoteSrc.required_vos: Proofs/DenoteSrc.v Model.vos Spec/Stack.vos Mon/C06.vos Proofs/InvNames.vos Proofs/DenoteEnv.vos
Proofs/DenoteExpr.vo Proofs/DenoteExpr.glob Proofs/DenoteExpr.v.beautified Proofs/DenoteExpr.required_vo: Proofs/DenoteExpr.v Model.vo Spec/Stack.vo Spec/Bracket.vo Mon/C06.vo Proofs/Reach.vo Proofs/InvReg.vo Proofs/Trace.vo Proofs/InvNames.vo Proofs/DefUse.vo Proofs/Fold.vo Proofs/DenoteLogic.vo Proofs/DenoteEnv.vo Proofs/DenoteSrc.vo
Proofs/DenoteExpr.vio: Proofs/DenoteExpr.v Model.vio Spec/Stack.vio Spec/Bracket.vio Mon/C06.vio Proofs/Reach.vio Proofs/InvReg.vio Proofs/Trace.vio Proofs/InvNames.vio Proofs/DefUse.vio Proofs/Fold.vio Proofs/DenoteLogic.vio Proofs/DenoteEnv.vio Proofs/DenoteSrc.vio
Proofs/DenoteExpr.vos Proofs/DenoteExpr.vok Proofs/DenoteExpr.required_vos: Proofs/DenoteExpr.v Model.vos Spec/Stack.vos Spec/Bracket.vos Mon/C06.vos Proofs/Reach.vos Proofs/InvReg.vos Proofs/Trace.vos Proofs/InvNames.vos Proofs/DefUse.vos Proofs/Fold.vos Proofs/DenoteLogic.vos Proofs/DenoteEnv.vos Proofs/DenoteSrc.vos
Proofs/Denote.vo Proofs/Denote.glob Proofs/Denote.v.beautified Proofs/Denote.required_vo: Proofs/Denote.v Model.vo Spec/Stack.vo Spec/Bracket.vo Mon/C06.vo Proofs/Reach.vo Proofs/InvReg.vo Proofs/Trace.vo Proofs/InvNames.vo Proofs/DefUse.vo Proofs/Fold.vo Proofs/InvTree.vo Proofs/DenoteLogic.vo Proofs/DenoteEnv.vo Proofs/DenoteSrc.vo Proofs/DenoteExpr.vo
Proofs/Denote.vio: Proofs/Denote.v Model.vio Spec/Stack.vio Spec/Bracket.vio Mon/C06.vio Proofs/Reach.vio Proofs/InvReg.vio Proofs/Trace.vio Proofs/InvNames.vio Proofs/DefUse.vio Proofs/Fold.vio Proofs/InvTree.vio Proofs/DenoteLogic.vio Proofs/DenoteEnv.vio Proofs/DenoteSrc.vio Proofs/DenoteExpr.vio
Proofs/Denote.vos Proofs/Denote.vok Proofs/Denote.required_vos: Proofs/Denote.v Model.vos Spec/Stack.vos Spec/Bracket.vos Mon/C06.vos Proofs/Reach.vos Proofs/InvReg.vos Proofs/Trace.vos Proofs/InvNames.vos Proofs/DefUse.vos Proofs/Fold.vos Proofs/InvTree.vos Proofs/DenoteLogic.vos Proofs/DenoteEnv.vos Proofs/DenoteSrc.vos Proofs/DenoteExpr.vos
Properties/C06.vo Properties/C06.glob Properties/C06.v.beautified Properties/C06.required_vo: Properties/C06.v Model.vo Spec/Stack.vo Spec/DenoteTests.vo Mon/C06.vo Proofs/DefUse.vo Proofs/DenoteLogic.vo Proofs/DenoteEnv.vo Proofs/DenoteSrc.vo Proofs/Denote.vo
Properties/C06.vio: Properties/C06.v Model.vio Spec/Stack.vio Spec/DenoteTests.vio Mon/C06.vio Proofs/DefUse.vio Proofs/DenoteLogic.vio Proofs/DenoteEnv.vio Proofs/DenoteSrc.vio Proofs/Denote.vio
Properties/C06.vos Properties/C06.vok Properties/C06.required_vos: Properties/C06.v Model.vos Spec/Stack.vos Spec/DenoteTests.vos Mon/C06.vos Proofs/DefUse.vos Proofs/DenoteLogic.vos Proofs/DenoteEnv.vos Proofs/DenoteSrc.vos Proofs/Denote.vos
