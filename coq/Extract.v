(** Extraction of the executable model (and, later, spec executables and monitors) to OCaml.
    [ExtrOcamlBasic] only: bool, option, unit, list, prod, sumbool, sumor become native;
    [string], [ascii], [N], [Z], [positive], [nat] stay extracted datatypes.
    No [Extract Constant]. *)
From Coq Require Extraction ExtrOcamlBasic.
From SA Require Import Model.
From SA.Mon Require Import C09 C07 C12 Control C15 C18 C08 Verdict C03 C04 C06 C19 C13 C18b Summary C07x C05h C05s.
From SA.Spec Require Import FirstViolation.
From SA.Spec Require Import Json Codec.
Extraction Language OCaml.
Extraction "model.ml" run binop_name prim_ty_name cmpop_name logicop_name err_kind_name all_err_kind
  chk_C09 chk_C07 judged_C07 chk_C12 chk_C10_unique chk_C10_resolve chk_C11 chk_C05 chk_C15 chk_C18 chk_C08 f7_count chk_C14 chk_C02 chk_C01 chk_C01_quirk wf_b accepted_spec_b first_violation chk_C03 chk_C04 chk_C06 chk_C06_scoped chk_C19 chk_C19_strict chk_C07_shape judged_C07_shape chk_C05hs in_domain_b chk_C18_values summary
  enc_program enc_stack enc_errors enc_gstack.
