(** The JSON codec of the [codec] feature (serde + serde_json) at the TREE level: for every type
    [T] that crosses the codec, [enc_T : T -> json] is the tree [serde_json::to_value] builds and
    [dec_T : json -> option T] is a strict reader of exactly those trees.  Written from the serde
    attributes in [/repo/src/ast.rs] and [/repo/src/types/*.rs]:

    - structs            objects, fields in declaration order;
    - newtype structs    their content ([ValueName(Ident)], [LabelName(String)], [SemanticStack(Vec)],
                         [StateErrorLocation(CodeLocation)]);
    - tuple structs      arrays ([CodeLocation(u32, usize)] = [[line, offset]]);
    - enums              all carry [#[serde(tag = "type", content = "content")]] (adjacent tagging):
                         unit variant [{"type":V}], newtype variant [{"type":V,"content":C}],
                         tuple variant: [C] an array, struct variant: [C] an object;
    - [LetBinding]       a struct with [#[serde(tag = "type")]]: an extra FIRST field
                         ["type":"LetBinding"];
    - [Option]           [null] or the value;   tuples: arrays;   [Box<T>] = [T];   [Vec<T>]: array;
    - [PhantomData]      [null] (field [_marker] of the AST [FunctionStatement]);
    - [Ident]            the hand-written impl: [{"offset","line","fragment","extra":null}];
    - [HashMap<ValueName, StructAttributeType>]: an object keyed by the attribute name.

    Decoders are STRICT: exact field names in exact (serialisation) order, exact tags, no extra
    members.  (serde's derived [Deserialize] also accepts permuted fields; a reader that accepts
    fewer trees is the safe side for a round-trip statement and for mutation testing "wrong tag /
    wrong field -> error".)

    Modelling decisions (also listed in the report of C20):

    D1. Numbers are unbounded ([JNum z]); the decoders check sign ([N]) but not the width of the
        Rust integer type.  The model's [N]/[Z] are unbounded too.
    D2. [prim_val = PV ty bits].  For values that exist in Rust the tree is serde's:
        integers [JNum bits]; [PBool] with bits 0/1: [JBool]; [PChar]: [JChar code];
        [PF32]/[PF64]: [JFloat32 bits]/[JFloat64 bits] (opaque); [PPtr]/[PNone] with bits 0: unit
        variants.  The Coq type also contains values with NO Rust counterpart ([PV PBool 2],
        [PV PPtr 1], [PV PNone 5]).  To keep the round-trip theorem unconditional these are mapped,
        injectively, to trees serde never produces ([{"type":"Bool","content":2}],
        [{"type":"Ptr","content":1}]), and the decoder reads exactly those back.
    D3. [Value.alloca], [Value.malloc] (always false in the analyzer) are written as [false] and
        only [false] is accepted.
    D4. [StructTypes.attributes] is a [HashMap]: serde_json emits its entries in an unspecified
        order.  Here the object lists the entries in the order of the model's normal form
        (declaration index order, see [Sem.v]); comparing with the implementation must treat THIS
        object as a map.  [StructTypes.methods] is always the empty object.  The decoder checks
        that each key equals the [attr_name] inside its entry.
    D5. [err.e_val = None] (text the model leaves unspecified) is written as [null], [Some s] as the
        string.  The Rust field is a [String], so [null] never occurs on the wire.
    D6. The extension leaf.  The harness type is [Ext { ty: Type, tag: u64 }] where [ty] is the
        SEMANTIC type ([ast::Type::into()]), while the model's leaf [EVExt t tag] keeps the AST type
        [t] and converts at use ([sem_of_ty]).  [sem_of_ty] is not injective (it forgets
        identifier locations and shadowed attributes), so the AST-side functions are generic in the
        codec of that one field (Section [WithExt]):
        - [enc_program]/[dec_program]       the field carries the AST type ([enc_ast_ty]); exact
                                            round trip for all programs;
        - [enc_program_wire]                the field carries [enc_sem_ty (sem_of_ty t)], i.e. the
                                            tree the harness really emits.
        Both coincide when the leaf types contain no struct type ([flat_ty], lemma
        [wire_ext_ty_flat] in [Proofs/CodecRT.v]). *)
From SA Require Import Model.
From SA.Spec Require Import Json.
Local Open Scope list_scope.

(** ** The option monad and CPS destructors for trees

    The destructors take a continuation so that the structurally recursive decoders below pass the
    guard checker (the members stay syntactic subterms after unfolding). *)
Definition obind {A B} (m : option A) (f : A -> option B) : option B :=
  match m with Some a => f a | None => None end.
Notation "'let?' x := m 'in' k" := (obind m (fun x => k))
  (at level 200, x pattern, right associativity).

Definition mapM {A B} (f : A -> option B) : list A -> option (list B) :=
  fix go (l : list A) : option (list B) :=
    match l with
    | [] => Some []
    | x :: l' => let? y := f x in let? ys := go l' in Some (y :: ys)
    end.

Definition dec_arr {A} (f : json -> option A) (j : json) : option (list A) :=
  match j with JArr l => mapM f l | _ => None end.

Definition enc_opt {A} (f : A -> json) (o : option A) : json :=
  match o with Some a => f a | None => JNull end.
Definition dec_opt {A} (f : json -> option A) (j : json) : option (option A) :=
  match j with JNull => Some None | _ => option_map Some (f j) end.

Definition obj1 {A} (k1 : string) (j : json) (k : json -> option A) : option A :=
  match j with
  | JObj [(a1, x1)] => if keq a1 k1 then k x1 else None
  | _ => None
  end.
Definition obj2 {A} (k1 k2 : string) (j : json) (k : json -> json -> option A) : option A :=
  match j with
  | JObj [(a1, x1); (a2, x2)] => if keq a1 k1 && keq a2 k2 then k x1 x2 else None
  | _ => None
  end.
Definition obj3 {A} (k1 k2 k3 : string) (j : json)
           (k : json -> json -> json -> option A) : option A :=
  match j with
  | JObj [(a1, x1); (a2, x2); (a3, x3)] =>
      if keq a1 k1 && keq a2 k2 && keq a3 k3 then k x1 x2 x3 else None
  | _ => None
  end.
Definition obj4 {A} (k1 k2 k3 k4 : string) (j : json)
           (k : json -> json -> json -> json -> option A) : option A :=
  match j with
  | JObj [(a1, x1); (a2, x2); (a3, x3); (a4, x4)] =>
      if keq a1 k1 && keq a2 k2 && keq a3 k3 && keq a4 k4 then k x1 x2 x3 x4 else None
  | _ => None
  end.
Definition obj5 {A} (k1 k2 k3 k4 k5 : string) (j : json)
           (k : json -> json -> json -> json -> json -> option A) : option A :=
  match j with
  | JObj [(a1, x1); (a2, x2); (a3, x3); (a4, x4); (a5, x5)] =>
      if keq a1 k1 && keq a2 k2 && keq a3 k3 && keq a4 k4 && keq a5 k5
      then k x1 x2 x3 x4 x5 else None
  | _ => None
  end.
Definition arr2 {A} (j : json) (k : json -> json -> option A) : option A :=
  match j with JArr [x1; x2] => k x1 x2 | _ => None end.

(** Adjacently tagged enum: [k0] handles [{"type":T}], [kc] handles [{"type":T,"content":C}]. *)
Definition tagged {A} (j : json) (k0 : string -> option A) (kc : string -> json -> option A)
  : option A :=
  match j with
  | JObj [(a1, JStr t)] => if keq a1 "type" then k0 t else None
  | JObj [(a1, JStr t); (a2, c)] => if keq a1 "type" && keq a2 "content" then kc t c else None
  | _ => None
  end.
Definition no_unit {A} (t : string) : option A := None.
Definition no_content {A} (t : string) (c : json) : option A := None.
Definition tag_is (t s : string) : bool := String.eqb t s.

(** ** Scalars *)
Definition enc_N (n : N) : json := JNum (Z.of_N n).
Definition dec_N (j : json) : option N :=
  match j with JNum z => if Z.leb 0 z then Some (Z.to_N z) else None | _ => None end.
Definition enc_str (s : string) : json := JStr s.
Definition dec_str (j : json) : option string := match j with JStr s => Some s | _ => None end.
Definition enc_bool (b : bool) : json := JBool b.
Definition dec_bool (j : json) : option bool := match j with JBool b => Some b | _ => None end.

(** ** [ast::Ident]: the hand-written impl *)
Definition enc_ident (i : ident) : json :=
  JObj [("offset", enc_N (ioff i)); ("line", enc_N (iline i)); ("fragment", JStr (iname i));
        ("extra", JNull)].
Definition dec_ident (j : json) : option ident :=
  obj4 "offset" "line" "fragment" "extra" j (fun jo jl jf je =>
    match jf, je with
    | JStr s, JNull => let? off := dec_N jo in let? line := dec_N jl in Some (Id s line off)
    | _, _ => None
    end).

(** ** Unit-only enums: [PrimitiveTypes], [ExpressionOperations], [Condition], [LogicCondition],
    [StateErrorKind].  Variant names come from the generated [Gen/Enums.v]. *)
Definition enc_enum {A} (name : A -> string) (x : A) : json := tag0 (name x).
Definition dec_enum {A} (name : A -> string) (all : list A) (j : json) : option A :=
  tagged j (fun t => find (fun a => String.eqb (name a) t) all) no_content.

Definition enc_prim_ty : prim_ty -> json := enc_enum prim_ty_name.
Definition dec_prim_ty : json -> option prim_ty := dec_enum prim_ty_name all_prim_ty.
Definition enc_binop : binop -> json := enc_enum binop_name.
Definition dec_binop : json -> option binop := dec_enum binop_name all_binop.
Definition enc_cmpop : cmpop -> json := enc_enum cmpop_name.
Definition dec_cmpop : json -> option cmpop := dec_enum cmpop_name all_cmpop.
Definition enc_logicop : logicop -> json := enc_enum logicop_name.
Definition dec_logicop : json -> option logicop := dec_enum logicop_name all_logicop.
Definition enc_err_kind : err_kind -> json := enc_enum err_kind_name.
Definition dec_err_kind : json -> option err_kind := dec_enum err_kind_name all_err_kind.

(** ** [PrimitiveValue] (decision D2) *)
Definition enc_prim_val (p : prim_val) : json :=
  let b := pv_bits p in
  match pv_ty p with
  | PF32 => tagc "F32" (JFloat32 b)
  | PF64 => tagc "F64" (JFloat64 b)
  | PBool =>
      tagc "Bool" (if Z.eqb b 0 then JBool false else if Z.eqb b 1 then JBool true else JNum b)
  | PChar => tagc "Char" (JChar b)
  | PPtr => if Z.eqb b 0 then tag0 "Ptr" else tagc "Ptr" (JNum b)
  | PNone => if Z.eqb b 0 then tag0 "None" else tagc "None" (JNum b)
  | t => tagc (prim_ty_name t) (JNum b)
  end.

Definition dec_prim_val (j : json) : option prim_val :=
  tagged j
    (fun t => if tag_is t "Ptr" then Some (PV PPtr 0)
              else if tag_is t "None" then Some (PV PNone 0) else None)
    (fun t c =>
       let? ty := find (fun a => String.eqb (prim_ty_name a) t) all_prim_ty in
       match ty, c with
       | PF32, JFloat32 b => Some (PV PF32 b)
       | PF64, JFloat64 b => Some (PV PF64 b)
       | PF32, _ | PF64, _ => None
       | PBool, JBool false => Some (PV PBool 0)
       | PBool, JBool true => Some (PV PBool 1)
       | PBool, JNum b => if Z.eqb b 0 || Z.eqb b 1 then None else Some (PV PBool b)
       | PBool, _ => None
       | PChar, JChar b => Some (PV PChar b)
       | PChar, _ => None
       | PPtr, JNum b => if Z.eqb b 0 then None else Some (PV PPtr b)
       | PNone, JNum b => if Z.eqb b 0 then None else Some (PV PNone b)
       | PPtr, _ | PNone, _ => None
       | t', JNum b => Some (PV t' b)
       | _, _ => None
       end).

(** ** [ast::Type], [ast::StructTypes], [ast::StructType] *)
Definition enc_attr (x : ident) (tj : json) : json :=
  JObj [("attr_name", enc_ident x); ("attr_type", tj)].

Fixpoint enc_ast_ty (t : ast_ty) : json :=
  match t with
  | TPrim p => tagc "Primitive" (enc_prim_ty p)
  | TStruct n attrs =>
      tagc "Struct"
        (JObj [("name", enc_ident n);
               ("attributes",
                 JArr (map (fun a => let '(x, t') := a in enc_attr x (enc_ast_ty t')) attrs))])
  | TArray t' n => tagc "Array" (JArr [enc_ast_ty t'; enc_N n])
  end.

(** The reader of a [StructTypes] object, generic in the reader of the attribute types so that
    it serves both inside [dec_ast_ty] and for the top-level [Types] statement. *)
Definition dec_struct_body (dt : json -> option ast_ty) (c : json)
  : option (ident * list (ident * ast_ty)) :=
  obj2 "name" "attributes" c (fun jn ja =>
    let? n := dec_ident jn in
    let? attrs :=
      dec_arr (fun j => obj2 "attr_name" "attr_type" j (fun jx jt =>
                 let? x := dec_ident jx in let? t := dt jt in Some (x, t))) ja in
    Some (n, attrs)).

Fixpoint dec_ast_ty (j : json) : option ast_ty :=
  tagged j no_unit (fun tag c =>
    if tag_is tag "Primitive" then option_map TPrim (dec_prim_ty c)
    else if tag_is tag "Struct" then
      let? na := dec_struct_body dec_ast_ty c in Some (TStruct (fst na) (snd na))
    else if tag_is tag "Array" then
      arr2 c (fun jt jn => let? t := dec_ast_ty jt in let? n := dec_N jn in Some (TArray t n))
    else None).

Definition enc_struct_decl (n : ident) (attrs : list (ident * ast_ty)) : json :=
  JObj [("name", enc_ident n);
        ("attributes", JArr (map (fun a => let '(x, t') := a in enc_attr x (enc_ast_ty t')) attrs))].

(** ** [types::Type], [types::StructTypes], [types::StructAttributeType] (decision D4) *)
Definition enc_sattr (x : string) (i : N) (tj : json) : json :=
  JObj [("attr_name", JStr x); ("attr_index", enc_N i); ("attr_type", tj)].

Fixpoint enc_sem_ty (t : sem_ty) : json :=
  match t with
  | SPrim p => tagc "Primitive" (enc_prim_ty p)
  | SStruct n attrs =>
      tagc "Struct"
        (JObj [("name", JStr n);
               ("attributes",
                 JObj (map (fun a => let '(x, i, t') := a in (x, enc_sattr x i (enc_sem_ty t')))
                           attrs));
               ("methods", JObj [])])
  | SArray t' n => tagc "Array" (JArr [enc_sem_ty t'; enc_N n])
  end.

(** the [StructTypes] object alone (the content of [Type::Struct], and the [type_decl] member of
    the global instruction [Types]) *)
Definition enc_sstruct_body (n : string) (attrs : list (string * N * sem_ty)) : json :=
  JObj [("name", JStr n);
        ("attributes",
          JObj (map (fun a => let '(x, i, t') := a in (x, enc_sattr x i (enc_sem_ty t'))) attrs));
        ("methods", JObj [])].

Fixpoint dec_sem_ty (j : json) : option sem_ty :=
  tagged j no_unit (fun tag c =>
    if tag_is tag "Primitive" then option_map SPrim (dec_prim_ty c)
    else if tag_is tag "Struct" then
      obj3 "name" "attributes" "methods" c (fun jn ja jm =>
        match jn, ja, jm with
        | JStr n, JObj fields, JObj [] =>
            let? attrs :=
              mapM (fun kv : string * json =>
                      let '(key, jv) := kv in
                      obj3 "attr_name" "attr_index" "attr_type" jv (fun jx ji jt =>
                        match jx with
                        | JStr x =>
                            if String.eqb key x then
                              let? i := dec_N ji in let? t := dec_sem_ty jt in Some (x, i, t)
                            else None
                        | _ => None
                        end)) fields in
            Some (SStruct n attrs)
        | _, _, _ => None
        end)
    else if tag_is tag "Array" then
      arr2 c (fun jt jn => let? t := dec_sem_ty jt in let? n := dec_N jn in Some (SArray t n))
    else None).

(** ** Operator chains.  [Expression], [ConstantExpression] (AST and semantic) share the
    right-nested shape [{ VK: head, "operation": null | [op, <same shape>] }]. *)
Fixpoint enc_chain (vk : string) (hv : json) (l : list (binop * json)) : json :=
  match l with
  | [] => JObj [(vk, hv); ("operation", JNull)]
  | (op, v) :: l' => JObj [(vk, hv); ("operation", JArr [enc_binop op; enc_chain vk v l'])]
  end.

(** Reader of the shape into its raw members (for the non-recursive element types). *)
Fixpoint dec_chain_raw (vk : string) (j : json) : option (json * list (binop * json)) :=
  obj2 vk "operation" j (fun jv jo =>
    match jo with
    | JNull => Some (jv, [])
    | JArr [jop; je] =>
        let? op := dec_binop jop in
        let? r := dec_chain_raw vk je in
        Some (jv, (op, fst r) :: snd r)
    | _ => None
    end).

Definition dec_chain {A} (vk : string) (f : json -> option A) (j : json)
  : option (A * list (binop * A)) :=
  let? r := dec_chain_raw vk j in
  let? h := f (fst r) in
  let? l := mapM (fun p : binop * json => let? v := f (snd p) in Some (fst p, v)) (snd r) in
  Some (h, l).

(** ** [ast::ConstantValue], [ast::ConstantExpression] *)
Definition enc_cval (c : cval) : json :=
  match c with
  | CConst x => tagc "Constant" (enc_ident x)
  | CVal v => tagc "Value" (enc_prim_val v)
  end.
Definition dec_cval (j : json) : option cval :=
  tagged j no_unit (fun tag c =>
    if tag_is tag "Constant" then option_map CConst (dec_ident c)
    else if tag_is tag "Value" then option_map CVal (dec_prim_val c)
    else None).

Definition enc_cexpr (e : cexpr) : json :=
  enc_chain "value" (enc_cval (ce_head e)) (map (fun p => (fst p, enc_cval (snd p))) (ce_rest e)).
Definition dec_cexpr (j : json) : option cexpr :=
  let? r := dec_chain "value" dec_cval j in Some (CExpr (fst r) (snd r)).

(** ** The AST from expressions up, generic in the codec of the extension leaf's type (D6) *)
Section WithExt.
  Variable ext_enc : ast_ty -> json.
  Variable ext_dec : json -> option ast_ty.

  (** [Expression], [ExpressionValue], [FunctionCall], [ExpressionStructValue] *)
  Fixpoint genc_expr (e : expr) : json :=
    match e with
    | Expr v rest =>
        enc_chain "expression_value" (genc_val v)
                  (map (fun p => let '(op, v') := p in (op, genc_val v')) rest)
    end
  with genc_val (v : expr_val) : json :=
    match v with
    | EVName x => tagc "ValueName" (enc_ident x)
    | EVPrim p => tagc "PrimitiveValue" (enc_prim_val p)
    | EVCall f args =>
        tagc "FunctionCall" (JObj [("name", enc_ident f); ("parameters", JArr (map genc_expr args))])
    | EVField x a => tagc "StructValue" (JObj [("name", enc_ident x); ("attribute", enc_ident a)])
    | EVSub e => tagc "Expression" (genc_expr e)
    | EVExt t tag => tagc "ExtendedExpression" (JObj [("ty", ext_enc t); ("tag", enc_N tag)])
    end.

  Fixpoint gdec_expr (j : json) : option expr :=
    obj2 "expression_value" "operation" j (fun jv jo =>
      let? v := gdec_val jv in
      match jo with
      | JNull => Some (Expr v [])
      | JArr [jop; je] =>
          let? op := dec_binop jop in
          let? e := gdec_expr je in
          match e with Expr v' rest => Some (Expr v ((op, v') :: rest)) end
      | _ => None
      end)
  with gdec_val (j : json) : option expr_val :=
    tagged j no_unit (fun tag c =>
      if tag_is tag "ValueName" then option_map EVName (dec_ident c)
      else if tag_is tag "PrimitiveValue" then option_map EVPrim (dec_prim_val c)
      else if tag_is tag "FunctionCall" then
        obj2 "name" "parameters" c (fun jf ja =>
          let? f := dec_ident jf in let? args := dec_arr gdec_expr ja in Some (EVCall f args))
      else if tag_is tag "StructValue" then
        obj2 "name" "attribute" c (fun jx ja =>
          let? x := dec_ident jx in let? a := dec_ident ja in Some (EVField x a))
      else if tag_is tag "Expression" then option_map EVSub (gdec_expr c)
      else if tag_is tag "ExtendedExpression" then
        obj2 "ty" "tag" c (fun jt jg =>
          let? t := ext_dec jt in let? g := dec_N jg in Some (EVExt t g))
      else None).

  (** [ExpressionCondition], [ExpressionLogicCondition], [IfCondition] *)
  Fixpoint genc_lcond (c : lcond) : json :=
    match c with
    | LC l op r next =>
        JObj [("left", JObj [("left", genc_expr l); ("condition", enc_cmpop op);
                             ("right", genc_expr r)]);
              ("right", match next with
                        | None => JNull
                        | Some (lop, c') => JArr [enc_logicop lop; genc_lcond c']
                        end)]
    end.

  Fixpoint gdec_lcond (j : json) : option lcond :=
    obj2 "left" "right" j (fun jl jn =>
      obj3 "left" "condition" "right" jl (fun ja jc jb =>
        let? a := gdec_expr ja in
        let? op := dec_cmpop jc in
        let? b := gdec_expr jb in
        match jn with
        | JNull => Some (LC a op b None)
        | JArr [jlop; jc'] =>
            let? lop := dec_logicop jlop in
            let? c' := gdec_lcond jc' in
            Some (LC a op b (Some (lop, c')))
        | _ => None
        end)).

  Definition genc_cond (c : cond) : json :=
    match c with
    | CSingle e => tagc "Single" (genc_expr e)
    | CLogic l => tagc "Logic" (genc_lcond l)
    end.
  Definition gdec_cond (j : json) : option cond :=
    tagged j no_unit (fun tag c =>
      if tag_is tag "Single" then option_map CSingle (gdec_expr c)
      else if tag_is tag "Logic" then option_map CLogic (gdec_lcond c)
      else None).

  (** The four statement enums (one Coq type; the shared variants have identical shapes),
      [LetBinding], [Binding], [FunctionCall], [IfStatement], [IfBodyStatements]. *)
  Fixpoint genc_stmt (s : stmt) : json :=
    match s with
    | SLet x m ty e =>
        tagc "LetBinding"
          (JObj [("type", JStr "LetBinding"); ("name", enc_ident x); ("mutable", JBool m);
                 ("value_type", enc_opt enc_ast_ty ty); ("value", genc_expr e)])
    | SBind x e => tagc "Binding" (JObj [("name", enc_ident x); ("value", genc_expr e)])
    | SCall f args =>
        tagc "FunctionCall" (JObj [("name", enc_ident f); ("parameters", JArr (map genc_expr args))])
    | SIf i => tagc "If" (genc_if i)
    | SLoop body => tagc "Loop" (JArr (map genc_stmt body))
    | SRet e => tagc "Return" (genc_expr e)
    | SExprStmt e => tagc "Expression" (genc_expr e)
    | SBreak => tag0 "Break"
    | SContinue => tag0 "Continue"
    end
  with genc_if (i : ifstmt) : json :=
    match i with
    | IfS c body els elif =>
        JObj [("condition", genc_cond c);
              ("body", genc_ifbody body);
              ("else_statement", match els with Some b => genc_ifbody b | None => JNull end);
              ("else_if_statement", match elif with Some i' => genc_if i' | None => JNull end)]
    end
  with genc_ifbody (b : ifbody) : json :=
    match b with
    | IBIf ss => tagc "If" (JArr (map genc_stmt ss))
    | IBLoop ss => tagc "Loop" (JArr (map genc_stmt ss))
    end.

  Fixpoint gdec_stmt (j : json) : option stmt :=
    tagged j
      (fun tag => if tag_is tag "Break" then Some SBreak
                  else if tag_is tag "Continue" then Some SContinue else None)
      (fun tag c =>
        if tag_is tag "LetBinding" then
          obj5 "type" "name" "mutable" "value_type" "value" c (fun jt jx jm jty je =>
            match jt with
            | JStr t =>
                if tag_is t "LetBinding" then
                  let? x := dec_ident jx in
                  let? m := dec_bool jm in
                  let? ty := dec_opt dec_ast_ty jty in
                  let? e := gdec_expr je in
                  Some (SLet x m ty e)
                else None
            | _ => None
            end)
        else if tag_is tag "Binding" then
          obj2 "name" "value" c (fun jx je =>
            let? x := dec_ident jx in let? e := gdec_expr je in Some (SBind x e))
        else if tag_is tag "FunctionCall" then
          obj2 "name" "parameters" c (fun jf ja =>
            let? f := dec_ident jf in let? args := dec_arr gdec_expr ja in Some (SCall f args))
        else if tag_is tag "If" then option_map SIf (gdec_if c)
        else if tag_is tag "Loop" then option_map SLoop (dec_arr gdec_stmt c)
        else if tag_is tag "Return" then option_map SRet (gdec_expr c)
        else if tag_is tag "Expression" then option_map SExprStmt (gdec_expr c)
        else None)
  with gdec_if (j : json) : option ifstmt :=
    obj4 "condition" "body" "else_statement" "else_if_statement" j (fun jc jb je ji =>
      let? c := gdec_cond jc in
      let? b := gdec_ifbody jb in
      let? els := dec_opt gdec_ifbody je in
      let? elif := dec_opt gdec_if ji in
      Some (IfS c b els elif))
  with gdec_ifbody (j : json) : option ifbody :=
    tagged j no_unit (fun tag c =>
      if tag_is tag "If" then option_map IBIf (dec_arr gdec_stmt c)
      else if tag_is tag "Loop" then option_map IBLoop (dec_arr gdec_stmt c)
      else None).

  (** [FunctionParameter], [FunctionStatement] (with its [PhantomData] member) *)
  Definition enc_param (p : ident * ast_ty) : json :=
    JObj [("name", enc_ident (fst p)); ("parameter_type", enc_ast_ty (snd p))].
  Definition dec_param (j : json) : option (ident * ast_ty) :=
    obj2 "name" "parameter_type" j (fun jx jt =>
      let? x := dec_ident jx in let? t := dec_ast_ty jt in Some (x, t)).

  Definition genc_fn (f : fn_decl) : json :=
    JObj [("name", enc_ident (fn_name f));
          ("parameters", JArr (map enc_param (fn_params f)));
          ("result_type", enc_ast_ty (fn_result f));
          ("body", JArr (map genc_stmt (fn_body f)));
          ("_marker", JNull)].
  Definition gdec_fn (j : json) : option fn_decl :=
    obj5 "name" "parameters" "result_type" "body" "_marker" j (fun jn jp jr jb jm =>
      match jm with
      | JNull =>
          let? n := dec_ident jn in
          let? ps := dec_arr dec_param jp in
          let? r := dec_ast_ty jr in
          let? b := dec_arr gdec_stmt jb in
          Some (Fn n ps r b)
      | _ => None
      end).

  (** [MainStatement], [Constant], [Main] *)
  Definition genc_top (t : top) : json :=
    match t with
    | TImport path => tagc "Import" (JArr (map enc_ident path))
    | TStructDecl n attrs => tagc "Types" (enc_struct_decl n attrs)
    | TConst n ty v =>
        tagc "Constant" (JObj [("name", enc_ident n); ("constant_type", enc_ast_ty ty);
                               ("constant_value", enc_cexpr v)])
    | TFn f => tagc "Function" (genc_fn f)
    end.
  Definition gdec_top (j : json) : option top :=
    tagged j no_unit (fun tag c =>
      if tag_is tag "Import" then option_map TImport (dec_arr dec_ident c)
      else if tag_is tag "Types" then
        let? na := dec_struct_body dec_ast_ty c in Some (TStructDecl (fst na) (snd na))
      else if tag_is tag "Constant" then
        obj3 "name" "constant_type" "constant_value" c (fun jn jt jv =>
          let? n := dec_ident jn in
          let? t := dec_ast_ty jt in
          let? v := dec_cexpr jv in
          Some (TConst n t v))
      else if tag_is tag "Function" then option_map TFn (gdec_fn c)
      else None).

  Definition genc_program (p : program) : json := JArr (map genc_top p).
  Definition gdec_program (j : json) : option program := dec_arr gdec_top j.
End WithExt.

(** *** Instance 1: the leaf carries the AST type.  These are THE codec functions of C20. *)
Definition enc_expr : expr -> json := genc_expr enc_ast_ty.
Definition dec_expr : json -> option expr := gdec_expr dec_ast_ty.
Definition enc_expr_val : expr_val -> json := genc_val enc_ast_ty.
Definition dec_expr_val : json -> option expr_val := gdec_val dec_ast_ty.
Definition enc_lcond : lcond -> json := genc_lcond enc_ast_ty.
Definition dec_lcond : json -> option lcond := gdec_lcond dec_ast_ty.
Definition enc_cond : cond -> json := genc_cond enc_ast_ty.
Definition dec_cond : json -> option cond := gdec_cond dec_ast_ty.
Definition enc_stmt : stmt -> json := genc_stmt enc_ast_ty.
Definition dec_stmt : json -> option stmt := gdec_stmt dec_ast_ty.
Definition enc_ifstmt : ifstmt -> json := genc_if enc_ast_ty.
Definition dec_ifstmt : json -> option ifstmt := gdec_if dec_ast_ty.
Definition enc_ifbody : ifbody -> json := genc_ifbody enc_ast_ty.
Definition dec_ifbody : json -> option ifbody := gdec_ifbody dec_ast_ty.
Definition enc_fn_decl : fn_decl -> json := genc_fn enc_ast_ty.
Definition dec_fn_decl : json -> option fn_decl := gdec_fn dec_ast_ty.
Definition enc_top : top -> json := genc_top enc_ast_ty.
Definition dec_top : json -> option top := gdec_top dec_ast_ty.
Definition enc_program : program -> json := genc_program enc_ast_ty.
Definition dec_program : json -> option program := gdec_program dec_ast_ty.

(** *** Instance 2: the tree the harness emits: the leaf carries [Type::from(ast_ty)]. *)
Definition wire_ext_ty (t : ast_ty) : json := enc_sem_ty (sem_of_ty t).
Definition enc_expr_wire : expr -> json := genc_expr wire_ext_ty.
Definition enc_stmt_wire : stmt -> json := genc_stmt wire_ext_ty.
Definition enc_fn_decl_wire : fn_decl -> json := genc_fn wire_ext_ty.
Definition enc_top_wire : top -> json := genc_top wire_ext_ty.
Definition enc_program_wire : program -> json := genc_program wire_ext_ty.

(** ** The output side: [Value], [ExpressionResult], [Constant], [Function] *)
Definition enc_value (v : value) : json :=
  JObj [("inner_name", JStr (v_inner v)); ("inner_type", enc_sem_ty (v_ty v));
        ("mutable", JBool (v_mut v)); ("alloca", JBool false); ("malloc", JBool false)].
Definition dec_value (j : json) : option value :=
  obj5 "inner_name" "inner_type" "mutable" "alloca" "malloc" j (fun jn jt jm ja jl =>
    match jn, jm, ja, jl with
    | JStr n, JBool m, JBool false, JBool false =>
        let? t := dec_sem_ty jt in Some (Value n t m)
    | _, _, _, _ => None
    end).

Definition enc_eres_val (r : eres_val) : json :=
  match r with
  | RReg n => tagc "Register" (enc_N n)
  | RPrim p => tagc "PrimitiveValue" (enc_prim_val p)
  end.
Definition dec_eres_val (j : json) : option eres_val :=
  tagged j no_unit (fun tag c =>
    if tag_is tag "Register" then option_map RReg (dec_N c)
    else if tag_is tag "PrimitiveValue" then option_map RPrim (dec_prim_val c)
    else None).

Definition enc_eres (e : eres) : json :=
  JObj [("expr_type", enc_sem_ty (r_ty e)); ("expr_value", enc_eres_val (r_val e))].
Definition dec_eres (j : json) : option eres :=
  obj2 "expr_type" "expr_value" j (fun jt jv =>
    let? t := dec_sem_ty jt in let? v := dec_eres_val jv in Some (ERes t v)).

Definition enc_cval_sem (c : cval_sem) : json :=
  match c with
  | CCs n => tagc "Constant" (JStr n)
  | CVs v => tagc "Value" (enc_prim_val v)
  end.
Definition dec_cval_sem (j : json) : option cval_sem :=
  tagged j no_unit (fun tag c =>
    if tag_is tag "Constant" then option_map CCs (dec_str c)
    else if tag_is tag "Value" then option_map CVs (dec_prim_val c)
    else None).

Definition enc_const_sem (c : const_sem) : json :=
  JObj [("name", JStr (c_name c)); ("constant_type", enc_sem_ty (c_ty c));
        ("constant_value",
          enc_chain "value" (enc_cval_sem (c_head c))
                    (map (fun p => (fst p, enc_cval_sem (snd p))) (c_rest c)))].
Definition dec_const_sem (j : json) : option const_sem :=
  obj3 "name" "constant_type" "constant_value" j (fun jn jt jv =>
    let? n := dec_str jn in
    let? t := dec_sem_ty jt in
    let? r := dec_chain "value" dec_cval_sem jv in
    Some (Const n t (fst r) (snd r))).

Definition enc_func_sem (f : func_sem) : json :=
  JObj [("inner_name", JStr (f_name f)); ("inner_type", enc_sem_ty (f_ty f));
        ("parameters", JArr (map enc_sem_ty (f_params f)))].
Definition dec_func_sem (j : json) : option func_sem :=
  obj3 "inner_name" "inner_type" "parameters" j (fun jn jt jp =>
    let? n := dec_str jn in
    let? t := dec_sem_ty jt in
    let? ps := dec_arr dec_sem_ty jp in
    Some (Func n t ps)).

(** ** [SemanticStackContext] (the 18 body variants and the extension's [Ins { tag, reg }]) and
    [SemanticStack] *)
Definition enc_instr (i : instr) : json :=
  match i with
  | IExprValue v r =>
      tagc "ExpressionValue" (JObj [("expression", enc_value v); ("register_number", enc_N r)])
  | IExprConst c r =>
      tagc "ExpressionConst" (JObj [("expression", enc_const_sem c); ("register_number", enc_N r)])
  | IExprStruct v idx r =>
      tagc "ExpressionStructValue"
        (JObj [("expression", enc_value v); ("index", enc_N idx); ("register_number", enc_N r)])
  | IExprOp op l r reg =>
      tagc "ExpressionOperation"
        (JObj [("operation", enc_binop op); ("left_value", enc_eres l); ("right_value", enc_eres r);
               ("register_number", enc_N reg)])
  | ICall f args r =>
      tagc "Call" (JObj [("call", enc_func_sem f); ("params", JArr (map enc_eres args));
                         ("register_number", enc_N r)])
  | ILet v e => tagc "LetBinding" (JObj [("let_decl", enc_value v); ("expr_result", enc_eres e)])
  | IBind v e => tagc "Binding" (JObj [("val", enc_value v); ("expr_result", enc_eres e)])
  | IFnRet e => tagc "ExpressionFunctionReturn" (JObj [("expr_result", enc_eres e)])
  | IFnRetLabel e => tagc "ExpressionFunctionReturnWithLabel" (JObj [("expr_result", enc_eres e)])
  | ISetLabel l => tagc "SetLabel" (JObj [("label", JStr l)])
  | IJumpTo l => tagc "JumpTo" (JObj [("label", JStr l)])
  | IIfCondExpr e lb le =>
      tagc "IfConditionExpression"
        (JObj [("expr_result", enc_eres e); ("label_if_begin", JStr lb); ("label_if_end", JStr le)])
  | ICondExpr l r c reg =>
      tagc "ConditionExpression"
        (JObj [("left_result", enc_eres l); ("right_result", enc_eres r); ("condition", enc_cmpop c);
               ("register_number", enc_N reg)])
  | IJumpFnRet e => tagc "JumpFunctionReturn" (JObj [("expr_result", enc_eres e)])
  | ILogic op l r reg =>
      tagc "LogicCondition"
        (JObj [("logic_condition", enc_logicop op); ("left_register_result", enc_N l);
               ("right_register_result", enc_N r); ("register_number", enc_N reg)])
  | IIfCondLogic lb le r =>
      tagc "IfConditionLogic"
        (JObj [("label_if_begin", JStr lb); ("label_if_end", JStr le); ("result_register", enc_N r)])
  | IFnArg v pn pt =>
      tagc "FunctionArg"
        (JObj [("value", enc_value v);
               ("func_arg", JObj [("name", JStr pn); ("parameter_type", enc_sem_ty pt)])])
  (* the harness instruction type follows the library's own convention: an adjacently tagged enum
     [Ins::Mark { tag, reg }] (so that a change of the tagging of the enclosing enum is felt) *)
  | IExt tag r =>
      tagc "ExtendedExpression" (tagc "Mark" (JObj [("tag", enc_N tag); ("reg", enc_N r)]))
  end.

Definition dec_instr (j : json) : option instr :=
  tagged j no_unit (fun tag c =>
    if tag_is tag "ExpressionValue" then
      obj2 "expression" "register_number" c (fun jv jr =>
        let? v := dec_value jv in let? r := dec_N jr in Some (IExprValue v r))
    else if tag_is tag "ExpressionConst" then
      obj2 "expression" "register_number" c (fun jc jr =>
        let? k := dec_const_sem jc in let? r := dec_N jr in Some (IExprConst k r))
    else if tag_is tag "ExpressionStructValue" then
      obj3 "expression" "index" "register_number" c (fun jv ji jr =>
        let? v := dec_value jv in let? i := dec_N ji in let? r := dec_N jr in
        Some (IExprStruct v i r))
    else if tag_is tag "ExpressionOperation" then
      obj4 "operation" "left_value" "right_value" "register_number" c (fun jo jl jr jn =>
        let? op := dec_binop jo in let? l := dec_eres jl in let? r := dec_eres jr in
        let? n := dec_N jn in Some (IExprOp op l r n))
    else if tag_is tag "Call" then
      obj3 "call" "params" "register_number" c (fun jf ja jr =>
        let? f := dec_func_sem jf in let? args := dec_arr dec_eres ja in let? r := dec_N jr in
        Some (ICall f args r))
    else if tag_is tag "LetBinding" then
      obj2 "let_decl" "expr_result" c (fun jv je =>
        let? v := dec_value jv in let? e := dec_eres je in Some (ILet v e))
    else if tag_is tag "Binding" then
      obj2 "val" "expr_result" c (fun jv je =>
        let? v := dec_value jv in let? e := dec_eres je in Some (IBind v e))
    else if tag_is tag "ExpressionFunctionReturn" then
      obj1 "expr_result" c (fun je => option_map IFnRet (dec_eres je))
    else if tag_is tag "ExpressionFunctionReturnWithLabel" then
      obj1 "expr_result" c (fun je => option_map IFnRetLabel (dec_eres je))
    else if tag_is tag "SetLabel" then
      obj1 "label" c (fun jl => option_map ISetLabel (dec_str jl))
    else if tag_is tag "JumpTo" then
      obj1 "label" c (fun jl => option_map IJumpTo (dec_str jl))
    else if tag_is tag "IfConditionExpression" then
      obj3 "expr_result" "label_if_begin" "label_if_end" c (fun je jb jn =>
        let? e := dec_eres je in let? b := dec_str jb in let? n := dec_str jn in
        Some (IIfCondExpr e b n))
    else if tag_is tag "ConditionExpression" then
      obj4 "left_result" "right_result" "condition" "register_number" c (fun jl jr jc jn =>
        let? l := dec_eres jl in let? r := dec_eres jr in let? k := dec_cmpop jc in
        let? n := dec_N jn in Some (ICondExpr l r k n))
    else if tag_is tag "JumpFunctionReturn" then
      obj1 "expr_result" c (fun je => option_map IJumpFnRet (dec_eres je))
    else if tag_is tag "LogicCondition" then
      obj4 "logic_condition" "left_register_result" "right_register_result" "register_number" c
        (fun jo jl jr jn =>
          let? op := dec_logicop jo in let? l := dec_N jl in let? r := dec_N jr in
          let? n := dec_N jn in Some (ILogic op l r n))
    else if tag_is tag "IfConditionLogic" then
      obj3 "label_if_begin" "label_if_end" "result_register" c (fun jb je jr =>
        let? b := dec_str jb in let? e := dec_str je in let? r := dec_N jr in
        Some (IIfCondLogic b e r))
    else if tag_is tag "FunctionArg" then
      obj2 "value" "func_arg" c (fun jv jp =>
        let? v := dec_value jv in
        obj2 "name" "parameter_type" jp (fun jn jt =>
          let? n := dec_str jn in let? t := dec_sem_ty jt in Some (IFnArg v n t)))
    else if tag_is tag "ExtendedExpression" then
      tagged c no_unit (fun tag2 c2 =>
        if tag_is tag2 "Mark" then
          obj2 "tag" "reg" c2 (fun jt jr =>
            let? t := dec_N jt in let? r := dec_N jr in Some (IExt t r))
        else None)
    else None).

Definition enc_stack (c : list instr) : json := JArr (map enc_instr c).
Definition dec_stack (j : json) : option (list instr) := dec_arr dec_instr j.

(** ** [StateErrorResult], [StateErrorLocation(CodeLocation(line, offset))] (decision D5) *)
Definition enc_loc (l : loc) : json := JArr [enc_N (fst l); enc_N (snd l)].
Definition dec_loc (j : json) : option loc :=
  arr2 j (fun jl jo => let? l := dec_N jl in let? o := dec_N jo in Some (l, o)).

Definition enc_err (e : err) : json :=
  JObj [("kind", enc_err_kind (e_kind e)); ("value", enc_opt enc_str (e_val e));
        ("location", enc_loc (e_loc e))].
Definition dec_err (j : json) : option err :=
  obj3 "kind" "value" "location" j (fun jk jv jl =>
    let? k := dec_err_kind jk in
    let? v := dec_opt dec_str jv in
    let? l := dec_loc jl in
    Some (Err k v l)).

Definition enc_errors (es : list err) : json := JArr (map enc_err es).
Definition dec_errors (j : json) : option (list err) := dec_arr dec_err j.

(** ** The global stack ([GlobalSemanticContext]): [Types], [Constant], [FunctionDeclaration].

    PARTIAL with respect to the wire shape, by the model's choice (DESIGN.md 4.6): the Rust
    [FunctionDeclaration { fn_decl: FunctionStatement }] carries a mirror of the whole function
    body (member ["body"]); the model's [GFnDecl] keeps the signature only.  [enc_ginstr] writes
    the [fn_decl] object WITHOUT the ["body"] member: a comparison with the implementation has to
    drop that member (the harness compares the mirror in place).  [Types] and [Constant] are exact.
    [GTypes t] with [t] not a struct has no Rust counterpart; it is mapped injectively to a tree
    serde never produces (the whole tagged [Type] in place of the [StructTypes] object). *)
Definition enc_sparam (p : string * sem_ty) : json :=
  JObj [("name", JStr (fst p)); ("parameter_type", enc_sem_ty (snd p))].
Definition dec_sparam (j : json) : option (string * sem_ty) :=
  obj2 "name" "parameter_type" j (fun jn jt =>
    let? n := dec_str jn in let? t := dec_sem_ty jt in Some (n, t)).

Definition enc_ginstr (g : ginstr) : json :=
  match g with
  | GTypes t =>
      tagc "Types"
        (JObj [("type_decl", match t with
                             | SStruct n attrs => enc_sstruct_body n attrs
                             | _ => enc_sem_ty t
                             end)])
  | GConst c => tagc "Constant" (JObj [("const_decl", enc_const_sem c)])
  | GFnDecl n ps r =>
      tagc "FunctionDeclaration"
        (JObj [("fn_decl", JObj [("name", JStr n); ("parameters", JArr (map enc_sparam ps));
                                 ("result_type", enc_sem_ty r)])])
  end.

Definition dec_ginstr (j : json) : option ginstr :=
  tagged j no_unit (fun tag c =>
    if tag_is tag "Types" then
      obj1 "type_decl" c (fun jb =>
        match dec_sem_ty (tagc "Struct" jb) with
        | Some t => Some (GTypes t)
        | None =>
            match dec_sem_ty jb with
            | Some (SStruct _ _) | None => None
            | Some t => Some (GTypes t)
            end
        end)
    else if tag_is tag "Constant" then
      obj1 "const_decl" c (fun jc => option_map GConst (dec_const_sem jc))
    else if tag_is tag "FunctionDeclaration" then
      obj1 "fn_decl" c (fun jf =>
        obj3 "name" "parameters" "result_type" jf (fun jn jp jr =>
          let? n := dec_str jn in
          let? ps := dec_arr dec_sparam jp in
          let? r := dec_sem_ty jr in
          Some (GFnDecl n ps r)))
    else None).

Definition enc_gstack (c : list ginstr) : json := JArr (map enc_ginstr c).
Definition dec_gstack (j : json) : option (list ginstr) := dec_arr dec_ginstr j.
