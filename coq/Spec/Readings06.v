(** A Prop-level reading of C06 ("expanding register operands through the instructions that
    define them, the value bound by each let, stored by each assignment, passed as each call
    argument, returned by each return and tested by each condition is the source expression
    itself").  Definitions only; the proofs that the token comparison of the monitor of
    [Mon/C06.v] decides exactly these relations are in [Proofs/Readings06.v]; the statements are
    collected in [Properties/C06r.v].

    From [Mon/C06.v] this file takes the DATA the relations speak about -- the denotation trees
    [dt] and the use sites [usite] that the monitor reads back from a stack with [scan], the
    declarations of a stack [stack_decls], source scopes [scope] -- and four lookups
    ([decl_index], [nthN], [sc_find], [param_scope]).  It does not mention tokens.

    [Denotes d e]: "the denotation tree [d] is the source expression [e] modulo bracketing":
    - the same leaves in the same order and the same operators in the same order ([dflat],
      [eflat]: both sides are read as the sequence  leaf op leaf op ... leaf  in which the
      nesting of the binary tree [DOp] on the one side and explicit brackets [EVSub] on the
      other have been forgotten; which nesting the analyzer must choose is C07);
    - a call denotes a call of the same function with pointwise-denoting arguments;
    - a literal denotes itself, an extension leaf the leaf with the same tag;
    - a read / a field read denotes the source name of its declaration (below). *)
From SA Require Import Model.
From SA.Mon Require Import C06.
Local Open Scope list_scope.

(** ** Both sides as sequences of leaves and operators *)

(** the stack side: [DOp] nodes are flattened in order; everything else is a leaf *)
Inductive ditem := DLeaf (d : dt) | DOper (o : binop).

Fixpoint dflat (d : dt) : list ditem :=
  match d with
  | DOp o l r => dflat l ++ DOper o :: dflat r
  | _ => [DLeaf d]
  end.

(** the source side: a chain is its values separated by its operators; an explicit bracket
    [EVSub e] is TRANSPARENT: it contributes the sequence of [e] *)
Inductive eitem := ELeaf (v : expr_val) | EOper (o : binop).

Fixpoint eflat (e : expr) : list eitem :=
  match e with
  | Expr v rest => vflat v ++ flat_map (fun ov => EOper (fst ov) :: vflat (snd ov)) rest
  end
with vflat (v : expr_val) : list eitem :=
  match v with
  | EVSub e => eflat e
  | _ => [ELeaf v]
  end.

Section Reading.
  (** [sm = false]: the reading of [chk_C06] (names are compared by their source name);
      [sm = true]: the reading of [chk_C06_scoped] (a read must also come from the declaration
      that lexical scoping selects; this overlaps C03). *)
  Variable sm : bool.
  (** the declarations of the stack in stack order ([FunctionArg]s, [LetBinding]s): internal
      name and type *)
  Variable D : list (string * sem_ty).
  (** the source names of the declarations of the source, in the order in which they are
      analysed: the k-th declaring instruction belongs to the k-th declaration *)
  Variable NM : list string.
  (** the declarations in scope at the use site, innermost first: source name, number *)
  Variable sc : scope.

  (** "[inner] is the internal name of a declaration whose source name is [x]": its first
      declaring instruction is the [k]-th of the stack and the [k]-th declaration of the source
      declares [x]; under [sm] it is moreover the declaration that scoping selects for [x]
      at this site *)
  Definition names (inner : string) (k : N) (x : string) : Prop :=
    decl_index inner D 0 = Some k /\ nthN NM k = Some x.

  Inductive Denotes : dt -> expr -> Prop :=
  (** same leaves, same operators, same order *)
  | Den_sequence d e :
      Forall2 DenItem (dflat d) (eflat e) -> Denotes d e

  with DenItem : ditem -> eitem -> Prop :=
  | DI_operator o :
      DenItem (DOper o) (EOper o)
  | DI_leaf d v :
      DenLeaf d v -> DenItem (DLeaf d) (ELeaf v)

  with DenLeaf : dt -> expr_val -> Prop :=
  (** a literal operand is the literal *)
  | DL_literal p :
      DenLeaf (DLit p) (EVPrim p)
  (** [ExpressionValue]: the value read is a declaration of the name [x] *)
  | DL_read inner k x :
      names inner k (iname x) ->
      (sm = true -> sc_find (iname x) sc = Some k) ->
      DenLeaf (DRead inner) (EVName x)
  (** [ExpressionConst]: the constant read has the name [x] (under [sm]: and no declaration of
      [x] is in scope) *)
  | DL_constant x :
      (sm = true -> sc_find (iname x) sc = None) ->
      DenLeaf (DConst (iname x)) (EVName x)
  (** [ExpressionStructValue]: the value is a declaration of the name [x]; the index is the one
      the attribute [a] has in the struct type of the declaration [k'] that scoping selects
      for [x] (under [sm]: and that is the declaration read) *)
  | DL_field inner idx k x a k' dn sn attrs t :
      names inner k (iname x) ->
      sc_find (iname x) sc = Some k' ->
      nthN D k' = Some (dn, SStruct sn attrs) ->
      attr_lookup (iname a) attrs = Some (idx, t) ->
      (sm = true -> k = k') ->
      DenLeaf (DField inner idx) (EVField x a)
  (** [Call]: the same function, pointwise-denoting arguments *)
  | DL_call f args es :
      Forall2 Denotes args es ->
      DenLeaf (DCall (iname f) args) (EVCall f es)
  (** [ExtendedExpression]: the leaf with the same tag *)
  | DL_extension tag t :
      DenLeaf (DExt tag) (EVExt t tag).
  (** no rule for [DCmp], [DLogic] (conditions are not values) and [DUnknown] (an operand that
      names a register nothing defined) *)

  (** ** Conditions.  A logic condition [l cmp r (op next)?] nests to the right. *)
  Inductive DenotesCond : dt -> lcond -> Prop :=
  | DC_last dl dr l cmp r :
      Denotes dl l -> Denotes dr r ->
      DenotesCond (DCmp cmp dl dr) (LC l cmp r None)
  | DC_link dl dr dn l cmp r op next :
      Denotes dl l -> Denotes dr r -> DenotesCond dn next ->
      DenotesCond (DLogic op (DCmp cmp dl dr) dn) (LC l cmp r (Some (op, next))).
End Reading.

(** ** Use sites *)

(** a use site of the source: what is used, and the scope it is used in *)
Inductive ssite :=
| SLetSite (x : string) (k : N) (sc : scope) (e : expr)      (* the k-th declaration: let x = e *)
| SAssignSite (x : string) (sc : scope) (e : expr)          (* x = e *)
| SRetSite (sc : scope) (e : expr)                          (* return e / an expression statement *)
| SCondSite (sc : scope) (e : expr)                         (* if e *)
| SLogicSite (sc : scope) (c : lcond)                       (* if l cmp r op ... *)
| SCallSite (f : string) (sc : scope) (args : list expr).   (* f(args), wherever it stands *)

Section Sites.
  Variable sm : bool.
  Variable D : list (string * sem_ty).
  Variable NM : list string.

  (** a use site of the stack ([usite], read back by [scan]) against a use site of the source *)
  Inductive SiteDenotes : usite -> ssite -> Prop :=
  (** [LetBinding]: it declares the [k']-th value of the stack, whose source name is [x]
      (under [sm]: [k'] is the number of this declaration), and binds what [e] denotes *)
  | SD_let inner d x k sc e k' :
      names D NM inner k' x -> (sm = true -> k = k') ->
      Denotes sm D NM sc d e ->
      SiteDenotes (ULet inner d) (SLetSite x k sc e)
  (** [Binding]: it assigns to a declaration of [x] (under [sm]: the one in scope) *)
  | SD_assign inner d x sc e k' :
      names D NM inner k' x -> (sm = true -> sc_find x sc = Some k') ->
      Denotes sm D NM sc d e ->
      SiteDenotes (UAssign inner d) (SAssignSite x sc e)
  | SD_return d sc e :
      Denotes sm D NM sc d e -> SiteDenotes (URet d) (SRetSite sc e)
  | SD_condition d sc e :
      Denotes sm D NM sc d e -> SiteDenotes (UCondSingle d) (SCondSite sc e)
  | SD_logic d sc c :
      DenotesCond sm D NM sc d c -> SiteDenotes (UCondLogic d) (SLogicSite sc c)
  | SD_call f ds sc es :
      Forall2 (Denotes sm D NM sc) ds es -> SiteDenotes (UCall f ds) (SCallSite f sc es).
End Sites.

(** ** The use sites of a function of the source, in evaluation order

    (Source side only: no stack, no tokens.)  The calls of an expression come in the order in
    which their [Call] instructions are emitted: a call after the calls inside its arguments,
    the values of a chain left to right, brackets transparent. *)
Fixpoint calls_expr (e : expr) : list (ident * list expr) :=
  match e with
  | Expr v rest => calls_val v ++ flat_map (fun ov => calls_val (snd ov)) rest
  end
with calls_val (v : expr_val) : list (ident * list expr) :=
  match v with
  | EVCall f args => flat_map calls_expr args ++ [(f, args)]
  | EVSub e => calls_expr e
  | EVName _ | EVPrim _ | EVField _ _ | EVExt _ _ => []
  end.

Definition call_ssites (sc : scope) (e : expr) : list ssite :=
  map (fun c => SCallSite (iname (fst c)) sc (snd c)) (calls_expr e).

(** a condition: the calls of its expressions, then the condition itself *)
Fixpoint lcond_call_ssites (sc : scope) (c : lcond) : list ssite :=
  match c with
  | LC l _ r next =>
      call_ssites sc l ++ call_ssites sc r ++
      match next with Some (_, c') => lcond_call_ssites sc c' | None => [] end
  end.

Definition cond_ssites (sc : scope) (c : cond) : list ssite :=
  match c with
  | CSingle e => call_ssites sc e ++ [SCondSite sc e]
  | CLogic lc => lcond_call_ssites sc lc ++ [SLogicSite sc lc]
  end.

(** Statements, threading the scope [sc] (innermost declaration first) and the number [k] of
    the next declaration.  Each statement yields its sites, the scope after it and the next
    number: a [let] declares number [k] and is visible to the statements after it (not to its
    own initialiser); a nested body starts in the scope of its statement, and what it declares
    is numbered on but not visible after it; an [if] is its condition, its then-body, then its
    else-body or -- only when there is no else -- its else-if. *)
Fixpoint stmt_ssites (s : stmt) (sc : scope) (k : N) : list ssite * scope * N :=
  match s with
  | SLet x _ _ e =>
      (call_ssites sc e ++ [SLetSite (iname x) k sc e], (iname x, k) :: sc, k + 1)
  | SBind x e =>
      (call_ssites sc e ++ [SAssignSite (iname x) sc e], sc, k)
  | SCall f args =>
      (flat_map (call_ssites sc) args ++ [SCallSite (iname f) sc args], sc, k)
  | SIf i => let '(l, k') := if_ssites i sc k in (l, sc, k')
  | SLoop body =>
      let '(l, k') :=
        (fix go (ss : list stmt) (sc0 : scope) (k0 : N) : list ssite * N :=
           match ss with
           | [] => ([], k0)
           | s' :: ss' =>
               let '(a, sc1, k1) := stmt_ssites s' sc0 k0 in
               let '(b, k2) := go ss' sc1 k1 in (a ++ b, k2)
           end) body sc k in
      (l, sc, k')
  | SRet e | SExprStmt e => (call_ssites sc e ++ [SRetSite sc e], sc, k)
  | SBreak | SContinue => ([], sc, k)
  end
with if_ssites (i : ifstmt) (sc : scope) (k : N) : list ssite * N :=
  match i with
  | IfS c body els elif =>
      let '(b, k1) := ifbody_ssites body sc k in
      let '(e, k2) :=
        match els with
        | Some eb => ifbody_ssites eb sc k1
        | None =>
            match elif with
            | Some ei => if_ssites ei sc k1
            | None => ([], k1)
            end
        end in
      (cond_ssites sc c ++ b ++ e, k2)
  end
with ifbody_ssites (b : ifbody) (sc : scope) (k : N) : list ssite * N :=
  match b with
  | IBIf ss | IBLoop ss =>
      (fix go (ss : list stmt) (sc0 : scope) (k0 : N) : list ssite * N :=
         match ss with
         | [] => ([], k0)
         | s' :: ss' =>
             let '(a, sc1, k1) := stmt_ssites s' sc0 k0 in
             let '(b, k2) := go ss' sc1 k1 in (a ++ b, k2)
         end) ss sc k
  end.

Fixpoint stmts_ssites (ss : list stmt) (sc : scope) (k : N) : list ssite :=
  match ss with
  | [] => []
  | s :: ss' => let '(a, sc1, k1) := stmt_ssites s sc k in a ++ stmts_ssites ss' sc1 k1
  end.

(** the parameters are the declarations 0, 1, ... and are all in scope in the body *)
Definition fn_ssites (f : fn_decl) : list ssite :=
  let '(sc, k) := param_scope (fn_params f) [] 0 in stmts_ssites (fn_body f) sc k.

(** the source names of the declarations of a function: its parameters, then its [let]s in
    the order of their sites *)
Definition slet_name (s : ssite) : list string :=
  match s with SLetSite x _ _ _ => [x] | _ => [] end.
Definition source_decl_names (f : fn_decl) : list string :=
  map (fun p => iname (fst p)) (fn_params f) ++ flat_map slet_name (fn_ssites f).

(** ** Functions and programs

    [scan [] c] ([Mon/C06.v]) reads the use sites back from the complete stack [c] of the
    function: registers are expanded into denotation trees through the instructions that
    define them.  The reading: the stack declares as many values as the source, and the use
    sites of the stack are, one by one and in order, the use sites of the source. *)
Definition fn_reading (sm : bool) (f : fn_decl) (root : block) : Prop :=
  let c := b_ctx root in
  let D := stack_decls c in
  let NM := source_decl_names f in
  length D = length NM /\
  Forall2 (SiteDenotes sm D NM) (scan [] c) (fn_ssites f).

Definition C06_reading (sm : bool) (p : program) (o : output) : Prop :=
  o_errors o = [] -> Forall2 (fn_reading sm) (functions_of p) (o_fns o).
