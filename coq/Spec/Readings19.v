(** Prop-level readings of the three parts of C19 ("extension expressions are opaque leaves,
    evaluated once, in place").  Definitions only; the proofs that the boolean monitors
    [chk_C19_order], [chk_C19_types], [chk_C19_blocks] and [chk_C19_strict] of [Mon/C19.v]
    decide exactly these statements are in [Proofs/Readings19.v]; the statements are collected
    in [Properties/C19r.v].  This file does not import the monitor.

    The English text of the property:
    (1) "Each occurrence of an extension expression is evaluated exactly once, at its position
        in evaluation order";
    (2) "the result it returns is used verbatim (type and value) as the operand in that
        position";
    (3) "Instructions it pushes through the block interface appear at that position in the
        block's stack and in every ancestor's stack."

    In the harness an extension expression is the source leaf [EVExt t tag] ("type [t],
    identity [tag]"); evaluating it pushes one instruction [IExt tag r] ("the leaf [tag] was
    evaluated, its result is in register [r]") and returns the operand "register [r], type
    [t]". *)
From SA Require Import Model.
From SA.Spec Require Import Stack.
Local Open Scope list_scope.

(** ** The extension leaves of the source, in evaluation order *)
Definition leaf := (N * ast_ty)%type.   (* tag, declared type *)

(** an operator chain is evaluated value by value, left to right; the arguments of a call left
    to right; brackets are transparent *)
Fixpoint leaves_expr (e : expr) : list leaf :=
  match e with
  | Expr v rest => leaves_val v ++ flat_map (fun ov => leaves_val (snd ov)) rest
  end
with leaves_val (v : expr_val) : list leaf :=
  match v with
  | EVCall _ args => flat_map leaves_expr args
  | EVSub e => leaves_expr e
  | EVExt t tag => [(tag, t)]
  | EVName _ | EVPrim _ | EVField _ _ => []
  end.

(** a logic condition: left side, right side, then the rest of the chain *)
Fixpoint leaves_lcond (c : lcond) : list leaf :=
  match c with
  | LC l _ r next =>
      leaves_expr l ++ leaves_expr r ++
      match next with Some (_, c') => leaves_lcond c' | None => [] end
  end.

Definition leaves_cond (c : cond) : list leaf :=
  match c with CSingle e => leaves_expr e | CLogic l => leaves_lcond l end.

(** statements in the order in which they are analysed: an [if] is its condition, its
    then-body, then its else-body or -- only when there is no else -- its else-if *)
Fixpoint leaves_stmt (s : stmt) : list leaf :=
  match s with
  | SLet _ _ _ e | SBind _ e | SRet e | SExprStmt e => leaves_expr e
  | SCall _ args => flat_map leaves_expr args
  | SIf i => leaves_if i
  | SLoop body => flat_map leaves_stmt body
  | SBreak | SContinue => []
  end
with leaves_if (i : ifstmt) : list leaf :=
  match i with
  | IfS c body els elif =>
      leaves_cond c ++ leaves_ifbody body ++
      match els with
      | Some eb => leaves_ifbody eb
      | None => match elif with Some ei => leaves_if ei | None => [] end
      end
  end
with leaves_ifbody (b : ifbody) : list leaf :=
  match b with IBIf ss | IBLoop ss => flat_map leaves_stmt ss end.

Definition leaves_fn (f : fn_decl) : list leaf := flat_map leaves_stmt (fn_body f).

(** ** The extension instructions of a stack, in stack order *)
Definition ext_tag (i : instr) : list N := match i with IExt tag _ => [tag] | _ => [] end.
Definition ext_tags (c : list instr) : list N := flat_map ext_tag c.

(** how many extension instructions a stack holds *)
Definition ext_count (c : list instr) : nat := length (ext_tags c).

(** ** (1) Once, in place.
    The tags of the extension instructions of the function's complete stack, in stack order,
    are the tags of the extension leaves of its source, in evaluation order -- as lists: the
    same length (every occurrence is evaluated, and only once), the same order (at its
    position).  No distinctness of tags is assumed. *)
Definition order_reading (f : fn_decl) (root : block) : Prop :=
  ext_tags (b_ctx root) = map fst (leaves_fn f).

(** ** (2) The result is used verbatim. *)

(** The operands an instruction carries (with their recorded types). *)
Definition typed_operands (i : instr) : list eres :=
  match i with
  | IExprOp _ l r _ | ICondExpr l r _ _ => [l; r]
  | ICall _ args _ => args
  | ILet _ e | IBind _ e | IFnRet e | IFnRetLabel e | IJumpFnRet e | IIfCondExpr e _ _ => [e]
  | _ => []
  end.

(** "[n] is, after the instructions [pre], the register of the [j]-th extension instruction
    (counted from 0)": the last extension instruction of [pre] that writes [n] is preceded by
    exactly [j] extension instructions. *)
Definition ext_register (pre : list instr) (n : N) (j : nat) : Prop :=
  exists pre1 tag pre2,
    pre = pre1 ++ IExt tag n :: pre2 /\
    (forall tag', ~ In (IExt tag' n) pre2) /\
    j = ext_count pre1.

(** (2a) the type: an operand that names the register of the [j]-th extension instruction
    carries the (semantic form of the) type of the [j]-th leaf of the source *)
Definition verbatim_types (src : list leaf) (c : list instr) : Prop :=
  forall pre i post e n j,
    c = pre ++ i :: post ->
    In e (typed_operands i) -> r_val e = RReg n ->
    ext_register pre n j ->
    exists tag t, nth_error src j = Some (tag, t) /\ r_ty e = sem_of_ty t.

(** (2b) the value: the register an extension instruction writes is read exactly once in the
    whole stack ([use_regs] of [Spec/Stack.v]: operands, logic inputs, conditional subjects) *)
Definition read_once (c : list instr) : Prop :=
  forall tag r, In (IExt tag r) c -> count_occ N.eq_dec (flat_map use_regs c) r = 1%nat.

Definition types_reading (f : fn_decl) (root : block) : Prop :=
  verbatim_types (leaves_fn f) (b_ctx root) /\ read_once (b_ctx root).

(** ** (3) Through the block interface.
    Every extension instruction of a block's own stack occurs in its parent's stack, with
    multiplicity: for every instruction [IExt tag r], the child holds at most as many copies
    as the parent.  (That the copies stand in the same order is C18.) *)
(** the number of copies of [IExt tag r] in a stack *)
Definition is_ext (tag r : N) (i : instr) : bool :=
  match i with IExt tag' r' => N.eqb tag tag' && N.eqb r r' | _ => false end.
Definition copies (tag r : N) (c : list instr) : nat := length (filter (is_ext tag r) c).

Definition ext_included (child parent : list instr) : Prop :=
  forall tag r, (copies tag r child <= copies tag r parent)%nat.

(** ... for every finished child [k] ([b_kids]) of every block of the tree *)
Inductive blocks_reading : block -> Prop :=
| Blocks_reading b :
    (forall k, In k (b_kids b) -> ext_included (b_ctx k) (b_ctx b) /\ blocks_reading k) ->
    blocks_reading b.

(** ** Programs.  "Accepted": the error list of the run is empty; one root block per function
    declaration of the source, in order. *)
Definition C19_order_reading (p : program) (o : output) : Prop :=
  o_errors o = [] -> Forall2 order_reading (functions_of p) (o_fns o).
Definition C19_types_reading (p : program) (o : output) : Prop :=
  o_errors o = [] -> Forall2 types_reading (functions_of p) (o_fns o).
Definition C19_blocks_reading (o : output) : Prop :=
  o_errors o = [] -> Forall blocks_reading (o_fns o).

(** the strict form: the same three statements whatever the error list says *)
Definition C19_strict_reading (p : program) (o : output) : Prop :=
  Forall2 order_reading (functions_of p) (o_fns o) /\
  Forall2 types_reading (functions_of p) (o_fns o) /\
  Forall blocks_reading (o_fns o).
