(** Concrete programs: the model's output for them passes the monitors of [Mon/Control.v].
    [chk_C05] is run with [quirk = true] (the recorded behaviour, finding F5); on the F5 shapes
    the intended semantics ([quirk = false]) is refuted. *)
From SA Require Import Model.
From SA.Spec Require Import Stack Exec.
From SA.Mon Require Import Control.
Local Open Scope list_scope.

(** ** Building blocks *)
Definition i32 : ast_ty := TPrim PI32.
Definition lit (n : Z) : expr := Expr (EVPrim (PV PI32 n)) [].
Definition btrue : expr := Expr (EVPrim (PV PBool 1)) [].
Definition idt (s : string) : ident := Id s 1 0.
Definition ecall (f : string) (args : list expr) : expr := Expr (EVCall (idt f) args) [].
Definition call (f : string) : stmt := SCall (idt f) [].
Definition ret_ (n : Z) : stmt := SRet (lit n).
Definition c1 : cond := CSingle btrue.

Definition if_ (c : cond) (b : list stmt) : stmt := SIf (IfS c (IBIf b) None None).
Definition ife (c : cond) (b e : list stmt) : stmt := SIf (IfS c (IBIf b) (Some (IBIf e)) None).
(** the same inside a loop: the bodies may hold [break] / [continue] *)
Definition lif (c : cond) (b : list stmt) : stmt := SIf (IfS c (IBLoop b) None None).
Definition life (c : cond) (b e : list stmt) : stmt :=
  SIf (IfS c (IBLoop b) (Some (IBLoop e)) None).

Definition callee (name : string) : top := TFn (Fn (idt name) [] i32 [ret_ 1]).
Definition callee2 (name : string) : top :=
  TFn (Fn (idt name) [(idt "a", i32); (idt "b", i32)] i32 [ret_ 1]).

Definition prog (body : list stmt) : program :=
  [callee "g1"; callee "g2"; callee "g3"; callee "g4"; callee "g5"; callee "g6"; callee2 "h";
   TFn (Fn (idt "main") [] i32 body)].

(** ** Running a monitor on the model's output *)
Definition on_run (f : program -> output -> bool) (p : program) : bool :=
  match run p with ROk o => f p o | _ => false end.

Definition accepted (p : program) : bool :=
  on_run (fun _ o => match o_errors o with [] => true | _ => false end) p.

(** C10 (both parts) and C11 *)
Definition labels_and_returns (p : program) : bool :=
  on_run (fun p o => chk_C10_unique o && chk_C10_resolve o && chk_C11 p o) p.

Definition c05 (quirk : bool) (p : program) : bool := on_run (chk_C05 quirk 6 200) p.

(** The instruction stack of [main] (for inspection with [Eval vm_compute]). *)
Definition main_stack (p : program) : list instr :=
  match run p with ROk o => match rev (o_fns o) with b :: _ => b_ctx b | [] => [] end | _ => [] end.

(** ** The programs *)

(** 1. if / else *)
Definition p01 := prog [ife c1 [call "g1"] [call "g2"]; call "g3"; ret_ 0].

(** 2. else-if chain of three, without and with a final else *)
Definition p02 := prog
  [SIf (IfS c1 (IBIf [call "g1"]) None
     (Some (IfS c1 (IBIf [call "g2"]) None
        (Some (IfS c1 (IBIf [call "g3"]) None None)))));
   call "g4"; ret_ 0].
Definition p03 := prog
  [SIf (IfS c1 (IBIf [call "g1"]) None
     (Some (IfS c1 (IBIf [call "g2"]) None
        (Some (IfS c1 (IBIf [call "g3"]) (Some (IBIf [call "g5"])) None)))));
   call "g4"; ret_ 0].

(** 3. loop with a break in a nested if *)
Definition p04 := prog
  [SLoop [call "g1"; lif c1 [SBreak]; call "g2"]; call "g3"; ret_ 0].

(** 4. loop with continue *)
Definition p05 := prog
  [SLoop [call "g1"; lif c1 [call "g2"; SContinue]; call "g3"; SBreak]; call "g4"; ret_ 0].

(** 5. return at loop level, break in a nested if (the shape of finding F3) *)
Definition p06 := prog
  [SLoop [lif c1 [call "g1"; SBreak]; call "g2"; ret_ 1]; call "g3"; ret_ 2].

(** 6. return nested at depth two, in ifs and in a loop *)
Definition p07 := prog
  [if_ c1 [call "g1"; if_ c1 [call "g2"; ret_ 1]]; call "g3"; ret_ 2].
Definition p08 := prog
  [SLoop [call "g1"; lif c1 [lif c1 [ret_ 1]]; lif c1 [SBreak]]; ret_ 2].

(** 7. the F5 shape: an if nested in an if-body, followed by a statement *)
Definition p09 := prog
  [if_ c1 [if_ c1 [call "g1"]; call "g2"]; call "g3"; ret_ 0].

(** 8. nested loops *)
Definition p10 := prog
  [SLoop [call "g1"; SLoop [call "g2"; lif c1 [SBreak]; call "g3"]; lif c1 [SBreak]];
   call "g4"; ret_ 0].

(** 9. let, assignment, a logic condition with calls in it *)
Definition p11 := prog
  [SLet (idt "x") true None (ecall "g1" []);
   SIf (IfS (CLogic (LC (ecall "g2" []) CEq (lit 1)
                        (Some (LAnd, LC (ecall "g3" []) CLess (lit 2) None))))
            (IBIf [SBind (idt "x") (lit 2)]) (Some (IBIf [SBind (idt "x") (lit 3); call "g4"])) None);
   SRet (Expr (EVName (idt "x")) [])].

(** 10. calls in arguments, operator chains and sub-expressions *)
Definition p12 := prog
  [SCall (idt "h")
     [ecall "g1" [];
      Expr (EVCall (idt "g2") []) [(OPlus, EVCall (idt "g3") []); (OMultiply, EVCall (idt "g4") [])]];
   SLet (idt "y") false None
     (Expr (EVSub (Expr (EVCall (idt "g5") []) [(OMinus, EVPrim (PV PI32 1))]))
           [(OMultiply, EVCall (idt "h") [ecall "g6" []; lit 4])]);
   SRet (ecall "g1" [])].

(** 11. the F5 shape inside a loop: the outermost if-chain ends inside the loop body *)
Definition p13 := prog
  [SLoop [lif c1 [lif c1 [call "g1"]; call "g2"]; call "g3"; lif c1 [SBreak]]; ret_ 0].

(** 12. the F5 shape in an else-if body, the nested if with an else *)
Definition p14 := prog
  [SIf (IfS c1 (IBIf [call "g1"]) None
     (Some (IfS c1 (IBIf [ife c1 [call "g2"] [call "g3"]; call "g4"]) None None)));
   call "g5"; ret_ 0].

(** 13. continue at depth two; the statement after the nested if is skipped (F5) *)
Definition p15 := prog
  [SLoop [lif c1 [lif c1 [SContinue]; call "g1"]; call "g2"; lif c1 [SBreak]]; ret_ 0].

(** 14. an if in a loop in an if: the loop cuts the chain of if-bodies, nothing is skipped *)
Definition p16 := prog
  [if_ c1 [SLoop [lif c1 [SBreak]; call "g1"]; call "g2"]; call "g3"; ret_ 0].

(** 15. the F5 shape at depth three, in an else body *)
Definition p17 := prog
  [ife c1 [call "g1"] [if_ c1 [if_ c1 [call "g2"]; call "g3"]; call "g4"]; call "g5"; ret_ 0].

(** 16. a nested if as the last statement of its body: F5 is not observable *)
Definition p18 := prog
  [if_ c1 [call "g1"; if_ c1 [call "g2"]]; call "g3"; ret_ 0].

Definition all_programs : list program :=
  [p01; p02; p03; p04; p05; p06; p07; p08; p09; p10; p11; p12; p13; p14; p15; p16; p17; p18].

(** ** Every program is accepted; labels and return instructions are in order (C10, C11) *)
Example all_accepted : forallb accepted all_programs = true.
Proof. vm_compute; reflexivity. Qed.

Example all_labels_and_returns : forallb labels_and_returns all_programs = true.
Proof. vm_compute; reflexivity. Qed.

Example p01_c10u : on_run (fun _ o => chk_C10_unique o) p01 = true. Proof. vm_compute; reflexivity. Qed.
Example p01_c10r : on_run (fun _ o => chk_C10_resolve o) p01 = true. Proof. vm_compute; reflexivity. Qed.
Example p01_c11 : on_run chk_C11 p01 = true. Proof. vm_compute; reflexivity. Qed.

(** ** C05 with the recorded behaviour *)
Example p01_c05 : c05 true p01 = true. Proof. vm_compute; reflexivity. Qed.
Example p02_c05 : c05 true p02 = true. Proof. vm_compute; reflexivity. Qed.
Example p03_c05 : c05 true p03 = true. Proof. vm_compute; reflexivity. Qed.
Example p04_c05 : c05 true p04 = true. Proof. vm_compute; reflexivity. Qed.
Example p05_c05 : c05 true p05 = true. Proof. vm_compute; reflexivity. Qed.
Example p06_c05 : c05 true p06 = true. Proof. vm_compute; reflexivity. Qed.
Example p07_c05 : c05 true p07 = true. Proof. vm_compute; reflexivity. Qed.
Example p08_c05 : c05 true p08 = true. Proof. vm_compute; reflexivity. Qed.
Example p09_c05 : c05 true p09 = true. Proof. vm_compute; reflexivity. Qed.
Example p10_c05 : c05 true p10 = true. Proof. vm_compute; reflexivity. Qed.
Example p11_c05 : c05 true p11 = true. Proof. vm_compute; reflexivity. Qed.
Example p12_c05 : c05 true p12 = true. Proof. vm_compute; reflexivity. Qed.
Example p13_c05 : c05 true p13 = true. Proof. vm_compute; reflexivity. Qed.
Example p14_c05 : c05 true p14 = true. Proof. vm_compute; reflexivity. Qed.
Example p15_c05 : c05 true p15 = true. Proof. vm_compute; reflexivity. Qed.
Example p16_c05 : c05 true p16 = true. Proof. vm_compute; reflexivity. Qed.
Example p17_c05 : c05 true p17 = true. Proof. vm_compute; reflexivity. Qed.
Example p18_c05 : c05 true p18 = true. Proof. vm_compute; reflexivity. Qed.

(** ** The recorded finding F5: the intended semantics is refuted exactly on the F5 shapes *)
Example p09_intended_refuted : c05 false p09 = false. Proof. vm_compute; reflexivity. Qed.
Example p13_intended_refuted : c05 false p13 = false. Proof. vm_compute; reflexivity. Qed.
Example p14_intended_refuted : c05 false p14 = false. Proof. vm_compute; reflexivity. Qed.
Example p15_intended_refuted : c05 false p15 = false. Proof. vm_compute; reflexivity. Qed.
Example p17_intended_refuted : c05 false p17 = false. Proof. vm_compute; reflexivity. Qed.

(** Everywhere else both semantics agree with the jump program. *)
Example others_intended :
  forallb (c05 false) [p01; p02; p03; p04; p05; p06; p07; p08; p10; p11; p12; p16; p18] = true.
Proof. vm_compute; reflexivity. Qed.

(** A witness for p09: outcomes "both conditions true".  The jump program skips [g2]. *)
Example p09_flat :
  flat_exec (main_stack p09) [true; true] 200 = ([EvCall "g1"; EvCall "g3"; EvRet], Returned).
Proof. vm_compute; reflexivity. Qed.
Example p09_intended :
  struct_exec false [if_ c1 [if_ c1 [call "g1"]; call "g2"]; call "g3"; ret_ 0] [true; true] 200
  = ([EvCall "g1"; EvCall "g2"; EvCall "g3"; EvRet], Returned).
Proof. vm_compute; reflexivity. Qed.
Example p09_quirk :
  struct_exec true [if_ c1 [if_ c1 [call "g1"]; call "g2"]; call "g3"; ret_ 0] [true; true] 200
  = ([EvCall "g1"; EvCall "g3"; EvRet], Returned).
Proof. vm_compute; reflexivity. Qed.

(** ** The monitors reject damaged stacks *)
Definition set_ctx (c : list instr) (b : block) : block :=
  Block (b_values b) (b_inner b) (b_labels b) (b_reg b) (b_mret b) c (b_kids b).

(** run the monitor on the model's output with every function's stack edited by [g] *)
Definition on_damaged (g : list instr -> list instr) (f : program -> output -> bool)
           (p : program) : bool :=
  on_run (fun p o => f p (Output (o_errors o) (o_globals o) (o_gstack o)
                                 (map (fun b => set_ctx (g (b_ctx b)) b) (o_fns o)))) p.

Definition drop_set_label (l : string) (c : list instr) : list instr :=
  filter (fun i => match i with ISetLabel l' => negb (String.eqb l l') | _ => true end) c.
Definition plain_return (c : list instr) : list instr :=
  map (fun i => match i with IFnRetLabel e => IFnRet e | _ => i end) c.
Definition drop_last (c : list instr) : list instr := removelast c.

(** The stack of p06 as it was before the repair of finding F3: [loop_end] is never set. *)
Example f3_shape_resolve :
  on_damaged (drop_set_label "loop_end") (fun _ o => chk_C10_resolve o) p06 = false.
Proof. vm_compute; reflexivity. Qed.
Example f3_shape_c05 : on_damaged (drop_set_label "loop_end") (chk_C05 true 6 200) p06 = false.
Proof. vm_compute; reflexivity. Qed.
Example f3_shape_bad_label :
  flat_exec (drop_set_label "loop_end" (main_stack p06)) [true] 200
  = ([EvCall "g1"], BadLabel "loop_end").
Proof. vm_compute; reflexivity. Qed.

Example duplicated_label :
  on_damaged (fun c => ISetLabel "if_begin" :: c) (fun _ o => chk_C10_unique o) p01 = false.
Proof. vm_compute; reflexivity. Qed.
Example plain_return_after_jump : on_damaged plain_return chk_C11 p07 = false.
Proof. vm_compute; reflexivity. Qed.
Example missing_return_c11 : on_damaged drop_last chk_C11 p01 = false.
Proof. vm_compute; reflexivity. Qed.
Example missing_return_c05 : on_damaged drop_last (chk_C05 true 6 200) p01 = false.
Proof. vm_compute; reflexivity. Qed.
Example two_returns :
  on_damaged (fun c => c ++ [IFnRet (ERes (SPrim PI32) (RPrim (PV PI32 1)))]) chk_C11 p01 = false.
Proof. vm_compute; reflexivity. Qed.
