(** Concrete programs for the monitors of C06 ([Mon/C06.v]) and C19 ([Mon/C19.v]): the model's
    output passes them; small damages of that output are caught. *)
From SA Require Import Model.
From SA.Spec Require Import Stack.
From SA.Mon Require Import C06 C19.
Local Open Scope list_scope.

(** ** Building blocks *)
Definition i32 : ast_ty := TPrim PI32.
Definition idt (s : string) : ident := Id s 1 0.
Definition tS : ast_ty := TStruct (idt "S") [(idt "a", i32); (idt "b", i32); (idt "c", i32)].

Definition n_ (z : Z) : expr_val := EVPrim (PV PI32 z).
Definition v_ (x : string) : expr_val := EVName (idt x).
Definition x_ (tag : N) : expr_val := EVExt i32 tag.
Definition c_ (f : string) (args : list expr) : expr_val := EVCall (idt f) args.
Definition f_ (x a : string) : expr_val := EVField (idt x) (idt a).
Definition s_ (e : expr) : expr_val := EVSub e.
Definition e1 (v : expr_val) : expr := Expr v [].

Definition let_ (x : string) (e : expr) : stmt := SLet (idt x) false None e.
Definition letm (x : string) (e : expr) : stmt := SLet (idt x) true None e.
Definition set_ (x : string) (e : expr) : stmt := SBind (idt x) e.
Definition call_ (f : string) (args : list expr) : stmt := SCall (idt f) args.
Definition ret_ (e : expr) : stmt := SRet e.

Definition if_ (c : cond) (b : list stmt) : stmt := SIf (IfS c (IBIf b) None None).
Definition ife (c : cond) (b e : list stmt) : stmt := SIf (IfS c (IBIf b) (Some (IBIf e)) None).
Definition lif (c : cond) (b : list stmt) : stmt := SIf (IfS c (IBLoop b) None None).
Definition life (c : cond) (b e : list stmt) : stmt :=
  SIf (IfS c (IBLoop b) (Some (IBLoop e)) None).

Definition cmp (l : expr) (c : cmpop) (r : expr) : cond := CLogic (LC l c r None).

Definition callee (name : string) (ps : list string) : top :=
  TFn (Fn (idt name) (map (fun x => (idt x, i32)) ps) i32 [SRet (e1 (n_ 1))]).

Definition preamble : program :=
  [TStructDecl (idt "S") [(idt "a", i32); (idt "b", i32); (idt "c", i32)];
   TConst (idt "K") i32 (CExpr (CVal (PV PI32 7)) []);
   TConst (idt "M") i32 (CExpr (CVal (PV PI32 9)) []);
   callee "g0" []; callee "g1" ["p"]; callee "g2" ["p"; "q"]; callee "g3" ["p"; "q"; "r"]].

(** main(a : i32, b : i32, s : S) -> i32 *)
Definition prog (body : list stmt) : program :=
  preamble ++ [TFn (Fn (idt "main") [(idt "a", i32); (idt "b", i32); (idt "s", tS)] i32 body)].

(** ** Running the monitors on the model's output *)
Definition on_run (f : program -> output -> bool) (p : program) : bool :=
  match run p with ROk o => f p o | _ => false end.

Definition accepted (p : program) : bool :=
  on_run (fun _ o => match o_errors o with [] => true | _ => false end) p.

Definition both (p : program) : bool :=
  match run p with ROk out => chk_C06 p out && chk_C19 p out | _ => false end.
Definition scoped (p : program) : bool := on_run chk_C06_scoped p.

(** the stack of the last function (for inspection with [Eval vm_compute]) *)
Definition main_stack (p : program) : list instr :=
  match run p with ROk o => match rev (o_fns o) with b :: _ => b_ctx b | [] => [] end | _ => [] end.
Definition judged (p : program) : N * N :=
  match run p with ROk o => (judged_C06 p o, judged_C19 p) | _ => (0, 0) end.

(** ** The programs *)

(** 1. a chain over four priority levels (times, divide, plus, minus) and more (xor, and), with calls, field reads of the
    struct parameter, explicit brackets, extension leaves and constants *)
Definition p01 := prog
  [let_ "y" (Expr (v_ "a")
       [(OPlus, c_ "g1" [e1 (v_ "b")]); (OMultiply, f_ "s" "b");
        (OMinus, s_ (Expr (v_ "K") [(OPlus, x_ 1)])); (ODivide, n_ 2);
        (OXor, f_ "s" "a"); (OMultiply, c_ "g2" [e1 (v_ "a"); e1 (x_ 2)]);
        (OAnd, v_ "M")]);
   ret_ (e1 (v_ "y"))].

(** 2. calls as arguments of calls, at statement level and in initialisers *)
Definition p02 := prog
  [let_ "z" (Expr (c_ "g2" [e1 (c_ "g1" [e1 (c_ "g0" [])]);
                            Expr (c_ "g2" [e1 (v_ "a"); e1 (c_ "g1" [Expr (v_ "b") [(OPlus, n_ 1)]])])
                                 [(OMultiply, n_ 2)]]) []);
   call_ "g3" [e1 (v_ "z"); e1 (c_ "g1" [e1 (v_ "z")]); e1 (c_ "g0" [])];
   ret_ (e1 (c_ "g1" [e1 (v_ "z")]))].

(** 3. a logic condition with three comparisons and both connectives; assignments *)
Definition p03 := prog
  [letm "m" (e1 (v_ "a"));
   SIf (IfS (CLogic (LC (e1 (v_ "a")) CLess (e1 (v_ "b"))
               (Some (LAnd, LC (e1 (c_ "g1" [e1 (v_ "a")])) CEq (e1 (f_ "s" "a"))
                  (Some (LOr, LC (e1 (x_ 3)) CGreatEq (e1 (v_ "K")) None))))))
            (IBIf [set_ "m" (Expr (v_ "m") [(OPlus, n_ 1)])])
            (Some (IBIf [set_ "m" (Expr (v_ "m") [(OMinus, x_ 4)])])) None);
   ret_ (e1 (v_ "m"))].

(** 4. lets shadowing a parameter in nested blocks, reads after the block *)
Definition p04 := prog
  [if_ (cmp (e1 (v_ "a")) CGreat (e1 (n_ 0)))
       [let_ "a" (Expr (v_ "a") [(OPlus, n_ 1)]);
        if_ (cmp (e1 (v_ "a")) CGreat (e1 (v_ "b")))
            [let_ "a" (Expr (v_ "a") [(OMultiply, n_ 2)]);
             let_ "b" (e1 (v_ "a"));
             call_ "g2" [e1 (v_ "a"); e1 (v_ "b")]];
        call_ "g2" [e1 (v_ "a"); e1 (v_ "b")]];
   let_ "r" (Expr (v_ "a") [(OPlus, v_ "b")]);
   ret_ (e1 (v_ "r"))].

(** 5. returns nested in loops (in ifs in loops, in a loop in a loop) *)
Definition p05 := prog
  [SLoop [lif (cmp (e1 (v_ "a")) CEq (e1 (n_ 1))) [ret_ (Expr (v_ "a") [(OPlus, x_ 1)])];
          SLoop [lif (cmp (e1 (v_ "b")) CLess (e1 (n_ 2))) [ret_ (e1 (c_ "g1" [e1 (v_ "b")]))];
                 SBreak];
          SBreak];
   ret_ (Expr (n_ 0) [(OPlus, x_ 2)])].

(** 6. an else-if chain with a let in every branch; the same name in sibling blocks *)
Definition p06 := prog
  [letm "r" (e1 (n_ 0));
   SIf (IfS (cmp (e1 (v_ "a")) CLess (e1 (n_ 1)))
            (IBIf [let_ "t" (Expr (v_ "a") [(OPlus, n_ 1)]); set_ "r" (e1 (v_ "t"))]) None
     (Some (IfS (cmp (e1 (v_ "a")) CLess (e1 (n_ 2)))
            (IBIf [let_ "t" (Expr (v_ "b") [(OPlus, n_ 2)]); set_ "r" (e1 (v_ "t"))]) None
     (Some (IfS (CSingle (e1 (c_ "g1" [e1 (v_ "r")])))
            (IBIf [let_ "t" (e1 (f_ "s" "c")); set_ "r" (e1 (v_ "t"))])
            (Some (IBIf [let_ "t" (e1 (v_ "K")); set_ "r" (Expr (v_ "t") [(OMinus, v_ "r")])]))
            None)))));
   ret_ (e1 (v_ "r"))].

(** 7. assignments in a loop, extension leaves inside brackets and call arguments *)
Definition p07 := prog
  [letm "acc" (e1 (x_ 10));
   SLoop [set_ "acc" (Expr (v_ "acc")
                        [(OPlus, s_ (Expr (x_ 11) [(OMultiply, c_ "g1" [e1 (x_ 12)])]));
                         (OMinus, x_ 13)]);
          lif (cmp (e1 (v_ "acc")) CGreat (e1 (x_ 14))) [SBreak]];
   ret_ (e1 (v_ "acc"))].

(** 8. single-expression conditions: a chain, a call, an extension leaf *)
Definition p08 := prog
  [if_ (CSingle (Expr (c_ "g1" [e1 (v_ "a")]) [(OPlus, x_ 1); (OMultiply, v_ "b")]))
       [call_ "g0" []];
   ife (CSingle (e1 (x_ 2))) [call_ "g1" [e1 (x_ 3)]] [call_ "g1" [e1 (x_ 4)]];
   if_ (CSingle (e1 (c_ "g0" []))) [call_ "g0" []];
   ret_ (e1 (n_ 0))].

(** 9. a let with the name of a constant, read inside and after its block *)
Definition p09 := prog
  [letm "r" (e1 (v_ "K"));
   if_ (cmp (e1 (v_ "K")) CNotEq (e1 (v_ "M")))
       [let_ "K" (Expr (v_ "K") [(OPlus, v_ "a")]);
        set_ "r" (Expr (v_ "K") [(OMultiply, v_ "M")])];
   set_ "r" (Expr (v_ "r") [(OPlus, v_ "K")]);
   ret_ (e1 (v_ "r"))].

(** 10. explicit brackets, nested three deep *)
Definition p10 := prog
  [let_ "y" (Expr (s_ (Expr (s_ (Expr (v_ "a") [(OPlus, v_ "b")])) [(OMultiply, n_ 3)]))
       [(OMinus, s_ (Expr (n_ 4) [(ODivide, s_ (Expr (v_ "a") [(OMinus, s_ (e1 (x_ 1)))]))]));
        (OMultiply, s_ (e1 (s_ (e1 (v_ "K")))))]);
   ret_ (Expr (s_ (Expr (v_ "y") [(OPlus, n_ 1)])) [(OMultiply, n_ 2)])].

(** 11. statement-level calls with extension leaves and nested calls; the final expression
    statement is the return value *)
Definition p11 := prog
  [call_ "g3" [e1 (x_ 1); Expr (x_ 2) [(OPlus, c_ "g1" [e1 (x_ 3)])]; e1 (c_ "g2" [e1 (x_ 4); e1 (x_ 5)])];
   call_ "g1" [e1 (c_ "g1" [e1 (c_ "g1" [e1 (x_ 6)])])];
   SExprStmt (Expr (x_ 7) [(OMultiply, x_ 8)])].

(** 12. two functions with bodies, the second calls the first *)
Definition p12 : program :=
  preamble ++
  [TFn (Fn (idt "h") [(idt "u", i32); (idt "w", i32)] i32
     [let_ "t" (Expr (v_ "u") [(OMultiply, v_ "w"); (OPlus, x_ 1)]);
      ret_ (Expr (v_ "t") [(OMinus, v_ "K")])]);
   TFn (Fn (idt "main") [(idt "a", i32)] i32
     [let_ "t" (e1 (c_ "h" [e1 (v_ "a"); e1 (x_ 1)]));
      ret_ (e1 (c_ "h" [e1 (v_ "t"); Expr (v_ "t") [(OPlus, x_ 2)]]))])].

(** 13. a logic condition with four comparisons in an else-if, calls on both sides *)
Definition p13 := prog
  [letm "r" (e1 (n_ 0));
   SIf (IfS (cmp (e1 (v_ "a")) CEq (e1 (v_ "b"))) (IBIf [set_ "r" (e1 (n_ 1))]) None
     (Some (IfS (CLogic (LC (e1 (c_ "g1" [e1 (v_ "a")])) CLessEq (e1 (c_ "g1" [e1 (v_ "b")]))
                   (Some (LOr, LC (Expr (v_ "a") [(OPlus, n_ 1)]) CGreat (e1 (f_ "s" "b"))
                      (Some (LAnd, LC (e1 (x_ 1)) CNotEq (e1 (x_ 2))
                         (Some (LOr, LC (e1 (c_ "g2" [e1 (v_ "a"); e1 (x_ 3)])) CEq
                                        (Expr (v_ "K") [(OMultiply, n_ 2)]) None))))))))
            (IBIf [set_ "r" (e1 (n_ 2))]) (Some (IBIf [set_ "r" (e1 (n_ 3))])) None)));
   ret_ (e1 (v_ "r"))].

(** 14. a let shadowing a parameter in a loop body, continue / break, reads after the loop *)
Definition p14 := prog
  [letm "i" (e1 (n_ 0));
   SLoop [let_ "a" (Expr (v_ "a") [(OPlus, v_ "i")]);
          set_ "i" (Expr (v_ "i") [(OPlus, n_ 1)]);
          lif (cmp (e1 (v_ "a")) CLess (e1 (n_ 10))) [let_ "b" (e1 (v_ "a")); call_ "g1" [e1 (v_ "b")]; SContinue];
          life (cmp (e1 (v_ "i")) CGreat (e1 (v_ "b"))) [SBreak] [call_ "g1" [e1 (v_ "a")]]];
   ret_ (Expr (v_ "a") [(OPlus, v_ "b"); (OPlus, v_ "i")])].

(** 15. a long chain: twelve operators over all the priority levels *)
Definition p15 := prog
  [let_ "y" (Expr (n_ 0)
       [(OPlus, n_ 1); (OMultiply, n_ 2); (OMultiply, n_ 3); (OPlus, n_ 4); (OMinus, v_ "a");
        (ODivide, v_ "b"); (OAnd, x_ 1); (OOr, x_ 2); (OXor, n_ 5); (OShiftLeft, n_ 6);
        (OMinus, f_ "s" "c"); (OMultiply, c_ "g0" [])]);
   ret_ (e1 (v_ "y"))].

(** 16. field reads through a let of struct type, in call arguments and condition sides *)
Definition p16 := prog
  [let_ "t" (e1 (v_ "s"));
   call_ "g3" [e1 (f_ "t" "a"); e1 (f_ "s" "b"); Expr (f_ "t" "c") [(OPlus, f_ "t" "a")]];
   if_ (CLogic (LC (e1 (f_ "t" "b")) CLess (e1 (f_ "s" "c"))
          (Some (LAnd, LC (Expr (f_ "t" "a") [(OMultiply, n_ 2)]) CEq (e1 (f_ "t" "c")) None))))
       [ret_ (e1 (f_ "t" "b"))];
   ret_ (Expr (f_ "s" "a") [(OMinus, f_ "t" "c")])].

(** 17. the same name declared three times in one block *)
Definition p17 := prog
  [let_ "x" (e1 (n_ 1));
   let_ "x" (Expr (v_ "x") [(OPlus, n_ 1)]);
   let_ "x" (Expr (v_ "x") [(OMultiply, v_ "x")]);
   ret_ (e1 (v_ "x"))].

(** 18. returns in both branches of an if / else, extension leaves in sibling blocks *)
Definition p18 := prog
  [ife (cmp (e1 (x_ 1)) CLess (e1 (x_ 2)))
       [let_ "u" (e1 (x_ 3)); ret_ (Expr (v_ "u") [(OPlus, x_ 4)])]
       [let_ "u" (e1 (x_ 5)); ret_ (Expr (v_ "u") [(OMinus, x_ 6)])];
   ret_ (e1 (x_ 7))].

(** 19. the same tag on several leaves (no distinctness is needed), the same call twice *)
Definition p19 := prog
  [let_ "y" (Expr (x_ 5) [(OPlus, x_ 5); (OMultiply, c_ "g1" [e1 (x_ 5)]); (OMinus, c_ "g1" [e1 (x_ 5)])]);
   ret_ (e1 (v_ "y"))].

(** 20. an extension leaf of struct type bound by a let, then read field by field *)
Definition p20 := prog
  [let_ "t" (e1 (EVExt tS 1));
   ret_ (Expr (f_ "t" "a") [(OPlus, f_ "t" "c")])].

Definition all_programs : list program :=
  [p01; p02; p03; p04; p05; p06; p07; p08; p09; p10; p11; p12; p13; p14; p15; p16; p17; p18; p19; p20].

(** every program is accepted: the monitors judge all of them *)
Example all_accepted : forallb accepted all_programs = true.
Proof. vm_compute; reflexivity. Qed.

Example t01 : match run p01 with ROk out => chk_C06 p01 out && chk_C19 p01 out | _ => false end = true.
Proof. vm_compute; reflexivity. Qed.
Example t02 : match run p02 with ROk out => chk_C06 p02 out && chk_C19 p02 out | _ => false end = true.
Proof. vm_compute; reflexivity. Qed.
Example t03 : match run p03 with ROk out => chk_C06 p03 out && chk_C19 p03 out | _ => false end = true.
Proof. vm_compute; reflexivity. Qed.
Example t04 : match run p04 with ROk out => chk_C06 p04 out && chk_C19 p04 out | _ => false end = true.
Proof. vm_compute; reflexivity. Qed.
Example t05 : match run p05 with ROk out => chk_C06 p05 out && chk_C19 p05 out | _ => false end = true.
Proof. vm_compute; reflexivity. Qed.
Example t06 : match run p06 with ROk out => chk_C06 p06 out && chk_C19 p06 out | _ => false end = true.
Proof. vm_compute; reflexivity. Qed.
Example t07 : match run p07 with ROk out => chk_C06 p07 out && chk_C19 p07 out | _ => false end = true.
Proof. vm_compute; reflexivity. Qed.
Example t08 : match run p08 with ROk out => chk_C06 p08 out && chk_C19 p08 out | _ => false end = true.
Proof. vm_compute; reflexivity. Qed.
Example t09 : match run p09 with ROk out => chk_C06 p09 out && chk_C19 p09 out | _ => false end = true.
Proof. vm_compute; reflexivity. Qed.
Example t10 : match run p10 with ROk out => chk_C06 p10 out && chk_C19 p10 out | _ => false end = true.
Proof. vm_compute; reflexivity. Qed.
Example t11 : match run p11 with ROk out => chk_C06 p11 out && chk_C19 p11 out | _ => false end = true.
Proof. vm_compute; reflexivity. Qed.
Example t12 : match run p12 with ROk out => chk_C06 p12 out && chk_C19 p12 out | _ => false end = true.
Proof. vm_compute; reflexivity. Qed.
Example t13 : match run p13 with ROk out => chk_C06 p13 out && chk_C19 p13 out | _ => false end = true.
Proof. vm_compute; reflexivity. Qed.
Example t14 : match run p14 with ROk out => chk_C06 p14 out && chk_C19 p14 out | _ => false end = true.
Proof. vm_compute; reflexivity. Qed.
Example t15 : match run p15 with ROk out => chk_C06 p15 out && chk_C19 p15 out | _ => false end = true.
Proof. vm_compute; reflexivity. Qed.
Example t16 : match run p16 with ROk out => chk_C06 p16 out && chk_C19 p16 out | _ => false end = true.
Proof. vm_compute; reflexivity. Qed.
Example t17 : match run p17 with ROk out => chk_C06 p17 out && chk_C19 p17 out | _ => false end = true.
Proof. vm_compute; reflexivity. Qed.
Example t18 : match run p18 with ROk out => chk_C06 p18 out && chk_C19 p18 out | _ => false end = true.
Proof. vm_compute; reflexivity. Qed.
Example t19 : match run p19 with ROk out => chk_C06 p19 out && chk_C19 p19 out | _ => false end = true.
Proof. vm_compute; reflexivity. Qed.
Example t20 : match run p20 with ROk out => chk_C06 p20 out && chk_C19 p20 out | _ => false end = true.
Proof. vm_compute; reflexivity. Qed.

(** the stronger comparison (declaration numbers: lexical scoping) holds of the model as well *)
Example all_scoped : forallb scoped all_programs = true.
Proof. vm_compute; reflexivity. Qed.

(** nothing is reported on them *)
Example no_diffs :
  forallb (fun p => match run p with
                    | ROk o => match diff_C06 true p o with [] => true | _ => false end
                    | _ => false
                    end) all_programs = true.
Proof. vm_compute; reflexivity. Qed.

(** coverage: use sites and extension leaves judged *)
Example judged_p01 : judged p01 = (8, 2).
Proof. vm_compute; reflexivity. Qed.
Example judged_p13 : judged p13 = (14, 3).
Proof. vm_compute; reflexivity. Qed.

(** ** Negative examples: the model's output, damaged *)

(** rewrite the first instruction of a stack on which [g] answers *)
Fixpoint map_first (g : instr -> option instr) (c : list instr) : list instr :=
  match c with
  | [] => []
  | i :: c' => match g i with Some i' => i' :: c' | None => i :: map_first g c' end
  end.

(** remove the first instruction on which [g] answers true *)
Fixpoint drop_first (g : instr -> bool) (c : list instr) : list instr :=
  match c with
  | [] => []
  | i :: c' => if g i then c' else i :: drop_first g c'
  end.

Definition set_ctx (c : list instr) (b : block) : block :=
  Block (b_values b) (b_inner b) (b_labels b) (b_reg b) (b_mret b) c (b_kids b).

(** damage the root stack of the last function ([main]) *)
Definition damage (d : list instr -> list instr) (o : output) : output :=
  Output (o_errors o) (o_globals o) (o_gstack o)
         (match rev (o_fns o) with
          | b :: r => rev r ++ [set_ctx (d (b_ctx b)) b]
          | [] => []
          end).

Definition damaged (d : list instr -> list instr) (f : program -> output -> bool) (p : program)
  : bool :=
  match run p with ROk o => f p (damage d o) | _ => false end.

(** the identity damage changes nothing *)
Example damage_id : damaged (fun c => c) (fun p o => chk_C06 p o && chk_C19 p o) p01 = true.
Proof. vm_compute; reflexivity. Qed.

(** N1. swap the operands of one [ExpressionOperation] *)
Definition swap_op (i : instr) : option instr :=
  match i with IExprOp o l r reg => Some (IExprOp o r l reg) | _ => None end.
Example neg_swap_operands : damaged (map_first swap_op) chk_C06 p01 = false.
Proof. vm_compute; reflexivity. Qed.
Example neg_swap_operands_15 : damaged (map_first swap_op) chk_C06 p15 = false.
Proof. vm_compute; reflexivity. Qed.

(** N2. replace one operand register by another defined register: the let of [p04]'s [r] binds
    the register of the first read instead of the sum *)
Definition first_def (c : list instr) : N := match defs c with r :: _ => r | [] => 0 end.
Definition rebind (n : N) (i : instr) : option instr :=
  match i with
  | ILet v (ERes t (RReg _)) => Some (ILet v (ERes t (RReg n)))
  | _ => None
  end.
Example neg_other_register :
  damaged (fun c => map_first (rebind (first_def c)) c) chk_C06 p10 = false.
Proof. vm_compute; reflexivity. Qed.
(** ... and the right operand of an operation reads the register of the left one *)
Definition dup_left (i : instr) : option instr :=
  match i with
  | IExprOp o l (ERes t (RReg _)) reg => Some (IExprOp o l (ERes t (r_val l)) reg)
  | _ => None
  end.
Example neg_dup_left : damaged (map_first dup_left) chk_C06 p04 = false.
Proof. vm_compute; reflexivity. Qed.

(** N3. swap the two registers of a [LogicCondition] *)
Definition swap_logic (i : instr) : option instr :=
  match i with ILogic o l r reg => Some (ILogic o r l reg) | _ => None end.
Example neg_swap_logic : damaged (map_first swap_logic) chk_C06 p03 = false.
Proof. vm_compute; reflexivity. Qed.
(** ... change its connective *)
Definition flip_logic (i : instr) : option instr :=
  match i with
  | ILogic LAnd l r reg => Some (ILogic LOr l r reg)
  | ILogic LOr l r reg => Some (ILogic LAnd l r reg)
  | _ => None
  end.
Example neg_flip_logic : damaged (map_first flip_logic) chk_C06 p13 = false.
Proof. vm_compute; reflexivity. Qed.

(** N4. change a comparator; swap the sides of a comparison *)
Definition change_cmp (i : instr) : option instr :=
  match i with
  | ICondExpr l r CLess reg => Some (ICondExpr l r CLessEq reg)
  | _ => None
  end.
Example neg_comparator : damaged (map_first change_cmp) chk_C06 p03 = false.
Proof. vm_compute; reflexivity. Qed.
Definition swap_cmp (i : instr) : option instr :=
  match i with ICondExpr l r c reg => Some (ICondExpr r l c reg) | _ => None end.
Example neg_swap_sides : damaged (map_first swap_cmp) chk_C06 p16 = false.
Proof. vm_compute; reflexivity. Qed.

(** N5. the conditional tests the register of the first comparison instead of the final one *)
Definition first_cmp_reg (c : list instr) : N :=
  match flat_map (fun i => match i with ICondExpr _ _ _ r => [r] | _ => [] end) c with
  | r :: _ => r
  | [] => 0
  end.
Definition retarget (n : N) (i : instr) : option instr :=
  match i with IIfCondLogic a b _ => Some (IIfCondLogic a b n) | _ => None end.
Example neg_tests_first_comparison :
  damaged (fun c => map_first (retarget (first_cmp_reg c)) c) chk_C06 p03 = false.
Proof. vm_compute; reflexivity. Qed.

(** N6. drop one extension instruction: both monitors object *)
Definition is_ext (i : instr) : bool := match i with IExt _ _ => true | _ => false end.
Example neg_drop_ext_C06 : damaged (drop_first is_ext) chk_C06 p07 = false.
Proof. vm_compute; reflexivity. Qed.
Example neg_drop_ext_C19_order : damaged (drop_first is_ext) chk_C19_order p07 = false.
Proof. vm_compute; reflexivity. Qed.
(** (the loop block still holds it and its parent does not) *)
Definition is_ext_tag (t : N) (i : instr) : bool :=
  match i with IExt t' _ => N.eqb t t' | _ => false end.
Example neg_drop_ext_C19_blocks : damaged (drop_first (is_ext_tag 11)) chk_C19_blocks p07 = false.
Proof. vm_compute; reflexivity. Qed.
(** ... duplicate one; exchange the tags of two *)
Fixpoint dup_first_ext (c : list instr) : list instr :=
  match c with
  | [] => []
  | i :: c' => if is_ext i then i :: i :: c' else i :: dup_first_ext c'
  end.
Example neg_dup_ext : damaged dup_first_ext chk_C19 p01 = false.
Proof. vm_compute; reflexivity. Qed.
Definition retag (i : instr) : instr :=
  match i with
  | IExt 1 r => IExt 2 r
  | IExt 2 r => IExt 1 r
  | _ => i
  end.
Example neg_retag_C19 : damaged (map retag) chk_C19_order p01 = false.
Proof. vm_compute; reflexivity. Qed.
Example neg_retag_C06 : damaged (map retag) chk_C06 p01 = false.
Proof. vm_compute; reflexivity. Qed.

(** N7. change the type carried by an operand that names an extension register: C19 objects
    (C06 compares values, not types) *)
Definition retype (i : instr) : option instr :=
  match i with
  | IExprOp o (ERes _ (RReg n)) r reg => Some (IExprOp o (ERes (SPrim PI64) (RReg n)) r reg)
  | _ => None
  end.
Example neg_retype_C19 : damaged (map_first retype) chk_C19_types p19 = false.
Proof. vm_compute; reflexivity. Qed.
Example neg_retype_C06 : damaged (map_first retype) chk_C06 p19 = true.
Proof. vm_compute; reflexivity. Qed.
Definition retype_let (i : instr) : option instr :=
  match i with
  | ILet v (ERes _ (RReg n)) => Some (ILet v (ERes (SPrim PI32) (RReg n)))
  | _ => None
  end.
Example neg_retype_let_C19 : damaged (map_first retype_let) chk_C19_types p20 = false.
Proof. vm_compute; reflexivity. Qed.

(** N8. swap the arguments of a call *)
Definition swap_args (i : instr) : option instr :=
  match i with
  | ICall f [x; y] r => Some (ICall f [y; x] r)
  | _ => None
  end.
Example neg_swap_args : damaged (map_first swap_args) chk_C06 p02 = false.
Proof. vm_compute; reflexivity. Qed.

(** N9. a wrong field index *)
Definition other_field (i : instr) : option instr :=
  match i with IExprStruct v idx r => Some (IExprStruct v (idx + 1) r) | _ => None end.
Example neg_field_index : damaged (map_first other_field) chk_C06 p16 = false.
Proof. vm_compute; reflexivity. Qed.

(** N10. the F7 rule is needed and is not a licence: an operand two registers after a call *)
Definition past_call (i : instr) : option instr :=
  match i with
  | ILet v (ERes t (RReg n)) => Some (ILet v (ERes t (RReg (n + 1))))
  | _ => None
  end.
Example neg_past_call : damaged (map_first past_call) chk_C06 p02 = false.
Proof. vm_compute; reflexivity. Qed.

(** N11. a read of the shadowed declaration instead of the shadowing one: the names agree, the
    declarations do not (only the scoped comparison objects) *)
Definition read_outer (i : instr) : option instr :=
  match i with
  | IExprValue (Value "a.0" t m) r => Some (IExprValue (Value "a" t m) r)
  | _ => None
  end.
Example neg_scope_names : damaged (map_first read_outer) chk_C06 p04 = true.
Proof. vm_compute; reflexivity. Qed.
Example neg_scope_scoped : damaged (map_first read_outer) chk_C06_scoped p04 = false.
Proof. vm_compute; reflexivity. Qed.

(** N12. a missing use site (the last return dropped), a let under another name *)
Definition is_ret (i : instr) : bool :=
  match i with IFnRet _ | IFnRetLabel _ => true | _ => false end.
Example neg_missing_site : damaged (drop_first is_ret) chk_C06 p17 = false.
Proof. vm_compute; reflexivity. Qed.
Definition assign_other (i : instr) : option instr :=
  match i with
  | IBind (Value _ t m) e => Some (IBind (Value "a" t m) e)
  | _ => None
  end.
Example neg_assign_other : damaged (map_first assign_other) chk_C06 p03 = false.
Proof. vm_compute; reflexivity. Qed.
